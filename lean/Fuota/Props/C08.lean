import Fuota.Lemmas.OpsSess
import Fuota.Lemmas.OpsFlash
import Fuota.Lemmas.OpsStart
/-!
# C08 — every erase and program stays inside one slot; the header area only ever receives header words

Model: `Fuota.Fs` (device monad, slot accessors, `alloc_slotpair`), `Fuota.Updater` (`start_update`,
`handle_segment`, `check_and_mark_done`, `try_recover`, `cancel_all_ext_pending`), over the NOR model `Fuota.Nor`.
The device state is arbitrary in every theorem: any contents, any crash point (clean or tearing), any pending
transient fault, dead or alive. So every statement also covers the crash / torn / fault-injected runs.

* calculus: `Fuota.Ops.EmitsR` / `Emits` / `EmitsU` (`Fuota/Lemmas/OpsCalc.lean`), rules `EmitsR.pure`, `.throw`,
  `.bind`, `.seq`, `.get_bind`, `.ite`, `readTo_emits`, `writeFrom_emits`, `eraseBlock_emits`, `EmitsU.liftM`, …,
  and the two readings `EmitsR.invariant`, `EmitsAt.new_ops`.
* `InSlot B size i op`: the byte range of `op` lies in `[i·size, i·size + size)`; an erase covers `B` bytes
  (`B` = the erase-block size of the device, which no operation changes).
* `HdrClean size op`: a non-empty program whose offset within its slot (`addr % size`) is below `0x400` is exactly
  4 bytes at one of the offsets `0,4,…,24`, or a torn version of such a program (`HdrClean.program`: at most 4
  bytes at such an offset).
-/
namespace Fuota.C08
open Fuota.Nor Fuota.Fs Fuota.Layout Fuota.Updater Fuota.Ops

variable {α : Type}

/-- the run from `d` to `d'` appended the operations `new` to the log (dropping or changing nothing), the flash of
    `d'` is the flash of `d` with exactly these operations applied (`Ops.Replay`), and all of them satisfy `P` -/
def NewOps (d d' : Dev) (P : Op → Prop) : Prop := ∃ new, Replay d d' new ∧ ∀ op ∈ new, P op

theorem NewOps.mono {d d' : Dev} {P P' : Op → Prop} (h : NewOps d d' P) (hP : ∀ op, P op → P' op) :
    NewOps d d' P' := by
  obtain ⟨new, h1, h2⟩ := h
  exact ⟨new, h1, fun op hop => hP op (h2 op hop)⟩

/-- the log reading -/
theorem NewOps.log {d d' : Dev} {P : Op → Prop} (h : NewOps d d' P) :
    ∃ new, d'.ops = new ++ d.ops ∧ ∀ op ∈ new, P op := by
  obtain ⟨new, h1, h2⟩ := h
  exact ⟨new, h1.ops, h2⟩

/-- the "not already there" reading -/
theorem NewOps.mem {d d' : Dev} {P : Op → Prop} (h : NewOps d d' P) : ∀ op ∈ d'.ops, op ∈ d.ops ∨ P op := by
  obtain ⟨new, h1, h2⟩ := h
  intro op hop
  rw [h1.ops] at hop
  rcases List.mem_append.1 hop with h | h
  · exact Or.inr (h2 op h)
  · exact Or.inl h

/-- the composable invariant reading -/
theorem NewOps.invariant {d d' : Dev} {P : Op → Prop} (h : NewOps d d' P) (hd : ∀ op ∈ d.ops, P op) :
    ∀ op ∈ d'.ops, P op := fun op hop => (h.mem op hop).elim (hd op) id

/-- nothing was emitted -/
theorem NewOps.none {d d' : Dev} (h : NewOps d d' (fun _ => False)) :
    d'.ops = d.ops ∧ d'.flash = d.flash ∧ d'.needsSet = d.needsSet := by
  obtain ⟨new, h1, h2⟩ := h
  cases new with
  | nil =>
    refine ⟨by simpa using h1.ops, by simpa [Flash.applyAll] using h1.flash, ?_⟩
    have := h1.lo
    have := h1.hi
    simp only [List.reverse_nil, needCount] at this
    omega
  | cons o os => exact (h2 o List.mem_cons_self).elim

theorem newOps_of {B : Nat} {Q : Op → Prop} {R : α → Prop} {x : M α} (h : EmitsR B Q R x) (d : Dev)
    (hB : d.flash.block = B) : NewOps d (x.run d).2 Q := (h d hB).2.1

/-! ## 2a. slot accessors -/

/-- **Every slot accessor stays inside its slot**, from every device state, under these hypotheses only:

* `clear`: none (it checks `block ≠ 0` and `block ∣ size` itself and panics otherwise);
* header words (`writeWord` at an offset `0,4,…,24`, `setLayout`, `setKind`, `writeSeqNo`, the five marks):
  the slot holds a header (`28 ≤ size`);
* `writeRaw`: `HEADER_SIZE ≤ size` (its own check includes the buffer length);
* `markSegmentWritten idx`: `WRITTEN_OFFSET + idx < size` — its own check is `offset > size`, one byte short;
  every slot size above 17408 gives this because the index check leaves `idx ≤ 16384`;
* `writeSegment idx buf`: `DATA_REGION_OFFSET + (idx+1)·|buf| ≤ size`. **Its own check,
  `DATA_REGION_OFFSET + idx·seg > size`, does not include the buffer length**, so this is not implied by the
  function; in a session it follows from `seg·n ≤ size − 17408` and `idx < n` (`SlotGeom.segment_fits`). -/
theorem slot_ops_in_slot (s : Slot) (d : Dev) :
    let In := InSlot d.flash.block s.size s.idx
    NewOps d (s.clear.run d).2 In ∧
    (∀ off w, off % 4 = 0 → off ≤ 24 → 28 ≤ s.size → NewOps d ((s.writeWord off w).run d).2 In) ∧
    (∀ nseg segsz, 28 ≤ s.size → NewOps d ((s.setLayout nseg segsz).run d).2 In) ∧
    (∀ k, 28 ≤ s.size → NewOps d ((s.setKind k).run d).2 In) ∧
    (∀ w, 28 ≤ s.size → NewOps d ((s.writeSeqNo w).run d).2 In) ∧
    (28 ≤ s.size → NewOps d (s.markExtAborted.run d).2 In ∧ NewOps d (s.markExtComplete.run d).2 In ∧
      NewOps d (s.markIntComplete.run d).2 In ∧ NewOps d (s.markBootOk.run d).2 In ∧
      NewOps d (s.markBootBad.run d).2 In) ∧
    (∀ off buf, HEADER_SIZE ≤ s.size → NewOps d ((s.writeRaw off buf).run d).2 In) ∧
    (∀ idx, WRITTEN_OFFSET + idx < s.size → NewOps d ((s.markSegmentWritten idx).run d).2 In) ∧
    (∀ idx buf, DATA_REGION_OFFSET + (idx + 1) * buf.length ≤ s.size →
      NewOps d ((s.writeSegment idx buf).run d).2 In) := by
  intro In
  have conv : ∀ op, SlotOp d.flash.block s.size s.idx op → In op := fun _ h => h.inSlot
  refine ⟨?_, ?_, ?_, ?_, ?_, ?_, ?_, ?_, ?_⟩
  · exact (newOps_of (clear_emits s) d rfl).mono conv
  · intro off w h4 h24 hs; exact (newOps_of (writeWord_emits s off w h4 h24 hs) d rfl).mono conv
  · intro nseg segsz hs; exact (newOps_of (setLayout_emits s nseg segsz hs) d rfl).mono conv
  · intro k hs; exact (newOps_of (setKind_emits s k hs) d rfl).mono conv
  · intro w hs; exact (newOps_of (writeSeqNo_emits s w hs) d rfl).mono conv
  · intro hs
    exact ⟨(newOps_of (markExtAborted_emits s hs) d rfl).mono conv,
      (newOps_of (markExtComplete_emits s hs) d rfl).mono conv,
      (newOps_of (markIntComplete_emits s hs) d rfl).mono conv,
      (newOps_of (markBootOk_emits s hs) d rfl).mono conv,
      (newOps_of (markBootBad_emits s hs) d rfl).mono conv⟩
  · intro off buf hs; exact (newOps_of (writeRaw_emits s off buf hs) d rfl).mono (fun _ h => conv _ h.slotOp)
  · intro idx h; exact (newOps_of (markSegmentWritten_emits s idx h) d rfl).mono (fun _ h => conv _ h.slotOp)
  · intro idx buf h; exact (newOps_of (writeSegment_emits s idx buf h) d rfl).mono (fun _ h => conv _ h.slotOp)

/-- the hypothesis of `writeSegment` is not redundant: these numbers pass `write_segment`'s own check
    (`offset ≤ size`) although the last bytes of the segment lie beyond the slot -/
example : ¬ (DATA_REGION_OFFSET + 1 * 8 > 17418) ∧ ¬ (DATA_REGION_OFFSET + (1 + 1) * 8 ≤ 17418) := by decide

/-! ## 2b. sessions -/

theorem TwoOp.inSlot {B s a b : Nat} {op : Op} (h : TwoOp B s a b op) : InSlot B s a op ∨ InSlot B s b op :=
  h.elim (fun h => Or.inl h.inSlot) (fun h => Or.inr h.inSlot)

theorem TwoOp.hdrClean {B s a b : Nat} {op : Op} (h : TwoOp B s a b op) : HdrClean s op :=
  h.elim (fun h => h.hdrClean) (fun h => h.hdrClean)

/-- the footprint of `start_update`, with the header cleanliness kept alongside -/
theorem start_footprint (nslots slotSize sz n : Nat) (d : Dev) :
    let r := (startUpdate nslots slotSize sz n).run d
    (NewOps d r.2 (fun _ => False) ∧ ∀ u, r.1 ≠ .ok u) ∨
    ∃ hs a b sa sb,
      ((loadHeaders nslots slotSize).run d).1 = .ok hs ∧ choosePair nslots hs = .ok (a, b, sa, sb) ∧
      (2 ≤ nslots → a < nslots ∧ b < nslots) ∧
      NewOps d r.2 (TwoOp d.flash.block slotSize a b) ∧
      ∀ u, r.1 = .ok u →
        u.fw.idx = a ∧ u.par.idx = b ∧ u.fw.size = slotSize ∧ u.par.size = slotSize ∧ SessionGeom u := by
  intro r
  rcases startUpdate_emitsAt nslots slotSize sz n d with h | ⟨hs, a, b, sa, sb, hL, hcp, hrs, h⟩
  · left
    exact ⟨h.2.1, fun u hu => h.2.2 u hu⟩
  · right
    refine ⟨hs, a, b, sa, sb, hL, hcp, ?_, h.2.1, ?_⟩
    · intro h2
      have hlen := (loadHeaders_emits (Q := fun _ => False) nslots slotSize d rfl).2.2 hs hL
      exact choosePair_lt nslots hs hlen h2 a b sa sb hcp
    · intro u hu
      have hres := h.2.2 u hu
      exact ⟨hres.1, hres.2.2.1, hres.2.1, hres.2.2.2.1, hres.sessionGeom hrs⟩

/-- **`start_update` stays inside the pair it allocates** — from every device state, for every requested
geometry, every ring size and every slot size: either nothing is written and no session is returned, or the
headers read from that state make `choosePair` return `(a, b, …)`, both `< nslots` when the ring has at least
two slots, and every operation lies inside slot `a` or inside slot `b`; a returned session sits on exactly these
two slots and has the session geometry. (No hypothesis on the erase-block size or slot size is needed: `clear`
and `is_reasonably_sized` check what is required, in particular `17408 < slotSize`.) -/
theorem start_ops_in_pair (nslots slotSize sz n : Nat) (d : Dev) :
    let r := (startUpdate nslots slotSize sz n).run d
    (r.2.ops = d.ops ∧ ∀ u, r.1 ≠ .ok u) ∨
    ∃ hs a b sa sb,
      ((loadHeaders nslots slotSize).run d).1 = .ok hs ∧ choosePair nslots hs = .ok (a, b, sa, sb) ∧
      (2 ≤ nslots → a < nslots ∧ b < nslots) ∧
      NewOps d r.2 (fun op => InSlot d.flash.block slotSize a op ∨ InSlot d.flash.block slotSize b op) ∧
      ∀ u, r.1 = .ok u →
        u.fw.idx = a ∧ u.par.idx = b ∧ u.fw.size = slotSize ∧ u.par.size = slotSize ∧ SessionGeom u := by
  intro r
  rcases start_footprint nslots slotSize sz n d with h | ⟨hs, a, b, sa, sb, h1, h2, h3, h4, h5⟩
  · exact Or.inl ⟨h.1.none.1, h.2⟩
  · exact Or.inr ⟨hs, a, b, sa, sb, h1, h2, h3, h4.mono (fun _ h => TwoOp.inSlot h), h5⟩

/-- `choosePair` never leaves a ring of at least two slots (the wrap-around at the last slot included) -/
theorem choosePair_in_ring (nslots : Nat) (hs : List (Option Header)) (hlen : hs.length = nslots)
    (h2 : 2 ≤ nslots) (a b sa sb : Nat) (h : choosePair nslots hs = .ok (a, b, sa, sb)) :
    a < nslots ∧ b < nslots := choosePair_lt nslots hs hlen h2 a b sa sb h

theorem PairOp.inSlot {B : Nat} {u : Upd} {op : Op} (h : PairOp B u op) :
    InSlot B u.fw.size u.fw.idx op ∨ InSlot B u.par.size u.par.idx op :=
  h.elim (fun h => Or.inl h.inSlot) (fun h => Or.inr h.inSlot)

/-- the footprint of `handle_segment` together with what it preserves -/
theorem segment_footprint (ffr : Bool) (idx : Nat) (bytes : List Nat) (u : Upd) (d : Dev) (hg : SlotGeom u) :
    let r := (handleSegment ffr idx bytes).run (u, d)
    NewOps d r.2.2 (PairOp d.flash.block u) ∧ SameSess u r.2.1 ∧ (u.l ≤ u.maxL → r.2.1.l ≤ r.2.1.maxL) := by
  intro r
  have h := handleSegment_emits (B := d.flash.block) (u.l ≤ u.maxL) u hg ffr idx bytes u d rfl
    ⟨SameSess.refl u, fun h => h⟩
  exact ⟨NewOps.mono h.2.1 (fun _ h => h.pairOp), h.2.2.1.1, h.2.2.1.2⟩

/-- **`handle_segment` stays inside the session's two slots** — for every fragment index (0, data, coded, far out
of range), every payload, every in-memory updater state reachable or not, and every device state, provided the
session has the geometry facts `SlotGeom` (both slots larger than 17408 bytes and `bs·n ≤ size − 17408`), which
`start_update` and `try_recover` establish and `handle_segment` preserves. The firmware-slot part needs the
geometry (`write_segment` does not check the end of the buffer); the parity-slot part holds for every index
because `write_raw` checks the full range itself. -/
theorem segment_ops_in_pair (ffr : Bool) (idx : Nat) (bytes : List Nat) (u : Upd) (d : Dev) (hg : SlotGeom u) :
    let r := (handleSegment ffr idx bytes).run (u, d)
    NewOps d r.2.2 (fun op => InSlot d.flash.block u.fw.size u.fw.idx op ∨
                              InSlot d.flash.block u.par.size u.par.idx op) ∧
    r.2.1.fw.idx = u.fw.idx ∧ r.2.1.fw.size = u.fw.size ∧ r.2.1.par.idx = u.par.idx ∧
    r.2.1.par.size = u.par.size ∧ SlotGeom r.2.1 := by
  intro r
  obtain ⟨h1, h2, _⟩ := segment_footprint ffr idx bytes u d hg
  exact ⟨h1.mono (fun _ h => PairOp.inSlot h), h2.fw.1, h2.fw.2, h2.par.1, h2.par.2, hg.of_same h2⟩

/-- `handle_segment` preserves the full session geometry (so the two theorems above apply to the whole feed) -/
theorem segment_keeps_geom (ffr : Bool) (idx : Nat) (bytes : List Nat) (u : Upd) (d : Dev) (hg : SessionGeom u) :
    SessionGeom ((handleSegment ffr idx bytes).run (u, d)).2.1 := by
  obtain ⟨_, h2, h3⟩ := segment_footprint ffr idx bytes u d hg.toSlotGeom
  exact hg.of_inv ⟨h2, fun _ => h3 hg.lLe⟩

/-- a recovered session (which may not have `maxL = capacity`) still has what `segment_ops_in_pair` needs,
    and `l ≤ maxL` -/
theorem recovered_geom (nslots slotSize : Nat) (hsz : 28 ≤ slotSize) (d : Dev) (u : Upd)
    (h : ((tryRecover nslots slotSize).run d).1 = .ok (some u)) : RecoveredGeom nslots slotSize u :=
  (tryRecover_emits (B := d.flash.block) nslots slotSize hsz d rfl).2.2 _ h u rfl

/-- **parity-slot stores fit**: in a session with the full geometry, for every `m < maxL` the ranges that
`pStore m` (a block of `bs` bytes) and `mSetRow m` (`m/8 + 1` bytes) address pass `write_raw`'s bound check with
room to spare: they end at or before `size − 17408` (offsets relative to the end of the header area). -/
theorem parity_stores_fit (u : Upd) (hg : SessionGeom u) (m : Nat) (hm : m < u.maxL) :
    m * u.bs + u.bs ≤ u.par.size - 17408 ∧
    u.matrixOffset + rowOff m + (m / 8 + 1) ≤ u.par.size - 17408 := by
  have hm' : m < capacity u.fw.size u.bs := by rw [← hg.maxLEq]; exact hm
  have h := C15.capacity_fits u.fw.size u.bs m hm'
  simp only at h
  obtain ⟨h1, h2, h3, _⟩ := h
  rw [hg.sameSize, hg.moEq, hg.maxLEq]
  have e : (m + 1) * u.bs = m * u.bs + u.bs := Nat.succ_mul _ _
  have := C15.rowOff_mono (Nat.zero_le (capacity u.fw.size u.bs))
  constructor
  · omega
  · omega

/-- **`check_and_mark_done` stays inside the session's two slots** (it only reads, then programs one header word
    in each slot) -/
theorem check_ops_in_pair (u : Upd) (d : Dev) (hf : 28 ≤ u.fw.size) (hp : 28 ≤ u.par.size) :
    NewOps d ((checkAndMarkDone u).run d).2
      (fun op => InSlot d.flash.block u.fw.size u.fw.idx op ∨ InSlot d.flash.block u.par.size u.par.idx op) :=
  (newOps_of (checkAndMarkDone_emits u hf hp) d rfl).mono (fun _ h => PairOp.inSlot h)

theorem RingOp.inSlot {B nslots slotSize : Nat} {op : Op} (h : RingOp B nslots slotSize op) :
    ∃ i, i < nslots ∧ InSlot B slotSize i op := by
  obtain ⟨i, hi, h⟩ := h
  exact ⟨i, hi, h.inSlot⟩

/-- **recovery, cancellation and the status marks touch one slot of the ring per operation**: every operation
`try_recover` and `cancel_all_ext_pending` emit lies entirely inside one slot `i < nslots`, for every device state;
the five marks on a slot `s` emit only operations inside slot `s`. -/
theorem recover_cancel_mark_ops_in_one_slot (nslots slotSize : Nat) (hsz : 28 ≤ slotSize) (d : Dev) :
    NewOps d ((tryRecover nslots slotSize).run d).2 (fun op => ∃ i, i < nslots ∧ InSlot d.flash.block slotSize i op) ∧
    NewOps d ((cancelAll nslots slotSize).run d).2 (fun op => ∃ i, i < nslots ∧ InSlot d.flash.block slotSize i op) ∧
    ∀ s : Slot, s.size = slotSize → s.idx < nslots →
      ∀ x ∈ [s.markExtAborted, s.markExtComplete, s.markIntComplete, s.markBootOk, s.markBootBad],
        NewOps d (x.run d).2 (fun op => ∃ i, i < nslots ∧ InSlot d.flash.block slotSize i op) := by
  refine ⟨(newOps_of (tryRecover_emits nslots slotSize hsz) d rfl).mono (fun _ h => RingOp.inSlot h),
    (newOps_of (cancelAll_emits nslots slotSize hsz) d rfl).mono (fun _ h => RingOp.inSlot h), ?_⟩
  intro s hs hi x hx
  have hs' : 28 ≤ s.size := by omega
  have conv : ∀ op, SlotOp d.flash.block s.size s.idx op → ∃ i, i < nslots ∧ InSlot d.flash.block slotSize i op :=
    fun op h => ⟨s.idx, hi, by rw [← hs]; exact h.inSlot⟩
  simp only [List.mem_cons, List.not_mem_nil, or_false] at hx
  rcases hx with rfl | rfl | rfl | rfl | rfl
  · exact (newOps_of (markExtAborted_emits s hs') d rfl).mono conv
  · exact (newOps_of (markExtComplete_emits s hs') d rfl).mono conv
  · exact (newOps_of (markIntComplete_emits s hs') d rfl).mono conv
  · exact (newOps_of (markBootOk_emits s hs') d rfl).mono conv
  · exact (newOps_of (markBootBad_emits s hs') d rfl).mono conv

/-! ## 2c. the header area -/

/-- **Nothing but header words is programmed into a header area.** For `start_update`, `handle_segment` (session
with both slots of one size), `check_and_mark_done`, `try_recover`, `cancel_all_ext_pending` and the five marks,
from every device state: every emitted operation is `HdrClean` — a non-empty program whose offset within its
slot is below `0x400` is exactly 4 bytes at one of the offsets `0,4,…,24`, or the torn prefix of such a program
(`HdrClean.program`: at most 4 bytes, at such an offset). Erases are whole blocks inside the slot (see the
in-slot theorems). -/
theorem header_area_clean (nslots slotSize : Nat) (d : Dev) :
    (∀ sz n, NewOps d ((startUpdate nslots slotSize sz n).run d).2 (HdrClean slotSize)) ∧
    (∀ ffr idx bytes (u : Upd), SlotGeom u → u.fw.size = slotSize → u.par.size = slotSize →
      NewOps d ((handleSegment ffr idx bytes).run (u, d)).2.2 (HdrClean slotSize)) ∧
    (∀ u : Upd, 28 ≤ slotSize → u.fw.size = slotSize → u.par.size = slotSize →
      NewOps d ((checkAndMarkDone u).run d).2 (HdrClean slotSize)) ∧
    (28 ≤ slotSize → NewOps d ((tryRecover nslots slotSize).run d).2 (HdrClean slotSize)) ∧
    (28 ≤ slotSize → NewOps d ((cancelAll nslots slotSize).run d).2 (HdrClean slotSize)) ∧
    (∀ s : Slot, 28 ≤ slotSize → s.size = slotSize →
      ∀ x ∈ [s.markExtAborted, s.markExtComplete, s.markIntComplete, s.markBootOk, s.markBootBad],
        NewOps d (x.run d).2 (HdrClean slotSize)) := by
  refine ⟨?_, ?_, ?_, ?_, ?_, ?_⟩
  · intro sz n
    rcases start_footprint nslots slotSize sz n d with h | ⟨hs, a, b, sa, sb, _, _, _, h4, _⟩
    · exact h.1.mono (fun _ h => h.elim)
    · exact h4.mono (fun _ h => TwoOp.hdrClean h)
  · intro ffr idx bytes u hg hf hp
    refine (segment_footprint ffr idx bytes u d hg).1.mono (fun op h => ?_)
    rcases h with h | h
    · rw [← hf]; exact h.hdrClean
    · rw [← hp]; exact h.hdrClean
  · intro u hsz hf hp
    refine (newOps_of (checkAndMarkDone_emits u (by omega) (by omega)) d rfl).mono (fun op h => ?_)
    rcases h with h | h
    · rw [← hf]; exact h.hdrClean
    · rw [← hp]; exact h.hdrClean
  · intro hsz
    exact (newOps_of (tryRecover_emits nslots slotSize hsz) d rfl).mono (fun _ ⟨_, _, h⟩ => h.hdrClean)
  · intro hsz
    exact (newOps_of (cancelAll_emits nslots slotSize hsz) d rfl).mono (fun _ ⟨_, _, h⟩ => h.hdrClean)
  · intro s hsz hs x hx
    have hs' : 28 ≤ s.size := by omega
    have conv : ∀ op, SlotOp d.flash.block s.size s.idx op → HdrClean slotSize op :=
      fun op h => by rw [← hs]; exact h.hdrClean
    simp only [List.mem_cons, List.not_mem_nil, or_false] at hx
    rcases hx with rfl | rfl | rfl | rfl | rfl
    · exact (newOps_of (markExtAborted_emits s hs') d rfl).mono conv
    · exact (newOps_of (markExtComplete_emits s hs') d rfl).mono conv
    · exact (newOps_of (markIntComplete_emits s hs') d rfl).mono conv
    · exact (newOps_of (markBootOk_emits s hs') d rfl).mono conv
    · exact (newOps_of (markBootBad_emits s hs') d rfl).mono conv

/-! ## 2d. regions -/

/-- two byte ranges `[a, a+la)` and `[b, b+lb)` do not overlap -/
def Apart (a la b lb : Nat) : Prop := a + la ≤ b ∨ b + lb ≤ a

theorem mul_succ_le_of_lt {i j bs : Nat} (h : i < j) : i * bs + bs ≤ j * bs := by
  have : (i + 1) * bs ≤ j * bs := Nat.mul_le_mul_right bs h
  rw [Nat.succ_mul] at this
  exact this

/-- **the regions of a session never overlap.** Offsets are relative to the start of the slot.
Parity slot, for `m, m' < maxL`: block `m` = `[1024 + m·bs, +bs)`, matrix row `m'` =
`[1024 + maxL·bs + rowOff m', + m'/8 + 1)`; distinct blocks, distinct rows, and any block and any row are disjoint,
and all of them lie in `[1024, size − 16384)`.
Firmware slot, for `i, j < n`: data segment `i` = `[17408 + i·bs, +bs)`, status byte `j` = `[1024 + j, +1)`,
header word `k < 7` = `[4k, +4)`; distinct segments, distinct status bytes, any segment, any status byte and any
header word are pairwise disjoint, and all of them lie inside the slot. -/
theorem regions_disjoint (u : Upd) (hg : SessionGeom u) :
    (∀ m m', m < u.maxL → m' < u.maxL →
      (m ≠ m' → Apart (1024 + m * u.bs) u.bs (1024 + m' * u.bs) u.bs) ∧
      (m ≠ m' → Apart (1024 + u.matrixOffset + rowOff m) (m / 8 + 1)
                      (1024 + u.matrixOffset + rowOff m') (m' / 8 + 1)) ∧
      Apart (1024 + m * u.bs) u.bs (1024 + u.matrixOffset + rowOff m') (m' / 8 + 1) ∧
      1024 + m * u.bs + u.bs ≤ u.par.size - 16384 ∧
      1024 + u.matrixOffset + rowOff m' + (m' / 8 + 1) ≤ u.par.size - 16384) ∧
    (∀ i j k, i < u.n → j < u.n → k < 7 →
      (i ≠ j → Apart (17408 + i * u.bs) u.bs (17408 + j * u.bs) u.bs) ∧
      (i ≠ j → Apart (1024 + i) 1 (1024 + j) 1) ∧
      Apart (1024 + j) 1 (17408 + i * u.bs) u.bs ∧
      Apart (4 * k) 4 (1024 + j) 1 ∧
      Apart (4 * k) 4 (17408 + i * u.bs) u.bs ∧
      17408 + i * u.bs + u.bs ≤ u.fw.size) := by
  have hps : 17408 < u.par.size := hg.parSize
  constructor
  · intro m m' hm hm'
    obtain ⟨f1, f2⟩ := parity_stores_fit u hg m hm
    obtain ⟨f1', f2'⟩ := parity_stores_fit u hg m' hm'
    have hmo := hg.moEq
    have hblk : m * u.bs + u.bs ≤ u.maxL * u.bs := mul_succ_le_of_lt hm
    refine ⟨?_, ?_, ?_, by omega, by omega⟩
    · intro hne
      rcases Nat.lt_or_gt_of_ne hne with h | h
      · left; have := mul_succ_le_of_lt (bs := u.bs) h; omega
      · right; have := mul_succ_le_of_lt (bs := u.bs) h; omega
    · intro hne
      rcases Nat.lt_or_gt_of_ne hne with h | h
      · left
        have := C15.rowOff_mono (show m + 1 ≤ m' from h)
        rw [C15.rowOff_succ] at this
        omega
      · right
        have := C15.rowOff_mono (show m' + 1 ≤ m from h)
        rw [C15.rowOff_succ] at this
        omega
    · left; omega
  · intro i j k hi hj hk
    have hn := hg.nOk
    have hfit := hg.toSlotGeom.segment_fits hi
    have e : (i + 1) * u.bs = i * u.bs + u.bs := Nat.succ_mul _ _
    have hD : DATA_REGION_OFFSET = 17408 := rfl
    refine ⟨?_, ?_, ?_, ?_, ?_, by omega⟩
    · intro hne
      rcases Nat.lt_or_gt_of_ne hne with h | h
      · left; have := mul_succ_le_of_lt (bs := u.bs) h; omega
      · right; have := mul_succ_le_of_lt (bs := u.bs) h; omega
    · intro hne
      rcases Nat.lt_or_gt_of_ne hne with h | h
      · left; omega
      · right; omega
    · left; omega
    · left; omega
    · left; omega

/-! ## 2e. no 0 → 1 transition -/

/-- **NOR facts.** Programming onto erased (`0xFF`) bytes never needs a 0 → 1 transition; re-programming identical
bytes never does (`a &&& a = a`); a program inside the device that needs none reads back exactly what was written;
an erase leaves `0xFF` in the whole block. (`Flash.needsSet` is what the device monad counts in `Dev.needsSet`:
`mutate` adds 1 to the counter exactly when it applies an untorn program for which `Flash.needsSet` is true —
this is the `lo`/`hi` part of `Ops.Replay`.) -/
theorem no_zero_to_one (f : Flash) (a : Nat) (bs : List Nat) :
    ((∀ i, i < bs.length → f.byte (a + i) = 0xFF) → (∀ i, i < bs.length → bs.getD i 0 < 256) →
      f.needsSet a bs = false) ∧
    ((∀ i, i < bs.length → f.byte (a + i) = bs.getD i 0) → f.needsSet a bs = false) ∧
    (a + bs.length ≤ f.size → f.needsSet a bs = false → (f.apply (.program a bs)).read a bs.length = bs) ∧
    (∀ x, a ≤ x ∧ x < a + f.block → (f.apply (.erase a)).byte x = 0xFF) :=
  ⟨needsSet_erased f a bs, needsSet_same f a bs, program_readback f a bs, fun x hx => erase_byte f a x hx⟩

/-- **Session level, partial.** For every run whose footprint is known (`NewOps`, i.e. every theorem above): the
flash afterwards is the flash before with exactly the emitted operations applied, the 0 → 1 counter never
decreases, it grows by at most the number of emitted programs that needed a 0 → 1 transition when replayed, and
therefore it **stays unchanged whenever the emitted operations obey the write-once discipline**
(`Ops.Discipline`: each program, at the moment it is applied, targets bytes that are erased or already hold the
value).

What is missing for the unconditional statement "in a crash-free session the counter stays 0": a proof that the
sequences the library emits satisfy `Discipline`. That needs (i) the write-once contracts of C09 (each data,
parity and matrix index stored at most once) transported from the abstract stores of `Fuota.Recon` to the
flash-backed stores of `Fuota.Updater`, (ii) the fact that `alloc_slotpair` erases both slots completely before
the first program, and (iii) a frame invariant "every region of `regions_disjoint` not yet written is still
erased", carried through `handle_segment`. -/
theorem no_zero_to_one_partial (d d' : Dev) (P : Op → Prop) (h : NewOps d d' P) :
    ∃ new, d'.ops = new ++ d.ops ∧ d'.flash = d.flash.applyAll new.reverse ∧
      d.needsSet ≤ d'.needsSet ∧ d'.needsSet ≤ d.needsSet + needCount d.flash new.reverse ∧
      (Discipline d.flash new.reverse → d'.needsSet = d.needsSet) := by
  obtain ⟨new, h1, _⟩ := h
  refine ⟨new, h1.ops, h1.flash, h1.lo, h1.hi, fun hd => ?_⟩
  have := needCount_of_discipline _ _ hd
  have := h1.lo
  have := h1.hi
  omega

/-- the partial statement instantiated for a whole `handle_segment` call (any index, payload, device state) -/
theorem segment_no_zero_to_one_partial (ffr : Bool) (idx : Nat) (bytes : List Nat) (u : Upd) (d : Dev)
    (hg : SlotGeom u) :
    let d' := ((handleSegment ffr idx bytes).run (u, d)).2.2
    ∃ new, d'.ops = new ++ d.ops ∧ d'.flash = d.flash.applyAll new.reverse ∧
      (Discipline d.flash new.reverse → d'.needsSet = d.needsSet) := by
  obtain ⟨new, h1, h2, _, _, h5⟩ := no_zero_to_one_partial _ _ _ (segment_footprint ffr idx bytes u d hg).1
  exact ⟨new, h1, h2, h5⟩

/-- the session `start_update` returns for the pair `(a, b)` -/
def startUpd (slotSize sz n a b : Nat) : Upd :=
  { fw := { idx := a, size := slotSize, segSize := if sz = 0 then none else some sz }
    par := { idx := b, size := slotSize, segSize := if sz = 0 then none else some sz }
    n := n
    bs := sz
    maxL := capacity slotSize sz
    matrixOffset := capacity slotSize sz * sz }

/-- **`start_update`, crash-free, complete.** On a healthy device (alive, no crash point, no pending fault) that
holds the whole ring, with an erase-block size `> 0` dividing the slot size, a ring of at least two slots and an
accepted geometry, `start_update` **succeeds**; it emits exactly `startOps` (both slots erased block by block, the
second first; then the two sequence numbers; then kind, count and size words of the firmware slot and of the parity
slot — 8 programs) on two different slots `a, b < nslots` chosen by `choosePair` from the headers read; these
operations obey the write-once discipline on the flash they are applied to, so **no program needs a 0 → 1
transition**: the counter is unchanged, and every header word reads back as written (`program_readback`). -/
theorem start_crash_free (nslots slotSize sz n : Nat) (d : Dev) (h : Healthy d) (h2 : 2 ≤ nslots)
    (hB : 0 < d.flash.block) (hdiv : slotSize % d.flash.block = 0) (hin : nslots * slotSize ≤ d.flash.size)
    (hrs : reasonablySized slotSize sz n = .ok ()) :
    ∃ hs a b sa sb,
      (loadHeaders nslots slotSize).run d = (.ok hs, d) ∧ choosePair nslots hs = .ok (a, b, sa, sb) ∧
      a < nslots ∧ b < nslots ∧ a ≠ b ∧
      (startUpdate nslots slotSize sz n).run d =
        (.ok (startUpd slotSize sz n a b), pushAll d (startOps d.flash.block slotSize sz n a b sa sb)) ∧
      SessionGeom (startUpd slotSize sz n a b) ∧
      Discipline d.flash (startOps d.flash.block slotSize sz n a b sa sb) ∧
      ((startUpdate nslots slotSize sz n).run d).2.needsSet = d.needsSet := by
  obtain ⟨g1, g2, g3, g4, g5, g6⟩ := reasonablySized_ok hrs
  obtain ⟨hs, hload⟩ := loadHeaders_runs nslots slotSize h.alive (by omega) hin
  have hload' : (loadHeaders nslots slotSize).run d = (.ok hs, d) := hload
  have hlen : hs.length = nslots :=
    (loadHeaders_emits (Q := fun _ => False) nslots slotSize d rfl).2.2 hs (by rw [hload'])
  obtain ⟨⟨a, b, sa, sb⟩, hcp⟩ := choosePair_ok nslots hs
  obtain ⟨ha, hb⟩ := choosePair_lt nslots hs hlen h2 a b sa sb hcp
  have hne := choosePair_ne nslots hs hlen h2 a b sa sb hcp
  have hain : a * slotSize + slotSize ≤ d.flash.size := by
    have := Nat.mul_le_mul_right slotSize (show a + 1 ≤ nslots from ha)
    rw [Nat.succ_mul] at this; omega
  have hbin : b * slotSize + slotSize ≤ d.flash.size := by
    have := Nat.mul_le_mul_right slotSize (show b + 1 ≤ nslots from hb)
    rw [Nat.succ_mul] at this; omega
  have key := startUpdate_runsH (T := d.flash.size) (B := d.flash.block) nslots slotSize sz n hs a b sa sb hrs hcp
    hB hdiv hain hbin d h rfl rfl
  have hrun : (startUpdate nslots slotSize sz n).run d =
      (.ok (startUpd slotSize sz n a b), pushAll d (startOps d.flash.block slotSize sz n a b sa sb)) := by
    unfold Runs at key
    rw [run_bind] at key
    rw [startUpdate_eq _ _ _ _ hrs, allocSlotpair_eq, run_bind, run_bind, hload']
    exact key
  have hdisc := startOps_discipline (B := d.flash.block) d.flash slotSize sz n a b sa sb rfl hdiv (by omega) hne
    hain hbin
  refine ⟨hs, a, b, sa, sb, hload', hcp, ha, hb, hne, hrun, ?_, hdisc, ?_⟩
  · exact { fwSize := g6, parSize := g6, fit := g5, sameSize := rfl, bsOk := ⟨g1, g2⟩, nOk := ⟨g3, g4⟩,
            maxLEq := rfl, moEq := rfl, lLe := Nat.zero_le _ }
  · rw [hrun]
    show (pushAll d _).needsSet = _
    rw [pushAll_needsSet, needCount_of_discipline _ _ hdisc]
    rfl

/-! ## 3. non-vacuity -/

/-- a 256-byte device with 16-byte erase blocks, viewed as a ring of four 64-byte slots -/
def tiny : Dev := { flash := Flash.blank 16 256 }

/-- `clear` then a status mark on the **last slot of the device**: exactly these operations, all inside slot 3,
    nothing beyond the end of the device -/
example :
    let d' := ((do (Slot.clear { idx := 3, size := 64 }); Slot.markBootOk { idx := 3, size := 64 } : M Unit).run
      tiny).2
    d'.ops = [.program 216 [52, 18, 205, 171], .erase 240, .erase 224, .erase 208, .erase 192] ∧
    (∀ op ∈ d'.ops, InSlot 16 64 3 op) ∧ d'.needsSet = 0 := by
  decide +kernel

/-- a torn program (power lost during the first mutating operation, after 2 whole bytes, `0xF0` not yet cleared
    in the third): shorter, same address, still inside the slot; the device is dead afterwards -/
example :
    let d' := ((Slot.markBootOk { idx := 1, size := 64 }).run { tiny with crashAt := some (0, some (2, 0xF0)) }).2
    d'.ops = [.program 88 [52, 18, 253]] ∧ (∀ op ∈ d'.ops, InSlot 16 64 1 op) ∧ d'.dead = true := by
  decide +kernel

/-- a transient fault: no operation at all -/
example : ((Slot.markBootOk { idx := 1, size := 64 }).run { tiny with failAt := some 0 }).2.ops = [] := by
  decide +kernel

/-- re-programming the same mark needs no 0 → 1 transition; programming a different word over it does -/
example :
    ((do (Slot.markBootOk { idx := 1, size := 64 }); Slot.markBootOk { idx := 1, size := 64 } : M Unit).run
      tiny).2.needsSet = 0 ∧
    ((do (Slot.markBootOk { idx := 1, size := 64 }); Slot.markBootBad { idx := 1, size := 64 } : M Unit).run
      tiny).2.needsSet = 1 := by
  decide +kernel

/-- `InSlot` is not trivially true: the block after the last one of slot 2, and a word straddling the slot end -/
example : ¬ InSlot 16 64 2 (.erase 192) ∧ ¬ InSlot 16 64 2 (.program 190 [1, 2, 3, 4]) ∧
    InSlot 16 64 2 (.erase 176) ∧ InSlot 16 64 2 (.program 188 [1, 2, 3, 4]) := by decide

/-- the accepted example geometry: 4 slots of 20480 bytes, 18 fragments of 4 bytes -/
example : reasonablySized 20480 4 18 = .ok () ∧ capacity 20480 4 = 188 := ⟨by rfl, by decide⟩

/-- a blank ring allocates slots 0 and 1 -/
example : choosePair 4 [none, none, none, none] = .ok (0, 1, 0, 1) := by rfl

/-- **wrap-around at the last slot**: newest header in slot 3 of 4 → the pair is (0, 1); newest in slot 2 →
    the pair is (3, 0), i.e. the last slot of the device and the first -/
def exHeader (s : Nat) : Header :=
  { kind := .firmware, seq := s, size := 4, n := 18, ext := .complete, ist := .complete, boot := .successful }

example :
    choosePair 4 [none, none, some (exHeader 5), some (exHeader 6)] = .ok (0, 1, 7, 8) ∧
    choosePair 4 [none, some (exHeader 5), some (exHeader 6), none] = .ok (3, 0, 7, 8) := ⟨by rfl, by rfl⟩

/-- `start_crash_free` is not vacuous: its hypotheses hold for the example geometry on any healthy device of
    4 × 20480 bytes with 4096-byte erase blocks whatever its contents, and the operation list it promises has
    2·5 erases and 8 programs; for the blank ring's pair `(0, 1)`: -/
example : (startOps 4096 20480 4 18 0 1 0 1).length = 18 ∧
    startOps 4096 20480 4 18 0 1 0 1 =
      [.erase 20480, .erase 24576, .erase 28672, .erase 32768, .erase 36864,
       .erase 0, .erase 4096, .erase 8192, .erase 12288, .erase 16384,
       .program 4 [0, 0, 0, 0], .program 20484 [1, 0, 0, 0],
       .program 0 [0, 0, 0, 0], .program 12 [18, 0, 0, 0], .program 8 [4, 0, 0, 0],
       .program 20480 [1, 0, 0, 0], .program 20492 [188, 0, 0, 0], .program 20488 [4, 0, 0, 0]] := by
  decide

/-- and for the wrap-around pair `(3, 0)` (last slot of the device and the first): the erases of slot 3 end exactly
    at the end of the device (`81920`) -/
example : (startOps 4096 20480 4 18 3 0 7 8).take 10 =
      [.erase 0, .erase 4096, .erase 8192, .erase 12288, .erase 16384,
       .erase 61440, .erase 65536, .erase 69632, .erase 73728, .erase 77824] ∧
    ∀ op ∈ startOps 4096 20480 4 18 3 0 7 8, InSlot 4096 20480 3 op ∨ InSlot 4096 20480 0 op := by
  decide

example (d : Dev) (h : Healthy d) (hB : d.flash.block = 4096) (hT : d.flash.size = 81920) :
    ∃ a b, a < 4 ∧ b < 4 ∧ a ≠ b ∧ ((startUpdate 4 20480 4 18).run d).2.needsSet = d.needsSet ∧
      ∃ u, ((startUpdate 4 20480 4 18).run d).1 = .ok u ∧ u.fw.idx = a ∧ u.par.idx = b := by
  obtain ⟨hs, a, b, sa, sb, _, _, ha, hb, hne, hrun, _, _, hns⟩ :=
    start_crash_free 4 20480 4 18 d h (by decide) (by rw [hB]; decide) (by rw [hB]) (by rw [hT]; decide) (by rfl)
  exact ⟨a, b, ha, hb, hne, hns, _, by rw [hrun], rfl, rfl⟩

/-- **the model lets `write_segment` leave its slot when the geometry is not the accepted one**: slot 0 of
    17414 bytes (6 data bytes), cached segment size 4, segment 1: the check `17408 + 1·4 ≤ 17414` passes and the
    4 bytes go to `[17412, 17416)`, two of them into slot 1. (Unreachable through `handle_segment`, see
    `segment_ops_in_pair`; shown here on a real device of 2 × 17414 bytes.) -/
example :
    let d' := ((Slot.writeSegment { idx := 0, size := 17414, segSize := some 4 } 1 [1, 2, 3, 4]).run
      { flash := Flash.blank 2 34828 }).2
    d'.ops.getLast? = some (.program 17412 [1, 2, 3, 4]) ∧ ¬ InSlot 2 17414 0 (.program 17412 [1, 2, 3, 4]) := by
  set_option maxRecDepth 100000 in
  decide +kernel

/-- likewise `mark_segment_written` (`offset > size` instead of `≥`): in a slot of exactly `1024 + idx` bytes the
    status byte is the first byte of the next slot. Needs a slot of at most 17408 bytes, which no session has. -/
example :
    ((Slot.markSegmentWritten { idx := 0, size := 1030 } 6).run { flash := Flash.blank 2 2060 }).2.ops =
      [.program 1030 [51]] ∧ ¬ InSlot 2 1030 0 (.program 1030 [51]) := by
  decide +kernel

/-- a ring of a single slot is **not** safe: `choosePair` answers `(0, 1)` and slot 1 does not exist
    (hence the hypothesis `2 ≤ nslots` wherever indices are claimed to be in the ring) -/
example : choosePair 1 [none] = .ok (0, 1, 0, 1) := by rfl

/-- the session `start_update 4 20480 4 18` returns on a blank ring has the session geometry (the hypotheses of
    `segment_ops_in_pair`, `regions_disjoint`, `parity_stores_fit` are satisfiable) -/
def exUpd : Upd :=
  { fw := { idx := 0, size := 20480, segSize := some 4 }
    par := { idx := 1, size := 20480 }
    n := 18
    bs := 4
    maxL := 188
    matrixOffset := 752 }

example : SessionGeom exUpd :=
  { fwSize := by decide, parSize := by decide, fit := by decide, sameSize := rfl, bsOk := by decide,
    nOk := by decide, maxLEq := by decide, moEq := by decide, lLe := by decide }

end Fuota.C08
