import Fuota.Props.C03
/-!
# C03, items (a) and (b): a refusal is a no-op and is characterised exactly; Done is sticky and silent
-/
namespace Fuota.C03
open Fuota.Recon Fuota.Gf2 Fuota.C02

/-- one handle_block step, fault free -/
def step (V : Variant) (P : Nat → Nat) (vbits numRows : Nat) (s : St) (i d : Nat) : St × Res :=
  handleBlock V noFault P vbits numRows s i d s.bs

theorem resOfOut_ne_tooMany (o : Out) : resOfOut o ≠ Res.tooMany := by
  cases o <;> simp [resOfOut]

/-- (a) refusal: exactly when a parity-range block arrives in stage 1 of an incomplete session with more unknown
    blocks than the capacity (bit-array bits or matrix rows). -/
theorem refuse_iff (V : Variant) (P : Nat → Nat) (vbits numRows : Nat) (s : St) (i d : Nat) :
    (step V P vbits numRows s i d).2 = Res.tooMany ↔
      (isComplete s = false ∧ s.n ≤ i ∧ s.l = 0 ∧
        (vbits < (unknowns s.done s.n).length ∨ numRows < (unknowns s.done s.n).length)) := by
  unfold step handleBlock
  simp only [ne_eq, not_true_eq_false, ↓reduceIte]
  cases hc : isComplete s
  · by_cases hr : s.n ≤ i ∧ s.l = 0 ∧
        (vbits < (unknowns s.done s.n).length ∨ numRows < (unknowns s.done s.n).length)
    · simp [hr]
    · simp only [Bool.false_eq_true, ↓reduceIte, hr, true_and]
      constructor
      · intro h
        exfalso
        revert h
        repeat' split
        all_goals first
          | exact resOfOut_ne_tooMany _
          | simp
      · intro h; exact h.elim
  · simp

/-- (a) a refusal changes nothing: state, stores and call log are untouched. -/
theorem refuse_noop (V : Variant) (P : Nat → Nat) (vbits numRows : Nat) (s : St) (i d : Nat)
    (h : (step V P vbits numRows s i d).2 = Res.tooMany) : (step V P vbits numRows s i d).1 = s := by
  have h' := (refuse_iff V P vbits numRows s i d).1 h
  obtain ⟨hc, hr⟩ := h'
  unfold step handleBlock
  simp [hc, hr]

/-- (b) Done is sticky and silent: once complete, every call returns Done and the state (hence the call log)
    is unchanged. -/
theorem done_sticky (V : Variant) (P : Nat → Nat) (vbits numRows : Nat) (s : St) (i d : Nat)
    (h : isComplete s = true) :
    step V P vbits numRows s i d = (s, Res.done (s.n * s.bs)) := by
  unfold step handleBlock
  simp [h]

end Fuota.C03
