import Fuota.Lemmas.NoPanicSeg
import Fuota.Lemmas.NoPanicRec
import Fuota.Lemmas.NoPanicRO
import Fuota.Props.C10
/-!
# C17 — out-of-range fragment indices and arbitrary flash contents never panic

Model: `Fuota.Updater` (`update/matrix.rs`, `update.rs`, `manager/firmware.rs`), `Fuota.Fs` (`manager/fs.rs`,
`manager.rs`), `Fuota.Nor`. Every place where the Rust code can panic is the outcome `MErr.panic`; the theorems
say that this outcome is not reachable.

1. `index_zero_rejected`, `session_survives` — fragment index 0 is answered with `Err(Spi(OutOfBounds))`; the
   updater (progress) and the device (flash, operation log, fault schedule) are unchanged, so every later call
   behaves as if the fragment had never been delivered.
2. `handleSegment_never_panics`, `handleSegment_preserves_wf` — for every index `< 2^32`, every device state and
   every updater satisfying `UpdWF`, `handle_segment` does not panic and leaves an updater satisfying `UpdWF`
   (on `Ok` and on `Err`). `UpdWF` is established by `start_update` (`startUpdate_establishes_wf`) and by
   `try_recover` (`tryRecover_establishes_wf`, on arbitrary flash contents).
   Hypotheses kept explicit:
   * `bytes.length = u.bs`: a fragment of another length **is** a panic in the Rust code (`assert_eq!` in
     `handle_block`); the property is about indices, not lengths.
   * `RowsDefined ffr u.n`: the coded rows are defined (termination of the PRBS draw loops = property C10).
     Without `force-full-r` it is discharged by `Fuota.C10.terminates` (`handleSegment_never_panics_std`).
     With `force-full-r` it is false for `n = 4`, index `4 + 1240005543` (`Fuota.C10.fullr_diverges_seed_zero`:
     the Rust loop does not terminate).
3. `robust_calls` — `try_recover`, `bl_boot_status`, `fallback_firmware`, `is_valid_firmware`,
   `cancel_all_ext_pending`, `start_update` do not panic on any device state whose erase-block size is non-zero
   and divides the slot size (`Slot::clear`'s documented `assert`s). `choosePair_never_panics`: `alloc_slotpair`'s
   choice has no failing branch. `recovered_count_le`: the subtraction `n - done.count_ones()` of
   `try_recover_inner` cannot underflow.
4. `UpdWF` is sharp in its first conjunct: `wf_needs_l_le_maxL` (the state the *pinned* `try_recover_inner`
   returned from a flash image with one flipped byte; repaired by the `l > max_l` guard).

"Without touching flash outside slot boundaries": the status / validation calls do not touch the device at all
(`status_calls_read_only`: the whole device state — flash, operation log, counters — is returned unchanged on
every outcome). For the mutating calls (`try_recover`, `cancel_all`, `start_update`, `handle_segment`) this part
is property C08's subject and is proved there for every device state, crash / torn / fault runs included
(`Fuota.C08.recover_cancel_mark_ops_in_one_slot`, `start_ops_in_pair`, `segment_ops_in_pair`: every erase and
program lies inside one slot `i < nslots`); it is not repeated here. The lemmas used here for the recovery proof
give it per slot operation as well (`NoPanic.clear_spec`, `writeWord_slot`, `remediate_spec`: `SlotW`).
-/
namespace Fuota.C17
open Fuota.Nor Fuota.Fs Fuota.Layout Fuota.Updater Fuota.NoPanic

/-! ## 1. index zero -/

/-- **Fragment index 0 is rejected**: `Err(Spi(OutOfBounds))`, updater and device untouched. -/
theorem index_zero_rejected (ffr : Bool) (bytes : List Nat) (u : Upd) (d : Dev) :
    (handleSegment ffr 0 bytes).run (u, d) = (.error (.spi .oob), (u, d)) := rfl

/-- the error is not the panic outcome -/
theorem index_zero_no_panic (ffr : Bool) (bytes : List Nat) (u : Upd) (d : Dev) :
    ((handleSegment ffr 0 bytes).run (u, d)).1 ≠ .error .panic := by
  rw [index_zero_rejected]; simp

/-- **The session survives**: any computation run after the rejected fragment gives the result it gives without
    it (same outcome, same final updater, same final flash and operation log). -/
theorem session_survives {α : Type} (ffr : Bool) (bytes : List Nat) (u : Upd) (d : Dev) (next : MU α) :
    next.run ((handleSegment ffr 0 bytes).run (u, d)).2 = next.run (u, d) := by
  rw [index_zero_rejected]

/-! ## 2. `handle_segment` never panics -/

/-- well-formedness of the in-memory updater (see `Fuota.NoPanic.UpdWF`): in stage 2 (`l ≠ 0`) the pivot count
    is at most `maxL`, at most 2048, and at most the number of unknown blocks; nothing is required in stage 1 -/
abbrev UpdWF := Fuota.NoPanic.UpdWF
abbrev UpdSized := Fuota.NoPanic.UpdSized
abbrev RowsDefined := Fuota.NoPanic.RowsDefined

theorem updWF_iff (u : Upd) :
    UpdWF u ↔ (u.l ≤ u.maxL ∧ u.l ≤ 2048 ∧ u.l ≤ (Recon.unknowns u.done u.n).length) := Iff.rfl

/-- a stage-1 updater is well-formed -/
theorem updWF_of_l_zero (u : Upd) (h : u.l = 0) : UpdWF u := by
  simp [UpdWF, NoPanic.UpdWF, h]

/-- **(a1) `start_update` establishes `UpdWF`** (and the size bounds) whenever it succeeds, on every device. -/
theorem startUpdate_establishes_wf (nslots slotSize sz n : Nat) (d d' : Dev) (u : Upd)
    (h : (startUpdate nslots slotSize sz n).run d = (.ok u, d')) :
    UpdWF u ∧ UpdSized u ∧ u.n = n ∧ u.bs = sz := by
  obtain ⟨hl, hn, hbs, h1, h2⟩ := startUpdate_result nslots slotSize sz n d u d' h
  exact ⟨updWF_of_l_zero u hl, ⟨hn ▸ h1, hn ▸ h2⟩, hn, hbs⟩

/-- **(a2) `try_recover_inner` establishes `UpdWF`** whenever it returns a session, whatever the flash contains
    (device geometry as `Slot::clear` requires it). Moreover the recovered `done` mask has no bit at or above `n`
    and the recovered `l = n − count_ones(done)` **is** the number of unknown blocks (zero bits below `n`):
    the two ways of counting agree on every flash image. -/
theorem tryRecoverInner_establishes_wf (nslots slotSize : Nat) (d d' : Dev) (u : Upd)
    (hb : 0 < d.flash.block) (hs : slotSize % d.flash.block = 0)
    (h : (tryRecoverInner nslots slotSize).run d = (.ok (some u), d')) :
    UpdWF u ∧ UpdSized u ∧ u.done < 2 ^ u.n ∧ u.maxL ≤ 2048 ∧
      u.l = (if u.used ≠ 0 then (Recon.unknowns u.done u.n).length else 0) := by
  have := tryRecoverInner_spec nslots slotSize hb hs (d := d)
    (Q := fun r _ => ∀ u, r = some u → Recovered u) (fun r _ hr => hr)
  exact wp_ok this h u rfl

/-- the same for `try_recover` (which additionally cancels pending sessions when nothing is recovered) -/
theorem tryRecover_establishes_wf (nslots slotSize : Nat) (d d' : Dev) (u : Upd)
    (hb : 0 < d.flash.block) (hs : slotSize % d.flash.block = 0)
    (h : (tryRecover nslots slotSize).run d = (.ok (some u), d')) :
    UpdWF u ∧ UpdSized u ∧ u.done < 2 ^ u.n ∧ u.maxL ≤ 2048 ∧
      u.l = (if u.used ≠ 0 then (Recon.unknowns u.done u.n).length else 0) :=
  wp_ok (tryRecover_spec nslots slotSize hb hs) h u rfl

/-- `popcount` over the whole bit array and `unknowns` below `n` agree for a mask that `load_status_array` can
    produce (`done < 2^n`): the `l` of a recovered session is the `l` the reconstructor would compute. -/
theorem popcount_unknowns_agree {done n : Nat} (hd : done < 2 ^ n) (hn : n ≤ 16384) :
    n - popcount done 16384 = (Recon.unknowns done n).length := recovered_l_eq hd hn

/-- the count `try_recover_inner` subtracts from `n` never exceeds `n`: `n - done.count_ones()` cannot underflow -/
theorem recovered_count_le {done n : Nat} (hd : done < 2 ^ n) : popcount done 16384 ≤ n := popcount_le_of_lt hd _

/-- **(b) + main statement.** For every fragment index `idx < 2^32` (0, `n + 1240005543`, `2^32 − 1`, …), every
    payload of the session's block size, every device state (any flash contents, any crash / fault schedule) and
    every well-formed updater: `handle_segment` does not panic, and the updater it leaves behind — on `Ok` **and**
    on `Err` — is well-formed again, with the same block count and block size. -/
theorem handleSegment_no_panic_and_wf (ffr : Bool) (idx : Nat) (bytes : List Nat) (u : Upd) (d : Dev)
    (hidx : idx < 2 ^ 32) (hlen : bytes.length = u.bs) (hwf : UpdWF u) (hrows : RowsDefined ffr u.n) :
    ((handleSegment ffr idx bytes).run (u, d)).1 ≠ .error .panic ∧
    UpdWF ((handleSegment ffr idx bytes).run (u, d)).2.1 ∧
    ((handleSegment ffr idx bytes).run (u, d)).2.1.n = u.n ∧
    ((handleSegment ffr idx bytes).run (u, d)).2.1.bs = u.bs := by
  have := wpU_run (handleSegment_spec ffr idx bytes u d hwf hlen hrows hidx)
  exact ⟨this.1, this.2.1, this.2.2.1, this.2.2.2⟩

theorem handleSegment_never_panics (ffr : Bool) (idx : Nat) (bytes : List Nat) (u : Upd) (d : Dev)
    (hidx : idx < 2 ^ 32) (hlen : bytes.length = u.bs) (hwf : UpdWF u) (hrows : RowsDefined ffr u.n) :
    ((handleSegment ffr idx bytes).run (u, d)).1 ≠ .error .panic :=
  (handleSegment_no_panic_and_wf ffr idx bytes u d hidx hlen hwf hrows).1

theorem handleSegment_preserves_wf (ffr : Bool) (idx : Nat) (bytes : List Nat) (u : Upd) (d : Dev)
    (hidx : idx < 2 ^ 32) (hlen : bytes.length = u.bs) (hwf : UpdWF u) (hrows : RowsDefined ffr u.n) :
    UpdWF ((handleSegment ffr idx bytes).run (u, d)).2.1 :=
  (handleSegment_no_panic_and_wf ffr idx bytes u d hidx hlen hwf hrows).2.1

/-- without `force-full-r` the rows are defined for every session `start_update` / `try_recover` can produce
    (`Fuota.C10.terminates`) -/
theorem rowsDefined_std {n : Nat} (h : 1 ≤ n ∧ n ≤ 16384) : RowsDefined false n := by
  intro capN h0 _
  rw [Nat.mod_eq_of_lt (by omega)]
  obtain ⟨row, hr⟩ := (Fuota.C10.terminates h.1 (by omega)).2.2 capN h0 h.2
  simp [hr]

/-- **No `RowsDefined` hypothesis without `force-full-r`.** -/
theorem handleSegment_never_panics_std (idx : Nat) (bytes : List Nat) (u : Upd) (d : Dev)
    (hidx : idx < 2 ^ 32) (hlen : bytes.length = u.bs) (hwf : UpdWF u) (hsz : UpdSized u) :
    ((handleSegment false idx bytes).run (u, d)).1 ≠ .error .panic :=
  handleSegment_never_panics false idx bytes u d hidx hlen hwf (rowsDefined_std hsz)

/-- a whole delivery sequence: results (oldest first) and final state -/
def deliverAll (ffr : Bool) : List (Nat × List Nat) → Upd × Dev → List (Except MErr Outcome) × (Upd × Dev)
  | [], s => ([], s)
  | (i, b) :: rest, s =>
    let r := (handleSegment ffr i b).run s
    let t := deliverAll ffr rest r.2
    (r.1 :: t.1, t.2)

/-- **At every position of a session**: however legal, zero, huge and repeated indices are interleaved, and
    whichever deliveries fail with an error in between, no delivery panics and the updater stays well-formed. -/
theorem session_never_panics (ffr : Bool) (frs : List (Nat × List Nat)) (u : Upd) (d : Dev)
    (hfr : ∀ p ∈ frs, p.1 < 2 ^ 32 ∧ p.2.length = u.bs) (hwf : UpdWF u) (hrows : RowsDefined ffr u.n) :
    (∀ r ∈ (deliverAll ffr frs (u, d)).1, r ≠ .error .panic) ∧ UpdWF (deliverAll ffr frs (u, d)).2.1 := by
  induction frs generalizing u d with
  | nil => exact ⟨by simp [deliverAll], hwf⟩
  | cons p rest ih =>
    obtain ⟨i, b⟩ := p
    obtain ⟨hi, hb⟩ := hfr (i, b) (by simp)
    obtain ⟨h1, h2, h3, h4⟩ := handleSegment_no_panic_and_wf ffr i b u d hi hb hwf hrows
    have hrest := ih ((handleSegment ffr i b).run (u, d)).2.1 ((handleSegment ffr i b).run (u, d)).2.2
      (fun p hp => by rw [h4]; exact hfr p (by simp [hp])) h2 (by rw [h3]; exact hrows)
    simp only [deliverAll]
    refine ⟨?_, hrest.2⟩
    intro r hr
    simp only [List.mem_cons] at hr
    rcases hr with rfl | hr
    · exact h1
    · exact hrest.1 r hr

/-! ## 3. calls on arbitrary flash contents -/

/-- **`alloc_slotpair`'s choice never fails** for any header list (the `unwrap` of the pinned tree is gone) -/
theorem choosePair_never_panics (n : Nat) (hs : List (Option Header)) : choosePair n hs ≠ .error .panic := by
  obtain ⟨r, hr⟩ := choosePair_ok n hs
  rw [hr]; simp

/-- **Robustness.** On EVERY device state `d` (arbitrary bytes in headers, status tables, matrix and data; any
    crash / fault schedule; device of any size, in particular smaller than the slot area) whose erase-block size
    is non-zero and divides the slot size, none of the calls below panics — for every slot count, slot index,
    segment size and segment count. (The two geometry hypotheses are exactly the `assert`s of `Slot::clear`;
    `bl_boot_status`, `fallback_firmware`, `is_valid_firmware`, `cancel_all` do not need them.) -/
theorem robust_calls (nslots slotSize : Nat) (d : Dev) (hb : 0 < d.flash.block)
    (hs : slotSize % d.flash.block = 0) :
    ((tryRecover nslots slotSize).run d).1 ≠ .error .panic ∧
    ((blBootStatus nslots slotSize).run d).1 ≠ .error .panic ∧
    ((fallbackFirmware nslots slotSize).run d).1 ≠ .error .panic ∧
    (∀ idx, ((isValidFirmware { idx := idx, size := slotSize }).run d).1 ≠ .error .panic) ∧
    ((cancelAll nslots slotSize).run d).1 ≠ .error .panic ∧
    (∀ sz n, ((startUpdate nslots slotSize sz n).run d).1 ≠ .error .panic) :=
  ⟨wp_noPanic (tryRecover_spec nslots slotSize hb hs),
   (np_blBootStatus _ _).noPanic d,
   (np_fallbackFirmware _ _).noPanic d,
   fun _ => (np_isValidFirmware _).noPanic d,
   (np_cancelAll _ _).noPanic d,
   fun sz n => wp_noPanic (startUpdate_spec nslots slotSize sz n hb hs (Q := fun _ _ => True)
     (fun _ _ _ _ _ _ _ => trivial))⟩

/-- the read-only / mark-only calls need no hypothesis at all -/
theorem robust_calls_any_device (nslots slotSize : Nat) (d : Dev) (s : Slot) :
    ((blBootStatus nslots slotSize).run d).1 ≠ .error .panic ∧
    ((fallbackFirmware nslots slotSize).run d).1 ≠ .error .panic ∧
    ((isValidFirmware s).run d).1 ≠ .error .panic ∧
    ((cancelAll nslots slotSize).run d).1 ≠ .error .panic :=
  ⟨(np_blBootStatus _ _).noPanic d, (np_fallbackFirmware _ _).noPanic d, (np_isValidFirmware _).noPanic d,
   (np_cancelAll _ _).noPanic d⟩

/-- **The status and validation calls are read-only**: whatever they return (a value, an error), the device
    state afterwards *is* the device state before — no flash byte, inside or outside a slot, is touched, and no
    operation is logged. -/
theorem status_calls_read_only (nslots slotSize : Nat) (d : Dev) (s : Slot) :
    ((blBootStatus nslots slotSize).run d).2 = d ∧
    ((fallbackFirmware nslots slotSize).run d).2 = d ∧
    ((isValidFirmware s).run d).2 = d :=
  ⟨ro_blBootStatus _ _ d, ro_fallbackFirmware _ _ d, ro_isValidFirmware _ d⟩

/-- `try_recover_inner` alone -/
theorem tryRecoverInner_never_panics (nslots slotSize : Nat) (d : Dev) (hb : 0 < d.flash.block)
    (hs : slotSize % d.flash.block = 0) : ((tryRecoverInner nslots slotSize).run d).1 ≠ .error .panic :=
  wp_noPanic (tryRecoverInner_spec nslots slotSize hb hs (Q := fun _ _ => True) (fun _ _ _ => trivial))

/-- **Recover, then deliver anything**: a session recovered from arbitrary flash accepts every fragment index
    without panicking (no `force-full-r`). -/
theorem recovered_session_never_panics (nslots slotSize : Nat) (d d' d'' : Dev) (u : Upd)
    (hb : 0 < d.flash.block) (hs : slotSize % d.flash.block = 0)
    (h : (tryRecover nslots slotSize).run d = (.ok (some u), d'))
    (frs : List (Nat × List Nat)) (hfr : ∀ p ∈ frs, p.1 < 2 ^ 32 ∧ p.2.length = u.bs) :
    ∀ r ∈ (deliverAll false frs (u, d'')).1, r ≠ .error .panic := by
  obtain ⟨hwf, hsz, _⟩ := tryRecover_establishes_wf nslots slotSize d d' u hb hs h
  exact (session_never_panics false frs u d'' hfr hwf (rowsDefined_std hsz)).1

/-! ## 4. non-vacuity and sharpness -/

def isPanic {α σ : Type} (r : Except MErr α × σ) : Bool := match r.1 with | .error .panic => true | _ => false

/-- a blank 4 × 20 KiB device with 4 KiB erase blocks (the harness' default geometry) -/
def devBlank : Dev := { flash := Flash.blank 4096 (4 * 20480) }

/-- the hypotheses of `robust_calls` hold for it -/
example : 0 < devBlank.flash.block ∧ 20480 % devBlank.flash.block = 0 := by decide

/-- a device with no flash at all also satisfies them (every access is then an `OutOfBounds` error) -/
def devEmpty : Dev := { flash := { mem := #[], block := 1 } }
example : 0 < devEmpty.flash.block ∧ 20480 % devEmpty.flash.block = 0 := by decide

/-- the updater `startUpdate 4 20480 4 18` returns on `devBlank` (`#eval`: fw = slot 0, par = slot 1, maxL = 188) -/
def uStart : Upd :=
  { fw := { idx := 0, size := 20480, segSize := some 4 }, par := { idx := 1, size := 20480, segSize := some 4 },
    n := 18, bs := 4, maxL := 188, matrixOffset := 188 * 4 }

example : UpdWF uStart ∧ UpdSized uStart ∧ RowsDefined false uStart.n :=
  ⟨by decide, by decide, rowsDefined_std (by decide)⟩

/-- a stage-2 updater: 18 blocks, blocks 3 and 7 and 11 missing, three pivots -/
def uStage2 : Upd := { uStart with done := 2 ^ 18 - 1 - 2 ^ 3 - 2 ^ 7 - 2 ^ 11, l := 3, used := 0b001 }

example : UpdWF uStage2 ∧ uStage2.l ≠ 0 ∧ UpdSized uStage2 := by decide

/-- index 0, a data index, a coded index, the seed-overflow index and `u32::MAX` on the stage-2 updater and the
    device without flash: evaluated, none is the panic outcome (they are I/O errors or `Consumed`) -/
example : [0, 4, 19, 18 + 1240005543, 2 ^ 32 - 1].all
    (fun idx => !isPanic ((handleSegment false idx [1, 2, 3, 4]).run (uStage2, devEmpty))) = true := by
  decide +kernel

/-- **Sharpness of `l ≤ maxL`, and the defect it stands for.** This is the updater the *pinned*
    `try_recover_inner` (without the `l > max_l` guard) returned for: blank `devBlank`, `startUpdate 4 20480 256 12`
    (fw = slot 0, par = slot 1, `maxL = 11 < n = 12`, matrix offset 2816), then ONE byte of the parity slot changed:
    `flash[1·20480 + 1024 + 2816] := 0xFE` (diagonal byte of matrix row 0) ⇒ `used = 1`, `l = 12 − 0 = 12 > maxL`.
    It satisfies the other two conjuncts of `UpdWF`; delivering fragment 12 panics (`assert!(m < self.max_l)` in
    `UpdaterParityStorage::store`). The repaired `try_recover_inner` returns `None` for this image. -/
def uPinnedRecovered : Upd :=
  { fw := { idx := 0, size := 20480 }, par := { idx := 1, size := 20480 }, n := 12, l := 12, bs := 256,
    done := 0, used := 1, maxL := 11, matrixOffset := 2816 }

theorem wf_needs_l_le_maxL :
    uPinnedRecovered.l ≤ 2048 ∧ uPinnedRecovered.l ≤ (Recon.unknowns uPinnedRecovered.done uPinnedRecovered.n).length ∧
    ¬ uPinnedRecovered.l ≤ uPinnedRecovered.maxL ∧
    isPanic ((handleSegment false 12 (List.replicate 256 0)).run (uPinnedRecovered, devEmpty)) = true := by
  decide +kernel

/-- **`RowsDefined` cannot be dropped with `force-full-r`**: 4 blocks, one missing, stage 2; the coded fragment
    with index `4 + 1240005543` (seed `1 + 1001·cap_n` wraps to 0, every draw is fragment 0) has no row — the Rust
    draw loop does not terminate (`Fuota.C10.fullr_diverges_seed_zero`); the model reports it as the panic
    outcome. Without `force-full-r` the same delivery is fine. -/
def uFour : Upd := { uStart with n := 4, done := 0b0111, l := 1, used := 0 }

theorem fullr_undefined_row_is_reachable :
    UpdWF uFour ∧ UpdSized uFour ∧
    isPanic ((handleSegment true (4 + 1240005543) [1, 2, 3, 4]).run (uFour, devEmpty)) = true ∧
    isPanic ((handleSegment false (4 + 1240005543) [1, 2, 3, 4]).run (uFour, devEmpty)) = false := by
  decide +kernel

/-- **The geometry hypotheses of `robust_calls` cannot be dropped**: with an erase-block size that does not
    divide the slot size `start_update` runs into the `assert`s of `Slot::clear` (documented `# Panics`). -/
theorem clear_needs_block_geometry :
    isPanic ((startUpdate 2 17412 4 1).run { flash := Flash.blank 5 (2 * 17412) }) = true ∧
    isPanic ((startUpdate 2 17412 4 1).run { flash := Flash.blank 0 (2 * 17412) }) = true := by
  decide +kernel

/-- the length hypothesis cannot be dropped either: a 3-byte payload for a 4-byte session is the `assert_eq!`
    panic of `handle_block` (outside the property, which is about indices) -/
example : isPanic ((handleSegment false 1 [1, 2, 3]).run (uStart, devEmpty)) = true := by decide +kernel

end Fuota.C17
