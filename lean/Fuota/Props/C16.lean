import Fuota.Lemmas.AdapterNor
import Fuota.Lemmas.AdapterArith
import Fuota.Lemmas.AdapterSlots
import Fuota.Lemmas.AdapterData
import Fuota.Lemmas.AdapterParity
import Fuota.Lemmas.AdapterMatrix
/-!
# C16 — the flash storage adapters round-trip blocks without disturbing neighbours

Model: `Fuota.FlashAdapters` (transcription of `parity-reconstruct/src/flash.rs`) on the NOR model `Fuota.Nor`.

All theorems are for every write size `W ∈ {1,2,4,8,16,32}`, read size `R ∣ W`, range `start .. stop` aligned to `W`
(`Valid`; implied by a successful `new`, see `valid_of_new`), every block length, index set, store order and device
state satisfying the stated hypotheses - there is no bound on sizes.  A *sequence of stores* is a list of
`(index, value)` pairs with distinct indices, in the order of the calls, so "for every list" is "for every store order".

Pinned defect: `FlashParityStorage::get` reads only `READ_SIZE` bytes of the padded tail word
(`Cfg.tailReadLen = R`): `parity_get_tail_witness`. The parity round trip is proved for every model variant whose tail
read covers the unaligned tail (`len % W ≤ tailReadLen`), in particular for the repaired `tailReadLen = W`.
-/
namespace Fuota.C16
open Fuota.Nor Fuota.FlashAdapters

/-! ## configurations and device states -/

/-- the configurations C16 quantifies over -/
structure Valid (c : Cfg) : Prop where
  hW : c.W ∈ [1, 2, 4, 8, 16, 32]
  hR : c.R ∣ c.W
  hstart : c.start % c.W = 0
  hstop : c.stop % c.W = 0

theorem Valid.pos {c : Cfg} (h : Valid c) : 0 < c.W := by
  have := h.hW; simp only [List.mem_cons, List.mem_nil_iff, or_false] at this; omega

theorem Valid.le32 {c : Cfg} (h : Valid c) : c.W ≤ MAX_WORD_SIZE := by
  have := h.hW; simp only [List.mem_cons, List.mem_nil_iff, or_false] at this
  show c.W ≤ 32; omega

/-- a device state the adapters work on: bytes are bytes, the configured range lies inside the device -/
def Good (c : Cfg) (f : Flash) : Prop := WF f ∧ c.stop ≤ f.size

/-- a range that the device agrees to erase (what `new` needs) is aligned to every admissible write size -/
theorem valid_of_new (c : Cfg) (size : Nat) (hW : c.W ∈ [1, 2, 4, 8, 16, 32]) (hR : c.R ∣ c.W)
    (h : (Acc.erase c.start c.stop).check c size = none) : Valid c ∧ c.start ≤ c.stop ∧ c.stop ≤ size := by
  simp only [Acc.check] at h
  split at h
  · cases h
  · split at h
    · cases h
    · rename_i h1 h2
      have hE : ERASE_SIZE = 256 := rfl
      rw [hE] at h2
      simp only [List.mem_cons, List.mem_nil_iff, or_false] at hW
      refine ⟨⟨by simpa using hW, hR, ?_, ?_⟩, by omega, by omega⟩ <;> rcases hW with h | h | h | h | h | h <;> rw [h] <;> omega

/-- `new` (all three adapters) leaves the range erased and every other byte alone -/
theorem new_erased (c : Cfg) (f : Flash) (hb : f.block = ERASE_SIZE) (hwf : WF f)
    (h : (Acc.erase c.start c.stop).check c f.size = none) :
    Good c (new c f).2 ∧ Erased (new c f).2 c.start c.stop ∧
      ∀ x, (x < c.start ∨ c.stop ≤ x) → (new c f).2.byte x = f.byte x := by
  simp only [Acc.check] at h
  split at h
  · cases h
  · split at h
    · cases h
    · rename_i h1 h2
      have hE : ERASE_SIZE = 256 := rfl
      rw [hE] at h2
      have hbyte := byte_applyAcc_erase f hb c.start c.stop (by omega) (by rw [hE]; omega)
      refine ⟨⟨WF_applyAccs hwf _, by simp only [new, size_applyAccs]; omega⟩, ?_, ?_⟩
      · intro x hx1 hx2
        show (applyAcc f (.erase c.start c.stop)).byte x = 0xFF
        rw [hbyte, if_pos ⟨hx1, hx2⟩]
      · intro x hx
        show (applyAcc f (.erase c.start c.stop)).byte x = f.byte x
        rw [hbyte, if_neg (by omega)]

/-! ## store sequences -/

def dataStoreAll (c : Cfg) (f : Flash) : List (Nat × List Nat) → Flash
  | [] => f
  | (m, d) :: rest => dataStoreAll c (dataStore c f m d).2 rest

def parityStoreAll (c : Cfg) (f : Flash) : List (Nat × List Nat) → Flash
  | [] => f
  | (m, d) :: rest => parityStoreAll c (parityStore c f m d).2 rest

def setRowAll (c : Cfg) (f : Flash) : List (Nat × List Nat) → Flash
  | [] => f
  | (m, d) :: rest => setRowAll c (setRow c f m d).2 rest

/-- an admissible data block for block length `len`: `len` bytes, index below the capacity of the range -/
def DataOk (c : Cfg) (len : Nat) (s : Nat × List Nat) : Prop :=
  s.2.length = len ∧ (∀ b ∈ s.2, b < 256) ∧ c.start + (s.1 + 1) * len ≤ c.stop

/-- an admissible parity block: `len` bytes, slot (of `next_multiple_of(len, W)` bytes) inside the range -/
def ParityOk (c : Cfg) (len : Nat) (s : Nat × List Nat) : Prop :=
  s.2.length = len ∧ (∀ b ∈ s.2, b < 256) ∧ c.start + (s.1 + 1) * nextMultipleOf len c.W ≤ c.stop

/-- an admissible matrix row: `N` bytes obeying the `set_row` contract (bit `m` set, none above), index below `num_rows` -/
def RowOk (c : Cfg) (s : Nat × List Nat) : Prop :=
  s.2.length = c.N ∧ (∀ b ∈ s.2, b < 256) ∧ RowContract s.1 s.2 ∧ s.1 < numRows c

theorem cap_data {c : Cfg} {len m : Nat} (h : c.start + (m + 1) * len ≤ c.stop) : blockAddr c len m + len ≤ c.stop := by
  unfold blockAddr; rw [Nat.add_mul, Nat.one_mul] at h; omega

theorem cap_parity {c : Cfg} {len m : Nat} (h : c.start + (m + 1) * nextMultipleOf len c.W ≤ c.stop) :
    paritySlot c len m + nextMultipleOf len c.W ≤ c.stop := by
  unfold paritySlot; rw [Nat.add_mul, Nat.one_mul] at h; omega

/-- every row below `num_rows` lies inside the range and inside the bit array -/
theorem cap_row {c : Cfg} (hW : 0 < c.W) {m : Nat} (h : m < numRows c) :
    m < 8 * c.N ∧ rowAddr c m + flashRowSize c m ≤ c.stop := by
  obtain ⟨h1, h2⟩ := numRows_spec c hW
  have h3 := flashRowAddressOffset_mono c hW h
  unfold rowAddr
  rcases h2 with h2 | h2 <;> omega

theorem dataStoreAll_eq (c : Cfg) (len : Nat) (hW : 0 < c.W) (hW32 : c.W ≤ MAX_WORD_SIZE) (hlen : c.W ≤ len) (f : Flash)
    (l : List (Nat × List Nat)) : dataStoreAll c f l = (dataSys c len hW hW32 hlen).storeAll f l := by
  induction l generalizing f with
  | nil => rfl
  | cons s l ih => obtain ⟨m, d⟩ := s; exact ih _

theorem parityStoreAll_eq (c : Cfg) (len : Nat) (hW : 0 < c.W) (hW32 : c.W ≤ MAX_WORD_SIZE)
    (ht : len % c.W ≤ c.tailReadLen) (f : Flash) (l : List (Nat × List Nat)) :
    parityStoreAll c f l = (paritySys c len hW hW32 ht).storeAll f l := by
  induction l generalizing f with
  | nil => rfl
  | cons s l ih => obtain ⟨m, d⟩ := s; exact ih _

theorem setRowAll_eq (c : Cfg) (hW : 0 < c.W) (hW32 : c.W ≤ MAX_WORD_SIZE) (f : Flash) (l : List (Nat × List Nat)) :
    setRowAll c f l = (matrixSys c hW hW32).storeAll f l := by
  induction l generalizing f with
  | nil => rfl
  | cons s l ih => obtain ⟨m, d⟩ := s; exact ih _

theorem erased_sub {f : Flash} {a b a' b' : Nat} (h : Erased f a b) (h1 : a ≤ a') (h2 : b' ≤ b) : Erased f a' b' :=
  fun x hx1 hx2 => h x (by omega) (by omega)

/-! ## data adapter -/

/-- `get` returns the `len` bytes at `start + m * len`: blocks are laid out contiguously, without padding -/
theorem data_get_reads_block (c : Cfg) (hv : Valid c) (f : Flash) (m len : Nat) (hlen : c.W ≤ len) :
    (dataGet c f m len).2 = f.read (c.start + m * len) len :=
  dataGetVal_eq_read c hv.pos hv.le32 f m len hlen

/-- **round trip, any store order**: after storing blocks for distinct indices, in any order, on an erased range,
    every stored index reads back its block -/
theorem data_roundtrip (c : Cfg) (hv : Valid c) (len : Nat) (hlen : c.W ≤ len) (f : Flash) (hg : Good c f)
    (her : Erased f c.start c.stop) (stores : List (Nat × List Nat)) (hnd : (stores.map Prod.fst).Nodup)
    (hok : ∀ s ∈ stores, DataOk c len s) :
    ∀ s ∈ stores, (dataGet c (dataStoreAll c f stores) s.1 len).2 = s.2 := by
  rw [dataStoreAll_eq c len hv.pos hv.le32 hlen]
  apply (dataSys c len hv.pos hv.le32 hlen).roundtrip_all hg
    (fun s hs => ⟨(hok s hs).1, (hok s hs).2.1, cap_data (hok s hs).2.2⟩) hnd
  intro s hs
  exact erased_sub her (by show c.start ≤ c.start + _; omega) (cap_data (hok s hs).2.2)

/-- **layout**: byte `k` of block `m` is at `start + m * len + k` -/
theorem data_layout (c : Cfg) (hv : Valid c) (len : Nat) (hlen : c.W ≤ len) (f : Flash) (hg : Good c f)
    (her : Erased f c.start c.stop) (stores : List (Nat × List Nat)) (hnd : (stores.map Prod.fst).Nodup)
    (hok : ∀ s ∈ stores, DataOk c len s) :
    ∀ s ∈ stores, ∀ k, k < len → s.2[k]? = some ((dataStoreAll c f stores).byte (c.start + s.1 * len + k)) := by
  intro s hs k hk
  have h := data_roundtrip c hv len hlen f hg her stores hnd hok s hs
  rw [data_get_reads_block c hv _ _ _ hlen] at h
  rw [← h, getElem?_read, if_pos hk]

/-- **frame**: storing one index never changes what any other index reads back (any device state) -/
theorem data_frame (c : Cfg) (hv : Valid c) (len : Nat) (hlen : c.W ≤ len) (f : Flash) (hg : Good c f)
    (m : Nat) (d : List Nat) (hok : DataOk c len (m, d)) (j : Nat) (hj : j ≠ m) :
    (dataGet c (dataStore c f m d).2 j len).2 = (dataGet c f j len).2 :=
  (dataSys c len hv.pos hv.le32 hlen).frame hg ⟨hok.1, hok.2.1, cap_data hok.2.2⟩ trivial hj

/-- an index that is not among the stored ones reads back as before the whole sequence -/
theorem data_frame_all (c : Cfg) (hv : Valid c) (len : Nat) (hlen : c.W ≤ len) (f : Flash) (hg : Good c f)
    (stores : List (Nat × List Nat)) (hok : ∀ s ∈ stores, DataOk c len s) (j : Nat) (hj : ∀ s ∈ stores, s.1 ≠ j) :
    (dataGet c (dataStoreAll c f stores) j len).2 = (dataGet c f j len).2 := by
  rw [dataStoreAll_eq c len hv.pos hv.le32 hlen]
  exact (dataSys c len hv.pos hv.le32 hlen).frame_all hg
    (fun s hs => ⟨(hok s hs).1, (hok s hs).2.1, cap_data (hok s hs).2.2⟩) trivial hj

/-- the medium after a sequence of stores does not depend on the order of the sequence -/
theorem data_order_independent (c : Cfg) (hv : Valid c) (f : Flash) (l1 l2 : List (Nat × List Nat)) (hp : l1.Perm l2)
    (hlen : ∀ s ∈ l1, c.W ≤ s.2.length) : dataStoreAll c f l1 = dataStoreAll c f l2 := by
  rw [dataStoreAll_eq c c.W hv.pos hv.le32 (Nat.le_refl _), dataStoreAll_eq c c.W hv.pos hv.le32 (Nat.le_refl _)]
  apply SlotSys.storeAll_perm _ (fun _ d => c.W ≤ d.length) _ hp hlen
  intro f m d m' d' h1 h2
  show applyAccs (applyAccs f (dataStoreAccs c m d)) (dataStoreAccs c m' d') =
    applyAccs (applyAccs f (dataStoreAccs c m' d')) (dataStoreAccs c m d)
  simp only [dataStore_apply c hv.pos hv.le32 _ _ _ h1, dataStore_apply c hv.pos hv.le32 _ _ _ h2]
  exact apply_program_comm _ _ _ _ _

/-! ## parity adapter -/

/-- **round trip, any store order**, for every model variant whose tail read covers the unaligned tail -/
theorem parity_roundtrip_of_tail (c : Cfg) (hv : Valid c) (len : Nat) (ht : len % c.W ≤ c.tailReadLen) (f : Flash)
    (hg : Good c f) (her : Erased f c.start c.stop) (stores : List (Nat × List Nat))
    (hnd : (stores.map Prod.fst).Nodup) (hok : ∀ s ∈ stores, ParityOk c len s) :
    ∀ s ∈ stores, (parityGet c (parityStoreAll c f stores) s.1 len).2 = s.2 := by
  rw [parityStoreAll_eq c len hv.pos hv.le32 ht]
  apply (paritySys c len hv.pos hv.le32 ht).roundtrip_all hg
    (fun s hs => ⟨(hok s hs).1, (hok s hs).2.1, cap_parity (hok s hs).2.2⟩) hnd
  intro s hs
  exact erased_sub her (by show c.start ≤ c.start + _; omega) (cap_parity (hok s hs).2.2)

/-- **round trip** of the repaired adapter (`get` reads `WRITE_SIZE` bytes of the padded tail word) -/
theorem parity_roundtrip (c : Cfg) (hv : Valid c) (hfix : c.tailReadLen = c.W) (len : Nat) (f : Flash)
    (hg : Good c f) (her : Erased f c.start c.stop) (stores : List (Nat × List Nat))
    (hnd : (stores.map Prod.fst).Nodup) (hok : ∀ s ∈ stores, ParityOk c len s) :
    ∀ s ∈ stores, (parityGet c (parityStoreAll c f stores) s.1 len).2 = s.2 :=
  parity_roundtrip_of_tail c hv len (by rw [hfix]; exact Nat.le_of_lt (Nat.mod_lt _ hv.pos)) f hg her stores hnd hok

/-- **frame**, for both variants of the tail read whenever it covers the unaligned tail -/
theorem parity_frame_of_tail (c : Cfg) (hv : Valid c) (len : Nat) (ht : len % c.W ≤ c.tailReadLen) (f : Flash)
    (hg : Good c f) (m : Nat) (d : List Nat) (hok : ParityOk c len (m, d)) (j : Nat) (hj : j ≠ m) :
    (parityGet c (parityStore c f m d).2 j len).2 = (parityGet c f j len).2 :=
  (paritySys c len hv.pos hv.le32 ht).frame hg ⟨hok.1, hok.2.1, cap_parity hok.2.2⟩ trivial hj

theorem parity_frame (c : Cfg) (hv : Valid c) (hfix : c.tailReadLen = c.W) (len : Nat) (f : Flash)
    (hg : Good c f) (m : Nat) (d : List Nat) (hok : ParityOk c len (m, d)) (j : Nat) (hj : j ≠ m) :
    (parityGet c (parityStore c f m d).2 j len).2 = (parityGet c f j len).2 :=
  parity_frame_of_tail c hv len (by rw [hfix]; exact Nat.le_of_lt (Nat.mod_lt _ hv.pos)) f hg m d hok j hj

/-- frame for the pinned variant too: a store touches only its own slot, `get j` reads only slot `j`
    (whatever the length of the tail read, as long as it stays inside the slot) -/
theorem parity_frame_pinned (c : Cfg) (hv : Valid c) (htail : c.tailReadLen ≤ c.W) (len : Nat) (f : Flash)
    (m : Nat) (d : List Nat) (hl : d.length = len) (j : Nat) (hj : j ≠ m) :
    (parityGet c (parityStore c f m d).2 j len).2 = (parityGet c f j len).2 := by
  have hdown := previousMultipleOf_eq (v := len) hv.pos
  have hup := nextMultipleOf_eq_previous (v := len) hv.pos
  have hmle := Nat.mod_le len c.W
  have hml := Nat.mod_lt len hv.pos
  have hupge := le_nextMultipleOf len c.W
  have hdis := paritySlot_disjoint c len hj
  have hbyte : ∀ x, paritySlot c len j ≤ x → x < paritySlot c len j + nextMultipleOf len c.W →
      (parityStore c f m d).2.byte x = f.byte x := by
    intro x h1 h2
    show (applyAccs f (parityStoreAccs c m d)).byte x = f.byte x
    rw [byte_parityStore c hv.pos hv.le32, hl, if_neg (by omega)]
  show parityGetVal c _ j len = parityGetVal c f j len
  simp only [parityGetVal]
  have hs : c.start + j * nextMultipleOf len c.W = paritySlot c len j := rfl
  rw [hs]
  congr 1
  · exact read_congr _ _ _ _ (fun x h1 h2 => hbyte x h1 (by omega))
  · split
    · rename_i hne
      rw [if_neg (by omega)] at hup
      congr 2
      exact read_congr _ _ _ _ (fun x h1 h2 => hbyte x (by omega) (by omega))
    · rfl

theorem parity_frame_all (c : Cfg) (hv : Valid c) (len : Nat) (ht : len % c.W ≤ c.tailReadLen) (f : Flash)
    (hg : Good c f) (stores : List (Nat × List Nat)) (hok : ∀ s ∈ stores, ParityOk c len s) (j : Nat)
    (hj : ∀ s ∈ stores, s.1 ≠ j) :
    (parityGet c (parityStoreAll c f stores) j len).2 = (parityGet c f j len).2 := by
  rw [parityStoreAll_eq c len hv.pos hv.le32 ht]
  exact (paritySys c len hv.pos hv.le32 ht).frame_all hg
    (fun s hs => ⟨(hok s hs).1, (hok s hs).2.1, cap_parity (hok s hs).2.2⟩) trivial hj

theorem parity_order_independent (c : Cfg) (hv : Valid c) (f : Flash) (l1 l2 : List (Nat × List Nat)) (hp : l1.Perm l2) :
    parityStoreAll c f l1 = parityStoreAll c f l2 := by
  have ht : 0 % c.W ≤ c.tailReadLen := by rw [Nat.zero_mod]; exact Nat.zero_le _
  rw [parityStoreAll_eq c 0 hv.pos hv.le32 ht, parityStoreAll_eq c 0 hv.pos hv.le32 ht]
  apply SlotSys.storeAll_perm _ (fun _ _ => True) _ hp (fun _ _ => trivial)
  intro f m d m' d' _ _
  show applyAccs (applyAccs f (parityStoreAccs c m d)) (parityStoreAccs c m' d') =
    applyAccs (applyAccs f (parityStoreAccs c m' d')) (parityStoreAccs c m d)
  simp only [parityStore_apply c hv.pos hv.le32]
  exact apply_program_comm _ _ _ _ _

/-- **the pinned defect**: `W = 8`, `R = 1`, a 10-byte block on an erased device: the tail read of `READ_SIZE = 1`
    byte loses the last byte (it reads back 0); with the tail read of `WRITE_SIZE` bytes the block reads back -/
theorem parity_get_tail_witness :
    let pinned : Cfg := { W := 8, R := 1, start := 0, stop := 32, tailReadLen := 1 }
    let repaired : Cfg := { pinned with tailReadLen := 8 }
    let f := Flash.blank 32 32
    let d := [1, 2, 3, 4, 5, 6, 7, 8, 9, 10]
    (parityGet pinned (parityStore pinned f 0 d).2 0 10).2 = [1, 2, 3, 4, 5, 6, 7, 8, 9, 0] ∧
    (parityGet pinned (parityStore pinned f 0 d).2 0 10).2 ≠ d ∧
    (parityGet repaired (parityStore repaired f 0 d).2 0 10).2 = d := by decide

/-! ## matrix adapter -/

/-- closed form of `flash_row_address_offset`: rows are adjacent, row 0 is at the start of the range -/
theorem row_addr_closed_form (c : Cfg) (hv : Valid c) :
    flashRowAddressOffset c 0 = 0 ∧
    (∀ m, flashRowAddressOffset c (m + 1) = flashRowAddressOffset c m + flashRowSize c m) ∧
    (∀ m, flashRowSize c m = c.W * (m / (c.W * 8) + 1)) ∧
    (∀ n, flashRowAddressOffset c n = ((List.range n).map (flashRowSize c)).sum) :=
  ⟨flashRowAddressOffset_zero c, flashRowAddressOffset_succ c hv.pos, flashRowSize_eq c hv.pos,
    flashRowAddressOffset_eq_sum c hv.pos⟩

/-- **`num_rows` never advertises more rows than fit**: the advertised rows need fewer bytes than the range has, each of
    them lies inside the range, and there are at most `8 N` of them -/
theorem num_rows_fit (c : Cfg) (hv : Valid c) :
    numRows c ≤ 8 * c.N ∧
    ((List.range (numRows c)).map (flashRowSize c)).sum ≤ c.stop - c.start ∧
    (numRows c ≠ 0 → ((List.range (numRows c)).map (flashRowSize c)).sum < c.stop - c.start) ∧
    ∀ m, m < numRows c → c.start + flashRowAddressOffset c m + flashRowSize c m ≤ c.stop := by
  obtain ⟨h1, h2⟩ := numRows_spec c hv.pos
  rw [← flashRowAddressOffset_eq_sum c hv.pos]
  refine ⟨h1, ?_, ?_, fun m hm => (cap_row hv.pos hm).2⟩
  · rcases h2 with h2 | h2
    · rw [h2, flashRowAddressOffset_zero]; exact Nat.zero_le _
    · exact Nat.le_of_lt h2
  · intro hne
    rcases h2 with h2 | h2
    · exact absurd h2 hne
    · exact h2

theorem rowOk_sys {c : Cfg} (hv : Valid c) {s : Nat × List Nat} (h : RowOk c s) :
    (matrixSys c hv.pos hv.le32).ok s.1 s.2 :=
  ⟨h.1, h.2.1, h.2.2.1, (cap_row hv.pos h.2.2.2).1, (cap_row hv.pos h.2.2.2).2⟩

/-- **round trip, any store order**: rows obeying the `set_row` contract, distinct indices below `num_rows` -/
theorem matrix_roundtrip (c : Cfg) (hv : Valid c) (f : Flash) (hg : Good c f) (her : Erased f c.start c.stop)
    (stores : List (Nat × List Nat)) (hnd : (stores.map Prod.fst).Nodup) (hok : ∀ s ∈ stores, RowOk c s) :
    ∀ s ∈ stores, (row c (setRowAll c f stores) s.1).2 = s.2 := by
  rw [setRowAll_eq c hv.pos hv.le32]
  apply (matrixSys c hv.pos hv.le32).roundtrip_all hg (fun s hs => rowOk_sys hv (hok s hs)) hnd
  intro s hs
  exact erased_sub her (by show c.start ≤ c.start + _; omega) (cap_row hv.pos (hok s hs).2.2.2).2

/-- **frame**: `set_row m` never changes what another row below `8 N` reads back (any device state) -/
theorem matrix_frame (c : Cfg) (hv : Valid c) (f : Flash) (hg : Good c f) (m : Nat) (raw : List Nat)
    (hok : RowOk c (m, raw)) (j : Nat) (hj8 : j < 8 * c.N) (hj : j ≠ m) :
    (row c (setRow c f m raw).2 j).2 = (row c f j).2 :=
  (matrixSys c hv.pos hv.le32).frame hg (rowOk_sys hv hok) hj8 hj

theorem matrix_frame_all (c : Cfg) (hv : Valid c) (f : Flash) (hg : Good c f) (stores : List (Nat × List Nat))
    (hok : ∀ s ∈ stores, RowOk c s) (j : Nat) (hj8 : j < 8 * c.N) (hj : ∀ s ∈ stores, s.1 ≠ j) :
    (row c (setRowAll c f stores) j).2 = (row c f j).2 := by
  rw [setRowAll_eq c hv.pos hv.le32]
  exact (matrixSys c hv.pos hv.le32).frame_all hg (fun s hs => rowOk_sys hv (hok s hs)) hj8 hj

theorem matrix_order_independent (c : Cfg) (hv : Valid c) (f : Flash) (l1 l2 : List (Nat × List Nat)) (hp : l1.Perm l2)
    (hok : ∀ s ∈ l1, s.2.length = c.N ∧ s.1 < 8 * c.N) : setRowAll c f l1 = setRowAll c f l2 := by
  rw [setRowAll_eq c hv.pos hv.le32, setRowAll_eq c hv.pos hv.le32]
  apply SlotSys.storeAll_perm _ (fun m d => d.length = c.N ∧ m < 8 * c.N) _ hp hok
  intro f m d m' d' h1 h2
  show applyAccs (applyAccs f (setRowAccs c m d)) (setRowAccs c m' d') =
    applyAccs (applyAccs f (setRowAccs c m' d')) (setRowAccs c m d)
  simp only [setRow_apply c hv.pos hv.le32 _ _ _ h1.1 h1.2, setRow_apply c hv.pos hv.le32 _ _ _ h2.1 h2.2]
  exact apply_program_comm _ _ _ _ _

/-! ## accesses: alignment, range, no 0 → 1 -/

/-- the access list of one adapter call made within its contract -/
inductive Call (c : Cfg) : List Acc → Prop
  | new : c.start ≤ c.stop → c.start % ERASE_SIZE = 0 → c.stop % ERASE_SIZE = 0 → Call c (newAccs c)
  | dataStore (m : Nat) (data : List Nat) :
      c.W ≤ data.length → c.start + (m + 1) * data.length ≤ c.stop → Call c (dataStoreAccs c m data)
  | dataGet (m len : Nat) : c.W ≤ len → c.start + (m + 1) * len ≤ c.stop → Call c (dataGetAccs c m len)
  | parityStore (m : Nat) (data : List Nat) :
      c.start + (m + 1) * nextMultipleOf data.length c.W ≤ c.stop → Call c (parityStoreAccs c m data)
  | parityGet (m len : Nat) : (c.tailReadLen = c.R ∨ c.tailReadLen = c.W) →
      c.start + (m + 1) * nextMultipleOf len c.W ≤ c.stop → Call c (parityGetAccs c m len)
  | setRow (m : Nat) (raw : List Nat) : raw.length = c.N → m < numRows c → Call c (setRowAccs c m raw)
  | row (m : Nat) : m < numRows c → Call c (rowAccs c m)

theorem call_legal (c : Cfg) (hv : Valid c) (accs : List Acc) (h : Call c accs) :
    ∀ a ∈ accs, a.aligned c ∧ a.inRange c := by
  cases h with
  | new h1 h2 h3 =>
    intro a ha
    simp only [newAccs, List.mem_singleton] at ha
    subst ha
    exact ⟨⟨h2, h3⟩, ⟨Nat.le_refl _, h1, Nat.le_refl _⟩⟩
  | dataStore m data h1 h2 =>
    intro a ha
    exact (dataStore_accs c hv.pos hv.le32 hv.hstart hv.hstop m data h1 (cap_data h2) a ha).2
  | dataGet m len h1 h2 =>
    intro a ha
    exact (dataGet_accs c hv.pos hv.hR hv.hstart hv.hstop m len h1 (cap_data h2) a ha).2
  | parityStore m data h1 =>
    intro a ha
    exact (parityStore_accs c hv.pos hv.le32 hv.hstart m data (cap_parity h1) a ha).2
  | parityGet m len h1 h2 =>
    intro a ha
    exact (parityGet_accs c hv.pos hv.hR hv.hstart m len h1 (cap_parity h2) a ha).2
  | setRow m raw h1 h2 =>
    intro a ha
    exact (setRow_accs c hv.pos hv.le32 hv.hstart m raw h1 (cap_row hv.pos h2).1 (cap_row hv.pos h2).2 a ha).2
  | row m h1 =>
    intro a ha
    exact (row_accs c hv.pos hv.hR hv.hstart m (cap_row hv.pos h1).1 (cap_row hv.pos h1).2 a ha).2

/-- **every program operation is aligned to and a multiple of the device write size** (and every read to the read
    size, the erase of `new` to the erase size) -/
theorem aligned_writes (c : Cfg) (hv : Valid c) (accs : List Acc) (h : Call c accs) :
    (∀ addr bs, Acc.program addr bs ∈ accs → addr % c.W = 0 ∧ bs.length % c.W = 0) ∧
    (∀ addr n, Acc.read addr n ∈ accs → addr % c.R = 0 ∧ n % c.R = 0) ∧
    (∀ a b, Acc.erase a b ∈ accs → a % ERASE_SIZE = 0 ∧ b % ERASE_SIZE = 0) :=
  ⟨fun _ _ hm => (call_legal c hv accs h _ hm).1, fun _ _ hm => (call_legal c hv accs h _ hm).1,
    fun _ _ hm => (call_legal c hv accs h _ hm).1⟩

/-- **every access stays inside the configured flash range** -/
theorem in_range (c : Cfg) (hv : Valid c) (accs : List Acc) (h : Call c accs) :
    (∀ addr bs, Acc.program addr bs ∈ accs → c.start ≤ addr ∧ addr + bs.length ≤ c.stop) ∧
    (∀ addr n, Acc.read addr n ∈ accs → c.start ≤ addr ∧ addr + n ≤ c.stop) ∧
    (∀ a b, Acc.erase a b ∈ accs → c.start ≤ a ∧ b ≤ c.stop) :=
  ⟨fun _ _ hm => (call_legal c hv accs h _ hm).2, fun _ _ hm => (call_legal c hv accs h _ hm).2,
    fun _ _ hm => ⟨(call_legal c hv accs h _ hm).2.1, (call_legal c hv accs h _ hm).2.2.2⟩⟩

/-- consequently the device accepts every access of a call within the contract: the checked execution used by the
    differential driver coincides with the pure model the theorems are about -/
theorem run_eq_model (c : Cfg) (hv : Valid c) (f : Flash) (hs : c.stop ≤ f.size) (accs : List Acc) (h : Call c accs) :
    run c f accs = (accs, applyAccs f accs, none) :=
  run_eq_of_legal c f accs hs (call_legal c hv accs h)

theorem mem_ite_singleton {p : Prop} [Decidable p] {a x : Acc} (h : a ∈ (if p then [x] else [])) : a = x := by
  split at h
  · exact List.mem_singleton.mp h
  · cases h

/-- `store` / `set_row` only issue programs -/
theorem store_only_programs (c : Cfg) (hv : Valid c) :
    (∀ m data, c.W ≤ data.length → ∀ a ∈ dataStoreAccs c m data, ∃ addr bs, a = .program addr bs) ∧
    (∀ m data, ∀ a ∈ parityStoreAccs c m data, ∃ addr bs, a = .program addr bs) ∧
    (∀ m raw, ∀ a ∈ setRowAccs c m raw, ∃ addr bs, a = .program addr bs) := by
  refine ⟨?_, ?_, ?_⟩
  · intro m data hlen a ha
    rw [dataStoreAccs_eq' c hv.pos hv.le32 m data hlen] at ha
    simp only [List.mem_append, List.mem_singleton] at ha
    rcases ha with (ha | rfl) | ha
    · exact ⟨_, _, mem_ite_singleton ha⟩
    · exact ⟨_, _, rfl⟩
    · exact ⟨_, _, mem_ite_singleton ha⟩
  · intro m data a ha
    simp only [parityStoreAccs, List.mem_append, List.mem_singleton] at ha
    rcases ha with rfl | ha
    · exact ⟨_, _, rfl⟩
    · exact ⟨_, _, mem_ite_singleton ha⟩
  · intro m raw a ha
    simp only [setRowAccs, List.mem_append, List.mem_singleton] at ha
    rcases ha with rfl | ha
    · exact ⟨_, _, rfl⟩
    · exact ⟨_, _, mem_ite_singleton ha⟩

/-- **no 0 → 1, data adapter**: in a sequence of stores of distinct indices on an erased range every programmed byte
    lands on an erased cell or is `0xFF` (the padding over a neighbour's bytes: `a &&& 0xFF = a`, see
    `ProgramOk.sound`), each program judged on the medium as it is when issued -/
theorem no_zero_to_one_data (c : Cfg) (hv : Valid c) (len : Nat) (hlen : c.W ≤ len) (f : Flash) (hg : Good c f)
    (her : Erased f c.start c.stop) (stores : List (Nat × List Nat)) (hnd : (stores.map Prod.fst).Nodup)
    (hok : ∀ s ∈ stores, DataOk c len s) :
    SeqOk f (stores.flatMap (fun s => dataStoreAccs c s.1 s.2)) := by
  apply (dataSys c len hv.pos hv.le32 hlen).seqOk_all (dataStoreAccs c) (fun _ _ _ => rfl) _ hg
    (fun s hs => ⟨(hok s hs).1, (hok s hs).2.1, cap_data (hok s hs).2.2⟩) hnd
  · intro s hs
    exact erased_sub her (by show c.start ≤ c.start + _; omega) (cap_data (hok s hs).2.2)
  · intro f m d _ hokd herd
    have hl : d.length = len := hokd.1
    subst hl
    exact dataStore_seqOk c hv.pos hv.le32 f m d hlen herd

/-- **no 0 → 1, parity adapter** (every byte lands on an erased cell: slots are private) -/
theorem no_zero_to_one_parity (c : Cfg) (hv : Valid c) (len : Nat) (f : Flash) (hg : Good c f)
    (her : Erased f c.start c.stop) (stores : List (Nat × List Nat)) (hnd : (stores.map Prod.fst).Nodup)
    (hok : ∀ s ∈ stores, ParityOk c len s) :
    SeqOk f (stores.flatMap (fun s => parityStoreAccs c s.1 s.2)) := by
  -- the stores do not depend on the tail-read variant: use the repaired configuration for the slot system
  let c' : Cfg := { c with tailReadLen := c.W }
  have ht' : len % c'.W ≤ c'.tailReadLen := Nat.le_of_lt (Nat.mod_lt _ hv.pos)
  have hacc : ∀ m d, parityStoreAccs c' m d = parityStoreAccs c m d := fun _ _ => rfl
  have := (paritySys c' len hv.pos hv.le32 ht').seqOk_all (parityStoreAccs c') (fun _ _ _ => rfl)
    (fun f m d _ hokd herd => by
      have hl : d.length = len := hokd.1
      subst hl
      exact parityStore_seqOk c' hv.pos f m d herd)
    (f := f) (stores := stores) hg
    (fun s hs => ⟨(hok s hs).1, (hok s hs).2.1, cap_parity (c := c') (hok s hs).2.2⟩) hnd
    (fun s hs => erased_sub her (by show c.start ≤ c.start + _; omega) (cap_parity (c := c') (hok s hs).2.2))
  simpa only [hacc] using this

/-- **no 0 → 1, matrix adapter** -/
theorem no_zero_to_one_matrix (c : Cfg) (hv : Valid c) (f : Flash) (hg : Good c f)
    (her : Erased f c.start c.stop) (stores : List (Nat × List Nat)) (hnd : (stores.map Prod.fst).Nodup)
    (hok : ∀ s ∈ stores, RowOk c s) :
    SeqOk f (stores.flatMap (fun s => setRowAccs c s.1 s.2)) := by
  apply (matrixSys c hv.pos hv.le32).seqOk_all (setRowAccs c) (fun _ _ _ => rfl) _ hg
    (fun s hs => rowOk_sys hv (hok s hs)) hnd
  · intro s hs
    exact erased_sub her (by show c.start ≤ c.start + _; omega) (cap_row hv.pos (hok s hs).2.2.2).2
  · intro f m d _ hokd herd
    exact setRow_seqOk c hv.pos f m d hokd.1 hokd.2.2.2.1 herd

/-! ## the `as u32` casts of `flash.rs` are exact

`flash_range` is a `Range<u32>`, so `c.stop < 2^32` holds for every adapter that can be constructed. Under the calling
contract (`Call`) every address and every end address of an access is then below `2^32`, and so is every offset that
`flash.rs` converts with `as u32` before adding it to `flash_range.start` (`m * len`, `(m + 1) * len`, the padded parity
slot offset, the triangular row offset and row size): no cast truncates and no `u32` addition wraps, which is what the
model (unbounded `Nat` addresses) assumes. -/

theorem u32_accesses_exact (c : Cfg) (hv : Valid c) (h32 : c.stop < 2 ^ 32) (accs : List Acc) (h : Call c accs) :
    (∀ addr bs, Acc.program addr bs ∈ accs → addr < 2 ^ 32 ∧ addr + bs.length < 2 ^ 32) ∧
    (∀ addr n, Acc.read addr n ∈ accs → addr < 2 ^ 32 ∧ addr + n < 2 ^ 32) ∧
    (∀ a b, Acc.erase a b ∈ accs → a < 2 ^ 32 ∧ b < 2 ^ 32) := by
  obtain ⟨hp, hr, he⟩ := in_range c hv accs h
  refine ⟨fun a bs hm => ?_, fun a n hm => ?_, fun a b hm => ?_⟩
  · have := hp a bs hm; omega
  · have := hr a n hm; omega
  · have := he a b hm
    have := (call_legal c hv accs h _ hm).2
    simp only [Acc.inRange] at this
    omega

theorem u32_offsets_exact (c : Cfg) (hv : Valid c) (h32 : c.stop < 2 ^ 32) :
    (∀ m len, c.start + (m + 1) * len ≤ c.stop →
      m * len < 2 ^ 32 ∧ (m + 1) * len < 2 ^ 32 ∧ c.start + m * len < 2 ^ 32 ∧ c.start + (m + 1) * len < 2 ^ 32) ∧
    (∀ m len, c.start + (m + 1) * nextMultipleOf len c.W ≤ c.stop →
      m * nextMultipleOf len c.W < 2 ^ 32 ∧ c.start + m * nextMultipleOf len c.W + nextMultipleOf len c.W < 2 ^ 32) ∧
    (∀ m, m < numRows c →
      flashRowAddressOffset c m < 2 ^ 32 ∧ flashRowSize c m < 2 ^ 32 ∧
      c.start + flashRowAddressOffset c m + flashRowSize c m < 2 ^ 32) := by
  refine ⟨fun m len h => ?_, fun m len h => ?_, fun m h => ?_⟩
  · rw [Nat.add_mul, Nat.one_mul] at h
    rw [Nat.add_mul, Nat.one_mul]
    omega
  · rw [Nat.add_mul, Nat.one_mul] at h
    omega
  · have := (cap_row hv.pos h).2
    unfold rowAddr at this
    omega

/-! ## the premises are satisfiable (non-vacuity)

the configuration of the repository's own `flash.rs` tests (write size 8, read size 1) on a 4 KiB range starting at an
erase-block boundary; a 9-byte data block, a padded parity block and a matrix row each make a call within the contract,
so `call_legal`, `in_range`, `aligned_writes`, `run_eq_model` and the `u32` theorems apply to them. -/

/-- the test configuration with a 16-byte bit array (`N = 16`, 128 possible rows) -/
def exCfg : Cfg := { W := 8, R := 1, start := 256, stop := 4352, tailReadLen := 8, N := 16 }

example : Valid exCfg ∧ exCfg.stop < 2 ^ 32 := ⟨⟨by decide, by decide, by decide, by decide⟩, by decide⟩
example : Call exCfg (newAccs exCfg) := .new (by decide) (by decide) (by decide)
example : Call exCfg (dataStoreAccs exCfg 3 [1, 2, 3, 4, 5, 6, 7, 8, 9]) := .dataStore 3 _ (by decide) (by decide)
example : Call exCfg (dataGetAccs exCfg 3 9) := .dataGet 3 9 (by decide) (by decide)
example : Call exCfg (parityStoreAccs exCfg 2 [1, 2, 3, 4, 5, 6, 7, 8, 9]) := .parityStore 2 _ (by decide)
example : Call exCfg (parityGetAccs exCfg 2 9) := .parityGet 2 9 (Or.inr rfl) (by decide)
example : 5 < numRows exCfg := by decide
example : Call exCfg (rowAccs exCfg 5) := .row 5 (by decide)
example : Call exCfg (setRowAccs exCfg 5 (List.replicate 16 0)) := .setRow 5 _ (by decide) (by decide)

end Fuota.C16
