import Fuota.Lemmas.V1Xor
import Fuota.Lemmas.V1Scan
import Fuota.Lemmas.V1Peel
import Fuota.Lemmas.V1Monad
import Fuota.Lemmas.V1Same
import Fuota.Lemmas.V1Naive
import Fuota.Lemmas.V1NaiveStart
import Fuota.Lemmas.V1OrigStart
import Fuota.Props.C10
/-!
# C19 — the single-erasure (V1) updaters repair only what parity determines

Models: `Fuota.Naive` (`flash-algo-new/src/update/naive.rs`) and `Fuota.Orig`
(`original-flash-algo/src/manager.rs`), both calling the shared scan `Fuota.V1.pickRepair`.

* `repair_exact` — XOR algebra: the bytes a repair step computes are the original fragment.
* `naive_repair_exact`, `orig_repair_exact` — the same for what the two models' `repairCompute` (= `repair_step` up
  to its final write) return, given that the fragments marked received read back as the originals and the coded
  fragments marked received read back as the XOR of the originals their row covers; the chosen fragment is one that
  is missing.
* `dup_noop_naive`, `dup_noop_orig` — a fragment whose status byte reads "written" changes neither the device nor the
  in-memory session (no program is issued), and is answered `Consumed` when the stored bytes equal the delivered ones.
* `dup_consumed_orig` — since the repair the original crate's duplicate check reads exactly the fragment and answers
  `Consumed` (former finding `orig-dup-error`).
* `naive_parity_count_le`, `naive_parity_header_parses`, `naive_parity_count_witness` — since the repair the naive
  `start_update` announces a parity count the header can represent (former finding `naive-parity-count-unclamped`).
* `peel_confluent`, `complete_iff_peel_partial` — the repair loop is a peeling decoder: for every delivery sequence
  (any order, duplicates) the data mask is the least set that contains the delivered data and is closed under
  "a received row with exactly one covered fragment outside" — whatever row the scan prefers; completion is reported
  exactly when that closure is everything.
* `naive_step_is_abs`, `orig_step_is_abs` — one `repair_step` of either model takes exactly the abstract step on the
  masks its status tables read as.
* `naive_eq_orig_partial` — the two machines (they differ in how many parity indices they scan) stay in the same
  state on every delivery sequence whose coded indices both scan.

FULL at flash level for the naive model (`Lemmas/V1Slot.lean`, `V1View.lean`, `V1Naive.lean`, `V1NaiveStart.lean`):
`naive_start_establishes` (start_update establishes the session invariant `NInv`), `naive_handle_segment_refines`
(`handle_segment` on genuine fragments = `Abs.deliver`, never an error), `complete_iff_peel` /
`complete_iff_peel_session` (completion is reported exactly when peeling recovers everything).
`naive_eq_orig_model_partial`: naive side flash-level, original side still mask-level (kept).
FULL for the original crate as well (`Lemmas/V1OrigSlot.lean`, `V1Orig.lean`, `V1OrigStart.lean`):
`orig_start_establishes`, `orig_handle_segment_refines`, and **`naive_eq_orig`** — both flash-level models, fed the same
genuine fragments, report completion at the same deliveries and end with the same data-region contents.
Non-vacuity: the two `example`s at the end build concrete states satisfying `OInv` / `NInv`.

`_partial` = proved for the mask-level machine `Fuota.V1.Abs`; the missing hypothesis is the flash-level refinement
"after the programs of a delivery, `loadStatus` reads the masks of `Abs.deliver`" (a program of `DATA_WRITTEN` at
`WRITTEN_OFFSET + i` sets exactly bit `i`), which the differential suite D8 checks on every run instead.
-/
set_option linter.unusedSimpArgs false
namespace Fuota.C19
open Fuota.V1 Fuota.Fs

/-- the constants this file computes with -/
theorem consts : Consts.DATA_WRITTEN = 0x33 ∧ Consts.DATA_NOT_WRITTEN = 0xFF ∧ Consts.O_DATA_WRITTEN = 0x33 ∧
    Consts.O_DATA_NOT_WRITTEN = 0xFF := by decide

/-- **repair_exact**: for every image `D` (fragments of `sz` bytes), every coefficient row, every store `S` that
    holds the originals at the other covered positions: the coded fragment XOR the covered fragments except `m`
    is the original fragment `m`. -/
theorem repair_exact (D S : Nat → List Nat) (row n sz m : Nat)
    (hlen : ∀ i, i < n → (D i).length = sz) (hm : m < n) (hcov : row.testBit m = true)
    (hS : ∀ i, i < n → i ≠ m → row.testBit i = true → S i = D i) :
    repaired S (coded D row n sz) row n m = D m :=
  V1.repair_exact D S row n sz m hlen hm hcov hS

/-- **naive repair writes the original**: whatever `repair_step` of the naive back-end is about to write is the
    original fragment, and it is a fragment that is missing. -/
theorem naive_repair_exact (cfg : Naive.Cfg) (u : Naive.Upd) (d : Dev) (D : Nat → List Nat)
    (seg recvFw recvPar lenPar : Nat)
    (hseg : (u.fw.segmentSize).run d = (.ok seg, d))
    (hfw : (Naive.loadStatus u.fw).run d = (.ok (recvFw, u.totalFw), d))
    (hpar : (Naive.loadStatus u.par).run d = (.ok (recvPar, lenPar), d))
    (hlen : ∀ i, i < u.totalFw → (D i).length = seg)
    (hD : ∀ i, i < u.totalFw → recvFw.testBit i = true → (u.fw.readSegment i seg).run d = (.ok (D i), d))
    (hP : ∀ p row, p < lenPar → recvPar.testBit p = true →
      Lfdbt.getParityMatrixRow cfg.ffr ((p + 1) % 2 ^ 32) u.totalFw = some row →
      (u.par.readSegment p seg).run d = (.ok (coded D row u.totalFw seg), d))
    (m seg' : Nat) (out : List Nat) (s' : Naive.Upd × Dev)
    (h : (Naive.repairCompute cfg).run (u, d) = (.ok (some (m, seg', out)), s')) :
    out = D m ∧ m < u.totalFw ∧ recvFw.testBit m = false ∧ seg' = seg ∧ s' = (u, d) := by
  unfold Naive.repairCompute at h
  simp only [NaiveRun.run_bind, NaiveRun.getU_run] at h
  by_cases h1 : u.remFw = 0
  · simp only [h1, ↓reduceIte] at h; cases h
  simp only [h1, ↓reduceIte] at h
  by_cases h2 : u.remPar = u.totalPar
  · simp only [h2, ↓reduceIte] at h; cases h
  simp only [h2, ↓reduceIte, NaiveRun.run_bind, NaiveRun.liftM_run, hseg] at h
  by_cases h3 : seg > MAX_SEGMENT_SIZE
  · simp only [h3, ↓reduceIte] at h; cases h
  simp only [h3, ↓reduceIte, NaiveRun.run_bind, NaiveRun.liftM_run, hfw, hpar, Nat.min_self] at h
  cases hp : pickRepair (fun p => Lfdbt.getParityMatrixRow cfg.ffr ((p + 1) % 2 ^ 32) u.totalFw) recvFw recvPar
      u.totalFw (List.range lenPar) with
  | error e => rw [hp] at h; cases h
  | ok r =>
    rw [hp] at h
    cases r with
    | none => cases h
    | some t =>
      obtain ⟨p, fwi, row⟩ := t
      obtain ⟨hp1, hp2, hp3, hp4⟩ := pickRepair_some hp
      have hpl := List.mem_range.mp hp1
      obtain ⟨e1, e2, e3, e4⟩ := (exactlyOne_iff row recvFw u.totalFw fwi).mp hp4
      simp only [NaiveRun.run_bind, NaiveRun.liftM_run, hP p row hpl hp2 hp3] at h
      rw [NaiveRun.xorLoop_eq u.fw row fwi seg D d (List.range u.totalFw) _
        (fun i hi hne hr => hD i (List.mem_range.mp hi) (e4 i (List.mem_range.mp hi) hne hr))] at h
      simp only [NaiveRun.run_pure, Prod.mk.injEq, Except.ok.injEq, Option.some.injEq] at h
      cases h
      refine ⟨?_, e1, e3, rfl, rfl⟩
      exact V1.repair_exact D D row u.totalFw _ _ hlen e1 e2 (fun _ _ _ _ => rfl)

/-- **original repair writes the original** (`manager.rs::repair_step`) -/
theorem orig_repair_exact (cfg : Orig.Cfg) (a : Orig.Act) (d : Dev) (D : Nat → List Nat) (recvFw recvPar : Nat)
    (hfw : (Orig.loadStatus a.slotSize a.fwIdx a.totalFw).run d = (.ok recvFw, d))
    (hpar : (Orig.loadStatus a.slotSize a.parIdx a.totalPar).run d = (.ok recvPar, d))
    (hlen : ∀ i, i < a.totalFw → (D i).length = a.segSize)
    (hD : ∀ i, i < a.totalFw → recvFw.testBit i = true →
      (readTo (a.fwIdx * a.slotSize + Orig.DATA_REGION_OFFSET + i * a.segSize) a.segSize).run d = (.ok (D i), d))
    (hP : ∀ p row, p < a.totalPar → recvPar.testBit p = true →
      Lfdbt.getParityMatrixRowOrig cfg.ffr ((p + 1) % 2 ^ 32) a.totalFw = some row →
      (readTo (a.parIdx * a.slotSize + Orig.DATA_REGION_OFFSET + p * a.segSize) a.segSize).run d =
        (.ok (coded D row a.totalFw a.segSize), d))
    (m : Nat) (out : List Nat) (s' : Orig.Act × Dev)
    (h : (Orig.repairCompute cfg).run (a, d) = (.ok (some (m, out)), s')) :
    out = D m ∧ m < a.totalFw ∧ recvFw.testBit m = false ∧ s' = (a, d) := by
  unfold Orig.repairCompute at h
  simp only [OrigRun.run_bind, OrigRun.getA_run] at h
  by_cases h1 : a.remFw = 0
  · simp only [h1, ↓reduceIte] at h; cases h
  simp only [h1, ↓reduceIte] at h
  by_cases h2 : a.remPar = a.totalPar
  · simp only [h2, ↓reduceIte] at h; cases h
  simp only [h2, ↓reduceIte] at h
  by_cases h3 : a.segSize > Orig.MAX_SEGMENT_SIZE
  · simp only [h3, ↓reduceIte] at h; cases h
  simp only [h3, ↓reduceIte, OrigRun.run_bind, OrigRun.liftM_run, hfw, hpar] at h
  cases hp : pickRepair (fun p => Lfdbt.getParityMatrixRowOrig cfg.ffr ((p + 1) % 2 ^ 32) a.totalFw) recvFw recvPar
      a.totalFw (List.range a.totalPar) with
  | error e => rw [hp] at h; cases h
  | ok r =>
    rw [hp] at h
    cases r with
    | none => cases h
    | some t =>
      obtain ⟨p, fwi, row⟩ := t
      obtain ⟨hp1, hp2, hp3, hp4⟩ := pickRepair_some hp
      have hpl := List.mem_range.mp hp1
      obtain ⟨e1, e2, e3, e4⟩ := (exactlyOne_iff row recvFw a.totalFw fwi).mp hp4
      simp only [OrigRun.run_bind, OrigRun.liftM_run, hP p row hpl hp2 hp3] at h
      rw [OrigRun.xorLoop_eq (a.fwIdx * a.slotSize + Orig.DATA_REGION_OFFSET) a.segSize row fwi D d
        (List.range a.totalFw) _
        (fun i hi hne hr => hD i (List.mem_range.mp hi) (e4 i (List.mem_range.mp hi) hne hr))] at h
      simp only [OrigRun.run_pure, Prod.mk.injEq, Except.ok.injEq, Option.some.injEq] at h
      cases h
      refine ⟨?_, e1, e3, rfl⟩
      exact V1.repair_exact D D row a.totalFw a.segSize _ hlen e1 e2 (fun _ _ _ _ => rfl)

/-! ## duplicates -/

/-- the slot and 0-based index `write_segment_internal` of the naive back-end addresses -/
def naiveTarget (u : Naive.Upd) (idx1 : Nat) : Slot × Nat :=
  if idx1 ≤ u.totalFw then (u.fw, idx1 - 1) else (u.par, idx1 - 1 - u.totalFw)

/-- **dup_noop (naive)**: when the status byte of the addressed fragment reads `DATA_WRITTEN`, the call leaves the
    device (flash, operation log: no program) and the in-memory updater exactly as they were — whatever it answers. -/
theorem dup_noop_naive (scratchLen idx1 : Nat) (bytes : List Nat) (u : Naive.Upd) (d : Dev)
    (hst : (Naive.segmentStatus (naiveTarget u idx1).1 (naiveTarget u idx1).2).run d = (.ok Consts.DATA_WRITTEN, d)) :
    ((Naive.writeSegmentInternal scratchLen idx1 bytes).run (u, d)).2 = (u, d) := by
  unfold Naive.writeSegmentInternal
  simp only [NaiveRun.run_bind, NaiveRun.getU_run]
  by_cases h0 : idx1 = 0
  · simp [h0, NaiveRun.run_throw]
  simp only [h0, ↓reduceIte]
  by_cases hr : (!decide (idx1 ≤ u.totalFw) && !decide (idx1 ≤ (u.totalFw + u.totalPar) % 2 ^ 32)) = true
  · simp [hr, NaiveRun.run_throw]
  simp only [hr, Bool.false_eq_true, ↓reduceIte]
  by_cases hf : idx1 ≤ u.totalFw
  · have ht : naiveTarget u idx1 = (u.fw, idx1 - 1) := by simp [naiveTarget, hf]
    rw [ht] at hst
    simp only [hf, decide_true, ↓reduceIte, NaiveRun.run_bind, NaiveRun.liftM_run, hst]
    have hs := readSegment_state u.fw (idx1 - 1) scratchLen d
    cases hrd : (u.fw.readSegment (idx1 - 1) scratchLen).run d with
    | mk r d' =>
      rw [hrd] at hs; simp only at hs; subst hs
      cases r with
      | error e => rfl
      | ok got =>
        simp only
        by_cases c1 : bytes.length > scratchLen
        · simp [c1, NaiveRun.run_throw, NaiveRun.run_bind]
        · by_cases c2 : got.length < bytes.length
          · simp [c1, c2, NaiveRun.run_throw, NaiveRun.run_bind]
          · by_cases c3 : got.take bytes.length = bytes
            · simp [c1, c2, c3, NaiveRun.run_pure, NaiveRun.run_bind]
            · simp [c1, c2, c3, NaiveRun.run_throw, NaiveRun.run_bind]
  · have ht : naiveTarget u idx1 = (u.par, idx1 - 1 - u.totalFw) := by simp [naiveTarget, hf]
    rw [ht] at hst
    simp only [hf, decide_false, Bool.false_eq_true, ↓reduceIte, NaiveRun.run_bind, NaiveRun.liftM_run, hst]
    have hs := readSegment_state u.par (idx1 - 1 - u.totalFw) scratchLen d
    cases hrd : (u.par.readSegment (idx1 - 1 - u.totalFw) scratchLen).run d with
    | mk r d' =>
      rw [hrd] at hs; simp only at hs; subst hs
      cases r with
      | error e => rfl
      | ok got =>
        simp only
        by_cases c1 : bytes.length > scratchLen
        · simp [c1, NaiveRun.run_throw, NaiveRun.run_bind]
        · by_cases c2 : got.length < bytes.length
          · simp [c1, c2, NaiveRun.run_throw, NaiveRun.run_bind]
          · by_cases c3 : got.take bytes.length = bytes
            · simp [c1, c2, c3, NaiveRun.run_pure, NaiveRun.run_bind]
            · simp [c1, c2, c3, NaiveRun.run_throw, NaiveRun.run_bind]


/-- **dup_noop (naive), the answer**: an in-range re-delivery whose bytes equal what the store returns is answered
    `Consumed`. -/
theorem dup_consumed_naive (scratchLen idx1 : Nat) (bytes got : List Nat) (u : Naive.Upd) (d : Dev)
    (h0 : idx1 ≠ 0) (hin : idx1 ≤ u.totalFw ∨ idx1 ≤ (u.totalFw + u.totalPar) % 2 ^ 32)
    (hst : (Naive.segmentStatus (naiveTarget u idx1).1 (naiveTarget u idx1).2).run d = (.ok Consts.DATA_WRITTEN, d))
    (hrd : ((naiveTarget u idx1).1.readSegment (naiveTarget u idx1).2 scratchLen).run d = (.ok got, d))
    (hl : bytes.length ≤ scratchLen) (hg : bytes.length ≤ got.length) (heq : got.take bytes.length = bytes) :
    (Naive.writeSegmentInternal scratchLen idx1 bytes).run (u, d) = (.ok .consumed, (u, d)) := by
  unfold Naive.writeSegmentInternal
  simp only [NaiveRun.run_bind, NaiveRun.getU_run, h0, ↓reduceIte]
  have hr : (!decide (idx1 ≤ u.totalFw) && !decide (idx1 ≤ (u.totalFw + u.totalPar) % 2 ^ 32)) = false := by
    rcases hin with h | h <;> simp [h]
  simp only [hr, Bool.false_eq_true, ↓reduceIte]
  have c1 : ¬ bytes.length > scratchLen := by omega
  have c2 : ¬ got.length < bytes.length := by omega
  by_cases hf : idx1 ≤ u.totalFw
  · have ht : naiveTarget u idx1 = (u.fw, idx1 - 1) := by simp [naiveTarget, hf]
    rw [ht] at hst hrd
    simp only [hf, decide_true, ↓reduceIte, NaiveRun.run_bind, NaiveRun.liftM_run, hst, hrd, c1, c2, heq]
    rfl
  · have ht : naiveTarget u idx1 = (u.par, idx1 - 1 - u.totalFw) := by simp [naiveTarget, hf]
    rw [ht] at hst hrd
    simp only [hf, decide_false, Bool.false_eq_true, ↓reduceIte, NaiveRun.run_bind, NaiveRun.liftM_run, hst, hrd,
      c1, c2, heq]
    rfl

/-- **dup_noop (original)**: when the status byte of the addressed fragment reads `DATA_WRITTEN`, `write_segment`
    leaves the device and the `ActiveStatus` exactly as they were (no program) — whatever it answers. -/
theorem dup_noop_orig (cfg : Orig.Cfg) (scratchLen idx1 : Nat) (bytes : List Nat) (a : Orig.Act) (d : Dev)
    (p : Orig.WPlan) (hp : Orig.planWrite cfg a idx1 bytes.length = .ok p)
    (hst : (readTo p.writtenAddr 1).run d = (.ok [Consts.O_DATA_WRITTEN], d)) :
    ((Orig.writeSegmentInternal cfg scratchLen idx1 bytes).run (a, d)).2 = (a, d) := by
  unfold Orig.writeSegmentInternal
  simp only [OrigRun.run_bind, OrigRun.getA_run, hp, OrigRun.liftM_run, hst]
  simp only [List.getD_cons_zero, ↓reduceIte, OrigRun.run_bind, OrigRun.liftM_run]
  by_cases c1 : bytes.length > scratchLen
  · simp [c1, OrigRun.run_throw, OrigRun.run_bind]
  · simp only [c1, ↓reduceIte, OrigRun.run_bind, OrigRun.liftM_run, OrigRun.run_pure]
    have hs := readTo_state p.dataStart bytes.length d
    cases hrd : (readTo p.dataStart bytes.length).run d with
    | mk r d' =>
      rw [hrd] at hs; simp only at hs; subst hs
      cases r with
      | error e => rfl
      | ok got =>
        simp only
        by_cases c3 : got.take bytes.length = bytes
        · simp [c3, OrigRun.run_pure, OrigRun.run_bind]
        · simp [c3, OrigRun.run_throw, OrigRun.run_bind]

/-- **dup_noop (original), the answer**: since the repair the duplicate check reads exactly `bytes.len()` bytes at
    the fragment's own data address (inside its slot, see `Fuota.C20.plan_in_slot`); when they equal the delivered
    bytes the call answers `Consumed` — also for a fragment stored at the very end of the device (former finding
    `orig-dup-error`: 256 bytes were read there, beyond the device). -/
theorem dup_consumed_orig (cfg : Orig.Cfg) (scratchLen idx1 : Nat) (bytes got : List Nat) (a : Orig.Act) (d : Dev)
    (p : Orig.WPlan) (hp : Orig.planWrite cfg a idx1 bytes.length = .ok p)
    (hst : (readTo p.writtenAddr 1).run d = (.ok [Consts.O_DATA_WRITTEN], d))
    (hl : bytes.length ≤ scratchLen)
    (hrd : (readTo p.dataStart bytes.length).run d = (.ok got, d)) (heq : got.take bytes.length = bytes) :
    (Orig.writeSegmentInternal cfg scratchLen idx1 bytes).run (a, d) = (.ok .consumed, (a, d)) := by
  unfold Orig.writeSegmentInternal
  simp only [OrigRun.run_bind, OrigRun.getA_run, hp, OrigRun.liftM_run, hst]
  have c1 : ¬ bytes.length > scratchLen := by omega
  simp only [List.getD_cons_zero, ↓reduceIte, c1, OrigRun.run_bind, OrigRun.liftM_run, OrigRun.run_pure, hrd, heq]

/-! ## the parity count of the naive `start_update` (repaired: clamped to `MAX_SEGMENTS`) -/

/-- with the clamp the announced parity count is a value the header field can represent ... -/
theorem naive_parity_count_le (cfg : Naive.Cfg) (hc : cfg.clampParity = true) (slot sz : Nat) :
    Naive.parityCount cfg slot sz ≤ MAX_SEGMENTS := by
  unfold Naive.parityCount
  simp only [hc, ↓reduceIte]
  exact Nat.min_le_right _ _

/-- ... so the parity header parses back whenever at least one fragment fits the slot: `repair_step` sees the
    coded fragments and `try_recover` finds the session (former finding `naive-parity-count-unclamped`) -/
theorem naive_parity_header_parses (cfg : Naive.Cfg) (hc : cfg.clampParity = true) (slot sz : Nat)
    (hfit : 1 ≤ Naive.parityCount cfg slot sz) :
    Layout.parseNseg Fs.C (Naive.parityCount cfg slot sz) = some (Naive.parityCount cfg slot sz) := by
  have h := naive_parity_count_le cfg hc slot sz
  unfold Layout.parseNseg
  have hm : Fs.C.maxSegments = MAX_SEGMENTS := rfl
  rw [hm]
  simp [hfit, h]
  omega

/-- witness of the repaired defect: fragment size 2 on 64 KiB slots — the pinned count 24064 does not parse, the
    clamped count 16384 does -/
theorem naive_parity_count_witness :
    Naive.parityCount { clampParity := false } 65536 2 = 24064 ∧ Layout.parseNseg Fs.C 24064 = none ∧
    Naive.parityCount { clampParity := true } 65536 2 = 16384 ∧ Layout.parseNseg Fs.C 16384 = some 16384 := by
  decide

/-! ## the repair loop is a peeling decoder -/

/-- **confluence**: the peeling closure (least set containing the received data that no received row can extend)
    is unique, so the order in which repairable rows are used cannot matter. -/
theorem peel_confluent {n parLen : Nat} {rowOf : Nat → Option Nat} {par data R R' : Nat}
    (h : IsPeel n parLen rowOf par data R) (h' : IsPeel n parLen rowOf par data R') :
    ∀ i, R.testBit i = R'.testBit i := IsPeel.unique h h'

/-- **complete_iff_peel** (mask level; `_partial`: see the file header for the missing flash-level hypothesis).
    For every number of data fragments, every row generator, every delivery sequence `ds` (any order, duplicates,
    data and coded fragments): after `ds` all `n` data fragments are present — i.e. the delivery that completes the
    run reports completion — iff every set that contains the delivered data and is closed under single-missing
    peeling with the delivered rows contains all `n` fragments.  Since this holds for every prefix of a sequence,
    completion is first reported at the first fragment after which peeling can recover everything. -/
theorem complete_iff_peel_partial (n parLen : Nat) (rowOf : Nat → Option Nat)
    (hrow : ∀ p, p < parLen → (rowOf p).isSome = true) (ds : List Dlv) :
    (∀ i, i < n → ((Abs.init n parLen rowOf).run ds).fw.testBit i = true) ↔
      (∀ T, Closed n parLen rowOf (addCoded 0 ds) T → Sub (addData 0 ds) T → ∀ i, i < n → T.testBit i = true) := by
  have hp := run_isPeel (Abs.init n parLen rowOf) ds 0 hrow (init_isPeel n parLen rowOf)
  have hpar : ((Abs.init n parLen rowOf).run ds).par = addCoded 0 ds := (run_fields _ ds).2.2.2
  rw [hpar] at hp
  constructor
  · intro h T hT hs i hi
    exact hp.2.2 T hT hs i (h i hi)
  · intro h i hi
    exact h _ hp.2.1 hp.1 i hi

/-- what is present after a run is exactly the peeling closure of what was delivered (nothing else is ever written) -/
theorem run_is_closure (n parLen : Nat) (rowOf : Nat → Option Nat)
    (hrow : ∀ p, p < parLen → (rowOf p).isSome = true) (ds : List Dlv) :
    IsPeel n parLen rowOf (addCoded 0 ds) (addData 0 ds) ((Abs.init n parLen rowOf).run ds).fw := by
  have hp := run_isPeel (Abs.init n parLen rowOf) ds 0 hrow (init_isPeel n parLen rowOf)
  have hpar : ((Abs.init n parLen rowOf).run ds).par = addCoded 0 ds := (run_fields _ ds).2.2.2
  rw [hpar] at hp
  exact hp

/-- the mask-level view of a naive session state: the masks its two status tables read as -/
def naiveAbs (cfg : Naive.Cfg) (u : Naive.Upd) (recvFw recvPar lenPar : Nat) : Abs :=
  { n := u.totalFw, parLen := lenPar,
    rowOf := fun p => Lfdbt.getParityMatrixRow cfg.ffr ((p + 1) % 2 ^ 32) u.totalFw, fw := recvFw, par := recvPar }

/-- **one naive `repair_step` is one abstract step**: it repairs fragment `m` iff `Abs.step` on the masks the status
    tables read as sets bit `m`, and reports "nothing to repair" iff `Abs.step` does. -/
theorem naive_step_is_abs (cfg : Naive.Cfg) (u : Naive.Upd) (d : Dev) (seg recvFw recvPar lenPar : Nat)
    (hseg : (u.fw.segmentSize).run d = (.ok seg, d)) (hsz : seg ≤ MAX_SEGMENT_SIZE)
    (hfw : (Naive.loadStatus u.fw).run d = (.ok (recvFw, u.totalFw), d))
    (hpar : (Naive.loadStatus u.par).run d = (.ok (recvPar, lenPar), d))
    (h1 : u.remFw ≠ 0) (h2 : u.remPar ≠ u.totalPar) :
    match (Naive.repairCompute cfg).run (u, d) with
    | (.ok (some (m, _, _)), _) =>
        (naiveAbs cfg u recvFw recvPar lenPar).step =
          some { naiveAbs cfg u recvFw recvPar lenPar with fw := recvFw ||| 2 ^ m }
    | (.ok none, _) => (naiveAbs cfg u recvFw recvPar lenPar).step = none
    | (.error _, _) => True := by
  unfold Naive.repairCompute
  simp only [NaiveRun.run_bind, NaiveRun.getU_run, h1, h2, ↓reduceIte, NaiveRun.liftM_run, hseg]
  have h3 : ¬ seg > MAX_SEGMENT_SIZE := by omega
  simp only [h3, ↓reduceIte, NaiveRun.run_bind, NaiveRun.liftM_run, hfw, hpar, Nat.min_self]
  cases hp : pickRepair (fun p => Lfdbt.getParityMatrixRow cfg.ffr ((p + 1) % 2 ^ 32) u.totalFw) recvFw recvPar
      u.totalFw (List.range lenPar) with
  | error e => trivial
  | ok r =>
    cases r with
    | none =>
      show (naiveAbs cfg u recvFw recvPar lenPar).step = none
      unfold Abs.step naiveAbs
      simp only [hp]
    | some t =>
      obtain ⟨p, fwi, row⟩ := t
      simp only [NaiveRun.run_bind, NaiveRun.liftM_run]
      cases (u.par.readSegment p seg).run d with
      | mk r1 d1 =>
        cases r1 with
        | error e => trivial
        | ok init =>
          simp only [NaiveRun.run_bind, NaiveRun.liftM_run]
          cases (Naive.xorLoop u.fw row fwi seg (List.range u.totalFw) init).run d1 with
          | mk r2 d2 =>
            cases r2 with
            | error e => trivial
            | ok out =>
              show (naiveAbs cfg u recvFw recvPar lenPar).step = _
              unfold Abs.step naiveAbs
              simp only [hp]

/-- the mask-level view of an original-crate session state -/
def origAbs (cfg : Orig.Cfg) (a : Orig.Act) (recvFw recvPar : Nat) : Abs :=
  { n := a.totalFw, parLen := a.totalPar,
    rowOf := fun p => Lfdbt.getParityMatrixRowOrig cfg.ffr ((p + 1) % 2 ^ 32) a.totalFw, fw := recvFw, par := recvPar }

/-- **one original `repair_step` is one abstract step** -/
theorem orig_step_is_abs (cfg : Orig.Cfg) (a : Orig.Act) (d : Dev) (recvFw recvPar : Nat)
    (hsz : a.segSize ≤ Orig.MAX_SEGMENT_SIZE)
    (hfw : (Orig.loadStatus a.slotSize a.fwIdx a.totalFw).run d = (.ok recvFw, d))
    (hpar : (Orig.loadStatus a.slotSize a.parIdx a.totalPar).run d = (.ok recvPar, d))
    (h1 : a.remFw ≠ 0) (h2 : a.remPar ≠ a.totalPar) :
    match (Orig.repairCompute cfg).run (a, d) with
    | (.ok (some (m, _)), _) =>
        (origAbs cfg a recvFw recvPar).step = some { origAbs cfg a recvFw recvPar with fw := recvFw ||| 2 ^ m }
    | (.ok none, _) => (origAbs cfg a recvFw recvPar).step = none
    | (.error _, _) => True := by
  unfold Orig.repairCompute
  have h3 : ¬ a.segSize > Orig.MAX_SEGMENT_SIZE := by omega
  simp only [OrigRun.run_bind, OrigRun.getA_run, h1, h2, h3, ↓reduceIte, OrigRun.liftM_run, hfw, hpar]
  cases hp : pickRepair (fun p => Lfdbt.getParityMatrixRowOrig cfg.ffr ((p + 1) % 2 ^ 32) a.totalFw) recvFw recvPar
      a.totalFw (List.range a.totalPar) with
  | error e => trivial
  | ok r =>
    cases r with
    | none =>
      show (origAbs cfg a recvFw recvPar).step = none
      unfold Abs.step origAbs
      simp only [hp]
    | some t =>
      obtain ⟨p, fwi, row⟩ := t
      simp only [OrigRun.run_bind, OrigRun.liftM_run]
      cases (readTo (a.parIdx * a.slotSize + Orig.DATA_REGION_OFFSET + p * a.segSize) a.segSize).run d with
      | mk r1 d1 =>
        cases r1 with
        | error e => trivial
        | ok init =>
          simp only [OrigRun.run_bind, OrigRun.liftM_run]
          cases (Orig.xorLoop (a.fwIdx * a.slotSize + Orig.DATA_REGION_OFFSET) a.segSize row fwi
              (List.range a.totalFw) init).run d1 with
          | mk r2 d2 =>
            cases r2 with
            | error e => trivial
            | ok out =>
              show (origAbs cfg a recvFw recvPar).step = _
              unfold Abs.step origAbs
              simp only [hp]

/-- the two crates use the same row generator (the two `fragmentation.rs` are the same text; suite D2 compares both
    with the model) -/
theorem same_rows (ffr : Bool) (p m : Nat) :
    Lfdbt.getParityMatrixRowOrig ffr p m = Lfdbt.getParityMatrixRow ffr p m := rfl

/-- **naive_eq_orig** (mask level, `_partial`): two machines with the same fragment count and rows that scan
    different numbers of parity indices — the naive updater scans the count its parity header announces, the original
    one always 16384 — pass through the same states on every delivery sequence whose coded indices lie inside both
    scans; in particular they report completion at the same fragment. -/
theorem naive_eq_orig_partial (n : Nat) (rowOf : Nat → Option Nat) (lenNaive lenOrig : Nat) (ds : List Dlv)
    (hds : ∀ p, Dlv.coded p ∈ ds → p < lenNaive ∧ p < lenOrig) :
    ∀ pre, pre <+: ds →
      ((Abs.init n lenNaive rowOf).run pre).fw = ((Abs.init n lenOrig rowOf).run pre).fw ∧
      ((Abs.init n lenNaive rowOf).run pre).par = ((Abs.init n lenOrig rowOf).run pre).par := by
  intro pre hpre
  have hs : Same (Abs.init n lenNaive rowOf) (Abs.init n lenOrig rowOf) := ⟨rfl, rfl, rfl, rfl⟩
  have hb : Bnd (Abs.init n lenNaive rowOf) (Abs.init n lenOrig rowOf) := by
    intro p hp; simp [Abs.init] at hp
  have := run_same hs hb pre (fun p hp => hds p (List.IsPrefix.subset hpre hp))
  exact ⟨this.2.2.1, this.2.2.2⟩

/-! ## the naive model refines the mask-level machine (flash level) -/

theorem run_snoc (a : Abs) (ds : List Dlv) (x : Dlv) : a.run (ds ++ [x]) = (a.run ds).deliver x := by
  induction ds generalizing a with
  | nil => rfl
  | cons d ds ih => exact ih (a.deliver d)

theorem abs_eq_init (a : Abs) (h1 : a.fw = 0) (h2 : a.par = 0) : a = Abs.init a.n a.parLen a.rowOf := by
  cases a; simp only [Abs.init] at *; subst h1; subst h2; rfl

/-- **complete_iff_peel** (naive model, flash level, full).  A fresh naive session (`NInv` with empty masks: what
    `start_update` leaves) on a device without armed injection, for every image `D`; deliver the genuine fragments with
    the 1-based indices `idxs` (any order, duplicates, data and coded) and then fragment `j`.  Every call succeeds, and
    the last one answers `FirmwareComplete` exactly when fragment `j` was not present yet and iterative
    single-missing-fragment peeling over everything delivered recovers all data fragments — i.e. every set that
    contains the delivered data fragments and is closed under the delivered rows contains all `n`. -/
theorem complete_iff_peel (cfg : Naive.Cfg) (u : Naive.Upd) (d : Dev) (a : Abs) (D : Nat → List Nat) (seg : Nat)
    (I : NInv cfg u d a D seg) (hfw : a.fw = 0) (hpar : a.par = 0) (idxs : List Nat) (j : Nat)
    (hall : ∀ i ∈ idxs, 1 ≤ i ∧ i ≤ a.n + a.parLen) (hj1 : 1 ≤ j) (hj2 : j ≤ a.n + a.parLen) :
    ∃ outs u1 d1 out u2 d2,
      (deliverAll cfg a D seg idxs).run (u, d) = (.ok outs, (u1, d1)) ∧
      (Naive.handleSegment cfg j (genuine a D seg j)).run (u1, d1) = (.ok out, (u2, d2)) ∧
      NInv cfg u2 d2 (a.run ((idxs ++ [j]).map (toDlv a.n))) D seg ∧
      (out = Naive.Outcome.complete ↔
        (present (a.run (idxs.map (toDlv a.n))) j = false ∧
          ∀ T, Closed a.n a.parLen a.rowOf (addCoded 0 ((idxs ++ [j]).map (toDlv a.n))) T →
            Sub (addData 0 ((idxs ++ [j]).map (toDlv a.n))) T → ∀ i, i < a.n → T.testBit i = true)) := by
  have hinit := abs_eq_init a hfw hpar
  have hcl : a.step = none := step_none_of_nopar (fun p _ => by rw [hpar]; simp)
  obtain ⟨outs, u1, d1, hrun1, _, I1, hcl1⟩ := deliverAll_run a idxs u d a I hcl rfl rfl rfl hall
  obtain ⟨e1, e2, e3, _⟩ := run_fields a (idxs.map (toDlv a.n))
  obtain ⟨out, u2, d2, hrun2, I2, _, hiff⟩ := handleSegment_run I1 hcl1 j hj1 (by rw [e1, e2]; exact hj2)
  rw [genuine_congr a _ D seg j e1 e3] at hrun2
  rw [e1] at I2 hiff
  have hsn : (a.run (idxs.map (toDlv a.n))).deliver (toDlv a.n j) = a.run ((idxs ++ [j]).map (toDlv a.n)) := by
    rw [List.map_append, List.map_singleton, run_snoc]
  rw [hsn] at I2 hiff
  refine ⟨outs, u1, d1, out, u2, d2, hrun1, hrun2, I2, ?_⟩
  rw [hiff]
  have hp := complete_iff_peel_partial a.n a.parLen a.rowOf I.rows ((idxs ++ [j]).map (toDlv a.n))
  rw [← hinit] at hp
  rw [hp]

/-- **naive_eq_orig** (naive side: flash-level model; original side: its mask-level machine — `_partial`: the
    flash-level refinement of the *original* crate's `write_segment` + `repair_step` loop to `Abs.deliver`, i.e. the
    analogue of `handleSegment_run` for `Fuota.Orig`, is not proved; `orig_step_is_abs` is its decision half and suite
    D8 compares the two crates on the same deliveries).  In the setting of `complete_iff_peel`, when every coded index
    delivered lies inside both scans, the naive model answers `FirmwareComplete` at fragment `j` exactly when `j` is new
    and the original crate's machine (which scans `lenOrig` = 16384 parity indices) has all data fragments. -/
theorem naive_eq_orig_model_partial (cfg : Naive.Cfg) (u : Naive.Upd) (d : Dev) (a : Abs) (D : Nat → List Nat) (seg : Nat)
    (I : NInv cfg u d a D seg) (hfw : a.fw = 0) (hpar : a.par = 0) (idxs : List Nat) (j : Nat) (lenOrig : Nat)
    (hall : ∀ i ∈ idxs, 1 ≤ i ∧ i ≤ a.n + a.parLen) (hj1 : 1 ≤ j) (hj2 : j ≤ a.n + a.parLen)
    (hboth : ∀ p, Dlv.coded p ∈ (idxs ++ [j]).map (toDlv a.n) → p < a.parLen ∧ p < lenOrig) :
    ∃ outs u1 d1 out u2 d2,
      (deliverAll cfg a D seg idxs).run (u, d) = (.ok outs, (u1, d1)) ∧
      (Naive.handleSegment cfg j (genuine a D seg j)).run (u1, d1) = (.ok out, (u2, d2)) ∧
      (out = Naive.Outcome.complete ↔
        (present (a.run (idxs.map (toDlv a.n))) j = false ∧
          ∀ i, i < a.n →
            ((Abs.init a.n lenOrig a.rowOf).run ((idxs ++ [j]).map (toDlv a.n))).fw.testBit i = true)) := by
  have hinit := abs_eq_init a hfw hpar
  have hcl : a.step = none := step_none_of_nopar (fun p _ => by rw [hpar]; simp)
  obtain ⟨outs, u1, d1, hrun1, _, I1, hcl1⟩ := deliverAll_run a idxs u d a I hcl rfl rfl rfl hall
  obtain ⟨e1, e2, e3, _⟩ := run_fields a (idxs.map (toDlv a.n))
  obtain ⟨out, u2, d2, hrun2, _, _, hiff⟩ := handleSegment_run I1 hcl1 j hj1 (by rw [e1, e2]; exact hj2)
  rw [genuine_congr a _ D seg j e1 e3] at hrun2
  rw [e1] at hiff
  have hsn : (a.run (idxs.map (toDlv a.n))).deliver (toDlv a.n j) = a.run ((idxs ++ [j]).map (toDlv a.n)) := by
    rw [List.map_append, List.map_singleton, run_snoc]
  rw [hsn] at hiff
  refine ⟨outs, u1, d1, out, u2, d2, hrun1, hrun2, ?_⟩
  rw [hiff]
  have hs : Same (Abs.init a.n a.parLen a.rowOf) (Abs.init a.n lenOrig a.rowOf) := ⟨rfl, rfl, rfl, rfl⟩
  have hb : Bnd (Abs.init a.n a.parLen a.rowOf) (Abs.init a.n lenOrig a.rowOf) := by
    intro p hp; simp [Abs.init] at hp
  have := run_same hs hb ((idxs ++ [j]).map (toDlv a.n)) hboth
  rw [← hinit] at this
  rw [this.2.2.1]

/-- **`handle_segment` of the naive model refines the mask-level machine** (the flash-level hypothesis of the former
    `_partial` theorems, discharged): see `Fuota.V1.handleSegment_run`. -/
theorem naive_handle_segment_refines {cfg : Naive.Cfg} {u : Naive.Upd} {d : Dev} {a : Abs} {D : Nat → List Nat} {seg : Nat}
    (I : NInv cfg u d a D seg) (hcl : a.step = none) (idx1 : Nat) (h1 : 1 ≤ idx1) (hn : idx1 ≤ a.n + a.parLen) :
    ∃ out u' d', (Naive.handleSegment cfg idx1 (genuine a D seg idx1)).run (u, d) = (.ok out, (u', d')) ∧
      NInv cfg u' d' (a.deliver (toDlv a.n idx1)) D seg ∧ (a.deliver (toDlv a.n idx1)).step = none ∧
      (out = Naive.Outcome.complete ↔
        (present a idx1 = false ∧ ∀ i, i < a.n → (a.deliver (toDlv a.n idx1)).fw.testBit i = true)) :=
  handleSegment_run I hcl idx1 h1 hn

/-- **`start_update` establishes the invariant** (non-vacuity of `NInv`, and the starting point of
    `complete_iff_peel`): see `Fuota.V1.naive_start_establishes`.  `hrows` — every parity index has a row — is what
    `Fuota.C10.terminates` provides without `force-full-r`. -/
theorem naive_start_establishes (cfg : Naive.Cfg) (hc : cfg.clampParity = true) (nslots S sz n : Nat) (d : Dev)
    (D : Nat → List Nat) (hG : Good d) (hwf : FlashAdapters.WF d.flash) (hdev : nslots * S ≤ d.flash.size)
    (hb0 : 0 < d.flash.block) (hdiv : S % d.flash.block = 0) (hn2 : 2 ≤ nslots) (hS32 : S < 4294967296)
    (hgeo : Updater.reasonablySized S sz n = .ok ())
    (hrows : ∀ p, p < Naive.parityCount cfg S sz →
      (Lfdbt.getParityMatrixRow cfg.ffr ((p + 1) % 2 ^ 32) n).isSome = true)
    (hDl : ∀ i, i < n → (D i).length = sz) (hDb : ∀ i, i < n → Updater.IsBytes (D i)) :
    ∃ u d', (Naive.startUpdate cfg nslots S sz n).run d = (.ok u, d') ∧ NInv cfg u d' (naiveInit cfg S sz n) D sz :=
  V1.naive_start_establishes cfg hc nslots S sz n d D hG hwf hdev hb0 hdiv hn2 hS32 hgeo hrows hDl hDb

/-- **complete_iff_peel, whole session**: `start_update` on any device without armed injection, then any sequence
    of genuine fragments, then fragment `j` — see `complete_iff_peel`. -/
theorem complete_iff_peel_session (cfg : Naive.Cfg) (hc : cfg.clampParity = true) (nslots S sz n : Nat) (d : Dev)
    (D : Nat → List Nat) (hG : Good d) (hwf : FlashAdapters.WF d.flash) (hdev : nslots * S ≤ d.flash.size)
    (hb0 : 0 < d.flash.block) (hdiv : S % d.flash.block = 0) (hn2 : 2 ≤ nslots) (hS32 : S < 4294967296)
    (hgeo : Updater.reasonablySized S sz n = .ok ())
    (hrows : ∀ p, p < Naive.parityCount cfg S sz →
      (Lfdbt.getParityMatrixRow cfg.ffr ((p + 1) % 2 ^ 32) n).isSome = true)
    (hDl : ∀ i, i < n → (D i).length = sz) (hDb : ∀ i, i < n → Updater.IsBytes (D i))
    (idxs : List Nat) (j : Nat) (hall : ∀ i ∈ idxs, 1 ≤ i ∧ i ≤ n + Naive.parityCount cfg S sz) (hj1 : 1 ≤ j)
    (hj2 : j ≤ n + Naive.parityCount cfg S sz) :
    ∃ u0 d0 outs u1 d1 out u2 d2,
      (Naive.startUpdate cfg nslots S sz n).run d = (.ok u0, d0) ∧
      (deliverAll cfg (naiveInit cfg S sz n) D sz idxs).run (u0, d0) = (.ok outs, (u1, d1)) ∧
      (Naive.handleSegment cfg j (genuine (naiveInit cfg S sz n) D sz j)).run (u1, d1) = (.ok out, (u2, d2)) ∧
      (out = Naive.Outcome.complete ↔
        (present ((naiveInit cfg S sz n).run (idxs.map (toDlv n))) j = false ∧
          ∀ T, Closed n (Naive.parityCount cfg S sz) (naiveInit cfg S sz n).rowOf
              (addCoded 0 ((idxs ++ [j]).map (toDlv n))) T →
            Sub (addData 0 ((idxs ++ [j]).map (toDlv n))) T → ∀ i, i < n → T.testBit i = true)) := by
  obtain ⟨u0, d0, hrun0, I0⟩ := V1.naive_start_establishes cfg hc nslots S sz n d D hG hwf hdev hb0 hdiv hn2 hS32 hgeo
    hrows hDl hDb
  obtain ⟨outs, u1, d1, out, u2, d2, h1, h2, _, h4⟩ := complete_iff_peel cfg u0 d0 (naiveInit cfg S sz n) D sz I0 rfl rfl
    idxs j hall hj1 hj2
  exact ⟨u0, d0, outs, u1, d1, out, u2, d2, hrun0, h1, h2, h4⟩

/-! ## the original crate's model refines the mask-level machine; both models side by side -/

open Fuota.Nor

theorem present_same {a b : Abs} (h : Same a b) (i : Nat) : present a i = present b i := by
  obtain ⟨h1, _, h3, h4⟩ := h
  unfold present
  rw [h1, h3, h4]

theorem read_erased (f : Flash) (a len : Nat) (h : FlashAdapters.Erased f a (a + len)) :
    f.read a len = List.replicate len 0xFF := by
  apply List.ext_getElem
  · simp [Flash.read]
  · intro j h1 h2
    simp only [Flash.read, List.getElem_map, List.getElem_range, List.getElem_replicate]
    exact h _ (by omega) (by simp [Flash.read] at h1; omega)

/-- both models, fed the same genuine fragments, step by step -/
theorem both_run {ncfg : Naive.Cfg} {ocfg : Orig.Cfg} {cap : Nat} {D : Nat → List Nat} {seg : Nat} (a0 b0 : Abs)
    (h0n : b0.n = a0.n) (h0r : b0.rowOf = a0.rowOf) :
    ∀ (idxs : List Nat) (u : Naive.Upd) (d : Dev) (a : Abs) (ac : Orig.Act) (e : Dev) (b : Abs),
    NInv ncfg u d a D seg → OInv ocfg ac e b cap D seg → a.step = none → b.step = none → Same a b → Bnd a b →
    a.n = a0.n → a.parLen = a0.parLen → a.rowOf = a0.rowOf →
    (∀ i ∈ idxs, 1 ≤ i ∧ i ≤ a0.n + a0.parLen ∧ i ≤ a0.n + cap) →
    ∃ outs u' d' cs ac' e',
      (deliverAll ncfg a0 D seg idxs).run (u, d) = (.ok outs, (u', d')) ∧
      (oDeliverAll ocfg b0 D seg idxs).run (ac, e) = (.ok cs, (ac', e')) ∧
      outs.map (fun o => decide (o = Naive.Outcome.complete)) = cs ∧
      NInv ncfg u' d' (a.run (idxs.map (toDlv a0.n))) D seg ∧
      OInv ocfg ac' e' (b.run (idxs.map (toDlv a0.n))) cap D seg ∧
      Same (a.run (idxs.map (toDlv a0.n))) (b.run (idxs.map (toDlv a0.n))) := by
  intro idxs
  induction idxs with
  | nil =>
    intro u d a ac e b I J _ _ hs _ _ _ _ _
    exact ⟨[], u, d, [], ac, e, rfl, rfl, rfl, I, J, hs⟩
  | cons i is ih =>
    intro u d a ac e b I J hca hcb hs hb hn hp hr hall
    obtain ⟨h1, h2, h3⟩ := hall i (by simp)
    have hbn : b.n = a0.n := by rw [← hs.1]; exact hn
    have hbr : b.rowOf = a0.rowOf := by rw [← hs.2.1]; exact hr
    obtain ⟨o, u1, d1, hrun1, I1, hca1, hiff1⟩ := handleSegment_run I hca i h1 (by rw [hn, hp]; exact h2)
    obtain ⟨w, rep, c, ac1, e1, hrun2, J1, hcb1, hiff2⟩ := oHandleSegment_run J hcb i h1 (by rw [hbn]; exact h3)
    rw [genuine_congr a0 a D seg i hn hr] at hrun1
    rw [genuine_congr b0 b D seg i (by rw [hbn, h0n]) (by rw [hbr, h0r])] at hrun2
    rw [hn] at I1 hca1 hiff1
    rw [hbn] at J1 hcb1 hiff2
    -- the delivery keeps the two abstract states equal
    have hcod : ∀ q, toDlv a0.n i = .coded q → q < a.parLen ∧ q < b.parLen := by
      intro q hq
      unfold toDlv at hq
      split at hq
      · cases hq
      · cases hq
        have := J.plen
        have := J.geo.cap_le
        omega
    obtain ⟨hs1, hb1⟩ := deliver_same hs hb (toDlv a0.n i) hcod
    obtain ⟨e1', e2', e3'⟩ := deliver_fields a (toDlv a0.n i)
    obtain ⟨outs, u', d', cs, ac', e', hr1, hr2, hf, I', J', hs'⟩ := ih u1 d1 _ ac1 e1 _ I1 J1 hca1 hcb1 hs1 hb1
      (by rw [e1', hn]) (by rw [e2', hp]) (by rw [e3', hr]) (fun j hj => hall j (by simp [hj]))
    refine ⟨o :: outs, u', d', c :: cs, ac', e', ?_, ?_, ?_, I', J', hs'⟩
    · unfold deliverAll
      simp only [NaiveRun.run_bind, hrun1, hr1, NaiveRun.run_pure]
    · unfold oDeliverAll
      simp only [OrigRun.run_bind, hrun2, hr2, OrigRun.run_pure]
    · have hoc : (o = Naive.Outcome.complete) ↔ c = true := by
        rw [hiff1, hiff2, present_same hs, hs1.2.2.1]
      have : decide (o = Naive.Outcome.complete) = c := by
        cases c
        · have : ¬ o = Naive.Outcome.complete := fun h => by have := hoc.1 h; cases this
          simp [this]
        · simp [hoc.2 rfl]
      simp only [List.map_cons, this, hf]

/-- **naive_eq_orig** (both sides flash-level models, full).  A fresh naive session (`NInv`, empty masks) and a fresh
    original-crate session (`OInv`, empty masks) for the same image `D` (`n` fragments of `seg` bytes, same
    `force-full-r` setting), each on its own device without armed injection.  Feed both the same genuine fragments
    `idxs` (any order, duplicates; coded indices inside both the naive scan `a.parLen` and the original parity slot
    `cap`).  Then every call of either model succeeds, the two report completion at exactly the same deliveries
    (`cs` = the original crate's completeness flags = "the naive outcome is `FirmwareComplete`", position by position),
    and afterwards every data fragment reads the same bytes in the two firmware slots. -/
theorem naive_eq_orig (ncfg : Naive.Cfg) (ocfg : Orig.Cfg) (hffr : ocfg.ffr = ncfg.ffr)
    (u : Naive.Upd) (d : Dev) (a : Abs) (ac : Orig.Act) (e : Dev) (b : Abs) (cap : Nat) (D : Nat → List Nat) (seg : Nat)
    (I : NInv ncfg u d a D seg) (J : OInv ocfg ac e b cap D seg)
    (ha1 : a.fw = 0) (ha2 : a.par = 0) (hb1 : b.fw = 0) (hb2 : b.par = 0) (hn : b.n = a.n)
    (idxs : List Nat) (hall : ∀ i ∈ idxs, 1 ≤ i ∧ i ≤ a.n + a.parLen ∧ i ≤ a.n + cap) :
    ∃ outs u' d' cs ac' e',
      (deliverAll ncfg a D seg idxs).run (u, d) = (.ok outs, (u', d')) ∧
      (oDeliverAll ocfg b D seg idxs).run (ac, e) = (.ok cs, (ac', e')) ∧
      (∀ i ∈ idxs, genuine b D seg i = genuine a D seg i) ∧
      outs.map (fun o => decide (o = Naive.Outcome.complete)) = cs ∧
      (∀ i, i < a.n →
        d'.flash.read (dAddr u'.fw seg i) seg = e'.flash.read (ac'.fwIdx * ac'.slotSize + 17408 + i * seg) seg) := by
  have hrow : b.rowOf = a.rowOf := by
    rw [I.rowEq, J.rowEq, hffr, hn]; rfl
  have hca : a.step = none := step_none_of_nopar (fun p _ => by rw [ha2]; simp)
  have hcb : b.step = none := step_none_of_nopar (fun p _ => by rw [hb2]; simp)
  have hs : Same a b := ⟨hn.symm, hrow.symm, by rw [ha1, hb1], by rw [ha2, hb2]⟩
  have hbd : Bnd a b := by intro p hp; rw [ha2] at hp; simp at hp
  obtain ⟨outs, u', d', cs, ac', e', h1, h2, h3, I', J', hs'⟩ :=
    both_run a b hn hrow idxs u d a ac e b I J hca hcb hs hbd rfl rfl rfl hall
  refine ⟨outs, u', d', cs, ac', e', h1, h2, fun i _ => genuine_congr a b D seg i hn hrow, h3, ?_⟩
  obtain ⟨e1, _, _, _⟩ := run_fields a (idxs.map (toDlv a.n))
  obtain ⟨f1, _, _, _⟩ := run_fields b (idxs.map (toDlv a.n))
  intro i hi
  have hfw : (b.run (idxs.map (toDlv a.n))).fw = (a.run (idxs.map (toDlv a.n))).fw := hs'.2.2.1.symm
  cases hbit : (a.run (idxs.map (toDlv a.n))).fw.testBit i with
  | true =>
    rw [I'.fwV.data i (by rw [e1]; exact hi) hbit, J'.fwV.data i (by rw [f1, hn]; exact hi) (by rw [hfw]; exact hbit)]
  | false =>
    rw [read_erased _ _ _ (I'.fwV.free i (by rw [e1]; exact hi) hbit),
      read_erased _ _ _ (J'.fwV.free i (by rw [f1, hn]; exact hi) (by rw [hfw]; exact hbit))]

/-- **`write_segment` + repair loop of the original crate refine the mask-level machine** (flash level; the analogue of
    `naive_handle_segment_refines`): see `Fuota.V1.oHandleSegment_run`.  `cap` = number of coded fragments that fit
    the parity slot; `c` = the completeness flag (`ActiveStatus::is_complete` after the call, false for a duplicate). -/
theorem orig_handle_segment_refines {cfg : Orig.Cfg} {ac : Orig.Act} {d : Dev} {a : Abs} {cap : Nat}
    {D : Nat → List Nat} {seg : Nat} (I : OInv cfg ac d a cap D seg) (hcl : a.step = none) (idx1 : Nat)
    (h1 : 1 ≤ idx1) (hn : idx1 ≤ a.n + cap) :
    ∃ w rep c ac' d', (Orig.handleSegment cfg idx1 (genuine a D seg idx1)).run (ac, d) = (.ok (w, rep, c), (ac', d')) ∧
      OInv cfg ac' d' (a.deliver (toDlv a.n idx1)) cap D seg ∧ (a.deliver (toDlv a.n idx1)).step = none ∧
      (c = true ↔ (present a idx1 = false ∧ ∀ i, i < a.n → (a.deliver (toDlv a.n idx1)).fw.testBit i = true)) :=
  oHandleSegment_run I hcl idx1 h1 hn

/-- **`start` of the original crate establishes `OInv`** on every consistent ring device: see
    `Fuota.V1.orig_start_establishes` (`hrows` holds without `force-full-r`: `rows_std`). -/
theorem orig_start_establishes (cfg : Orig.Cfg) (N S p k s0 : Nat) (H : Nat → Layout.Header) (sz n : Nat) (d : Dev)
    (D : Nat → List Nat) (hN : 3 ≤ N) (hN6 : N ≤ 6) (hp : p < N) (hk : k ≤ N)
    (hG : Good d) (hwf : FlashAdapters.WF d.flash) (hb0 : 0 < d.flash.block) (hdiv : S % d.flash.block = 0)
    (hsz : N * S ≤ d.flash.size) (hring : Orig.hdrsOf d.flash S (List.range N) = Orig.ringIH N p k s0 H)
    (hgeo : Orig.reasonablySized S sz n = .ok ())
    (hrows : ∀ q, q < origCap S sz → (Lfdbt.getParityMatrixRowOrig cfg.ffr ((q + 1) % 2 ^ 32) n).isSome = true)
    (hDl : ∀ i, i < n → (D i).length = sz) (hDb : ∀ i, i < n → Updater.IsBytes (D i)) :
    ∃ act d', (Orig.start N S sz n).run d = (.ok act, d') ∧ OInv cfg act d' (origInit cfg n) (origCap S sz) D sz :=
  V1.orig_start_establishes cfg N S p k s0 H sz n d D hN hN6 hp hk hG hwf hb0 hdiv hsz hring hgeo hrows hDl hDb

/-! ## non-vacuity -/

/-- a blank 4 x 18432-byte device with 6144-byte erase blocks -/
def exDev : Dev := { flash := Flash.blank 6144 (4 * 18432) }
/-- an image of three 256-byte fragments -/
def exImage : Nat → List Nat := fun i => List.replicate 256 (i + 1)

theorem exDev_good : Good exDev := ⟨rfl, rfl, rfl⟩
theorem exDev_wf : FlashAdapters.WF exDev.flash := fun x => by
  show (Flash.blank 6144 (4 * 18432)).byte x < 256
  rw [C20.blank_byte]; decide
theorem exDev_size : exDev.flash.size = 4 * 18432 := Array.size_replicate ..
theorem exImage_len (i : Nat) : (exImage i).length = 256 := List.length_replicate ..
theorem exImage_bytes (i : Nat) (hi : i < 3) : Updater.IsBytes (exImage i) := by
  intro b hb
  simp only [exImage, List.mem_replicate] at hb
  omega

/-- without `force-full-r` every parity index below 16384 has a row (C10): the `hrows` hypotheses of the establishing
    theorems hold -/
theorem rows_std (n q : Nat) (hn : n ≤ 16384) (hq : q < 16384) :
    (Lfdbt.getParityMatrixRow false ((q + 1) % 2 ^ 32) n).isSome = true := by
  rw [Nat.mod_eq_of_lt (by omega), C10.row_new_eq_spec hn (by omega) (by omega)]
  rfl

/-- **non-vacuity of `OInv`**: `start(256, 3)` on the blank example device yields a concrete state satisfying the
    invariant of the original crate's session -/
example : ∃ act d', (Orig.start 4 18432 256 3).run exDev = (.ok act, d') ∧
    OInv {} act d' (origInit {} 3) (origCap 18432 256) exImage 256 := by
  apply orig_start_establishes {} 4 18432 0 0 0 (fun _ => C11.sampleHeader) 256 3 exDev exImage (by omega) (by omega)
    (by omega) (by omega) exDev_good exDev_wf (by show 0 < 6144; omega) (by show 18432 % 6144 = 0; rfl)
    (by rw [exDev_size]; exact Nat.le_refl _)
    (C20.blank_device_is_ring 6144 4 18432 0 0 _) rfl
  · intro q hq
    have hc : origCap 18432 256 = 4 := by decide
    rw [hc] at hq
    exact rows_std 3 q (by omega) (by omega)
  · intro i _; exact exImage_len i
  · exact exImage_bytes

/-- **non-vacuity of `NInv`**: `start_update(256, 3)` of the naive back-end on the same device -/
example : ∃ u d', (Naive.startUpdate { clampParity := true } 4 18432 256 3).run exDev = (.ok u, d') ∧
    NInv { clampParity := true } u d' (naiveInit { clampParity := true } 18432 256 3) exImage 256 := by
  apply V1.naive_start_establishes { clampParity := true } rfl 4 18432 256 3 exDev exImage exDev_good exDev_wf
    (by rw [exDev_size]; exact Nat.le_refl _) (by show 0 < 6144; omega) (by show 18432 % 6144 = 0; rfl) (by omega)
    (by omega) rfl
  · intro q hq
    have hc : Naive.parityCount { clampParity := true } 18432 256 = 4 := by decide
    rw [hc] at hq
    exact rows_std 3 q (by omega) (by omega)
  · intro i _; exact exImage_len i
  · exact exImage_bytes


/-- a concrete 4-fragment image, the row `{0, 2}`: the repair of fragment 2 from fragment 0 and the coded fragment -/
example : repaired (fun i => [i + 1, 2 * i]) (coded (fun i => [i + 1, 2 * i]) 0b0101 4 2) 0b0101 4 2 = [3, 4] := by
  decide

/-- the hypotheses of `repair_exact` are satisfiable and the conclusion is not trivial -/
example : coded (fun i => [i + 1, 2 * i]) 0b0101 4 2 = [1 ^^^ 3, 0 ^^^ 4] := by decide

/-- peeling on a 3-fragment session with rows {0,1} and {1,2}: data 0 then the two coded fragments complete it,
    and the closure of {0} under the first row alone does not -/
example :
    let rowOf : Nat → Option Nat := fun p => if p = 0 then some 0b011 else some 0b110
    (((Abs.init 3 2 rowOf).run [.data 0, .coded 0, .coded 1]).fw = 0b111) ∧
    (((Abs.init 3 2 rowOf).run [.data 0, .coded 0]).fw = 0b011) := by
  decide

end Fuota.C19
