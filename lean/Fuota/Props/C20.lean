import Fuota.Lemmas.V1Ring
import Fuota.Lemmas.V1Write
import Fuota.Lemmas.V1Start
import Fuota.Lemmas.V1App
/-!
# C20 — deprecated manager: ring placement is oldest-first and writes stay in-slot

Model: `Fuota.Orig` (`original-flash-algo/src/manager.rs`, `src/ring.rs`).  A consistent ring state is
`ringIH N p k s0 H`: `N` slots, a run of `k` consecutively numbered slots whose oldest sits at position `p` with
sequence number `s0 mod (2^32-1)`, the other slots blank; `H i` gives the remaining header fields of slot `i`.
All theorems quantify over `3 ≤ N ≤ 6`, every rotation `p < N`, every fill `k ≤ N`, EVERY start value `s0`
(hence also the ones adjacent to `2^32-1`) and every `H`.

* `next_seq_never_reserved`, `next_seq_valid`, `next_seq_injective`
* `ordered_headers_spec`, `no_assert`
* `start_places` — FULL, flash level: on every consistent ring device `start` takes the two positions after the newest,
  writes the two headers numbered `next_seq`, `next_seq²` and touches nothing else.
* `start_places_partial` — the decision-level core of it: both iterations of `start`: the two positions that follow the newest slot (slots 0 and 1 on a
  blank ring), numbered `next_seq`, `next_seq²`.
* `app_status_resumes` — FULL, flash level: on every consistent ring device `app_boot_status` resumes exactly the newest
  in-progress pair or reports idle, and afterwards no other slot reads "in progress" (`cancelAll_run`,
  `appAfter_some_run` are the two branches).
* `app_pair_spec`, `app_status_resumes_partial` (its decision-level core) — the pair `app_boot_status` resumes is the newest (firmware, parity) pair
  iff both are in progress, of the right kinds, of the same fragment size and the firmware geometry fits the slot; `remediate_covers`, `cancel_covers`: every other slot
  that reads "in progress" is aborted or erased (resume case), every slot that reads "in progress" is aborted
  (idle case).
* `write_in_slot` — for the model with `rangeCheckWithOffset = true`, every operation an accepted fragment write
  issues is a program inside the slot the fragment belongs to; `write_beyond_slot_witness` — with the pinned range
  check, parity fragment #1300 (fragment size 40, 64 KiB slots, 10 data fragments) is accepted and programmed into
  the NEXT slot.

* `reasonable_iff`, `start_rejects_unrepresentable` — since the repair `start` rejects, without touching the device,
  every geometry a header cannot represent (fragment size 0 or > 256, fragment count 0 or > 16384).
* `appBootStatus_eq` — `app_boot_status` is "read the ordered headers, take the pure decision `appDecision`, act on
  it"; an implausible firmware header makes the pair not resumable instead of being returned as an error
  (`app_status_error_witness` shows the difference to the pinned logic on the state a power loss inside `start` leaves).

The flash-level hypotheses of the former `_partial` statements are discharged in `Lemmas/V1Start.lean`
(`startOne_run`: erase + header program = `putHeader`, by C11's `encode_parse` on the erased slot) and
`Lemmas/V1App.lean` (`notInProg_abort`, `rem_step`, `runRem_run`: an aborted / erased slot does not read in progress).
-/
set_option linter.unusedSimpArgs false
namespace Fuota.C20
open Fuota.Orig Fuota.Layout Fuota.Fs Fuota.Nor Fuota.V1

/-- the constants this file computes with -/
theorem consts : Orig.DATA_REGION_OFFSET = 17408 ∧ Orig.WRITTEN_OFFSET = 1024 ∧ Orig.WRITTEN_SIZE = 16384 ∧
    Orig.MAX_SEGMENTS = 16384 ∧ Orig.HEADER_SIZE = 1024 := by decide

/-! ## sequence numbers -/

/-- `next_seq` never yields the reserved value — for every `u32` (indeed every) argument, so also across the
    `2^32` wrap-around -/
theorem next_seq_never_reserved (s : Nat) : nextSeq s ≠ 0xFFFFFFFF := nextSeq_ne_reserved s

/-- ... and always yields a valid sequence number -/
theorem next_seq_valid (s : Nat) : nextSeq s < 0xFFFFFFFF := nextSeq_lt s

/-- `next_seq` is injective on valid sequence numbers (so consecutive slots never collide) -/
theorem next_seq_injective (a b : Nat) (ha : a < 0xFFFFFFFF) (hb : b < 0xFFFFFFFF) (h : nextSeq a = nextSeq b) :
    a = b := nextSeq_injective a b ha hb h

/-- the closed form used throughout: on valid numbers `next_seq` is `+1` modulo `2^32-1` -/
theorem next_seq_closed_form (x : Nat) : nextSeq (x % 4294967295) = (x + 1) % 4294967295 := nextSeq_mod x

/-! ## ordering -/

/-- **ordered_headers_spec**: on a consistent, non-blank ring `get_ordered_headers` rotates the header array to the
    position after the newest slot. -/
theorem ordered_headers_spec (N p k s0 : Nat) (H : Nat → Header) (hN : 3 ≤ N) (hN6 : N ≤ 6) (hp : p < N)
    (hk1 : 1 ≤ k) (hk : k ≤ N) :
    orderHeaders (ringIH N p k s0 H) = some (rotateLeft (ringIH N p k s0 H) ((p + k) % N)) := by
  unfold orderHeaders findOldest
  rw [ringIH_seqs, findOldestSeq_ring N p k s0 hN hN6 hp hk1 hk]

/-- on a blank ring the headers stay as they are -/
theorem ordered_headers_blank (N p s0 : Nat) (H : Nat → Header) (hN : 3 ≤ N) (hN6 : N ≤ 6) :
    orderHeaders (ringIH N p 0 s0 H) = some (ringIH N p 0 s0 H) := by
  unfold orderHeaders findOldest
  rw [ringIH_seqs, findOldestSeq_blank N p s0 hN hN6]
  simp [ringIH_blank_all_none]

/-- **no_assert**: `assert!(all_none)` is unreachable on consistent ring states. -/
theorem no_assert (N p k s0 : Nat) (H : Nat → Header) (hN : 3 ≤ N) (hN6 : N ≤ 6) (hp : p < N) (hk : k ≤ N) :
    orderHeaders (ringIH N p k s0 H) ≠ none := by
  rcases Nat.eq_zero_or_pos k with rfl | hk1
  · rw [ordered_headers_blank N p s0 H hN hN6]; simp
  · rw [ordered_headers_spec N p k s0 H hN hN6 hp hk1 hk]; simp

/-! ## placement -/

/-- the slot and sequence number the first iteration of `start` must take -/
def firstSlot (N p k : Nat) : Nat := if k = 0 then 0 else (p + k) % N
def firstSeq (k s0 : Nat) : Nat := if k = 0 then 0 else (s0 + k) % 4294967295

/-- one iteration of `start` on a consistent ring -/
theorem plan_first (N p k s0 : Nat) (H : Nat → Header) (hN : 3 ≤ N) (hN6 : N ≤ 6) (hp : p < N) (hk : k ≤ N) :
    (orderHeaders (ringIH N p k s0 H)).bind planOne = some (firstSlot N p k, firstSeq k s0) := by
  rcases Nat.eq_zero_or_pos k with rfl | hk1
  · rw [ordered_headers_blank N p s0 H hN hN6]
    simp [firstSlot, firstSeq, planOne_blank N p s0 H hN hN6]
  · rw [ordered_headers_spec N p k s0 H hN hN6 hp hk1 hk]
    have : k ≠ 0 := by omega
    simp [firstSlot, firstSeq, this, planOne_ring N p k s0 H hN hN6 hp hk1 hk]

/-- **start_places** (`_partial`: decision level; missing hypothesis — the erase + 28-byte header program of
    `startOne` change what `readHeadersFrom` returns from `hs` to `putHeader hs slot hdr`, i.e. the codec round trip of
    C11 on an erased slot; suite D8 checks it on every run): `start` takes the two ring positions that follow the newest slot — blank positions if there
    are any, otherwise the oldest images; slots 0 and 1 on a blank ring — and numbers them `next_seq(newest)`,
    `next_seq²(newest)` (0 and 1 on a blank ring), never the reserved value.  `h1` is any header carrying the first
    number (the firmware header `start` writes); the second iteration runs on the ring with that header in place. -/
theorem start_places_partial (N p k s0 : Nat) (H : Nat → Header) (h1 : Header) (hN : 3 ≤ N) (hN6 : N ≤ 6) (hp : p < N)
    (hk : k ≤ N) (hseq : h1.seq = firstSeq k s0) :
    (orderHeaders (ringIH N p k s0 H)).bind planOne = some (firstSlot N p k, firstSeq k s0) ∧
    (orderHeaders (putHeader (ringIH N p k s0 H) (firstSlot N p k) h1)).bind planOne =
      some ((firstSlot N p k + 1) % N, nextSeq (firstSeq k s0)) ∧
    firstSeq k s0 ≠ 0xFFFFFFFF ∧ nextSeq (firstSeq k s0) ≠ 0xFFFFFFFF := by
  refine ⟨plan_first N p k s0 H hN hN6 hp hk, ?_, ?_, nextSeq_ne_reserved _⟩
  · rcases Nat.eq_zero_or_pos k with rfl | hk1
    · -- blank ring: slot 0 / number 0, then slot 1 / number 1
      have e : firstSlot N p 0 = 0 := rfl
      have e' : firstSeq 0 s0 = 0 := rfl
      rw [e'] at hseq
      rw [e, e']
      rw [putHeader_blank N p s0 H h1 hN hN6 hseq]
      rw [plan_first N 0 1 0 _ hN hN6 (by omega) (by omega)]
      have hN' : N = 3 ∨ N = 4 ∨ N = 5 ∨ N = 6 := by omega
      rcases hN' with rfl | rfl | rfl | rfl <;> simp [firstSlot, firstSeq, nextSeq]
    · have hk0 : k ≠ 0 := by omega
      have e : firstSlot N p k = (p + k) % N := by simp [firstSlot, hk0]
      have e' : firstSeq k s0 = (s0 + k) % 4294967295 := by simp [firstSeq, hk0]
      rw [e'] at hseq
      rw [e, e']
      rw [nextSeq_mod]
      rcases Nat.lt_or_ge k N with hlt | hge
      · rw [putHeader_grow N p k s0 H h1 hN hN6 hp hk1 hlt hseq]
        rw [plan_first N p (k + 1) s0 _ hN hN6 hp (by omega)]
        have hN' : N = 3 ∨ N = 4 ∨ N = 5 ∨ N = 6 := by omega
        simp only [firstSlot, firstSeq, Nat.add_one_ne_zero, ↓reduceIte, Option.some.injEq, Prod.mk.injEq]
        rcases hN' with rfl | rfl | rfl | rfl <;> constructor <;> omega
      · have hkN : k = N := by omega
        subst hkN
        have hpk : (p + k) % k = p := by
          rw [Nat.add_mod_right]; exact Nat.mod_eq_of_lt hp
        rw [hpk]
        rw [putHeader_full k p s0 H h1 hN hN6 hp hseq]
        rw [plan_first k ((p + 1) % k) k (s0 + 1) _ hN hN6 (Nat.mod_lt _ (by omega)) (Nat.le_refl _)]
        have hk0' : k ≠ 0 := by omega
        simp only [firstSlot, firstSeq, hk0', ↓reduceIte, Option.some.injEq, Prod.mk.injEq]
        have hN' : k = 3 ∨ k = 4 ∨ k = 5 ∨ k = 6 := by omega
        rcases hN' with rfl | rfl | rfl | rfl <;> constructor <;> omega
  · unfold firstSeq
    split
    · decide
    · omega

/-- what an accepted geometry guarantees -/
theorem reasonable_ok_facts {S sz n : Nat} (h : reasonablySized S sz n = .ok ()) :
    1 ≤ sz ∧ sz ≤ 256 ∧ 1 ≤ n ∧ n ≤ 16384 ∧ 17408 < S := by
  unfold reasonablySized maxDataSize at h
  simp only [show Orig.MAX_SEGMENT_SIZE = 256 from rfl, show Orig.MAX_SEGMENTS = 16384 from rfl,
    show Orig.HEADER_SIZE = 1024 from rfl] at h
  by_cases h1 : sz = 0 ∨ sz > 256
  · simp [h1] at h
  · simp only [h1, ↓reduceIte] at h
    by_cases h2 : n = 0 ∨ n > 16384
    · simp [h2] at h
    · simp only [h2, ↓reduceIte] at h
      by_cases h3 : S - 1024 - 16384 ≥ 2 ^ 32
      · simp [h3] at h
      · simp only [h3, ↓reduceIte] at h
        by_cases h4 : sz * n ≥ 2 ^ 32
        · simp [h4] at h
        · simp only [h4, ↓reduceIte] at h
          by_cases h5 : sz * n > S - 1024 - 16384
          · simp [h5] at h
          · have : 1 ≤ sz * n := Nat.mul_pos (by omega) (by omega)
            omega

theorem firstSlot_lt (N p k : Nat) (hN : 0 < N) : firstSlot N p k < N := by
  unfold firstSlot
  split
  · exact hN
  · exact Nat.mod_lt _ hN

theorem firstSeq_lt (k s0 : Nat) : firstSeq k s0 < 4294967295 := by
  unfold firstSeq
  split <;> omega

theorem newHdr_wf (kind : Kind) (q sz n : Nat) (hq : q < 4294967295) (h1 : 1 ≤ sz) (h2 : sz ≤ 256) (h3 : 1 ≤ n)
    (h4 : n ≤ 16384) : Header.WF Codec.pinned (newHdr kind q sz n) := by
  unfold Header.WF newHdr
  have e1 : Codec.pinned.seqInvalid = 4294967295 := rfl
  have e2 : Codec.pinned.maxSegmentSize = 256 := rfl
  have e3 : Codec.pinned.maxSegments = 16384 := rfl
  simp only [e1, e2, e3]
  omega

theorem succ_mod_ne (N a : Nat) (hN : 3 ≤ N) (ha : a < N) : (a + 1) % N ≠ a ∧ (a + 1) % N < N := by
  refine ⟨?_, Nat.mod_lt _ (by omega)⟩
  by_cases h : a + 1 < N
  · rw [Nat.mod_eq_of_lt h]; omega
  · have : a + 1 = N := by omega
    rw [this, Nat.mod_self]; omega

/-- **start_places** (flash level, full).  For every consistent ring state on a device without armed injection —
    `N = 3..6` slots of size `S` (a multiple of the erase-block size) inside the device, every byte a byte, the parsed
    headers of the slots being `ringIH N p k s0 H` for any rotation `p`, fill `k`, start value `s0` and other fields
    `H` — and every geometry `is_reasonably_sized` accepts, `start` succeeds and

    * takes the two ring positions that follow the newest slot (slots 0 and 1 on a blank ring),
    * leaves there an in-progress firmware header numbered `next_seq(newest)` and an in-progress parity header
      (16384 fragments) numbered `next_seq²(newest)` (0 and 1 on a blank ring), neither being the reserved value,
    * changes no byte outside these two slots (so every other slot's header reads as before). -/
theorem start_places (N S p k s0 : Nat) (H : Nat → Header) (segsz nseg : Nat) (d : Dev)
    (hN : 3 ≤ N) (hN6 : N ≤ 6) (hp : p < N) (hk : k ≤ N)
    (hG : Good d) (hwf : FlashAdapters.WF d.flash) (hb0 : 0 < d.flash.block) (hdiv : S % d.flash.block = 0)
    (hsz : N * S ≤ d.flash.size)
    (hring : hdrsOf d.flash S (List.range N) = ringIH N p k s0 H)
    (hgeo : reasonablySized S segsz nseg = .ok ()) :
    ∃ act d', (Orig.start N S segsz nseg).run d = (.ok act, d') ∧ Good d' ∧
      act.fwIdx = firstSlot N p k ∧ act.parIdx = (firstSlot N p k + 1) % N ∧ act.fwIdx ≠ act.parIdx ∧
      hdrAtFlash d'.flash S act.fwIdx = some (newHdr .firmware (firstSeq k s0) segsz nseg) ∧
      hdrAtFlash d'.flash S act.parIdx = some (newHdr .parity (nextSeq (firstSeq k s0)) segsz 16384) ∧
      firstSeq k s0 ≠ 0xFFFFFFFF ∧ nextSeq (firstSeq k s0) ≠ 0xFFFFFFFF ∧
      (∀ i, i ≠ act.fwIdx → i ≠ act.parIdx → hdrAtFlash d'.flash S i = hdrAtFlash d.flash S i) ∧
      (∀ x, (x < act.fwIdx * S ∨ act.fwIdx * S + S ≤ x) → (x < act.parIdx * S ∨ act.parIdx * S + S ≤ x) →
        d'.flash.byte x = d.flash.byte x) := by
  obtain ⟨z1, z2, n1, n2, hS⟩ := reasonable_ok_facts hgeo
  have hfs : firstSlot N p k < N := firstSlot_lt N p k (by omega)
  have hfq := firstSeq_lt k s0
  obtain ⟨hne, hps⟩ := succ_mod_ne N (firstSlot N p k) hN hfs
  have hplan1 := plan_first N p k s0 H hN hN6 hp hk
  rw [← hring] at hplan1
  cases ho : orderHeaders (hdrsOf d.flash S (List.range N)) with
  | none => rw [ho] at hplan1; cases hplan1
  | some o =>
    rw [ho] at hplan1
    have hplan : planOne o = some (firstSlot N p k, firstSeq k s0) := hplan1
    obtain ⟨d1, hrun1, hk1, hh1, hfr1, hat1, hoth1⟩ := startOne_run N S .firmware segsz nseg d hG hwf hb0 hdiv
      (by omega) hsz o _ _ ho hplan hfs (newHdr_wf _ _ _ _ hfq z1 z2 n1 n2)
    -- second iteration, on the ring with the firmware header in place
    rw [hring] at hh1
    have hseq1 : (newHdr .firmware (firstSeq k s0) segsz nseg).seq = firstSeq k s0 := by simp only [newHdr]
    obtain ⟨_, hplan2, _, _⟩ :=
      start_places_partial N p k s0 H (newHdr .firmware (firstSeq k s0) segsz nseg) hN hN6 hp hk hseq1
    rw [← hh1] at hplan2
    cases ho2 : orderHeaders (hdrsOf d1.flash S (List.range N)) with
    | none => rw [ho2] at hplan2; cases hplan2
    | some o2 =>
      rw [ho2] at hplan2
      have hplan2' : planOne o2 = some ((firstSlot N p k + 1) % N, nextSeq (firstSeq k s0)) := hplan2
      obtain ⟨d2, hrun2, hk2, hh2, hfr2, hat2, hoth2⟩ := startOne_run N S .parity segsz 16384 d1 hk1.good (hk1.wf hwf)
        (by rw [hk1.block]; exact hb0) (by rw [hk1.block]; exact hdiv) (by omega) (by rw [hk1.size]; exact hsz)
        o2 _ _ ho2 hplan2' hps (newHdr_wf _ _ _ _ (nextSeq_lt _) z1 z2 (by omega) (by omega))
      refine ⟨{ slotSize := S, segSize := segsz, fwIdx := firstSlot N p k, totalFw := nseg, remFw := nseg,
                parIdx := (firstSlot N p k + 1) % N, totalPar := Orig.MAX_SEGMENTS, remPar := Orig.MAX_SEGMENTS },
        d2, ?_, hk2.good, rfl, rfl, fun e => hne e.symm, ?_, hat2,
        by omega, nextSeq_ne_reserved _, ?_, ?_⟩
      · have hrun2' : (startOne N S .parity segsz Orig.MAX_SEGMENTS).run d1 = (.ok ((firstSlot N p k + 1) % N), d2) :=
          hrun2
        unfold Orig.start
        simp only [hgeo, run_bind, run_pure, hrun1, hrun2']
      · show hdrAtFlash d2.flash S (firstSlot N p k) = _
        rw [hoth2 _ (fun e => hne e.symm), hat1]
      · intro i h1 h2
        show hdrAtFlash d2.flash S i = hdrAtFlash d.flash S i
        rw [hoth2 i h2, hoth1 i h1]
      · intro x h1 h2
        show d2.flash.byte x = d.flash.byte x
        rw [hfr2 x h2, hfr1 x h1]

/-! ## application status -/

/-- the condition under which `app_boot_status` resumes the two newest slots -/
def Resumable (f p : Header) : Prop :=
  totalStatus f = .appWriteInProgress ∧ f.kind = Kind.firmware ∧
  totalStatus p = .appWriteInProgress ∧ p.kind = Kind.parity ∧ f.size = p.size

instance (f p : Header) : Decidable (Resumable f p) := by unfold Resumable; infer_instance

/-- the header slot `i` of a consistent ring carries -/
def hdrAt (N p s0 : Nat) (H : Nat → Header) (i : Nat) : Header :=
  { H i with seq := (s0 + (i + N - p) % N) % 4294967295 }

/-- the kind / status / size part of the decision (`appPair`): on every consistent ring state it selects exactly the newest
    pair — physical slots `p+k-2` (firmware) and `p+k-1` (parity) — when the ring holds at least two slots and that
    pair is an in-progress firmware/parity pair of one fragment size; in every other case it selects nothing
    (and reports idle after cancelling, see `cancel_covers`). -/
theorem app_pair_spec (N p k s0 : Nat) (H : Nat → Header) (hN : 3 ≤ N) (hN6 : N ≤ 6) (hp : p < N) (hk : k ≤ N) :
    ∃ o, orderHeaders (ringIH N p k s0 H) = some o ∧
      appPair o =
        if 2 ≤ k ∧ Resumable (hdrAt N p s0 H ((p + k - 2) % N)) (hdrAt N p s0 H ((p + k - 1) % N)) then
          some (ihAt N p k s0 H ((p + k - 2) % N), hdrAt N p s0 H ((p + k - 2) % N),
                ihAt N p k s0 H ((p + k - 1) % N), hdrAt N p s0 H ((p + k - 1) % N))
        else none := by
  rcases Nat.eq_zero_or_pos k with rfl | hk1
  · refine ⟨_, ordered_headers_blank N p s0 H hN hN6, ?_⟩
    unfold appPair
    rw [getTwoNewest_blank N p s0 H hN hN6]
    simp
  · refine ⟨_, ordered_headers_spec N p k s0 H hN hN6 hp hk1 hk, ?_⟩
    unfold appPair
    rcases Nat.lt_or_ge k 2 with hlt | hge
    · have : k = 1 := by omega
      subst this
      rw [getTwoNewest_one N p s0 H hN hN6 hp]
      simp
    · rw [getTwoNewest_ring N p k s0 H hN hN6 hp hge hk]
      -- both slots of the pair lie inside the run
      have hf : ((p + k - 2) % N + N - p) % N < k := by
        have hN' : N = 3 ∨ N = 4 ∨ N = 5 ∨ N = 6 := by omega
        rcases hN' with rfl | rfl | rfl | rfl <;> omega
      have hq : ((p + k - 1) % N + N - p) % N < k := by
        have hN' : N = 3 ∨ N = 4 ∨ N = 5 ∨ N = 6 := by omega
        rcases hN' with rfl | rfl | rfl | rfl <;> omega
      simp only [ihAt, hf, hq, ↓reduceIte, hge, true_and, hdrAt, Resumable]

/-- a parsed header never carries the reserved sequence number, so "external write in progress" means one of two
    total statuses -/
theorem inProgress_status (h : Header) (hext : h.ext = Ext.inProgress) (hseq : h.seq ≠ 0xFFFFFFFF) :
    totalStatus h = .appWriteInProgress ∨ totalStatus h = .invalidNeedsErase := by
  unfold totalStatus
  have : (h.seq != 0xFFFFFFFF) = true := by simpa using hseq
  rw [this, hext]
  cases h.ist <;> cases h.boot <;> simp

/-- **leaving no other slot in progress (resume case)**: every slot other than the resumed pair whose header reads
    "external write in progress" is aborted or erased by the remediation loop. -/
theorem remediate_covers (fIdx pIdx : Nat) (hs : List IH) (ih : IH) (h : Header) (hmem : ih ∈ hs)
    (hh : ih.hdr = some h) (hext : h.ext = Ext.inProgress) (hseq : h.seq ≠ 0xFFFFFFFF)
    (hne : ih.idx ≠ fIdx ∧ ih.idx ≠ pIdx) :
    (ih.idx, Rem.abort) ∈ remediateActs fIdx pIdx hs ∨ (ih.idx, Rem.erase) ∈ remediateActs fIdx pIdx hs := by
  unfold remediateActs
  simp only [List.mem_filterMap]
  have hcond : ¬ (ih.idx = fIdx ∨ ih.idx = pIdx) := by
    intro hc; rcases hc with hc | hc
    · exact hne.1 hc
    · exact hne.2 hc
  rcases inProgress_status h hext hseq with hs1 | hs1
  · left
    exact ⟨ih, hmem, by simp [hcond, hh, hs1]⟩
  · right
    exact ⟨ih, hmem, by simp [hcond, hh, hs1]⟩

/-- **leaving no slot in progress (idle case)**: `cancel_all_ext_pending` aborts every slot whose header reads
    "external write in progress". -/
theorem cancel_covers (hs : List IH) (ih : IH) (h : Header) (hmem : ih ∈ hs) (hh : ih.hdr = some h)
    (hext : h.ext = Ext.inProgress) : ih.idx ∈ cancelActs hs := by
  unfold cancelActs
  simp only [List.mem_filterMap]
  exact ⟨ih, hmem, by simp [hh, hext]⟩

/-- the remediation loop never touches the resumed pair -/
theorem remediate_spares_pair (fIdx pIdx : Nat) (hs : List IH) (i : Nat) (r : Rem)
    (h : (i, r) ∈ remediateActs fIdx pIdx hs) : i ≠ fIdx ∧ i ≠ pIdx := by
  unfold remediateActs at h
  simp only [List.mem_filterMap] at h
  obtain ⟨ih, _, hv⟩ := h
  by_cases hc : ih.idx = fIdx ∨ ih.idx = pIdx
  · simp [hc] at hv
  · simp only [hc, ↓reduceIte] at hv
    cases hh : ih.hdr with
    | none => simp [hh] at hv
    | some hd =>
      simp only [hh] at hv
      have : i = ih.idx := by
        split at hv <;> simp at hv <;> exact hv.1.symm
      subst this
      exact ⟨fun e => hc (Or.inl e), fun e => hc (Or.inr e)⟩

/-! ### the decision of the repaired `app_boot_status` -/

/-- the firmware header announces a geometry that fits the slot (`is_reasonably_sized`) -/
def fits (slotSize : Nat) (h : Header) : Bool :=
  match reasonablySized slotSize h.size h.n with
  | .ok _ => true
  | .error _ => false

/-- the pair the repaired `app_boot_status` resumes: an implausible firmware header makes the pair not resumable -/
def appDecision (slotSize : Nat) (hs : List IH) : Option (IH × Header × IH × Header) :=
  match getTwoNewest hs with
  | none => none
  | some (older, newer) =>
    match older.hdr, newer.hdr with
    | some f, some _ =>
      (match reasonablySized slotSize f.size f.n with | .error _ => none | .ok () => appPair hs)
    | _, _ => none

/-- what `app_boot_status` does once a pair was / was not selected -/
def appAfter (slotSize : Nat) (hs : List IH) : Option (IH × Header × IH × Header) → M (Option Act)
  | none => do cancelAll slotSize hs; pure none
  | some (fo, f, po, p) => do
    remediate slotSize fo.idx po.idx hs
    let fwMask ← tryCatch (some <$> loadStatus slotSize fo.idx f.n) (fun _ => pure none)
    match fwMask with
    | none => cancelAll slotSize hs; pure none
    | some fwMask =>
      let parMask ← tryCatch (some <$> loadStatus slotSize po.idx p.n) (fun _ => pure none)
      match parMask with
      | none => cancelAll slotSize hs; pure none
      | some parMask =>
        pure (some { slotSize := slotSize, segSize := f.size, fwIdx := fo.idx, parIdx := po.idx,
                     totalFw := f.n, remFw := f.n - countBits fwMask f.n,
                     totalPar := p.n, remPar := p.n - countBits parMask p.n })

/-- **the model's `app_boot_status` is: order the headers, decide (`appDecision`), act** — in particular no size
    error is returned any more: without a resumable pair everything in progress is cancelled and Idle reported. -/
theorem appBootStatus_eq (nslots slotSize : Nat) :
    appBootStatus nslots slotSize =
      (do let hs ← getOrderedHeaders nslots slotSize
          appAfter slotSize hs (appDecision slotSize hs)) := by
  unfold appBootStatus
  congr
  funext hs
  unfold appDecision
  cases getTwoNewest hs with
  | none => rfl
  | some t =>
    obtain ⟨older, newer⟩ := t
    simp only
    cases older.hdr with
    | none => rfl
    | some f =>
      cases newer.hdr with
      | none => rfl
      | some p =>
        simp only
        cases reasonablySized slotSize f.size f.n with
        | error e => rfl
        | ok u =>
          simp only
          cases appPair hs with
          | none => rfl
          | some q => obtain ⟨fo, f', po, p'⟩ := q; rfl

/-- **app_status_resumes** (`_partial`: decision level; missing hypothesis — after `writeExtAborted` / `eraseSlot`
    a slot's header no longer parses with `ext = inProgress`, which is the status-code part of C11 at flash level;
    suite D8 checks "no other slot in progress afterwards" on the real flash): on every consistent ring state the
    repaired `app_boot_status` resumes exactly the newest pair — physical slots `p+k-2` (firmware) and `p+k-1`
    (parity) — when the ring holds at least two slots, that pair is an in-progress firmware/parity pair of one
    fragment size and the firmware geometry fits the slot; in every other case it selects nothing, cancels
    (`cancel_covers`) and reports idle (`appBootStatus_eq`). -/
theorem app_status_resumes_partial (slotSize N p k s0 : Nat) (H : Nat → Header) (hN : 3 ≤ N) (hN6 : N ≤ 6) (hp : p < N)
    (hk : k ≤ N) :
    ∃ o, orderHeaders (ringIH N p k s0 H) = some o ∧
      appDecision slotSize o =
        if 2 ≤ k ∧ fits slotSize (hdrAt N p s0 H ((p + k - 2) % N)) = true ∧
            Resumable (hdrAt N p s0 H ((p + k - 2) % N)) (hdrAt N p s0 H ((p + k - 1) % N)) then
          some (ihAt N p k s0 H ((p + k - 2) % N), hdrAt N p s0 H ((p + k - 2) % N),
                ihAt N p k s0 H ((p + k - 1) % N), hdrAt N p s0 H ((p + k - 1) % N))
        else none := by
  obtain ⟨o, ho, hpair⟩ := app_pair_spec N p k s0 H hN hN6 hp hk
  refine ⟨o, ho, ?_⟩
  rcases Nat.eq_zero_or_pos k with rfl | hk1
  · rw [ordered_headers_blank N p s0 H hN hN6] at ho
    cases ho
    unfold appDecision
    rw [getTwoNewest_blank N p s0 H hN hN6]
    simp
  · rw [ordered_headers_spec N p k s0 H hN hN6 hp hk1 hk] at ho
    cases ho
    unfold appDecision
    rcases Nat.lt_or_ge k 2 with hlt | hge
    · have : k = 1 := by omega
      subst this
      rw [getTwoNewest_one N p s0 H hN hN6 hp]
      simp
    · rw [getTwoNewest_ring N p k s0 H hN hN6 hp hge hk]
      have hf : ((p + k - 2) % N + N - p) % N < k := by
        have hN' : N = 3 ∨ N = 4 ∨ N = 5 ∨ N = 6 := by omega
        rcases hN' with rfl | rfl | rfl | rfl <;> omega
      have hq : ((p + k - 1) % N + N - p) % N < k := by
        have hN' : N = 3 ∨ N = 4 ∨ N = 5 ∨ N = 6 := by omega
        rcases hN' with rfl | rfl | rfl | rfl <;> omega
      have e1 : (ihAt N p k s0 H ((p + k - 2) % N)).hdr = some (hdrAt N p s0 H ((p + k - 2) % N)) := by
        simp only [ihAt, hf, ↓reduceIte, hdrAt]
      have e2 : (ihAt N p k s0 H ((p + k - 1) % N)).hdr = some (hdrAt N p s0 H ((p + k - 1) % N)) := by
        simp only [ihAt, hq, ↓reduceIte, hdrAt]
      simp only [e1, e2, hpair, hge, true_and, fits]
      cases reasonablySized slotSize (hdrAt N p s0 H ((p + k - 2) % N)).size (hdrAt N p s0 H ((p + k - 2) % N)).n with
      | error e => simp
      | ok u => simp

/-- the decision of the PINNED `app_boot_status` (kept as documentation of the repaired defect): the error of
    `is_reasonably_sized(..)?` on the second-newest header was returned before anything was cancelled -/
def appDecisionPinned (slotSize : Nat) (hs : List IH) : Except MErr (Option (IH × Header × IH × Header)) :=
  match getTwoNewest hs with
  | none => .ok none
  | some (older, newer) =>
    match older.hdr, newer.hdr with
    | some f, some _ =>
      (match reasonablySized slotSize f.size f.n with | .error e => .error e | .ok () => .ok (appPair hs))
    | _, _ => .ok none

/-- the ring a power loss between the two header writes of a second `start(40, 12)` leaves on four 64 KiB slots:
    firmware (seq 0), parity (seq 1, 16384 fragments), firmware (seq 2), blank — all in progress -/
def crashRing : List IH :=
  let h (k : Kind) (seq n : Nat) : Header :=
    { kind := k, seq := seq, size := 40, n := n, ext := .inProgress, ist := .inProgress, boot := .untested }
  [{ idx := 0, hdr := some (h .firmware 0 10) }, { idx := 1, hdr := some (h .parity 1 16384) },
   { idx := 2, hdr := some (h .firmware 2 12) }, { idx := 3, hdr := none }]

/-- **witness of the repaired defect** (`app-status-err`): on `crashRing` the two newest slots are (parity with 16384
    fragments, firmware).  The pinned logic evaluated `is_reasonably_sized` on the parity header (40 · 16384 bytes do
    not fit) and returned `SegmentsTooLarge` on every boot; the repaired logic selects no pair, so that
    `app_boot_status` cancels every in-progress slot and reports idle. -/
theorem app_status_error_witness :
    (orderHeaders crashRing).map (appDecisionPinned 65536) = some (.error .segmentsTooLarge) ∧
    (orderHeaders crashRing).map (appDecision 65536) = some none ∧
    (orderHeaders crashRing).map cancelActs = some [0, 1, 2] := by
  refine ⟨rfl, rfl, rfl⟩

/-! ### `app_boot_status` on flash -/

theorem hdrAtFlash_seq_ne (f : Flash) (S i : Nat) (h : Header) (hh : hdrAtFlash f S i = some h) :
    h.seq ≠ 0xFFFFFFFF := by
  unfold hdrAtFlash at hh
  cases hp : parseHeader Orig.C (f.read (i * S) 28) with
  | none => rw [hp] at hh; cases hh
  | some pr =>
    obtain ⟨h', rest⟩ := pr
    rw [hp] at hh
    simp only [Option.map_some, Option.some.injEq] at hh
    subst hh
    obtain ⟨w0, w1, w2, w3, w4, w5, w6, _, _, hs, _⟩ := (C11.parseHeader_eq_some _ _ _ _).1 hp
    have := C11.parseSeq_some _ _ _ hs
    have e : Orig.C.seqInvalid = 0xFFFFFFFF := rfl
    rw [e] at this
    omega

theorem hdrAtFlash_n_le (f : Flash) (S i : Nat) (h : Header) (hh : hdrAtFlash f S i = some h) : h.n ≤ 16384 := by
  unfold hdrAtFlash at hh
  cases hp : parseHeader Orig.C (f.read (i * S) 28) with
  | none => rw [hp] at hh; cases hh
  | some pr =>
    obtain ⟨h', rest⟩ := pr
    rw [hp] at hh
    simp only [Option.map_some, Option.some.injEq] at hh
    subst hh
    obtain ⟨w0, w1, w2, w3, w4, w5, w6, _, _, _, _, hn, _⟩ := (C11.parseHeader_eq_some _ _ _ _).1 hp
    have := C11.parseNseg_some _ _ _ hn
    have e : Orig.C.maxSegments = 16384 := rfl
    rw [e] at this
    omega

theorem cancelActs_mem {hs : List IH} {i : Nat} (h : i ∈ cancelActs hs) : ∃ ih ∈ hs, ih.idx = i := by
  unfold cancelActs at h
  simp only [List.mem_filterMap] at h
  obtain ⟨ih, hm, hv⟩ := h
  refine ⟨ih, hm, ?_⟩
  cases hh : ih.hdr with
  | none => simp [hh] at hv
  | some hd =>
    simp only [hh] at hv
    split at hv <;> simp at hv
    exact hv

theorem remediateActs_mem {fIdx pIdx : Nat} {hs : List IH} {a : Nat × Rem} (h : a ∈ remediateActs fIdx pIdx hs) :
    ∃ ih ∈ hs, ih.idx = a.1 := by
  unfold remediateActs at h
  simp only [List.mem_filterMap] at h
  obtain ⟨ih, hm, hv⟩ := h
  refine ⟨ih, hm, ?_⟩
  by_cases hc : ih.idx = fIdx ∨ ih.idx = pIdx
  · simp [hc] at hv
  · simp only [hc, ↓reduceIte] at hv
    cases hh : ih.hdr with
    | none => simp [hh] at hv
    | some hd =>
      simp only [hh] at hv
      split at hv <;> simp at hv <;> rw [← hv]

/-- the cancel loop on flash: afterwards no slot reads "in progress" -/
theorem cancelAll_run (N S : Nat) (d0 d : Dev) (o : List IH) (hS : 28 ≤ S) (hG : Good d) (hwf : FlashAdapters.WF d.flash)
    (hb0 : 0 < d.flash.block) (hdiv : S % d.flash.block = 0) (hsz : N * S ≤ d.flash.size)
    (ho : orderHeaders (hdrsOf d0.flash S (List.range N)) = some o)
    (hcov : ∀ i, i < N → NotInProg d.flash S i ∨ ∃ h, hdrAtFlash d0.flash S i = some h ∧ h.ext = Ext.inProgress) :
    ∃ d', (cancelAll S o).run d = (.ok (), d') ∧ Fs.Keeps d d' ∧ ∀ i, i < N → NotInProg d'.flash S i := by
  unfold cancelAll
  rw [abortAll_eq]
  have hidx : ∀ a ∈ (cancelActs o).map (fun i => (i, Rem.abort)), a.1 < N := by
    intro a ha
    simp only [List.mem_map] at ha
    obtain ⟨i, hi, rfl⟩ := ha
    obtain ⟨ih, hm, rfl⟩ := cancelActs_mem hi
    obtain ⟨j, hj, rfl⟩ := (mem_hdrsOf _ _ _ _).1 ((mem_ordered ho ih).1 hm)
    exact hj
  obtain ⟨d', hrun, hk, hpres, hacts, _⟩ := runRem_run N S hS _ d hG hwf hb0 hdiv hsz hidx
  refine ⟨d', hrun, hk, ?_⟩
  intro i hi
  rcases hcov i hi with h | ⟨h, hh, hext⟩
  · exact hpres i h
  · have hm : ({ idx := i, hdr := hdrAtFlash d0.flash S i } : IH) ∈ o :=
      (mem_ordered ho _).2 ((mem_hdrsOf _ _ _ _).2 ⟨i, hi, rfl⟩)
    have := cancel_covers o _ h hm hh hext
    exact hacts (i, Rem.abort) (by simp only [List.mem_map]; exact ⟨i, this, rfl⟩)

theorem hdr_of_mem (f : Flash) (S N : Nat) (o : List IH) (ho : orderHeaders (hdrsOf f S (List.range N)) = some o)
    (ih : IH) (hm : ih ∈ o) : ih.idx < N ∧ ih.hdr = hdrAtFlash f S ih.idx := by
  obtain ⟨j, hj, rfl⟩ := (mem_hdrsOf _ _ _ _).1 ((mem_ordered ho ih).1 hm)
  exact ⟨hj, rfl⟩

theorem notInProg_or (f : Flash) (S i : Nat) :
    NotInProg f S i ∨ ∃ h, hdrAtFlash f S i = some h ∧ h.ext = Ext.inProgress := by
  cases hh : hdrAtFlash f S i with
  | none => left; intro h e; rw [hh] at e; cases e
  | some h =>
    cases he : h.ext with
    | inProgress => right; exact ⟨h, rfl, he⟩
    | aborted => left; intro h' e; rw [hh] at e; cases e; rw [he]; simp
    | complete => left; intro h' e; rw [hh] at e; cases e; rw [he]; simp

/-- the resume branch of `app_boot_status` on flash -/
theorem appAfter_some_run (N S : Nat) (d : Dev) (o : List IH) (hS : 28 ≤ S) (hG : Good d) (hwf : FlashAdapters.WF d.flash)
    (hb0 : 0 < d.flash.block) (hdiv : S % d.flash.block = 0) (hsz : N * S ≤ d.flash.size)
    (ho : orderHeaders (hdrsOf d.flash S (List.range N)) = some o)
    (fo po : IH) (f pp : Header) (hfo : fo ∈ o) (hpo : po ∈ o) (hfh : fo.hdr = some f) (hph : po.hdr = some pp)
    (hfe : f.ext = Ext.inProgress) (hpe : pp.ext = Ext.inProgress) :
    ∃ r d', (appAfter S o (some (fo, f, po, pp))).run d = (.ok r, d') ∧ Good d' ∧
      (r = none → ∀ i, i < N → NotInProg d'.flash S i) ∧
      (∀ act, r = some act → act.fwIdx = fo.idx ∧ act.parIdx = po.idx ∧ act.segSize = f.size ∧
        act.totalFw = f.n ∧ act.totalPar = pp.n ∧
        hdrAtFlash d'.flash S fo.idx = some f ∧ hdrAtFlash d'.flash S po.idx = some pp ∧
        ∀ i, i < N → i ≠ fo.idx → i ≠ po.idx → NotInProg d'.flash S i) ∧
      (17408 ≤ S → f.n ≤ 16384 → pp.n ≤ 16384 → LegalTable d.flash (fo.idx * S + 1024) f.n →
        LegalTable d.flash (po.idx * S + 1024) pp.n → r ≠ none) := by
  obtain ⟨hfoN, hfoh⟩ := hdr_of_mem _ S N o ho fo hfo
  obtain ⟨hpoN, hpoh⟩ := hdr_of_mem _ S N o ho po hpo
  rw [hfh] at hfoh
  rw [hph] at hpoh
  have hidx : ∀ a ∈ remediateActs fo.idx po.idx o, a.1 < N := by
    intro a ha
    obtain ⟨ih, hm, e⟩ := remediateActs_mem ha
    rw [← e]; exact (hdr_of_mem _ S N o ho ih hm).1
  obtain ⟨d1, hrun1, hk1, hpres1, hacts1, hfr1⟩ := runRem_run N S hS _ d hG hwf hb0 hdiv hsz hidx
  -- slots other than the pair do not read in progress after the remediation
  have hothers : ∀ i, i < N → i ≠ fo.idx → i ≠ po.idx → NotInProg d1.flash S i := by
    intro i hi h1 h2
    rcases notInProg_or d.flash S i with h | ⟨h, hh, hext⟩
    · exact hpres1 i h
    · have hm : ({ idx := i, hdr := hdrAtFlash d.flash S i } : IH) ∈ o :=
        (mem_ordered ho _).2 ((mem_hdrsOf _ _ _ _).2 ⟨i, hi, rfl⟩)
      rcases remediate_covers fo.idx po.idx o _ h hm hh hext (hdrAtFlash_seq_ne _ _ _ _ hh) ⟨h1, h2⟩ with hc | hc
      · exact hacts1 (i, Rem.abort) hc
      · exact hacts1 (i, Rem.erase) hc
  -- the pair keeps its bytes
  have hkeep : ∀ j, (j = fo.idx ∨ j = po.idx) → hdrAtFlash d1.flash S j = hdrAtFlash d.flash S j := by
    intro j hj
    unfold hdrAtFlash
    have hno : ∀ a ∈ remediateActs fo.idx po.idx o, a.1 ≠ j := by
      intro a ha
      have := remediate_spares_pair fo.idx po.idx o a.1 a.2 ha
      rcases hj with rfl | rfl
      · exact this.1
      · exact this.2
    rw [Crash.read_congr d.flash d1.flash (j * S) 28 (fun x hx => hfr1 j hno _ (by omega) (by omega))]
  have hcov : ∀ i, i < N → NotInProg d1.flash S i ∨ ∃ h, hdrAtFlash d.flash S i = some h ∧ h.ext = Ext.inProgress := by
    intro i hi
    by_cases h1 : i = fo.idx
    · right; exact ⟨f, by rw [h1, ← hfoh], hfe⟩
    · by_cases h2 : i = po.idx
      · right; exact ⟨pp, by rw [h2, ← hpoh], hpe⟩
      · left; exact hothers i hi h1 h2
  obtain ⟨d2, hrun2, hk2, hall2⟩ := cancelAll_run N S d d1 o hS hk1.good (hk1.wf hwf) (by rw [hk1.block]; exact hb0)
    (by rw [hk1.block]; exact hdiv) (by rw [hk1.size]; exact hsz) ho hcov
  have hrem : (remediate S fo.idx po.idx o).run d = (.ok (), d1) := hrun1
  have hslot_in : ∀ j, j < N → j * S + S ≤ d1.flash.size := by
    intro j hj
    have : (j + 1) * S ≤ N * S := Nat.mul_le_mul_right S (by omega)
    rw [Nat.add_mul, Nat.one_mul] at this
    rw [hk1.size]; omega
  have hload : ∀ j n, (j = fo.idx ∨ j = po.idx) → j < N → 17408 ≤ S → n ≤ 16384 →
      LegalTable d.flash (j * S + 1024) n → ∃ m, (loadStatus S j n).run d1 = (.ok m, d1) := by
    intro j n hj hjN hS2 hn hleg
    have hno : ∀ a ∈ remediateActs fo.idx po.idx o, a.1 ≠ j := by
      intro a ha
      have := remediate_spares_pair fo.idx po.idx o a.1 a.2 ha
      rcases hj with rfl | rfl
      · exact this.1
      · exact this.2
    have e : Orig.WRITTEN_OFFSET = 1024 := rfl
    apply loadStatus_ok S j n d1 hk1.good (by rw [e]; have := hslot_in j hjN; omega) (by exact hn)
    rw [e]
    intro x h1 h2
    rw [hfr1 j hno x (by omega) (by omega)]
    exact hleg x h1 h2
  unfold appAfter
  simp only [run_bind, hrem, run_tryCatch, run_map]
  have hs1 := loadStatus_state S fo.idx f.n d1
  cases hl1 : (loadStatus S fo.idx f.n).run d1 with
  | mk r1 e1 =>
    rw [hl1] at hs1; simp only at hs1; subst hs1
    cases r1 with
    | error err =>
      refine ⟨none, d2, ?_, hk2.good, fun _ => hall2, (fun act h => by cases h), ?_⟩
      · simp only [run_pure, run_bind, hrun2]
      · intro hS2 hn1 _ hl _
        obtain ⟨m, hm⟩ := hload fo.idx f.n (Or.inl rfl) hfoN hS2 hn1 hl
        rw [hl1] at hm; cases hm
    | ok m1 =>
      simp only [run_tryCatch, run_map, run_bind]
      have hs2 := loadStatus_state S po.idx pp.n e1
      cases hl2 : (loadStatus S po.idx pp.n).run e1 with
      | mk r2 e2 =>
        rw [hl2] at hs2; simp only at hs2; subst hs2
        cases r2 with
        | error err =>
          refine ⟨none, d2, ?_, hk2.good, fun _ => hall2, (fun act h => by cases h), ?_⟩
          · simp only [run_pure, run_bind, hrun2]
          · intro hS2 _ hn2 _ hl
            obtain ⟨m, hm⟩ := hload po.idx pp.n (Or.inr rfl) hpoN hS2 hn2 hl
            rw [hl2] at hm; cases hm
        | ok m2 =>
          refine ⟨_, e2, rfl, hk1.good, (fun h => by cases h), ?_, (fun _ _ _ _ _ h => by cases h)⟩
          intro act hact
          cases hact
          refine ⟨rfl, rfl, rfl, rfl, rfl, ?_, ?_, hothers⟩
          · rw [hkeep _ (Or.inl rfl), ← hfoh]
          · rw [hkeep _ (Or.inr rfl), ← hpoh]

theorem inProgress_of_status (h : Header) (hs : totalStatus h = .appWriteInProgress) : h.ext = Ext.inProgress := by
  unfold totalStatus at hs
  cases hv : (h.seq != 0xFFFFFFFF) <;> cases he : h.ext <;> cases hi : h.ist <;> cases hb : h.boot <;>
    simp [hv, he, hi, hb] at hs ⊢

theorem ihAt_mem (N p k s0 : Nat) (H : Nat → Header) (i : Nat) (hi : i < N) : ihAt N p k s0 H i ∈ ringIH N p k s0 H := by
  unfold ringIH
  exact List.mem_map.2 ⟨i, List.mem_range.2 hi, rfl⟩

/-- **app_status_resumes** (flash level, full).  On every consistent ring device without armed injection
    `app_boot_status` succeeds and

    * if it reports a session (`some act`): the ring holds at least two slots, the two newest — physical slots `p+k-2`
      (firmware) and `p+k-1` (parity) — are an in-progress firmware/parity pair of one fragment size whose geometry fits
      the slot, `act` is exactly that pair (indices, fragment size, counts), the pair's headers are untouched and NO
      other slot reads "external write in progress" afterwards;
    * if it reports idle (`none`): NO slot reads "in progress" afterwards;
    * when there is such a newest in-progress pair and its two status tables hold only written / not-written bytes, it
      is resumed (the result is not idle). -/
theorem app_status_resumes (N S p k s0 : Nat) (H : Nat → Header) (d : Dev)
    (hN : 3 ≤ N) (hN6 : N ≤ 6) (hp : p < N) (hk : k ≤ N) (hS : 28 ≤ S)
    (hG : Good d) (hwf : FlashAdapters.WF d.flash) (hb0 : 0 < d.flash.block) (hdiv : S % d.flash.block = 0)
    (hsz : N * S ≤ d.flash.size)
    (hring : hdrsOf d.flash S (List.range N) = ringIH N p k s0 H) :
    ∃ r d', (appBootStatus N S).run d = (.ok r, d') ∧ Good d' ∧
      (r = none → ∀ i, i < N → NotInProg d'.flash S i) ∧
      (∀ act, r = some act →
        (2 ≤ k ∧ fits S (hdrAt N p s0 H ((p + k - 2) % N)) = true ∧
          Resumable (hdrAt N p s0 H ((p + k - 2) % N)) (hdrAt N p s0 H ((p + k - 1) % N))) ∧
        act.fwIdx = (p + k - 2) % N ∧ act.parIdx = (p + k - 1) % N ∧
        act.segSize = (hdrAt N p s0 H ((p + k - 2) % N)).size ∧
        act.totalFw = (hdrAt N p s0 H ((p + k - 2) % N)).n ∧ act.totalPar = (hdrAt N p s0 H ((p + k - 1) % N)).n ∧
        hdrAtFlash d'.flash S act.fwIdx = some (hdrAt N p s0 H ((p + k - 2) % N)) ∧
        hdrAtFlash d'.flash S act.parIdx = some (hdrAt N p s0 H ((p + k - 1) % N)) ∧
        ∀ i, i < N → i ≠ act.fwIdx → i ≠ act.parIdx → NotInProg d'.flash S i) ∧
      ((2 ≤ k ∧ fits S (hdrAt N p s0 H ((p + k - 2) % N)) = true ∧
          Resumable (hdrAt N p s0 H ((p + k - 2) % N)) (hdrAt N p s0 H ((p + k - 1) % N))) →
        17408 ≤ S →
        LegalTable d.flash ((p + k - 2) % N * S + 1024) (hdrAt N p s0 H ((p + k - 2) % N)).n →
        LegalTable d.flash ((p + k - 1) % N * S + 1024) (hdrAt N p s0 H ((p + k - 1) % N)).n → r ≠ none) := by
  obtain ⟨o, ho, hdec⟩ := app_status_resumes_partial S N p k s0 H hN hN6 hp hk
  rw [← hring] at ho
  rw [appBootStatus_eq, run_bind, getOrderedHeaders_run N S d hG (by omega) hS hsz o ho]
  simp only
  by_cases hc : 2 ≤ k ∧ fits S (hdrAt N p s0 H ((p + k - 2) % N)) = true ∧
      Resumable (hdrAt N p s0 H ((p + k - 2) % N)) (hdrAt N p s0 H ((p + k - 1) % N))
  · rw [if_pos hc] at hdec
    rw [hdec]
    obtain ⟨hk2, _, hres⟩ := hc
    have hNpos : 0 < N := by omega
    have hf : ((p + k - 2) % N + N - p) % N < k := by
      have hN' : N = 3 ∨ N = 4 ∨ N = 5 ∨ N = 6 := by omega
      rcases hN' with rfl | rfl | rfl | rfl <;> omega
    have hq : ((p + k - 1) % N + N - p) % N < k := by
      have hN' : N = 3 ∨ N = 4 ∨ N = 5 ∨ N = 6 := by omega
      rcases hN' with rfl | rfl | rfl | rfl <;> omega
    have e1 : (ihAt N p k s0 H ((p + k - 2) % N)).hdr = some (hdrAt N p s0 H ((p + k - 2) % N)) := by
      simp only [ihAt, hf, ↓reduceIte, hdrAt]
    have e2 : (ihAt N p k s0 H ((p + k - 1) % N)).hdr = some (hdrAt N p s0 H ((p + k - 1) % N)) := by
      simp only [ihAt, hq, ↓reduceIte, hdrAt]
    have hm1 : ihAt N p k s0 H ((p + k - 2) % N) ∈ o :=
      (mem_ordered ho _).2 (by rw [hring]; exact ihAt_mem N p k s0 H _ (Nat.mod_lt _ hNpos))
    have hm2 : ihAt N p k s0 H ((p + k - 1) % N) ∈ o :=
      (mem_ordered ho _).2 (by rw [hring]; exact ihAt_mem N p k s0 H _ (Nat.mod_lt _ hNpos))
    obtain ⟨r, d', hrun, hgood, hnone, hsome, hlegal⟩ := appAfter_some_run N S d o hS hG hwf hb0 hdiv hsz ho _ _ _ _ hm1 hm2 e1 e2
      (inProgress_of_status _ hres.1) (inProgress_of_status _ hres.2.2.1)
    have hn1 : (hdrAt N p s0 H ((p + k - 2) % N)).n ≤ 16384 := by
      have := (hdr_of_mem _ S N o ho _ hm1).2
      rw [e1] at this
      exact hdrAtFlash_n_le _ _ _ _ this.symm
    have hn2 : (hdrAt N p s0 H ((p + k - 1) % N)).n ≤ 16384 := by
      have := (hdr_of_mem _ S N o ho _ hm2).2
      rw [e2] at this
      exact hdrAtFlash_n_le _ _ _ _ this.symm
    refine ⟨r, d', hrun, hgood, hnone, ?_, fun _ hS2 l1 l2 => hlegal hS2 hn1 hn2 l1 l2⟩
    intro act hact
    obtain ⟨a1, a2, a3, a4, a5, a6, a7, a8⟩ := hsome act hact
    have i1 : (ihAt N p k s0 H ((p + k - 2) % N)).idx = (p + k - 2) % N := rfl
    have i2 : (ihAt N p k s0 H ((p + k - 1) % N)).idx = (p + k - 1) % N := rfl
    rw [i1] at a1 a6 a8
    rw [i2] at a2 a7 a8
    refine ⟨⟨hk2, by assumption, hres⟩, a1, a2, a3, a4, a5, by rw [a1]; exact a6, by rw [a2]; exact a7, ?_⟩
    intro i hi h1 h2
    exact a8 i hi (by rw [← a1]; exact h1) (by rw [← a2]; exact h2)
  · rw [if_neg hc] at hdec
    rw [hdec]
    obtain ⟨d', hrun, hk', hall⟩ := cancelAll_run N S d d o hS hG hwf hb0 hdiv hsz ho
      (fun i _ => notInProg_or d.flash S i)
    refine ⟨none, d', ?_, hk'.good, fun _ => hall, (fun act h => by cases h), fun h => absurd h hc⟩
    show (appAfter S o none).run d = _
    unfold appAfter
    simp only [run_bind, hrun, run_pure]

/-! ## `start` rejects what a header cannot represent (since the repair) -/

/-- **accept iff**: the repaired `is_reasonably_sized` accepts exactly the geometries a header can represent and
    whose image fits the data region (slot sizes below `2^32`) -/
theorem reasonable_iff (slot sz n : Nat) (hslot : slot < 2 ^ 32) :
    reasonablySized slot sz n = .ok () ↔
      (1 ≤ sz ∧ sz ≤ 256 ∧ 1 ≤ n ∧ n ≤ 16384 ∧ sz * n ≤ slot - 17408) := by
  unfold reasonablySized maxDataSize
  simp only [show Orig.MAX_SEGMENT_SIZE = 256 from rfl, show Orig.MAX_SEGMENTS = 16384 from rfl,
    show Orig.HEADER_SIZE = 1024 from rfl]
  by_cases h1 : sz = 0 ∨ sz > 256
  · simp only [h1, ↓reduceIte]
    constructor
    · intro h; cases h
    · intro h; omega
  · simp only [h1, ↓reduceIte]
    by_cases h2 : n = 0 ∨ n > 16384
    · simp only [h2, ↓reduceIte]
      constructor
      · intro h; cases h
      · intro h; omega
    · simp only [h2, ↓reduceIte]
      have hm : ¬ slot - 1024 - 16384 ≥ 2 ^ 32 := by omega
      have hprod : sz * n ≤ 256 * 16384 := Nat.mul_le_mul (by omega) (by omega)
      have hp : ¬ sz * n ≥ 2 ^ 32 := by omega
      simp only [hm, hp, ↓reduceIte]
      by_cases h3 : sz * n > slot - 1024 - 16384
      · simp only [h3, ↓reduceIte]
        constructor
        · intro h; cases h
        · intro h; omega
      · simp only [h3, ↓reduceIte]
        constructor
        · intro _; omega
        · intro _; trivial

/-- **start_rejects_unrepresentable**: fragment size 0 or > 256, fragment count 0 or > 16384 — `start` returns the
    size error and the device (flash, operation log, counters) is exactly as before, for every device state.  The
    situation of the former finding `start-unrepresentable-geometry` (firmware and parity in ONE slot) cannot arise. -/
theorem start_rejects_unrepresentable (nslots slot sz n : Nat) (d : Dev)
    (h : sz = 0 ∨ sz > 256 ∨ n = 0 ∨ n > 16384) :
    ∃ e, (e = MErr.segmentsTooLarge ∨ e = MErr.tooManySegments) ∧
      (Orig.start nslots slot sz n).run d = (.error e, d) := by
  have hr : ∃ e, (e = MErr.segmentsTooLarge ∨ e = MErr.tooManySegments) ∧ reasonablySized slot sz n = .error e := by
    unfold reasonablySized
    simp only [show Orig.MAX_SEGMENT_SIZE = 256 from rfl, show Orig.MAX_SEGMENTS = 16384 from rfl]
    by_cases h1 : sz = 0 ∨ sz > 256
    · exact ⟨_, Or.inl rfl, by simp only [h1, ↓reduceIte]⟩
    · have h2 : n = 0 ∨ n > 16384 := by omega
      exact ⟨_, Or.inr rfl, by simp only [h1, h2, ↓reduceIte]⟩
  obtain ⟨e, he, hr⟩ := hr
  refine ⟨e, he, ?_⟩
  unfold Orig.start
  simp only [hr]
  rfl

/-- every rejected `start` leaves the device untouched (whatever the reason) -/
theorem start_rejects_untouched (nslots slot sz n : Nat) (e : MErr) (d : Dev)
    (h : reasonablySized slot sz n = .error e) : (Orig.start nslots slot sz n).run d = (.error e, d) := by
  unfold Orig.start
  simp only [h]
  rfl

/-! ## fragment writes -/

/-- `[a, a+len)` lies inside slot `s` -/
def InSlot (slotSize s a len : Nat) : Prop := s * slotSize ≤ a ∧ a + len ≤ (s + 1) * slotSize

instance (slotSize s a len : Nat) : Decidable (InSlot slotSize s a len) := by unfold InSlot; infer_instance

/-- the slot a fragment index belongs to -/
def ownSlot (a : Act) (idx1 : Nat) : Nat := if idx1 ≤ a.totalFw then a.fwIdx else a.parIdx

/-- the plan of an accepted write, with the repaired range check, lies inside the slot the fragment belongs to -/
theorem plan_in_slot (cfg : Orig.Cfg) (hcfg : cfg.rangeCheckWithOffset = true) (a : Act) (idx1 len : Nat) (p : WPlan)
    (hslot : a.slotSize > Orig.HEADER_SIZE + Orig.MAX_SEGMENTS)
    (h : planWrite cfg a idx1 len = .ok p) :
    p.slotIdx = ownSlot a idx1 ∧ InSlot a.slotSize p.slotIdx p.dataStart len ∧
      InSlot a.slotSize p.slotIdx p.writtenAddr 1 := by
  have c1 : Orig.DATA_REGION_OFFSET = 17408 := rfl
  have c2 : Orig.WRITTEN_OFFSET = 1024 := rfl
  have c3 : Orig.WRITTEN_SIZE = 16384 := rfl
  have c4 : Orig.HEADER_SIZE = 1024 := rfl
  have c5 : Orig.MAX_SEGMENTS = 16384 := rfl
  rw [c4, c5] at hslot
  unfold planWrite at h
  simp only [hcfg, ↓reduceIte, c1, c2, c3] at h
  by_cases h0 : idx1 = 0
  · simp [h0] at h
  simp only [h0, ↓reduceIte] at h
  by_cases hl : a.segSize = len
  · subst hl
    by_cases hfw : idx1 ≤ a.totalFw
    · -- a data fragment: firmware slot
      simp only [hfw, decide_true, Bool.not_true, Bool.false_and, Bool.false_eq_true, ↓reduceIte, ne_eq,
        not_true_eq_false] at h
      by_cases hw : idx1 - 1 < 16384
      · by_cases hd : 17408 + (idx1 - 1 + 1) * a.segSize ≤ a.slotSize
        · simp only [hw, hd, decide_true, Bool.and_self, Bool.not_true, Bool.false_eq_true, ↓reduceIte,
            Except.ok.injEq] at h
          subst h
          have e1 : (idx1 - 1 + 1) * a.segSize = (idx1 - 1) * a.segSize + a.segSize := by
            rw [Nat.add_mul, Nat.one_mul]
          have e2 : (a.fwIdx + 1) * a.slotSize = a.fwIdx * a.slotSize + a.slotSize := by
            rw [Nat.add_mul, Nat.one_mul]
          refine ⟨by simp [ownSlot, hfw], ?_, ?_⟩ <;> unfold InSlot <;> simp only <;> constructor <;> omega
        · simp [hw, hd] at h
      · simp [hw] at h
    · -- a coded fragment: parity slot
      simp only [hfw, decide_false, Bool.not_false, Bool.true_and, ne_eq, not_true_eq_false, ↓reduceIte] at h
      by_cases hr : idx1 ≤ (a.totalFw + a.totalPar) % 2 ^ 32
      · simp only [hr, decide_true, Bool.not_true, Bool.false_eq_true, ↓reduceIte] at h
        by_cases hw : idx1 - 1 - a.totalFw < 16384
        · by_cases hd : 17408 + (idx1 - 1 - a.totalFw + 1) * a.segSize ≤ a.slotSize
          · simp only [hw, hd, decide_true, Bool.and_self, Bool.not_true, Bool.false_eq_true, ↓reduceIte,
              Except.ok.injEq] at h
            subst h
            have e1 : (idx1 - 1 - a.totalFw + 1) * a.segSize = (idx1 - 1 - a.totalFw) * a.segSize + a.segSize := by
              rw [Nat.add_mul, Nat.one_mul]
            have e2 : (a.parIdx + 1) * a.slotSize = a.parIdx * a.slotSize + a.slotSize := by
              rw [Nat.add_mul, Nat.one_mul]
            refine ⟨by simp [ownSlot, hfw], ?_, ?_⟩ <;> unfold InSlot <;> simp only <;> constructor <;> omega
          · simp [hw, hd] at h
        · simp [hw] at h
      · simp [hr] at h
  · by_cases hr : (!decide (idx1 ≤ a.totalFw) && !decide (idx1 ≤ (a.totalFw + a.totalPar) % 2 ^ 32)) = true
    · simp [hr] at h
    · simp [hr, hl] at h

/-- **write_in_slot**: with the repaired range check (`rangeCheckWithOffset = true`) every flash operation a
    fragment write (`write_segment`, data or parity, any index / fragment size / slot size, any device state, with or
    without an injected power loss) adds to the log is a program that lies inside the slot the fragment belongs to. -/
theorem write_in_slot (cfg : Orig.Cfg) (hcfg : cfg.rangeCheckWithOffset = true) (scratchLen idx1 : Nat)
    (bytes : List Nat) (a : Act) (d : Dev) (hslot : a.slotSize > Orig.HEADER_SIZE + Orig.MAX_SEGMENTS) :
    ∃ new, ((Orig.writeSegmentInternal cfg scratchLen idx1 bytes).run (a, d)).2.2.ops = new ++ d.ops ∧
      ∀ op ∈ new, ∃ addr bs', op = Op.program addr bs' ∧ InSlot a.slotSize (ownSlot a idx1) addr bs'.length := by
  obtain ⟨new, h1, h2⟩ := writeSegmentInternal_ops cfg scratchLen idx1 bytes a d
  refine ⟨new, h1, fun op hop => ?_⟩
  obtain ⟨p, hp, hor⟩ := h2 op hop
  obtain ⟨e, hd, hw⟩ := plan_in_slot cfg hcfg a idx1 bytes.length p hslot hp
  rw [← e]
  rcases hor with ⟨bs', rfl, hl⟩ | ⟨bs', rfl, hl⟩
  · exact ⟨_, bs', rfl, ⟨hd.1, by have := hd.2; omega⟩⟩
  · exact ⟨_, bs', rfl, ⟨hw.1, by have := hw.2; omega⟩⟩

/-- the session of the witness: `start(40, 10)` on blank 64 KiB slots (firmware slot 0, parity slot 1) -/
def witnessAct : Act :=
  { slotSize := 65536, segSize := 40, fwIdx := 0, totalFw := 10, remFw := 10,
    parIdx := 1, totalPar := 16384, remPar := 16384 }

/-- **write_beyond_slot_witness** (the PINNED range check, `rangeCheckWithOffset = false`; the repaired code and the
    driver default are `true`): `write_segment(10 + 1300, 40 bytes)`
    is accepted and its data program starts at byte 134904 — slot 2, offset 3832 — although the fragment belongs
    to the parity slot 1; with the offset in the check it is refused. -/
theorem write_beyond_slot_witness :
    (∃ p, planWrite { rangeCheckWithOffset := false } witnessAct 1310 40 = .ok p ∧ p.slotIdx = 1 ∧
      p.dataStart = 134904 ∧ p.dataStart / 65536 = 2) ∧
    planWrite { rangeCheckWithOffset := true } witnessAct 1310 40 = .error (.spi .oob) := by
  constructor
  · exact ⟨_, rfl, by decide, by decide, by decide⟩
  · rfl

/-! ## non-vacuity -/

theorem blank_byte (B n x : Nat) : (Flash.blank B n).byte x = 0xFF := by
  unfold Flash.blank Flash.byte
  simp only [Array.getD_eq_getD_getElem?, Array.getElem?_replicate]
  split <;> rfl

/-- non-vacuity of the ring-device hypotheses: a blank device is the consistent ring state with fill 0 -/
theorem blank_device_is_ring (B N S p s0 : Nat) (H : Nat → Header) :
    hdrsOf (Flash.blank B (N * S)) S (List.range N) = ringIH N p 0 s0 H := by
  unfold hdrsOf ringIH
  apply List.map_congr_left
  intro i _
  rw [hdr_none_of_erased _ S i (fun x _ _ => blank_byte _ _ _)]
  simp


/-- a full 4-slot ring whose numbering crosses the wrap-around: the oldest slot is at position 1 with number
    `2^32-3`; the numbers are `[0, 2^32-3, 2^32-2, ... ]`, `start` takes slots 1 and 2 with numbers 1 and 2 -/
example : ringSeqs 4 1 4 4294967293 = [some 1, some 4294967293, some 4294967294, some 0] := by decide
example : firstSlot 4 1 4 = 1 ∧ firstSeq 4 4294967293 = 2 ∧ nextSeq (firstSeq 4 4294967293) = 3 := by decide
example : nextSeq 4294967294 = 0 := by decide

/-- `InSlot` is satisfiable and the accepted range is not empty: parity fragment #1203 (the last one that fits) -/
example : ∃ p, planWrite { rangeCheckWithOffset := true } witnessAct 1213 40 = .ok p ∧
    InSlot 65536 1 p.dataStart 40 := ⟨_, rfl, by decide⟩

end Fuota.C20
