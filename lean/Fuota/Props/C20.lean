import Fuota.Lemmas.V1Ring
import Fuota.Lemmas.V1Write
/-!
# C20 — deprecated manager: ring placement is oldest-first and writes stay in-slot

Model: `Fuota.Orig` (`original-flash-algo/src/manager.rs`, `src/ring.rs`).  A consistent ring state is
`ringIH N p k s0 H`: `N` slots, a run of `k` consecutively numbered slots whose oldest sits at position `p` with
sequence number `s0 mod (2^32-1)`, the other slots blank; `H i` gives the remaining header fields of slot `i`.
All theorems quantify over `3 ≤ N ≤ 6`, every rotation `p < N`, every fill `k ≤ N`, EVERY start value `s0`
(hence also the ones adjacent to `2^32-1`) and every `H`.

* `next_seq_never_reserved`, `next_seq_valid`, `next_seq_injective`
* `ordered_headers_spec`, `no_assert`
* `start_places_partial` — both iterations of `start`: the two positions that follow the newest slot (slots 0 and 1 on a
  blank ring), numbered `next_seq`, `next_seq²`.
* `app_pair_spec`, `app_status_resumes_partial` — the pair `app_boot_status` resumes is the newest (firmware, parity) pair
  iff both are in progress, of the right kinds, of the same fragment size and the firmware geometry fits the slot; `remediate_covers`, `cancel_covers`: every other slot
  that reads "in progress" is aborted or erased (resume case), every slot that reads "in progress" is aborted
  (idle case).
* `write_in_slot` — for the model with `rangeCheckWithOffset = true`, every operation an accepted fragment write
  issues is a program inside the slot the fragment belongs to; `write_beyond_slot_witness` — with the pinned range
  check, parity fragment #1300 (fragment size 40, 64 KiB slots, 10 data fragments) is accepted and programmed into
  the NEXT slot.

* `reasonable_iff`, `start_rejects_unrepresentable` — since the repair `start` rejects, without touching the device,
  every geometry a header cannot represent (fragment size 0 or > 256, fragment count 0 or > 16384).
* `appBootStatus_eq` — `app_boot_status` is "read the ordered headers, take the pure decision `appDecision`, act on
  it"; an implausible firmware header makes the pair not resumable instead of being returned as an error
  (`app_status_error_witness` shows the difference to the pinned logic on the state a power loss inside `start` leaves).

Not covered by a theorem (tied by suite D8 instead): that the erase + 28-byte header program of `start` turn the
slot's parsed header into the header written (codec round trip, C11), and the effect of the abort / erase
operations of `app_boot_status` on the parsed headers.
-/
set_option linter.unusedSimpArgs false
namespace Fuota.C20
open Fuota.Orig Fuota.Layout Fuota.Fs Fuota.Nor Fuota.V1

/-- the constants this file computes with -/
theorem consts : Orig.DATA_REGION_OFFSET = 17408 ∧ Orig.WRITTEN_OFFSET = 1024 ∧ Orig.WRITTEN_SIZE = 16384 ∧
    Orig.MAX_SEGMENTS = 16384 ∧ Orig.HEADER_SIZE = 1024 := by decide

/-! ## sequence numbers -/

/-- `next_seq` never yields the reserved value — for every `u32` (indeed every) argument, so also across the
    `2^32` wrap-around -/
theorem next_seq_never_reserved (s : Nat) : nextSeq s ≠ 0xFFFFFFFF := nextSeq_ne_reserved s

/-- ... and always yields a valid sequence number -/
theorem next_seq_valid (s : Nat) : nextSeq s < 0xFFFFFFFF := nextSeq_lt s

/-- `next_seq` is injective on valid sequence numbers (so consecutive slots never collide) -/
theorem next_seq_injective (a b : Nat) (ha : a < 0xFFFFFFFF) (hb : b < 0xFFFFFFFF) (h : nextSeq a = nextSeq b) :
    a = b := nextSeq_injective a b ha hb h

/-- the closed form used throughout: on valid numbers `next_seq` is `+1` modulo `2^32-1` -/
theorem next_seq_closed_form (x : Nat) : nextSeq (x % 4294967295) = (x + 1) % 4294967295 := nextSeq_mod x

/-! ## ordering -/

/-- **ordered_headers_spec**: on a consistent, non-blank ring `get_ordered_headers` rotates the header array to the
    position after the newest slot. -/
theorem ordered_headers_spec (N p k s0 : Nat) (H : Nat → Header) (hN : 3 ≤ N) (hN6 : N ≤ 6) (hp : p < N)
    (hk1 : 1 ≤ k) (hk : k ≤ N) :
    orderHeaders (ringIH N p k s0 H) = some (rotateLeft (ringIH N p k s0 H) ((p + k) % N)) := by
  unfold orderHeaders findOldest
  rw [ringIH_seqs, findOldestSeq_ring N p k s0 hN hN6 hp hk1 hk]

/-- on a blank ring the headers stay as they are -/
theorem ordered_headers_blank (N p s0 : Nat) (H : Nat → Header) (hN : 3 ≤ N) (hN6 : N ≤ 6) :
    orderHeaders (ringIH N p 0 s0 H) = some (ringIH N p 0 s0 H) := by
  unfold orderHeaders findOldest
  rw [ringIH_seqs, findOldestSeq_blank N p s0 hN hN6]
  simp [ringIH_blank_all_none]

/-- **no_assert**: `assert!(all_none)` is unreachable on consistent ring states. -/
theorem no_assert (N p k s0 : Nat) (H : Nat → Header) (hN : 3 ≤ N) (hN6 : N ≤ 6) (hp : p < N) (hk : k ≤ N) :
    orderHeaders (ringIH N p k s0 H) ≠ none := by
  rcases Nat.eq_zero_or_pos k with rfl | hk1
  · rw [ordered_headers_blank N p s0 H hN hN6]; simp
  · rw [ordered_headers_spec N p k s0 H hN hN6 hp hk1 hk]; simp

/-! ## placement -/

/-- the slot and sequence number the first iteration of `start` must take -/
def firstSlot (N p k : Nat) : Nat := if k = 0 then 0 else (p + k) % N
def firstSeq (k s0 : Nat) : Nat := if k = 0 then 0 else (s0 + k) % 4294967295

/-- one iteration of `start` on a consistent ring -/
theorem plan_first (N p k s0 : Nat) (H : Nat → Header) (hN : 3 ≤ N) (hN6 : N ≤ 6) (hp : p < N) (hk : k ≤ N) :
    (orderHeaders (ringIH N p k s0 H)).bind planOne = some (firstSlot N p k, firstSeq k s0) := by
  rcases Nat.eq_zero_or_pos k with rfl | hk1
  · rw [ordered_headers_blank N p s0 H hN hN6]
    simp [firstSlot, firstSeq, planOne_blank N p s0 H hN hN6]
  · rw [ordered_headers_spec N p k s0 H hN hN6 hp hk1 hk]
    have : k ≠ 0 := by omega
    simp [firstSlot, firstSeq, this, planOne_ring N p k s0 H hN hN6 hp hk1 hk]

/-- **start_places** (`_partial`: decision level; missing hypothesis — the erase + 28-byte header program of
    `startOne` change what `readHeadersFrom` returns from `hs` to `putHeader hs slot hdr`, i.e. the codec round trip of
    C11 on an erased slot; suite D8 checks it on every run): `start` takes the two ring positions that follow the newest slot — blank positions if there
    are any, otherwise the oldest images; slots 0 and 1 on a blank ring — and numbers them `next_seq(newest)`,
    `next_seq²(newest)` (0 and 1 on a blank ring), never the reserved value.  `h1` is any header carrying the first
    number (the firmware header `start` writes); the second iteration runs on the ring with that header in place. -/
theorem start_places_partial (N p k s0 : Nat) (H : Nat → Header) (h1 : Header) (hN : 3 ≤ N) (hN6 : N ≤ 6) (hp : p < N)
    (hk : k ≤ N) (hseq : h1.seq = firstSeq k s0) :
    (orderHeaders (ringIH N p k s0 H)).bind planOne = some (firstSlot N p k, firstSeq k s0) ∧
    (orderHeaders (putHeader (ringIH N p k s0 H) (firstSlot N p k) h1)).bind planOne =
      some ((firstSlot N p k + 1) % N, nextSeq (firstSeq k s0)) ∧
    firstSeq k s0 ≠ 0xFFFFFFFF ∧ nextSeq (firstSeq k s0) ≠ 0xFFFFFFFF := by
  refine ⟨plan_first N p k s0 H hN hN6 hp hk, ?_, ?_, nextSeq_ne_reserved _⟩
  · rcases Nat.eq_zero_or_pos k with rfl | hk1
    · -- blank ring: slot 0 / number 0, then slot 1 / number 1
      have e : firstSlot N p 0 = 0 := rfl
      have e' : firstSeq 0 s0 = 0 := rfl
      rw [e'] at hseq
      rw [e, e']
      rw [putHeader_blank N p s0 H h1 hN hN6 hseq]
      rw [plan_first N 0 1 0 _ hN hN6 (by omega) (by omega)]
      have hN' : N = 3 ∨ N = 4 ∨ N = 5 ∨ N = 6 := by omega
      rcases hN' with rfl | rfl | rfl | rfl <;> simp [firstSlot, firstSeq, nextSeq]
    · have hk0 : k ≠ 0 := by omega
      have e : firstSlot N p k = (p + k) % N := by simp [firstSlot, hk0]
      have e' : firstSeq k s0 = (s0 + k) % 4294967295 := by simp [firstSeq, hk0]
      rw [e'] at hseq
      rw [e, e']
      rw [nextSeq_mod]
      rcases Nat.lt_or_ge k N with hlt | hge
      · rw [putHeader_grow N p k s0 H h1 hN hN6 hp hk1 hlt hseq]
        rw [plan_first N p (k + 1) s0 _ hN hN6 hp (by omega)]
        have hN' : N = 3 ∨ N = 4 ∨ N = 5 ∨ N = 6 := by omega
        simp only [firstSlot, firstSeq, Nat.add_one_ne_zero, ↓reduceIte, Option.some.injEq, Prod.mk.injEq]
        rcases hN' with rfl | rfl | rfl | rfl <;> constructor <;> omega
      · have hkN : k = N := by omega
        subst hkN
        have hpk : (p + k) % k = p := by
          rw [Nat.add_mod_right]; exact Nat.mod_eq_of_lt hp
        rw [hpk]
        rw [putHeader_full k p s0 H h1 hN hN6 hp hseq]
        rw [plan_first k ((p + 1) % k) k (s0 + 1) _ hN hN6 (Nat.mod_lt _ (by omega)) (Nat.le_refl _)]
        have hk0' : k ≠ 0 := by omega
        simp only [firstSlot, firstSeq, hk0', ↓reduceIte, Option.some.injEq, Prod.mk.injEq]
        have hN' : k = 3 ∨ k = 4 ∨ k = 5 ∨ k = 6 := by omega
        rcases hN' with rfl | rfl | rfl | rfl <;> constructor <;> omega
  · unfold firstSeq
    split
    · decide
    · omega

/-! ## application status -/

/-- the condition under which `app_boot_status` resumes the two newest slots -/
def Resumable (f p : Header) : Prop :=
  totalStatus f = .appWriteInProgress ∧ f.kind = Kind.firmware ∧
  totalStatus p = .appWriteInProgress ∧ p.kind = Kind.parity ∧ f.size = p.size

instance (f p : Header) : Decidable (Resumable f p) := by unfold Resumable; infer_instance

/-- the header slot `i` of a consistent ring carries -/
def hdrAt (N p s0 : Nat) (H : Nat → Header) (i : Nat) : Header :=
  { H i with seq := (s0 + (i + N - p) % N) % 4294967295 }

/-- the kind / status / size part of the decision (`appPair`): on every consistent ring state it selects exactly the newest
    pair — physical slots `p+k-2` (firmware) and `p+k-1` (parity) — when the ring holds at least two slots and that
    pair is an in-progress firmware/parity pair of one fragment size; in every other case it selects nothing
    (and reports idle after cancelling, see `cancel_covers`). -/
theorem app_pair_spec (N p k s0 : Nat) (H : Nat → Header) (hN : 3 ≤ N) (hN6 : N ≤ 6) (hp : p < N) (hk : k ≤ N) :
    ∃ o, orderHeaders (ringIH N p k s0 H) = some o ∧
      appPair o =
        if 2 ≤ k ∧ Resumable (hdrAt N p s0 H ((p + k - 2) % N)) (hdrAt N p s0 H ((p + k - 1) % N)) then
          some (ihAt N p k s0 H ((p + k - 2) % N), hdrAt N p s0 H ((p + k - 2) % N),
                ihAt N p k s0 H ((p + k - 1) % N), hdrAt N p s0 H ((p + k - 1) % N))
        else none := by
  rcases Nat.eq_zero_or_pos k with rfl | hk1
  · refine ⟨_, ordered_headers_blank N p s0 H hN hN6, ?_⟩
    unfold appPair
    rw [getTwoNewest_blank N p s0 H hN hN6]
    simp
  · refine ⟨_, ordered_headers_spec N p k s0 H hN hN6 hp hk1 hk, ?_⟩
    unfold appPair
    rcases Nat.lt_or_ge k 2 with hlt | hge
    · have : k = 1 := by omega
      subst this
      rw [getTwoNewest_one N p s0 H hN hN6 hp]
      simp
    · rw [getTwoNewest_ring N p k s0 H hN hN6 hp hge hk]
      -- both slots of the pair lie inside the run
      have hf : ((p + k - 2) % N + N - p) % N < k := by
        have hN' : N = 3 ∨ N = 4 ∨ N = 5 ∨ N = 6 := by omega
        rcases hN' with rfl | rfl | rfl | rfl <;> omega
      have hq : ((p + k - 1) % N + N - p) % N < k := by
        have hN' : N = 3 ∨ N = 4 ∨ N = 5 ∨ N = 6 := by omega
        rcases hN' with rfl | rfl | rfl | rfl <;> omega
      simp only [ihAt, hf, hq, ↓reduceIte, hge, true_and, hdrAt, Resumable]

/-- a parsed header never carries the reserved sequence number, so "external write in progress" means one of two
    total statuses -/
theorem inProgress_status (h : Header) (hext : h.ext = Ext.inProgress) (hseq : h.seq ≠ 0xFFFFFFFF) :
    totalStatus h = .appWriteInProgress ∨ totalStatus h = .invalidNeedsErase := by
  unfold totalStatus
  have : (h.seq != 0xFFFFFFFF) = true := by simpa using hseq
  rw [this, hext]
  cases h.ist <;> cases h.boot <;> simp

/-- **leaving no other slot in progress (resume case)**: every slot other than the resumed pair whose header reads
    "external write in progress" is aborted or erased by the remediation loop. -/
theorem remediate_covers (fIdx pIdx : Nat) (hs : List IH) (ih : IH) (h : Header) (hmem : ih ∈ hs)
    (hh : ih.hdr = some h) (hext : h.ext = Ext.inProgress) (hseq : h.seq ≠ 0xFFFFFFFF)
    (hne : ih.idx ≠ fIdx ∧ ih.idx ≠ pIdx) :
    (ih.idx, Rem.abort) ∈ remediateActs fIdx pIdx hs ∨ (ih.idx, Rem.erase) ∈ remediateActs fIdx pIdx hs := by
  unfold remediateActs
  simp only [List.mem_filterMap]
  have hcond : ¬ (ih.idx = fIdx ∨ ih.idx = pIdx) := by
    intro hc; rcases hc with hc | hc
    · exact hne.1 hc
    · exact hne.2 hc
  rcases inProgress_status h hext hseq with hs1 | hs1
  · left
    exact ⟨ih, hmem, by simp [hcond, hh, hs1]⟩
  · right
    exact ⟨ih, hmem, by simp [hcond, hh, hs1]⟩

/-- **leaving no slot in progress (idle case)**: `cancel_all_ext_pending` aborts every slot whose header reads
    "external write in progress". -/
theorem cancel_covers (hs : List IH) (ih : IH) (h : Header) (hmem : ih ∈ hs) (hh : ih.hdr = some h)
    (hext : h.ext = Ext.inProgress) : ih.idx ∈ cancelActs hs := by
  unfold cancelActs
  simp only [List.mem_filterMap]
  exact ⟨ih, hmem, by simp [hh, hext]⟩

/-- the remediation loop never touches the resumed pair -/
theorem remediate_spares_pair (fIdx pIdx : Nat) (hs : List IH) (i : Nat) (r : Rem)
    (h : (i, r) ∈ remediateActs fIdx pIdx hs) : i ≠ fIdx ∧ i ≠ pIdx := by
  unfold remediateActs at h
  simp only [List.mem_filterMap] at h
  obtain ⟨ih, _, hv⟩ := h
  by_cases hc : ih.idx = fIdx ∨ ih.idx = pIdx
  · simp [hc] at hv
  · simp only [hc, ↓reduceIte] at hv
    cases hh : ih.hdr with
    | none => simp [hh] at hv
    | some hd =>
      simp only [hh] at hv
      have : i = ih.idx := by
        split at hv <;> simp at hv <;> exact hv.1.symm
      subst this
      exact ⟨fun e => hc (Or.inl e), fun e => hc (Or.inr e)⟩

/-! ### the decision of the repaired `app_boot_status` -/

/-- the firmware header announces a geometry that fits the slot (`is_reasonably_sized`) -/
def fits (slotSize : Nat) (h : Header) : Bool :=
  match reasonablySized slotSize h.size h.n with
  | .ok _ => true
  | .error _ => false

/-- the pair the repaired `app_boot_status` resumes: an implausible firmware header makes the pair not resumable -/
def appDecision (slotSize : Nat) (hs : List IH) : Option (IH × Header × IH × Header) :=
  match getTwoNewest hs with
  | none => none
  | some (older, newer) =>
    match older.hdr, newer.hdr with
    | some f, some _ =>
      (match reasonablySized slotSize f.size f.n with | .error _ => none | .ok () => appPair hs)
    | _, _ => none

/-- what `app_boot_status` does once a pair was / was not selected -/
def appAfter (slotSize : Nat) (hs : List IH) : Option (IH × Header × IH × Header) → M (Option Act)
  | none => do cancelAll slotSize hs; pure none
  | some (fo, f, po, p) => do
    remediate slotSize fo.idx po.idx hs
    let fwMask ← tryCatch (some <$> loadStatus slotSize fo.idx f.n) (fun _ => pure none)
    match fwMask with
    | none => cancelAll slotSize hs; pure none
    | some fwMask =>
      let parMask ← tryCatch (some <$> loadStatus slotSize po.idx p.n) (fun _ => pure none)
      match parMask with
      | none => cancelAll slotSize hs; pure none
      | some parMask =>
        pure (some { slotSize := slotSize, segSize := f.size, fwIdx := fo.idx, parIdx := po.idx,
                     totalFw := f.n, remFw := f.n - countBits fwMask f.n,
                     totalPar := p.n, remPar := p.n - countBits parMask p.n })

/-- **the model's `app_boot_status` is: order the headers, decide (`appDecision`), act** — in particular no size
    error is returned any more: without a resumable pair everything in progress is cancelled and Idle reported. -/
theorem appBootStatus_eq (nslots slotSize : Nat) :
    appBootStatus nslots slotSize =
      (do let hs ← getOrderedHeaders nslots slotSize
          appAfter slotSize hs (appDecision slotSize hs)) := by
  unfold appBootStatus
  congr
  funext hs
  unfold appDecision
  cases getTwoNewest hs with
  | none => rfl
  | some t =>
    obtain ⟨older, newer⟩ := t
    simp only
    cases older.hdr with
    | none => rfl
    | some f =>
      cases newer.hdr with
      | none => rfl
      | some p =>
        simp only
        cases reasonablySized slotSize f.size f.n with
        | error e => rfl
        | ok u =>
          simp only
          cases appPair hs with
          | none => rfl
          | some q => obtain ⟨fo, f', po, p'⟩ := q; rfl

/-- **app_status_resumes** (`_partial`: decision level; missing hypothesis — after `writeExtAborted` / `eraseSlot`
    a slot's header no longer parses with `ext = inProgress`, which is the status-code part of C11 at flash level;
    suite D8 checks "no other slot in progress afterwards" on the real flash): on every consistent ring state the
    repaired `app_boot_status` resumes exactly the newest pair — physical slots `p+k-2` (firmware) and `p+k-1`
    (parity) — when the ring holds at least two slots, that pair is an in-progress firmware/parity pair of one
    fragment size and the firmware geometry fits the slot; in every other case it selects nothing, cancels
    (`cancel_covers`) and reports idle (`appBootStatus_eq`). -/
theorem app_status_resumes_partial (slotSize N p k s0 : Nat) (H : Nat → Header) (hN : 3 ≤ N) (hN6 : N ≤ 6) (hp : p < N)
    (hk : k ≤ N) :
    ∃ o, orderHeaders (ringIH N p k s0 H) = some o ∧
      appDecision slotSize o =
        if 2 ≤ k ∧ fits slotSize (hdrAt N p s0 H ((p + k - 2) % N)) = true ∧
            Resumable (hdrAt N p s0 H ((p + k - 2) % N)) (hdrAt N p s0 H ((p + k - 1) % N)) then
          some (ihAt N p k s0 H ((p + k - 2) % N), hdrAt N p s0 H ((p + k - 2) % N),
                ihAt N p k s0 H ((p + k - 1) % N), hdrAt N p s0 H ((p + k - 1) % N))
        else none := by
  obtain ⟨o, ho, hpair⟩ := app_pair_spec N p k s0 H hN hN6 hp hk
  refine ⟨o, ho, ?_⟩
  rcases Nat.eq_zero_or_pos k with rfl | hk1
  · rw [ordered_headers_blank N p s0 H hN hN6] at ho
    cases ho
    unfold appDecision
    rw [getTwoNewest_blank N p s0 H hN hN6]
    simp
  · rw [ordered_headers_spec N p k s0 H hN hN6 hp hk1 hk] at ho
    cases ho
    unfold appDecision
    rcases Nat.lt_or_ge k 2 with hlt | hge
    · have : k = 1 := by omega
      subst this
      rw [getTwoNewest_one N p s0 H hN hN6 hp]
      simp
    · rw [getTwoNewest_ring N p k s0 H hN hN6 hp hge hk]
      have hf : ((p + k - 2) % N + N - p) % N < k := by
        have hN' : N = 3 ∨ N = 4 ∨ N = 5 ∨ N = 6 := by omega
        rcases hN' with rfl | rfl | rfl | rfl <;> omega
      have hq : ((p + k - 1) % N + N - p) % N < k := by
        have hN' : N = 3 ∨ N = 4 ∨ N = 5 ∨ N = 6 := by omega
        rcases hN' with rfl | rfl | rfl | rfl <;> omega
      have e1 : (ihAt N p k s0 H ((p + k - 2) % N)).hdr = some (hdrAt N p s0 H ((p + k - 2) % N)) := by
        simp only [ihAt, hf, ↓reduceIte, hdrAt]
      have e2 : (ihAt N p k s0 H ((p + k - 1) % N)).hdr = some (hdrAt N p s0 H ((p + k - 1) % N)) := by
        simp only [ihAt, hq, ↓reduceIte, hdrAt]
      simp only [e1, e2, hpair, hge, true_and, fits]
      cases reasonablySized slotSize (hdrAt N p s0 H ((p + k - 2) % N)).size (hdrAt N p s0 H ((p + k - 2) % N)).n with
      | error e => simp
      | ok u => simp

/-- the decision of the PINNED `app_boot_status` (kept as documentation of the repaired defect): the error of
    `is_reasonably_sized(..)?` on the second-newest header was returned before anything was cancelled -/
def appDecisionPinned (slotSize : Nat) (hs : List IH) : Except MErr (Option (IH × Header × IH × Header)) :=
  match getTwoNewest hs with
  | none => .ok none
  | some (older, newer) =>
    match older.hdr, newer.hdr with
    | some f, some _ =>
      (match reasonablySized slotSize f.size f.n with | .error e => .error e | .ok () => .ok (appPair hs))
    | _, _ => .ok none

/-- the ring a power loss between the two header writes of a second `start(40, 12)` leaves on four 64 KiB slots:
    firmware (seq 0), parity (seq 1, 16384 fragments), firmware (seq 2), blank — all in progress -/
def crashRing : List IH :=
  let h (k : Kind) (seq n : Nat) : Header :=
    { kind := k, seq := seq, size := 40, n := n, ext := .inProgress, ist := .inProgress, boot := .untested }
  [{ idx := 0, hdr := some (h .firmware 0 10) }, { idx := 1, hdr := some (h .parity 1 16384) },
   { idx := 2, hdr := some (h .firmware 2 12) }, { idx := 3, hdr := none }]

/-- **witness of the repaired defect** (`app-status-err`): on `crashRing` the two newest slots are (parity with 16384
    fragments, firmware).  The pinned logic evaluated `is_reasonably_sized` on the parity header (40 · 16384 bytes do
    not fit) and returned `SegmentsTooLarge` on every boot; the repaired logic selects no pair, so that
    `app_boot_status` cancels every in-progress slot and reports idle. -/
theorem app_status_error_witness :
    (orderHeaders crashRing).map (appDecisionPinned 65536) = some (.error .segmentsTooLarge) ∧
    (orderHeaders crashRing).map (appDecision 65536) = some none ∧
    (orderHeaders crashRing).map cancelActs = some [0, 1, 2] := by
  refine ⟨rfl, rfl, rfl⟩

/-! ## `start` rejects what a header cannot represent (since the repair) -/

/-- **accept iff**: the repaired `is_reasonably_sized` accepts exactly the geometries a header can represent and
    whose image fits the data region (slot sizes below `2^32`) -/
theorem reasonable_iff (slot sz n : Nat) (hslot : slot < 2 ^ 32) :
    reasonablySized slot sz n = .ok () ↔
      (1 ≤ sz ∧ sz ≤ 256 ∧ 1 ≤ n ∧ n ≤ 16384 ∧ sz * n ≤ slot - 17408) := by
  unfold reasonablySized maxDataSize
  simp only [show Orig.MAX_SEGMENT_SIZE = 256 from rfl, show Orig.MAX_SEGMENTS = 16384 from rfl,
    show Orig.HEADER_SIZE = 1024 from rfl]
  by_cases h1 : sz = 0 ∨ sz > 256
  · simp only [h1, ↓reduceIte]
    constructor
    · intro h; cases h
    · intro h; omega
  · simp only [h1, ↓reduceIte]
    by_cases h2 : n = 0 ∨ n > 16384
    · simp only [h2, ↓reduceIte]
      constructor
      · intro h; cases h
      · intro h; omega
    · simp only [h2, ↓reduceIte]
      have hm : ¬ slot - 1024 - 16384 ≥ 2 ^ 32 := by omega
      have hprod : sz * n ≤ 256 * 16384 := Nat.mul_le_mul (by omega) (by omega)
      have hp : ¬ sz * n ≥ 2 ^ 32 := by omega
      simp only [hm, hp, ↓reduceIte]
      by_cases h3 : sz * n > slot - 1024 - 16384
      · simp only [h3, ↓reduceIte]
        constructor
        · intro h; cases h
        · intro h; omega
      · simp only [h3, ↓reduceIte]
        constructor
        · intro _; omega
        · intro _; trivial

/-- **start_rejects_unrepresentable**: fragment size 0 or > 256, fragment count 0 or > 16384 — `start` returns the
    size error and the device (flash, operation log, counters) is exactly as before, for every device state.  The
    situation of the former finding `start-unrepresentable-geometry` (firmware and parity in ONE slot) cannot arise. -/
theorem start_rejects_unrepresentable (nslots slot sz n : Nat) (d : Dev)
    (h : sz = 0 ∨ sz > 256 ∨ n = 0 ∨ n > 16384) :
    ∃ e, (e = MErr.segmentsTooLarge ∨ e = MErr.tooManySegments) ∧
      (Orig.start nslots slot sz n).run d = (.error e, d) := by
  have hr : ∃ e, (e = MErr.segmentsTooLarge ∨ e = MErr.tooManySegments) ∧ reasonablySized slot sz n = .error e := by
    unfold reasonablySized
    simp only [show Orig.MAX_SEGMENT_SIZE = 256 from rfl, show Orig.MAX_SEGMENTS = 16384 from rfl]
    by_cases h1 : sz = 0 ∨ sz > 256
    · exact ⟨_, Or.inl rfl, by simp only [h1, ↓reduceIte]⟩
    · have h2 : n = 0 ∨ n > 16384 := by omega
      exact ⟨_, Or.inr rfl, by simp only [h1, h2, ↓reduceIte]⟩
  obtain ⟨e, he, hr⟩ := hr
  refine ⟨e, he, ?_⟩
  unfold Orig.start
  simp only [hr]
  rfl

/-- every rejected `start` leaves the device untouched (whatever the reason) -/
theorem start_rejects_untouched (nslots slot sz n : Nat) (e : MErr) (d : Dev)
    (h : reasonablySized slot sz n = .error e) : (Orig.start nslots slot sz n).run d = (.error e, d) := by
  unfold Orig.start
  simp only [h]
  rfl

/-! ## fragment writes -/

/-- `[a, a+len)` lies inside slot `s` -/
def InSlot (slotSize s a len : Nat) : Prop := s * slotSize ≤ a ∧ a + len ≤ (s + 1) * slotSize

instance (slotSize s a len : Nat) : Decidable (InSlot slotSize s a len) := by unfold InSlot; infer_instance

/-- the slot a fragment index belongs to -/
def ownSlot (a : Act) (idx1 : Nat) : Nat := if idx1 ≤ a.totalFw then a.fwIdx else a.parIdx

/-- the plan of an accepted write, with the repaired range check, lies inside the slot the fragment belongs to -/
theorem plan_in_slot (cfg : Orig.Cfg) (hcfg : cfg.rangeCheckWithOffset = true) (a : Act) (idx1 len : Nat) (p : WPlan)
    (hslot : a.slotSize > Orig.HEADER_SIZE + Orig.MAX_SEGMENTS)
    (h : planWrite cfg a idx1 len = .ok p) :
    p.slotIdx = ownSlot a idx1 ∧ InSlot a.slotSize p.slotIdx p.dataStart len ∧
      InSlot a.slotSize p.slotIdx p.writtenAddr 1 := by
  have c1 : Orig.DATA_REGION_OFFSET = 17408 := rfl
  have c2 : Orig.WRITTEN_OFFSET = 1024 := rfl
  have c3 : Orig.WRITTEN_SIZE = 16384 := rfl
  have c4 : Orig.HEADER_SIZE = 1024 := rfl
  have c5 : Orig.MAX_SEGMENTS = 16384 := rfl
  rw [c4, c5] at hslot
  unfold planWrite at h
  simp only [hcfg, ↓reduceIte, c1, c2, c3] at h
  by_cases h0 : idx1 = 0
  · simp [h0] at h
  simp only [h0, ↓reduceIte] at h
  by_cases hl : a.segSize = len
  · subst hl
    by_cases hfw : idx1 ≤ a.totalFw
    · -- a data fragment: firmware slot
      simp only [hfw, decide_true, Bool.not_true, Bool.false_and, Bool.false_eq_true, ↓reduceIte, ne_eq,
        not_true_eq_false] at h
      by_cases hw : idx1 - 1 < 16384
      · by_cases hd : 17408 + (idx1 - 1 + 1) * a.segSize ≤ a.slotSize
        · simp only [hw, hd, decide_true, Bool.and_self, Bool.not_true, Bool.false_eq_true, ↓reduceIte,
            Except.ok.injEq] at h
          subst h
          have e1 : (idx1 - 1 + 1) * a.segSize = (idx1 - 1) * a.segSize + a.segSize := by
            rw [Nat.add_mul, Nat.one_mul]
          have e2 : (a.fwIdx + 1) * a.slotSize = a.fwIdx * a.slotSize + a.slotSize := by
            rw [Nat.add_mul, Nat.one_mul]
          refine ⟨by simp [ownSlot, hfw], ?_, ?_⟩ <;> unfold InSlot <;> simp only <;> constructor <;> omega
        · simp [hw, hd] at h
      · simp [hw] at h
    · -- a coded fragment: parity slot
      simp only [hfw, decide_false, Bool.not_false, Bool.true_and, ne_eq, not_true_eq_false, ↓reduceIte] at h
      by_cases hr : idx1 ≤ (a.totalFw + a.totalPar) % 2 ^ 32
      · simp only [hr, decide_true, Bool.not_true, Bool.false_eq_true, ↓reduceIte] at h
        by_cases hw : idx1 - 1 - a.totalFw < 16384
        · by_cases hd : 17408 + (idx1 - 1 - a.totalFw + 1) * a.segSize ≤ a.slotSize
          · simp only [hw, hd, decide_true, Bool.and_self, Bool.not_true, Bool.false_eq_true, ↓reduceIte,
              Except.ok.injEq] at h
            subst h
            have e1 : (idx1 - 1 - a.totalFw + 1) * a.segSize = (idx1 - 1 - a.totalFw) * a.segSize + a.segSize := by
              rw [Nat.add_mul, Nat.one_mul]
            have e2 : (a.parIdx + 1) * a.slotSize = a.parIdx * a.slotSize + a.slotSize := by
              rw [Nat.add_mul, Nat.one_mul]
            refine ⟨by simp [ownSlot, hfw], ?_, ?_⟩ <;> unfold InSlot <;> simp only <;> constructor <;> omega
          · simp [hw, hd] at h
        · simp [hw] at h
      · simp [hr] at h
  · by_cases hr : (!decide (idx1 ≤ a.totalFw) && !decide (idx1 ≤ (a.totalFw + a.totalPar) % 2 ^ 32)) = true
    · simp [hr] at h
    · simp [hr, hl] at h

/-- **write_in_slot**: with the repaired range check (`rangeCheckWithOffset = true`) every flash operation a
    fragment write (`write_segment`, data or parity, any index / fragment size / slot size, any device state, with or
    without an injected power loss) adds to the log is a program that lies inside the slot the fragment belongs to. -/
theorem write_in_slot (cfg : Orig.Cfg) (hcfg : cfg.rangeCheckWithOffset = true) (scratchLen idx1 : Nat)
    (bytes : List Nat) (a : Act) (d : Dev) (hslot : a.slotSize > Orig.HEADER_SIZE + Orig.MAX_SEGMENTS) :
    ∃ new, ((Orig.writeSegmentInternal cfg scratchLen idx1 bytes).run (a, d)).2.2.ops = new ++ d.ops ∧
      ∀ op ∈ new, ∃ addr bs', op = Op.program addr bs' ∧ InSlot a.slotSize (ownSlot a idx1) addr bs'.length := by
  obtain ⟨new, h1, h2⟩ := writeSegmentInternal_ops cfg scratchLen idx1 bytes a d
  refine ⟨new, h1, fun op hop => ?_⟩
  obtain ⟨p, hp, hor⟩ := h2 op hop
  obtain ⟨e, hd, hw⟩ := plan_in_slot cfg hcfg a idx1 bytes.length p hslot hp
  rw [← e]
  rcases hor with ⟨bs', rfl, hl⟩ | ⟨bs', rfl, hl⟩
  · exact ⟨_, bs', rfl, ⟨hd.1, by have := hd.2; omega⟩⟩
  · exact ⟨_, bs', rfl, ⟨hw.1, by have := hw.2; omega⟩⟩

/-- the session of the witness: `start(40, 10)` on blank 64 KiB slots (firmware slot 0, parity slot 1) -/
def witnessAct : Act :=
  { slotSize := 65536, segSize := 40, fwIdx := 0, totalFw := 10, remFw := 10,
    parIdx := 1, totalPar := 16384, remPar := 16384 }

/-- **write_beyond_slot_witness** (the PINNED range check, `rangeCheckWithOffset = false`; the repaired code and the
    driver default are `true`): `write_segment(10 + 1300, 40 bytes)`
    is accepted and its data program starts at byte 134904 — slot 2, offset 3832 — although the fragment belongs
    to the parity slot 1; with the offset in the check it is refused. -/
theorem write_beyond_slot_witness :
    (∃ p, planWrite { rangeCheckWithOffset := false } witnessAct 1310 40 = .ok p ∧ p.slotIdx = 1 ∧
      p.dataStart = 134904 ∧ p.dataStart / 65536 = 2) ∧
    planWrite { rangeCheckWithOffset := true } witnessAct 1310 40 = .error (.spi .oob) := by
  constructor
  · exact ⟨_, rfl, by decide, by decide, by decide⟩
  · rfl

/-! ## non-vacuity -/

/-- a full 4-slot ring whose numbering crosses the wrap-around: the oldest slot is at position 1 with number
    `2^32-3`; the numbers are `[0, 2^32-3, 2^32-2, ... ]`, `start` takes slots 1 and 2 with numbers 1 and 2 -/
example : ringSeqs 4 1 4 4294967293 = [some 1, some 4294967293, some 4294967294, some 0] := by decide
example : firstSlot 4 1 4 = 1 ∧ firstSeq 4 4294967293 = 2 ∧ nextSeq (firstSeq 4 4294967293) = 3 := by decide
example : nextSeq 4294967294 = 0 := by decide

/-- `InSlot` is satisfiable and the accepted range is not empty: parity fragment #1203 (the last one that fits) -/
example : ∃ p, planWrite { rangeCheckWithOffset := true } witnessAct 1213 40 = .ok p ∧
    InSlot 65536 1 p.dataStart 40 := ⟨_, rfl, by decide⟩

end Fuota.C20
