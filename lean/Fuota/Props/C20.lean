import Fuota.Lemmas.V1Ring
import Fuota.Lemmas.V1Write
/-!
# C20 — deprecated manager: ring placement is oldest-first and writes stay in-slot

Model: `Fuota.Orig` (`original-flash-algo/src/manager.rs`, `src/ring.rs`).  A consistent ring state is
`ringIH N p k s0 H`: `N` slots, a run of `k` consecutively numbered slots whose oldest sits at position `p` with
sequence number `s0 mod (2^32-1)`, the other slots blank; `H i` gives the remaining header fields of slot `i`.
All theorems quantify over `3 ≤ N ≤ 6`, every rotation `p < N`, every fill `k ≤ N`, EVERY start value `s0`
(hence also the ones adjacent to `2^32-1`) and every `H`.

* `next_seq_never_reserved`, `next_seq_valid`, `next_seq_injective`
* `ordered_headers_spec`, `no_assert`
* `start_places_partial` — both iterations of `start`: the two positions that follow the newest slot (slots 0 and 1 on a
  blank ring), numbered `next_seq`, `next_seq²`.
* `app_status_resumes_partial` — the pair `app_boot_status` resumes is the newest (firmware, parity) pair iff both are in
  progress, of the right kinds and of the same fragment size; `remediate_covers`, `cancel_covers`: every other slot
  that reads "in progress" is aborted or erased (resume case), every slot that reads "in progress" is aborted
  (idle case).
* `write_in_slot` — for the model with `rangeCheckWithOffset = true`, every operation an accepted fragment write
  issues is a program inside the slot the fragment belongs to; `write_beyond_slot_witness` — with the pinned range
  check, parity fragment #1300 (fragment size 40, 64 KiB slots, 10 data fragments) is accepted and programmed into
  the NEXT slot.

Not covered by a theorem (tied by suite D8 instead): that the erase + 28-byte header program of `start` turn the
slot's parsed header into the header written (codec round trip, C11), and the effect of the abort / erase
operations of `app_boot_status` on the parsed headers.  Finding (reported by D8, reproduced by
`app_status_error_witness`): when the second-newest slot is a parity slot `app_boot_status` returns an error
instead of cancelling.
-/
set_option linter.unusedSimpArgs false
namespace Fuota.C20
open Fuota.Orig Fuota.Layout Fuota.Fs Fuota.Nor Fuota.V1

/-- the constants this file computes with -/
theorem consts : Orig.DATA_REGION_OFFSET = 17408 ∧ Orig.WRITTEN_OFFSET = 1024 ∧ Orig.WRITTEN_SIZE = 16384 ∧
    Orig.MAX_SEGMENTS = 16384 ∧ Orig.HEADER_SIZE = 1024 := by decide

/-! ## sequence numbers -/

/-- `next_seq` never yields the reserved value — for every `u32` (indeed every) argument, so also across the
    `2^32` wrap-around -/
theorem next_seq_never_reserved (s : Nat) : nextSeq s ≠ 0xFFFFFFFF := nextSeq_ne_reserved s

/-- ... and always yields a valid sequence number -/
theorem next_seq_valid (s : Nat) : nextSeq s < 0xFFFFFFFF := nextSeq_lt s

/-- `next_seq` is injective on valid sequence numbers (so consecutive slots never collide) -/
theorem next_seq_injective (a b : Nat) (ha : a < 0xFFFFFFFF) (hb : b < 0xFFFFFFFF) (h : nextSeq a = nextSeq b) :
    a = b := nextSeq_injective a b ha hb h

/-- the closed form used throughout: on valid numbers `next_seq` is `+1` modulo `2^32-1` -/
theorem next_seq_closed_form (x : Nat) : nextSeq (x % 4294967295) = (x + 1) % 4294967295 := nextSeq_mod x

/-! ## ordering -/

/-- **ordered_headers_spec**: on a consistent, non-blank ring `get_ordered_headers` rotates the header array to the
    position after the newest slot. -/
theorem ordered_headers_spec (N p k s0 : Nat) (H : Nat → Header) (hN : 3 ≤ N) (hN6 : N ≤ 6) (hp : p < N)
    (hk1 : 1 ≤ k) (hk : k ≤ N) :
    orderHeaders (ringIH N p k s0 H) = some (rotateLeft (ringIH N p k s0 H) ((p + k) % N)) := by
  unfold orderHeaders findOldest
  rw [ringIH_seqs, findOldestSeq_ring N p k s0 hN hN6 hp hk1 hk]

/-- on a blank ring the headers stay as they are -/
theorem ordered_headers_blank (N p s0 : Nat) (H : Nat → Header) (hN : 3 ≤ N) (hN6 : N ≤ 6) :
    orderHeaders (ringIH N p 0 s0 H) = some (ringIH N p 0 s0 H) := by
  unfold orderHeaders findOldest
  rw [ringIH_seqs, findOldestSeq_blank N p s0 hN hN6]
  simp [ringIH_blank_all_none]

/-- **no_assert**: `assert!(all_none)` is unreachable on consistent ring states. -/
theorem no_assert (N p k s0 : Nat) (H : Nat → Header) (hN : 3 ≤ N) (hN6 : N ≤ 6) (hp : p < N) (hk : k ≤ N) :
    orderHeaders (ringIH N p k s0 H) ≠ none := by
  rcases Nat.eq_zero_or_pos k with rfl | hk1
  · rw [ordered_headers_blank N p s0 H hN hN6]; simp
  · rw [ordered_headers_spec N p k s0 H hN hN6 hp hk1 hk]; simp

/-! ## placement -/

/-- the slot and sequence number the first iteration of `start` must take -/
def firstSlot (N p k : Nat) : Nat := if k = 0 then 0 else (p + k) % N
def firstSeq (k s0 : Nat) : Nat := if k = 0 then 0 else (s0 + k) % 4294967295

/-- one iteration of `start` on a consistent ring -/
theorem plan_first (N p k s0 : Nat) (H : Nat → Header) (hN : 3 ≤ N) (hN6 : N ≤ 6) (hp : p < N) (hk : k ≤ N) :
    (orderHeaders (ringIH N p k s0 H)).bind planOne = some (firstSlot N p k, firstSeq k s0) := by
  rcases Nat.eq_zero_or_pos k with rfl | hk1
  · rw [ordered_headers_blank N p s0 H hN hN6]
    simp [firstSlot, firstSeq, planOne_blank N p s0 H hN hN6]
  · rw [ordered_headers_spec N p k s0 H hN hN6 hp hk1 hk]
    have : k ≠ 0 := by omega
    simp [firstSlot, firstSeq, this, planOne_ring N p k s0 H hN hN6 hp hk1 hk]

/-- **start_places** (`_partial`: decision level; missing hypothesis — the erase + 28-byte header program of
    `startOne` change what `readHeadersFrom` returns from `hs` to `putHeader hs slot hdr`, i.e. the codec round trip of
    C11 on an erased slot; suite D8 checks it on every run): `start` takes the two ring positions that follow the newest slot — blank positions if there
    are any, otherwise the oldest images; slots 0 and 1 on a blank ring — and numbers them `next_seq(newest)`,
    `next_seq²(newest)` (0 and 1 on a blank ring), never the reserved value.  `h1` is any header carrying the first
    number (the firmware header `start` writes); the second iteration runs on the ring with that header in place. -/
theorem start_places_partial (N p k s0 : Nat) (H : Nat → Header) (h1 : Header) (hN : 3 ≤ N) (hN6 : N ≤ 6) (hp : p < N)
    (hk : k ≤ N) (hseq : h1.seq = firstSeq k s0) :
    (orderHeaders (ringIH N p k s0 H)).bind planOne = some (firstSlot N p k, firstSeq k s0) ∧
    (orderHeaders (putHeader (ringIH N p k s0 H) (firstSlot N p k) h1)).bind planOne =
      some ((firstSlot N p k + 1) % N, nextSeq (firstSeq k s0)) ∧
    firstSeq k s0 ≠ 0xFFFFFFFF ∧ nextSeq (firstSeq k s0) ≠ 0xFFFFFFFF := by
  refine ⟨plan_first N p k s0 H hN hN6 hp hk, ?_, ?_, nextSeq_ne_reserved _⟩
  · rcases Nat.eq_zero_or_pos k with rfl | hk1
    · -- blank ring: slot 0 / number 0, then slot 1 / number 1
      have e : firstSlot N p 0 = 0 := rfl
      have e' : firstSeq 0 s0 = 0 := rfl
      rw [e'] at hseq
      rw [e, e']
      rw [putHeader_blank N p s0 H h1 hN hN6 hseq]
      rw [plan_first N 0 1 0 _ hN hN6 (by omega) (by omega)]
      have hN' : N = 3 ∨ N = 4 ∨ N = 5 ∨ N = 6 := by omega
      rcases hN' with rfl | rfl | rfl | rfl <;> simp [firstSlot, firstSeq, nextSeq]
    · have hk0 : k ≠ 0 := by omega
      have e : firstSlot N p k = (p + k) % N := by simp [firstSlot, hk0]
      have e' : firstSeq k s0 = (s0 + k) % 4294967295 := by simp [firstSeq, hk0]
      rw [e'] at hseq
      rw [e, e']
      rw [nextSeq_mod]
      rcases Nat.lt_or_ge k N with hlt | hge
      · rw [putHeader_grow N p k s0 H h1 hN hN6 hp hk1 hlt hseq]
        rw [plan_first N p (k + 1) s0 _ hN hN6 hp (by omega)]
        have hN' : N = 3 ∨ N = 4 ∨ N = 5 ∨ N = 6 := by omega
        simp only [firstSlot, firstSeq, Nat.add_one_ne_zero, ↓reduceIte, Option.some.injEq, Prod.mk.injEq]
        rcases hN' with rfl | rfl | rfl | rfl <;> constructor <;> omega
      · have hkN : k = N := by omega
        subst hkN
        have hpk : (p + k) % k = p := by
          rw [Nat.add_mod_right]; exact Nat.mod_eq_of_lt hp
        rw [hpk]
        rw [putHeader_full k p s0 H h1 hN hN6 hp hseq]
        rw [plan_first k ((p + 1) % k) k (s0 + 1) _ hN hN6 (Nat.mod_lt _ (by omega)) (Nat.le_refl _)]
        have hk0' : k ≠ 0 := by omega
        simp only [firstSlot, firstSeq, hk0', ↓reduceIte, Option.some.injEq, Prod.mk.injEq]
        have hN' : k = 3 ∨ k = 4 ∨ k = 5 ∨ k = 6 := by omega
        rcases hN' with rfl | rfl | rfl | rfl <;> constructor <;> omega
  · unfold firstSeq
    split
    · decide
    · omega

/-! ## application status -/

/-- the condition under which `app_boot_status` resumes the two newest slots -/
def Resumable (f p : Header) : Prop :=
  totalStatus f = .appWriteInProgress ∧ f.kind = Kind.firmware ∧
  totalStatus p = .appWriteInProgress ∧ p.kind = Kind.parity ∧ f.size = p.size

instance (f p : Header) : Decidable (Resumable f p) := by unfold Resumable; infer_instance

/-- the header slot `i` of a consistent ring carries -/
def hdrAt (N p s0 : Nat) (H : Nat → Header) (i : Nat) : Header :=
  { H i with seq := (s0 + (i + N - p) % N) % 4294967295 }

/-- **app_status_resumes** (`_partial`: decision level; missing hypothesis — after `writeExtAborted` / `eraseSlot`
    a slot's header no longer parses with `ext = inProgress`, which is the status-code part of C11 at flash level;
    suite D8 checks "no other slot in progress afterwards" on the real flash): on every consistent ring state `app_boot_status` selects exactly the newest
    pair — physical slots `p+k-2` (firmware) and `p+k-1` (parity) — when the ring holds at least two slots and that
    pair is an in-progress firmware/parity pair of one fragment size; in every other case it selects nothing
    (and reports idle after cancelling, see `cancel_covers`). -/
theorem app_status_resumes_partial (N p k s0 : Nat) (H : Nat → Header) (hN : 3 ≤ N) (hN6 : N ≤ 6) (hp : p < N) (hk : k ≤ N) :
    ∃ o, orderHeaders (ringIH N p k s0 H) = some o ∧
      appPair o =
        if 2 ≤ k ∧ Resumable (hdrAt N p s0 H ((p + k - 2) % N)) (hdrAt N p s0 H ((p + k - 1) % N)) then
          some (ihAt N p k s0 H ((p + k - 2) % N), hdrAt N p s0 H ((p + k - 2) % N),
                ihAt N p k s0 H ((p + k - 1) % N), hdrAt N p s0 H ((p + k - 1) % N))
        else none := by
  rcases Nat.eq_zero_or_pos k with rfl | hk1
  · refine ⟨_, ordered_headers_blank N p s0 H hN hN6, ?_⟩
    unfold appPair
    rw [getTwoNewest_blank N p s0 H hN hN6]
    simp
  · refine ⟨_, ordered_headers_spec N p k s0 H hN hN6 hp hk1 hk, ?_⟩
    unfold appPair
    rcases Nat.lt_or_ge k 2 with hlt | hge
    · have : k = 1 := by omega
      subst this
      rw [getTwoNewest_one N p s0 H hN hN6 hp]
      simp
    · rw [getTwoNewest_ring N p k s0 H hN hN6 hp hge hk]
      -- both slots of the pair lie inside the run
      have hf : ((p + k - 2) % N + N - p) % N < k := by
        have hN' : N = 3 ∨ N = 4 ∨ N = 5 ∨ N = 6 := by omega
        rcases hN' with rfl | rfl | rfl | rfl <;> omega
      have hq : ((p + k - 1) % N + N - p) % N < k := by
        have hN' : N = 3 ∨ N = 4 ∨ N = 5 ∨ N = 6 := by omega
        rcases hN' with rfl | rfl | rfl | rfl <;> omega
      simp only [ihAt, hf, hq, ↓reduceIte, hge, true_and, hdrAt, Resumable]

/-- a parsed header never carries the reserved sequence number, so "external write in progress" means one of two
    total statuses -/
theorem inProgress_status (h : Header) (hext : h.ext = Ext.inProgress) (hseq : h.seq ≠ 0xFFFFFFFF) :
    totalStatus h = .appWriteInProgress ∨ totalStatus h = .invalidNeedsErase := by
  unfold totalStatus
  have : (h.seq != 0xFFFFFFFF) = true := by simpa using hseq
  rw [this, hext]
  cases h.ist <;> cases h.boot <;> simp

/-- **leaving no other slot in progress (resume case)**: every slot other than the resumed pair whose header reads
    "external write in progress" is aborted or erased by the remediation loop. -/
theorem remediate_covers (fIdx pIdx : Nat) (hs : List IH) (ih : IH) (h : Header) (hmem : ih ∈ hs)
    (hh : ih.hdr = some h) (hext : h.ext = Ext.inProgress) (hseq : h.seq ≠ 0xFFFFFFFF)
    (hne : ih.idx ≠ fIdx ∧ ih.idx ≠ pIdx) :
    (ih.idx, Rem.abort) ∈ remediateActs fIdx pIdx hs ∨ (ih.idx, Rem.erase) ∈ remediateActs fIdx pIdx hs := by
  unfold remediateActs
  simp only [List.mem_filterMap]
  have hcond : ¬ (ih.idx = fIdx ∨ ih.idx = pIdx) := by
    intro hc; rcases hc with hc | hc
    · exact hne.1 hc
    · exact hne.2 hc
  rcases inProgress_status h hext hseq with hs1 | hs1
  · left
    exact ⟨ih, hmem, by simp [hcond, hh, hs1]⟩
  · right
    exact ⟨ih, hmem, by simp [hcond, hh, hs1]⟩

/-- **leaving no slot in progress (idle case)**: `cancel_all_ext_pending` aborts every slot whose header reads
    "external write in progress". -/
theorem cancel_covers (hs : List IH) (ih : IH) (h : Header) (hmem : ih ∈ hs) (hh : ih.hdr = some h)
    (hext : h.ext = Ext.inProgress) : ih.idx ∈ cancelActs hs := by
  unfold cancelActs
  simp only [List.mem_filterMap]
  exact ⟨ih, hmem, by simp [hh, hext]⟩

/-- the remediation loop never touches the resumed pair -/
theorem remediate_spares_pair (fIdx pIdx : Nat) (hs : List IH) (i : Nat) (r : Rem)
    (h : (i, r) ∈ remediateActs fIdx pIdx hs) : i ≠ fIdx ∧ i ≠ pIdx := by
  unfold remediateActs at h
  simp only [List.mem_filterMap] at h
  obtain ⟨ih, _, hv⟩ := h
  by_cases hc : ih.idx = fIdx ∨ ih.idx = pIdx
  · simp [hc] at hv
  · simp only [hc, ↓reduceIte] at hv
    cases hh : ih.hdr with
    | none => simp [hh] at hv
    | some hd =>
      simp only [hh] at hv
      have : i = ih.idx := by
        split at hv <;> simp at hv <;> exact hv.1.symm
      subst this
      exact ⟨fun e => hc (Or.inl e), fun e => hc (Or.inr e)⟩

/-- finding (witness): two newest slots = (parity with 16384 fragments, firmware), both in progress — the state a
    power loss between the two header writes of `start` leaves.  `is_reasonably_sized` is evaluated on the PARITY
    header (40 * 16384 bytes do not fit a 64 KiB slot), so `app_boot_status` returns `SegmentsTooLarge` before it
    cancels anything. -/
theorem app_status_error_witness :
    reasonablySized 65536 40 16384 = .error .segmentsTooLarge ∧ reasonablySized 65536 40 10 = .ok () :=
  ⟨rfl, rfl⟩

/-! ## fragment writes -/

/-- `[a, a+len)` lies inside slot `s` -/
def InSlot (slotSize s a len : Nat) : Prop := s * slotSize ≤ a ∧ a + len ≤ (s + 1) * slotSize

instance (slotSize s a len : Nat) : Decidable (InSlot slotSize s a len) := by unfold InSlot; infer_instance

/-- the slot a fragment index belongs to -/
def ownSlot (a : Act) (idx1 : Nat) : Nat := if idx1 ≤ a.totalFw then a.fwIdx else a.parIdx

/-- the plan of an accepted write, with the repaired range check, lies inside the slot the fragment belongs to -/
theorem plan_in_slot (cfg : Orig.Cfg) (hcfg : cfg.rangeCheckWithOffset = true) (a : Act) (idx1 len : Nat) (p : WPlan)
    (hslot : a.slotSize > Orig.HEADER_SIZE + Orig.MAX_SEGMENTS)
    (h : planWrite cfg a idx1 len = .ok p) :
    p.slotIdx = ownSlot a idx1 ∧ InSlot a.slotSize p.slotIdx p.dataStart len ∧
      InSlot a.slotSize p.slotIdx p.writtenAddr 1 := by
  have c1 : Orig.DATA_REGION_OFFSET = 17408 := rfl
  have c2 : Orig.WRITTEN_OFFSET = 1024 := rfl
  have c3 : Orig.WRITTEN_SIZE = 16384 := rfl
  have c4 : Orig.HEADER_SIZE = 1024 := rfl
  have c5 : Orig.MAX_SEGMENTS = 16384 := rfl
  rw [c4, c5] at hslot
  unfold planWrite at h
  simp only [hcfg, ↓reduceIte, c1, c2, c3] at h
  by_cases h0 : idx1 = 0
  · simp [h0] at h
  simp only [h0, ↓reduceIte] at h
  by_cases hl : a.segSize = len
  · subst hl
    by_cases hfw : idx1 ≤ a.totalFw
    · -- a data fragment: firmware slot
      simp only [hfw, decide_true, Bool.not_true, Bool.false_and, Bool.false_eq_true, ↓reduceIte, ne_eq,
        not_true_eq_false] at h
      by_cases hw : idx1 - 1 < 16384
      · by_cases hd : 17408 + (idx1 - 1 + 1) * a.segSize ≤ a.slotSize
        · simp only [hw, hd, decide_true, Bool.and_self, Bool.not_true, Bool.false_eq_true, ↓reduceIte,
            Except.ok.injEq] at h
          subst h
          have e1 : (idx1 - 1 + 1) * a.segSize = (idx1 - 1) * a.segSize + a.segSize := by
            rw [Nat.add_mul, Nat.one_mul]
          have e2 : (a.fwIdx + 1) * a.slotSize = a.fwIdx * a.slotSize + a.slotSize := by
            rw [Nat.add_mul, Nat.one_mul]
          refine ⟨by simp [ownSlot, hfw], ?_, ?_⟩ <;> unfold InSlot <;> simp only <;> constructor <;> omega
        · simp [hw, hd] at h
      · simp [hw] at h
    · -- a coded fragment: parity slot
      simp only [hfw, decide_false, Bool.not_false, Bool.true_and, ne_eq, not_true_eq_false, ↓reduceIte] at h
      by_cases hr : idx1 ≤ (a.totalFw + a.totalPar) % 2 ^ 32
      · simp only [hr, decide_true, Bool.not_true, Bool.false_eq_true, ↓reduceIte] at h
        by_cases hw : idx1 - 1 - a.totalFw < 16384
        · by_cases hd : 17408 + (idx1 - 1 - a.totalFw + 1) * a.segSize ≤ a.slotSize
          · simp only [hw, hd, decide_true, Bool.and_self, Bool.not_true, Bool.false_eq_true, ↓reduceIte,
              Except.ok.injEq] at h
            subst h
            have e1 : (idx1 - 1 - a.totalFw + 1) * a.segSize = (idx1 - 1 - a.totalFw) * a.segSize + a.segSize := by
              rw [Nat.add_mul, Nat.one_mul]
            have e2 : (a.parIdx + 1) * a.slotSize = a.parIdx * a.slotSize + a.slotSize := by
              rw [Nat.add_mul, Nat.one_mul]
            refine ⟨by simp [ownSlot, hfw], ?_, ?_⟩ <;> unfold InSlot <;> simp only <;> constructor <;> omega
          · simp [hw, hd] at h
        · simp [hw] at h
      · simp [hr] at h
  · by_cases hr : (!decide (idx1 ≤ a.totalFw) && !decide (idx1 ≤ (a.totalFw + a.totalPar) % 2 ^ 32)) = true
    · simp [hr] at h
    · simp [hr, hl] at h

/-- **write_in_slot**: with the repaired range check (`rangeCheckWithOffset = true`) every flash operation a
    fragment write (`write_segment`, data or parity, any index / fragment size / slot size, any device state, with or
    without an injected power loss) adds to the log is a program that lies inside the slot the fragment belongs to. -/
theorem write_in_slot (cfg : Orig.Cfg) (hcfg : cfg.rangeCheckWithOffset = true) (scratchLen idx1 : Nat)
    (bytes : List Nat) (a : Act) (d : Dev) (hslot : a.slotSize > Orig.HEADER_SIZE + Orig.MAX_SEGMENTS) :
    ∃ new, ((Orig.writeSegmentInternal cfg scratchLen idx1 bytes).run (a, d)).2.2.ops = new ++ d.ops ∧
      ∀ op ∈ new, ∃ addr bs', op = Op.program addr bs' ∧ InSlot a.slotSize (ownSlot a idx1) addr bs'.length := by
  obtain ⟨new, h1, h2⟩ := writeSegmentInternal_ops cfg scratchLen idx1 bytes a d
  refine ⟨new, h1, fun op hop => ?_⟩
  obtain ⟨p, hp, hor⟩ := h2 op hop
  obtain ⟨e, hd, hw⟩ := plan_in_slot cfg hcfg a idx1 bytes.length p hslot hp
  rw [← e]
  rcases hor with ⟨bs', rfl, hl⟩ | ⟨bs', rfl, hl⟩
  · exact ⟨_, bs', rfl, ⟨hd.1, by have := hd.2; omega⟩⟩
  · exact ⟨_, bs', rfl, ⟨hw.1, by have := hw.2; omega⟩⟩

/-- the session of the witness: `start(40, 10)` on blank 64 KiB slots (firmware slot 0, parity slot 1) -/
def witnessAct : Act :=
  { slotSize := 65536, segSize := 40, fwIdx := 0, totalFw := 10, remFw := 10,
    parIdx := 1, totalPar := 16384, remPar := 16384 }

/-- **write_beyond_slot_witness** (pinned model, `rangeCheckWithOffset = false`): `write_segment(10 + 1300, 40 bytes)`
    is accepted and its data program starts at byte 134904 — slot 2, offset 3832 — although the fragment belongs
    to the parity slot 1; with the offset in the check it is refused. -/
theorem write_beyond_slot_witness :
    (∃ p, planWrite { rangeCheckWithOffset := false } witnessAct 1310 40 = .ok p ∧ p.slotIdx = 1 ∧
      p.dataStart = 134904 ∧ p.dataStart / 65536 = 2) ∧
    planWrite { rangeCheckWithOffset := true } witnessAct 1310 40 = .error (.spi .oob) := by
  constructor
  · exact ⟨_, rfl, by decide, by decide, by decide⟩
  · rfl

/-! ## non-vacuity -/

/-- a full 4-slot ring whose numbering crosses the wrap-around: the oldest slot is at position 1 with number
    `2^32-3`; the numbers are `[0, 2^32-3, 2^32-2, ... ]`, `start` takes slots 1 and 2 with numbers 1 and 2 -/
example : ringSeqs 4 1 4 4294967293 = [some 1, some 4294967293, some 4294967294, some 0] := by decide
example : firstSlot 4 1 4 = 1 ∧ firstSeq 4 4294967293 = 2 ∧ nextSeq (firstSeq 4 4294967293) = 3 := by decide
example : nextSeq 4294967294 = 0 := by decide

/-- `InSlot` is satisfiable and the accepted range is not empty: parity fragment #1203 (the last one that fits) -/
example : ∃ p, planWrite { rangeCheckWithOffset := true } witnessAct 1213 40 = .ok p ∧
    InSlot 65536 1 p.dataStart 40 := ⟨_, rfl, by decide⟩

end Fuota.C20
