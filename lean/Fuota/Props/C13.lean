import Fuota.Lemmas.RingPairStart
import Fuota.Props.C05
/-!
# C13 — recovery and cancel leave at most the resumable session pending

Post-conditions of `try_recover` / `cancel_all_ext_pending` on header arrangements, for every slot count and every
arrangement. `recover`, `recoverEffs`, `cancel`, `cancelEffs` (`Model/Slots`) are the header-level effects of the two
calls, built from the model's `twoNewest`, `totalStatus`, `reasonablySized`; the remediation is the two-pass one
(all aborts, then all erases). "Reads in progress" = the ext status word of a parsed header is `InProgress`.
-/
namespace Fuota.C13
open Fuota.Layout Fuota.Fs Fuota.Updater Fuota.Slots Fuota.Ring

/-- slot `i` holds a parsed header whose ext status reads in progress -/
def ReadsInProgress (hs : Hdrs) (i : Nat) : Prop := ∃ h, Used hs i h ∧ h.ext = Ext.inProgress

/-- no header carries the reserved sequence number (true of everything `parseHeader` returns: `parseSeq`) -/
def SeqValid (hs : Hdrs) : Prop := ∀ i h, Used hs i h → h.seq ≠ 0xFFFFFFFF

theorem cancel_used {hs : Hdrs} {i : Nat} {h : Header} (hu : Used (cancel hs) i h) :
    ∃ h0, Used hs i h0 ∧ h = abortH h0 := by
  have hg := cancel_get hs i
  rw [show (cancel hs)[i]? = some (some h) from hu] at hg
  cases h0 : hs[i]? with
  | none => rw [h0] at hg; cases hg
  | some o =>
    cases o with
    | none => rw [h0] at hg; simp at hg
    | some h0' =>
      rw [h0] at hg
      simp only [Option.map_some, Option.some.injEq] at hg
      exact ⟨h0', h0, hg⟩

/-- **after cancel-all no slot reads in progress** -/
theorem cancel_no_pending (hs : Hdrs) (i : Nat) : ¬ ReadsInProgress (cancel hs) i := by
  rintro ⟨h, hu, he⟩
  obtain ⟨h0, _, rfl⟩ := cancel_used hu
  exact abortH_ext h0 he

theorem recover_none_eq {g : Geom} {hs : Hdrs} (h : (recover g hs).1 = none) :
    recoverDecision g hs = none ∧ (recover g hs).2 = cancel hs := by
  unfold recover recoverEffs at h ⊢
  cases hd : recoverDecision g hs with
  | none => exact ⟨rfl, rfl⟩
  | some d => rw [hd] at h; simp at h

theorem recover_some_eq {g : Geom} {hs : Hdrs} {f p : Nat} (h : (recover g hs).1 = some (f, p)) :
    ∃ nw sn, recoverDecision g hs = some (nw, sn) ∧ f = sn.1 ∧ p = nw.1 ∧
      (recoverEffs g hs).2 = remediateEffs nw.1 sn.1 (indexed hs) ∧
      (recover g hs).2 = applyAll hs (remediateEffs nw.1 sn.1 (indexed hs)) := by
  unfold recover recoverEffs at h ⊢
  cases hd : recoverDecision g hs with
  | none => rw [hd] at h; simp at h
  | some d =>
    obtain ⟨nw, sn⟩ := d
    rw [hd] at h
    simp only [Option.some.injEq, Prod.mk.injEq] at h
    exact ⟨nw, sn, rfl, h.1.symm, h.2.symm, rfl, rfl⟩

/-- **after recovery returned none no slot reads in progress** -/
theorem recover_none_no_pending (g : Geom) (hs : Hdrs) (h : (recover g hs).1 = none) (i : Nat) :
    ¬ ReadsInProgress (recover g hs).2 i := by
  rw [(recover_none_eq h).2]
  exact cancel_no_pending hs i

theorem remediate_used {a b : Nat} {hs : Hdrs} {i : Nat} {h : Header}
    (hu : Used (applyAll hs (remediateEffs a b (indexed hs))) i h) :
    ∃ h0, Used hs i h0 ∧ remH a b i h0 = some h := by
  have hg := remediate_get a b hs i
  rw [show (applyAll hs (remediateEffs a b (indexed hs)))[i]? = some (some h) from hu] at hg
  cases h0 : hs[i]? with
  | none => rw [h0] at hg; cases hg
  | some o =>
    cases o with
    | none => rw [h0] at hg; simp at hg
    | some h0' =>
      rw [h0] at hg
      simp only [Option.map_some, Option.bind_some, Option.some.injEq] at hg
      exact ⟨h0', h0, hg.symm⟩

/-- **after recovery returned a session, its two slots are the only ones that read in progress**; the two slots
    are untouched, different, and read as a firmware / a parity header with a write in progress. -/
theorem recover_some_only_pair (g : Geom) (hs : Hdrs) (hv : SeqValid hs) (f p : Nat)
    (h : (recover g hs).1 = some (f, p)) :
    (∀ i, ReadsInProgress (recover g hs).2 i → i = f ∨ i = p) ∧
    f ≠ p ∧ (recover g hs).2[f]? = hs[f]? ∧ (recover g hs).2[p]? = hs[p]? ∧
    ∃ hf hp, Used hs f hf ∧ Used hs p hp ∧
      hf.kind = Kind.firmware ∧ totalStatus hf = TotalStatus.appWriteInProgress ∧
      hp.kind = Kind.parity ∧ totalStatus hp = TotalStatus.appWriteInProgress := by
  obtain ⟨nw, sn, hd, rfl, rfl, -, hr⟩ := recover_some_eq h
  obtain ⟨htn, hst1, hk1, hst2, hk2⟩ := recoverDecision_some hd
  obtain ⟨hu1, hu2, hne⟩ := twoNewest_mem htn
  rw [hr]
  refine ⟨?_, hne, ?_, ?_, sn.2, nw.2, hu2, hu1, hk2, hst2, hk1, hst1⟩
  · rintro i ⟨hh, hu, he⟩
    obtain ⟨h0, hu0, hrem⟩ := remediate_used hu
    unfold remH at hrem
    by_cases hab : i = nw.1 ∨ i = sn.1
    · exact hab.symm
    · exfalso
      simp only [hab, ↓reduceIte] at hrem
      by_cases h1 : totalStatus h0 = TotalStatus.appWriteInProgress
      · simp only [h1, ↓reduceIte, Option.some.injEq] at hrem
        subst hrem
        simp at he
      · simp only [h1, ↓reduceIte] at hrem
        by_cases h2 : totalStatus h0 = TotalStatus.bootloadWriteInProgress ∨ totalStatus h0 = TotalStatus.invalidNeedsErase
        · simp [h2] at hrem
        · simp only [h2, ↓reduceIte, Option.some.injEq] at hrem
          subst hrem
          rcases ext_inProgress_status (hv i h0 hu0) he with h3 | h3
          · exact h1 h3
          · exact h2 (Or.inr h3)
  · rw [remediate_get]
    rw [show hs[sn.1]? = some (some sn.2) from hu2]
    simp [remH]
  · rw [remediate_get]
    rw [show hs[nw.1]? = some (some nw.2) from hu1]
    simp [remH]

/-! ## protected images -/

theorem cancelEffs_spare {hs : Hdrs} {i : Nat} {h : Header} (hu : Used hs i h) (hp : Protected h) :
    ∀ e ∈ cancelEffs hs, e.1 ≠ i := by
  intro e he hei
  unfold cancelEffs at he
  rw [cancelEffsOf_eq] at he
  obtain ⟨h', hm, hφ⟩ := mem_effsOf.mp he
  rw [hei] at hm
  have hu' : hs[i]? = some (some h') := mem_indexed.mp hm
  rw [show hs[i]? = some (some h) from hu] at hu'
  simp only [Option.some.injEq] at hu'
  subst hu'
  unfold cancelPhi at hφ
  simp [protected_ext hp] at hφ

theorem remediateEffs_spare {a b : Nat} {hs : Hdrs} {i : Nat} {h : Header} (hu : Used hs i h) (hp : Protected h) :
    ∀ e ∈ remediateEffs a b (indexed hs), e.1 ≠ i := by
  intro e he hei
  unfold remediateEffs at he
  rw [remediateAbortEffs_eq, remediateEraseEffs_eq] at he
  have key : ∀ h', (i, h') ∈ indexed hs → h' = h := by
    intro h' hm
    have hu' : hs[i]? = some (some h') := mem_indexed.mp hm
    rw [show hs[i]? = some (some h) from hu] at hu'
    simp only [Option.some.injEq] at hu'
    exact hu'.symm
  rcases List.mem_append.mp he with he | he
  · obtain ⟨h', hm, hφ⟩ := mem_effsOf.mp he
    rw [hei] at hm hφ
    rw [key h' hm] at hφ
    unfold abortPhi at hφ
    unfold Protected at hp
    split at hφ
    · cases hφ
    · split at hφ
      · rename_i hst; simp only at hst; rw [hst] at hp; simp at hp
      · cases hφ
  · obtain ⟨h', hm, hφ⟩ := mem_effsOf.mp he
    rw [hei] at hm hφ
    rw [key h' hm] at hφ
    unfold erasePhi at hφ
    unfold Protected at hp
    split at hφ
    · cases hφ
    · split at hφ
      · rename_i hst; simp only at hst
        rcases hst with hst | hst <;> rw [hst] at hp <;> simp at hp
      · cases hφ

/-- **recovery never modifies a slot holding a confirmed, rejected or acknowledgement-pending image**: no
    operation of the call addresses such a slot, so it reads the same after every crash prefix `k` of the call
    (the complete call included). -/
theorem recover_preserves_images (g : Geom) (hs : Hdrs) (i : Nat) (h : Header) (hu : Used hs i h)
    (hp : Protected h) :
    (∀ e ∈ (recoverEffs g hs).2, e.1 ≠ i) ∧
    (∀ k, (applyAll hs ((recoverEffs g hs).2.take k))[i]? = hs[i]?) ∧
    (recover g hs).2[i]? = hs[i]? := by
  have h1 : ∀ e ∈ (recoverEffs g hs).2, e.1 ≠ i := by
    unfold recoverEffs
    cases hd : recoverDecision g hs with
    | none => exact cancelEffs_spare hu hp
    | some d => exact remediateEffs_spare hu hp
  refine ⟨h1, ?_, ?_⟩
  · intro k
    exact applyAll_get_of_not_mem _ _ _ (fun e he => h1 e (List.mem_of_mem_take he))
  · exact applyAll_get_of_not_mem _ _ _ h1

/-- **cancel-all never modifies such a slot either** -/
theorem cancel_preserves_images (hs : Hdrs) (i : Nat) (h : Header) (hu : Used hs i h) (hp : Protected h) :
    (∀ e ∈ cancelEffs hs, e.1 ≠ i) ∧
    (∀ k, (applyAll hs ((cancelEffs hs).take k))[i]? = hs[i]?) ∧ (cancel hs)[i]? = hs[i]? := by
  have h1 := cancelEffs_spare hu hp
  refine ⟨h1, ?_, ?_⟩
  · intro k
    exact applyAll_get_of_not_mem _ _ _ (fun e he => h1 e (List.mem_of_mem_take he))
  · exact applyAll_get_of_not_mem _ _ _ h1

/-! ## idempotence -/

/-- a second cancel-all has nothing to do -/
theorem cancel_idempotent (hs : Hdrs) : cancelEffs (cancel hs) = [] ∧ cancel (cancel hs) = cancel hs := by
  have h1 : cancelEffs (cancel hs) = [] := by
    unfold cancelEffs
    rw [cancelEffsOf_eq]
    apply effsOf_eq_nil
    intro p hp
    unfold cancelPhi
    have hu := mem_indexed.mp hp
    have := cancel_no_pending hs p.1
    have hne : p.2.ext ≠ Ext.inProgress := fun he => this ⟨p.2, hu, he⟩
    simp [hne]
  refine ⟨h1, ?_⟩
  show applyAll (cancel hs) (cancelEffs (cancel hs)) = cancel hs
  rw [h1]; rfl

/-- **recovery is idempotent**: a second call returns the same answer and issues no operation at all. -/
theorem recover_idempotent (g : Geom) (hs : Hdrs) :
    (recoverEffs g (recover g hs).2).2 = [] ∧ recover g (recover g hs).2 = recover g hs := by
  have key : (recoverEffs g (recover g hs).2).2 = [] ∧ (recoverEffs g (recover g hs).2).1 = (recover g hs).1 := by
    cases hres : (recover g hs).1 with
    | none =>
      obtain ⟨_, hr⟩ := recover_none_eq hres
      rw [hr]
      have hdn : recoverDecision g (cancel hs) = none := by
        cases hd : recoverDecision g (cancel hs) with
        | none => rfl
        | some d =>
          exfalso
          obtain ⟨nw, sn⟩ := d
          obtain ⟨htn, hst1, -⟩ := recoverDecision_some hd
          obtain ⟨hu1, -⟩ := twoNewest_mem htn
          exact cancel_no_pending hs nw.1 ⟨nw.2, hu1, status_inProgress_ext hst1⟩
      unfold recoverEffs
      rw [hdn]
      exact ⟨(cancel_idempotent hs).1, rfl⟩
    | some r =>
      obtain ⟨f, p⟩ := r
      obtain ⟨nw, sn, hd, rfl, rfl, -, hr⟩ := recover_some_eq hres
      obtain ⟨htn, hst1, hk1, hst2, hk2⟩ := recoverDecision_some hd
      obtain ⟨hu1, hu2, hne⟩ := twoNewest_mem htn
      rw [hr]
      have hnw' : Used (applyAll hs (remediateEffs nw.1 sn.1 (indexed hs))) nw.1 nw.2 := by
        show _ = _
        rw [remediate_get, show hs[nw.1]? = some (some nw.2) from hu1]
        simp [remH]
      have hsn' : Used (applyAll hs (remediateEffs nw.1 sn.1 (indexed hs))) sn.1 sn.2 := by
        show _ = _
        rw [remediate_get, show hs[sn.1]? = some (some sn.2) from hu2]
        simp [remH]
      have hsub : ∀ j h', Used (applyAll hs (remediateEffs nw.1 sn.1 (indexed hs))) j h' →
          ∃ h0, Used hs j h0 ∧ remH nw.1 sn.1 j h0 = some h' := fun j h' hu => remediate_used hu
      have htn' : twoNewest (indexed (applyAll hs (remediateEffs nw.1 sn.1 (indexed hs)))) = (some nw, some sn) := by
        apply twoNewest_stable htn hnw' hsn'
        intro j h' hu
        obtain ⟨h0, hu0, hrem⟩ := hsub j h' hu
        refine ⟨h0, hu0, ?_⟩
        unfold remH at hrem
        split at hrem
        · simp only [Option.some.injEq] at hrem; rw [hrem]
        · split at hrem
          · simp only [Option.some.injEq] at hrem; rw [← hrem]
          · split at hrem
            · cases hrem
            · simp only [Option.some.injEq] at hrem; rw [hrem]
      have hd' : recoverDecision g (applyAll hs (remediateEffs nw.1 sn.1 (indexed hs))) = some (nw, sn) := by
        rw [recoverDecision_congr (hs := hs) (htn'.trans htn.symm)]
        exact hd
      have hstat : ∀ q ∈ indexed (applyAll hs (remediateEffs nw.1 sn.1 (indexed hs))),
          ¬ (q.1 = nw.1 ∨ q.1 = sn.1) →
          totalStatus q.2 ≠ TotalStatus.appWriteInProgress ∧
          totalStatus q.2 ≠ TotalStatus.bootloadWriteInProgress ∧
          totalStatus q.2 ≠ TotalStatus.invalidNeedsErase := by
        intro q hq hab
        obtain ⟨h0, hu0, hrem⟩ := hsub q.1 q.2 (mem_indexed.mp hq)
        unfold remH at hrem
        simp only [hab, ↓reduceIte] at hrem
        by_cases h1 : totalStatus h0 = TotalStatus.appWriteInProgress
        · simp only [h1, ↓reduceIte, Option.some.injEq] at hrem
          rw [← hrem, status_abort h1]
          simp
        · simp only [h1, ↓reduceIte] at hrem
          by_cases h2 : totalStatus h0 = TotalStatus.bootloadWriteInProgress ∨ totalStatus h0 = TotalStatus.invalidNeedsErase
          · simp [h2] at hrem
          · simp only [h2, ↓reduceIte, Option.some.injEq] at hrem
            rw [← hrem]
            exact ⟨h1, fun h3 => h2 (Or.inl h3), fun h3 => h2 (Or.inr h3)⟩
      generalize applyAll hs (remediateEffs nw.1 sn.1 (indexed hs)) = hs' at hd' hstat ⊢
      unfold recoverEffs
      rw [hd']
      refine ⟨?_, rfl⟩
      simp only
      unfold remediateEffs
      rw [remediateAbortEffs_eq, remediateEraseEffs_eq]
      rw [effsOf_eq_nil, effsOf_eq_nil]
      · rfl
      · intro q hq
        unfold erasePhi
        by_cases hab : q.1 = nw.1 ∨ q.1 = sn.1
        · simp [hab]
        · have := hstat q hq hab
          simp [hab, this.2.1, this.2.2]
      · intro q hq
        unfold abortPhi
        by_cases hab : q.1 = nw.1 ∨ q.1 = sn.1
        · simp [hab]
        · have := hstat q hq hab
          simp [hab, this.1]
  refine ⟨key.1, ?_⟩
  unfold recover at key ⊢
  simp only at key ⊢
  rw [key.1, key.2]
  rfl

/-! ## which session recovery returns, in every reachable state -/

/-- every state reachable from the blank ring (two-pass remediation, no sequence wrap-around) satisfies the second
    invariant bundle `Inv2`: attempt ids consistent with sequence numbers (`SkelOK`), `live` = exactly the in-progress
    firmware / parity pairs written by one start (`LiveOK`), `must` and the RAM session are live and are the two newest
    headers (`TopOK`), and an in-progress parity header whose firmware partner was erased is (almost) the oldest
    header of the ring (`Orph`, the `PairInv` of the design). -/
theorem reachable_inv2 (c : Cfg) (hn : 4 ≤ c.n) (hp : c.pinnedRemediation = false) {s : State}
    (h : C05.Reachable c s) : Inv2 c s := by
  induction h with
  | init => exact inv2_init c
  | step hr hroom hstep ih => exact inv2_preserved c hn hp _ ih (C05.reachable_ringInv c hn hr) hroom _ hstep

/-- **`pairInv_preserved`**: every transition of the machine preserves `Inv2` — for every `N ≥ 4`, with the two-pass
    remediation and the erase-newer-first order of `start_update` that the machine models. -/
theorem pairInv_preserved (c : Cfg) (hn : 4 ≤ c.n) (hp : c.pinnedRemediation = false) (s : State) (h : Inv2 c s)
    (hinv : RingInv c.n s.hs) (hroom : SeqRoom 2 s.hs) : ∀ t ∈ succs c s, Inv2 c t.2 :=
  inv2_preserved c hn hp s h hinv hroom

/-- **`no_chimera`**: in every reachable state, the session recovery returns consists of two slots written by one
    and the same start attempt (the ghost `att`). -/
theorem no_chimera (c : Cfg) (hn : 4 ≤ c.n) (hp : c.pinnedRemediation = false) {s : State} (h : C05.Reachable c s)
    {f p : Nat} (hr : (recover c.geom s.hs).1 = some (f, p)) :
    ∃ k, s.att.getD f none = some k ∧ s.att.getD p none = some k :=
  (recover_some_of_inv hn (C05.reachable_ringInv c hn h) (reachable_inv2 c hn hp h) hr).2.1

/-- **`recover_iff_live_session`**, first half: in every reachable state, recovery only ever returns a session for an
    update that was successfully started and neither completed nor cancelled since (`live`); and if the latest start
    succeeded and is neither completed nor cancelled (`must`), the returned session is that one. -/
theorem recover_only_live_session (c : Cfg) (hn : 4 ≤ c.n) (hp : c.pinnedRemediation = false) {s : State}
    (h : C05.Reachable c s) {r : Nat × Nat} (hr : (recover c.geom s.hs).1 = some r) :
    r ∈ s.live ∧ ∀ m, s.must = some m → m = r := by
  obtain ⟨h1, _, h3⟩ := recover_some_of_inv hn (C05.reachable_ringInv c hn h) (reachable_inv2 c hn hp h) hr
  exact ⟨h1, h3⟩

/-- **`recover_iff_live_session`**, second half: in every reachable state, if the latest start attempt succeeded and
    that update has been neither completed nor cancelled, recovery returns exactly that session. `GeomOK`: the
    geometry the machine starts updates with passes `is_reasonably_sized` and its parity capacity is at most 2048
    (C07's precondition `L ≥ 1` is part of the parsed header and does not matter at header level). -/
theorem recover_returns_latest (c : Cfg) (hn : 4 ≤ c.n) (hp : c.pinnedRemediation = false) (hg : GeomOK c.geom)
    {s : State} (h : C05.Reachable c s) {m : Nat × Nat} (hm : s.must = some m) :
    (recover c.geom s.hs).1 = some m :=
  recover_must_of_inv hg (reachable_inv2 c hn hp h) hm

/-- both halves as one equivalence on the latest start: recovery returns `m` and `m` is the remembered latest
    successful start, iff the latest start succeeded and is neither completed nor cancelled (when it is remembered) -/
theorem recover_iff_live_session (c : Cfg) (hn : 4 ≤ c.n) (hp : c.pinnedRemediation = false) (hg : GeomOK c.geom)
    {s : State} (h : C05.Reachable c s) (m : Nat × Nat) (hm : s.must = some m) (r : Option (Nat × Nat)) :
    (recover c.geom s.hs).1 = r ↔ r = some m := by
  rw [recover_returns_latest c hn hp hg h hm]
  exact ⟨fun e => e.symm, fun e => e.symm⟩

/-- the default geometry of the machine passes the sanity checks -/
example : GeomOK {} := ⟨rfl, by decide⟩

/-! ## the remediation order matters: witness for the single-pass remediation -/

/-- six slots, single-pass remediation in slot-index order (the code before the remediation-order repair) -/
def pinnedCfg : Cfg := { n := 6, pinnedRemediation := true }
/-- six slots, two-pass remediation (all aborts, then all erases) -/
def fixedCfg : Cfg := { n := 6 }

/-- thirteen operations from the blank ring. The last four: an update is completed but power is lost between the
    two completion marks (firmware header complete, its parity header still in progress); a new update is started;
    recovery loses power after its first remediation operation; a start loses power after its two erases. -/
def chimeraPath : List Label :=
  [.start 3 true, .start 3 true, .start 3 true, .completeCrash, .start 0 false, .copyDone, .confirm,
   .start 2 false, .start 3 true, .completeCrash, .start 3 true, .recoverSome 1 false, .start 1 false]

/-- recovery in state `s` returns the pair `r`, whose two slots were written by different starts and which is not
    a live session -/
def returnsChimera (c : Cfg) (r : Nat × Nat) : Option State → Bool
  | some s => decide ((c.recoverEffs s.hs).1 = some r ∧ s.att.getD r.1 none ≠ s.att.getD r.2 none ∧ r ∉ s.live)
  | none => false

/-- **witness for the single-pass remediation**: because it works in slot-index order, recovery can erase a
    completed firmware slot (slot 0) before it aborts that update's still-in-progress parity header (slot 1); after
    power loss at that point and an interrupted start, recovery returns the session `(5, 1)`: a firmware header
    written by a start that never succeeded, paired with the parity header of an update that was completed. -/
theorem remediation_order_chimera_witness :
    returnsChimera pinnedCfg (5, 1) (runLabels pinnedCfg (State.init 6) chimeraPath) = true := by
  decide

/-- the same thirteen operations with the two-pass remediation: the first remediation operation is the abort of
    the stale parity header, and the final recovery returns none -/
theorem remediation_order_repaired :
    (runLabels fixedCfg (State.init 6) chimeraPath).map (fun s => (fixedCfg.recoverEffs s.hs).1) = some none := by
  decide

/-! ## non-vacuity -/

/-- an arrangement (N = 6) on which recovery returns the session `(2, 3)` and its remediation has three things
    to do: abort slots 1 and 5, erase slot 0 -/
def busyHs : Hdrs :=
  [ some { kind := .firmware, seq := 2, size := 32, n := 16, ext := .complete, ist := .inProgress, boot := .untested },
    some { kind := .parity, seq := 3, size := 32, n := 8, ext := .inProgress, ist := .inProgress, boot := .untested },
    some { kind := .firmware, seq := 4, size := 32, n := 16, ext := .inProgress, ist := .inProgress, boot := .untested },
    some { kind := .parity, seq := 5, size := 32, n := 8, ext := .inProgress, ist := .inProgress, boot := .untested },
    some { kind := .firmware, seq := 0, size := 32, n := 16, ext := .complete, ist := .complete, boot := .successful },
    some { kind := .firmware, seq := 1, size := 32, n := 16, ext := .inProgress, ist := .inProgress, boot := .untested } ]

example : (recover {} busyHs).1 = some (2, 3) ∧ ((recoverEffs {} busyHs).2.map (·.1)) = [1, 5, 0] := by decide

/-- recovery returning none with something to cancel -/
example : (recover {} (busyHs.set 3 none)).1 = none ∧ ((recoverEffs {} (busyHs.set 3 none)).2.map (·.1)) = [1, 2, 5] := by
  decide

/-- `SeqValid` and a protected slot: slot 4 of `busyHs` -/
example : Protected (busyHs.getD 4 none |>.getD (fwHeader {} 0)) := by
  unfold Protected; decide

end Fuota.C13
