/-! GENERATED on every run by tools/gen_consts.py from `fh consts` (the values the compiled
    Rust library actually uses). Do not edit. -/
namespace Fuota.Consts

def KIND_FIRMWARE : Nat := 0
def KIND_PARITY : Nat := 1
def EXT_IN_PROGRESS : Nat := 4294967295
def EXT_ABORTED : Nat := 2863311530
def EXT_COMPLETE : Nat := 1145324612
def INT_IN_PROGRESS : Nat := 4294967295
def INT_COMPLETE : Nat := 286331153
def BOOT_UNTESTED : Nat := 4294967295
def BOOT_SUCCESSFUL : Nat := 2882343476
def BOOT_UNSUCCESSFUL : Nat := 3455023248
def KIND_OFFSET : Nat := 0
def SEQ_OFFSET : Nat := 4
def SEGSIZE_OFFSET : Nat := 8
def NSEG_OFFSET : Nat := 12
def EXT_OFFSET : Nat := 16
def INT_OFFSET : Nat := 20
def BOOT_OFFSET : Nat := 24
def SLOT_HEADER_SIZE : Nat := 28
def HEADER_SIZE : Nat := 1024
def WRITTEN_OFFSET : Nat := 1024
def DATA_REGION_OFFSET : Nat := 17408
def DATA_PAYLOAD_OFFSET : Nat := 17476
def CRC_SIZE : Nat := 4
def SIG_SIZE : Nat := 64
def MAX_SEGMENTS : Nat := 16384
def MAX_SEGMENT_SIZE : Nat := 256
def DATA_WRITTEN : Nat := 51
def DATA_NOT_WRITTEN : Nat := 255
def SEQ_INVALID : Nat := 4294967295
def O_KIND_FIRMWARE : Nat := 0
def O_KIND_PARITY : Nat := 1
def O_EXT_IN_PROGRESS : Nat := 4294967295
def O_EXT_ABORTED : Nat := 2863311530
def O_EXT_COMPLETE : Nat := 1145324612
def O_INT_IN_PROGRESS : Nat := 4294967295
def O_INT_COMPLETE : Nat := 286331153
def O_BOOT_UNTESTED : Nat := 4294967295
def O_BOOT_SUCCESSFUL : Nat := 2882343476
def O_BOOT_UNSUCCESSFUL : Nat := 3455023248
def O_KIND_OFFSET : Nat := 0
def O_SEQ_OFFSET : Nat := 4
def O_SEGSIZE_OFFSET : Nat := 8
def O_NSEG_OFFSET : Nat := 12
def O_EXT_OFFSET : Nat := 16
def O_INT_OFFSET : Nat := 20
def O_BOOT_OFFSET : Nat := 24
def O_SLOT_HEADER_SIZE : Nat := 28
def O_HEADER_SIZE : Nat := 1024
def O_WRITTEN_OFFSET : Nat := 1024
def O_DATA_REGION_OFFSET : Nat := 17408
def O_DATA_PAYLOAD_OFFSET : Nat := 17476
def O_MAX_SEGMENTS : Nat := 16384
def O_MAX_SEGMENT_SIZE : Nat := 256
def O_DATA_WRITTEN : Nat := 51
def O_DATA_NOT_WRITTEN : Nat := 255
def O_WRITTEN_SIZE : Nat := 16384
def O_SEQ_INVALID : Nat := 4294967295

end Fuota.Consts
