import Fuota.Props.C07b
import Fuota.Lemmas.RefineCrashDev
/-!
# Transferring the session invariant between devices with the same flash, and comparing continuations
-/
namespace Fuota.Updater
open Fuota.Nor Fuota.Fs Fuota.FlashAdapters Fuota.Recon Fuota.Layout

/-- two in-memory updaters that stand for the same session state: same regions, stage, bit sets; the second has its
    segment-size cache filled -/
structure SameSession (u w : Upd) : Prop where
  reg : SameRegions u w
  l : w.l = u.l
  done : w.done = u.done
  used : w.used = u.used
  seg : w.fw.segSize = some w.bs

/-- same session, same completeness -/
theorem SameSession.complete {u w : Upd} (h : SameSession u w) : rcComplete w = rcComplete u := by
  simp only [rcComplete, h.l, h.reg.n, h.done, h.used]

/-- **the session invariant only depends on the flash contents** (of a device without armed injection) and on the
    session state the updater stands for -/
theorem Lawful.transfer {u w : Upd} {d e : Dev} (L : Lawful u d) (hG : Good e) (hf : e.flash = d.flash)
    (h : SameSession u w) : Lawful w e := by
  have g := L.base.geo
  have hR := h.reg
  obtain ⟨a1, a2, a3, a4⟩ := hR.addrs
  obtain ⟨v1, v2, v3⟩ := hR.vals h.used d.flash
  have hc := h.complete
  refine ⟨{ geo := ?_, good := hG, wf := by rw [hf]; exact L.base.wf, hl := by rw [h.l, hR.maxL]; exact L.base.hl,
            hl2 := ?_, hdone := ?_, hstat := ?_, herD := ?_, hech := ?_, herP := ?_ }, ?_⟩
  · rw [hf]
    exact ⟨by rw [hR.bs]; exact g.hbs, by rw [hR.n]; exact g.hn, by rw [hR.bs, hR.n, hR.fs]; exact g.hfit,
      by rw [hR.ps, hR.fs]; exact g.hsz, by rw [hR.maxL, hR.fs, hR.bs]; exact g.hmaxL,
      by rw [hR.mo, hR.maxL, hR.bs]; exact g.hmo, by rw [hR.fi, hR.pi]; exact g.hne,
      by rw [hR.fi, hR.fs]; exact g.hfwin, by rw [hR.pi, hR.ps]; exact g.hparin, h.seg⟩
  · intro hne
    rw [h.l, h.done, hR.n]
    exact L.base.hl2 (by rw [← h.l]; exact hne)
  · intro i hi
    rw [hR.n]; exact L.base.hdone i (by rw [← h.done]; exact hi)
  · intro i hi
    rw [hf, a2]; exact L.base.hstat i (by rw [← h.done]; exact hi)
  · intro i hi hE
    rw [hf, a1, a2, hR.bs]
    exact L.base.herD i (by rw [← hR.n]; exact hi) ⟨by rw [← hc]; exact hE.1, by rw [← h.done]; exact hE.2⟩
  · intro p hp
    rw [hf, v3, h.l]
    exact L.base.hech p (by rw [← h.used]; exact hp)
  · intro m hm hu
    rw [hf, a3, a4, hR.bs]
    exact L.base.herP m (by rw [← hR.maxL]; exact hm) (by rw [← h.used]; exact hu)
  · intro hcw m hm
    rw [hf, a2]
    exact L.marked (by rw [← hc]; exact hcw) m (by rw [← hR.n]; exact hm)

/-- the abstraction only depends on the flash contents and on the session state the updater stands for -/
theorem abs_transfer {u w : Upd} {d e : Dev} (hf : e.flash = d.flash) (hR : SameRegions u w) (hl : w.l = u.l)
    (hd : w.done = u.done) (hu : w.used = u.used) : Fault.Eqv (abs (w, e)) (abs (u, d)) := by
  obtain ⟨v1, v2, v3⟩ := hR.vals hu d.flash
  obtain ⟨_, _, _, _, _, a6, a7, a8⟩ := sim_abs w e
  obtain ⟨_, _, _, _, _, b6, b7, b8⟩ := sim_abs u d
  refine ⟨hR.n, hR.bs, hl, hd, hu, fun k => ?_, fun k => ?_, fun k => ?_⟩
  · rw [a6, hf, v1]; exact (b6 k).symm
  · rw [a7, hf, v2]; exact (b7 k).symm
  · rw [a8, hf, v3]; exact (b8 k).symm

/-- **continuations only depend on the abstraction**: two lawful states whose abstractions have the same contents
    answer every continuation alike and end in states whose abstractions again have the same contents -/
theorem session_equiv (ffr : Bool) (frag : Nat → List Nat) (is : List Nat) {u w : Upd} {d e : Dev}
    (Lu : Lawful u d) (Lw : Lawful w e) (hE : Fault.Eqv (abs (w, e)) (abs (u, d))) (hmaxL : w.maxL = u.maxL)
    (hfrag : ∀ i, IsBytes (frag i) ∧ (frag i).length = u.bs) (hidx : ∀ i ∈ is, i ≠ 0)
    (hrows : ∀ i ∈ is, (updaterRow ffr u.n (i - 1)).isSome = true) :
    (session ffr frag is (w, e)).1 = (session ffr frag is (u, d)).1 ∧
    Fault.Eqv (abs (session ffr frag is (w, e)).2) (abs (session ffr frag is (u, d)).2) := by
  have hn : w.n = u.n := hE.1
  have hbs : w.bs = u.bs := hE.2.1
  obtain ⟨_, b2, b3, _⟩ := session_sim ⟨false⟩ ffr u.n u.bs u.maxL frag hfrag is w e (abs (u, d)) hidx hrows Lw
    hn hbs hmaxL hE
  obtain ⟨_, c2, c3, _⟩ := session_sim ⟨false⟩ ffr u.n u.bs u.maxL frag hfrag is u d (abs (u, d)) hidx hrows Lu
    rfl rfl rfl (Fault.Eqv.refl _)
  exact ⟨C07b.allCorr_unique b3 c3, Fault.Eqv.trans b2 (Fault.Eqv.symm c2)⟩

end Fuota.Updater
