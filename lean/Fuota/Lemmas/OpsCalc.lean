import Fuota.Model.Updater
/-!
# Operation-footprint calculus for the device monads `M` and `MU`

`EmitsR B Q R x`: started on **any** device state whose erase-block size is `B` (any contents, any crash point,
any pending transient fault, dead or alive), the computation `x`

* leaves the erase-block size unchanged,
* extends the operation log `Dev.ops` by a list `new` of operations that all satisfy `Q`
  (so nothing already logged is dropped or rewritten), and
* when it returns `ok a`, the result satisfies `R a`.

A torn program (`tear p keep (program a bs)`) is an emitted operation like any other, so `Q` has to hold for it too.
`Emits B Q x` is `EmitsR` with the trivial postcondition.
-/
namespace Fuota.Ops
open Fuota.Nor Fuota.Fs Fuota.Updater

variable {α β : Type}

/-! ## running `M` -/

theorem run_bind (x : M α) (f : α → M β) (d : Dev) :
    (x >>= f).run d = (match x.run d with
      | (.ok a, d') => (f a).run d'
      | (.error e, d') => (.error e, d')) := by
  show (ExceptT.bind x f).run d = _
  unfold ExceptT.bind ExceptT.bindCont ExceptT.mk ExceptT.run
  show (StateT.bind _ _) d = _
  unfold StateT.bind
  rcases h : x d with ⟨r, d'⟩
  cases r <;> simp <;> rfl

theorem run_pure (a : α) (d : Dev) : (pure a : M α).run d = (.ok a, d) := rfl
theorem run_throw (e : MErr) (d : Dev) : (throw e : M α).run d = (.error e, d) := rfl
theorem run_get (d : Dev) : (get : M Dev).run d = (.ok d, d) := rfl
theorem run_set (d' d : Dev) : (set d' : M Unit).run d = (.ok (), d') := rfl

/-- what follows a `throw` never runs (normalises the join points of desugared `do` blocks) -/
theorem throw_bind (e : MErr) (f : α → M β) : ((throw e : M α) >>= f) = throw e := rfl
theorem pure_bind (a : α) (f : α → M β) : ((pure a : M α) >>= f) = f a := rfl

/-! ## replaying the log -/

/-- 1 when programming needs a 0 → 1 transition on the flash `f` -/
def needOf (f : Flash) : Op → Nat
  | .program a bs => if f.needsSet a bs then 1 else 0
  | .erase _ => 0

/-- number of programs that need a 0 → 1 transition when `ops` (oldest first) are applied to `f` in order -/
def needCount (f : Flash) : List Op → Nat
  | [] => 0
  | op :: ops => needOf f op + needCount (f.apply op) ops

theorem applyAll_append (f : Flash) (l1 l2 : List Op) :
    f.applyAll (l1 ++ l2) = (f.applyAll l1).applyAll l2 := List.foldl_append

theorem needCount_append (f : Flash) (l1 l2 : List Op) :
    needCount f (l1 ++ l2) = needCount f l1 + needCount (f.applyAll l1) l2 := by
  induction l1 generalizing f with
  | nil => simp [needCount, Flash.applyAll]
  | cons op l1 ih =>
    show needOf f op + needCount (f.apply op) (l1 ++ l2) = _
    rw [ih]
    show _ = needOf f op + needCount (f.apply op) l1 + needCount ((f.apply op).applyAll l1) l2
    omega

/-- the device `d'` results from `d` by the logged operations `new` (newest first): the log is extended by `new`,
    the flash is `d.flash` with `new` applied oldest first, and the 0 → 1 counter grew by at most the number of
    programs of `new` that needed a 0 → 1 transition at the moment they were applied -/
structure Replay (d d' : Dev) (new : List Op) : Prop where
  ops : d'.ops = new ++ d.ops
  flash : d'.flash = d.flash.applyAll new.reverse
  lo : d.needsSet ≤ d'.needsSet
  hi : d'.needsSet ≤ d.needsSet + needCount d.flash new.reverse

theorem Replay.refl (d : Dev) : Replay d d [] :=
  ⟨rfl, rfl, Nat.le_refl _, Nat.le_refl _⟩

/-- a state change that touches neither log, flash nor counter -/
theorem Replay.same {d d' : Dev} (ho : d'.ops = d.ops) (hf : d'.flash = d.flash) (hn : d'.needsSet = d.needsSet) :
    Replay d d' [] :=
  ⟨by rw [ho]; rfl, by rw [hf]; rfl, by omega, by rw [hn]; exact Nat.le_add_right _ _⟩

theorem Replay.one {d d' : Dev} {o : Op} (ho : d'.ops = o :: d.ops) (hf : d'.flash = d.flash.apply o)
    (hlo : d.needsSet ≤ d'.needsSet) (hhi : d'.needsSet ≤ d.needsSet + needOf d.flash o) : Replay d d' [o] :=
  ⟨by rw [ho]; rfl, by rw [hf]; rfl, hlo, by
    show d'.needsSet ≤ d.needsSet + (needOf d.flash o + 0)
    omega⟩

theorem Replay.trans {d d' d'' : Dev} {n1 n2 : List Op} (h1 : Replay d d' n1) (h2 : Replay d' d'' n2) :
    Replay d d'' (n2 ++ n1) := by
  refine ⟨?_, ?_, Nat.le_trans h1.lo h2.lo, ?_⟩
  · rw [h2.ops, h1.ops, List.append_assoc]
  · rw [h2.flash, h1.flash, List.reverse_append, applyAll_append]
  · have := h2.hi
    rw [h1.flash] at this
    have := h1.hi
    rw [List.reverse_append, needCount_append]
    omega

theorem applyAll_block (f : Flash) (l : List Op) : (f.applyAll l).block = f.block := by
  induction l generalizing f with
  | nil => rfl
  | cons op l ih =>
    show ((f.apply op).applyAll l).block = _
    rw [ih]
    cases op <;> rfl

/-! ## the judgment -/

/-- footprint of one run, from the state `d` -/
def EmitsAt (B : Nat) (Q : Op → Prop) (R : α → Prop) (x : M α) (d : Dev) : Prop :=
  (x.run d).2.flash.block = B ∧
  (∃ new, Replay d (x.run d).2 new ∧ ∀ op ∈ new, Q op) ∧
  ∀ a, (x.run d).1 = .ok a → R a

/-- footprint from every state with erase-block size `B` -/
def EmitsR (B : Nat) (Q : Op → Prop) (R : α → Prop) (x : M α) : Prop :=
  ∀ d : Dev, d.flash.block = B → EmitsAt B Q R x d

/-- footprint without a postcondition -/
def Emits (B : Nat) (Q : Op → Prop) (x : M α) : Prop := EmitsR B Q (fun _ => True) x

/-- the composable "invariant" reading: if everything logged so far satisfies `Q`, so does everything logged after -/
theorem EmitsAt.invariant {B Q} {R : α → Prop} {x : M α} {d : Dev} (h : EmitsAt B Q R x d)
    (hd : ∀ op ∈ d.ops, Q op) : ∀ op ∈ (x.run d).2.ops, Q op := by
  obtain ⟨_, ⟨new, hnew, hQ⟩, _⟩ := h
  intro op hop
  rw [hnew.ops] at hop
  rcases List.mem_append.1 hop with h | h
  · exact hQ op h
  · exact hd op h

/-- the "not already there" reading -/
theorem EmitsAt.new_ops {B Q} {R : α → Prop} {x : M α} {d : Dev} (h : EmitsAt B Q R x d) :
    ∀ op ∈ (x.run d).2.ops, op ∈ d.ops ∨ Q op := by
  obtain ⟨_, ⟨new, hnew, hQ⟩, _⟩ := h
  intro op hop
  rw [hnew.ops] at hop
  rcases List.mem_append.1 hop with h | h
  · exact Or.inr (hQ op h)
  · exact Or.inl h

theorem EmitsR.invariant {B Q} {R : α → Prop} {x : M α} (h : EmitsR B Q R x) (d : Dev) (hB : d.flash.block = B)
    (hd : ∀ op ∈ d.ops, Q op) : ∀ op ∈ (x.run d).2.ops, Q op := (h d hB).invariant hd

theorem EmitsAt.mono {B} {Q Q' : Op → Prop} {R R' : α → Prop} {x : M α} {d : Dev} (h : EmitsAt B Q R x d)
    (hQ : ∀ op, Q op → Q' op) (hR : ∀ a, R a → R' a) : EmitsAt B Q' R' x d := by
  obtain ⟨hb, ⟨new, hnew, hq⟩, hr⟩ := h
  exact ⟨hb, ⟨new, hnew, fun op hop => hQ op (hq op hop)⟩, fun a ha => hR a (hr a ha)⟩

theorem EmitsR.mono {B} {Q Q' : Op → Prop} {R R' : α → Prop} {x : M α} (h : EmitsR B Q R x)
    (hQ : ∀ op, Q op → Q' op) (hR : ∀ a, R a → R' a) : EmitsR B Q' R' x :=
  fun d hd => (h d hd).mono hQ hR

theorem EmitsR.weaken {B} {Q Q' : Op → Prop} {R : α → Prop} {x : M α} (h : EmitsR B Q R x)
    (hQ : ∀ op, Q op → Q' op) : EmitsR B Q' R x := h.mono hQ (fun _ h => h)

theorem EmitsR.post {B} {Q : Op → Prop} {R R' : α → Prop} {x : M α} (h : EmitsR B Q R x)
    (hR : ∀ a, R a → R' a) : EmitsR B Q R' x := h.mono (fun _ h => h) hR

theorem EmitsR.emits {B} {Q : Op → Prop} {R : α → Prop} {x : M α} (h : EmitsR B Q R x) : Emits B Q x :=
  h.post (fun _ _ => True.intro)

/-- two postconditions proved separately combine -/
theorem EmitsR.and {B} {Q : Op → Prop} {R R' : α → Prop} {x : M α} (h : EmitsR B Q R x) (h' : EmitsR B Q R' x) :
    EmitsR B Q (fun a => R a ∧ R' a) x := by
  intro d hd
  obtain ⟨hb, hn, hr⟩ := h d hd
  obtain ⟨_, _, hr'⟩ := h' d hd
  exact ⟨hb, hn, fun a ha => ⟨hr a ha, hr' a ha⟩⟩

/-! ## structural rules -/

theorem EmitsAt.pure {B Q} {R : α → Prop} {a : α} {d : Dev} (hB : d.flash.block = B) (h : R a) :
    EmitsAt B Q R (pure a : M α) d := by
  refine ⟨hB, ⟨[], Replay.refl _, by simp⟩, ?_⟩
  intro a' ha'
  rw [run_pure] at ha'
  cases ha'; exact h

theorem EmitsR.pure {B Q} {R : α → Prop} {a : α} (h : R a) : EmitsR B Q R (pure a : M α) :=
  fun _ hB => EmitsAt.pure hB h

theorem EmitsR.throw {B Q} {R : α → Prop} {e : MErr} : EmitsR B Q R (throw e : M α) := by
  intro d hB
  refine ⟨hB, ⟨[], Replay.refl _, by simp⟩, ?_⟩
  intro a ha
  rw [run_throw] at ha
  cases ha

/-- state-specific sequencing: the continuation is only run on the result and state `x` actually produced -/
theorem EmitsAt.bind' {B Q} {R : α → Prop} {S : β → Prop} {x : M α} {f : α → M β} {d : Dev}
    (hx : EmitsAt B Q R x d)
    (hf : ∀ a, (x.run d).1 = .ok a → R a → EmitsAt B Q S (f a) (x.run d).2) : EmitsAt B Q S (x >>= f) d := by
  obtain ⟨hb, ⟨new, hnew, hq⟩, hr⟩ := hx
  rw [EmitsAt, run_bind]
  rcases hrun : x.run d with ⟨r, d'⟩
  rw [hrun] at hb hnew hr hf
  cases r with
  | error e =>
    refine ⟨hb, ⟨new, hnew, hq⟩, ?_⟩
    intro a ha; cases ha
  | ok a =>
    obtain ⟨hb2, ⟨new2, hnew2, hq2⟩, hr2⟩ := hf a rfl (hr a rfl)
    refine ⟨hb2, ⟨new2 ++ new, Replay.trans hnew hnew2, ?_⟩, hr2⟩
    intro op hop
    rcases List.mem_append.1 hop with h | h
    · exact hq2 op h
    · exact hq op h

theorem EmitsAt.bind {B Q} {R : α → Prop} {S : β → Prop} {x : M α} {f : α → M β} {d : Dev}
    (hx : EmitsAt B Q R x d) (hf : ∀ a, R a → EmitsR B Q S (f a)) : EmitsAt B Q S (x >>= f) d :=
  hx.bind' (fun a _ hR => hf a hR _ hx.1)

/-- `do let a ← x; f a` -/
theorem EmitsR.bind {B Q} {R : α → Prop} {S : β → Prop} {x : M α} {f : α → M β}
    (hx : EmitsR B Q R x) (hf : ∀ a, R a → EmitsR B Q S (f a)) : EmitsR B Q S (x >>= f) :=
  fun d hB => (hx d hB).bind hf

/-- `do x; y` -/
theorem EmitsR.seq {B Q} {R : α → Prop} {S : β → Prop} {x : M α} {y : M β}
    (hx : EmitsR B Q R x) (hy : EmitsR B Q S y) : EmitsR B Q S (x >>= fun _ => y) :=
  hx.bind (fun _ _ => hy)

/-- `do let d ← get; f d`: the state read has erase-block size `B` -/
theorem EmitsR.get_bind {B Q} {S : β → Prop} {f : Dev → M β}
    (hf : ∀ d0 : Dev, d0.flash.block = B → EmitsR B Q S (f d0)) : EmitsR B Q S (get >>= f) := by
  intro d hB
  have h0 : EmitsAt B Q (fun d0 : Dev => d0.flash.block = B) (get : M Dev) d := by
    refine ⟨hB, ⟨[], Replay.refl _, by simp⟩, ?_⟩
    intro a ha
    rw [run_get] at ha
    cases ha; exact hB
  exact h0.bind hf

theorem EmitsR.ite {B Q} {R : α → Prop} {c : Prop} [Decidable c] {x y : M α}
    (hx : c → EmitsR B Q R x) (hy : ¬ c → EmitsR B Q R y) : EmitsR B Q R (if c then x else y) := by
  split
  · exact hx ‹_›
  · exact hy ‹_›

/-! ## the flash primitives -/

/-- `tear` keeps the address and does not lengthen the data -/
theorem tear_program (p keep a : Nat) (bs : List Nat) :
    ∃ bs', tear p keep (.program a bs) = .program a bs' ∧ bs'.length ≤ bs.length ∧ bs'.length ≤ p + 1 := by
  refine ⟨_, rfl, ?_, ?_⟩
  · rcases h : bs[p]? with _ | b
    · simp only [List.append_nil, List.length_take]; omega
    · have : p < bs.length := by
        rcases Nat.lt_or_ge p bs.length with h' | h'
        · exact h'
        · rw [List.getElem?_eq_none h'] at h; cases h
      simp only [List.length_append, List.length_take, List.length_cons, List.length_nil]
      omega
  · rcases h : bs[p]? with _ | b
    · simp only [List.append_nil, List.length_take]; omega
    · simp only [List.length_append, List.length_take, List.length_cons, List.length_nil]
      omega

theorem tear_erase (p keep a : Nat) : tear p keep (.erase a) = .erase a := rfl

/-- reads emit nothing; a successful read returns exactly `len` bytes -/
theorem readTo_emits {B Q} (a len : Nat) : EmitsR B Q (fun bs => bs.length = len) (readTo a len) := by
  unfold readTo
  dsimp only
  simp only [throw_bind]
  apply EmitsR.get_bind
  intro d0 _
  split
  · exact EmitsR.throw
  · split
    · exact EmitsR.throw
    · rename_i bs hbs
      apply EmitsR.pure
      unfold Flash.readChecked at hbs
      split at hbs
      · cases hbs
        simp [Flash.read]
      · cases hbs

theorem apply_block (f : Flash) (o : Op) : (f.apply o).block = f.block := by
  cases o <;> rfl

/-- the common mutating step: the operation itself or, for a program, a torn version of it -/
theorem mutate_emits {B} {Q : Op → Prop} (op : Op) (hop : Q op) (htear : ∀ p keep, Q (tear p keep op)) :
    Emits B Q (mutate op) := by
  intro d hB
  unfold mutate
  dsimp only
  simp only [throw_bind]
  rw [EmitsAt, run_bind, run_get]
  dsimp only
  have nothing : ∀ d' : Dev, d'.flash = d.flash → d'.ops = d.ops → d'.needsSet = d.needsSet →
      EmitsAt B Q (fun _ : Unit => True) (do set d'; throw (MErr.spi SpiErr.custom)) d := by
    intro d' hf ho hn
    refine ⟨?_, ⟨[], Replay.same ho hf hn, by simp⟩, fun _ _ => True.intro⟩
    show d'.flash.block = B
    rw [hf]; exact hB
  have one : ∀ (o : Op) (d' : Dev) (x : M Unit) (r : Except MErr Unit), Q o → d'.flash = d.flash.apply o →
      d'.ops = o :: d.ops → d.needsSet ≤ d'.needsSet → d'.needsSet ≤ d.needsSet + needOf d.flash o →
      x.run d = (r, d') → EmitsAt B Q (fun _ : Unit => True) x d := by
    intro o d' x r hq hf ho hlo hhi hx
    rw [EmitsAt, hx]
    refine ⟨?_, ⟨[o], Replay.one ho hf hlo hhi, ?_⟩, fun _ _ => True.intro⟩
    · show d'.flash.block = B
      rw [hf, apply_block]; exact hB
    · intro o' ho'
      rw [List.mem_singleton] at ho'
      subst ho'; exact hq
  have tail : EmitsAt B Q (fun _ : Unit => True)
      (if d.failAt = some d.nmut then do
          set { d with failAt := none }
          throw (MErr.spi SpiErr.custom)
        else
          set { d with flash := d.flash.apply op, ops := op :: d.ops, nmut := d.nmut + 1,
                       needsSet := d.needsSet + (match op with
                          | .program a bs => if d.flash.needsSet a bs then 1 else 0
                          | .erase _ => 0) }) d := by
    split
    · exact nothing _ rfl rfl rfl
    · refine one op _ _ _ hop rfl rfl (Nat.le_add_right _ _) ?_ (run_set _ _)
      cases op <;> exact Nat.le_refl _
  split
  · split
    · split
      · refine one _ _ _ _ (htear _ _) rfl rfl ?_ ?_ rfl
        · exact Nat.le_refl _
        · exact Nat.le_add_right _ _
      · exact nothing _ rfl rfl rfl
    · exact tail
  · exact tail

/-- `write_from`: emits `program a bs`, or a torn version of it when the crash point tears it -/
theorem writeFrom_emits {B} {Q : Op → Prop} (a : Nat) (bs : List Nat) (hop : Q (.program a bs))
    (htear : ∀ p keep, Q (tear p keep (.program a bs))) : Emits B Q (writeFrom a bs) := by
  unfold writeFrom
  dsimp only
  simp only [throw_bind]
  apply EmitsR.get_bind
  intro d0 _
  have hm := mutate_emits (B := B) (.program a bs) hop htear
  split
  · exact EmitsR.throw
  · split
    · exact EmitsR.throw
    · exact hm

/-- `erase_block`: emits `erase a` with `a` aligned to the erase-block size, or nothing -/
theorem eraseBlock_emits {B} {Q : Op → Prop} (a : Nat) (hop : a % B = 0 → Q (.erase a)) :
    Emits B Q (eraseBlock a) := by
  unfold eraseBlock
  dsimp only
  simp only [throw_bind]
  apply EmitsR.get_bind
  intro d0 hB0
  split
  · exact EmitsR.throw
  · split
    · exact EmitsR.throw
    · rename_i hal
      have hal' : a % B = 0 := by
        rw [hB0] at hal; simpa using hal
      split
      · exact EmitsR.throw
      · exact mutate_emits (B := B) (.erase a) (hop hal') (fun _ _ => hop hal')

/-- a computation that emits only impossible operations emits nothing -/
theorem EmitsAt.nothing {B} {R : α → Prop} {x : M α} {d : Dev} (h : EmitsAt B (fun _ => False) R x d) :
    (x.run d).2.ops = d.ops := by
  obtain ⟨_, ⟨new, hnew, hq⟩, _⟩ := h
  cases new with
  | nil => simpa using hnew.ops
  | cons o os => exact (hq o (List.mem_cons_self)).elim

/-! ## the updater monad `MU` (in-memory updater × device) -/

theorem runU_bind (x : MU α) (f : α → MU β) (s : Upd × Dev) :
    (x >>= f).run s = (match x.run s with
      | (.ok a, s') => (f a).run s'
      | (.error e, s') => (.error e, s')) := by
  show (ExceptT.bind x f).run s = _
  unfold ExceptT.bind ExceptT.bindCont ExceptT.mk ExceptT.run
  show (StateT.bind _ _) s = _
  unfold StateT.bind
  rcases h : x s with ⟨r, s'⟩
  cases r <;> simp <;> rfl

theorem throw_bindU (e : MErr) (f : α → MU β) : ((throw e : MU α) >>= f) = throw e := rfl
theorem pure_bindU (a : α) (f : α → MU β) : ((pure a : MU α) >>= f) = f a := rfl

theorem liftM_run (x : M α) (u : Upd) (d : Dev) :
    (liftM x).run (u, d) = ((x.run d).1, (u, (x.run d).2)) := by
  show (match x.run d with | (r, d') => (r, (u, d'))) = _
  rcases x.run d with ⟨r, d'⟩
  rfl

/-- footprint of an `MU` computation: `I` is an invariant of the in-memory updater (it holds again afterwards,
    also when the computation fails), `R` a postcondition on a returned value -/
def EmitsU (B : Nat) (Q : Op → Prop) (I : Upd → Prop) (R : α → Prop) (x : MU α) : Prop :=
  ∀ (u : Upd) (d : Dev), d.flash.block = B → I u →
    (x.run (u, d)).2.2.flash.block = B ∧
    (∃ new, Replay d (x.run (u, d)).2.2 new ∧ ∀ op ∈ new, Q op) ∧
    I (x.run (u, d)).2.1 ∧ ∀ a, (x.run (u, d)).1 = .ok a → R a

theorem EmitsU.pure {B Q I} {R : α → Prop} {a : α} (h : R a) : EmitsU B Q I R (pure a : MU α) := by
  intro u d hB hI
  refine ⟨hB, ⟨[], Replay.refl _, by simp⟩, hI, ?_⟩
  intro a' ha'
  cases ha'; exact h

theorem EmitsU.throw {B Q I} {R : α → Prop} {e : MErr} : EmitsU B Q I R (throw e : MU α) := by
  intro u d hB hI
  refine ⟨hB, ⟨[], Replay.refl _, by simp⟩, hI, ?_⟩
  intro a ha
  cases ha

theorem EmitsU.bind {B Q I} {R : α → Prop} {S : β → Prop} {x : MU α} {f : α → MU β}
    (hx : EmitsU B Q I R x) (hf : ∀ a, R a → EmitsU B Q I S (f a)) : EmitsU B Q I S (x >>= f) := by
  intro u d hB hI
  obtain ⟨hb, ⟨new, hnew, hq⟩, hi, hr⟩ := hx u d hB hI
  rw [runU_bind]
  rcases hrun : x.run (u, d) with ⟨r, ⟨u', d'⟩⟩
  rw [hrun] at hb hnew hr hi
  cases r with
  | error e =>
    refine ⟨hb, ⟨new, hnew, hq⟩, hi, ?_⟩
    intro a ha; cases ha
  | ok a =>
    obtain ⟨hb2, ⟨new2, hnew2, hq2⟩, hi2, hr2⟩ := hf a (hr a rfl) u' d' hb hi
    refine ⟨hb2, ⟨new2 ++ new, Replay.trans hnew hnew2, ?_⟩, hi2, hr2⟩
    intro op hop
    rcases List.mem_append.1 hop with h | h
    · exact hq2 op h
    · exact hq op h

theorem EmitsU.seq {B Q I} {R : α → Prop} {S : β → Prop} {x : MU α} {y : MU β}
    (hx : EmitsU B Q I R x) (hy : EmitsU B Q I S y) : EmitsU B Q I S (x >>= fun _ => y) :=
  hx.bind (fun _ _ => hy)

theorem EmitsU.post {B Q I} {R R' : α → Prop} {x : MU α} (h : EmitsU B Q I R x)
    (hR : ∀ a, R a → R' a) : EmitsU B Q I R' x := by
  intro u d hB hI
  obtain ⟨hb, hn, hi, hr⟩ := h u d hB hI
  exact ⟨hb, hn, hi, fun a ha => hR a (hr a ha)⟩

/-- `getU` returns an updater satisfying the invariant -/
theorem EmitsU.getU {B Q I} : EmitsU B Q I I getU := by
  intro u d hB hI
  refine ⟨hB, ⟨[], Replay.refl _, by simp⟩, hI, ?_⟩
  intro a ha
  cases ha; exact hI

/-- `setU` may store any updater satisfying the invariant -/
theorem EmitsU.setU {B Q I} {u' : Upd} (h : I u') : EmitsU B Q I (fun _ => True) (setU u') := by
  intro u d hB _
  exact ⟨hB, ⟨[], Replay.refl _, by simp⟩, h, fun _ _ => True.intro⟩

/-- lifting a device computation: same footprint, the in-memory updater is untouched -/
theorem EmitsU.liftM {B Q I} {R : α → Prop} {x : M α} (h : EmitsR B Q R x) : EmitsU B Q I R (liftM x) := by
  intro u d hB hI
  rw [liftM_run]
  obtain ⟨hb, hn, hr⟩ := h d hB
  exact ⟨hb, hn, hI, hr⟩

theorem EmitsU.ite {B Q I} {R : α → Prop} {c : Prop} [Decidable c] {x y : MU α}
    (hx : c → EmitsU B Q I R x) (hy : ¬ c → EmitsU B Q I R y) : EmitsU B Q I R (if c then x else y) := by
  split
  · exact hx ‹_›
  · exact hy ‹_›

end Fuota.Ops
