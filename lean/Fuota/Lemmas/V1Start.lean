import Fuota.Lemmas.V1Ring
import Fuota.Lemmas.RefineStart
import Fuota.Props.C11
/-!
# The deprecated manager on flash: what `get_ordered_headers` reads, what one iteration of `start` does (C20)

`hdrsOf f S is` is what `readHeadersFrom` returns on a device without armed injection: the parse of the first 28
bytes of every slot.  `startOne_run`: erasing the chosen slot and programming the 28-byte header turns the header list
into `putHeader hs slot hdr` (C11's round trip on the erased slot, frame for the other slots) and touches no byte
outside the slot.
-/
set_option linter.unusedSimpArgs false
namespace Fuota.Orig
open Fuota.Nor Fuota.Fs Fuota.Layout Fuota.FlashAdapters Fuota.Updater

/-- the header slot `i` parses to -/
def hdrAtFlash (f : Flash) (S i : Nat) : Option Header := (parseHeader C (f.read (i * S) 28)).map (·.1)

/-- the indexed headers of the slots `is` -/
def hdrsOf (f : Flash) (S : Nat) (is : List Nat) : List IH := is.map fun i => { idx := i, hdr := hdrAtFlash f S i }

theorem readHeadersFrom_run (S : Nat) (d : Dev) (hG : Good d) : ∀ (is : List Nat),
    (∀ i ∈ is, i * S + 28 ≤ d.flash.size) → (readHeadersFrom S is).run d = (.ok (hdrsOf d.flash S is), d) := by
  intro is
  induction is with
  | nil => intro _; rfl
  | cons i is ih =>
    intro h
    have hr := Fs.readTo_run hG (i * S) Consts.O_SLOT_HEADER_SIZE (h i List.mem_cons_self)
    unfold readHeadersFrom readHeaderAt
    simp only [run_bind, hr, run_pure, ih (fun j hj => h j (List.mem_cons_of_mem _ hj))]
    rfl

/-- every slot of an `N`-slot device of slot size `S ≥ 28` has its header inside the device -/
theorem slot_hdr_in (N S i sz : Nat) (hi : i < N) (hS : 28 ≤ S) (hsz : N * S ≤ sz) : i * S + 28 ≤ sz := by
  have : (i + 1) * S ≤ N * S := Nat.mul_le_mul_right S (by omega)
  rw [Nat.add_mul, Nat.one_mul] at this
  omega

theorem getOrderedHeaders_run (N S : Nat) (d : Dev) (hG : Good d) (hN : N ≠ 0) (hS : 28 ≤ S)
    (hsz : N * S ≤ d.flash.size) (o : List IH) (ho : orderHeaders (hdrsOf d.flash S (List.range N)) = some o) :
    (getOrderedHeaders N S).run d = (.ok o, d) := by
  unfold getOrderedHeaders
  rw [run_bind, readHeadersFrom_run S d hG _ (fun i hi => slot_hdr_in N S i _ (List.mem_range.mp hi) hS hsz)]
  simp only [hN, ↓reduceIte, ho]
  rfl

/-- `erase_slot` of a slot inside the device whose size is a multiple of the erase-block size -/
theorem eraseSlot_run (S idx : Nat) (d : Dev) (hG : Good d) (hb0 : 0 < d.flash.block) (hdiv : S % d.flash.block = 0)
    (hin : idx * S + S ≤ d.flash.size) :
    ∃ d', (eraseSlot S idx).run d = (.ok (), d') ∧ Keeps d d' ∧
      (∀ x, idx * S ≤ x → x < idx * S + S → d'.flash.byte x = 0xFF) ∧
      (∀ x, (x < idx * S ∨ idx * S + S ≤ x) → d'.flash.byte x = d.flash.byte x) := by
  unfold eraseSlot
  have h0 : ¬ d.flash.block = 0 := by omega
  have hmul : S / d.flash.block * d.flash.block = S := by
    have := Nat.div_add_mod S d.flash.block
    rw [hdiv, Nat.add_zero, Nat.mul_comm] at this
    exact this
  simp only [run_bind, run_get, h0, ↓reduceIte, hdiv, bne_self_eq_false, Bool.false_eq_true]
  obtain ⟨d', hrun, hk, hff, hfr⟩ := eraseFrom_run d.flash.block hb0 (S / d.flash.block) (idx * S) d hG rfl
    (by rw [Nat.mul_mod, hdiv, Nat.mul_zero, Nat.zero_mod]) (by rw [hmul]; exact hin)
  rw [hmul] at hff hfr
  exact ⟨d', hrun, hk, hff, hfr⟩

theorem isBytes_writeU32 (v : Nat) : IsBytes (writeU32 v) := by
  intro b hb
  simp only [writeU32, List.mem_cons, List.not_mem_nil, or_false] at hb
  rcases hb with rfl | rfl | rfl | rfl <;> omega

theorem isBytes_append {a b : List Nat} (ha : IsBytes a) (hb : IsBytes b) : IsBytes (a ++ b) := by
  intro x hx
  rcases List.mem_append.mp hx with h | h
  · exact ha x h
  · exact hb x h

theorem isBytes_encodeHeader (c : Codec) (h : Header) : IsBytes (encodeHeader c h) := by
  unfold encodeHeader
  repeat' first | apply isBytes_append | apply isBytes_writeU32

/-- the C11 round trip for the deprecated crate's codec on exactly 28 bytes -/
theorem parse_encode_orig (h : Header) (wf : h.WF Codec.pinned) :
    (parseHeader C (encodeHeader C h)).map (·.1) = some h := by
  have e : C = Codec.pinned := C11.orig_codec_pinned
  rw [e]
  have := C11.encode_parse h [] wf
  rw [List.append_nil] at this
  rw [this]; rfl

theorem slots_apart' {i j : Nat} (S : Nat) (h : i ≠ j) : i * S + S ≤ j * S ∨ j * S + S ≤ i * S := by
  rcases Nat.lt_or_gt_of_ne h with h | h
  · left
    have : (i + 1) * S ≤ j * S := Nat.mul_le_mul_right S h
    rw [Nat.add_mul, Nat.one_mul] at this; exact this
  · right
    have : (j + 1) * S ≤ i * S := Nat.mul_le_mul_right S h
    rw [Nat.add_mul, Nat.one_mul] at this; exact this

/-- slot `i` of `putHeader` on `hdrsOf` -/
theorem putHeader_hdrsOf (f f' : Flash) (S slot : Nat) (hdr : Header) (is : List Nat)
    (hs : hdrAtFlash f' S slot = some hdr) (ho : ∀ i ∈ is, i ≠ slot → hdrAtFlash f' S i = hdrAtFlash f S i) :
    hdrsOf f' S is = putHeader (hdrsOf f S is) slot hdr := by
  unfold hdrsOf putHeader
  rw [List.map_map]
  apply List.map_congr_left
  intro i hi
  simp only [Function.comp]
  by_cases h : i = slot
  · subst h; simp [hs]
  · simp [h, ho i hi h]

/-- the effect of "erase the slot, program the 28-byte header" on the parsed headers and on the bytes -/
theorem header_write_run (N S slot : Nat) (hdr : Header) (d : Dev) (hG : Good d) (hwf : WF d.flash)
    (hb0 : 0 < d.flash.block) (hdiv : S % d.flash.block = 0) (hS : 28 ≤ S) (hsz : N * S ≤ d.flash.size)
    (hslot : slot < N) (hw : hdr.WF Codec.pinned) :
    ∃ d', (do eraseSlot S slot; writeFrom (slot * S) (encodeHeader C hdr) : M Unit).run d = (.ok (), d') ∧
      Keeps d d' ∧ hdrsOf d'.flash S (List.range N) = putHeader (hdrsOf d.flash S (List.range N)) slot hdr ∧
      (∀ x, (x < slot * S ∨ slot * S + S ≤ x) → d'.flash.byte x = d.flash.byte x) ∧
      hdrAtFlash d'.flash S slot = some hdr ∧ (∀ i, i ≠ slot → hdrAtFlash d'.flash S i = hdrAtFlash d.flash S i) := by
  have hin : slot * S + S ≤ d.flash.size := by
    have : (slot + 1) * S ≤ N * S := Nat.mul_le_mul_right S (by omega)
    rw [Nat.add_mul, Nat.one_mul] at this; omega
  obtain ⟨d1, hrun1, hk1, hff, hfr⟩ := eraseSlot_run S slot d hG hb0 hdiv hin
  have hlen : (encodeHeader C hdr).length = 28 := C11.encode_length C hdr
  have hin2 : slot * S + (encodeHeader C hdr).length ≤ d1.flash.size := by rw [hlen, hk1.size]; omega
  have hsame : hdrAtFlash (d1.prog (slot * S) (encodeHeader C hdr)).flash S slot = some hdr := by
    unfold hdrAtFlash
    have he : Erased d1.flash (slot * S) (slot * S + (encodeHeader C hdr).length) :=
      fun x h1 h2 => hff x h1 (by rw [hlen] at h2; omega)
    have := read_prog_same d1.flash (slot * S) (encodeHeader C hdr) (isBytes_encodeHeader C hdr) hin2 he
    rw [hlen] at this
    rw [Dev.prog_flash, this]
    exact parse_encode_orig hdr hw
  have hother : ∀ i, i ≠ slot →
      hdrAtFlash (d1.prog (slot * S) (encodeHeader C hdr)).flash S i = hdrAtFlash d.flash S i := by
    intro i hne
    unfold hdrAtFlash
    have hap := slots_apart' S hne
    rw [Dev.prog_flash, read_prog_other d1.flash (slot * S) (encodeHeader C hdr) (i * S) 28 (by rw [hlen]; omega)]
    rw [read_congr d1.flash d.flash (i * S) 28 (fun x h1 h2 => hfr x (by omega))]
  refine ⟨d1.prog (slot * S) (encodeHeader C hdr), ?_, Keeps.trans hk1 (Keeps.prog hk1.good _ _), ?_, ?_, hsame, hother⟩
  · rw [run_bind, hrun1]
    exact writeFrom_run hk1.good _ _ hin2
  · exact putHeader_hdrsOf _ _ S slot hdr _ hsame (fun i _ hne => hother i hne)
  · intro x hx
    rw [Dev.prog_flash, byte_apply_program_of_not_mem _ _ _ _ (by rw [hlen]; omega)]
    exact hfr x hx

/-- the header `start` writes -/
def newHdr (kind : Kind) (next segsz segments : Nat) : Header :=
  { kind := kind, seq := next, size := segsz, n := segments, ext := .inProgress, ist := .inProgress, boot := .untested }

/-- **one iteration of `start` on flash** -/
theorem startOne_run (N S : Nat) (kind : Kind) (segsz segments : Nat) (d : Dev) (hG : Good d) (hwf : WF d.flash)
    (hb0 : 0 < d.flash.block) (hdiv : S % d.flash.block = 0) (hS : 28 ≤ S) (hsz : N * S ≤ d.flash.size)
    (o : List IH) (slot next : Nat) (ho : orderHeaders (hdrsOf d.flash S (List.range N)) = some o)
    (hplan : planOne o = some (slot, next)) (hslot : slot < N)
    (hw : Header.WF Codec.pinned (newHdr kind next segsz segments)) :
    ∃ d', (startOne N S kind segsz segments).run d = (.ok slot, d') ∧ Keeps d d' ∧
      hdrsOf d'.flash S (List.range N) =
        putHeader (hdrsOf d.flash S (List.range N)) slot (newHdr kind next segsz segments) ∧
      (∀ x, (x < slot * S ∨ slot * S + S ≤ x) → d'.flash.byte x = d.flash.byte x) ∧
      hdrAtFlash d'.flash S slot = some (newHdr kind next segsz segments) ∧
      (∀ i, i ≠ slot → hdrAtFlash d'.flash S i = hdrAtFlash d.flash S i) := by
  obtain ⟨d', hrun, hk, hh, hfr, hs1, hs2⟩ := header_write_run N S slot _ d hG hwf hb0 hdiv hS hsz hslot hw
  refine ⟨d', ?_, hk, hh, hfr, hs1, hs2⟩
  unfold startOne
  unfold newHdr at hrun
  rw [run_bind, getOrderedHeaders_run N S d hG (by omega) hS hsz o ho]
  simp only [hplan]
  rw [run_bind] at hrun
  rw [run_bind]
  cases he : (eraseSlot S slot).run d with
  | mk r d1 =>
    rw [he] at hrun
    cases r with
    | error e => cases hrun
    | ok u =>
      simp only at hrun ⊢
      rw [run_bind, hrun]
      rfl

end Fuota.Orig
