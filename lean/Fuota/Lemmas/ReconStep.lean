import Fuota.Lemmas.ReconInv
/-!
# One `handle_block` step and whole runs preserve the invariant
-/
namespace Fuota.Recon
open Fuota.Gf2

/-- stage 1 of `handleBlock`: `handle_data_block` -/
def stage1 (V : Variant) (F : Nat → Bool) (s : St) (index data : Nat) : St × Res :=
  if s.done.testBit index then (s, if isComplete s then .done (s.n * s.bs) else .needMore) else
  if V.bitBeforeStore then
    let s := { s with done := s.done ||| 2 ^ index }
    let (s1, ok) := call F s (.dStore index data)
    if !ok then (s1, .err .data) else
    let s2 := { s1 with ds := (index, data) :: s1.ds }
    (s2, if isComplete s2 then .done (s2.n * s2.bs) else .needMore)
  else
    let (s1, ok) := call F s (.dStore index data)
    if !ok then (s1, .err .data) else
    let s2 := { s1 with ds := (index, data) :: s1.ds, done := s1.done ||| 2 ^ index }
    (s2, if isComplete s2 then .done (s2.n * s2.bs) else .needMore)

/-- stage 2 of `handleBlock`: `handle_parity_block`, then `finish` when complete -/
def stage2 (F : Nat → Bool) (P : Nat → Nat) (s : St) (index data : Nat) : St × Res :=
  let (s1, o1) := handleParity F s (P index) data
  match o1 with
  | .ok =>
    if isComplete s1 then
      let (s2, o2) := finish F s1
      match o2 with
      | .ok => (s2, .done (s2.n * s2.bs))
      | o => (s2, resOfOut o)
    else (s1, .needMore)
  | o => (s1, resOfOut o)

/-- `handleBlock` with the right buffer length, decomposed into its refusal test and the two stages -/
theorem handleBlock_eq (V : Variant) (F : Nat → Bool) (P : Nat → Nat) (vbits numRows : Nat) (s : St)
    (index data : Nat) :
    handleBlock V F P vbits numRows s index data s.bs =
      if isComplete s then (s, .done (s.n * s.bs)) else
      if s.n ≤ index ∧ s.l = 0 ∧
          (vbits < (unknowns s.done s.n).length ∨ numRows < (unknowns s.done s.n).length) then (s, .tooMany) else
      if (if s.n ≤ index ∧ s.l = 0 then { s with l := (unknowns s.done s.n).length } else s).l = 0 then
        stage1 V F (if s.n ≤ index ∧ s.l = 0 then { s with l := (unknowns s.done s.n).length } else s) index data
      else
        stage2 F P (if s.n ≤ index ∧ s.l = 0 then { s with l := (unknowns s.done s.n).length } else s) index data := by
  unfold handleBlock
  rw [if_neg (by simp)]
  rfl

/-- an inner outcome never maps to a refusal -/
theorem resOfOut_ne_tooMany (o : Out) : resOfOut o ≠ .tooMany := by
  cases o <;> simp [resOfOut]

/-- stage 1 never refuses -/
theorem stage1_ne_tooMany (V : Variant) (F : Nat → Bool) (s : St) (index data : Nat) :
    (stage1 V F s index data).2 ≠ .tooMany := by
  unfold stage1 call
  simp only
  repeat' split
  all_goals simp

/-- stage 2 never refuses -/
theorem stage2_ne_tooMany (F : Nat → Bool) (P : Nat → Nat) (s : St) (index data : Nat) :
    (stage2 F P s index data).2 ≠ .tooMany := by
  unfold stage2
  generalize handleParity F s (P index) data = r
  obtain ⟨s1, o1⟩ := r
  cases o1
  · simp only
    split
    · generalize finish F s1 = r2
      obtain ⟨s2, o2⟩ := r2
      cases o2 <;> simp [resOfOut]
    · simp
  · simp [resOfOut]
  · simp [resOfOut]

/-- fault free, stage 1 on a new index stores the block and sets the bit (either store order gives the same
    state) -/
theorem stage1_noFault (V : Variant) (s : St) (index data : Nat) (h : s.done.testBit index = false) :
    stage1 V noFault s index data =
      ({ pushLog s [.dStore index data] with ds := (index, data) :: s.ds, done := s.done ||| 2 ^ index },
       if isComplete { pushLog s [.dStore index data] with
            ds := (index, data) :: s.ds, done := s.done ||| 2 ^ index }
       then .done (s.n * s.bs) else .needMore) := by
  obtain ⟨b⟩ := V
  cases b <;> simp [stage1, h, call_noFault, pushLog]

/-- the value `strip` hands to the elimination loop -/
def stripVal (s : St) (row data : Nat) : Nat :=
  data ^^^ comboL (get s.ds) (fun i => row.testBit i && s.done.testBit i) (List.range s.n)

/-- fault free, stage 2 on an echelon state is `finishIf` of one of two explicit states: nothing stored (the row
    reduced to zero) or one new pivot `q` stored -/
theorem stage2_cases (P : Nat → Nat) (s : St) (index data : Nat) (hE : Ech s.l s.used s.ms)
    (hl : s.l = (unknowns s.done s.n).length) :
    ∃ (sel : List Nat) (R : List Call),
      (∀ p ∈ sel, p < s.l ∧ s.used.testBit p = true) ∧ (∀ c ∈ R, IsPivRead s.used c) ∧
      ((project s.done s.n (P index) ^^^ xorAll (sel.map (get s.ms)) = 0 ∧
          stage2 noFault P s index data =
            finishIf (pushLog s (R ++ stripLog (P index) s.done (List.range s.n)))) ∨
       (∃ q, q < s.l ∧ s.used.testBit q = false ∧
          (project s.done s.n (P index) ^^^ xorAll (sel.map (get s.ms))).testBit q = true ∧
          (∀ j, q < j → (project s.done s.n (P index) ^^^ xorAll (sel.map (get s.ms))).testBit j = false) ∧
          stage2 noFault P s index data =
            finishIf
              { pushLog s (.mSet q (project s.done s.n (P index) ^^^ xorAll (sel.map (get s.ms))) ::
                           .pStore q (stripVal s (P index) data ^^^ xorAll (sel.map (get s.ps))) ::
                           (R ++ stripLog (P index) s.done (List.range s.n))) with
                ps := (q, stripVal s (P index) data ^^^ xorAll (sel.map (get s.ps))) :: s.ps,
                ms := (q, project s.done s.n (P index) ^^^ xorAll (sel.map (get s.ms))) :: s.ms,
                used := s.used ||| 2 ^ q })) := by
  have hrow : ∀ j, s.l ≤ j → (project s.done s.n (P index)).testBit j = false := by
    intro j hj
    rw [testBit_project]
    have : ¬ j < (unknowns s.done s.n).length := by omega
    simp [this]
  obtain ⟨sel, R, hsel, hR, hcase⟩ :=
    elim_spec s.l (pushLog s (stripLog (P index) s.done (List.range s.n))) (project s.done s.n (P index))
      (stripVal s (P index) data) (by simpa using hE) (by simpa using hrow)
  simp only [pushLog_used, pushLog_ms, pushLog_ps, pushLog_pushLog] at hsel hR hcase
  refine ⟨sel, R, hsel, hR, ?_⟩
  have hstage : ∀ s2 : St, s2.l ≤ (unknowns s2.done s2.n).length →
      elim noFault s.l (pushLog s (stripLog (P index) s.done (List.range s.n))) (project s.done s.n (P index))
        (stripVal s (P index) data) = (s2, .ok) → stage2 noFault P s index data = finishIf s2 := by
    intro s2 hl2 he
    unfold stage2 handleParity
    simp only [strip_spec, pushLog_l, pushLog_done, pushLog_n]
    unfold stripVal at he
    simp only [he]
    unfold finishIf
    by_cases hc : isComplete s2 = true
    · obtain ⟨e1, e2, _⟩ := foldl_finStep_frame (unknowns s2.done s2.n) (List.range s2.l) s2
      simp only [hc, ↓reduceIte, finish_spec s2 hl2, e1, e2]
    · have hc' : isComplete s2 = false := by simpa using hc
      simp only [hc', Bool.false_eq_true, ↓reduceIte]
  rcases hcase with ⟨h0, he⟩ | ⟨q, hq, hqu, hqb, hqa, he⟩
  · exact Or.inl ⟨h0, hstage _ (by simp; omega) he⟩
  · refine Or.inr ⟨q, hq, hqu, hqb, hqa, hstage _ (by simp; omega) ?_⟩
    rw [he]
    simp [pushLog, Nat.add_assoc]

variable {n bs vbits numRows : Nat} {x : Nat → Nat}

/-- outcome of a fault-free step: never an error or a panic; `Done` carries `n * bs` and means complete -/
def GoodRes (n bs : Nat) (r : St × Res) : Prop :=
  r.2 = .needMore ∨ r.2 = .tooMany ∨ (r.2 = .done (n * bs) ∧ isComplete r.1 = true)

/-- a fault-free stage-2 step with a correctly coded block re-establishes the invariant and never fails -/
theorem stage2_inv {P : Nat → Nat} {s : St} (hC : Core n bs vbits numRows x s) (hD : DCnt n s false)
    (hl0 : s.l ≠ 0) (i : Nat) :
    Inv n bs vbits numRows x (stage2 noFault P s i (combo x (P i) n)).1 ∧
      GoodRes n bs (stage2 noFault P s i (combo x (P i) n)) := by
  have hl := hC.hst2 hl0
  obtain ⟨sel, R, hsel, hR, hcase⟩ := stage2_cases P s i (combo x (P i) n) hC.hech hl
  have hS : ∀ c ∈ stripLog (P i) s.done (List.range s.n), isRead c = true ∧ CallOK c s.log := by
    intro c hc
    simp only [stripLog, List.mem_reverse, List.mem_map, List.mem_filter, Bool.and_eq_true] at hc
    obtain ⟨j, ⟨_, _, hj⟩, rfl⟩ := hc
    refine ⟨rfl, exists_dStore_of_countP _ _ ?_⟩
    rw [hD j]; simp [hj]
  have hRr : ∀ c ∈ R, isRead c = true ∧ CallOK c s.log := by
    intro c hc
    obtain ⟨p, hp, rfl | rfl⟩ := hR c hc
    · exact ⟨rfl, exists_pStore_of_countP _ _ (by rw [hC.hcntP, hp]; simp)⟩
    · exact ⟨rfl, exists_mSet_of_countP _ _ (by rw [hC.hcntM, hp]; simp)⟩
  have hall : ∀ c ∈ R ++ stripLog (P i) s.done (List.range s.n), isRead c = true ∧ CallOK c s.log := by
    intro c hc
    rcases List.mem_append.1 hc with h | h
    · exact hRr c h
    · exact hS c h
  have hC1 := hC.pushReads _ hall
  have hD1 := hD.pushReads _ (fun c hc => (hall c hc).1)
  have good : ∀ s2 : St, Core n bs vbits numRows x s2 → DCnt n s2 false → s2.l ≠ 0 →
      Inv n bs vbits numRows x (finishIf s2).1 ∧ GoodRes n bs (finishIf s2) := by
    intro s2 h1 h2 h3
    obtain ⟨hi, hr⟩ := finishIf_inv h1 h2 h3
    exact ⟨hi, hr.elim Or.inl (fun h => Or.inr (Or.inr h))⟩
  rcases hcase with ⟨_, he⟩ | ⟨q, hq, hqu, hqb, hqa, he⟩
  · rw [he]; exact good _ hC1 hD1 hl0
  · rw [he]
    have key : stripVal s (P i) (combo x (P i) n) ^^^ xorAll (sel.map (get s.ps)) =
        combo (yOf x s.done s.n) (project s.done s.n (P i) ^^^ xorAll (sel.map (get s.ms))) s.l := by
      have h1 : stripVal s (P i) (combo x (P i) n) = combo (yOf x s.done s.n) (project s.done s.n (P i)) s.l := by
        unfold stripVal
        rw [comboL_congr (get s.ds) x _ _ (List.range s.n) (fun _ _ => rfl) (fun j _ hj => by
          simp only [Bool.and_eq_true] at hj
          exact hC.hds j hj.2)]
        rw [hC.hn, hl, hC.hn]
        exact strip_value x (P i) s.done n
      rw [h1, combo_xor,
        combo_xorAll (yOf x s.done s.n) s.l (get s.ms) (get s.ps) sel (fun p hp => hC.hps p (hsel p hp).2)]
    have hC2 := hC1.store q _ _ (by simpa using hq) (by simpa using hqu) hqb hqa
      (by simpa using key)
    have hD2 := hD1.store q (project s.done s.n (P i) ^^^ xorAll (sel.map (get s.ms)))
      (stripVal s (P i) (combo x (P i) n) ^^^ xorAll (sel.map (get s.ps)))
    have hrec : ({ pushLog (pushLog s (R ++ stripLog (P i) s.done (List.range s.n)))
            [.mSet q (project s.done s.n (P i) ^^^ xorAll (sel.map (get s.ms))),
             .pStore q (stripVal s (P i) (combo x (P i) n) ^^^ xorAll (sel.map (get s.ps)))] with
          ps := (q, stripVal s (P i) (combo x (P i) n) ^^^ xorAll (sel.map (get s.ps))) ::
                  (pushLog s (R ++ stripLog (P i) s.done (List.range s.n))).ps,
          ms := (q, project s.done s.n (P i) ^^^ xorAll (sel.map (get s.ms))) ::
                  (pushLog s (R ++ stripLog (P i) s.done (List.range s.n))).ms,
          used := (pushLog s (R ++ stripLog (P i) s.done (List.range s.n))).used ||| 2 ^ q } : St) =
        { pushLog s (.mSet q (project s.done s.n (P i) ^^^ xorAll (sel.map (get s.ms))) ::
                     .pStore q (stripVal s (P i) (combo x (P i) n) ^^^ xorAll (sel.map (get s.ps))) ::
                     (R ++ stripLog (P i) s.done (List.range s.n))) with
          ps := (q, stripVal s (P i) (combo x (P i) n) ^^^ xorAll (sel.map (get s.ps))) :: s.ps,
          ms := (q, project s.done s.n (P i) ^^^ xorAll (sel.map (get s.ms))) :: s.ms,
          used := s.used ||| 2 ^ q } := by
      simp [pushLog, Nat.add_assoc]
    rw [hrec] at hC2 hD2
    exact good _ hC2 hD2 hl0

/-- a fault-free stage-1 step with the original block of an index below `n` re-establishes the invariant and
    never fails -/
theorem stage1_inv {P : Nat → Nat} (hP : Contract n P) (V : Variant) {s : St} (hI : Inv n bs vbits numRows x s)
    (hl : s.l = 0) (hinc : isComplete s = false) (i : Nat) (hi : i < n) :
    Inv n bs vbits numRows x (stage1 V noFault s i (combo x (P i) n)).1 ∧
      GoodRes n bs (stage1 V noFault s i (combo x (P i) n)) := by
  have hC := hI.core
  have hdata : combo x (P i) n = x i := by rw [hP.1 i hi]; exact combo_two_pow x i n hi
  by_cases hd : s.done.testBit i = true
  · simp only [stage1, hd, ↓reduceIte, hinc, Bool.false_eq_true]
    exact ⟨hI, Or.inl rfl⟩
  · have hd' : s.done.testBit i = false := by simpa using hd
    rw [stage1_noFault V s i _ hd', hdata]
    have hnoused : ∀ p, s.used.testBit p = true → False := fun p hp => by
      have := (hC.hech p hp).1; omega
    have hI2 : Inv n bs vbits numRows x
        { pushLog s [.dStore i (x i)] with ds := (i, x i) :: s.ds, done := s.done ||| 2 ^ i } := by
      have hds2 : ∀ m, (s.done ||| 2 ^ i).testBit m = true → get ((i, x i) :: s.ds) m = x m := by
        intro m hm
        simp only [testBit_or_two_pow, Bool.or_eq_true, decide_eq_true_eq] at hm
        simp only [get_cons]
        by_cases hmi : m = i
        · simp [hmi]
        · simp only [hmi, ↓reduceIte]
          rcases hm with hm | hm
          · exact hC.hds m hm
          · exact absurd hm.symm hmi
      refine { core := ?_, cntD := ?_, full := ?_ }
      · refine { hn := hC.hn, hbs := hC.hbs, hds := hds2, hdn := ?_, hst2 := fun h => absurd hl h, hcap := hC.hcap,
                 hech := hC.hech, hps := fun p hp => (hnoused p hp).elim, hlogD := ?_, hcntP := ?_, hcntM := ?_,
                 hlogM := ?_, hlogP := ?_, hlogOK := ⟨trivial, hC.hlogOK⟩ }
        · intro m hm
          simp only [testBit_or_two_pow, Bool.or_eq_true, decide_eq_true_eq] at hm
          rcases hm with hm | hm
          · exact hC.hdn m hm
          · omega
        · intro m d hm
          simp only [pushLog_log, List.cons_append, List.nil_append, List.mem_cons, Call.dStore.injEq] at hm
          rcases hm with ⟨rfl, rfl⟩ | hm
          · exact ⟨hi, rfl⟩
          · exact hC.hlogD m d hm
        · intro p
          simp only [pushLog_log, List.cons_append, List.nil_append]
          rw [List.countP_cons_of_neg (by simp [isPStoreB])]
          exact hC.hcntP p
        · intro p
          simp only [pushLog_log, List.cons_append, List.nil_append]
          rw [List.countP_cons_of_neg (by simp [isMSetB])]
          exact hC.hcntM p
        · intro m row hm
          simp only [pushLog_log, List.cons_append, List.nil_append, List.mem_cons, reduceCtorEq, false_or] at hm
          exact hC.hlogM m row hm
        · intro m d hm
          simp only [pushLog_log, List.cons_append, List.nil_append, List.mem_cons, reduceCtorEq, false_or] at hm
          exact hC.hlogP m d hm
      · intro m
        have hold := hI.cntD m
        simp only [hl, bne_self_eq_false, Bool.false_and, Bool.or_false] at hold
        simp only [pushLog_log, pushLog_l, hl, bne_self_eq_false, Bool.false_and, Bool.or_false,
          List.cons_append, List.nil_append, testBit_or_two_pow]
        rw [List.countP_cons, hold]
        by_cases hmi : i = m
        · subst hmi; simp [isDStoreB, hd']
        · have : (i == m) = false := by simp [hmi]
          simp [isDStoreB, this, hmi]
      · intro hc m hm
        rw [isComplete_stage1 _ (by simpa using hl)] at hc
        exact hds2 m (hc m (by simpa [hC.hn] using hm))
    refine ⟨hI2, ?_⟩
    by_cases hc : isComplete { pushLog s [.dStore i (x i)] with ds := (i, x i) :: s.ds, done := s.done ||| 2 ^ i } = true
    · exact Or.inr (Or.inr ⟨by simp only [hc, ↓reduceIte, hC.hn, hC.hbs], hc⟩)
    · have hc' : isComplete { pushLog s [.dStore i (x i)] with ds := (i, x i) :: s.ds, done := s.done ||| 2 ^ i } = false := by
        simpa using hc
      exact Or.inl (by simp only [hc', Bool.false_eq_true, ↓reduceIte])

/-- every fault-free `handle_block` call with a correctly coded block keeps the invariant and never fails -/
theorem handleBlock_inv {P : Nat → Nat} (hP : Contract n P) (V : Variant) {s : St}
    (hI : Inv n bs vbits numRows x s) (i : Nat) :
    Inv n bs vbits numRows x (handleBlock V noFault P vbits numRows s i (combo x (P i) n) s.bs).1 ∧
      GoodRes n bs (handleBlock V noFault P vbits numRows s i (combo x (P i) n) s.bs) := by
  have hC := hI.core
  rw [handleBlock_eq]
  by_cases hc : isComplete s = true
  · simp only [hc, ↓reduceIte]
    exact ⟨hI, Or.inr (Or.inr ⟨by rw [hC.hn, hC.hbs], hc⟩)⟩
  have hc' : isComplete s = false := by simpa using hc
  simp only [hc', Bool.false_eq_true, ↓reduceIte]
  by_cases hpar : s.n ≤ i ∧ s.l = 0
  · by_cases hcap : vbits < (unknowns s.done s.n).length ∨ numRows < (unknowns s.done s.n).length
    · simp only [hpar, hcap, and_self, ↓reduceIte]
      exact ⟨hI, Or.inr (Or.inl rfl)⟩
    · have hne := unknowns_length_ne_zero s hpar.2 hc'
      simp only [hpar, hcap, and_self, and_false, ↓reduceIte, hne]
      have hnoused : ∀ p, s.used.testBit p = true → False := fun p hp => by
        have := (hC.hech p hp).1; omega
      have hC' : Core n bs vbits numRows x { s with l := (unknowns s.done s.n).length } := {
        hn := hC.hn, hbs := hC.hbs, hds := hC.hds, hdn := hC.hdn, hst2 := fun _ => rfl,
        hcap := ⟨by simp only; omega, by simp only; omega⟩,
        hech := fun p hp => (hnoused p hp).elim, hps := fun p hp => (hnoused p hp).elim,
        hlogD := hC.hlogD, hcntP := hC.hcntP, hcntM := hC.hcntM,
        hlogM := fun m row hm => by have := (hC.hlogM m row hm).2.2; omega,
        hlogP := fun m d hm => by have := hC.hlogP m d hm; omega,
        hlogOK := hC.hlogOK }
      have hD' : DCnt n { s with l := (unknowns s.done s.n).length } false := by
        intro m
        have := hI.cntD m
        simpa [hpar.2] using this
      exact stage2_inv hC' hD' hne i
  · have hnr : ¬ (s.n ≤ i ∧ s.l = 0 ∧
        (vbits < (unknowns s.done s.n).length ∨ numRows < (unknowns s.done s.n).length)) :=
      fun h => hpar ⟨h.1, h.2.1⟩
    rw [if_neg hnr]
    simp only [hpar, ↓reduceIte]
    by_cases hl : s.l = 0
    · simp only [hl, ↓reduceIte]
      have hi : i < n := by
        have : ¬ s.n ≤ i := fun h => hpar ⟨h, hl⟩
        rw [hC.hn] at this; omega
      exact stage1_inv hP V hI hl hc' i hi
    · simp only [hl, ↓reduceIte]
      have hD : DCnt n s false := by
        intro m
        have := hI.cntD m
        simpa [hc'] using this
      exact stage2_inv hC hD hl i

/-- the initial state satisfies the invariant -/
theorem inv_init (n bs vbits numRows : Nat) (x : Nat → Nat) :
    Inv n bs vbits numRows x { n := n, bs := bs } := by
  refine { core := ?_, cntD := fun m => by simp, full := ?_ }
  · exact {
      hn := rfl, hbs := rfl, hds := fun m hm => by simp at hm, hdn := fun m hm => by simp at hm,
      hst2 := fun h => absurd rfl h, hcap := ⟨Nat.zero_le _, Nat.zero_le _⟩,
      hech := fun p hp => by simp at hp, hps := fun p hp => by simp at hp,
      hlogD := fun m d hm => by simp at hm, hcntP := fun p => by simp, hcntM := fun p => by simp,
      hlogM := fun m row hm => by simp at hm, hlogP := fun m d hm => by simp at hm, hlogOK := trivial }
  · intro hc m hm
    rw [isComplete_stage1 _ rfl] at hc
    have := hc m hm
    simp at this

/-- every fault-free run keeps the invariant, yields only `NeedMore`/`TooMany`/`Done (n*bs)`, and a final `Done`
    means complete -/
theorem runBlocks_inv {P : Nat → Nat} (hP : Contract n P) (V : Variant) : ∀ (is : List Nat) (s : St),
    Inv n bs vbits numRows x s →
    Inv n bs vbits numRows x (runBlocks V noFault P vbits numRows (fun i => combo x (P i) n) s is).1 ∧
    (∀ res ∈ (runBlocks V noFault P vbits numRows (fun i => combo x (P i) n) s is).2,
        res = .needMore ∨ res = .tooMany ∨ res = .done (n * bs)) ∧
    (∀ b, (runBlocks V noFault P vbits numRows (fun i => combo x (P i) n) s is).2.getLast? = some (.done b) →
        isComplete (runBlocks V noFault P vbits numRows (fun i => combo x (P i) n) s is).1 = true) := by
  intro is
  induction is with
  | nil => intro s hI; simp [runBlocks, hI]
  | cons i is ih =>
    intro s hI
    obtain ⟨hI1, hg⟩ := handleBlock_inv hP V hI i
    obtain ⟨hI2, hres, hlast⟩ := ih _ hI1
    simp only [runBlocks]
    refine ⟨hI2, ?_, ?_⟩
    · intro res hres'
      rcases List.mem_cons.1 hres' with rfl | h
      · rcases hg with h | h | ⟨h, _⟩
        · exact Or.inl h
        · exact Or.inr (Or.inl h)
        · exact Or.inr (Or.inr h)
      · exact hres res h
    · intro b hb
      cases is with
      | nil =>
        simp only [runBlocks, List.getLast?_singleton, Option.some.injEq] at hb ⊢
        rcases hg with h | h | ⟨_, h⟩
        · rw [h] at hb; cases hb
        · rw [h] at hb; cases hb
        · exact h
      | cons j js =>
        apply hlast b
        simp only [runBlocks] at hb ⊢
        rwa [List.getLast?_cons_cons] at hb

/-- a run only looks at the blocks of the delivered indices -/
theorem runBlocks_congr (V : Variant) (F : Nat → Bool) (P : Nat → Nat) (vbits numRows : Nat) (blk blk' : Nat → Nat) :
    ∀ (is : List Nat) (s : St), (∀ i ∈ is, blk i = blk' i) →
      runBlocks V F P vbits numRows blk s is = runBlocks V F P vbits numRows blk' s is := by
  intro is
  induction is with
  | nil => intro s _; rfl
  | cons i is ih =>
    intro s h
    simp only [runBlocks]
    rw [h i List.mem_cons_self, ih _ (fun j hj => h j (List.mem_cons_of_mem _ hj))]

end Fuota.Recon
