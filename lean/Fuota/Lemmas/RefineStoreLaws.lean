import Fuota.Lemmas.RefineEffects
/-!
# "Lawful store under protocol": each flash-backed store returns what was written to an erased place and no write
disturbs what any other index of any store returns
-/
namespace Fuota.Updater
open Fuota.Nor Fuota.Fs Fuota.FlashAdapters Fuota.Recon

/-- **data store.** After `write_segment i buf` on a still-erased segment, `read_segment i` returns `buf`; every other
    segment, every parity block and every matrix row reads as before. -/
theorem data_store_lawful {E : Nat → Prop} {u : Upd} {d : Dev} (L : Lawful' E u d) {i : Nat} (hi : i < u.n)
    (hE : E i) (buf : List Nat) (hb : IsBytes buf) (hlen : buf.length = u.bs) :
    (u.fw.writeSegment i buf).run d = (.ok u.fw, afterWriteSegment u d i buf) ∧
    (u.fw.readSegment i u.bs).run (afterWriteSegment u d i buf) = (.ok buf, afterWriteSegment u d i buf) ∧
    (∀ j, j < u.n → j ≠ i → (u.fw.readSegment j u.bs).run (afterWriteSegment u d i buf) =
      (.ok (d.flash.read (segAddr u j) u.bs), afterWriteSegment u d i buf)) ∧
    (∀ m, m < u.maxL → (pGet u m u.bs).run (afterWriteSegment u d i buf) =
      (.ok (d.flash.read (pAddr u m) u.bs), afterWriteSegment u d i buf)) ∧
    (∀ m, m < u.maxL → (mRow u m).run (afterWriteSegment u d i buf) =
      (.ok (bytesToNat (flipBit (d.flash.read (rAddr u m) (m / 8 + 1)) m)), afterWriteSegment u d i buf)) := by
  have g := L.geo
  have her := L.herD i hi hE
  obtain ⟨_, hsz, _, hrd, hfr⟩ := seg_write_effect g L.wf hi her buf hb hlen
  have hG' : Good (afterWriteSegment u d i buf) := (L.good.prog _ _).prog _ _
  have hflash : (afterWriteSegment u d i buf).flash =
      (d.flash.apply (.program (segAddr u i) buf)).apply (.program (statAddr u i) [0x33]) := rfl
  have g' : Geo u (afterWriteSegment u d i buf).flash.size := by rw [hflash, hsz]; exact g
  obtain ⟨h1, h2, h3, h4, h5, h6, h7⟩ := g.slots
  obtain ⟨r1, r2, r3, r4⟩ := g.regions.1 i hi
  refine ⟨writeSegment_run g L.good hi buf hlen, ?_, ?_, ?_, ?_⟩
  · rw [readSegment_run g' hG' hi, hflash, hrd]
  · intro j hj hji
    obtain ⟨q1, q2, q3, q4⟩ := g.regions.1 j hj
    have hd := g.disjoint.1 j i hji
    rw [readSegment_run g' hG' hj, hflash,
      read_congr _ d.flash _ _ (fun x hx1 hx2 => hfr x (by omega) (by omega))]
  · intro m hm
    obtain ⟨q1, q2, q3, q4⟩ := g.regions.2 m hm
    rw [pGet_run g' hG' hm, hflash, read_congr _ d.flash _ _ (fun x hx1 hx2 => hfr x (by omega) (by omega))]
  · intro m hm
    obtain ⟨q1, q2, q3, q4⟩ := g.regions.2 m hm
    rw [mRow_run g' hG' hm, hflash, read_congr _ d.flash _ _ (fun x hx1 hx2 => hfr x (by omega) (by omega))]

/-- **parity store.** After `pStore q data` on a still-erased block, `pGet q` returns `data`; every other parity
    block, every data segment and every matrix row reads as before. -/
theorem parity_store_lawful {E : Nat → Prop} {u : Upd} {d : Dev} (L : Lawful' E u d) {q : Nat} (hq : q < u.maxL)
    (hqu : u.used.testBit q = false) (data : List Nat) (hb : IsBytes data) (hlen : data.length = u.bs) :
    (pStore u q data).run d = (.ok (), d.prog (pAddr u q) data) ∧
    (pGet u q u.bs).run (d.prog (pAddr u q) data) = (.ok data, d.prog (pAddr u q) data) ∧
    (∀ m, m < u.maxL → m ≠ q → (pGet u m u.bs).run (d.prog (pAddr u q) data) =
      (.ok (d.flash.read (pAddr u m) u.bs), d.prog (pAddr u q) data)) ∧
    (∀ j, j < u.n → (u.fw.readSegment j u.bs).run (d.prog (pAddr u q) data) =
      (.ok (d.flash.read (segAddr u j) u.bs), d.prog (pAddr u q) data)) ∧
    (∀ m, m < u.maxL → (mRow u m).run (d.prog (pAddr u q) data) =
      (.ok (bytesToNat (flipBit (d.flash.read (rAddr u m) (m / 8 + 1)) m)), d.prog (pAddr u q) data)) := by
  have g := L.geo
  have her := (L.herP q hq hqu).1
  have hG' : Good (d.prog (pAddr u q) data) := L.good.prog _ _
  have g' : Geo u (d.prog (pAddr u q) data).flash.size := by rw [Dev.prog_size]; exact g
  obtain ⟨h1, h2, h3, h4, h5, h6, h7⟩ := g.slots
  obtain ⟨r1, r2, r3, r4⟩ := g.regions.2 q hq
  refine ⟨pStore_run g L.good hq data hlen, ?_, ?_, ?_, ?_⟩
  · rw [pGet_run g' hG' hq, Dev.prog_flash]
    have := read_prog_same d.flash (pAddr u q) data hb (by omega) (by rw [hlen]; exact her)
    rw [hlen] at this; rw [this]
  · intro m hm hmq
    obtain ⟨q1, q2, q3, q4⟩ := g.regions.2 m hm
    have hd := g.disjoint.2.1 m q hmq
    rw [pGet_run g' hG' hm, Dev.prog_flash, read_prog_other _ _ _ _ _ (by omega)]
  · intro j hj
    obtain ⟨q1, q2, q3, q4⟩ := g.regions.1 j hj
    rw [readSegment_run g' hG' hj, Dev.prog_flash, read_prog_other _ _ _ _ _ (by omega)]
  · intro m hm
    obtain ⟨q1, q2, q3, q4⟩ := g.regions.2 m hm
    rw [mRow_run g' hG' hm, Dev.prog_flash, read_prog_other _ _ _ _ _ (by omega)]

/-- **matrix store.** After `mSetRow q row` on a still-erased row place, for a row without bits above `q`, `mRow q`
    returns `row`; every other matrix row, every parity block and every data segment reads as before. -/
theorem matrix_store_lawful {E : Nat → Prop} {u : Upd} {d : Dev} (L : Lawful' E u d) {q : Nat} (hq : q < u.maxL)
    (hqu : u.used.testBit q = false) (row : Nat) (hra : ∀ j, q < j → row.testBit j = false) :
    (mSetRow u q row).run d = (.ok (), d.prog (rAddr u q) (rowBytes q row)) ∧
    (mRow u q).run (d.prog (rAddr u q) (rowBytes q row)) = (.ok row, d.prog (rAddr u q) (rowBytes q row)) ∧
    (∀ m, m < u.maxL → m ≠ q → (mRow u m).run (d.prog (rAddr u q) (rowBytes q row)) =
      (.ok (bytesToNat (flipBit (d.flash.read (rAddr u m) (m / 8 + 1)) m)), d.prog (rAddr u q) (rowBytes q row))) ∧
    (∀ m, m < u.maxL → (pGet u m u.bs).run (d.prog (rAddr u q) (rowBytes q row)) =
      (.ok (d.flash.read (pAddr u m) u.bs), d.prog (rAddr u q) (rowBytes q row))) ∧
    (∀ j, j < u.n → (u.fw.readSegment j u.bs).run (d.prog (rAddr u q) (rowBytes q row)) =
      (.ok (d.flash.read (segAddr u j) u.bs), d.prog (rAddr u q) (rowBytes q row))) := by
  have g := L.geo
  have her := (L.herP q hq hqu).2
  obtain ⟨hrB, hrL⟩ := rowBytes_spec q row
  have hG' : Good (d.prog (rAddr u q) (rowBytes q row)) := L.good.prog _ _
  have g' : Geo u (d.prog (rAddr u q) (rowBytes q row)).flash.size := by rw [Dev.prog_size]; exact g
  obtain ⟨h1, h2, h3, h4, h5, h6, h7⟩ := g.slots
  obtain ⟨r1, r2, r3, r4⟩ := g.regions.2 q hq
  refine ⟨mSetRow_run g L.good hq row, ?_, ?_, ?_, ?_⟩
  · rw [mRow_run g' hG' hq, Dev.prog_flash]
    have := read_prog_same d.flash (rAddr u q) (rowBytes q row) hrB (by omega) (by rw [hrL]; exact her)
    rw [hrL] at this; rw [this, bytesToNat_rowBytes q row hra]
  · intro m hm hmq
    obtain ⟨q1, q2, q3, q4⟩ := g.regions.2 m hm
    have hd := g.disjoint.2.2 m q hmq
    rw [mRow_run g' hG' hm, Dev.prog_flash, read_prog_other _ _ _ _ _ (by omega)]
  · intro m hm
    obtain ⟨q1, q2, q3, q4⟩ := g.regions.2 m hm
    rw [pGet_run g' hG' hm, Dev.prog_flash, read_prog_other _ _ _ _ _ (by omega)]
  · intro j hj
    obtain ⟨q1, q2, q3, q4⟩ := g.regions.1 j hj
    rw [readSegment_run g' hG' hj, Dev.prog_flash, read_prog_other _ _ _ _ _ (by omega)]

end Fuota.Updater
