import Fuota.Lemmas.RefineFaultRead
/-!
# Running the gated delivery: a failed read outside `finish` stops the call before its first program
-/
namespace Fuota.Updater
open Fuota.Nor Fuota.Fs Fuota.FlashAdapters Fuota.Recon Fuota.Layout Fuota.Gf2

/-- the gate around a read that succeeds without changing the device -/
theorem readC_run {α : Type} {m : M α} {d : Dev} {a : α} (h : m.run d = (.ok a, d)) (c : Option Nat) :
    (readC m c).run d = match c with
      | none => (.ok (a, none), d)
      | some 0 => (.error (.spi .custom), d)
      | some (k + 1) => (.ok (a, some k), d) := by
  match c with
  | none => show (m >>= fun a => pure (a, none)).run d = _; rw [run_bind, h]; rfl
  | some 0 => rfl
  | some (k + 1) => show (m >>= fun a => pure (a, some k)).run d = _; rw [run_bind, h]; rfl

/-- the gated `strip` on a powered device only reads: it fails with the read error or returns what `strip` returns -/
theorem stripC_run {u : Upd} {d : Dev} (g : Geo u d.flash.size) (hlive : d.dead = false)
    (hdone : ∀ i, u.done.testBit i = true → i < u.n) (row : Nat) : ∀ (is : List Nat) (data : List Nat)
    (c : Option Nat), (stripC u row is data c).run d = (.error (.spi .custom), d) ∨
      ∃ c', (stripC u row is data c).run d = (.ok (stripF u d.flash row is data, c'), d)
  | [], data, c => Or.inr ⟨c, rfl⟩
  | i :: is, data, c => by
    unfold stripC stripF
    by_cases h : (row.testBit i && u.done.testBit i) = true
    · have hd : u.done.testBit i = true := by simp at h; exact h.2
      have hin := hdone i hd
      obtain ⟨r1, r2, r3, r4⟩ := g.regions.1 i hin
      obtain ⟨h1, h2, h3, _⟩ := g.slots
      have hr : (u.fw.readSegment i u.bs).run d = (.ok (d.flash.read (segAddr u i) u.bs), d) := by
        rw [readSegment_eq g hin, readTo_run_live hlive _ _ (by omega)]
      simp only [h, ↓reduceIte, run_bind, readC_run hr]
      match c with
      | none => exact stripC_run g hlive hdone row is _ none
      | some 0 => exact Or.inl rfl
      | some (k + 1) => exact stripC_run g hlive hdone row is _ (some k)
    · simp only [h, Bool.false_eq_true, ↓reduceIte]
      exact stripC_run g hlive hdone row is data c

/-- the gated elimination loop on a powered device: it fails with the read error before any program, or runs as the
    elimination loop -/
theorem elimC_run {u : Upd} {d : Dev} (g : Geo u d.flash.size) (hlive : d.dead = false) : ∀ (wh row : Nat)
    (data : List Nat) (c : Option Nat), wh ≤ u.maxL → data.length = u.bs →
    (elimC u wh row data c).run d = (.error (.spi .custom), d) ∨
      (elimC u wh row data c).run d = (Updater.elim u wh row data).run d
  | 0, _, _, _, _, _ => Or.inr rfl
  | wh + 1, row, data, c, hwh, hlen => by
    have hm : wh < u.maxL := by omega
    obtain ⟨r1, r2, r3, r4⟩ := g.regions.2 wh hm
    obtain ⟨h1, h2, _, h3, _, _, h4⟩ := g.slots
    unfold elimC Updater.elim
    by_cases h : (row.testBit wh && u.used.testBit wh) = true
    · have hp : (pGet u wh data.length).run d = (.ok (d.flash.read (pAddr u wh) u.bs), d) := by
        rw [hlen, pGet_eq g hm, readTo_run_live hlive _ _ (by omega)]
      have hr : (mRow u wh).run d = (.ok (bytesToNat (flipBit (d.flash.read (rAddr u wh) (wh / 8 + 1)) wh)), d) := by
        rw [mRow_eq g hm, run_bind, readTo_run_live hlive _ _ (by omega)]; rfl
      simp only [h, ↓reduceIte, run_bind, readC_run hp, hp, hr]
      have hlen' : (xorBytes data (d.flash.read (pAddr u wh) u.bs)).length = u.bs := by
        rw [length_xorBytes]; exact hlen
      match c with
      | none =>
        simp only [readC_run hr]
        exact elimC_run g hlive wh _ _ none (by omega) hlen'
      | some 0 => exact Or.inl rfl
      | some 1 =>
        simp only [readC_run hr]
        exact Or.inl trivial
      | some (k + 2) =>
        simp only [readC_run hr]
        exact elimC_run g hlive wh _ _ (some k) (by omega) hlen'
    · simp only [h, Bool.false_eq_true, ↓reduceIte]
      by_cases h2 : row.testBit wh = true
      · simp only [h2, ↓reduceIte]
        exact Or.inr trivial
      · simp only [h2, Bool.false_eq_true, ↓reduceIte]
        exact elimC_run g hlive wh row data c (by omega) hlen

/-- stage 2 of the gated `handle_block` -/
def stage2C (ffr : Bool) (u : Upd) (index : Nat) (data : List Nat) (c : Option Nat) : MU (Option Bool) := do
  let row ← match updaterRow ffr u.n index with
    | none => throw MErr.panic
    | some r => pure r
  let (d, c') ← liftM (stripC u row (List.range u.n) data c)
  let used ← liftM (elimC u u.l (Recon.project u.done u.n row) d c')
  let u := { u with used := used }
  setU u
  if rcComplete u then
    let u' ← liftM (finishOuter (Recon.unknowns u.done u.n) (List.range u.l) u)
    setU u'
    return some true
  else return some false

/-- the gated `handle_block` with the right buffer length, decomposed like `handleBlock_eqU'` -/
theorem handleBlockC_eqU (ffr : Bool) (u : Upd) (d : Dev) (index : Nat) (data : List Nat) (c : Option Nat)
    (hlen : data.length = u.bs) :
    (handleBlockC ffr index data c).run (u, d) =
      if rcComplete u then (.ok (some true), (u, d)) else
      if u.n ≤ index ∧ u.l = 0 ∧ (VBITS < (unknowns u.done u.n).length ∨ u.maxL < (unknowns u.done u.n).length)
      then (.ok none, (u, d)) else
      if (adjU u index).l = 0 then (stage1U (adjU u index) index data).run (adjU u index, d)
      else (stage2C ffr (adjU u index) index data c).run (adjU u index, d) := by
  unfold handleBlockC adjU
  simp only [runU_bind, runU_getU, hlen, ne_eq, not_true_eq_false, ↓reduceIte]
  by_cases hc : rcComplete u = true
  · simp only [hc, ↓reduceIte]; rfl
  · simp only [hc, Bool.false_eq_true, ↓reduceIte]
    split
    · rfl
    · simp only [runU_bind, runU_setU]
      generalize (if u.n ≤ index ∧ u.l = 0 then { u with l := (unknowns u.done u.n).length } else u) = u1
      by_cases h : u1.l = 0
      · rw [if_pos h, if_pos h]; rfl
      · rw [if_neg h, if_neg h]; rfl

/-- stage 2 with gated reads on a lawful stage-2 state: the read error with nothing changed, or stage 2 -/
theorem stage2C_run (ffr : Bool) {u : Upd} {d : Dev} {E : Nat → Prop} (L : Lawful' E u d) (index : Nat)
    (bytes : List Nat) (hlen : bytes.length = u.bs) (c : Option Nat) :
    (stage2C ffr u index bytes c).run (u, d) = (.error (.spi .custom), (u, d)) ∨
    (stage2C ffr u index bytes c).run (u, d) = (stage2U ffr u index bytes).run (u, d) := by
  have g := L.geo
  have hlive := L.good.alive
  unfold stage2C stage2U
  cases hrow : updaterRow ffr u.n index with
  | none => right; rfl
  | some r =>
    have hs := strip_run_live g hlive L.hdone r (List.range u.n) bytes
    simp only [runU_bind, runU_pure, runU_liftM, hs]
    rcases stripC_run g hlive L.hdone r (List.range u.n) bytes c with h | ⟨c', h⟩
    · left; rw [h]
    · rw [h]
      simp only
      rcases elimC_run g hlive u.l (project u.done u.n r) (stripF u d.flash r (List.range u.n) bytes) c' L.hl
          (by rw [length_stripF]; exact hlen) with h2 | h2
      · left; rw [h2]
      · right; rw [h2]

/-- **the gated `handle_block` on a lawful state**: either the read fault fires — the call answers the read error,
the device is untouched and the in-memory updater is the stage-adjusted one — or the call runs exactly as
`handle_block` -/
theorem handleBlockC_run (ffr : Bool) {u : Upd} {d : Dev} (L : Lawful u d) (index : Nat) (bytes : List Nat)
    (hlen : bytes.length = u.bs) (c : Option Nat) :
    (handleBlockC ffr index bytes c).run (u, d) = (.error (.spi .custom), (adjU u index, d)) ∨
    (handleBlockC ffr index bytes c).run (u, d) = (handleBlock ffr index bytes).run (u, d) := by
  rw [handleBlockC_eqU ffr u d index bytes c hlen, handleBlock_eqU' ffr u d index bytes hlen]
  by_cases hc : rcComplete u = true
  · right; rw [if_pos hc, if_pos hc]
  rw [if_neg hc, if_neg hc]
  by_cases hnt : u.n ≤ index ∧ u.l = 0 ∧
      (VBITS < (unknowns u.done u.n).length ∨ u.maxL < (unknowns u.done u.n).length)
  · right; rw [if_pos hnt, if_pos hnt]
  rw [if_neg hnt, if_neg hnt]
  by_cases hl : (adjU u index).l = 0
  · right; rw [if_pos hl, if_pos hl]
  rw [if_neg hl, if_neg hl]
  have hinc : rcComplete u = false := by simpa using hc
  obtain ⟨L1, _⟩ := adjU_stage2 L hinc index hnt hl
  have hbs : (adjU u index).bs = u.bs := (adjU_fields u index).2.2.2.1
  exact stage2C_run ffr L1 index bytes (by rw [hbs]; exact hlen) c

/-- the gated `handle_segment` with a non-zero fragment number is the gated `handle_block` on the 0-based index -/
theorem handleSegmentC_run (ffr : Bool) (idx1 : Nat) (bytes : List Nat) (c : Option Nat) (h : idx1 ≠ 0)
    (s : Upd × Dev) :
    (handleSegmentC ffr idx1 bytes c).run s =
      match (handleBlockC ffr (idx1 - 1) bytes c).run s with
      | (.ok (some true), s') => (.ok .complete, ({ s'.1 with complete := true }, s'.2))
      | (.ok _, s') => (.ok .consumed, s')
      | (.error e, s') => (.error e, s') := by
  unfold handleSegmentC
  simp only [h, ↓reduceIte, runU_bind]
  generalize (handleBlockC ffr (idx1 - 1) bytes c).run s = r
  obtain ⟨r, s'⟩ := r
  cases r with
  | error e => rfl
  | ok o =>
    cases o with
    | none => rfl
    | some b => cases b <;> rfl

/-- a delivery to the stage-adjusted updater is the delivery to the updater (stage 2) -/
theorem handleBlock_adjU (ffr : Bool) {u : Upd} {d : Dev} (L : Lawful u d) (index : Nat) (bytes : List Nat)
    (hlen : bytes.length = u.bs) (hinc : rcComplete u = false) (hnt : ¬ tooManyCond u index)
    (hl : (adjU u index).l ≠ 0) :
    (handleBlock ffr index bytes).run (adjU u index, d) = (handleBlock ffr index bytes).run (u, d) := by
  obtain ⟨_, hinc1⟩ := adjU_stage2 L hinc index hnt hl
  have hbs : (adjU u index).bs = u.bs := (adjU_fields u index).2.2.2.1
  have hadj : adjU (adjU u index) index = adjU u index := by
    show (if (adjU u index).n ≤ index ∧ (adjU u index).l = 0 then _ else adjU u index) = _
    rw [if_neg (fun h => hl h.2)]
  rw [handleBlock_stage2_eq ffr u d index bytes hlen hinc hnt hl,
    handleBlock_stage2_eq ffr (adjU u index) d index bytes (by rw [hbs]; exact hlen) hinc1
      (fun h => hl h.2.1) (by rw [hadj]; exact hl), hadj]

/-- **one failed flash read outside `finish`.** On a lawful state, a genuine fragment is delivered with read fault
`c` pending. Either the delivery runs exactly as `handle_segment` (the fault is not reached by a read of `strip` or
of the elimination loop), or: the call answers the read error; the device is untouched; the in-memory updater is the
stage-adjusted one; that state satisfies the session invariant; and delivering the fragment to it is — as a run, so
in answer, device and updater — the delivery to the state before the call. -/
theorem read_fault_call (ffr : Bool) {u : Upd} {d : Dev} (L : Lawful u d) (index : Nat) (bytes : List Nat)
    (hlen : bytes.length = u.bs) (c : Option Nat) :
    (handleSegmentC ffr (index + 1) bytes c).run (u, d) = (handleSegment ffr (index + 1) bytes).run (u, d) ∨
    ((handleSegmentC ffr (index + 1) bytes c).run (u, d) = (.error (.spi .custom), (adjU u index, d)) ∧
      Lawful (adjU u index) d ∧
      (handleSegment ffr (index + 1) bytes).run (adjU u index, d) = (handleSegment ffr (index + 1) bytes).run (u, d)) := by
  have hne : index + 1 ≠ 0 := by omega
  rw [handleSegmentC_run ffr (index + 1) bytes c hne, handleSegment_run ffr (index + 1) bytes hne,
    handleSegment_run ffr (index + 1) bytes hne, Nat.add_sub_cancel]
  rcases handleBlockC_run ffr L index bytes hlen c with h | h
  · right
    rw [h]
    -- the fault fired: the call was in stage 2
    have hstage : rcComplete u = false ∧ ¬ tooManyCond u index ∧ (adjU u index).l ≠ 0 := by
      rw [handleBlockC_eqU ffr u d index bytes c hlen] at h
      by_cases hc : rcComplete u = true
      · rw [if_pos hc] at h; cases h
      rw [if_neg hc] at h
      by_cases hnt : u.n ≤ index ∧ u.l = 0 ∧
          (VBITS < (unknowns u.done u.n).length ∨ u.maxL < (unknowns u.done u.n).length)
      · rw [if_pos hnt] at h; cases h
      rw [if_neg hnt] at h
      refine ⟨by simpa using hc, hnt, fun hl => ?_⟩
      rw [if_pos hl] at h
      -- stage 1 on a lawful state does not answer an error
      have hinc : rcComplete u = false := by simpa using hc
      have hpar : ¬ (u.n ≤ index ∧ u.l = 0) := by
        intro hpar
        have hadj : adjU u index = { u with l := (unknowns u.done u.n).length } := by unfold adjU; rw [if_pos hpar]
        rw [hadj] at hl
        have hcA : isComplete (abs (u, d)) = false := by rw [← rcComplete_eq]; exact hinc
        exact unknowns_length_ne_zero (abs (u, d)) hpar.2 hcA hl
      have hadj : adjU u index = u := by unfold adjU; rw [if_neg hpar]
      rw [hadj] at h hl
      have hi : index < u.n := by
        have : ¬ u.n ≤ index := fun hh => hpar ⟨hh, hl⟩
        omega
      unfold stage1U at h
      by_cases hd : u.done.testBit index = true
      · simp only [hd, ↓reduceIte, runU_pure] at h; cases h
      · have hd' : u.done.testBit index = false := by simpa using hd
        simp only [hd', Bool.false_eq_true, ↓reduceIte, runU_bind, runU_liftM,
          writeSegment_run L.base.geo L.base.good hi bytes hlen, runU_setU, runU_pure] at h
        cases h
    obtain ⟨hinc, hnt, hl⟩ := hstage
    obtain ⟨L1, hinc1⟩ := adjU_stage2 L hinc index hnt hl
    refine ⟨rfl, ⟨L1.mono (fun i hi => hi.2), fun hc => by rw [hinc1] at hc; cases hc⟩, ?_⟩
    rw [handleBlock_adjU ffr L index bytes hlen hinc hnt hl]
  · left
    rw [h]
    generalize (handleBlock ffr index bytes).run (u, d) = q
    obtain ⟨r, s'⟩ := q
    cases r with
    | error e => rfl
    | ok o =>
      cases o with
      | none => rfl
      | some b => cases b <;> rfl

end Fuota.Updater
