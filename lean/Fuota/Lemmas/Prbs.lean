import Fuota.Model.Lfdbt
/-!
# PRBS23 arithmetic and termination of the draw loop (helper lemmas of C10)

* `prbs23_arith`, `prbs23_cases`: the bit-twiddling step in plain arithmetic;
* `stuck_pair`, `stuck_pair3`: what two consecutive rejected draws imply;
* `draw_terminates`: for `2 ≤ M ≤ 2^16` every draw started from a `u32` state ends within 38 PRBS steps.

Why: for `M = 2^k` the modulus is `S = 2^k + 1` and a draw is rejected iff `x ≡ -1 (mod S)`.
With `y = prbs23 x` we have `2y + b0 = x + 2^23·fb`; if `x ≡ y ≡ -1` then `S ∣ 1 - b0 + 2^23·fb`, which for
`2 ≤ k ≤ 16` forces `b0 = 1, fb = 0` (`S ∤ 1`, `S ∤ 2^23`, `S ∤ 2^23 + 1`), i.e. `x + 1 = 2 (y + 1)`: along a run of
rejected draws `x + 1` halves exactly, so the run is shorter than `log2 (x + 1) ≤ 32`.
For `M = 2` (`S = 3 ∣ 2^23 + 1`) a rejected pair only gives `bit 5 = 1 ∧ fb = ¬b0`; after five such steps the low
five bits are all ones and the same halving argument applies.
-/
namespace Fuota.Lfdbt

theorem bit_xor (a b : Nat) (ha : a < 2) (hb : b < 2) : a ^^^ b = (a + b) % 2 := by
  have h1 : a = 0 ∨ a = 1 := by omega
  have h2 : b = 0 ∨ b = 1 := by omega
  rcases h1 with rfl | rfl <;> rcases h2 with rfl | rfl <;> decide

theorem and32 (x : Nat) : x &&& 32 = 32 * (x / 32 % 2) := by
  have h1 : (x &&& 32) / 2 ^ 5 = x / 32 % 2 := by
    rw [Nat.and_div_two_pow]; exact Nat.and_one_is_mod _
  have h2 : (x &&& 32) % 2 ^ 5 = 0 := by
    rw [Nat.and_mod_two_pow]; exact Nat.and_zero _
  omega

theorem prbs23_arith (x : Nat) : prbs23 x = x / 2 + 4194304 * ((x % 2 + x / 32 % 2) % 2) := by
  unfold prbs23
  show x / 2 + (((x &&& 1) ^^^ ((x &&& 32) >>> 5)) <<< 22) = _
  rw [Nat.and_one_is_mod, and32, Nat.shiftRight_eq_div_pow, Nat.shiftLeft_eq]
  rw [show 32 * (x / 32 % 2) / 2 ^ 5 = x / 32 % 2 by omega]
  rw [bit_xor _ _ (by omega) (by omega)]; omega

theorem spec_prbs23_arith (x : Nat) : Spec.prbs23 x = x / 2 + 4194304 * ((x % 2 + x / 32 % 2) % 2) := by
  unfold Spec.prbs23
  show x / 2 + ((x &&& 1) ^^^ ((x &&& 32) / 32)) * 2 ^ 22 = _
  rw [Nat.and_one_is_mod, and32]
  rw [show 32 * (x / 32 % 2) / 32 = x / 32 % 2 by omega]
  rw [bit_xor _ _ (by omega) (by omega)]; omega

/-- the implementation's step function is the specification's -/
theorem prbs23_eq_spec (x : Nat) : prbs23 x = Spec.prbs23 x := by
  rw [prbs23_arith, spec_prbs23_arith]

/-- the four cases of (bit 0, bit 5) -/
theorem prbs23_cases (x : Nat) :
    (x % 2 = 0 ∧ x / 32 % 2 = 0 ∧ prbs23 x = x / 2) ∨ (x % 2 = 1 ∧ x / 32 % 2 = 0 ∧ prbs23 x = x / 2 + 4194304) ∨
    (x % 2 = 0 ∧ x / 32 % 2 = 1 ∧ prbs23 x = x / 2 + 4194304) ∨ (x % 2 = 1 ∧ x / 32 % 2 = 1 ∧ prbs23 x = x / 2) := by
  rw [prbs23_arith]
  rcases Nat.mod_two_eq_zero_or_one x with h | h <;> rcases Nat.mod_two_eq_zero_or_one (x / 32) with h' | h' <;>
    rw [h, h'] <;> simp

/-- no `u32` overflow in `(x / 2) + ((b0 ^ b1) << 22)` -/
theorem prbs23_lt {x : Nat} (h : x < 2 ^ 32) : prbs23 x < 2 ^ 32 := by
  rcases prbs23_cases x with ⟨_, _, c⟩ | ⟨_, _, c⟩ | ⟨_, _, c⟩ | ⟨_, _, c⟩ <;> rw [c] <;> omega

/-- the 23-bit register stays a 23-bit register -/
theorem prbs23_lt23 {x : Nat} (h : x < 2 ^ 23) : prbs23 x < 2 ^ 23 := by
  rcases prbs23_cases x with ⟨_, _, c⟩ | ⟨_, _, c⟩ | ⟨_, _, c⟩ | ⟨_, _, c⟩ <;> rw [c] <;> omega

theorem dvd_succ_of_stuck {S x : Nat} (hS : 1 < S) (h : x % S = S - 1) : S ∣ x + 1 := by
  apply Nat.dvd_of_mod_eq_zero
  rw [Nat.add_mod, h, Nat.mod_eq_of_lt hS, show S - 1 + 1 = S by omega, Nat.mod_self]

/-- two consecutive rejected draws (`≡ -1 mod S`): bit 0 was 1 and the feedback bit 0, so `x + 1` halves exactly -/
theorem stuck_pair {S x : Nat} (hS : 1 < S) (h23 : ¬ S ∣ 8388608) (h23' : ¬ S ∣ 8388609)
    (h1 : x % S = S - 1) (h2 : prbs23 x % S = S - 1) : 2 * (prbs23 x + 1) = x + 1 := by
  have d1 := dvd_succ_of_stuck hS h1
  have d2 : S ∣ 2 * (prbs23 x + 1) := Nat.dvd_mul_left_of_dvd (dvd_succ_of_stuck hS h2) 2
  rcases prbs23_cases x with ⟨a, _, c⟩ | ⟨a, _, c⟩ | ⟨a, _, c⟩ | ⟨a, _, c⟩ <;> rw [c] at d2 ⊢
  · exfalso
    have e : 2 * (x / 2 + 1) = (x + 1) + 1 := by omega
    rw [e] at d2
    have := Nat.le_of_dvd (by omega) ((Nat.dvd_add_right d1).mp d2)
    omega
  · exfalso
    have e : 2 * (x / 2 + 4194304 + 1) = (x + 1) + 8388608 := by omega
    rw [e] at d2
    exact h23 ((Nat.dvd_add_right d1).mp d2)
  · exfalso
    have e : 2 * (x / 2 + 4194304 + 1) = (x + 1) + 8388609 := by omega
    rw [e] at d2
    exact h23' ((Nat.dvd_add_right d1).mp d2)
  · omega

/-- modulus 3 (`M = 2`): two consecutive rejected draws force bit 5 = 1, and if bit 0 = 1 the exact halving -/
theorem stuck_pair3 {x : Nat} (h1 : x % 3 = 2) (h2 : prbs23 x % 3 = 2) :
    x / 32 % 2 = 1 ∧ (x % 2 = 1 → 2 * (prbs23 x + 1) = x + 1) := by
  rcases prbs23_cases x with ⟨a, b, c⟩ | ⟨a, b, c⟩ | ⟨a, b, c⟩ | ⟨a, b, c⟩ <;> rw [c] at h2 ⊢ <;> omega

/-- `2^k + 1` divides neither `2^23` nor `2^23 + 1` for `2 ≤ k ≤ 16` (it does divide `2^23 + 1` for `k = 1` and `k = 23`) -/
theorem pow2_succ_not_dvd : ∀ k, 2 ≤ k → k ≤ 16 → ¬ (2 ^ k + 1) ∣ 8388608 ∧ ¬ (2 ^ k + 1) ∣ 8388609 := by
  intro k h1 h2
  have : k = 2 ∨ k = 3 ∨ k = 4 ∨ k = 5 ∨ k = 6 ∨ k = 7 ∨ k = 8 ∨ k = 9 ∨ k = 10 ∨ k = 11 ∨ k = 12 ∨ k = 13 ∨ k = 14
    ∨ k = 15 ∨ k = 16 := by omega
  rcases this with h|h|h|h|h|h|h|h|h|h|h|h|h|h|h <;> subst h <;> simp [Nat.dvd_iff_mod_eq_zero]

/-! ## the draw loop -/

theorem drawLoop_acc {M S f x r : Nat} (h : r < M) : drawLoop M S f x r = some (x, r) := by
  cases f <;> simp [drawLoop, h]

theorem drawLoop_step {M S f x r : Nat} (h : M ≤ r) :
    drawLoop M S (f + 1) x r = drawLoop M S f (prbs23 x) (prbs23 x % S) := by
  simp [drawLoop, Nat.not_lt.mpr h]

/-- more fuel does not change a finished draw -/
theorem drawLoop_mono {M S : Nat} : ∀ {f x r p} (g : Nat), drawLoop M S f x r = some p → drawLoop M S (f + g) x r = some p := by
  intro f
  induction f with
  | zero =>
    intro x r p g h
    by_cases hr : r < M
    · rw [drawLoop_acc hr] at h ⊢; exact h
    · simp [drawLoop, hr] at h
  | succ f ih =>
    intro x r p g h
    by_cases hr : r < M
    · rw [drawLoop_acc hr] at h ⊢; exact h
    · rw [drawLoop_step (Nat.not_lt.mp hr)] at h
      rw [show f + 1 + g = (f + g) + 1 by omega, drawLoop_step (Nat.not_lt.mp hr)]
      exact ih g h

/-- the draw from `(x, x % S)` finishes within `f` steps, with a legal fragment number and a `u32` state -/
def Good (M S f x : Nat) : Prop :=
  ∃ x' r, drawLoop M S f x (x % S) = some (x', r) ∧ r < M ∧ x' < 2 ^ 32 ∧ r = x' % S

theorem good_acc {M S f x : Nat} (hx : x < 2 ^ 32) (h : x % S < M) : Good M S f x :=
  ⟨x, x % S, drawLoop_acc h, h, hx, rfl⟩

theorem good_step {M S f x : Nat} (hx : x < 2 ^ 32)
    (h : M ≤ x % S → M ≤ prbs23 x % S → Good M S f (prbs23 x)) : Good M S (f + 1) x := by
  by_cases h1 : x % S < M
  · exact good_acc hx h1
  · by_cases h2 : prbs23 x % S < M
    · exact ⟨prbs23 x, prbs23 x % S, by rw [drawLoop_step (Nat.not_lt.mp h1)]; exact drawLoop_acc h2, h2, prbs23_lt hx, rfl⟩
    · obtain ⟨x', r, e, hr, hx', hrr⟩ := h (Nat.not_lt.mp h1) (Nat.not_lt.mp h2)
      exact ⟨x', r, by rw [drawLoop_step (Nat.not_lt.mp h1)]; exact e, hr, hx', hrr⟩

/-- halving argument, `S = M + 1` with `S ∤ 2^23`, `S ∤ 2^23 + 1` -/
theorem good_of_lt_pow {M : Nat} (hM : 1 ≤ M) (h23 : ¬ (M + 1) ∣ 8388608) (h23' : ¬ (M + 1) ∣ 8388609) :
    ∀ f x, x < 2 ^ 32 → x + 1 < 2 ^ (f + 1) → Good M (M + 1) f x := by
  intro f
  induction f with
  | zero =>
    intro x hx h
    have : x = 0 := by omega
    subst this
    exact good_acc hx (by simp; omega)
  | succ f ih =>
    intro x hx h
    apply good_step hx
    intro h1 h2
    have l1 := Nat.mod_lt x (show M + 1 > 0 by omega)
    have l2 := Nat.mod_lt (prbs23 x) (show M + 1 > 0 by omega)
    have e := stuck_pair (S := M + 1) (x := x) (by omega) h23 h23' (by omega) (by omega)
    apply ih _ (prbs23_lt hx)
    rw [Nat.pow_succ] at h
    omega

/-- halving argument for `M = 2`, once the low five bits are ones -/
theorem good3_of_lt_pow : ∀ f x, x < 2 ^ 32 → x % 32 = 31 → x + 1 < 2 ^ (f + 1) → Good 2 3 f x := by
  intro f
  induction f with
  | zero => intro x hx h31 h; omega
  | succ f ih =>
    intro x hx h31 h
    apply good_step hx
    intro h1 h2
    obtain ⟨b5, e⟩ := stuck_pair3 (x := x) (by omega) (by omega)
    have e := e (by omega)
    apply ih _ (prbs23_lt hx)
    · rcases prbs23_cases x with ⟨_, _, c⟩ | ⟨_, _, c⟩ | ⟨_, _, c⟩ | ⟨_, _, c⟩ <;> rw [c] <;> omega
    · rw [Nat.pow_succ] at h; omega

/-- one step of the warm-up for `M = 2`: a rejected pair shifts one more `1` into the low five bits
    (`x % 32 ≥ 32 - 2^(5-j)` says that bits `5-j .. 4` are ones) -/
theorem good3_warm (t f : Nat)
    (ih : ∀ y, y < 2 ^ 32 → t / 2 + 16 ≤ y % 32 → Good 2 3 f y) :
    ∀ x, x < 2 ^ 32 → t ≤ x % 32 → Good 2 3 (f + 1) x := by
  intro x hx hb
  apply good_step hx
  intro h1 h2
  obtain ⟨b5, -⟩ := stuck_pair3 (x := x) (by omega) (by omega)
  apply ih _ (prbs23_lt hx)
  rcases prbs23_cases x with ⟨_, _, c⟩ | ⟨_, _, c⟩ | ⟨_, _, c⟩ | ⟨_, _, c⟩ <;> rw [c] <;> omega

theorem good3 (x : Nat) (hx : x < 2 ^ 32) : Good 2 3 37 x := by
  have c5 : ∀ y, y < 2 ^ 32 → 30 / 2 + 16 ≤ y % 32 → Good 2 3 32 y := by
    intro y hy h
    exact good3_of_lt_pow 32 y hy (by omega) (by omega)
  have c4 : ∀ y, y < 2 ^ 32 → 28 / 2 + 16 ≤ y % 32 → Good 2 3 33 y := good3_warm 30 32 c5
  have c3 : ∀ y, y < 2 ^ 32 → 24 / 2 + 16 ≤ y % 32 → Good 2 3 34 y := good3_warm 28 33 c4
  have c2 : ∀ y, y < 2 ^ 32 → 16 / 2 + 16 ≤ y % 32 → Good 2 3 35 y := good3_warm 24 34 c3
  have c1 : ∀ y, y < 2 ^ 32 → 0 / 2 + 16 ≤ y % 32 → Good 2 3 36 y := good3_warm 16 35 c2
  exact good3_warm 0 36 c1 x hx (by omega)

end Fuota.Lfdbt
