import Fuota.Lemmas.RingList
/-!
# Ring lemmas, part 2: the two queries `fallbackSlot` and `blStatus`, pointwise

Both answers depend only on the slots that hold a confirmed image (`fallbackSlot`) / a firmware image that is
copy- or acknowledgement-pending (`blStatus`): `fallbackSlot_congr`, `blStatus_congr`.
-/
namespace Fuota.Ring
open Fuota.Layout Fuota.Fs Fuota.Updater Fuota.Slots

/-- the header reads as a confirmed image -/
abbrev Conf (h : Header) : Prop := totalStatus h = TotalStatus.confirmedImage

/-- the header is a firmware image the bootloader still has to copy or the application to acknowledge -/
def PendingFw (h : Header) : Prop :=
  h.kind = Kind.firmware ∧
    (totalStatus h = TotalStatus.bootloadWriteInProgress ∨ totalStatus h = TotalStatus.firstBootPendingAck)

instance (h : Header) : Decidable (PendingFw h) := by unfold PendingFw; infer_instance

def isConf (p : Nat × Header) : Bool := decide (Conf p.2)

theorem fallbackSlot_eq (hs : Hdrs) :
    fallbackSlot hs = (bestBy (fun a b => a < b) ((indexed hs).filter isConf)).map (·.1) := by
  have h := fold_proj (r := fun a b => a < b) none ((indexed hs).filter isConf)
  rw [List.foldl_filter] at h
  have h2 := congrArg (Option.map Prod.fst) h
  rw [Option.map_map] at h2
  unfold bestBy
  have h3 : (Prod.fst ∘ fun (p : Nat × Header) => (p.1, p.2.seq)) = (·.1) := rfl
  rw [h3] at h2
  rw [← h2]
  unfold fallbackSlot
  congr 1
  simp only [Option.map_none]
  congr 2
  funext acc p
  simp only [isConf, decide_eq_true_eq]
  rfl

/-- the fallback query answers `f` iff `f` is the first slot among the confirmed images with the largest
    sequence number -/
theorem fallbackSlot_eq_some {hs : Hdrs} {f : Nat} :
    fallbackSlot hs = some f ↔ ∃ h, (Used hs f h ∧ Conf h) ∧
      ∀ j h', (Used hs j h' ∧ Conf h') → (j < f → h'.seq < h.seq) ∧ (f < j → h'.seq ≤ h.seq) := by
  rw [fallbackSlot_eq]
  have hsorted : ((indexed hs).filter isConf).Pairwise (fun p q => p.1 < q.1) :=
    List.Pairwise.sublist List.filter_sublist (indexed_sorted hs)
  constructor
  · intro h
    rw [Option.map_eq_some_iff] at h
    obtain ⟨p, hp, rfl⟩ := h
    rw [bestBy_iff scan_lt hsorted] at hp
    obtain ⟨hm, hall⟩ := hp
    rw [List.mem_filter] at hm
    refine ⟨p.2, ⟨mem_indexed.mp hm.1, by simpa [isConf] using hm.2⟩, ?_⟩
    intro j h' ⟨hu, hc⟩
    have := hall (j, h') (by
      rw [List.mem_filter]
      exact ⟨mem_indexed.mpr hu, by simpa [isConf] using hc⟩)
    exact ⟨this.1, fun hlt => Nat.le_of_not_lt (this.2 hlt)⟩
  · rintro ⟨h, ⟨hu, hc⟩, hall⟩
    rw [Option.map_eq_some_iff]
    refine ⟨(f, h), ?_, rfl⟩
    rw [bestBy_iff scan_lt hsorted]
    refine ⟨?_, ?_⟩
    · rw [List.mem_filter]
      exact ⟨mem_indexed.mpr hu, by simpa [isConf] using hc⟩
    · intro q hq
      rw [List.mem_filter] at hq
      have := hall q.1 q.2 ⟨mem_indexed.mp hq.1, by simpa [isConf] using hq.2⟩
      exact ⟨this.1, fun hlt => Nat.not_lt.mpr (this.2 hlt)⟩

theorem fallbackSlot_eq_none {hs : Hdrs} :
    fallbackSlot hs = none ↔ ∀ j h', ¬ (Used hs j h' ∧ Conf h') := by
  rw [fallbackSlot_eq, Option.map_eq_none_iff, bestBy_eq_none]
  constructor
  · intro h j h' ⟨hu, hc⟩
    have : (j, h') ∈ (indexed hs).filter isConf := by
      rw [List.mem_filter]
      exact ⟨mem_indexed.mpr hu, by simpa [isConf] using hc⟩
    rw [h] at this
    cases this
  · intro h
    apply List.eq_nil_iff_forall_not_mem.mpr
    intro p hp
    rw [List.mem_filter] at hp
    exact h p.1 p.2 ⟨mem_indexed.mp hp.1, by simpa [isConf] using hp.2⟩

/-- the slot the fallback query names is used and holds a confirmed image -/
theorem fallbackSlot_used {hs : Hdrs} {f : Nat} (h : fallbackSlot hs = some f) : ∃ hd, Used hs f hd ∧ Conf hd := by
  obtain ⟨hd, hu, _⟩ := fallbackSlot_eq_some.mp h
  exact ⟨hd, hu⟩

/-- **the fallback query depends only on the slots holding confirmed images** -/
theorem fallbackSlot_congr {hs hs' : Hdrs}
    (h : ∀ j hd, Conf hd → (Used hs j hd ↔ Used hs' j hd)) : fallbackSlot hs = fallbackSlot hs' := by
  have key : ∀ j hd, (Used hs j hd ∧ Conf hd) ↔ (Used hs' j hd ∧ Conf hd) := by
    intro j hd
    constructor
    · rintro ⟨hu, hc⟩; exact ⟨(h j hd hc).mp hu, hc⟩
    · rintro ⟨hu, hc⟩; exact ⟨(h j hd hc).mpr hu, hc⟩
  apply Option.ext
  intro f
  rw [fallbackSlot_eq_some, fallbackSlot_eq_some]
  simp only [key]

/-! ## `blStatus` -/

/-- the per-slot decision of `bl_boot_status` -/
def blOf (p : Nat × Header) : Option (Sum Nat Nat) :=
  if p.2.kind = Kind.firmware then
    match totalStatus p.2 with
    | .bootloadWriteInProgress => some (.inl p.1)
    | .firstBootPendingAck => some (.inr p.1)
    | _ => none
  else none

theorem blStatus_eq (hs : Hdrs) : blStatus hs = (indexed hs).findSome? blOf := rfl

theorem blOf_eq_none {p : Nat × Header} : blOf p = none ↔ ¬ PendingFw p.2 := by
  unfold blOf PendingFw
  by_cases hk : p.2.kind = Kind.firmware
  · simp only [hk, ↓reduceIte, true_and]
    cases totalStatus p.2 <;> simp
  · simp [hk]

theorem blOf_eq_some {p : Nat × Header} {r : Sum Nat Nat} :
    blOf p = some r ↔ PendingFw p.2 ∧
      r = (if totalStatus p.2 = TotalStatus.bootloadWriteInProgress then .inl p.1 else .inr p.1) := by
  unfold blOf PendingFw
  by_cases hk : p.2.kind = Kind.firmware
  · simp only [hk, ↓reduceIte, true_and]
    cases totalStatus p.2 <;> simp [eq_comm]
  · simp [hk]

/-- the boot-status query answers `r` iff `r` is the decision for the first pending firmware slot -/
theorem blStatus_eq_some {hs : Hdrs} {r : Sum Nat Nat} :
    blStatus hs = some r ↔ ∃ i h, (Used hs i h ∧ PendingFw h) ∧
      r = (if totalStatus h = TotalStatus.bootloadWriteInProgress then .inl i else .inr i) ∧
      ∀ j h', (Used hs j h' ∧ PendingFw h') → i ≤ j := by
  rw [blStatus_eq, List.findSome?_eq_some_iff]
  constructor
  · rintro ⟨pre, p, post, hl, hp, hpre⟩
    rw [blOf_eq_some] at hp
    have hsorted := indexed_sorted hs
    rw [hl, List.pairwise_append] at hsorted
    obtain ⟨_, hs2, hs3⟩ := hsorted
    rw [List.pairwise_cons] at hs2
    have hm : p ∈ indexed hs := by rw [hl]; simp
    refine ⟨p.1, p.2, ⟨mem_indexed.mp hm, hp.1⟩, hp.2, ?_⟩
    intro j h' ⟨hu, hpf⟩
    have hq : (j, h') ∈ indexed hs := mem_indexed.mpr hu
    rw [hl] at hq
    rcases List.mem_append.mp hq with hq | hq
    · have := hpre _ hq
      rw [blOf_eq_none] at this
      exact absurd hpf this
    · rcases List.mem_cons.mp hq with heq | hq
      · rw [← heq]; exact Nat.le_refl _
      · exact Nat.le_of_lt (hs2.1 _ hq)
  · rintro ⟨i, h, ⟨hu, hpf⟩, hr, hfirst⟩
    obtain ⟨pre, post, hl⟩ := List.append_of_mem ((mem_indexed (p := (i, h))).mpr hu)
    refine ⟨pre, (i, h), post, hl, ?_, ?_⟩
    · rw [blOf_eq_some]; exact ⟨hpf, hr⟩
    · intro q hq
      rw [blOf_eq_none]
      intro hqp
      have hsorted := indexed_sorted hs
      rw [hl, List.pairwise_append] at hsorted
      have hlt := hsorted.2.2 q hq (i, h) (by simp)
      have hqm : q ∈ indexed hs := by rw [hl]; simp [hq]
      have := hfirst q.1 q.2 ⟨mem_indexed.mp hqm, hqp⟩
      simp only at hlt
      omega

theorem blStatus_eq_none {hs : Hdrs} : blStatus hs = none ↔ ∀ j h', ¬ (Used hs j h' ∧ PendingFw h') := by
  rw [blStatus_eq, List.findSome?_eq_none_iff]
  constructor
  · intro h j h' ⟨hu, hp⟩
    have := h (j, h') (mem_indexed.mpr hu)
    rw [blOf_eq_none] at this
    exact this hp
  · intro h p hp
    rw [blOf_eq_none]
    intro hpf
    exact h p.1 p.2 ⟨mem_indexed.mp hp, hpf⟩

/-- **the boot-status query depends only on the slots holding a pending firmware image** -/
theorem blStatus_congr {hs hs' : Hdrs}
    (h : ∀ j hd, PendingFw hd → (Used hs j hd ↔ Used hs' j hd)) : blStatus hs = blStatus hs' := by
  have key : ∀ j hd, (Used hs j hd ∧ PendingFw hd) ↔ (Used hs' j hd ∧ PendingFw hd) := by
    intro j hd
    constructor
    · rintro ⟨hu, hc⟩; exact ⟨(h j hd hc).mp hu, hc⟩
    · rintro ⟨hu, hc⟩; exact ⟨(h j hd hc).mpr hu, hc⟩
  apply Option.ext
  intro r
  rw [blStatus_eq_some, blStatus_eq_some]
  simp only [key]

/-! ## one header-level effect -/

/-- an effect on slot `i` that neither removes nor creates a header with property `c` leaves the `c`-slots alone -/
theorem used_set_of_not {c : Header → Prop} {hs : Hdrs} {i : Nat} {v : Option Header}
    (hold : ∀ h, Used hs i h → ¬ c h) (hnew : ∀ h, v = some h → ¬ c h) :
    ∀ j hd, c hd → (Used hs j hd ↔ Used (hs.set i v) j hd) := by
  intro j hd hc
  rw [used_set]
  constructor
  · intro hu
    by_cases hji : j = i
    · subst hji; exact absurd hc (hold hd hu)
    · exact Or.inr ⟨hji, hu⟩
  · rintro (⟨_, _, hv⟩ | ⟨_, hu⟩)
    · exact absurd hc (hnew hd hv)
    · exact hu

end Fuota.Ring
