import Fuota.Lemmas.RingFlashRunRec
/-!
# Ring ↔ flash, part 9: `cancel_all_ext_pending`, `try_recover` and `check_and_mark_done` on a live device
-/
namespace Fuota.RingRun
open Fuota.Nor Fuota.Fs Fuota.Layout Fuota.Updater Fuota.Ops Fuota.RingFlash Fuota.Slots Fuota.NoPanic



theorem outcome_append {α β : Type} {e : Dev} (he : Live e) (a : α) (b : β) (o1 o2 : List Op)
    (h1 : cutAt e o1.length = none) : (outcome e a (o1 ++ o2)).2 = (outcome (pushAll e o1) b o2).2 := by
  unfold outcome
  rw [cutAt_append_none he o1 o2 h1]
  cases h2 : cutAt (pushAll e o1) o2.length with
  | none => simp only [Option.map_none]; rw [pushAll_append]
  | some j =>
    simp only [Option.map_some]
    have ht : (o1 ++ o2).take (j + o1.length) = o1 ++ o2.take j := by
      rw [Nat.add_comm]; exact RingFlash.take_add_append o1 o2 j
    unfold dieAfter
    rw [ht, pushAll_append]

theorem outcome_cut {α β : Type} {e : Dev} (a : α) (b : β) (o1 o2 : List Op) {j : Nat}
    (h1 : cutAt e o1.length = some j) : (outcome e a (o1 ++ o2)).2 = (outcome e b o1).2 := by
  obtain ⟨h2, hj⟩ := cutAt_append_some o1 o2 h1
  unfold outcome
  rw [h2, h1]
  simp only
  rw [List.take_append, show j - o1.length = 0 by omega, List.take_zero, List.append_nil]

/-- `cancel_all_ext_pending` on a live device -/
theorem cancelAll_device (nslots S : Nat) (e : Dev) (he : Live e) (hS : 28 ≤ S) (hdev : nslots * S ≤ e.flash.size) :
    (cancelAll nslots S).run e = outcome e () (cancelOps S (indexed (hdrsOf e.flash nslots S))) := by
  unfold cancelAll
  rw [Ops.run_bind, loadHeaders_live nslots S he.alive hS hdev]
  dsimp only
  apply cancelFrom_cr (T := e.flash.size) (B := e.flash.block) S _ _ e he rfl rfl
  intro p hp
  have hu := Ring.mem_indexed.mp hp
  have hi : p.1 < nslots := (used_hdrsOf.mp hu).1
  have := slot_in_dev hdev hi
  omega

theorem remediate_device (nslots S a b : Nat) (e : Dev) (he : Live e) (hB : 0 < e.flash.block)
    (hdiv : S % e.flash.block = 0) (hS : 28 ≤ S) (hdev : nslots * S ≤ e.flash.size) :
    (remediate S a b (indexed (hdrsOf e.flash nslots S))).run e =
      outcome e () (abortOps S a b (indexed (hdrsOf e.flash nslots S)) ++
        clearsOps S e.flash.block (eraseSlots a b (indexed (hdrsOf e.flash nslots S)))) := by
  unfold remediate
  have hb : ∀ p ∈ indexed (hdrsOf e.flash nslots S), p.1 * S + S ≤ e.flash.size := by
    intro p hp
    have hu := Ring.mem_indexed.mp hp
    exact slot_in_dev hdev (used_hdrsOf.mp hu).1
  exact CR.bind (remediateAbort_cr (T := e.flash.size) (B := e.flash.block) S a b _ (fun p hp => by have := hb p hp; omega))
    (remediateErase_cr S a b hB hdiv _ hb) e he rfl rfl



theorem ro_run {α : Type} {x : M α} (h : RO x) (e : Dev) : ∃ r, x.run e = (r, e) := by
  have := h e
  unfold run' at this
  exact ⟨(x.run e).1, Prod.ext rfl this⟩

theorem run_then_pure {α β : Type} (x : M α) (b : β) (e : Dev) :
    ((x >>= fun _ => (pure b : M β)).run e).2 = (x.run e).2 := by
  rw [Ops.run_bind]
  rcases x.run e with ⟨r, d⟩
  cases r <;> rfl

/-- **`try_recover` on a live device**: the device it leaves is the one that results from emitting exactly
    `recoverOps` (the cancel-all programs when nothing is resumable; else the abort pass, then the erase pass) —
    followed, only when the pair was remediated and the tables read afterwards make `try_recover_inner` give up
    (`l > maxL`), by the cancel-all programs for the remediated arrangement. With a power loss armed the run stops
    after the corresponding prefix. -/
theorem tryRecover_device (nslots S : Nat) (g : Geom) (hg : g.slotSize = S) (e : Dev) (he : Live e)
    (hB : 0 < e.flash.block) (hdiv : S % e.flash.block = 0) (hS : 28 ≤ S) (hdev : nslots * S ≤ e.flash.size) :
    ∃ extra, (extra = [] ∨ ((recoverDecision g (hdrsOf e.flash nslots S)).isSome ∧
        extra = cancelOps S (indexed (hdrsOf (e.flash.applyAll (recoverOps g S e.flash.block (hdrsOf e.flash nslots S)))
          nslots S)))) ∧
      ((tryRecover nslots S).run e).2 =
        (outcome e () (recoverOps g S e.flash.block (hdrsOf e.flash nslots S) ++ extra)).2 := by
  unfold tryRecover
  rw [Ops.run_bind, tryRecoverInner_eq nslots S g hg, Ops.run_bind, loadHeaders_live nslots S he.alive hS hdev]
  dsimp only
  unfold recoverOps
  cases hd : recoverDecision g (NoPanic.hdrs e.flash nslots S) with
  | none =>
    refine ⟨[], Or.inl rfl, ?_⟩
    have hd' : recoverDecision g (hdrsOf e.flash nslots S) = none := hd
    simp only [List.append_nil]
    show ((do (if (none : Option Upd).isNone then cancelAll nslots S else pure ()); pure none : M (Option Upd)).run e).2 = _
    simp only [Option.isNone_none, ↓reduceIte]
    rw [run_then_pure, cancelAll_device nslots S e he hS hdev]
  | some d =>
    obtain ⟨nw, sn⟩ := d
    have hd' : recoverDecision g (hdrsOf e.flash nslots S) = some (nw, sn) := hd
    simp only
    have hrem := remediate_device nslots S nw.1 sn.1 e he hB hdiv hS hdev
    rw [Ops.run_bind, hrem]
    generalize hops : abortOps S nw.1 sn.1 (indexed (hdrsOf e.flash nslots S)) ++
      clearsOps S e.flash.block (eraseSlots nw.1 sn.1 (indexed (hdrsOf e.flash nslots S))) = ops0
    cases hcut : cutAt e ops0.length with
    | some j =>
      refine ⟨[], Or.inl rfl, ?_⟩
      rw [List.append_nil]
      unfold outcome
      rw [hcut]
    | none =>
      have hl := live_pushAll he ops0 hcut
      have hout : outcome e () ops0 = (.ok (), pushAll e ops0) := by unfold outcome; rw [hcut]
      rw [hout]
      dsimp only
      obtain ⟨r, hr⟩ := ro_run (ro_recTail S nw sn) (pushAll e ops0)
      rw [hr]
      cases r with
      | error err =>
        refine ⟨[], Or.inl rfl, ?_⟩
        rw [List.append_nil, hout]
      | ok o =>
        cases o with
        | some u =>
          refine ⟨[], Or.inl rfl, ?_⟩
          rw [List.append_nil, hout]
          rfl
        | none =>
          refine ⟨_, Or.inr ⟨rfl, rfl⟩, ?_⟩
          simp only [Option.isNone_none, ↓reduceIte]
          rw [run_then_pure, cancelAll_device nslots S _ hl hS (by rw [pushAll_size]; exact hdev),
            outcome_append he () () ops0 _ hcut, pushAll_flash]




/-- **`check_and_mark_done` on a live device**: it emits nothing (not complete, no header, validation failed) or
    exactly the two completion marks; with a power loss armed it stops after the corresponding prefix. It returns
    only after both marks. -/
theorem check_device (u : Upd) (S : Nat) (hfs : u.fw.size = S) (hps : u.par.size = S) (e : Dev) (he : Live e)
    (hfin : u.fw.idx * S + 28 ≤ e.flash.size) (hpin : u.par.idx * S + 28 ≤ e.flash.size) :
    ∃ ops, (ops = [] ∨ ops = completeOps S u.fw.idx u.par.idx) ∧
      ((checkAndMarkDone u).run e).2 = (outcome e () ops).2 ∧
      (∀ i, ((checkAndMarkDone u).run e).1 = .ok i → ops = completeOps S u.fw.idx u.par.idx) := by
  have hnil : (outcome e () ([] : List Op)).2 = e := by
    unfold outcome; rw [List.length_nil, cutAt_zero]; rfl
  unfold checkAndMarkDone
  by_cases hc : u.complete = true
  · simp only [hc, Bool.not_true, Bool.false_eq_true, ↓reduceIte]
    have hl : (loadHeaderAt (u.fw.idx * u.fw.size)).run e = (.ok (NoPanic.hdrAt e.flash (u.fw.idx * u.fw.size)), e) := by
      unfold loadHeaderAt
      rw [Ops.run_bind, readTo_run_live he.alive (u.fw.idx * u.fw.size) Consts.SLOT_HEADER_SIZE (by rw [hfs]; exact hfin)]
      rfl
    rw [Ops.run_bind, hl]
    dsimp only
    cases hh : NoPanic.hdrAt e.flash (u.fw.idx * u.fw.size) with
    | none =>
      refine ⟨[], Or.inl rfl, ?_, ?_⟩
      · rw [hnil]; rfl
      · intro i hi; cases hi
    | some h =>
      dsimp only
      rw [Ops.run_bind]
      obtain ⟨r, hr⟩ := ro_run (ro_crcValid u.fw h) e
      rw [hr]
      cases r with
      | error err =>
        refine ⟨[], Or.inl rfl, ?_, ?_⟩
        · rw [hnil]
        · intro i hi; cases hi
      | ok _ =>
        dsimp only
        have hm : CR e.flash.size e.flash.block
            (do u.fw.markExtComplete; u.par.markExtComplete; pure u.fw.idx : M Nat) u.fw.idx
            (completeOps S u.fw.idx u.par.idx) := by
          unfold completeOps
          refine CR.bind (a := ()) (o1 := [_]) ?_ (CR.bind (a := ()) (o1 := [_]) (o2 := []) ?_ (CR.pure _))
          · have := writeWord_cr (T := e.flash.size) (B := e.flash.block) u.fw Consts.EXT_OFFSET (encExt C .complete)
              (by rw [hfs]; show _ + 16 + 4 ≤ _; omega)
            rw [hfs] at this
            exact this
          · have := writeWord_cr (T := e.flash.size) (B := e.flash.block) u.par Consts.EXT_OFFSET (encExt C .complete)
              (by rw [hps]; show _ + 16 + 4 ≤ _; omega)
            rw [hps] at this
            exact this
        have hrun := hm e he rfl rfl
        refine ⟨completeOps S u.fw.idx u.par.idx, Or.inr rfl, ?_, fun _ _ => rfl⟩
        rw [hrun]
        unfold outcome
        split <;> rfl
  · have hc' : u.complete = false := by simpa using hc
    simp only [hc', Bool.not_false, ↓reduceIte]
    refine ⟨[], Or.inl rfl, ?_, ?_⟩
    · rw [hnil]; rfl
    · intro i hi; cases hi




theorem live_of_good {d : Dev} (h : Good d) : Live d := ⟨h.alive, h.fail, Or.inl h.crash⟩

theorem live_withCrash {d : Dev} (h : Good d) (k : Nat) : Live (d.withCrash k) :=
  ⟨h.alive, h.fail, Or.inr ⟨k, rfl⟩⟩

theorem flash_outcome_good {α : Type} {d : Dev} (h : Good d) (a : α) (ops : List Op) :
    (outcome d a ops).2.flash = d.flash.applyAll ops := by
  unfold outcome cutAt
  rw [h.crash]
  exact pushAll_flash d ops

theorem flash_outcome_crash {α : Type} (d : Dev) (k : Nat) (a : α) (ops : List Op) :
    (outcome (d.withCrash k) a ops).2.flash = d.flash.applyAll (ops.take k) := by
  unfold outcome cutAt
  show (match (if d.nmut + k - d.nmut < ops.length then some (d.nmut + k - d.nmut) else none) with
    | none => ((.ok a : Except MErr α), pushAll (d.withCrash k) ops)
    | some j => (.error (.spi .custom), dieAfter (d.withCrash k) (ops.take j))).2.flash = _
  rw [Nat.add_sub_cancel_left]
  by_cases hk : k < ops.length
  · rw [if_pos hk]
    show (pushAll (d.withCrash k) (ops.take k)).flash = _
    rw [pushAll_flash]; rfl
  · rw [if_neg hk, List.take_of_length_le (by omega)]
    show (pushAll (d.withCrash k) ops).flash = _
    rw [pushAll_flash]; rfl


end Fuota.RingRun
