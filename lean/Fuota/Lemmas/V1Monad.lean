import Fuota.Lemmas.V1Xor
import Fuota.Lemmas.V1Scan
import Fuota.Model.Orig
/-!
# Running the V1 models: bind / lift lemmas for the three monads, the XOR loops, `repairCompute`

The hypotheses of the theorems here are phrased on the *results of the storage accessors* (`readSegment`,
`loadStatus`, `readTo`) in the device state at hand: "the fragments marked received read back as the originals,
the coded fragments marked received read back as the XOR of the originals their row covers".
-/
namespace Fuota.V1
open Fuota.Fs

theorem M.run_bind {α β : Type} (x : M α) (f : α → M β) (d : Dev) :
    (x >>= f).run d = match x.run d with
      | (.ok a, d') => (f a).run d'
      | (.error e, d') => (.error e, d') := by
  simp only [ExceptT.run_bind]
  show (x.run >>= _) d = _
  simp only [StateT.bind, bind]
  cases h : x.run d with
  | mk r d' => cases r <;> rfl

theorem M.run_pure {α : Type} (a : α) (d : Dev) : (pure a : M α).run d = (.ok a, d) := rfl
theorem M.run_throw {α : Type} (e : MErr) (d : Dev) : (throw e : M α).run d = (.error e, d) := rfl

namespace NaiveRun
open Fuota.Naive

theorem run_bind {α β : Type} (x : MU α) (f : α → MU β) (s : Upd × Dev) :
    (x >>= f).run s = match x.run s with
      | (.ok a, s') => (f a).run s'
      | (.error e, s') => (.error e, s') := by
  simp only [ExceptT.run_bind]
  show (x.run >>= _) s = _
  simp only [StateT.bind, bind]
  cases h : x.run s with
  | mk r s' => cases r <;> rfl

theorem liftM_run {α : Type} (x : M α) (u : Upd) (d : Dev) :
    (Naive.liftM x).run (u, d) = ((x.run d).1, (u, (x.run d).2)) := rfl
theorem getU_run (u : Upd) (d : Dev) : Naive.getU.run (u, d) = (.ok u, (u, d)) := rfl
theorem run_pure {α : Type} (a : α) (s : Upd × Dev) : (pure a : MU α).run s = (.ok a, s) := rfl
theorem run_throw {α : Type} (e : MErr) (s : Upd × Dev) : (throw e : MU α).run s = (.error e, s) := rfl

/-- the XOR loop of `naive.rs::repair_step` computes `xorFold` of what the reads return -/
theorem xorLoop_eq (fw : Slot) (row fwi seg : Nat) (S : Nat → List Nat) (d : Dev) (is acc : List Nat)
    (h : ∀ i ∈ is, i ≠ fwi → row.testBit i = true → (fw.readSegment i seg).run d = (.ok (S i), d)) :
    (Naive.xorLoop fw row fwi seg is acc).run d =
      (.ok (xorFold (fun i => decide (i ≠ fwi) && row.testBit i) S is acc), d) := by
  induction is generalizing acc with
  | nil => rfl
  | cons i is ih =>
    have hr : ∀ j ∈ is, j ≠ fwi → row.testBit j = true → (fw.readSegment j seg).run d = (.ok (S j), d) :=
      fun j hj => h j (by simp [hj])
    unfold Naive.xorLoop xorFold
    by_cases hk : i = fwi ∨ (!row.testBit i) = true
    · have : (decide (i ≠ fwi) && row.testBit i) = false := by
        rcases hk with hk | hk
        · simp [hk]
        · simp at hk; simp [hk]
      simp only [hk, ↓reduceIte, this, Bool.false_eq_true]
      exact ih acc hr
    · have hk1 : i ≠ fwi := fun e => hk (Or.inl e)
      have hk2 : row.testBit i = true := by
        cases hb : row.testBit i
        · exact absurd (Or.inr (by simp [hb])) hk
        · rfl
      have : (decide (i ≠ fwi) && row.testBit i) = true := by simp [hk1, hk2]
      simp only [hk, ↓reduceIte, this]
      rw [M.run_bind, h i (by simp) hk1 hk2]
      exact ih _ hr

end NaiveRun

namespace OrigRun
open Fuota.Orig

theorem run_bind {α β : Type} (x : MA α) (f : α → MA β) (s : Act × Dev) :
    (x >>= f).run s = match x.run s with
      | (.ok a, s') => (f a).run s'
      | (.error e, s') => (.error e, s') := by
  simp only [ExceptT.run_bind]
  show (x.run >>= _) s = _
  simp only [StateT.bind, bind]
  cases h : x.run s with
  | mk r s' => cases r <;> rfl

theorem liftM_run {α : Type} (x : M α) (a : Act) (d : Dev) :
    (Orig.liftM x).run (a, d) = ((x.run d).1, (a, (x.run d).2)) := rfl
theorem getA_run (a : Act) (d : Dev) : Orig.getA.run (a, d) = (.ok a, (a, d)) := rfl
theorem run_pure {α : Type} (x : α) (s : Act × Dev) : (pure x : MA α).run s = (.ok x, s) := rfl
theorem run_throw {α : Type} (e : MErr) (s : Act × Dev) : (throw e : MA α).run s = (.error e, s) := rfl

/-- the XOR loop of `manager.rs::repair_step` computes `xorFold` of what the reads return -/
theorem xorLoop_eq (base seg row fwi : Nat) (S : Nat → List Nat) (d : Dev) (is acc : List Nat)
    (h : ∀ i ∈ is, i ≠ fwi → row.testBit i = true → (readTo (base + i * seg) seg).run d = (.ok (S i), d)) :
    (Orig.xorLoop base seg row fwi is acc).run d =
      (.ok (xorFold (fun i => decide (i ≠ fwi) && row.testBit i) S is acc), d) := by
  induction is generalizing acc with
  | nil => rfl
  | cons i is ih =>
    have hr : ∀ j ∈ is, j ≠ fwi → row.testBit j = true → (readTo (base + j * seg) seg).run d = (.ok (S j), d) :=
      fun j hj => h j (by simp [hj])
    unfold Orig.xorLoop xorFold
    by_cases hk : i = fwi ∨ (!row.testBit i) = true
    · have : (decide (i ≠ fwi) && row.testBit i) = false := by
        rcases hk with hk | hk
        · simp [hk]
        · simp at hk; simp [hk]
      simp only [hk, ↓reduceIte, this, Bool.false_eq_true]
      exact ih acc hr
    · have hk1 : i ≠ fwi := fun e => hk (Or.inl e)
      have hk2 : row.testBit i = true := by
        cases hb : row.testBit i
        · exact absurd (Or.inr (by simp [hb])) hk
        · rfl
      have : (decide (i ≠ fwi) && row.testBit i) = true := by simp [hk1, hk2]
      simp only [hk, ↓reduceIte, this]
      rw [M.run_bind, h i (by simp) hk1 hk2]
      exact ih _ hr

end OrigRun


/-! ## reads do not change the device -/

theorem get_run (d : Dev) : (get : M Dev).run d = (.ok d, d) := rfl

theorem readTo_run (a len : Nat) (d : Dev) :
    (readTo a len).run d =
      (if d.dead then .error (.spi .custom) else
        match d.flash.readChecked a len with
        | none => .error (.spi .oob)
        | some bs => .ok bs, d) := by
  unfold readTo
  simp only [M.run_bind, get_run]
  by_cases hd : d.dead = true
  · simp only [hd, ↓reduceIte]
    rfl
  · simp only [hd, Bool.false_eq_true, ↓reduceIte]
    cases d.flash.readChecked a len <;> rfl

theorem readTo_state (a len : Nat) (d : Dev) : ((readTo a len).run d).2 = d := by rw [readTo_run]

set_option linter.unusedSimpArgs false in
theorem segmentStatus_state (s : Slot) (i : Nat) (d : Dev) : ((Naive.segmentStatus s i).run d).2 = d := by
  unfold Naive.segmentStatus
  by_cases h1 : i > MAX_SEGMENTS
  · simp [h1, M.run_bind, M.run_throw]
  · by_cases h2 : WRITTEN_OFFSET + i > s.size
    · simp [h1, h2, M.run_bind, M.run_throw]
    · simp only [h1, h2, ↓reduceIte, M.run_bind, M.run_pure, readTo_run]
      split <;> simp_all [M.run_pure]

set_option linter.unusedSimpArgs false in
theorem readSegSize_state (s : Slot) (d : Dev) : ((s.readSegSize).run d).2 = d := by
  unfold Slot.readSegSize
  simp only [M.run_bind, readTo_run]
  split <;> simp_all [M.run_pure]

theorem segmentSize_state (s : Slot) (d : Dev) : ((s.segmentSize).run d).2 = d := by
  unfold Slot.segmentSize
  split
  · rfl
  · exact readSegSize_state s d

set_option linter.unusedSimpArgs false in
theorem readSegment_state (s : Slot) (i len : Nat) (d : Dev) : ((s.readSegment i len).run d).2 = d := by
  unfold Slot.readSegment
  have hs := segmentSize_state s d
  split
  · simp [M.run_bind, M.run_throw]
  · simp only [M.run_bind]
    cases h : s.segmentSize.run d with
    | mk r d' =>
      rw [h] at hs
      simp only at hs
      subst hs
      cases r with
      | error e => rfl
      | ok seg =>
        simp only
        split
        · simp [M.run_bind, M.run_throw]
        · split
          · simp [M.run_bind, M.run_throw]
          · simp only [M.run_bind, readTo_run]
            try (split <;> simp_all [M.run_pure])

end Fuota.V1
