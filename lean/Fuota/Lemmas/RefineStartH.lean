import Fuota.Lemmas.RefineStart
import Fuota.Lemmas.RefineHeaders
/-!
# `start_update` establishes the session invariant with headers (`LawfulH`)
-/
namespace Fuota.Updater
open Fuota.Nor Fuota.Fs Fuota.FlashAdapters Fuota.Recon Fuota.Layout

/-! ## sequence numbers -/

/-- a sequence number a header can carry -/
def GoodSeq (s : Nat) : Prop := s < 2 ^ 32 ∧ s ≠ 0xFFFFFFFF

/-- a header parsed from a flash holding bytes has a 32-bit sequence number -/
theorem hdrAt_goodSeq {f : Flash} (hwf : WF f) {a : Nat} {h : Header} (hh : NoPanic.hdrAt f a = some h) :
    GoodSeq h.seq := by
  refine ⟨?_, hdrAt_seq_valid hh⟩
  unfold NoPanic.hdrAt at hh
  simp only [Option.map_eq_some_iff] at hh
  obtain ⟨⟨h', r⟩, hp, rfl⟩ := hh
  obtain ⟨w0, w1, w2, w3, w4, w5, w6, hw, _, hs, _⟩ := (C11.parseHeader_eq_some C _ h' r).1 hp
  obtain ⟨e, _⟩ := C11.parseSeq_some C w1 h'.seq hs
  rw [e]
  have hb : ∀ b ∈ f.read a Consts.SLOT_HEADER_SIZE, b < 256 := isBytes_read hwf _ _
  unfold words7 at hw
  simp only [Option.pure_def, Option.bind_eq_bind, Option.bind_eq_some_iff, Option.some.injEq,
    Prod.mk.injEq, Prod.exists] at hw
  obtain ⟨_, r0, h0, _, r1, h1, _, r2, h2, _, r3, h3, _, r4, h4, _, r5, h5, _, r6, h6,
    ⟨rfl, rfl, rfl, rfl, rfl, rfl, rfl⟩, rfl⟩ := hw
  have b0 := (C11.takeU32_lt _ _ _ hb h0).2
  exact (C11.takeU32_lt _ _ _ b0 h1).1

/-- the successor of a sequence number is a sequence number -/
theorem GoodSeq.next {s : Nat} (h : GoodSeq s) : GoodSeq (seqNext s) := by
  obtain ⟨h1, h2⟩ := h
  unfold seqNext
  have h1' : s < 4294967296 := h1
  split
  · exact ⟨by decide, by decide⟩
  · rename_i hne
    refine ⟨?_, hne⟩
    show s + 1 < 4294967296
    omega

/-- a fold that keeps its accumulator or moves to the current entry's sequence number -/
theorem foldl_seq_good (f : Option (Nat × Nat) → (Nat × Header) → Option (Nat × Nat))
    (hf : ∀ acc p, f acc p = acc ∨ f acc p = some (p.1, p.2.seq)) (L : List (Nat × Header))
    (hL : ∀ p ∈ L, GoodSeq p.2.seq) : ∀ acc : Option (Nat × Nat), (∀ q, acc = some q → GoodSeq q.2) →
    ∀ q, L.foldl f acc = some q → GoodSeq q.2 := by
  induction L with
  | nil => intro acc h q hq; exact h q hq
  | cons p L ih =>
    intro acc h q hq
    refine ih (fun r hr => hL r (List.mem_cons_of_mem _ hr)) (f acc p) ?_ q hq
    intro r hr
    rcases hf acc p with e | e
    · rw [e] at hr; exact h r hr
    · rw [e] at hr
      simp only [Option.some.injEq] at hr
      rw [← hr]; exact hL p List.mem_cons_self

/-- the sequence numbers `alloc_slotpair` assigns are sequence numbers, when all parsed ones are -/
theorem choosePair_seqs (n : Nat) (hs : List (Option Header))
    (hq : ∀ i h, hs.getD i none = some h → GoodSeq h.seq) (a b sa sb : Nat)
    (hcp : choosePair n hs = .ok (a, b, sa, sb)) : GoodSeq sa ∧ GoodSeq sb := by
  have hqi : ∀ p ∈ indexed hs, GoodSeq p.2.seq := by
    intro p hp
    have := NoPanic.mem_indexed (hs := hs) (i := p.1) (h := p.2) hp
    exact hq p.1 p.2 (by rw [List.getD_eq_getElem?_getD, this]; rfl)
  unfold choosePair at hcp
  simp only [] at hcp
  generalize hlow : (indexed hs).foldl (fun (acc : Option (Nat × Nat)) p =>
    match acc with
    | none => some (p.1, p.2.seq)
    | some (_, s) => if s > p.2.seq then some (p.1, p.2.seq) else acc) none = low at hcp
  generalize hhigh : (indexed hs).foldl (fun (acc : Option (Nat × Nat)) p =>
    match acc with
    | none => some (p.1, p.2.seq)
    | some (_, s) => if s < p.2.seq then some (p.1, p.2.seq) else acc) none = high at hcp
  have hhi : ∀ q, high = some q → GoodSeq q.2 := by
    intro q hq'
    rw [← hhigh] at hq'
    refine foldl_seq_good _ ?_ _ hqi none (fun _ h => by cases h) q hq'
    intro acc p
    cases acc with
    | none => exact Or.inr rfl
    | some a =>
      obtain ⟨i, s⟩ := a
      simp only
      split
      · exact Or.inr rfl
      · exact Or.inl rfl
  have g01 : GoodSeq 0 ∧ GoodSeq 1 := ⟨⟨by decide, by decide⟩, ⟨by decide, by decide⟩⟩
  cases low with
  | none =>
    simp only [Except.ok.injEq, Prod.mk.injEq] at hcp
    obtain ⟨_, _, rfl, rfl⟩ := hcp
    exact g01
  | some lo =>
    cases high with
    | none =>
      simp only [Except.ok.injEq, Prod.mk.injEq] at hcp
      obtain ⟨_, _, rfl, rfl⟩ := hcp
      exact g01
    | some hi =>
      obtain ⟨lo, loSeq⟩ := lo
      obtain ⟨hi, hiSeq⟩ := hi
      have hg : GoodSeq hiSeq := hhi _ rfl
      have hpred : GoodSeq (hiSeq - 1) := by
        obtain ⟨h1, h2⟩ := hg
        have h1' : hiSeq < 4294967296 := h1
        exact ⟨by show hiSeq - 1 < 4294967296; omega, by omega⟩
      simp only at hcp
      split at hcp
      · simp only [Except.ok.injEq, Prod.mk.injEq] at hcp
        obtain ⟨_, _, rfl, rfl⟩ := hcp
        exact ⟨hg.next, hg.next.next⟩
      · split at hcp
        · split at hcp
          · simp only [Except.ok.injEq, Prod.mk.injEq] at hcp
            obtain ⟨_, _, rfl, rfl⟩ := hcp
            exact ⟨hg, hg.next⟩
          · simp only [Except.ok.injEq, Prod.mk.injEq] at hcp
            obtain ⟨_, _, rfl, rfl⟩ := hcp
            exact ⟨hg.next, hg.next.next⟩
        · split at hcp
          · split at hcp
            · simp only [Except.ok.injEq, Prod.mk.injEq] at hcp
              obtain ⟨_, _, rfl, rfl⟩ := hcp
              exact ⟨hpred, hg⟩
            · rename_i h heq
              simp only [Except.ok.injEq, Prod.mk.injEq] at hcp
              obtain ⟨_, _, rfl, rfl⟩ := hcp
              exact ⟨hq _ _ heq, hg⟩
          · simp only [Except.ok.injEq, Prod.mk.injEq] at hcp
            obtain ⟨_, _, rfl, rfl⟩ := hcp
            exact ⟨hg.next, hg.next.next⟩

/-! ## chains of programs -/

/-- apply a list of programs `(address, bytes)`, oldest first -/
def applyPs (f : Flash) (ps : List (Nat × List Nat)) : Flash :=
  ps.foldl (fun f p => f.apply (.program p.1 p.2)) f

/-- a chain of programs keeps the size -/
theorem size_applyPs (f : Flash) (ps : List (Nat × List Nat)) : (applyPs f ps).size = f.size := by
  induction ps generalizing f with
  | nil => rfl
  | cons p ps ih => show (applyPs (f.apply _) ps).size = _; rw [ih, size_apply_program]

/-- a region no program of the chain touches reads as before -/
theorem read_applyPs_other (f : Flash) (ps : List (Nat × List Nat)) (b len : Nat)
    (h : ∀ p ∈ ps, b + len ≤ p.1 ∨ p.1 + p.2.length ≤ b) : (applyPs f ps).read b len = f.read b len := by
  induction ps generalizing f with
  | nil => rfl
  | cons p ps ih =>
    show (applyPs (f.apply _) ps).read b len = _
    rw [ih _ (fun q hq => h q (List.mem_cons_of_mem _ hq)), read_prog_other _ _ _ _ _ (h p List.mem_cons_self)]

/-- a region no program of the chain touches stays erased -/
theorem erased_applyPs_other {f : Flash} {b e : Nat} (he : Erased f b e) (ps : List (Nat × List Nat))
    (h : ∀ p ∈ ps, e ≤ p.1 ∨ p.1 + p.2.length ≤ b) : Erased (applyPs f ps) b e := by
  induction ps generalizing f with
  | nil => exact he
  | cons p ps ih =>
    exact ih (erased_prog_other he _ _ (h p List.mem_cons_self)) (fun q hq => h q (List.mem_cons_of_mem _ hq))

/-- the one program of a chain that targets an erased region, untouched by the others, reads back exactly -/
theorem read_applyPs_hit (f : Flash) (pre post : List (Nat × List Nat)) (a : Nat) (bs : List Nat) (hb : IsBytes bs)
    (hin : a + bs.length ≤ f.size) (he : Erased f a (a + bs.length))
    (hpre : ∀ p ∈ pre, a + bs.length ≤ p.1 ∨ p.1 + p.2.length ≤ a)
    (hpost : ∀ p ∈ post, a + bs.length ≤ p.1 ∨ p.1 + p.2.length ≤ a) :
    (applyPs f (pre ++ (a, bs) :: post)).read a bs.length = bs := by
  have e : applyPs f (pre ++ (a, bs) :: post) = applyPs ((applyPs f pre).apply (.program a bs)) post := by
    simp [applyPs, List.foldl_append]
  rw [e, read_applyPs_other _ post _ _ hpost]
  exact read_prog_same _ a bs hb (by rw [size_applyPs]; exact hin) (erased_applyPs_other he pre hpre)

/-- an erased region reads as `0xFF` bytes -/
theorem read_erased {f : Flash} {a len : Nat} (h : Erased f a (a + len)) : f.read a len = List.replicate len 0xFF := by
  apply List.ext_getElem?
  intro i
  rw [getElem?_read]
  by_cases hi : i < len
  · rw [if_pos hi, h (a + i) (by omega) (by omega), List.getElem?_replicate, if_pos hi]
  · rw [if_neg hi, List.getElem?_replicate, if_neg hi]

/-- successive programs on a device are a chain on its flash -/
theorem prog_chain (d : Dev) (ps : List (Nat × List Nat)) :
    (ps.foldl (fun d p => d.prog p.1 p.2) d).flash = applyPs d.flash ps := by
  induction ps generalizing d with
  | nil => rfl
  | cons p ps ih => exact ih (d.prog p.1 p.2)

/-! ## the two headers after `start_update` -/

/-- a little-endian word is four bytes -/
theorem isBytes_writeU32 (w : Nat) : IsBytes (writeU32 w) := by
  intro b hb
  simp only [writeU32, List.mem_cons, List.not_mem_nil, or_false] at hb
  rcases hb with rfl | rfl | rfl | rfl <;> omega

/-- discharges "every listed program lies outside this word" -/
macro "disj_tac" : tactic =>
  `(tactic| (simp only [List.forall_mem_cons, List.not_mem_nil, false_implies, implies_true, and_true, writeU32,
               List.length_cons, List.length_nil] <;> omega))

/-- the 28 header bytes of both slots after the eight header programs of `start_update` on two erased slots -/
theorem start_headers (f2 : Flash) (A B S sa sb kf kp n sz cap : Nat) (hA : A + S ≤ f2.size)
    (hB : B + S ≤ f2.size) (hdis : A + S ≤ B ∨ B + S ≤ A) (hS : 28 ≤ S) (erA : Erased f2 A (A + S))
    (erB : Erased f2 B (B + S)) :
    (applyPs f2 [(A + 4, writeU32 sa), (B + 4, writeU32 sb), (A + 0, writeU32 kf), (A + 12, writeU32 n),
        (A + 8, writeU32 sz), (B + 0, writeU32 kp), (B + 12, writeU32 cap), (B + 8, writeU32 sz)]).read A 28 =
      writeU32 kf ++ writeU32 sa ++ writeU32 sz ++ writeU32 n ++ List.replicate 12 0xFF ∧
    (applyPs f2 [(A + 4, writeU32 sa), (B + 4, writeU32 sb), (A + 0, writeU32 kf), (A + 12, writeU32 n),
        (A + 8, writeU32 sz), (B + 0, writeU32 kp), (B + 12, writeU32 cap), (B + 8, writeU32 sz)]).read B 28 =
      writeU32 kp ++ writeU32 sb ++ writeU32 sz ++ writeU32 cap ++ List.replicate 12 0xFF := by
  have eA : ∀ o len, o + len ≤ S → Erased f2 (A + o) (A + o + len) :=
    fun o len h x h1 h2 => erA x (by omega) (by omega)
  have eB : ∀ o len, o + len ≤ S → Erased f2 (B + o) (B + o + len) :=
    fun o len h x h1 h2 => erB x (by omega) (by omega)
  obtain ⟨F, hF⟩ : ∃ F, F = applyPs f2 [(A + 4, writeU32 sa), (B + 4, writeU32 sb), (A + 0, writeU32 kf),
      (A + 12, writeU32 n), (A + 8, writeU32 sz), (B + 0, writeU32 kp), (B + 12, writeU32 cap),
      (B + 8, writeU32 sz)] := ⟨_, rfl⟩
  rw [← hF]
  have split : ∀ X, F.read X 28 = F.read (X + 0) 4 ++ F.read (X + 4) 4 ++ F.read (X + 8) 4 ++ F.read (X + 12) 4 ++
      F.read (X + 16) 12 := by
    intro X
    have h1 := read_append F X 4 4
    have h2 := read_append F X 8 4
    have h3 := read_append F X 12 4
    have h4 := read_append F X 16 12
    simp only [Nat.reduceAdd] at h1 h2 h3 h4
    rw [Nat.add_zero, h1, h2, h3, h4]
  constructor
  · have r0 : F.read (A + 0) 4 = writeU32 kf := by
      rw [hF]
      exact read_applyPs_hit f2 [(A + 4, writeU32 sa), (B + 4, writeU32 sb)]
        [(A + 12, writeU32 n), (A + 8, writeU32 sz), (B + 0, writeU32 kp), (B + 12, writeU32 cap),
          (B + 8, writeU32 sz)] (A + 0) (writeU32 kf) (isBytes_writeU32 _) (by show A + 0 + 4 ≤ _; omega)
        (eA 0 4 (by omega)) (by disj_tac) (by disj_tac)
    have r4 : F.read (A + 4) 4 = writeU32 sa := by
      rw [hF]
      exact read_applyPs_hit f2 [] [(B + 4, writeU32 sb), (A + 0, writeU32 kf),
        (A + 12, writeU32 n), (A + 8, writeU32 sz), (B + 0, writeU32 kp), (B + 12, writeU32 cap),
        (B + 8, writeU32 sz)] (A + 4) (writeU32 sa) (isBytes_writeU32 _) (by show A + 4 + 4 ≤ _; omega)
        (eA 4 4 (by omega)) (by disj_tac) (by disj_tac)
    have r8 : F.read (A + 8) 4 = writeU32 sz := by
      rw [hF]
      exact read_applyPs_hit f2 [(A + 4, writeU32 sa), (B + 4, writeU32 sb), (A + 0, writeU32 kf),
        (A + 12, writeU32 n)] [(B + 0, writeU32 kp), (B + 12, writeU32 cap), (B + 8, writeU32 sz)] (A + 8)
        (writeU32 sz) (isBytes_writeU32 _) (by show A + 8 + 4 ≤ _; omega) (eA 8 4 (by omega)) (by disj_tac)
        (by disj_tac)
    have r12 : F.read (A + 12) 4 = writeU32 n := by
      rw [hF]
      exact read_applyPs_hit f2 [(A + 4, writeU32 sa), (B + 4, writeU32 sb), (A + 0, writeU32 kf)]
        [(A + 8, writeU32 sz), (B + 0, writeU32 kp), (B + 12, writeU32 cap), (B + 8, writeU32 sz)] (A + 12)
        (writeU32 n) (isBytes_writeU32 _) (by show A + 12 + 4 ≤ _; omega) (eA 12 4 (by omega)) (by disj_tac)
        (by disj_tac)
    have r16 : F.read (A + 16) 12 = List.replicate 12 0xFF := by
      rw [hF, read_applyPs_other f2 _ (A + 16) 12 (by disj_tac)]
      exact read_erased (eA 16 12 (by omega))
    rw [split A, r0, r4, r8, r12, r16]
  · have r0 : F.read (B + 0) 4 = writeU32 kp := by
      rw [hF]
      exact read_applyPs_hit f2 [(A + 4, writeU32 sa), (B + 4, writeU32 sb), (A + 0, writeU32 kf),
        (A + 12, writeU32 n), (A + 8, writeU32 sz)] [(B + 12, writeU32 cap), (B + 8, writeU32 sz)] (B + 0)
        (writeU32 kp) (isBytes_writeU32 _) (by show B + 0 + 4 ≤ _; omega) (eB 0 4 (by omega)) (by disj_tac)
        (by disj_tac)
    have r4 : F.read (B + 4) 4 = writeU32 sb := by
      rw [hF]
      exact read_applyPs_hit f2 [(A + 4, writeU32 sa)] [(A + 0, writeU32 kf),
        (A + 12, writeU32 n), (A + 8, writeU32 sz), (B + 0, writeU32 kp), (B + 12, writeU32 cap),
        (B + 8, writeU32 sz)] (B + 4) (writeU32 sb) (isBytes_writeU32 _) (by show B + 4 + 4 ≤ _; omega)
        (eB 4 4 (by omega)) (by disj_tac) (by disj_tac)
    have r8 : F.read (B + 8) 4 = writeU32 sz := by
      rw [hF]
      exact read_applyPs_hit f2 [(A + 4, writeU32 sa), (B + 4, writeU32 sb), (A + 0, writeU32 kf),
        (A + 12, writeU32 n), (A + 8, writeU32 sz), (B + 0, writeU32 kp), (B + 12, writeU32 cap)] [] (B + 8)
        (writeU32 sz) (isBytes_writeU32 _) (by show B + 8 + 4 ≤ _; omega) (eB 8 4 (by omega)) (by disj_tac)
        (by disj_tac)
    have r12 : F.read (B + 12) 4 = writeU32 cap := by
      rw [hF]
      exact read_applyPs_hit f2 [(A + 4, writeU32 sa), (B + 4, writeU32 sb), (A + 0, writeU32 kf),
        (A + 12, writeU32 n), (A + 8, writeU32 sz), (B + 0, writeU32 kp)] [(B + 8, writeU32 sz)] (B + 12)
        (writeU32 cap) (isBytes_writeU32 _) (by show B + 12 + 4 ≤ _; omega) (eB 12 4 (by omega)) (by disj_tac)
        (by disj_tac)
    have r16 : F.read (B + 16) 12 = List.replicate 12 0xFF := by
      rw [hF, read_applyPs_other f2 _ (B + 16) 12 (by disj_tac)]
      exact read_erased (eB 16 12 (by omega))
    rw [split B, r0, r4, r8, r12, r16]

/-- the erased status word -/
theorem writeU32_ff : writeU32 4294967295 = [255, 255, 255, 255] := by decide

/-- the encoding of the firmware header of an open session -/
theorem encode_fwHdr (u : Upd) (sa : Nat) :
    writeU32 (encKind C Kind.firmware) ++ writeU32 sa ++ writeU32 u.bs ++ writeU32 u.n ++ List.replicate 12 255 =
      encodeHeader Codec.pinned (fwHdr u sa) := by
  show writeU32 0 ++ writeU32 sa ++ writeU32 u.bs ++ writeU32 u.n ++ List.replicate 12 255 =
    writeU32 0 ++ writeU32 sa ++ writeU32 u.bs ++ writeU32 u.n ++ writeU32 4294967295 ++ writeU32 4294967295 ++
      writeU32 4294967295
  rw [writeU32_ff]
  simp only [List.append_assoc]
  rfl

/-- the encoding of the parity header of an open session -/
theorem encode_parHdr (u : Upd) (sb : Nat) :
    writeU32 (encKind C Kind.parity) ++ writeU32 sb ++ writeU32 u.bs ++ writeU32 u.maxL ++ List.replicate 12 255 =
      encodeHeader Codec.pinned (parHdr u sb) := by
  show writeU32 1 ++ writeU32 sb ++ writeU32 u.bs ++ writeU32 u.maxL ++ List.replicate 12 255 =
    writeU32 1 ++ writeU32 sb ++ writeU32 u.bs ++ writeU32 u.maxL ++ writeU32 4294967295 ++ writeU32 4294967295 ++
      writeU32 4294967295
  rw [writeU32_ff]
  simp only [List.append_assoc]
  rfl

/-- a header whose bytes are the encoding of a representable header parses back to it -/
theorem hdrAt_of_read {f : Flash} {a : Nat} (h : Header) (wf : h.WF Codec.pinned)
    (hr : f.read a 28 = encodeHeader Codec.pinned h) : NoPanic.hdrAt f a = some h := by
  unfold NoPanic.hdrAt
  show (parseHeader C (f.read a 28)).map (·.1) = some h
  have e : C = Codec.pinned := C11.new_codec_pinned
  rw [e, hr]
  have := C11.encode_parse h [] wf
  rw [List.append_nil] at this
  rw [this]; rfl

/-- **`start_update` establishes the session invariant with headers.** As `startUpdate_lawful`, for a geometry
whose parity capacity is at least one row (otherwise the parity header cannot carry it): the firmware and parity
headers on flash are the ones the session invariant with headers names, with the sequence numbers `sa`, `sb` chosen
by `alloc_slotpair`. -/
theorem startUpdate_lawfulH (nslots S sz n : Nat) (d : Dev) (hG : Good d) (hwf : WF d.flash)
    (hacc : reasonablySized S sz n = .ok ()) (hdev : nslots * S ≤ d.flash.size) (hb0 : 0 < d.flash.block)
    (hdiv : S % d.flash.block = 0) (hn : 2 ≤ nslots) (hcap : 1 ≤ capacity S sz) :
    ∃ u0 d0 sa sb, (startUpdate nslots S sz n).run d = (.ok u0, d0) ∧ LawfulH u0 d0 sa sb ∧
      choosePair nslots (NoPanic.hdrs d.flash nslots S) = .ok (u0.fw.idx, u0.par.idx, sa, sb) ∧
      u0.l = 0 ∧ u0.done = 0 ∧ u0.used = 0 ∧ u0.n = n ∧ u0.bs = sz ∧ u0.maxL = capacity S sz ∧
      u0.fw.size = S ∧ u0.par.size = S ∧ u0.fw.idx < nslots ∧ u0.par.idx < nslots := by
  obtain ⟨a1, a2, a3, a4, a5⟩ := reasonablySized_ok hacc
  have hS : 17408 < S := by
    have : 1 ≤ sz * n := Nat.mul_le_mul a1 a3
    omega
  obtain ⟨a, b, sa, sb, d2, d10, ha, hb, hab, hcp, k02, erA, erB, hd10, F10, hrun⟩ :=
    startUpdate_explicit nslots S sz n d hG hacc hdev hb0 hdiv hn
  obtain ⟨u0, d0, hrun', hL, h1, h2, h3, h4, h5, h6, h7, h8, h9, h10⟩ :=
    startUpdate_lawful nslots S sz n d hG hwf hacc hdev hb0 hdiv hn
  have hpair := hrun.symm.trans hrun'
  injection hpair with e1 e2
  injection e1 with e1
  subst e1; subst e2
  have hslot : ∀ i, i < nslots → i * S + S ≤ d.flash.size := by
    intro i hi
    have : (i + 1) * S ≤ nslots * S := Nat.mul_le_mul_right _ hi
    rw [Nat.add_mul] at this; omega
  have hA := hslot a ha
  have hB := hslot b hb
  have hdis : a * S + S ≤ b * S ∨ b * S + S ≤ a * S := by
    rcases Nat.lt_or_gt_of_ne hab with h | h
    · left; have : (a + 1) * S ≤ b * S := Nat.mul_le_mul_right _ h
      rw [Nat.add_mul] at this; omega
    · right; have : (b + 1) * S ≤ a * S := Nat.mul_le_mul_right _ h
      rw [Nat.add_mul] at this; omega
  -- the sequence numbers
  obtain ⟨gsa, gsb⟩ := choosePair_seqs nslots (NoPanic.hdrs d.flash nslots S) (by
    intro i h hget
    have hmem : (NoPanic.hdrs d.flash nslots S)[i]? = some (some h) := by
      rw [List.getD_eq_getElem?_getD] at hget
      cases hx : (NoPanic.hdrs d.flash nslots S)[i]? with
      | none => rw [hx] at hget; cases hget
      | some o => rw [hx] at hget; simp only [Option.getD_some] at hget; rw [hget]
    simp only [NoPanic.hdrs, List.getElem?_map] at hmem
    by_cases hi : i < nslots
    · simp [List.getElem?_range hi] at hmem
      exact hdrAt_goodSeq hwf hmem
    · rw [List.getElem?_eq_none (by simpa using hi)] at hmem
      simp at hmem) a b sa sb hcp
  -- the header bytes
  have hflash : d10.flash = applyPs d2.flash [(a * S + 4, writeU32 sa), (b * S + 4, writeU32 sb),
      (a * S + 0, writeU32 (encKind C .firmware)), (a * S + 12, writeU32 n), (a * S + 8, writeU32 sz),
      (b * S + 0, writeU32 (encKind C .parity)), (b * S + 12, writeU32 (capacity S sz)),
      (b * S + 8, writeU32 sz)] := by
    rw [hd10]
    exact prog_chain d2 [(a * S + 4, writeU32 sa), (b * S + 4, writeU32 sb),
      (a * S + 0, writeU32 (encKind C .firmware)), (a * S + 12, writeU32 n), (a * S + 8, writeU32 sz),
      (b * S + 0, writeU32 (encKind C .parity)), (b * S + 12, writeU32 (capacity S sz)),
      (b * S + 8, writeU32 sz)]
  obtain ⟨rA, rB⟩ := start_headers d2.flash (a * S) (b * S) S sa sb (encKind C .firmware) (encKind C .parity) n sz
    (capacity S sz) (by rw [k02.size]; exact hA) (by rw [k02.size]; exact hB) hdis (by omega)
    (fun x h1 h2 => erA x h1 h2) (fun x h1 h2 => erB x h1 h2)
  rw [← hflash] at rA rB
  have hcapL := (C15.capacity_spec S sz).1
  refine ⟨_, _, sa, sb, hrun, ⟨hL, ?_, ?_⟩, hcp, h1, h2, h3, h4, h5, h6, h7, h8, h9, h10⟩
  · apply hdrAt_of_read
    · exact ⟨gsa.1, gsa.2, by show 0 < sz; omega, by show sz ≤ 256; exact a2, by show 0 < n; omega,
        by show n ≤ 16384; exact a4⟩
    · rw [rA]
      exact encode_fwHdr (Upd.mk (Slot.mk a S (if sz = 0 then none else some sz)) (Slot.mk b S (if sz = 0 then none else some sz))
        n 0 sz 0 0 (capacity S sz) (capacity S sz * sz) false) sa
  · apply hdrAt_of_read
    · exact ⟨gsb.1, gsb.2, by show 0 < sz; omega, by show sz ≤ 256; exact a2, by show 0 < capacity S sz; omega,
        by show capacity S sz ≤ 16384; omega⟩
    · rw [rB]
      exact encode_parHdr (Upd.mk (Slot.mk a S (if sz = 0 then none else some sz)) (Slot.mk b S (if sz = 0 then none else some sz))
        n 0 sz 0 0 (capacity S sz) (capacity S sz * sz) false) sb

end Fuota.Updater
