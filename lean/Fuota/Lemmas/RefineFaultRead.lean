import Fuota.Lemmas.RefineCrashFault
/-!
# A delivery in which one flash *read* fails: instrumented copy of `handle_segment`

`Model/Fs` injects transient faults only into mutating operations (`Dev.failAt` is compared with `Dev.nmut`, which
reads do not advance; `readTo` fails only on a dead device or out of bounds). Nothing is added to the model. Instead,
this file defines copies of `strip`, the elimination loop, `handle_block` and `handle_segment` in which every flash
read outside `finish` goes through a gate `readC` that counts reads and lets exactly the read with a given number
fail; with no number given the copies are the model's functions (`handleSegmentC_none`).
-/
namespace Fuota.Updater
open Fuota.Nor Fuota.Fs Fuota.FlashAdapters Fuota.Recon Fuota.Layout

/-- the gate: perform the flash read `m` — unless it is the read that fails. `none`: no read fault pending;
    `some 0`: this read fails (the error of a failed SPI transfer); `some (c + 1)`: the fault is `c` reads later -/
def readC {α : Type} (m : M α) : Option Nat → M (α × Option Nat)
  | none => do let a ← m; pure (a, none)
  | some 0 => throw (.spi .custom)
  | some (c + 1) => do let a ← m; pure (a, some c)

/-- `strip` with its reads gated -/
def stripC (u : Upd) (row : Nat) : List Nat → List Nat → Option Nat → M (List Nat × Option Nat)
  | [], d, c => pure (d, c)
  | i :: is, d, c =>
    if row.testBit i && u.done.testBit i then do
      let (t, c') ← readC (u.fw.readSegment i u.bs) c
      stripC u row is (xorBytes d t) c'
    else stripC u row is d c

/-- the elimination loop with its reads gated (the two programs of a new pivot are not reads) -/
def elimC (u : Upd) : Nat → Nat → List Nat → Option Nat → M Nat
  | 0, _, _, _ => pure u.used
  | wh + 1, row, data, c =>
    if row.testBit wh && u.used.testBit wh then do
      let (t, c1) ← readC (pGet u wh data.length) c
      let (r, c2) ← readC (mRow u wh) c1
      elimC u wh (row ^^^ r) (xorBytes data t) c2
    else if row.testBit wh then do
      pStore u wh data
      mSetRow u wh row
      pure (u.used ||| 2 ^ wh)
    else elimC u wh row data c

/-- `handle_block` with the reads of `strip` and of the elimination loop gated (`finish` is not gated: a fault inside
    `finish` is outside the scope of C18b/C18c) -/
def handleBlockC (ffr : Bool) (index : Nat) (data : List Nat) (c : Option Nat) : MU (Option Bool) := do
  let u ← getU
  if data.length ≠ u.bs then throw .panic
  if rcComplete u then return some true
  let l0 := (Recon.unknowns u.done u.n).length
  if u.n ≤ index ∧ u.l = 0 ∧ (VBITS < l0 ∨ u.maxL < l0) then return none
  let u := if u.n ≤ index ∧ u.l = 0 then { u with l := l0 } else u
  setU u
  if u.l = 0 then
    if u.done.testBit index then return some (rcComplete u)
    let fw ← liftM (u.fw.writeSegment index data)
    let u := { u with fw := fw, done := u.done ||| 2 ^ index }
    setU u
    return some (rcComplete u)
  else
    let row ← match updaterRow ffr u.n index with
      | none => throw MErr.panic
      | some r => pure r
    let (d, c') ← liftM (stripC u row (List.range u.n) data c)
    let used ← liftM (elimC u u.l (Recon.project u.done u.n row) d c')
    let u := { u with used := used }
    setU u
    if rcComplete u then
      let u' ← liftM (finishOuter (Recon.unknowns u.done u.n) (List.range u.l) u)
      setU u'
      return some true
    else return some false

/-- `handle_segment` over `handleBlockC` -/
def handleSegmentC (ffr : Bool) (idx1 : Nat) (bytes : List Nat) (c : Option Nat) : MU Outcome := do
  if idx1 = 0 then throw (.spi .oob)
  match ← handleBlockC ffr (idx1 - 1) bytes c with
  | some true =>
    let u ← getU
    setU { u with complete := true }
    pure .complete
  | _ => pure .consumed

/-! ## without a pending read fault the copies are the model's functions -/

/-- the gate without a pending fault is the read -/
theorem readC_none {α : Type} (m : M α) : readC m none = (m >>= fun a => pure (a, none)) := rfl

/-- `stripC` without a pending fault is `strip` -/
theorem stripC_none (u : Upd) (row : Nat) : ∀ (is : List Nat) (d : List Nat),
    stripC u row is d none = (strip u row is d >>= fun x => pure (x, none))
  | [], d => by simp [stripC, strip]
  | i :: is, d => by
    unfold stripC strip
    split
    · simp only [readC_none, bind_assoc, pure_bind]
      congr 1
      funext t
      exact stripC_none u row is _
    · exact stripC_none u row is d

/-- `elimC` without a pending fault is the elimination loop -/
theorem elimC_none (u : Upd) : ∀ (wh row : Nat) (data : List Nat), elimC u wh row data none = Updater.elim u wh row data
  | 0, _, _ => rfl
  | wh + 1, row, data => by
    unfold elimC Updater.elim
    split
    · simp only [readC_none, bind_assoc, pure_bind]
      congr 1
      funext t
      congr 1
      funext r
      exact elimC_none u wh _ _
    · split
      · rfl
      · exact elimC_none u wh row data

/-- sequencing after the gated `strip` without a pending fault -/
theorem liftM_stripC_none {β : Type} (u : Upd) (row : Nat) (is d : List Nat)
    (f : List Nat × Option Nat → MU β) :
    (liftM (stripC u row is d none) >>= f) = (liftM (strip u row is d) >>= fun x => f (x, none)) := by
  apply ExceptT.ext
  funext s
  show (liftM (stripC u row is d none) >>= f).run s = (liftM (strip u row is d) >>= fun x => f (x, none)).run s
  rw [runU_bind, runU_bind, runU_liftM, runU_liftM, stripC_none, run_bind]
  generalize (strip u row is d).run s.2 = q
  obtain ⟨r, d'⟩ := q
  cases r <;> rfl

/-- **`handleBlockC` without a pending read fault is `handle_block`** -/
theorem handleBlockC_none (ffr : Bool) (index : Nat) (data : List Nat) :
    handleBlockC ffr index data none = handleBlock ffr index data := by
  unfold handleBlockC handleBlock
  simp only [liftM_stripC_none, elimC_none]
  rfl

/-- **`handleSegmentC` without a pending read fault is `handle_segment`** -/
theorem handleSegmentC_none (ffr : Bool) (idx1 : Nat) (bytes : List Nat) :
    handleSegmentC ffr idx1 bytes none = handleSegment ffr idx1 bytes := by
  unfold handleSegmentC handleSegment
  rw [handleBlockC_none]
  rfl

end Fuota.Updater
