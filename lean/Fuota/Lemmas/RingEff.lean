import Fuota.Lemmas.RingScan
/-!
# Ring lemmas, part 4: runs of header-level effects, and the effect lists of cancel / remediation
-/
namespace Fuota.Ring
open Fuota.Layout Fuota.Fs Fuota.Updater Fuota.Slots

theorem applyAll_length (hs : Hdrs) (es : List Eff) : (applyAll hs es).length = hs.length := by
  induction es generalizing hs with
  | nil => rfl
  | cons e es ih =>
    show (applyAll (apply1 hs e) es).length = hs.length
    rw [ih]
    simp [apply1]

/-- a slot no effect addresses reads as before -/
theorem applyAll_get_of_not_mem (hs : Hdrs) (es : List Eff) (j : Nat) (h : ∀ e ∈ es, e.1 ≠ j) :
    (applyAll hs es)[j]? = hs[j]? := by
  induction es generalizing hs with
  | nil => rfl
  | cons e es ih =>
    show (applyAll (apply1 hs e) es)[j]? = hs[j]?
    rw [ih _ (fun e' he' => h e' (List.mem_cons_of_mem _ he'))]
    unfold apply1
    rw [List.getElem?_set]
    simp [h e (by simp)]

/-- with pairwise different slots, an addressed slot reads what its effect wrote -/
theorem applyAll_get_of_mem (hs : Hdrs) (es : List Eff) (hnd : es.Pairwise (fun a b => a.1 ≠ b.1))
    (e : Eff) (he : e ∈ es) (hlt : e.1 < hs.length) : (applyAll hs es)[e.1]? = some e.2 := by
  induction es generalizing hs with
  | nil => cases he
  | cons x es ih =>
    rw [List.pairwise_cons] at hnd
    show (applyAll (apply1 hs x) es)[e.1]? = some e.2
    rcases List.mem_cons.mp he with rfl | he'
    · rw [applyAll_get_of_not_mem _ _ _ (fun e' he' => (hnd.1 e' he').symm)]
      unfold apply1
      rw [List.getElem?_set]
      simp [hlt]
    · exact ih _ hnd.2 he' (by simpa [apply1] using hlt)

/-- a crash prefix of a run addresses a subset of its slots -/
theorem take_pairwise {es : List Eff} (k : Nat) (hnd : es.Pairwise (fun a b => a.1 ≠ b.1)) :
    (es.take k).Pairwise (fun a b => a.1 ≠ b.1) :=
  List.Pairwise.sublist (List.take_sublist k es) hnd

/-! ## effect lists as `filterMap`s of the indexed headers -/

/-- the effect list a per-slot decision `φ` produces (`none` = leave the slot alone) -/
def effsOf (φ : Nat × Header → Option (Option Header)) (l : List (Nat × Header)) : List Eff :=
  l.filterMap fun p => (φ p).map fun v => (p.1, v)

theorem mem_effsOf {φ : Nat × Header → Option (Option Header)} {l : List (Nat × Header)} {e : Eff} :
    e ∈ effsOf φ l ↔ ∃ h, (e.1, h) ∈ l ∧ φ (e.1, h) = some e.2 := by
  unfold effsOf
  rw [List.mem_filterMap]
  constructor
  · rintro ⟨p, hp, hφ⟩
    rw [Option.map_eq_some_iff] at hφ
    obtain ⟨v, hv, rfl⟩ := hφ
    exact ⟨p.2, hp, hv⟩
  · rintro ⟨h, hm, hφ⟩
    exact ⟨(e.1, h), hm, by simp [hφ]⟩

theorem effsOf_sorted (φ : Nat × Header → Option (Option Header)) {l : List (Nat × Header)}
    (hs : l.Pairwise (fun p q => p.1 < q.1)) : (effsOf φ l).Pairwise (fun a b => a.1 < b.1) := by
  unfold effsOf
  refine List.Pairwise.filterMap _ ?_ hs
  intro a a' hlt b hb b' hb'
  rw [Option.map_eq_some_iff] at hb hb'
  obtain ⟨_, _, rfl⟩ := hb
  obtain ⟨_, _, rfl⟩ := hb'
  exact hlt

theorem effsOf_nodup (φ : Nat × Header → Option (Option Header)) {l : List (Nat × Header)}
    (hs : l.Pairwise (fun p q => p.1 < q.1)) : (effsOf φ l).Pairwise (fun a b => a.1 ≠ b.1) :=
  (effsOf_sorted φ hs).imp (fun h => Nat.ne_of_lt h)

/-- per-slot decision of `cancel_all_ext_pending` -/
def cancelPhi (p : Nat × Header) : Option (Option Header) :=
  if p.2.ext = Ext.inProgress then some (some { p.2 with ext := .aborted }) else none

theorem cancelEffsOf_eq (l : List (Nat × Header)) : cancelEffsOf l = effsOf cancelPhi l := by
  induction l with
  | nil => rfl
  | cons p l ih =>
    obtain ⟨i, h⟩ := p
    unfold cancelEffsOf effsOf
    by_cases he : h.ext = Ext.inProgress
    · simp only [he, ↓reduceIte, List.filterMap_cons, cancelPhi, Option.map_some]
      rw [ih]; rfl
    · simp only [he, ↓reduceIte, List.filterMap_cons, cancelPhi, Option.map_none]
      rw [ih]; rfl

/-- per-slot decision of the abort pass of the remediation -/
def abortPhi (a b : Nat) (p : Nat × Header) : Option (Option Header) :=
  if p.1 = a ∨ p.1 = b then none
  else if totalStatus p.2 = TotalStatus.appWriteInProgress then some (some { p.2 with ext := .aborted }) else none

/-- per-slot decision of the erase pass of the remediation -/
def erasePhi (a b : Nat) (p : Nat × Header) : Option (Option Header) :=
  if p.1 = a ∨ p.1 = b then none
  else if totalStatus p.2 = TotalStatus.bootloadWriteInProgress ∨ totalStatus p.2 = TotalStatus.invalidNeedsErase
    then some none else none

/-- per-slot decision of the single-pass remediation -/
def pinnedPhi (a b : Nat) (p : Nat × Header) : Option (Option Header) :=
  (abortPhi a b p).or (erasePhi a b p)

theorem remediateAbortEffs_eq (a b : Nat) (l : List (Nat × Header)) :
    remediateAbortEffs a b l = effsOf (abortPhi a b) l := by
  induction l with
  | nil => rfl
  | cons p l ih =>
    obtain ⟨i, h⟩ := p
    unfold remediateAbortEffs effsOf
    by_cases hi : i = a ∨ i = b
    · simp only [hi, ↓reduceIte, List.filterMap_cons, abortPhi, Option.map_none]
      rw [ih]; rfl
    · simp only [hi, ↓reduceIte, List.filterMap_cons, abortPhi]
      cases hst : totalStatus h <;> simp <;> rw [ih] <;> rfl

theorem remediateEraseEffs_eq (a b : Nat) (l : List (Nat × Header)) :
    remediateEraseEffs a b l = effsOf (erasePhi a b) l := by
  induction l with
  | nil => rfl
  | cons p l ih =>
    obtain ⟨i, h⟩ := p
    unfold remediateEraseEffs effsOf
    by_cases hi : i = a ∨ i = b
    · simp only [hi, ↓reduceIte, List.filterMap_cons, erasePhi, Option.map_none]
      rw [ih]; rfl
    · simp only [hi, ↓reduceIte, List.filterMap_cons, erasePhi]
      cases hst : totalStatus h <;> simp <;> rw [ih] <;> rfl

theorem remediateEffsPinned_eq (a b : Nat) (l : List (Nat × Header)) :
    remediateEffsPinned a b l = effsOf (pinnedPhi a b) l := by
  induction l with
  | nil => rfl
  | cons p l ih =>
    obtain ⟨i, h⟩ := p
    unfold remediateEffsPinned effsOf
    by_cases hi : i = a ∨ i = b
    · simp only [hi, ↓reduceIte, List.filterMap_cons, pinnedPhi, abortPhi, erasePhi, Option.or_none, Option.map_none]
      rw [ih]; rfl
    · simp only [hi, ↓reduceIte, List.filterMap_cons, pinnedPhi, abortPhi, erasePhi]
      cases hst : totalStatus h <;> simp <;> rw [ih] <;> rfl

end Fuota.Ring
