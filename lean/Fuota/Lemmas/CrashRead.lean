import Fuota.Lemmas.OpsFlash
import Fuota.Props.C14
/-!
# Reads of the session model, and the bridge to the validation model of C14

* well-formed flash (`WF`: every byte `< 256`), preserved by every operation;
* the two CRC transcriptions (`Updater.crcBit/crcByte/crcUpdate/crcFinal`, `Crc.shift1/crcStepByte/crcUpdate/
  crcFinalize`) agree on bytes;
* on a device that is not dead, `readTo`, `loadHeaderAt`, `crcLoop`, `crcValid`, `isValidFirmware` of the session
  model leave the device unchanged and return what the pure functions of `Fuota.Firmware` return.
-/
namespace Fuota.Crash
open Fuota.Nor Fuota.Fs Fuota.Layout Fuota.Ops

/-! ## well-formed flash -/

/-- every byte is a byte -/
def WF (f : Flash) : Prop := ∀ x, f.byte x < 256

theorem byte_oob (f : Flash) (x : Nat) (h : f.size ≤ x) : f.byte x = 0xFF := by
  unfold Flash.byte
  simp only [Array.getD_eq_getD_getElem?]
  rw [Array.getElem?_eq_none (by unfold Flash.size at h; omega)]
  rfl

theorem WF.apply {f : Flash} (h : WF f) (op : Op) : WF (f.apply op) := by
  intro x
  cases op with
  | erase a =>
    show (fillFF f.mem a f.block).getD x 0xFF < 256
    rw [fillFF_getD]
    split
    · decide
    · exact h x
  | program a bs =>
    by_cases hx : x < f.size
    · show (programBytes f.mem a bs).getD x 0xFF < 256
      rw [programBytes_getD _ _ _ _ hx]
      split
      · exact Nat.lt_of_le_of_lt Nat.and_le_left (h x)
      · exact h x
    · rw [byte_oob _ _ (by rw [apply_size]; omega)]
      decide

theorem WF.applyAll {f : Flash} (h : WF f) (ops : List Op) : WF (f.applyAll ops) := by
  induction ops generalizing f with
  | nil => exact h
  | cons op ops ih => exact ih (h.apply op)

theorem WF.read {f : Flash} (h : WF f) (a len : Nat) : ∀ b ∈ f.read a len, b < 256 := by
  intro b hb
  unfold Flash.read at hb
  rw [List.mem_map] at hb
  obtain ⟨i, _, rfl⟩ := hb
  exact h _

theorem WF.blank (B n : Nat) : WF (Flash.blank B n) := by
  intro x
  unfold Flash.byte Flash.blank
  simp only [Array.getD_eq_getD_getElem?, Array.getElem?_replicate]
  split <;> decide

/-! ## the two CRC transcriptions -/

theorem crcBit_eq (r : Nat) : Updater.crcBit r = Crc.shift1 r := by
  unfold Updater.crcBit Crc.shift1 Crc.poly
  rw [Nat.testBit_eq_decide_div_mod_eq]
  simp only [show (2 : Nat) ^ 31 = 2147483648 from rfl, show (2 : Nat) ^ 32 = 4294967296 from rfl,
    decide_eq_true_eq]

/-- **`crcByte_eq`**: on bytes the two byte steps are the same function (every register value) -/
theorem crcByte_eq (r b : Nat) (hb : b < 256) : Updater.crcByte r b = Crc.crcStepByte r b := by
  unfold Updater.crcByte Crc.crcStepByte
  simp only [crcBit_eq, Nat.mod_eq_of_lt hb, show (2 : Nat) ^ 24 = 16777216 from rfl]
  rfl

theorem crcUpdate_eq (r : Nat) (bs : List Nat) (hb : ∀ b ∈ bs, b < 256) :
    Updater.crcUpdate r bs = Crc.crcUpdate r bs := by
  unfold Updater.crcUpdate
  induction bs generalizing r with
  | nil => rfl
  | cons b bs ih =>
    rw [List.foldl_cons, crcByte_eq r b (hb b List.mem_cons_self)]
    exact ih _ (fun c hc => hb c (List.mem_cons_of_mem _ hc))

theorem crcFinal_eq (r : Nat) : Updater.crcFinal r = Crc.crcFinalize r := rfl

/-! ## reads on a live device -/

theorem readTo_run {d : Dev} (hd : d.dead = false) (a len : Nat) :
    (readTo a len).run d =
      (match d.flash.readChecked a len with
        | none => .error (.spi .oob)
        | some bs => .ok bs, d) := by
  unfold readTo
  dsimp only
  simp only [throw_bind]
  rw [run_bind, run_get]
  dsimp only
  simp only [hd, Bool.false_eq_true, ↓reduceIte]
  cases d.flash.readChecked a len <;> rfl

/-- on a dead device every read fails and nothing changes -/
theorem readTo_run_dead {d : Dev} (hd : d.dead = true) (a len : Nat) :
    (readTo a len).run d = (.error (.spi .custom), d) := by
  unfold readTo
  dsimp only
  simp only [throw_bind]
  rw [run_bind, run_get]
  dsimp only
  simp only [hd, ↓reduceIte]
  rfl

theorem loadHeaderAt_run {d : Dev} (hd : d.dead = false) (a : Nat) :
    (loadHeaderAt a).run d =
      (match Firmware.loadHeader d.flash a with
        | none => .error (.spi .oob)
        | some h => .ok h, d) := by
  unfold loadHeaderAt Firmware.loadHeader
  rw [run_bind, readTo_run hd]
  cases d.flash.readChecked a Consts.SLOT_HEADER_SIZE <;> rfl

/-! ## the segment loop -/

theorem crcLoop_run {d : Dev} (hd : d.dead = false) (hwf : WF d.flash) (base sz : Nat) :
    ∀ (k idx : Nat) (skip : Option Nat) (crc : Nat) (log : Firmware.ReadLog),
      (Updater.crcLoop base sz (List.range' idx k) skip crc).run d =
        (match (Firmware.segLoop d.flash base sz k idx skip crc log).1 with
          | none => .error (.spi .oob)
          | some r => .ok r, d) := by
  intro k
  induction k with
  | zero => intro idx skip crc log; rfl
  | succ k ih =>
    intro idx skip crc log
    rw [List.range'_succ]
    unfold Updater.crcLoop Firmware.segLoop
    cases skip with
    | some n =>
      dsimp only
      by_cases hn : n ≥ sz
      · simp only [hn, ↓reduceIte]
        exact ih _ _ _ _
      · simp only [hn, ↓reduceIte]
        rw [run_bind, readTo_run hd]
        rcases hr : d.flash.readChecked (base + idx * sz) sz with _ | buf
        · rfl
        · dsimp only
          have hbuf : buf = d.flash.read (base + idx * sz) sz := by
            rw [Firmware.readChecked_eq] at hr
            split at hr
            · cases hr; rfl
            · cases hr
          rw [crcUpdate_eq _ _ (fun b hb => by
            rw [hbuf] at hb
            exact hwf.read _ _ b (List.mem_of_mem_drop hb))]
          exact ih _ _ _ _
    | none =>
      dsimp only
      rw [run_bind, readTo_run hd]
      rcases hr : d.flash.readChecked (base + idx * sz) sz with _ | buf
      · rfl
      · dsimp only
        have hbuf : buf = d.flash.read (base + idx * sz) sz := by
          rw [Firmware.readChecked_eq] at hr
          split at hr
          · cases hr; rfl
          · cases hr
        rw [crcUpdate_eq _ _ (fun b hb => by rw [hbuf] at hb; exact hwf.read _ _ b hb)]
        exact ih _ _ _ _

/-! ## the verdicts -/

/-- the session model's result for a verdict of the validation model -/
def Res.toM : Firmware.Res → Except MErr Unit
  | .ok => .ok ()
  | .crc32Mismatch => .error .crcMismatch
  | .tooManySegments => .error .tooManySegments
  | .segmentsTooLarge => .error .segmentsTooLarge
  | .spiOutOfBounds => .error (.spi .oob)
  | .fatal => .error .fatal
  | .unexpectedMissingHeader => .error .missingHeader
  | .checkFailNotFirmware => .error .checkNotFirmware
  | .checkFailNotDone => .error .checkNotDone
  | .spiHardwareFailure => .error (.spi .hw)
  | .segmentCountMismatch => .error .countMismatch
  | .segmentSizeMismatch => .error .sizeMismatch

theorem Res.toM_ok (r : Firmware.Res) : Res.toM r = .ok () ↔ r = .ok := by
  cases r <;> simp [Res.toM]

theorem le32_read68 (f : Flash) (a : Nat) :
    Nor.le32 (f.read a 68) = Layout.le32 (f.byte a) (f.byte (a + 1)) (f.byte (a + 2)) (f.byte (a + 3)) := by
  rfl

/-- **`crcValid` bridge**: on a live, well-formed device `Slot::crc_valid` of the session model returns the verdict
    of `Firmware.crcValid` on the current flash and leaves the device unchanged -/
theorem crcValid_bridge {d : Dev} (hd : d.dead = false) (hwf : WF d.flash) (s : Slot) (h : Header)
    (log : Firmware.ReadLog) :
    (Updater.crcValid s h).run d = (Res.toM (Firmware.crcValid d.flash (s.idx * s.size) h log).1, d) := by
  unfold Updater.crcValid Firmware.crcValid
  dsimp only
  simp only [throw_bind]
  have c1 : MAX_SEGMENTS = Consts.MAX_SEGMENTS := rfl
  have c2 : MAX_SEGMENT_SIZE = Consts.MAX_SEGMENT_SIZE := rfl
  rw [c1, c2]
  by_cases h1 : h.n > Consts.MAX_SEGMENTS
  · simp only [h1, ↓reduceIte]; rfl
  · simp only [h1, ↓reduceIte]
    by_cases h2 : h.size > Consts.MAX_SEGMENT_SIZE
    · simp only [h2, ↓reduceIte]; rfl
    · simp only [h2, ↓reduceIte]
      rw [run_bind, readTo_run hd]
      have e1 : s.idx * s.size + DATA_REGION_OFFSET = s.idx * s.size + Firmware.dataOff := rfl
      have e2 : Consts.CRC_SIZE + Consts.SIG_SIZE = Firmware.prefixLen := rfl
      rw [e1, e2]
      rw [Firmware.readChecked_eq]
      by_cases hin : s.idx * s.size + Firmware.dataOff + Firmware.prefixLen ≤ d.flash.size
      · simp only [hin, ↓reduceIte]
        have hpre : Firmware.prefixLen = 68 := rfl
        rw [hpre, C14.takeU32_prefix]
        dsimp only
        have hl : ¬ ((d.flash.read (s.idx * s.size + Firmware.dataOff + 4) 64).length < Consts.SIG_SIZE) := by
          rw [Firmware.read_length]; decide
        simp only [hl, ↓reduceIte]
        rw [run_bind, List.range_eq_range',
          crcLoop_run hd hwf _ _ _ _ _ _ ((s.idx * s.size + Firmware.dataOff, 68) :: log)]
        show _ = (Res.toM (match Firmware.segLoop d.flash (s.idx * s.size + Firmware.dataOff) h.size h.n 0
          (some 68) Crc.crcInit ((s.idx * s.size + Firmware.dataOff, 68) :: log) with
            | (none, log) => (Firmware.Res.spiOutOfBounds, log)
            | (some reg, log) => if _ = Crc.crcFinalize reg then (Firmware.Res.ok, log)
                else (Firmware.Res.crc32Mismatch, log)).1, d)
        rw [show Crc.crcInit = 0 from rfl]
        rcases Firmware.segLoop d.flash (s.idx * s.size + Firmware.dataOff) h.size h.n 0
          (some 68) 0 ((s.idx * s.size + Firmware.dataOff, 68) :: log) with ⟨r, l⟩
        cases r with
        | none => rfl
        | some reg =>
          dsimp only
          rw [le32_read68, crcFinal_eq]
          split <;> rfl
      · simp only [hin, ↓reduceIte]
        rfl

/-- **`valid_bridge`**: on a live, well-formed device `Slot::is_valid_firmware` of the session model returns the
    verdict of `Firmware.isValidFirmware` on the current flash and leaves the device unchanged -/
theorem valid_bridge {d : Dev} (hd : d.dead = false) (hwf : WF d.flash) (s : Slot) :
    (Updater.isValidFirmware s).run d = (Res.toM (Firmware.isValidFirmware d.flash s.size s.idx).1, d) := by
  unfold Updater.isValidFirmware Firmware.isValidFirmware
  dsimp only
  simp only [throw_bind]
  rw [run_bind, loadHeaderAt_run hd]
  rcases Firmware.loadHeader d.flash (s.idx * s.size) with _ | _ | hdr
  · rfl
  · rfl
  · dsimp only
    by_cases hk : hdr.kind ≠ Kind.firmware
    · rw [if_pos hk, if_pos hk]; rfl
    · rw [if_neg hk, if_neg hk]
      by_cases he : hdr.ext ≠ Ext.complete
      · rw [if_pos he, if_pos he]; rfl
      · rw [if_neg he, if_neg he]
        exact crcValid_bridge hd hwf s hdr _

/-- on a dead device both routines fail with the dead-device error and change nothing -/
theorem valid_dead {d : Dev} (hd : d.dead = true) (s : Slot) :
    (Updater.isValidFirmware s).run d = (.error (.spi .custom), d) := by
  unfold Updater.isValidFirmware loadHeaderAt
  rw [run_bind, run_bind, readTo_run_dead hd]

end Fuota.Crash
