import Fuota.Lemmas.RefineSession
import Fuota.Lemmas.Counters
import Fuota.Lemmas.NoPanicFs
/-!
# What `try_recover_inner` reads back from a device that satisfies the session invariant
(status array = `done`, diagonal bytes = `used`, remediation silent)
-/
namespace Fuota.Updater
open Fuota.Nor Fuota.Fs Fuota.FlashAdapters Fuota.Recon Fuota.Layout

/-! ## bits of a byte list -/

/-- bit `j` of the number a byte list denotes is bit `j % 8` of byte `j / 8` -/
theorem testBit_bytesToNat : ∀ (bs : List Nat), IsBytes bs → ∀ j,
    (bytesToNat bs).testBit j = (bs.getD (j / 8) 0).testBit (j % 8)
  | [], _, j => by simp [bytesToNat]
  | b :: bs, hb, j => by
    rw [isBytes_cons] at hb
    have e : bytesToNat (b :: bs) = 2 ^ 8 * bytesToNat bs + b := by simp only [bytesToNat]; omega
    rw [e, Nat.testBit_two_pow_mul_add _ (by omega : b < 2 ^ 8)]
    by_cases hj : j < 8
    · have h1 : j / 8 = 0 := by omega
      have h2 : j % 8 = j := by omega
      simp [hj, h1, h2]
    · have h1 : j / 8 = (j - 8) / 8 + 1 := by omega
      have h2 : j % 8 = (j - 8) % 8 := by omega
      rw [if_neg hj, testBit_bytesToNat bs hb.2 (j - 8), h1, List.getD_cons_succ, h2]

/-- `0xFF` has its eight low bits set -/
theorem testBit_ff (k : Nat) (hk : k < 8) : (0xFF : Nat).testBit k = true := by
  have : (0xFF : Nat) = 2 ^ 8 - 1 := by decide
  rw [this, Nat.testBit_two_pow_sub_one]; simpa using hk

/-- a stored row whose decoded value has its diagonal bit set has a diagonal byte different from `0xFF` on flash -/
theorem diag_ne_ff (raw : List Nat) (m : Nat) (hb : IsBytes raw)
    (h : (bytesToNat (flipBit raw m)).testBit m = true) : raw.getD (m / 8) 0 ≠ 0xFF := by
  intro hff
  rw [testBit_bytesToNat _ (hb.flipBit m)] at h
  have hg : (flipBit raw m).getD (m / 8) 0 = ((raw[m / 8]?).map (fun b => b ^^^ 2 ^ (m % 8))).getD 0 := by
    rw [List.getD_eq_getElem?_getD, getElem?_flipBit]
    cases raw[m / 8]? <;> simp
  rw [hg] at h
  rw [List.getD_eq_getElem?_getD] at hff
  cases hr : raw[m / 8]? with
  | none => rw [hr] at h; simp at h
  | some b =>
    rw [hr] at h hff
    simp only [Option.getD_some] at hff
    subst hff
    simp only [Option.map_some, Option.getD_some, Nat.testBit_xor, Nat.testBit_two_pow_self] at h
    rw [testBit_ff _ (Nat.mod_lt _ (by omega))] at h
    simp at h

/-! ## the diagonal scan `loadUsed` -/

/-- address of the diagonal byte of row `i` -/
def diagAddr (u : Upd) (i : Nat) : Nat := rAddr u i + i / 8

/-- `loadUsed` reads the diagonal byte of each listed row and sets the bit of those that are not `0xFF` -/
theorem loadUsed_run {u : Upd} {d : Dev} (g : Geo u d.flash.size) (hG : Good d) (s : Slot) (mo : Nat)
    (hidx : s.idx = u.par.idx) (hsize : s.size = u.par.size) (hmo' : mo = u.matrixOffset) :
    ∀ (is : List Nat) (used : Nat), (∀ i ∈ is, i < u.maxL) →
    (loadUsed s mo is used).run d =
      (.ok (is.foldl (fun acc i => if d.flash.byte (diagAddr u i) ≠ 0xFF then acc ||| 2 ^ i else acc) used), d) := by
  intro is
  induction is with
  | nil => intro used _; rfl
  | cons i is ih =>
    intro used h
    have hi := h i List.mem_cons_self
    obtain ⟨h1, h2, _, h3, _, _, h4⟩ := g.slots
    obtain ⟨h5, h6⟩ := g.row hi
    have hmo := g.hmo
    unfold loadUsed Slot.readRaw
    have e1 : ¬ (s.size - HEADER_SIZE < mo + rowOff i + i / 8 + 1) := by
      rw [hsize, hmo']; show ¬ (u.par.size - 1024 < _); omega
    have ea : s.idx * s.size + HEADER_SIZE + (mo + rowOff i + i / 8) = diagAddr u i := by
      rw [hidx, hsize, hmo']; simp only [diagAddr, rAddr, parBase]; show _ + 1024 + _ = _; omega
    simp only [e1, ↓reduceIte, run_bind, ea]
    rw [readTo_run hG _ _ (by simp only [diagAddr, rAddr]; omega)]
    simp only [List.foldl_cons]
    have hb : (d.flash.read (diagAddr u i) 1).getD 0 0xFF = d.flash.byte (diagAddr u i) := by
      simp [Flash.read]
    rw [hb]
    exact ih _ (fun j hj => h j (List.mem_cons_of_mem _ hj))

/-- bits of the mask built by such a scan over `0 .. N` -/
theorem testBit_scan (p : Nat → Prop) [DecidablePred p] (N : Nat) : ∀ j,
    ((List.range N).foldl (fun acc i => if p i then acc ||| 2 ^ i else acc) 0).testBit j =
      (decide (j < N) && decide (p j)) := by
  induction N with
  | zero => intro j; simp
  | succ N ih =>
    intro j
    rw [List.range_succ, List.foldl_append]
    simp only [List.foldl_cons, List.foldl_nil]
    by_cases hp : p N
    · rw [if_pos hp, Gf2.testBit_or_two_pow, ih]
      by_cases hj : j = N
      · subst hj; simp [hp]
      · have : decide (N = j) = false := by simp; omega
        rw [this, Bool.or_false]
        by_cases hlt : j < N
        · simp [hlt, show j < N + 1 by omega]
        · simp [hlt, show ¬ j < N + 1 by omega]
    · rw [if_neg hp, ih]
      by_cases hj : j = N
      · subst hj; simp [hp]
      · by_cases hlt : j < N
        · simp [hlt, show j < N + 1 by omega]
        · simp [hlt, show ¬ j < N + 1 by omega]

/-- **under the session invariant the diagonal scan returns `used`** -/
theorem loadUsed_lawful {E : Nat → Prop} {u : Upd} {d : Dev} (L : Lawful' E u d) (s : Slot) (mo : Nat)
    (hidx : s.idx = u.par.idx) (hsize : s.size = u.par.size) (hmo' : mo = u.matrixOffset) :
    (loadUsed s mo (List.range u.maxL) 0).run d = (.ok u.used, d) := by
  rw [loadUsed_run L.geo L.good s mo hidx hsize hmo' _ _ (fun i hi => List.mem_range.1 hi)]
  congr 2
  apply Nat.eq_of_testBit_eq
  intro j
  rw [testBit_scan (fun i => d.flash.byte (diagAddr u i) ≠ 0xFF)]
  by_cases hj : j < u.maxL
  · obtain ⟨h1, h2, _, h3, _, _, h4⟩ := L.geo.slots
    obtain ⟨r1, r2, r3, r4⟩ := L.geo.regions.2 j hj
    cases hu : u.used.testBit j with
    | false =>
      have := (L.herP j hj hu).2 (diagAddr u j) (by simp only [diagAddr]; omega) (by simp only [diagAddr]; omega)
      simp [hj, this]
    | true =>
      have hbit := (L.hech j hu).2.1
      simp only [msVal, hj, hu, and_self, ↓reduceIte] at hbit
      have hne := diag_ne_ff _ j (isBytes_read L.wf _ _) hbit
      have hrd : (d.flash.read (rAddr u j) (j / 8 + 1)).getD (j / 8) 0 = d.flash.byte (diagAddr u j) := by
        rw [List.getD_eq_getElem?_getD, getElem?_read, if_pos (by omega)]; rfl
      rw [hrd] at hne
      simp [hj, hne]
  · have hu : u.used.testBit j = false := by
      cases hb : u.used.testBit j with
      | false => rfl
      | true => have := (L.hech j hb).1; have := L.hl; omega
    simp [hj, hu]

/-- the model's and the updater's population counts are the same function -/
theorem popcount_eq_pop (m k : Nat) : popcount m k = pop m k := by
  induction k with
  | zero => rfl
  | succ k ih => simp [popcount, pop, ih]

/-! ## the status scan `load_status_array` -/

/-- below bit `s < N` the clearing mask `2^N - 1 - 2^s` has all bits set -/
theorem clearMask_low (N s j : Nat) (hs : s < N) (hj : j < s) : (2 ^ N - 1 - 2 ^ s).testBit j = true := by
  have hA : 2 ^ N = 2 ^ (N - s) * 2 ^ s := by rw [← Nat.pow_add]; congr 1; omega
  have hA2 : 2 ≤ 2 ^ (N - s) := by
    have : 2 ^ 1 ≤ 2 ^ (N - s) := Nat.pow_le_pow_right (by omega) (by omega)
    simpa using this
  have hB : 0 < 2 ^ s := Nat.two_pow_pos s
  have e : 2 ^ N - 1 - 2 ^ s = 2 ^ s * (2 ^ (N - s) - 2) + (2 ^ s - 1) := by
    rw [hA]
    generalize 2 ^ (N - s) = A at hA2
    generalize 2 ^ s = B at hB
    obtain ⟨A', rfl⟩ : ∃ A', A = A' + 2 := ⟨A - 2, by omega⟩
    rw [Nat.add_mul, Nat.add_sub_cancel, Nat.mul_comm B A']
    omega
  rw [e, Nat.testBit_two_pow_mul_add _ (by omega : 2 ^ s - 1 < 2 ^ s), if_pos hj, Nat.testBit_two_pow_sub_one]
  simpa using hj

/-- `fill_from` on bytes that are all `written` or `not written`: the bits below `start` are kept, the next
    `bs.length` bits say which bytes are `written` -/
theorem fillFrom_spec : ∀ (bs : List Nat) (mask start : Nat), (∀ b ∈ bs, b = 0x33 ∨ b = 0xFF) →
    (∀ j, start ≤ j → mask.testBit j = false) → start + bs.length ≤ 16384 →
    ∃ m, fillFrom mask start bs = .ok m ∧ ∀ j, m.testBit j =
      if j < start then mask.testBit j else (decide (j < start + bs.length) && decide (bs.getD (j - start) 0 = 0x33))
  | [], mask, start, _, hm, _ => by
    refine ⟨mask, rfl, fun j => ?_⟩
    by_cases hj : j < start
    · simp [hj]
    · simp [hj, hm j (by omega)]
  | b :: bs, mask, start, hb, hm, hlen => by
    have hb' : ∀ b ∈ bs, b = 0x33 ∨ b = 0xFF := fun c hc => hb c (List.mem_cons_of_mem _ hc)
    simp only [List.length_cons] at hlen
    rcases hb b List.mem_cons_self with rfl | rfl
    · obtain ⟨m, hrun, hbits⟩ := fillFrom_spec bs (mask ||| 2 ^ start) (start + 1) hb' (by
        intro j hj
        rw [Gf2.testBit_or_two_pow, hm j (by omega)]
        have : decide (start = j) = false := by simp; omega
        simp [this]) (by omega)
      refine ⟨m, by simp only [fillFrom, show (0x33 : Nat) = Consts.DATA_WRITTEN from rfl, ↓reduceIte]; exact hrun,
        fun j => ?_⟩
      rw [hbits j]
      by_cases h1 : j < start
      · have : decide (start = j) = false := by simp; omega
        rw [if_pos (by omega), if_pos h1, Gf2.testBit_or_two_pow, this, Bool.or_false]
      · by_cases h2 : j = start
        · subst h2
          rw [if_pos (by omega), if_neg (by omega), Gf2.testBit_or_two_pow]
          simp
        · have e : j - start = (j - (start + 1)) + 1 := by omega
          rw [if_neg (by omega), if_neg h1, List.length_cons, e, List.getD_cons_succ,
            show decide (j < start + 1 + bs.length) = decide (j < start + (bs.length + 1)) from
              decide_eq_decide.2 (by omega)]
    · obtain ⟨m, hrun, hbits⟩ := fillFrom_spec bs (mask &&& (2 ^ MAX_SEGMENTS - 1 - 2 ^ start)) (start + 1) hb' (by
        intro j hj
        rw [Nat.testBit_and, hm j (by omega)]; rfl) (by omega)
      refine ⟨m, by
        simp only [fillFrom, show (0xFF : Nat) = Consts.DATA_NOT_WRITTEN from rfl, ↓reduceIte]
        exact hrun, fun j => ?_⟩
      rw [hbits j]
      by_cases h1 : j < start
      · have hX := clearMask_low MAX_SEGMENTS start j (by show start < 16384; omega) h1
        rw [if_pos (by omega), if_pos h1, Nat.testBit_and, hX, Bool.and_true]
      · by_cases h2 : j = start
        · subst h2
          rw [if_pos (by omega), if_neg (by omega), Nat.testBit_and, hm j (Nat.le_refl _)]
          simp
        · have e : j - start = (j - (start + 1)) + 1 := by omega
          rw [if_neg (by omega), if_neg h1, List.length_cons, e, List.getD_cons_succ,
            show decide (j < start + 1 + bs.length) = decide (j < start + (bs.length + 1)) from
              decide_eq_decide.2 (by omega)]

/-- `fill_bitcache` over a range of status bytes that are all `written` or `not written` -/
theorem fillBitcache_run {d : Dev} (hG : Good d) (start stride : Nat) (hs : 0 < stride) :
    ∀ (fuel addr remain mask : Nat), start ≤ addr → remain ≤ fuel → addr + remain ≤ d.flash.size →
    (addr - start) + remain ≤ 16384 →
    (∀ x, addr ≤ x → x < addr + remain → d.flash.byte x = 0x33 ∨ d.flash.byte x = 0xFF) →
    (∀ j, addr - start ≤ j → mask.testBit j = false) →
    ∃ m, (fillBitcache start stride fuel addr remain mask).run d = (.ok m, d) ∧ ∀ j, m.testBit j =
      if j < addr - start then mask.testBit j
      else (decide (j < addr - start + remain) && decide (d.flash.byte (start + j) = 0x33)) := by
  intro fuel
  induction fuel with
  | zero =>
    intro addr remain mask _ hr _ _ _ hm
    have : remain = 0 := by omega
    subst this
    refine ⟨mask, rfl, fun j => ?_⟩
    by_cases hj : j < addr - start
    · simp [hj]
    · simp [hj, hm j (by omega)]
  | succ fuel ih =>
    intro addr remain mask ha hr hin hcap hb hm
    obtain ⟨a0, rfl⟩ : ∃ a0, addr = start + a0 := ⟨addr - start, by omega⟩
    simp only [Nat.add_sub_cancel_left] at hcap hm ⊢
    unfold fillBitcache
    by_cases h0 : remain = 0
    · subst h0
      simp only [↓reduceIte, run_pure]
      refine ⟨mask, rfl, fun j => ?_⟩
      by_cases hj : j < a0
      · simp [hj]
      · simp [hj, hm j (by omega)]
    · have hst1 : 1 ≤ min remain stride := by omega
      have hst2 : min remain stride ≤ remain := Nat.min_le_left _ _
      have hchk : ¬ (a0 + min remain stride > MAX_SEGMENTS) := by show ¬ (_ > 16384); omega
      obtain ⟨m1, hf, hbits1⟩ := fillFrom_spec (d.flash.read (start + a0) (min remain stride)) mask a0
        (by
          intro b hbm
          simp only [Flash.read, List.mem_map, List.mem_range] at hbm
          obtain ⟨k, hk, rfl⟩ := hbm
          exact hb _ (by omega) (by omega))
        hm (by rw [length_read]; omega)
      simp only [h0, ↓reduceIte, run_bind, readTo_run hG _ _ (show start + a0 + min remain stride ≤ _ by omega),
        Nat.add_sub_cancel_left, hchk, hf]
      rw [length_read] at hbits1
      have esub : start + a0 + min remain stride - start = a0 + min remain stride := by omega
      obtain ⟨m, hrun, hbits⟩ := ih (start + a0 + min remain stride) (remain - min remain stride) m1 (by omega)
        (by omega) (by omega) (by omega) (fun x h1 h2 => hb x (by omega) (by omega)) (by
          intro j hj
          rw [esub] at hj
          rw [hbits1 j, if_neg (by omega)]
          have : ¬ j < a0 + min remain stride := by omega
          simp [this])
      rw [esub] at hbits
      refine ⟨m, hrun, fun j => ?_⟩
      rw [hbits j]
      by_cases h1 : j < a0
      · rw [if_pos (by omega), hbits1 j, if_pos h1, if_pos h1]
      · rw [if_neg h1]
        by_cases h2 : j < a0 + min remain stride
        · rw [if_pos h2, hbits1 j, if_neg h1]
          have e2 : j < a0 + remain := by omega
          rw [List.getD_eq_getElem?_getD, getElem?_read, if_pos (by omega)]
          simp only [h2, e2, decide_true, Bool.true_and, Option.getD_some]
          rw [show start + a0 + (j - a0) = start + j by omega]
        · rw [if_neg h2]
          rw [show decide (j < a0 + min remain stride + (remain - min remain stride)) = decide (j < a0 + remain) from
            decide_eq_decide.2 (by omega)]

/-- `num_segments` returns what the count word of the header parses to -/
theorem numSegments_run (s : Slot) {d : Dev} (hG : Good d) (hin : s.size * s.idx + 16 ≤ d.flash.size) :
    s.numSegments.run d = (.ok (NoPanic.nsegAt d.flash (s.size * s.idx + Consts.NSEG_OFFSET)), d) := by
  unfold Slot.numSegments NoPanic.nsegAt
  rw [run_bind, readTo_run hG _ _ (by show s.size * s.idx + 12 + 4 ≤ _; omega)]
  rfl

/-- **under the session invariant the status scan returns the written marks**: `done` while the session is
    incomplete, all `n` bits once it is complete -/
theorem loadStatusArray_lawful {u : Upd} {d : Dev} (L : Lawful u d) (s : Slot) (hidx : s.idx = u.fw.idx)
    (hsize : s.size = u.fw.size) (hn : NoPanic.nsegAt d.flash (s.size * s.idx + Consts.NSEG_OFFSET) = u.n) :
    ∃ m, (s.loadStatusArray MAX_SEGMENT_SIZE).run d = (.ok m, d) ∧
      (∀ j, m.testBit j = (decide (j < u.n) && decide (d.flash.byte (statAddr u j) = 0x33))) ∧
      (rcComplete u = false → m = u.done) ∧ (rcComplete u = true → ∀ j, m.testBit j = decide (j < u.n)) := by
  have g := L.base.geo
  obtain ⟨h1, h2, h3, h4, h5, h6, h7⟩ := g.slots
  have hnn := g.hn
  have hstat : ∀ j, j < u.n → d.flash.byte (statAddr u j) = 0x33 ∨ d.flash.byte (statAddr u j) = 0xFF := by
    intro j hj
    cases hc : rcComplete u with
    | true => exact Or.inl (L.marked hc j hj)
    | false =>
      cases hd : u.done.testBit j with
      | true => exact Or.inl (L.base.hstat j hd)
      | false => exact Or.inr (L.base.herD j hj ⟨hc, hd⟩).2
  have hbase : s.idx * s.size + WRITTEN_OFFSET = fwBase u + 1024 := by rw [hidx, hsize]; rfl
  obtain ⟨m, hrun, hbits⟩ := fillBitcache_run L.base.good (fwBase u + 1024) MAX_SEGMENT_SIZE (by decide) (u.n + 1)
    (fwBase u + 1024) u.n 0 (Nat.le_refl _) (by omega) (by omega) (by omega)
    (by
      intro x hx1 hx2
      have := hstat (x - (fwBase u + 1024)) (by omega)
      simp only [statAddr] at this
      rwa [show fwBase u + 1024 + (x - (fwBase u + 1024)) = x by omega] at this)
    (fun j _ => by simp)
  simp only [Nat.sub_self, Nat.zero_add, Nat.not_lt_zero, ↓reduceIte] at hbits
  have hbits' : ∀ j, m.testBit j = (decide (j < u.n) && decide (d.flash.byte (statAddr u j) = 0x33)) := by
    intro j; rw [hbits j]; rfl
  refine ⟨m, ?_, hbits', ?_, ?_⟩
  · unfold Slot.loadStatusArray
    rw [run_bind, numSegments_run s L.base.good (by rw [hsize, hidx, Nat.mul_comm]; unfold fwBase at h3; omega), hn]
    simp only [hbase]
    exact hrun
  · intro hc
    apply Nat.eq_of_testBit_eq
    intro j
    rw [hbits' j]
    cases hd : u.done.testBit j with
    | true => simp [L.base.hdone j hd, L.base.hstat j hd]
    | false =>
      by_cases hj : j < u.n
      · have := (L.base.herD j hj ⟨hc, hd⟩).2
        simp [hj, this]
      · simp [hj]
  · intro hc j
    rw [hbits' j]
    by_cases hj : j < u.n
    · simp [hj, L.marked hc j hj]
    · simp [hj]

/-! ## remediation -/

/-- a header that needs no remediation -/
def Settled (h : Header) : Prop :=
  totalStatus h ≠ .appWriteInProgress ∧ totalStatus h ≠ .bootloadWriteInProgress ∧
  totalStatus h ≠ .invalidNeedsErase

/-- first remediation pass: silent when the other slots are settled -/
theorem remediateAbort_silent (S a b : Nat) (d : Dev) : ∀ (ih : List (Nat × Header)),
    (∀ p ∈ ih, p.1 = a ∨ p.1 = b ∨ Settled p.2) → (remediateAbort S a b ih).run d = (.ok (), d) := by
  intro ih
  induction ih with
  | nil => intro _; rfl
  | cons p ih ihh =>
    intro h
    obtain ⟨i, hd⟩ := p
    have hp := h (i, hd) List.mem_cons_self
    have ih' := ihh (fun q hq => h q (List.mem_cons_of_mem _ hq))
    unfold remediateAbort
    by_cases hs : i = a ∨ i = b
    · simp only [hs, ↓reduceIte]; exact ih'
    · have hset : Settled hd := by
        rcases hp with e | e | e
        · exact absurd (Or.inl e) hs
        · exact absurd (Or.inr e) hs
        · exact e
      simp only [hs, ↓reduceIte]
      cases ht : totalStatus hd <;> first | exact absurd ht hset.1 | exact ih'

/-- second remediation pass: silent when the other slots are settled -/
theorem remediateErase_silent (S a b : Nat) (d : Dev) : ∀ (ih : List (Nat × Header)),
    (∀ p ∈ ih, p.1 = a ∨ p.1 = b ∨ Settled p.2) → (remediateErase S a b ih).run d = (.ok (), d) := by
  intro ih
  induction ih with
  | nil => intro _; rfl
  | cons p ih ihh =>
    intro h
    obtain ⟨i, hd⟩ := p
    have hp := h (i, hd) List.mem_cons_self
    have ih' := ihh (fun q hq => h q (List.mem_cons_of_mem _ hq))
    unfold remediateErase
    by_cases hs : i = a ∨ i = b
    · simp only [hs, ↓reduceIte]; exact ih'
    · have hset : Settled hd := by
        rcases hp with e | e | e
        · exact absurd (Or.inl e) hs
        · exact absurd (Or.inr e) hs
        · exact e
      simp only [hs, ↓reduceIte]
      cases ht : totalStatus hd <;> first | exact absurd ht hset.2.1 | exact absurd ht hset.2.2 | exact ih'

/-- remediation touches nothing when every slot other than the two session slots is settled -/
theorem remediate_silent (S a b : Nat) (d : Dev) (ih : List (Nat × Header))
    (h : ∀ p ∈ ih, p.1 = a ∨ p.1 = b ∨ Settled p.2) : (remediate S a b ih).run d = (.ok (), d) := by
  unfold remediate
  rw [run_bind, remediateAbort_silent S a b d ih h]
  exact remediateErase_silent S a b d ih h

/-- reading all headers of a device that contains all slots returns the parsed headers -/
theorem loadHeaders_run (nslots S : Nat) {d : Dev} (hG : Good d) (hS : 28 ≤ S) (hin : nslots * S ≤ d.flash.size) :
    (loadHeaders nslots S).run d = (.ok (NoPanic.hdrs d.flash nslots S), d) := by
  have key : ∀ is : List Nat, (∀ i ∈ is, i < nslots) →
      (loadHeadersFrom S is).run d = (.ok (is.map fun i => NoPanic.hdrAt d.flash (i * S)), d) := by
    intro is
    induction is with
    | nil => intro _; rfl
    | cons i is ih =>
      intro h
      have hi := h i List.mem_cons_self
      have hb : i * S + 28 ≤ d.flash.size := by
        have : (i + 1) * S ≤ nslots * S := Nat.mul_le_mul_right _ hi
        rw [Nat.add_mul] at this; omega
      have hr := readTo_run hG (i * S) Consts.SLOT_HEADER_SIZE hb
      unfold loadHeadersFrom loadHeaderAt
      simp only [run_bind, hr, run_pure, ih (fun j hj => h j (List.mem_cons_of_mem _ hj))]
      rfl
  exact key _ (fun i hi => List.mem_range.1 hi)

end Fuota.Updater
