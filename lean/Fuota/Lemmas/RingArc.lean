import Fuota.Lemmas.RingAlloc
import Fuota.Lemmas.RingEff
/-!
# Ring lemmas, part 7: the ring invariant in "cut" form

`ArcInv ∧ SeqInv` (stated with the `low` / `high` scans of `choosePair`) is equivalent to: there is a cut point `c`
of the ring such that, read from `c`, sequence numbers grow at least as fast as the slot offset (`GapSorted`).
The cut form is stable under erasing slots and under re-marking them, which makes preservation proofs short.
-/
namespace Fuota.Ring
open Fuota.Layout Fuota.Fs Fuota.Updater Fuota.Slots

/-- read from the cut `c`, sequence numbers grow at least as fast as the ring offset -/
def GapSorted (n : Nat) (hs : Hdrs) (c : Nat) : Prop :=
  ∀ i h j h', Used hs i h → Used hs j h' → off n c i < off n c j → h.seq + (off n c j - off n c i) ≤ h'.seq

/-- the ring invariant of the slot arrangement -/
def RingInv (n : Nat) (hs : Hdrs) : Prop := hs.length = n ∧ ArcInv n hs ∧ SeqInv n hs

/-- `hs'` has no other used slots than `hs`, with the same sequence numbers -/
def Sub (hs' hs : Hdrs) : Prop := ∀ j h', Used hs' j h' → ∃ h, Used hs j h ∧ h.seq = h'.seq

theorem Sub.refl (hs : Hdrs) : Sub hs hs := fun _ h' hu => ⟨h', hu, rfl⟩

theorem Sub.trans {a b c : Hdrs} (h1 : Sub a b) (h2 : Sub b c) : Sub a c := by
  intro j h' hu
  obtain ⟨h, hu1, e1⟩ := h1 j h' hu
  obtain ⟨h0, hu2, e2⟩ := h2 j h hu1
  exact ⟨h0, hu2, e2.trans e1⟩

theorem GapSorted.mono {n : Nat} {hs hs' : Hdrs} {c : Nat} (h : GapSorted n hs c) (hsub : Sub hs' hs) :
    GapSorted n hs' c := by
  intro i h1 j h2 hu1 hu2 hlt
  obtain ⟨h1', hu1', e1⟩ := hsub i h1 hu1
  obtain ⟨h2', hu2', e2⟩ := hsub j h2 hu2
  rw [← e1, ← e2]
  exact h i h1' j h2' hu1' hu2' hlt

theorem seqInv_iff' {n : Nat} {hs : Hdrs} {low ls : Nat} (hl : lowOf hs = some (low, ls)) :
    SeqInv n hs ↔ GapSorted n hs low := by
  unfold SeqInv GapSorted
  rw [hl]
  constructor
  · intro hh i h j h' hu hu'
    exact hh (i, h) (mem_indexed.mpr hu) (j, h') (mem_indexed.mpr hu')
  · intro hh p hp q hq
    exact hh p.1 p.2 q.1 q.2 (mem_indexed.mp hp) (mem_indexed.mp hq)

/-- moving the cut forward past no used slot: offsets shift -/
theorem off_recut {n c low j : Nat} (hc : c < n) (hl : low < n) (hj : j < n)
    (h : off n c low ≤ off n c j) : off n low j + off n c low = off n c j := by
  unfold off at *
  have a := off_cases n c low hl hc
  have b := off_cases n c j hj hc
  have d := off_cases n low j hj hl
  omega

theorem off_inj' {n low i j : Nat} (hl : low < n) (hi : i < n) (hj : j < n) (h : off n low i = off n low j) : i = j := by
  unfold off at h
  have a := off_cases n low i hi hl
  have b := off_cases n low j hj hl
  omega

theorem off_lt {n c i : Nat} (hc : c < n) (hi : i < n) : off n c i < n := by
  unfold off
  have a := off_cases n c i hi hc
  omega

/-- from the ring invariant to a cut -/
theorem ringInv_cut {n : Nat} {hs : Hdrs} (hn : 0 < n) (h : RingInv n hs) : ∃ c, c < n ∧ GapSorted n hs c := by
  obtain ⟨hlen, _, hseq⟩ := h
  cases hl : lowOf hs with
  | none =>
    refine ⟨0, hn, ?_⟩
    intro i h _ _ hu
    exact absurd hu (lowOf_eq_none.mp hl i h)
  | some p =>
    obtain ⟨low, ls⟩ := p
    obtain ⟨hlo, hlou, -⟩ := lowOf_eq_some.mp hl
    exact ⟨low, hlen ▸ used_lt hlou, (seqInv_iff' hl).mp hseq⟩

/-- from a cut to the ring invariant -/
theorem cut_ringInv {n : Nat} {hs : Hdrs} (hlen : hs.length = n) {c : Nat} (hc : c < n) (hg : GapSorted n hs c) :
    RingInv n hs := by
  refine ⟨hlen, ?_⟩
  cases hl : lowOf hs with
  | none =>
    have hh : highOf hs = none := highOf_eq_none.mpr (lowOf_eq_none.mp hl)
    constructor
    · unfold ArcInv; rw [hl]; trivial
    · unfold SeqInv; rw [hl]; trivial
  | some p =>
    obtain ⟨low, ls⟩ := p
    obtain ⟨hlo, hlou, hls, hmin⟩ := lowOf_eq_some.mp hl
    obtain ⟨-, ⟨high, hsq, hh⟩⟩ := scans_of_used hlou
    obtain ⟨hhi, hhiu, hhs, hmax⟩ := highOf_eq_some.mp hh
    have hlown : low < n := hlen ▸ used_lt hlou
    -- the slot with the smallest sequence number is the first one after the cut
    have hfirst : ∀ j h, Used hs j h → off n c low ≤ off n c j := by
      intro j h hu
      apply Nat.le_of_not_lt
      intro hlt
      have h1 := hg j h low hlo hu hlou hlt
      have hjn : j < n := hlen ▸ used_lt hu
      have hne : j ≠ low := by
        intro e; rw [e] at hlt; exact Nat.lt_irrefl _ hlt
      have h2 := hmin j h hu
      rcases Nat.lt_or_gt_of_ne hne with h3 | h3
      · have := h2.1 h3; omega
      · have := h2.2 h3; omega
    have hgl : GapSorted n hs low := by
      intro i h j h' hu hu' hlt
      have hin : i < n := hlen ▸ used_lt hu
      have hjn : j < n := hlen ▸ used_lt hu'
      have e1 := off_recut hc hlown hin (hfirst i h hu)
      have e2 := off_recut hc hlown hjn (hfirst j h' hu')
      have := hg i h j h' hu hu' (by omega)
      omega
    have hseq : SeqInv n hs := (seqInv_iff' hl).mpr hgl
    refine ⟨?_, hseq⟩
    rw [arcInv_iff hl hh]
    intro i h hu
    apply Nat.le_of_not_lt
    intro hlt
    have h1 := hgl high hhi i h hhiu hu hlt
    have hne : i ≠ high := by
      intro e; rw [e] at hlt; exact Nat.lt_irrefl _ hlt
    have h2 := hmax i h hu
    rcases Nat.lt_or_gt_of_ne hne with h3 | h3
    · have := h2.1 h3; omega
    · have := h2.2 h3; omega

/-- **erasing and re-marking preserve the ring invariant** -/
theorem RingInv.sub {n : Nat} {hs hs' : Hdrs} (hn : 0 < n) (h : RingInv n hs) (hlen : hs'.length = n)
    (hsub : Sub hs' hs) : RingInv n hs' := by
  obtain ⟨c, hc, hg⟩ := ringInv_cut hn h
  exact cut_ringInv hlen hc (hg.mono hsub)

/-! ## effects that erase or re-mark -/

theorem set_sub {hs : Hdrs} {i : Nat} {v : Option Header}
    (hv : ∀ h', v = some h' → ∃ h, Used hs i h ∧ h.seq = h'.seq) : Sub (hs.set i v) hs := by
  intro j h' hu
  rcases used_set.mp hu with ⟨rfl, _, hv'⟩ | ⟨_, hu'⟩
  · exact hv h' hv'
  · exact ⟨h', hu', rfl⟩

/-- a run of effects on pairwise different slots, each erasing or re-marking a slot of the original arrangement -/
theorem applyAll_sub (hs : Hdrs) (es : List Eff) (hnd : es.Pairwise (fun a b => a.1 ≠ b.1))
    (hsrc : ∀ e ∈ es, ∀ h', e.2 = some h' → ∃ h, Used hs e.1 h ∧ h.seq = h'.seq) :
    Sub (applyAll hs es) hs := by
  intro j h' hu
  have hj : j < hs.length := by
    have := used_lt hu
    rwa [applyAll_length] at this
  by_cases hex : ∃ e ∈ es, e.1 = j
  · obtain ⟨e, he, rfl⟩ := hex
    have := applyAll_get_of_mem hs es hnd e he hj
    rw [show (applyAll hs es)[e.1]? = some (some h') from hu] at this
    simp only [Option.some.injEq] at this
    exact hsrc e he h' this.symm
  · have hno : ∀ e ∈ es, e.1 ≠ j := fun e he hej => hex ⟨e, he, hej⟩
    have := applyAll_get_of_not_mem hs es j hno
    rw [show (applyAll hs es)[j]? = some (some h') from hu] at this
    exact ⟨h', this.symm, rfl⟩

end Fuota.Ring
