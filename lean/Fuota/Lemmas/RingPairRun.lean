import Fuota.Lemmas.RingPairSteps
/-!
# Ring lemmas, part 15: `Inv2` is preserved by cancel, recovery (two-pass remediation), completion, the bootloader /
application marks and reboot
-/
namespace Fuota.Ring
open Fuota.Layout Fuota.Fs Fuota.Updater Fuota.Slots



theorem not_inProg_aborted (h : Header) : ¬ InProg { h with ext := Ext.aborted } := by
  intro e
  have := status_inProgress_ext e
  cases this

theorem not_conf_of_ext {h : Header} (he : h.ext ≠ Ext.complete) : ¬ Conf h :=
  fun e => he (status_ext_complete (Or.inr (Or.inr e)))

/-- re-marking slot `i` (ext := aborted) as a crash-prefix step -/
theorem inv2_markStep {c : Cfg} (s : State) (i : Nat) (h0 : Header) (h : Inv2 c s) (hu0 : Used s.hs i h0)
    (hext : h0.ext = Ext.inProgress) : Inv2 c (markStep s i { h0 with ext := .aborted }) := by
  have hsub : Sub (s.hs.set i (some { h0 with ext := Ext.aborted })) s.hs :=
    set_sub (by intro h' e; simp only [Option.some.injEq] at e; subst e; exact ⟨h0, hu0, rfl⟩)
  refine ⟨skel_mark i h0 _ h.skel hu0 ⟨rfl, rfl, rfl, rfl⟩, live_mark i h0 _ h.lv hu0 (not_inProg_aborted h0),
    top_step i h.mu (fun j hj => get_set_ne hj) hsub, topOK_none _ _, ?_⟩
  exact orph_mark i h0 _ h.orph hu0 ⟨rfl, rfl, rfl, rfl⟩ (fun e => absurd e (not_inProg_aborted h0))
    (fun e => absurd e (not_conf_of_ext (by rw [hext]; simp)))

theorem inv2_effStep_mark {c : Cfg} (s : State) (e : Eff) (h : Inv2 c s) (hok : EffOK s.hs e) (hsome : e.2.isSome) :
    Inv2 c (effStep s e) := by
  unfold effStep
  cases he : e.2 with
  | none => rw [he] at hsome; cases hsome
  | some h' =>
    obtain ⟨h0, hu, hext, rfl⟩ := hok h' he
    exact inv2_markStep s e.1 h0 h hu hext

/-- erasing slot `i` while every in-progress header belongs to the pair `(a, b)` -/
theorem inv2_eraseStep_pairOnly {c : Cfg} (s : State) (i a b : Nat) (h : Inv2 c s) (hp : PairOnly s.hs s.att a b)
    (hia : i ≠ a) (hib : i ≠ b) :
    Inv2 c (eraseStep s i) ∧ PairOnly (eraseStep s i).hs (eraseStep s i).att a b := by
  have hp' := pairOnly_erase i hp hia hib
  have hsub : Sub (s.hs.set i none) s.hs := set_sub (by intro h' e; cases e)
  exact ⟨⟨skel_erase i h.skel, live_erase i h.lv, top_step i h.mu (fun j hj => get_set_ne hj) hsub, topOK_none _ _,
    orph_of_pairOnly hp'⟩, hp'⟩

theorem run_ind' {P : State → Prop} {R : Eff → Prop} (hstep : ∀ s e, P s → R e → P (effStep s e)) :
    ∀ (es : List Eff) (s : State), (∀ e ∈ es, R e) → P s → P (es.foldl effStep s) := by
  intro es
  induction es with
  | nil => intro s _ h; exact h
  | cons e es ih =>
    intro s hr h
    simp only [List.foldl_cons]
    exact ih _ (fun e' he' => hr e' (List.mem_cons_of_mem _ he')) (hstep s e h (hr e (by simp)))

theorem inv2_nosess {c : Cfg} (s : State) (h : Inv2 c s) : Inv2 c { s with sess := none } :=
  ⟨h.skel, h.lv, h.mu, topOK_none _ _, h.orph⟩

/-- crash prefixes of a run of marks -/
theorem inv2_crash_marks {c : Cfg} (s : State) (es : List Eff) (h : Inv2 c s)
    (hnd : es.Pairwise (fun a b => a.1 ≠ b.1)) (hok : ∀ e ∈ es, EffOK s.hs e) (hsome : ∀ e ∈ es, e.2.isSome)
    (k : Nat) : Inv2 c (crashState s (es.take k)) := by
  unfold crashState
  have : ∀ (l : List Eff) (t : State), l.Pairwise (fun a b => a.1 ≠ b.1) → (∀ e ∈ l, EffOK t.hs e ∧ e.2.isSome) →
      Inv2 c t → Inv2 c (l.foldl effStep t) := by
    intro l
    induction l with
    | nil => intro t _ _ ht; exact ht
    | cons e l ih =>
      intro t hnd hok ht
      rw [List.pairwise_cons] at hnd
      simp only [List.foldl_cons]
      apply ih _ hnd.2
      · intro e' he'
        obtain ⟨h1, h2⟩ := hok e' (List.mem_cons_of_mem _ he')
        refine ⟨?_, h2⟩
        intro h' hh'
        obtain ⟨h0, hu, hx⟩ := h1 h' hh'
        refine ⟨h0, ?_, hx⟩
        rw [effStep_hs]
        exact used_set.mpr (Or.inr ⟨(hnd.1 e' he').symm, hu⟩)
      · obtain ⟨h1, h2⟩ := hok e (by simp)
        exact inv2_effStep_mark t e ht h1 h2
  apply this _ _ (take_pairwise k hnd)
  · intro e he
    exact ⟨hok e (List.mem_of_mem_take he), hsome e (List.mem_of_mem_take he)⟩
  · exact inv2_nosess s h

theorem cancelEffs_isSome (hs : Hdrs) : ∀ e ∈ cancelEffs hs, e.2.isSome := by
  intro e he
  unfold cancelEffs at he
  rw [cancelEffsOf_eq] at he
  obtain ⟨h, hm, hφ⟩ := mem_effsOf.mp he
  unfold cancelPhi at hφ
  split at hφ
  · simp only [Option.some.injEq] at hφ; rw [← hφ]; rfl
  · cases hφ

/-- after cancel-all nothing is live -/
theorem live_nil_of_cancel (hs : Hdrs) (att : List (Option Nat)) : LiveOK (cancel hs) att [] := by
  intro f p
  constructor
  · intro h; cases h
  · rintro ⟨hf, hp, k, u1, _, s1, _⟩
    exfalso
    have := cancel_get hs f
    rw [show (cancel hs)[f]? = some (some hf) from u1] at this
    cases h0 : hs[f]? with
    | none => rw [h0] at this; cases this
    | some o =>
      cases o with
      | none => rw [h0] at this; simp at this
      | some h0' =>
        rw [h0] at this
        simp only [Option.map_some, Option.some.injEq] at this
        rw [this] at s1
        exact abortH_ext h0' (status_inProgress_ext s1)

theorem inv2_cancel (c : Cfg) (s : State) (h : Inv2 c s) : ∀ t ∈ cancelSuccs c s, Inv2 c t.2 := by
  intro t ht
  obtain ⟨k, e | e⟩ := cancelSuccs_steps c s t ht <;> rw [e]
  · exact inv2_crash_marks s _ h (cancelEffs_src s.hs).1 (cancelEffs_ok s.hs) (cancelEffs_isSome s.hs) k
  · have hf := inv2_crash_marks s _ h (cancelEffs_src s.hs).1 (cancelEffs_ok s.hs) (cancelEffs_isSome s.hs)
      (cancelEffs s.hs).length
    rw [List.take_length] at hf
    refine ⟨hf.skel, ?_, topOK_none _ _, topOK_none _ _, hf.orph⟩
    show LiveOK (crashState s (cancelEffs s.hs)).hs _ []
    rw [crashState_hs]
    exact live_nil_of_cancel s.hs _



theorem crashState_append (s : State) (xs ys : List Eff) :
    crashState s (xs ++ ys) = ys.foldl effStep (crashState s xs) := by
  unfold crashState
  rw [List.foldl_append]

theorem crashState_att_marks (s : State) (es : List Eff) (hsome : ∀ e ∈ es, e.2.isSome) :
    (crashState s es).att = s.att := by
  unfold crashState
  rw [foldl_effStep_eq]
  show es.foldl attEff s.att = s.att
  induction es with
  | nil => rfl
  | cons e es ih =>
    simp only [List.foldl_cons]
    have : attEff s.att e = s.att := by
      unfold attEff
      have := hsome e (by simp)
      cases he : e.2 with
      | none => rw [he] at this; cases this
      | some _ => rfl
    rw [this]
    exact ih (fun e' he' => hsome e' (List.mem_cons_of_mem _ he'))

theorem abortEffs_isSome (a b : Nat) (hs : Hdrs) : ∀ e ∈ effsOf (abortPhi a b) (indexed hs), e.2.isSome := by
  intro e he
  obtain ⟨h, hm, hφ⟩ := mem_effsOf.mp he
  unfold abortPhi at hφ
  split at hφ
  · cases hφ
  · split at hφ
    · simp only [Option.some.injEq] at hφ; rw [← hφ]; rfl
    · cases hφ

theorem eraseEffs_none (a b : Nat) (hs : Hdrs) :
    ∀ e ∈ effsOf (erasePhi a b) (indexed hs), e.2 = none ∧ e.1 ≠ a ∧ e.1 ≠ b := by
  intro e he
  refine ⟨?_, (erasePhi_ok he).2⟩
  obtain ⟨h, hm, hφ⟩ := mem_effsOf.mp he
  unfold erasePhi at hφ
  split at hφ
  · cases hφ
  · split at hφ
    · simp only [Option.some.injEq] at hφ; exact hφ.symm
    · cases hφ

/-- after the abort pass every in-progress header belongs to the returned pair -/
theorem pairOnly_after_aborts {n : Nat} {g : Geom} {hs : Hdrs} {att : List (Option Nat)} (hn : 4 ≤ n)
    (hinv : RingInv n hs) (hsk : SkelOK n g hs att) (ho : Orph n hs att) {nw sn : Nat × Header}
    (hd : recoverDecision g hs = some (nw, sn)) :
    PairOnly (applyAll hs (effsOf (abortPhi nw.1 sn.1) (indexed hs))) att sn.1 nw.1 := by
  obtain ⟨htn, hst1, hk1, hst2, hk2⟩ := recoverDecision_some hd
  obtain ⟨hu1, hu2, _⟩ := twoNewest_mem htn
  obtain ⟨k, ha2, ha1⟩ := noChim hn hinv hsk ho htn hk1 hst1 hk2 hst2
  have hget := applyAll_effsOf_get (abortPhi nw.1 sn.1) hs hs rfl
  constructor
  · intro x hx hux hst
    have := hget x
    rw [show (applyAll hs (effsOf (abortPhi nw.1 sn.1) (indexed hs)))[x]? = some (some hx) from hux] at this
    cases h0 : hs[x]? with
    | none => rw [h0] at this; cases this
    | some o =>
      cases o with
      | none => rw [h0] at this; simp at this
      | some hx0 =>
        rw [h0] at this
        simp only at this
        unfold abortPhi at this
        by_cases hab : x = nw.1 ∨ x = sn.1
        · exact hab.symm
        · exfalso
          simp only [hab, ↓reduceIte] at this
          by_cases h1 : totalStatus hx0 = TotalStatus.appWriteInProgress
          · simp only [h1, ↓reduceIte, Option.some.injEq] at this
            rw [this] at hst
            exact not_inProg_aborted hx0 hst
          · simp only [h1, ↓reduceIte, Option.some.injEq] at this
            rw [this] at hst
            exact h1 hst
  · refine ⟨sn.2, k, ?_, hk2, ha2, ha1⟩
    show _ = _
    rw [hget sn.1, show hs[sn.1]? = some (some sn.2) from hu2]
    simp [abortPhi]

theorem inv2_recover (c : Cfg) (hn : 4 ≤ c.n) (hp : c.pinnedRemediation = false) (s : State) (h : Inv2 c s)
    (hinv : RingInv c.n s.hs) : ∀ t ∈ recoverSuccs c s, Inv2 c t.2 := by
  intro t ht
  have hrec : c.recoverEffs s.hs = Slots.recoverEffs c.geom s.hs := by
    unfold Cfg.recoverEffs; simp [hp]
  cases hd : recoverDecision c.geom s.hs with
  | none =>
    -- nothing to resume: recovery is cancel-all
    have hes : c.recoverEffs s.hs = (none, cancelEffs s.hs) := by
      rw [hrec]; unfold Slots.recoverEffs; rw [hd]
    obtain ⟨k, e | ⟨_, e⟩ | ⟨r, hr, _⟩⟩ := recoverSuccs_steps c s t ht
    · rw [e, hes]
      exact inv2_crash_marks s _ h (cancelEffs_src s.hs).1 (cancelEffs_ok s.hs) (cancelEffs_isSome s.hs) k
    · rw [e, hes]
      have hf := inv2_crash_marks s _ h (cancelEffs_src s.hs).1 (cancelEffs_ok s.hs) (cancelEffs_isSome s.hs)
        (cancelEffs s.hs).length
      rw [List.take_length] at hf
      refine ⟨hf.skel, ?_, topOK_none _ _, topOK_none _ _, hf.orph⟩
      show LiveOK (crashState s (cancelEffs s.hs)).hs _ []
      rw [crashState_hs]
      exact live_nil_of_cancel s.hs _
    · rw [hes] at hr; cases hr
  | some d =>
    obtain ⟨nw, sn⟩ := d
    have hes : c.recoverEffs s.hs = (some (sn.1, nw.1),
        effsOf (abortPhi nw.1 sn.1) (indexed s.hs) ++ effsOf (erasePhi nw.1 sn.1) (indexed s.hs)) := by
      rw [hrec]; unfold Slots.recoverEffs; rw [hd]
      simp only [remediateEffs, remediateAbortEffs_eq, remediateEraseEffs_eq]
    obtain ⟨htn, hst1, hk1, hst2, hk2⟩ := recoverDecision_some hd
    obtain ⟨hu1, hu2, hne⟩ := twoNewest_mem htn
    have hndA := effsOf_nodup (abortPhi nw.1 sn.1) (indexed_sorted s.hs)
    have hokA : ∀ e ∈ effsOf (abortPhi nw.1 sn.1) (indexed s.hs), EffOK s.hs e := fun e he => (abortPhi_ok he).1
    -- the state after the abort pass
    have hA := inv2_crash_marks s _ h hndA hokA (abortEffs_isSome _ _ _) (effsOf (abortPhi nw.1 sn.1) (indexed s.hs)).length
    rw [List.take_length] at hA
    have hattA := crashState_att_marks s _ (abortEffs_isSome nw.1 sn.1 s.hs)
    have hpA : PairOnly (crashState s (effsOf (abortPhi nw.1 sn.1) (indexed s.hs))).hs
        (crashState s (effsOf (abortPhi nw.1 sn.1) (indexed s.hs))).att sn.1 nw.1 := by
      rw [crashState_hs, hattA]
      exact pairOnly_after_aborts hn hinv h.skel h.orph hd
    -- any prefix of the erase pass
    have hE : ∀ k', Inv2 c (crashState s (effsOf (abortPhi nw.1 sn.1) (indexed s.hs) ++
          (effsOf (erasePhi nw.1 sn.1) (indexed s.hs)).take k')) ∧
        PairOnly (crashState s (effsOf (abortPhi nw.1 sn.1) (indexed s.hs) ++
          (effsOf (erasePhi nw.1 sn.1) (indexed s.hs)).take k')).hs
          (crashState s (effsOf (abortPhi nw.1 sn.1) (indexed s.hs) ++
          (effsOf (erasePhi nw.1 sn.1) (indexed s.hs)).take k')).att sn.1 nw.1 := by
      intro k'
      rw [crashState_append]
      apply run_ind' (P := fun t => Inv2 c t ∧ PairOnly t.hs t.att sn.1 nw.1)
        (R := fun e => e.2 = none ∧ e.1 ≠ nw.1 ∧ e.1 ≠ sn.1)
      · intro t e ⟨h1, h2⟩ ⟨r1, r2, r3⟩
        unfold effStep
        rw [r1]
        exact inv2_eraseStep_pairOnly t e.1 sn.1 nw.1 h1 h2 r3 r2
      · intro e he
        exact eraseEffs_none _ _ _ e (List.mem_of_mem_take he)
      · exact ⟨hA, hpA⟩
    obtain ⟨k, e | ⟨hnone, _⟩ | ⟨r, hr, e⟩⟩ := recoverSuccs_steps c s t ht
    · rw [e, hes]
      simp only
      rw [List.take_append]
      by_cases hk : k ≤ (effsOf (abortPhi nw.1 sn.1) (indexed s.hs)).length
      · have : k - (effsOf (abortPhi nw.1 sn.1) (indexed s.hs)).length = 0 := by omega
        rw [this, List.take_zero, List.append_nil]
        exact inv2_crash_marks s _ h hndA hokA (abortEffs_isSome _ _ _) k
      · rw [List.take_of_length_le (by omega)]
        exact (hE _).1
    · rw [hes] at hnone; cases hnone
    · rw [e]
      rw [hes] at hr ⊢
      simp only [Option.some.injEq] at hr
      subst hr
      simp only
      have hfull := hE (effsOf (erasePhi nw.1 sn.1) (indexed s.hs)).length
      rw [List.take_length] at hfull
      obtain ⟨hF, ⟨honly, ha0, k0, hua, hka, haa, hab⟩⟩ := hfull
      -- the pair slots are untouched
      have hskip : ∀ e ∈ effsOf (abortPhi nw.1 sn.1) (indexed s.hs) ++ effsOf (erasePhi nw.1 sn.1) (indexed s.hs),
          e.1 ≠ nw.1 ∧ e.1 ≠ sn.1 := by
        intro e he
        rcases List.mem_append.mp he with he | he
        · exact (abortPhi_ok he).2
        · exact (erasePhi_ok he).2
      have keepf := applyAll_get_of_not_mem s.hs _ sn.1 (fun e he => (hskip e he).2)
      have keepp := applyAll_get_of_not_mem s.hs _ nw.1 (fun e he => (hskip e he).1)
      have hsubF : Sub (applyAll s.hs (effsOf (abortPhi nw.1 sn.1) (indexed s.hs) ++
          effsOf (erasePhi nw.1 sn.1) (indexed s.hs))) s.hs := by
        have := take_sub (recoverEffs_src c s.hs) (c.recoverEffs s.hs).2.length
        rw [List.take_length, hes] at this
        exact this
      have htop : Top2 (crashState s (effsOf (abortPhi nw.1 sn.1) (indexed s.hs) ++
          effsOf (erasePhi nw.1 sn.1) (indexed s.hs))).hs (sn.1, nw.1) := by
        rw [crashState_hs]
        exact top2_stable ⟨sn.2, nw.2, htn⟩ keepf keepp hsubF
      have hupF : Used (crashState s (effsOf (abortPhi nw.1 sn.1) (indexed s.hs) ++
          effsOf (erasePhi nw.1 sn.1) (indexed s.hs))).hs nw.1 nw.2 := by
        rw [crashState_hs]; exact keepp.trans hu1
      have hufF : Used (crashState s (effsOf (abortPhi nw.1 sn.1) (indexed s.hs) ++
          effsOf (erasePhi nw.1 sn.1) (indexed s.hs))).hs sn.1 sn.2 := by
        rw [crashState_hs]; exact keepf.trans hu2
      have hlive : LiveOK (crashState s (effsOf (abortPhi nw.1 sn.1) (indexed s.hs) ++
          effsOf (erasePhi nw.1 sn.1) (indexed s.hs))).hs (crashState s (effsOf (abortPhi nw.1 sn.1) (indexed s.hs) ++
          effsOf (erasePhi nw.1 sn.1) (indexed s.hs))).att [(sn.1, nw.1)] := by
        intro f p
        simp only [List.mem_cons, List.not_mem_nil, or_false, Prod.mk.injEq]
        constructor
        · rintro ⟨rfl, rfl⟩
          exact ⟨sn.2, nw.2, k0, hufF, hk2, hst2, hupF, hk1, hst1, haa, hab⟩
        · rintro ⟨hf, hp', k, u1, k1, s1, u2, k2, s2, _, _⟩
          constructor
          · rcases honly f hf u1 s1 with e | e
            · exact e
            · exfalso; subst e; rw [used_unique u1 hupF, hk1] at k1; cases k1
          · rcases honly p hp' u2 s2 with e | e
            · exfalso; subst e; rw [used_unique u2 hufF, hk2] at k2; cases k2
            · exact e
      refine ⟨hF.skel, hlive, ?_, ?_, hF.orph⟩
      · intro m hm
        split at hm
        · rename_i hmm
          rw [hmm] at hm
          simp only [Option.some.injEq] at hm
          subst hm
          exact ⟨by simp, htop⟩
        · cases hm
      · intro m hm
        simp only [Option.some.injEq] at hm
        subst hm
        exact ⟨by simp, htop⟩



/-- generic re-mark of a slot whose header is not in progress before or after (bootloader / application marks) -/
theorem inv2_quiet_mark {n : Nat} {g : Geom} {hs : Hdrs} {att : List (Option Nat)} {live : List (Nat × Nat)}
    {must sess : Option (Nat × Nat)} (i : Nat) (h0 h' : Header) (h : Inv2F n g hs att live must sess)
    (hu0 : Used hs i h0) (hsame : SameSkel h0 h') (hn0 : ¬ InProg h0) (hn' : ¬ InProg h') (hc0 : ¬ Conf h0) :
    Inv2F n g (hs.set i (some h')) att live must sess := by
  have hav := live_avoids h.lv hu0 hn0
  have hsub : Sub (hs.set i (some h')) hs :=
    set_sub (by intro hd e; simp only [Option.some.injEq] at e; subst e; exact ⟨h0, hu0, hsame.2.1.symm⟩)
  have hlv : LiveOK (hs.set i (some h')) att live := by
    have := live_mark i h0 h' h.lv hu0 hn'
    rwa [filter_untouched_self hav] at this
  have htop : ∀ o, TopOK hs live o → TopOK (hs.set i (some h')) live o := by
    intro o ho m hm
    obtain ⟨hl, ht⟩ := ho m hm
    obtain ⟨a1, a2⟩ := hav m hl
    exact ⟨hl, top2_stable ht (get_set_ne (fun e => a1 e.symm)) (get_set_ne (fun e => a2 e.symm)) hsub⟩
  exact ⟨skel_mark i h0 h' h.skel hu0 hsame, hlv, htop _ h.mu, htop _ h.se,
    orph_mark i h0 h' h.orph hu0 hsame (fun e => absurd e hn') (fun e => absurd e hc0)⟩

theorem inv2_bl (c : Cfg) (s : State) (h : Inv2 c s) : ∀ t ∈ blSuccs s, Inv2 c t.2 := by
  intro t ht
  obtain ⟨i, h0, hu, ht⟩ := blSuccs_steps s t ht
  rcases ht with ⟨hbl, e⟩ | ⟨hbl, e⟩ | ⟨hbl, e⟩ <;> rw [e]
  · obtain ⟨hk, hst⟩ := blStatus_inl hbl hu
    exact inv2_quiet_mark i h0 _ h hu ⟨rfl, rfl, rfl, rfl⟩ (by unfold InProg; rw [hst]; simp)
      (by unfold InProg; rw [status_copyDone hst]; simp) (by unfold Conf; rw [hst]; simp)
  · obtain ⟨hk, hst⟩ := blStatus_inr hbl hu
    exact inv2_quiet_mark i h0 _ h hu ⟨rfl, rfl, rfl, rfl⟩ (by unfold InProg; rw [hst]; simp)
      (by unfold InProg; rw [status_confirm hst]; simp) (by unfold Conf; rw [hst]; simp)
  · obtain ⟨hk, hst⟩ := blStatus_inr hbl hu
    exact inv2_quiet_mark i h0 _ h hu ⟨rfl, rfl, rfl, rfl⟩ (by unfold InProg; rw [hst]; simp)
      (by unfold InProg; rw [status_reject hst]; simp) (by unfold Conf; rw [hst]; simp)

theorem inv2_reboot (c : Cfg) (s : State) (h : Inv2 c s) : ∀ t ∈ rebootSuccs s, Inv2 c t.2 := by
  intro t ht
  unfold rebootSuccs at ht
  split at ht
  · simp only [List.mem_cons, List.not_mem_nil, or_false] at ht
    subst ht
    exact ⟨h.skel, h.lv, h.mu, topOK_none _ _, h.orph⟩
  · cases ht

theorem inv2_complete (c : Cfg) (s : State) (h : Inv2 c s) : ∀ t ∈ completeSuccs s, Inv2 c t.2 := by
  intro t ht
  obtain ⟨f, p, hf, hp, hsess, _, huf, hup, ht⟩ := completeSuccs_steps s t ht
  obtain ⟨hlive, htop⟩ := h.se (f, p) hsess
  obtain ⟨hf', hp', k, huf', hkf, hstf, hup', hkp, hstp, haf, hap⟩ := (h.lv f p).mp hlive
  have e1 := used_unique huf' huf
  have e2 := used_unique hup' hup
  subst e1; subst e2
  have hfp : f ≠ p := by
    intro e; subst e
    rw [used_unique huf hup, hkp] at hkf; cases hkf
  have hnf : ¬ InProg ({ hf' with ext := Ext.complete } : Header) := by
    unfold InProg; rw [status_complete hstf]; simp
  have hnp : ¬ InProg ({ hp' with ext := Ext.complete } : Header) := by
    unfold InProg; rw [status_complete hstp]; simp
  have hcf : ¬ Conf hf' := by unfold Conf; rw [hstf]; simp
  have hcp : ¬ Conf hp' := by unfold Conf; rw [hstp]; simp
  -- the remembered latest start, if any, is this very session
  have hmust : (if s.must = some (f, p) then none else s.must) = none := by
    split
    · rfl
    · rename_i hne
      cases hm : s.must with
      | none => rfl
      | some m =>
        exfalso
        obtain ⟨_, hm2⟩ := h.mu m hm
        exact hne (by rw [hm, top2_unique hm2 htop])
  -- the two filters agree on live pairs
  have hfilter : s.live.filter (fun q => q ≠ (f, p)) = s.live.filter (untouched f) := by
    apply List.filter_congr
    intro q hq
    obtain ⟨qf, qp, kq, uq1, kq1, _, uq2, kq2, _, aq1, aq2⟩ := (h.lv q.1 q.2).mp hq
    have h2 : f ≠ q.2 := by
      intro e; subst e; rw [used_unique huf uq2, kq2] at hkf; cases hkf
    by_cases h1 : f = q.1
    · have hq2 : q.2 = p := by
        apply Classical.byContradiction
        intro hne
        have hkk : kq = k := by
          rw [← h1, haf] at aq1; simpa using aq1.symm
        rw [hkk] at aq2
        rcases h.skel.pair q.2 qp p hp' k uq2 hup hne aq2 hap with ⟨x, _⟩ | ⟨x, _⟩
        · rw [kq2] at x; cases x
        · rw [hkp] at x; cases x
      have : q = (f, p) := Prod.ext h1.symm hq2
      simp [untouched, this]
    · have : q ≠ (f, p) := fun e => h1 (by rw [e])
      simp [untouched, this, h1, h2]
  have hsub1 : Sub (s.hs.set f (some { hf' with ext := Ext.complete })) s.hs :=
    set_sub (by intro hd e; simp only [Option.some.injEq] at e; subst e; exact ⟨hf', huf, rfl⟩)
  have c1 : Inv2 c (complete1 s f p hf') := by
    refine ⟨skel_mark f hf' _ h.skel huf ⟨rfl, rfl, rfl, rfl⟩, ?_, ?_, topOK_none _ _,
      orph_mark f hf' _ h.orph huf ⟨rfl, rfl, rfl, rfl⟩ (fun e => absurd e hnf) (fun e => absurd e hcf)⟩
    · show LiveOK _ _ (s.live.filter (fun q => q ≠ (f, p)))
      rw [hfilter]
      exact live_mark f hf' _ h.lv huf hnf
    · show TopOK _ _ (if s.must = some (f, p) then none else s.must)
      rw [hmust]
      exact topOK_none _ _
  rcases ht with e | e <;> rw [e]
  · exact c1
  · have hup1 : Used (complete1 s f p hf').hs p hp' := (used_mark huf).mpr (Or.inr ⟨fun e => hfp e.symm, hup⟩)
    have huf1 : Used (complete1 s f p hf').hs f { hf' with ext := Ext.complete } :=
      (used_mark huf).mpr (Or.inl ⟨rfl, rfl⟩)
    -- no live pair of the intermediate state contains `p`
    have hav : ∀ q ∈ (complete1 s f p hf').live, p ≠ q.1 ∧ p ≠ q.2 := by
      intro q hq
      obtain ⟨qf, qp, kq, uq1, kq1, sq1, uq2, kq2, _, aq1, aq2⟩ := (c1.lv q.1 q.2).mp hq
      constructor
      · intro e; subst e; rw [used_unique hup1 uq1, kq1] at hkp; cases hkp
      · intro e
        have hq1f : q.1 ≠ f := by
          intro e'; rw [e'] at uq1
          rw [used_unique uq1 huf1] at sq1; exact hnf sq1
        have hkk : kq = k := by
          rw [← e] at aq2
          have : (complete1 s f p hf').att = s.att := rfl
          rw [this, hap] at aq2; simpa using aq2.symm
        rw [hkk] at aq1
        rcases c1.skel.pair q.1 qf f _ k uq1 huf1 hq1f aq1 haf with ⟨_, x, _⟩ | ⟨_, x, _⟩
        · change hf'.kind = Kind.parity at x; rw [hkf] at x; cases x
        · rw [kq1] at x; cases x
    have hsub2 : Sub ((complete1 s f p hf').hs.set p (some { hp' with ext := Ext.complete })) (complete1 s f p hf').hs :=
      set_sub (by intro hd e; simp only [Option.some.injEq] at e; subst e; exact ⟨hp', hup1, rfl⟩)
    refine ⟨skel_mark p hp' _ c1.skel hup1 ⟨rfl, rfl, rfl, rfl⟩, ?_, ?_, topOK_none _ _,
      orph_mark p hp' _ c1.orph hup1 ⟨rfl, rfl, rfl, rfl⟩ (fun e => absurd e hnp) (fun e => absurd e hcp)⟩
    · have := live_mark p hp' _ c1.lv hup1 hnp
      rwa [filter_untouched_self hav] at this
    · show TopOK _ _ (if s.must = some (f, p) then none else s.must)
      rw [hmust]
      exact topOK_none _ _


end Fuota.Ring
