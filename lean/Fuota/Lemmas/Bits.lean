import Fuota.Model.Recon
import Fuota.Spec.Gf2
/-!
# Bit-mask / XOR-combination lemmas used by the reconstructor proofs (core Lean only)
-/
namespace Fuota.Gf2

/-! ## `combo` -/

/-- `combo` is linear in the row -/
theorem combo_xor (x : Nat → Nat) (r s l : Nat) :
    combo x (r ^^^ s) l = combo x r l ^^^ combo x s l := by
  induction l with
  | zero => simp [combo]
  | succ l ih =>
    simp only [combo, ih, Nat.testBit_xor]
    cases r.testBit l <;> cases s.testBit l <;> simp <;> grind

/-- `combo` only looks at the bits below `l` -/
theorem combo_congr (x : Nat → Nat) (r s l : Nat) (h : ∀ i < l, r.testBit i = s.testBit i) :
    combo x r l = combo x s l := by
  induction l with
  | zero => rfl
  | succ l ih =>
    simp only [combo]
    rw [ih (fun i hi => h i (by omega)), h l (by omega)]

/-- `combo` only looks at the blocks below `l` -/
theorem combo_congr_fun (x x' : Nat → Nat) (r l : Nat) (h : ∀ j < l, x j = x' j) :
    combo x r l = combo x' r l := by
  induction l with
  | zero => rfl
  | succ l ih =>
    simp only [combo]
    rw [ih (fun i hi => h i (by omega)), h l (by omega)]

/-- the zero row selects nothing -/
@[simp] theorem combo_zero_row (x : Nat → Nat) (l : Nat) : combo x 0 l = 0 := by
  induction l with
  | zero => rfl
  | succ l ih => simp [combo, ih]

/-- bits at or above `k` that are all clear can be dropped -/
theorem combo_trunc (x : Nat → Nat) (r k l : Nat) (hk : k ≤ l)
    (h : ∀ j, k ≤ j → j < l → r.testBit j = false) : combo x r l = combo x r k := by
  induction l with
  | zero => have : k = 0 := by omega
            subst this; rfl
  | succ l ih =>
    by_cases hkl : k = l + 1
    · subst hkl; rfl
    · simp only [combo]
      rw [h l (by omega) (by omega), ih (by omega) (fun j h1 h2 => h j h1 (by omega))]
      simp

/-- a unit row selects one block -/
theorem combo_two_pow (x : Nat → Nat) (i n : Nat) (h : i < n) : combo x (2 ^ i) n = x i := by
  induction n with
  | zero => omega
  | succ n ih =>
    simp only [combo, Nat.testBit_two_pow]
    by_cases hin : i = n
    · subst hin
      have : combo x (2 ^ i) i = combo x 0 i :=
        combo_congr x _ _ _ (fun j hj => by simp [Nat.testBit_two_pow]; omega)
      simp [this]
    · have : decide (i = n) = false := by simp [hin]
      simp [this, ih (by omega)]

/-- peel off the lowest bit -/
theorem combo_shift (y : Nat → Nat) (r l : Nat) :
    combo y r (l + 1) = (if r.testBit 0 then y 0 else 0) ^^^ combo (fun j => y (j + 1)) (r / 2) l := by
  induction l with
  | zero => simp [combo]
  | succ l ih =>
    rw [combo, ih]
    simp only [combo, Nat.testBit_succ, Nat.xor_assoc]

/-! ## `comboL`: the same over an index list -/

/-- XOR of `x i` over the `i` in the list selected by `sel` -/
def comboL (x : Nat → Nat) (sel : Nat → Bool) : List Nat → Nat
  | [] => 0
  | i :: is => (if sel i then x i else 0) ^^^ comboL x sel is

/-- `comboL` over a concatenation is the XOR of the parts -/
theorem comboL_append (x : Nat → Nat) (sel : Nat → Bool) (as bs : List Nat) :
    comboL x sel (as ++ bs) = comboL x sel as ^^^ comboL x sel bs := by
  induction as with
  | nil => simp [comboL]
  | cons a as ih => simp [comboL, ih, Nat.xor_assoc]

/-- `combo` is `comboL` over `0 .. l` -/
theorem combo_eq_comboL (x : Nat → Nat) (r l : Nat) : combo x r l = comboL x r.testBit (List.range l) := by
  induction l with
  | zero => rfl
  | succ l ih => simp [combo, List.range_succ, comboL_append, comboL, ih]

/-- filtering the index list is the same as strengthening the selector -/
theorem comboL_filter (x : Nat → Nat) (sel p : Nat → Bool) (is : List Nat) :
    comboL x sel (is.filter p) = comboL x (fun i => sel i && p i) is := by
  induction is with
  | nil => rfl
  | cons i is ih =>
    by_cases hp : p i = true
    · simp [hp, comboL, ih]
    · have : p i = false := by simpa using hp
      simp [this, comboL, ih]

/-- split a selection by a predicate on the indices -/
theorem comboL_split (x : Nat → Nat) (sel p : Nat → Bool) (is : List Nat) :
    comboL x sel is = comboL x (fun i => sel i && p i) is ^^^ comboL x (fun i => sel i && !p i) is := by
  induction is with
  | nil => simp [comboL]
  | cons i is ih =>
    simp only [comboL]
    rw [ih]
    generalize comboL x (fun i => sel i && p i) is = a
    generalize comboL x (fun i => sel i && !p i) is = b
    by_cases hs : sel i = true <;> by_cases hp : p i = true <;> simp [hs, hp] <;> grind

/-- `comboL` only depends on selector and blocks at the listed indices -/
theorem comboL_congr (x x' : Nat → Nat) (sel sel' : Nat → Bool) (is : List Nat)
    (hs : ∀ i ∈ is, sel i = sel' i) (hx : ∀ i ∈ is, sel i = true → x i = x' i) :
    comboL x sel is = comboL x' sel' is := by
  induction is with
  | nil => rfl
  | cons i is ih =>
    simp only [comboL]
    rw [ih (fun j hj => hs j (List.mem_cons_of_mem _ hj)) (fun j hj => hx j (List.mem_cons_of_mem _ hj)),
      ← hs i (List.mem_cons_self)]
    cases h : sel i
    · simp
    · simp [hx i (List.mem_cons_self) h]

/-! ## `nth`: list lookup with default, kept opaque to `simp` -/

/-- `j`-th element of `U` (0 when out of range) -/
def nth (U : List Nat) (j : Nat) : Nat := U.getD j 0

/-- head of a cons -/
theorem nth_cons_zero (u : Nat) (U : List Nat) : nth (u :: U) 0 = u := rfl
/-- tail of a cons -/
theorem nth_cons_succ (u : Nat) (U : List Nat) (j : Nat) : nth (u :: U) (j + 1) = nth U j := rfl

/-- in range, `nth` is the list element -/
theorem nth_eq_getElem (U : List Nat) (j : Nat) (h : j < U.length) : nth U j = U[j] := by
  simp [nth, List.getD, h]

/-- in range, the optional lookup succeeds with `nth` -/
theorem getElem?_eq_some_nth (U : List Nat) (j : Nat) (h : j < U.length) : U[j]? = some (nth U j) := by
  simp [nth, List.getD, h]

/-- in range, `nth` is a member -/
theorem nth_mem (U : List Nat) (j : Nat) (h : j < U.length) : nth U j ∈ U := by
  rw [nth_eq_getElem U j h]; exact List.getElem_mem h

/-- members of a prefix are the `nth` of a smaller position -/
theorem mem_take_iff_nth (U : List Nat) (i m : Nat) :
    m ∈ U.take i ↔ ∃ j, j < i ∧ j < U.length ∧ nth U j = m := by
  rw [List.mem_take_iff_getElem]
  constructor
  · rintro ⟨j, hj, rfl⟩
    exact ⟨j, by omega, by omega, nth_eq_getElem U j (by omega)⟩
  · rintro ⟨j, h1, h2, rfl⟩
    exact ⟨j, by omega, (nth_eq_getElem U j h2).symm⟩

/-- members are the `nth` of a position in range -/
theorem mem_iff_nth (U : List Nat) (m : Nat) : m ∈ U ↔ ∃ j, j < U.length ∧ nth U j = m := by
  have := mem_take_iff_nth U U.length m
  rw [List.take_length] at this
  rw [this]
  constructor
  · rintro ⟨j, _, h, e⟩; exact ⟨j, h, e⟩
  · rintro ⟨j, h, e⟩; exact ⟨j, h, h, e⟩

/-- positions of a duplicate-free list are determined by the element -/
theorem nth_inj (U : List Nat) (hnd : U.Nodup) (i j : Nat) (hi : i < U.length) (hj : j < U.length)
    (h : nth U i = nth U j) : i = j := by
  have h1 : U[i]? = U[j]? := by rw [getElem?_eq_some_nth U i hi, getElem?_eq_some_nth U j hj, h]
  exact (List.getElem?_inj hi hnd).1 h1

/-- change of variables: a row over the listed columns `U`, re-indexed by position in `U` -/
theorem combo_reindex (x : Nat → Nat) (sel : Nat → Bool) (U : List Nat) :
    ∀ r : Nat, (∀ j, j < U.length → r.testBit j = sel (nth U j)) →
      combo (fun j => x (nth U j)) r U.length = comboL x sel U := by
  induction U with
  | nil => intro r _; rfl
  | cons u U ih =>
    intro r h
    rw [List.length_cons, combo_shift]
    have h0 := h 0 (by simp)
    simp only [nth_cons_zero] at h0
    simp only [nth_cons_succ, nth_cons_zero, comboL, h0]
    rw [ih (r / 2) (fun j hj => by
      have := h (j + 1) (by simp; omega)
      simpa [Nat.testBit_succ, nth_cons_succ] using this)]

/-! ## `packBits`, `unknowns`, `project` -/
open Fuota.Recon

/-- bit `j` of `packBits` is the `j`-th list entry -/
theorem testBit_packBits (bs : List Bool) : ∀ j, (packBits bs).testBit j = bs.getD j false := by
  induction bs with
  | nil => intro j; simp [packBits]
  | cons b bs ih =>
    intro j
    cases j with
    | zero =>
      simp only [packBits, Nat.testBit_zero, List.getD_cons_zero]
      cases b <;> simp <;> omega
    | succ j =>
      simp only [packBits, Nat.testBit_succ, List.getD_cons_succ]
      rw [← ih j]
      congr 1
      cases b <;> simp <;> omega

/-- bit `j` of a projected row is the row bit at the `j`-th unknown column (none beyond the unknowns) -/
theorem testBit_project (done n row j : Nat) :
    (project done n row).testBit j =
      (decide (j < (unknowns done n).length) && row.testBit (nth (unknowns done n) j)) := by
  rw [project, testBit_packBits]
  by_cases h : j < (unknowns done n).length
  · simp [nth, List.getD, h]
  · simp [List.getD, h]

/-- the unknowns are the indices below `n` whose done bit is clear -/
theorem mem_unknowns (done n m : Nat) : m ∈ unknowns done n ↔ m < n ∧ done.testBit m = false := by
  simp [unknowns]

/-- no unknown index is listed twice -/
theorem nodup_unknowns (done n : Nat) : (unknowns done n).Nodup :=
  List.Pairwise.filter _ List.nodup_range

/-- the value `strip` leaves: the coded block minus the known part is the combination of the unknown
    blocks selected by the projected row -/
theorem strip_value (x : Nat → Nat) (row done n : Nat) :
    combo x row n ^^^ comboL x (fun i => row.testBit i && done.testBit i) (List.range n) =
      combo (fun j => x (nth (unknowns done n) j)) (project done n row) (unknowns done n).length := by
  rw [combo_reindex x row.testBit (unknowns done n) _ (fun j hj => by simp [testBit_project, hj])]
  rw [unknowns, comboL_filter, combo_eq_comboL, comboL_split x row.testBit done.testBit (List.range n)]
  grind

/-! ## small bit facts -/

/-- bits after setting bit `p` -/
theorem testBit_or_two_pow (a p q : Nat) :
    (a ||| 2 ^ p).testBit q = (a.testBit q || decide (p = q)) := by
  simp [Nat.testBit_or, Nat.testBit_two_pow]

/-- a number with no bit set is zero -/
theorem eq_zero_of_testBit (r : Nat) (h : ∀ j, r.testBit j = false) : r = 0 :=
  Nat.eq_of_testBit_eq (fun j => by simp [h j])

end Fuota.Gf2
