import Fuota.Lemmas.RefineCrashReads
/-!
# Stage 2 split at its only two programs outside `finish`: reads, the pivot pair (block, row), the tail
-/
namespace Fuota.Updater
open Fuota.Nor Fuota.Fs Fuota.FlashAdapters Fuota.Recon Fuota.Layout Fuota.Gf2

/-- what stage 2 does after the elimination loop returned the pivot mask `used'`: record it, and run `finish` if the
    session became complete -/
def stage2Tail (u : Upd) (used' : Nat) : MU (Option Bool) := do
  let u := { u with used := used' }
  setU u
  if rcComplete u then
    let u' ← liftM (finishOuter (Recon.unknowns u.done u.n) (List.range u.l) u)
    setU u'
    return some true
  else return some false

/-- the decision of the elimination loop does not look at the firmware slot handle -/
theorem elimF_warm (u : Upd) (f : Flash) : ∀ (wh row : Nat) (data : List Nat),
    elimF (warm u) f wh row data = elimF u f wh row data
  | 0, _, _ => rfl
  | wh + 1, row, data => by
    unfold elimF
    rw [elimF_warm u f wh, elimF_warm u f wh]
    rfl

/-- the pivot pair does not look at the firmware slot handle -/
theorem pairStore_warm (u : Upd) (p row : Nat) (data : List Nat) : pairStore (warm u) p row data = pairStore u p row data :=
  rfl

/-- **stage 2 on any powered device, given what `strip` returned**: the decision of the elimination loop is a function
of the flash contents; if a pivot is to be stored the two programs follow, and then the tail -/
theorem stage2U_run_of_strip (ffr : Bool) {u : Upd} {d : Dev} (g : Geo (warm u) d.flash.size) (hlive : d.dead = false)
    (hl : u.l ≤ u.maxL) (index : Nat) (bytes : List Nat) (r : Nat) (hrow : updaterRow ffr u.n index = some r)
    (out1 : List Nat) (hstrip : (strip u r (List.range u.n) bytes).run d = (.ok out1, d)) (hol : out1.length = u.bs) :
    (stage2U ffr u index bytes).run (u, d) =
      match elimF u d.flash u.l (project u.done u.n r) out1 with
      | none => (stage2Tail u u.used).run (u, d)
      | some (p, row', data') =>
        match (pairStore u p row' data').run d with
        | (.ok used', d') => (stage2Tail u used').run (u, d')
        | (.error e, d') => (.error e, (u, d')) := by
  have he := elim_run_live (u := warm u) g hlive u.l (project u.done u.n r) out1 hl hol
  rw [elim_warm u] at he
  unfold stage2U
  simp only [hrow, runU_bind, runU_pure, runU_liftM, hstrip]
  rw [he, elimF_warm]
  cases elimF u d.flash u.l (project u.done u.n r) out1 with
  | none => rfl
  | some t =>
    obtain ⟨p, row', data'⟩ := t
    simp only [pairStore_warm]
    generalize (pairStore u p row' data').run d = q
    obtain ⟨res, d'⟩ := q
    cases res <;> rfl

/-- the tail of an incomplete session does nothing but record the pivots -/
theorem stage2Tail_incomplete {u : Upd} {used' : Nat} (h : rcComplete { u with used := used' } = false)
    (s : Upd × Dev) : (stage2Tail u used').run s = (.ok (some false), ({ u with used := used' }, s.2)) := by
  unfold stage2Tail
  simp only [runU_bind, runU_setU, h, Bool.false_eq_true, ↓reduceIte]
  rfl

/-- the tail of a session that became complete records the pivots and runs `finish`; if `finish` fails the recorded
    (complete) updater stays in memory -/
theorem stage2Tail_complete {u : Upd} {used' : Nat} (h : rcComplete { u with used := used' } = true)
    (s : Upd × Dev) : (stage2Tail u used').run s =
      match (finishOuter (Recon.unknowns u.done u.n) (List.range u.l) { u with used := used' }).run s.2 with
      | (.ok u', d') => (.ok (some true), (u', d'))
      | (.error e, d') => (.error e, ({ u with used := used' }, d')) := by
  unfold stage2Tail
  simp only [runU_bind, runU_setU, h, ↓reduceIte, runU_liftM]
  generalize (finishOuter (Recon.unknowns u.done u.n) (List.range u.l) { u with used := used' }).run s.2 = q
  obtain ⟨res, d'⟩ := q
  cases res <;> rfl

/-- the two programs of a pivot on a device without injection -/
theorem pairStore_run {u : Upd} {d : Dev} (g : Geo u d.flash.size) (hG : Good d) {p : Nat} (hp : p < u.maxL)
    (row : Nat) (data : List Nat) (hlen : data.length = u.bs) :
    (pairStore u p row data).run d =
      (.ok (u.used ||| 2 ^ p), (d.prog (pAddr u p) data).prog (rAddr u p) (rowBytes p row)) := by
  unfold pairStore
  rw [run_bind, pStore_run g hG hp data hlen]
  simp only
  rw [run_bind, mSetRow_run (by rw [Dev.prog_size]; exact g) (hG.prog _ _) hp row]
  rfl

/-- the two programs of a pivot with a transient fault on the first: nothing happens -/
theorem pairStore_fault0 {u : Upd} {d : Dev} (g : Geo u d.flash.size) (hG : Good d) {p : Nat} (hp : p < u.maxL)
    (row : Nat) (data : List Nat) (hlen : data.length = u.bs) :
    (pairStore u p row data).run (d.withFault 0) = (.error (.spi .custom), d) := by
  obtain ⟨q1, q2, q3, q4⟩ := g.regions.2 p hp
  obtain ⟨h1, h2, _, h3, _, _, h4⟩ := g.slots
  unfold pairStore
  rw [run_bind, pStore_eq g hp data hlen,
    writeFrom_run_fault (hG.withFault 0) _ _ (by show _ ≤ d.flash.size; omega)]
  show (_, ({ d.withFault 0 with failAt := none } : Dev)) = _
  rw [withFault_cleared hG]

/-- the two programs of a pivot with a transient fault on the second: the block is programmed, the row is not -/
theorem pairStore_fault1 {u : Upd} {d : Dev} (g : Geo u d.flash.size) (hG : Good d) {p : Nat} (hp : p < u.maxL)
    (row : Nat) (data : List Nat) (hlen : data.length = u.bs) :
    (pairStore u p row data).run (d.withFault 1) = (.error (.spi .custom), d.prog (pAddr u p) data) := by
  obtain ⟨q1, q2, q3, q4⟩ := g.regions.2 p hp
  obtain ⟨h1, h2, _, h3, _, _, h4⟩ := g.slots
  have hrl := (rowBytes_spec p row).2
  obtain ⟨w1, w2⟩ := writeFrom_run_faulty (hG.withFault 1) (pAddr u p) data (by show _ ≤ d.flash.size; omega)
  unfold pairStore
  rw [run_bind, pStore_eq g hp data hlen, w1]
  simp only
  rw [run_bind, mSetRow_eq g hp row, writeFrom_run_fault w2 _ _
    (by rw [Dev.prog_size, hrl]; show _ ≤ d.flash.size; omega)]
  show (_, ({ (d.withFault 1).prog (pAddr u p) data with failAt := none } : Dev)) = _
  rw [withFault_prog_cleared hG]

/-- the two programs of a pivot with a fault armed beyond them: both succeed, the fault stays armed -/
theorem pairStore_fault_late {u : Upd} {d : Dev} (g : Geo u d.flash.size) (hG : Good d) {p : Nat} (hp : p < u.maxL)
    (row : Nat) (data : List Nat) (hlen : data.length = u.bs) (k : Nat) :
    ∃ d', (pairStore u p row data).run (d.withFault (k + 2)) = (.ok (u.used ||| 2 ^ p), d') ∧ Faulty k d' ∧
      d'.flash = (d.flash.apply (.program (pAddr u p) data)).apply (.program (rAddr u p) (rowBytes p row)) := by
  obtain ⟨q1, q2, q3, q4⟩ := g.regions.2 p hp
  obtain ⟨h1, h2, _, h3, _, _, h4⟩ := g.slots
  have hrl := (rowBytes_spec p row).2
  obtain ⟨w1, w2⟩ := writeFrom_run_faulty (hG.withFault (k + 1 + 1)) (pAddr u p) data
    (by show _ ≤ d.flash.size; omega)
  obtain ⟨v1, v2⟩ := writeFrom_run_faulty w2 (rAddr u p) (rowBytes p row)
    (by rw [Dev.prog_size, hrl]; show _ ≤ d.flash.size; omega)
  refine ⟨_, ?_, v2, rfl⟩
  unfold pairStore
  rw [run_bind, pStore_eq g hp data hlen, w1]
  simp only
  rw [run_bind, mSetRow_eq g hp row, v1]
  rfl

/-- the two programs of a pivot with a power loss armed beyond them: both succeed, the crash stays armed -/
theorem pairStore_crash_late {u : Upd} {d : Dev} (g : Geo u d.flash.size) (hG : Good d) {p : Nat} (hp : p < u.maxL)
    (row : Nat) (data : List Nat) (hlen : data.length = u.bs) (k : Nat) :
    ∃ d', (pairStore u p row data).run (d.withCrash (k + 2)) = (.ok (u.used ||| 2 ^ p), d') ∧ Armed k d' ∧
      d'.flash = (d.flash.apply (.program (pAddr u p) data)).apply (.program (rAddr u p) (rowBytes p row)) := by
  obtain ⟨q1, q2, q3, q4⟩ := g.regions.2 p hp
  obtain ⟨h1, h2, _, h3, _, _, h4⟩ := g.slots
  have hrl := (rowBytes_spec p row).2
  obtain ⟨w1, w2⟩ := writeFrom_run_armed (hG.withCrash (k + 1 + 1)) (pAddr u p) data
    (by show _ ≤ d.flash.size; omega)
  obtain ⟨v1, v2⟩ := writeFrom_run_armed w2 (rAddr u p) (rowBytes p row)
    (by rw [Dev.prog_size, hrl]; show _ ≤ d.flash.size; omega)
  refine ⟨_, ?_, v2, rfl⟩
  unfold pairStore
  rw [run_bind, pStore_eq g hp data hlen, w1]
  simp only
  rw [run_bind, mSetRow_eq g hp row, v1]
  rfl

/-- the two programs of a pivot with the power lost at the first: dead device; rebooted it is as before -/
theorem pairStore_crash0 {u : Upd} {d : Dev} (g : Geo u d.flash.size) (hG : Good d) {p : Nat} (hp : p < u.maxL)
    (row : Nat) (data : List Nat) (hlen : data.length = u.bs) :
    ∃ e, (pairStore u p row data).run (d.withCrash 0) = (.error (.spi .custom), e) ∧ e.dead = true ∧ e.reboot = d := by
  obtain ⟨q1, q2, q3, q4⟩ := g.regions.2 p hp
  obtain ⟨h1, h2, _, h3, _, _, h4⟩ := g.slots
  refine ⟨{ d.withCrash 0 with dead := true }, ?_, rfl, withCrash_reboot hG 0⟩
  unfold pairStore
  rw [run_bind, pStore_eq g hp data hlen,
    writeFrom_run_crash (hG.withCrash 0) _ _ (by show _ ≤ d.flash.size; omega)]

/-- the two programs of a pivot with the power lost at the second: dead device; rebooted, the block is programmed
    and the row is not -/
theorem pairStore_crash1 {u : Upd} {d : Dev} (g : Geo u d.flash.size) (hG : Good d) {p : Nat} (hp : p < u.maxL)
    (row : Nat) (data : List Nat) (hlen : data.length = u.bs) :
    ∃ e, (pairStore u p row data).run (d.withCrash 1) = (.error (.spi .custom), e) ∧ e.dead = true ∧
      e.reboot = d.prog (pAddr u p) data := by
  obtain ⟨q1, q2, q3, q4⟩ := g.regions.2 p hp
  obtain ⟨h1, h2, _, h3, _, _, h4⟩ := g.slots
  have hrl := (rowBytes_spec p row).2
  obtain ⟨w1, w2⟩ := writeFrom_run_armed (hG.withCrash 1) (pAddr u p) data (by show _ ≤ d.flash.size; omega)
  refine ⟨{ (d.withCrash 1).prog (pAddr u p) data with dead := true }, ?_, rfl, withCrash_prog_reboot hG 1 _ _⟩
  unfold pairStore
  rw [run_bind, pStore_eq g hp data hlen, w1]
  simp only
  rw [run_bind, mSetRow_eq g hp row, writeFrom_run_crash w2 _ _
    (by rw [Dev.prog_size, hrl]; show _ ≤ d.flash.size; omega)]

/-! ## the tail simulates `finish`-if-complete of the model, and does not depend on the cache -/

/-- a result corresponds to at most one answer of the model -/
theorem resCorr_unique {a b : Except MErr (Option Bool)} {r : Res} (ha : ResCorr a r) (hb : ResCorr b r) : a = b := by
  cases a with
  | error e => cases r <;> exact ha.elim
  | ok oa =>
    cases b with
    | error e => cases r <;> exact hb.elim
    | ok ob =>
      cases oa with
      | none =>
        cases ob with
        | none => rfl
        | some y => cases y <;> cases r <;> first | exact ha.elim | exact hb.elim
      | some x =>
        cases ob with
        | none => cases x <;> cases r <;> first | exact ha.elim | exact hb.elim
        | some y => cases x <;> cases y <;> cases r <;> first | rfl | exact ha.elim | exact hb.elim

/-- **the tail of stage 2 simulates the model's**: from a state that satisfies the stage-2 invariant with the new
pivots recorded, it answers as `finishIf`, re-establishes the session invariant and ends with the model's contents -/
theorem stage2Tail_sim {u : Upd} {d' : Dev} {used' : Nat} (hl0 : u.l ≠ 0)
    (hlU : u.l = (unknowns u.done u.n).length)
    (hL' : Lawful' (fun i => u.done.testBit i = false) { u with used := used' } d') (s' : St)
    (hS' : Sim s' { u with used := used' } d'.flash) (u0 : Upd) :
    ResCorr ((stage2Tail u used').run (u0, d')).1 (finishIf s').2 ∧
    Lawful ((stage2Tail u used').run (u0, d')).2.1 ((stage2Tail u used').run (u0, d')).2.2 ∧
    Sim (finishIf s').1 ((stage2Tail u used').run (u0, d')).2.1 ((stage2Tail u used').run (u0, d')).2.2.flash ∧
    Static u ((stage2Tail u used').run (u0, d')).2.1 := by
  obtain ⟨t1, t2, t3, t4, t5, t6, t7, t8⟩ := hS'
  have hcomp : isComplete s' = rcComplete { u with used := used' } :=
    Sim.complete ⟨t1, t2, t3, t4, t5, t6, t7, t8⟩
  unfold finishIf
  by_cases hc : rcComplete { u with used := used' } = true
  · rw [stage2Tail_complete hc, if_pos (hcomp.trans hc)]
    have hall : ∀ p, p < u.l → used'.testBit p = true := by
      intro p hp
      have h1 := (isComplete_stage2 s' (by rw [t3]; exact hl0)).1 (hcomp.trans hc) p (by rw [t3]; exact hp)
      rw [t5] at h1; exact h1
    have hF0 : FinL { u with used := used' } d' (unknowns u.done u.n) 0 :=
      ⟨hL'.mono (fun k hk => hk.1), fun j hj => by omega⟩
    obtain ⟨d'', hrunF, hSF, hFF⟩ := finishOuter_sim (u := { u with used := used' }) hlU hall u.l 0 s' d' hF0
      ⟨t1, t2, t3, t4, t5, t6, t7, t8⟩ (by simp)
    rw [← List.range_eq_range'] at hrunF hSF
    simp only [hrunF]
    refine ⟨trivial, ⟨?_, ?_⟩, ?_, ⟨rfl, rfl, rfl, rfl, rfl, rfl⟩⟩
    · exact hFF.law.mono (fun k hk => by rw [hc] at hk; cases hk.1)
    · intro _ m hm
      show d''.flash.byte (statAddr u m) = 0x33
      by_cases hdm : u.done.testBit m = true
      · exact hFF.law.hstat m hdm
      · have hdm' : u.done.testBit m = false := by simpa using hdm
        have hmem : m ∈ unknowns u.done u.n := (mem_unknowns _ _ _).2 ⟨hm, hdm'⟩
        obtain ⟨j, hj, hjm⟩ := (mem_iff_nth _ _).1 hmem
        have := hFF.marked j (by omega)
        rwa [hjm] at this
    · show Sim ((List.range s'.l).foldl (finStep (unknowns s'.done s'.n)) s') _ d''.flash
      rw [t3, t4, t1]
      exact hSF
  · have hc' : rcComplete { u with used := used' } = false := by simpa using hc
    rw [stage2Tail_incomplete hc', if_neg (by rw [hcomp, hc']; simp)]
    refine ⟨trivial, ⟨hL'.mono (fun k hk => hk.2), fun h => ?_⟩, ⟨t1, t2, t3, t4, t5, t6, t7, t8⟩,
      ⟨rfl, rfl, rfl, rfl, rfl, rfl⟩⟩
    exact absurd (show rcComplete { u with used := used' } = true from h) hc

/-- the tail with an empty cache behaves like the tail with a filled one -/
theorem stage2Tail_warm {w : Upd} {e : Dev} {used' : Nat} (hl0 : w.l ≠ 0)
    (hlU : w.l = (unknowns w.done w.n).length)
    (hL' : Lawful' (fun i => w.done.testBit i = false) (warm { w with used := used' }) e)
    (hc' : CacheOK { w with used := used' } e) (u0 u1 : Upd) :
    WarmRel ((stage2Tail w used').run (u0, e)) ((stage2Tail (warm w) used').run (u1, e)) ∧
    CacheOK ((stage2Tail w used').run (u0, e)).2.1 ((stage2Tail w used').run (u0, e)).2.2 := by
  by_cases hcomp : rcComplete { w with used := used' } = true
  · have hcomp' : rcComplete { warm w with used := used' } = true := hcomp
    rw [stage2Tail_complete hcomp, stage2Tail_complete hcomp']
    have hall : ∀ p, p < w.l → used'.testBit p = true := by
      intro p hp
      have hcA : isComplete (abs ({ w with used := used' }, e)) = true := by
        rw [← rcComplete_eq]; exact hcomp
      exact (isComplete_stage2 _ (show (abs ({ w with used := used' }, e)).l ≠ 0 from hl0)).1 hcA p hp
    have hF0 : FinL (warm { w with used := used' }) e (unknowns w.done w.n) 0 :=
      ⟨hL'.mono (fun k hk => hk.1), fun j hj => by omega⟩
    obtain ⟨l', hl'⟩ : ∃ l', w.l = l' + 1 := ⟨w.l - 1, by omega⟩
    have hw := finishOuter_warm (u := { w with used := used' }) hlU l' 0 e hF0 hc' (by show 0 + (l' + 1) ≤ w.l; omega)
    rw [← hl', ← List.range_eq_range'] at hw
    obtain ⟨d'', hrunF, _, _⟩ := finishOuter_sim (u := warm { w with used := used' }) hlU hall w.l 0
      (abs (warm { w with used := used' }, e)) e hF0 (sim_abs _ _) (by simp)
    rw [← List.range_eq_range'] at hrunF
    rw [hrunF] at hw
    have hw' : (finishOuter (unknowns w.done w.n) (List.range w.l) { warm w with used := used' }).run e =
        (.ok (warm { w with used := used' }), d'') := hrunF
    simp only [hw, hw']
    exact ⟨⟨rfl, rfl, rfl⟩, Or.inl rfl⟩
  · have hcomp0 : rcComplete { w with used := used' } = false := by simpa using hcomp
    have hcomp' : rcComplete { warm w with used := used' } = false := hcomp0
    rw [stage2Tail_incomplete hcomp0, stage2Tail_incomplete hcomp']
    exact ⟨⟨rfl, rfl, rfl⟩, hc'⟩

end Fuota.Updater
