import Fuota.Lemmas.RefineStep
import Fuota.Lemmas.Counters
import Fuota.Props.C18
import Fuota.Props.C10
/-!
# Whole crash-free, fault-free sessions of the updater simulate runs of the reconstructor model
-/
namespace Fuota.Updater
open Fuota.Nor Fuota.Fs Fuota.FlashAdapters Fuota.Recon Fuota.Gf2

/-! ## fragments -/

/-- byte lists of equal length denoting the same number are equal -/
theorem bytesToNat_inj : ∀ {a b : List Nat}, IsBytes a → IsBytes b → a.length = b.length →
    bytesToNat a = bytesToNat b → a = b
  | [], [], _, _, _, _ => rfl
  | [], _ :: _, _, _, h, _ => by simp at h
  | _ :: _, [], _, _, h, _ => by simp at h
  | x :: as, y :: bs, ha, hb, hl, h => by
    rw [isBytes_cons] at ha hb
    simp only [bytesToNat] at h
    have hx : x = y := by omega
    have ht : bytesToNat as = bytesToNat bs := by omega
    rw [hx, bytesToNat_inj ha.2 hb.2 (by simpa using hl) ht]

/-- a coded fragment: the XOR of the image blocks selected by the row -/
def codedFrag (bs n : Nat) (img : Nat → List Nat) (row : Nat) : List Nat :=
  (List.range n).foldl (fun acc m => if row.testBit m then xorBytes acc (img m) else acc) (List.replicate bs 0)

/-- a buffer of zeros is the number zero -/
theorem bytesToNat_replicate_zero (k : Nat) : bytesToNat (List.replicate k 0) = 0 := by
  induction k with
  | zero => rfl
  | succ k ih => simp [List.replicate_succ, bytesToNat, ih]

/-- XOR-folding selected blocks into a buffer -/
theorem foldl_xor_spec (bs : Nat) (img : Nat → List Nat) (row : Nat) (L : List Nat)
    (himg : ∀ m ∈ L, IsBytes (img m) ∧ (img m).length = bs) :
    ∀ acc, IsBytes acc → acc.length = bs →
      IsBytes (L.foldl (fun acc m => if row.testBit m then xorBytes acc (img m) else acc) acc) ∧
      (L.foldl (fun acc m => if row.testBit m then xorBytes acc (img m) else acc) acc).length = bs ∧
      bytesToNat (L.foldl (fun acc m => if row.testBit m then xorBytes acc (img m) else acc) acc) =
        bytesToNat acc ^^^ comboL (fun m => bytesToNat (img m)) row.testBit L := by
  induction L with
  | nil => intro acc hb hl; exact ⟨hb, hl, by simp [comboL]⟩
  | cons m L ih =>
    intro acc hb hl
    obtain ⟨hm1, hm2⟩ := himg m List.mem_cons_self
    have himg' := fun k hk => himg k (List.mem_cons_of_mem _ hk)
    simp only [List.foldl_cons, comboL]
    by_cases h : row.testBit m = true
    · simp only [h, ↓reduceIte]
      obtain ⟨a, b, c⟩ := ih himg' (xorBytes acc (img m)) (hb.xorBytes hm1) (by rw [length_xorBytes]; exact hl)
      refine ⟨a, b, ?_⟩
      rw [c, bytesToNat_xorBytes (by rw [hl, hm2]) hb hm1, Nat.xor_assoc]
    · have h' : row.testBit m = false := by simpa using h
      simp only [h', Bool.false_eq_true, ↓reduceIte]
      obtain ⟨a, b, c⟩ := ih himg' acc hb hl
      exact ⟨a, b, by rw [c]; simp⟩

/-- a coded fragment is a block of bytes denoting the model's XOR-combination -/
theorem codedFrag_spec (bs n : Nat) (img : Nat → List Nat) (row : Nat)
    (himg : ∀ m, m < n → IsBytes (img m) ∧ (img m).length = bs) :
    IsBytes (codedFrag bs n img row) ∧ (codedFrag bs n img row).length = bs ∧
    bytesToNat (codedFrag bs n img row) = combo (fun m => bytesToNat (img m)) row n := by
  have h := foldl_xor_spec bs img row (List.range n) (fun m hm => himg m (List.mem_range.1 hm))
    (List.replicate bs 0) (fun b hb => by rw [List.mem_replicate] at hb; omega) (by simp)
  refine ⟨h.1, h.2.1, ?_⟩
  rw [combo_eq_comboL]
  have := h.2.2
  rw [bytesToNat_replicate_zero, Nat.zero_xor] at this
  exact this

/-! ## the row generator satisfies the matrix contract -/

/-- the rows the updater uses: identity below `n`, nothing at or above `n` (undefined rows read as zero) -/
theorem updaterRow_contract (ffr : Bool) (n : Nat) (hn : n ≤ 16384) :
    Contract n (fun m => (updaterRow ffr n m).getD 0) := by
  constructor
  · intro m hm
    simp [updaterRow, Lfdbt.updaterRow, hm]
  · intro m
    show (Lfdbt.updaterRow ffr n m).getD 0 < 2 ^ n
    unfold Lfdbt.updaterRow
    by_cases hm : m < n
    · simp only [hm, ↓reduceIte, Option.getD_some]
      exact Nat.pow_lt_pow_right (by omega) hm
    · simp only [hm, ↓reduceIte]
      have hmod : n % 2 ^ 32 = n := Nat.mod_eq_of_lt (by omega)
      rw [hmod]
      cases hr : Lfdbt.getParityMatrixRow ffr ((m - n + 1) % 2 ^ 32) n with
      | none => exact Nat.two_pow_pos n
      | some row => exact C10.row_bounds ffr _ _ row hr

/-! ## `handle_segment` -/

/-- raising the `complete` flag does not affect the invariant -/
theorem Lawful.setComplete {u : Upd} {d : Dev} (L : Lawful u d) (b : Bool) : Lawful { u with complete := b } d :=
  { base := {
      geo := ⟨L.base.geo.hbs, L.base.geo.hn, L.base.geo.hfit, L.base.geo.hsz, L.base.geo.hmaxL, L.base.geo.hmo,
        L.base.geo.hne, L.base.geo.hfwin, L.base.geo.hparin, L.base.geo.hseg⟩
      good := L.base.good, wf := L.base.wf, hl := L.base.hl, hl2 := L.base.hl2, hdone := L.base.hdone,
      hstat := L.base.hstat, herD := L.base.herD, hech := L.base.hech, herP := L.base.herP }
    marked := L.marked }

/-- `handle_segment` with a non-zero fragment number is `handle_block` on the 0-based index; `Done` raises the
    `complete` flag -/
theorem handleSegment_run (ffr : Bool) (idx1 : Nat) (bytes : List Nat) (h : idx1 ≠ 0) (s : Upd × Dev) :
    (handleSegment ffr idx1 bytes).run s =
      match (handleBlock ffr (idx1 - 1) bytes).run s with
      | (.ok (some true), s') => (.ok .complete, ({ s'.1 with complete := true }, s'.2))
      | (.ok _, s') => (.ok .consumed, s')
      | (.error e, s') => (.error e, s') := by
  unfold handleSegment
  simp only [h, ↓reduceIte, runU_bind]
  generalize (handleBlock ffr (idx1 - 1) bytes).run s = r
  obtain ⟨r, s'⟩ := r
  cases r with
  | error e => rfl
  | ok o =>
    cases o with
    | none => rfl
    | some b => cases b <;> rfl

/-- a whole session: the fragments `frag (idx1 - 1)` delivered under the 1-based numbers `is` -/
def session (ffr : Bool) (frag : Nat → List Nat) : List Nat → Upd × Dev → List (Except MErr Outcome) × (Upd × Dev)
  | [], s => ([], s)
  | idx1 :: rest, s =>
    let r := (handleSegment ffr idx1 (frag (idx1 - 1))).run s
    let t := session ffr frag rest r.2
    (r.1 :: t.1, t.2)

/-- correspondence of session results: `FirmwareComplete` ↔ `Done`, `Consumed` ↔ `NeedMore` or `TooMany` -/
def OutCorr : Except MErr Outcome → Res → Prop
  | .ok .complete, .done _ => True
  | .ok .consumed, .needMore => True
  | .ok .consumed, .tooMany => True
  | _, _ => False

/-- pointwise correspondence of two result lists of the same length -/
def AllCorr : List (Except MErr Outcome) → List Res → Prop
  | [], [] => True
  | a :: as, b :: bs => OutCorr a b ∧ AllCorr as bs
  | _, _ => False

/-- **a session simulates a run of the model**: from related states, delivering the same fragments gives
    corresponding results, keeps the invariant and the static fields, and ends in related states -/
theorem session_sim (V : Variant) (ffr : Bool) (n bs maxL : Nat) (frag : Nat → List Nat)
    (hfrag : ∀ i, IsBytes (frag i) ∧ (frag i).length = bs) :
    ∀ (is : List Nat) (u : Upd) (d : Dev) (s : St), (∀ i ∈ is, i ≠ 0) →
      (∀ i ∈ is, (updaterRow ffr n (i - 1)).isSome = true) → Lawful u d →
      u.n = n → u.bs = bs → u.maxL = maxL → Fault.Eqv (abs (u, d)) s →
      Lawful (session ffr frag is (u, d)).2.1 (session ffr frag is (u, d)).2.2 ∧
      Fault.Eqv (abs (session ffr frag is (u, d)).2)
        (runBlocks V noFault (fun m => (updaterRow ffr n m).getD 0) 2048 maxL (fun i => bytesToNat (frag i)) s
          (is.map (· - 1))).1 ∧
      AllCorr (session ffr frag is (u, d)).1
        (runBlocks V noFault (fun m => (updaterRow ffr n m).getD 0) 2048 maxL (fun i => bytesToNat (frag i)) s
          (is.map (· - 1))).2 ∧
      Static u (session ffr frag is (u, d)).2.1 := by
  intro is
  induction is with
  | nil => intro u d s _ _ L _ _ _ hE; exact ⟨L, hE, trivial, Static.refl u⟩
  | cons idx1 is ih =>
    intro u d s hidx hrows L hn hbs hmaxL hE
    have h1 : idx1 ≠ 0 := hidx idx1 List.mem_cons_self
    have hidx' := fun i hi => hidx i (List.mem_cons_of_mem _ hi)
    have hrows' := fun i hi => hrows i (List.mem_cons_of_mem _ hi)
    obtain ⟨hfb, hfl⟩ := hfrag (idx1 - 1)
    obtain ⟨c1, c2, c3, c4⟩ := handleBlock_sim V ffr L (idx1 - 1) (frag (idx1 - 1)) hfb (by rw [hfl, hbs])
      (by rw [hn]; exact hrows idx1 List.mem_cons_self)
    rw [hn, hmaxL] at c1 c3
    have hsb : s.bs = u.bs := hE.2.1.symm
    obtain ⟨g1, g2⟩ := C18.handleBlock_congr V (fun m => (updaterRow ffr n m).getD 0) 2048 maxL (idx1 - 1)
      (bytesToNat (frag (idx1 - 1))) u.bs hE
    simp only [session, List.map_cons, runBlocks, hsb]
    rw [handleSegment_run ffr idx1 _ h1]
    generalize hr2 : (handleBlock ffr (idx1 - 1) (frag (idx1 - 1))).run (u, d) = r2 at c1 c2 c3 c4
    generalize hr0 : Recon.handleBlock V noFault (fun m => (updaterRow ffr n m).getD 0) 2048 maxL (abs (u, d))
      (idx1 - 1) (bytesToNat (frag (idx1 - 1))) u.bs = r0 at c1 c3 g1 g2
    generalize hr0' : Recon.handleBlock V noFault (fun m => (updaterRow ffr n m).getD 0) 2048 maxL s
      (idx1 - 1) (bytesToNat (frag (idx1 - 1))) u.bs = r0' at g1 g2
    obtain ⟨res2, u', d'⟩ := r2
    obtain ⟨s', res0⟩ := r0
    obtain ⟨s'', res0'⟩ := r0'
    simp only at c1 c2 c3 c4 g1 g2
    subst g1
    have hE' : Fault.Eqv (abs (u', d')) s'' := Fault.Eqv.trans c3 g2
    obtain ⟨k1, k2, k3, k4, k5, k6⟩ := c4
    -- case analysis on the flash-side result
    cases res2 with
    | error e => cases res0 <;> simp [ResCorr] at c1
    | ok o =>
      cases o with
      | none =>
        obtain ⟨a1, a2, a3, a4⟩ := ih u' d' s'' hidx' hrows' c2 (k3.trans hn) (k4.trans hbs) (k5.trans hmaxL) hE'
        dsimp only
        refine ⟨a1, a2, ⟨?_, a3⟩, ?_⟩
        · cases res0 <;> simp [ResCorr] at c1 <;> trivial
        · obtain ⟨b1, b2, b3, b4, b5, b6⟩ := a4
          exact ⟨b1.trans k1, b2.trans k2, b3.trans k3, b4.trans k4, b5.trans k5, b6.trans k6⟩
      | some b =>
        cases b with
        | false =>
          obtain ⟨a1, a2, a3, a4⟩ := ih u' d' s'' hidx' hrows' c2 (k3.trans hn) (k4.trans hbs) (k5.trans hmaxL) hE'
          dsimp only
          refine ⟨a1, a2, ⟨?_, a3⟩, ?_⟩
          · cases res0 <;> simp [ResCorr] at c1 <;> trivial
          · obtain ⟨b1, b2, b3, b4, b5, b6⟩ := a4
            exact ⟨b1.trans k1, b2.trans k2, b3.trans k3, b4.trans k4, b5.trans k5, b6.trans k6⟩
        | true =>
          obtain ⟨a1, a2, a3, a4⟩ := ih { u' with complete := true } d' s'' hidx' hrows' (c2.setComplete true)
            (k3.trans hn) (k4.trans hbs) (k5.trans hmaxL) hE'
          dsimp only
          refine ⟨a1, a2, ⟨?_, a3⟩, ?_⟩
          · cases res0 <;> simp [ResCorr] at c1 <;> trivial
          · obtain ⟨b1, b2, b3, b4, b5, b6⟩ := a4
            exact ⟨b1.trans k1, b2.trans k2, b3.trans k3, b4.trans k4, b5.trans k5, b6.trans k6⟩

end Fuota.Updater
