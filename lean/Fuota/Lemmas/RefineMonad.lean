import Fuota.Model.Updater
import Fuota.Lemmas.AdapterNor
/-!
# Running the device monad `M` on a device without armed injection: reads and programs
-/
namespace Fuota.Fs
open Fuota.Nor Fuota.FlashAdapters

/-- sequencing in `M`: run the first computation, stop at an error, otherwise continue on the new device -/
theorem run_bind {α β : Type} (x : M α) (f : α → M β) (d : Dev) :
    (x >>= f).run d = match x.run d with
      | (.ok a, d') => (f a).run d'
      | (.error e, d') => (.error e, d') := by
  have h : (x >>= f).run d = (match (x.run d) with | (a, s) => ExceptT.bindCont f a s) := rfl
  rw [h]
  generalize ExceptT.run x d = r
  obtain ⟨r, d'⟩ := r
  cases r <;> rfl

/-- `pure` returns its value and leaves the device alone -/
theorem run_pure {α : Type} (a : α) (d : Dev) : (pure a : M α).run d = (.ok a, d) := rfl
/-- `throw` returns the error and leaves the device alone -/
theorem run_throw {α : Type} (e : MErr) (d : Dev) : (throw e : M α).run d = (.error e, d) := rfl
/-- `get` returns the device -/
theorem run_get (d : Dev) : (get : M Dev).run d = (.ok d, d) := rfl
/-- `set` replaces the device -/
theorem run_set (d' d : Dev) : (set d' : M Unit).run d = (.ok (), d') := rfl

/-- no crash, fault or death armed or happened: every legal flash call succeeds -/
structure Good (d : Dev) : Prop where
  crash : d.crashAt = none
  fail : d.failAt = none
  alive : d.dead = false

/-- the device after a successful program of `bs` at `a` -/
def Dev.prog (d : Dev) (a : Nat) (bs : List Nat) : Dev :=
  { d with flash := d.flash.apply (.program a bs), ops := .program a bs :: d.ops, nmut := d.nmut + 1,
           needsSet := d.needsSet + (if d.flash.needsSet a bs then 1 else 0) }

/-- the flash after a successful program -/
@[simp] theorem Dev.prog_flash (d : Dev) (a : Nat) (bs : List Nat) :
    (d.prog a bs).flash = d.flash.apply (.program a bs) := rfl

/-- a program keeps the device free of injection -/
theorem Good.prog {d : Dev} (h : Good d) (a : Nat) (bs : List Nat) : Good (d.prog a bs) :=
  ⟨h.crash, h.fail, h.alive⟩

/-- a program keeps the device size -/
@[simp] theorem Dev.prog_size (d : Dev) (a : Nat) (bs : List Nat) : (d.prog a bs).flash.size = d.flash.size :=
  size_apply_program _ _ _

/-- an in-range read on a good device returns the stored bytes and changes nothing -/
theorem readTo_run {d : Dev} (h : Good d) (a len : Nat) (hb : a + len ≤ d.flash.size) :
    (readTo a len).run d = (.ok (d.flash.read a len), d) := by
  unfold readTo
  simp [run_bind, run_get, run_pure, h.alive, Flash.readChecked, hb]

/-- an in-range program on a good device succeeds and has exactly the effect of `Dev.prog` -/
theorem writeFrom_run {d : Dev} (h : Good d) (a : Nat) (bs : List Nat) (hb : a + bs.length ≤ d.flash.size) :
    (writeFrom a bs).run d = (.ok (), d.prog a bs) := by
  unfold writeFrom mutate
  have hb' : ¬ d.flash.size < a + bs.length := by omega
  simp [run_bind, run_get, run_set, h.alive, Flash.canProgram, hb', h.crash, h.fail, Dev.prog]

end Fuota.Fs

namespace Fuota.Updater
open Fuota.Fs

/-- sequencing in `MU`: as in `M`, with the in-memory updater carried along -/
theorem runU_bind {α β : Type} (x : MU α) (f : α → MU β) (s : Upd × Dev) :
    (x >>= f).run s = match x.run s with
      | (.ok a, s') => (f a).run s'
      | (.error e, s') => (.error e, s') := by
  have h : (x >>= f).run s = (match (x.run s) with | (a, t) => ExceptT.bindCont f a t) := rfl
  rw [h]
  generalize ExceptT.run x s = r
  obtain ⟨r, s'⟩ := r
  cases r <;> rfl

/-- `pure` in `MU` -/
theorem runU_pure {α : Type} (a : α) (s : Upd × Dev) : (pure a : MU α).run s = (.ok a, s) := rfl
/-- `throw` in `MU` -/
theorem runU_throw {α : Type} (e : MErr) (s : Upd × Dev) : (throw e : MU α).run s = (.error e, s) := rfl
/-- reading the in-memory updater -/
theorem runU_getU (s : Upd × Dev) : getU.run s = (.ok s.1, s) := rfl
/-- replacing the in-memory updater -/
theorem runU_setU (u : Upd) (s : Upd × Dev) : (setU u).run s = (.ok (), (u, s.2)) := rfl
/-- a device computation inside `MU` leaves the in-memory updater alone -/
theorem runU_liftM {α : Type} (x : M α) (s : Upd × Dev) :
    (liftM x).run s = ((x.run s.2).1, (s.1, (x.run s.2).2)) := rfl

end Fuota.Updater
