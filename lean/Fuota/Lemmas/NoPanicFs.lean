import Fuota.Lemmas.NoPanic
import Lean.Elab.Tactic
/-!
# `fs.rs` / `manager.rs` level: no operation panics; frame facts for slot-local writes
-/
namespace Fuota.NoPanic
open Fuota.Nor Fuota.Fs Fuota.Layout

/-- `g` has the geometry of `f` and differs from it only inside `[lo, hi)` -/
def Within (lo hi : Nat) (f g : Flash) : Prop :=
  g.block = f.block ∧ g.size = f.size ∧ ∀ x, (x < lo ∨ hi ≤ x) → g.byte x = f.byte x

theorem Within.refl (lo hi : Nat) (f : Flash) : Within lo hi f f := ⟨rfl, rfl, fun _ _ => rfl⟩

theorem Within.trans {lo hi : Nat} {f g k : Flash} (h1 : Within lo hi f g) (h2 : Within lo hi g k) :
    Within lo hi f k :=
  ⟨h2.1.trans h1.1, h2.2.1.trans h1.2.1, fun x hx => (h2.2.2 x hx).trans (h1.2.2 x hx)⟩

theorem Within.mono {lo hi lo' hi' : Nat} {f g : Flash} (h : Within lo hi f g) (hl : lo' ≤ lo) (hh : hi ≤ hi') :
    Within lo' hi' f g :=
  ⟨h.1, h.2.1, fun x hx => h.2.2 x (by omega)⟩

theorem within_program (f : Flash) (a : Nat) (bs : List Nat) :
    Within a (a + bs.length) f (f.apply (.program a bs)) :=
  ⟨apply_block _ _, apply_size _ _, fun x hx => apply_program_byte f a bs x hx⟩

theorem within_erase (f : Flash) (a : Nat) : Within a (a + f.block) f (f.apply (.erase a)) :=
  ⟨apply_block _ _, apply_size _ _, fun x hx => apply_erase_byte f a x hx⟩

/-- the area of slot `s` -/
def SlotW (s : Slot) (f g : Flash) : Prop := Within (s.idx * s.size) (s.idx * s.size + s.size) f g

/-- "never panics" for computations whose result is not needed -/
def NP {α} (x : M α) : Prop := ∀ d, wp x (fun _ _ => True) d

theorem NP.wp {α} {x : M α} (h : NP x) {Q : α → Dev → Prop} {d : Dev} (hq : ∀ a d', Q a d') : wp x Q d :=
  wp_mono (h d) (fun a d' _ => hq a d')

theorem np_pure {α} (a : α) : NP (pure a : M α) := fun _ => trivial
theorem np_throw {α} (e : MErr) (h : e ≠ .panic) : NP (throw e : M α) := fun _ => h
theorem np_bind {α β} {x : M α} {f : α → M β} (hx : NP x) (hf : ∀ a, NP (f a)) : NP (x >>= f) := by
  intro d; rw [wp_bind]; exact wp_mono (hx d) (fun a d' _ => hf a d')
theorem np_readTo (a len : Nat) : NP (readTo a len) := fun _ => readTo_spec _ _ trivial
theorem np_writeFrom (a : Nat) (bs : List Nat) : NP (writeFrom a bs) := fun _ => writeFrom_spec _ _ (fun _ _ => trivial)
theorem np_eraseBlock (a : Nat) : NP (eraseBlock a) := fun _ => eraseBlock_spec _ (fun _ _ _ => trivial)
theorem np_ite {α} {c : Prop} [Decidable c] {x y : M α} (hx : NP x) (hy : NP y) : NP (if c then x else y) := by
  split <;> assumption

theorem NP.noPanic {α} {x : M α} (h : NP x) : NoPanic x := fun d => wp_noPanic (h d)

/-! ## headers -/

/-- the header stored at address `a` -/
def hdrAt (f : Flash) (a : Nat) : Option Header := (parseHeader C (f.read a Consts.SLOT_HEADER_SIZE)).map (·.1)

theorem loadHeaderAt_spec {Q : Option Header → Dev → Prop} {d : Dev} (a : Nat)
    (h : Q (hdrAt d.flash a) d) : wp (loadHeaderAt a) Q d := by
  unfold loadHeaderAt
  simp only [wp_bind]
  exact readTo_spec _ _ (by simpa [wp_pure, hdrAt] using h)

theorem loadHeadersFrom_spec {Q : List (Option Header) → Dev → Prop} {d : Dev} (slotSize : Nat) (is : List Nat)
    (h : Q (is.map fun i => hdrAt d.flash (i * slotSize)) d) : wp (loadHeadersFrom slotSize is) Q d := by
  induction is generalizing Q with
  | nil => simpa [loadHeadersFrom, wp_pure] using h
  | cons i is ih =>
    simp only [loadHeadersFrom, wp_bind]
    apply loadHeaderAt_spec
    apply ih
    simpa [wp_pure] using h

/-- the headers `load_headers` returns -/
def hdrs (f : Flash) (n slotSize : Nat) : List (Option Header) :=
  (List.range n).map fun i => hdrAt f (i * slotSize)

theorem loadHeaders_spec {Q : List (Option Header) → Dev → Prop} {d : Dev} (n slotSize : Nat)
    (h : Q (hdrs d.flash n slotSize) d) : wp (loadHeaders n slotSize) Q d :=
  loadHeadersFrom_spec _ _ h

theorem np_loadHeaders (n slotSize : Nat) : NP (loadHeaders n slotSize) := fun _ => loadHeaders_spec _ _ trivial

theorem mem_indexed {hs : List (Option Header)} {i : Nat} {h : Header} (hm : (i, h) ∈ indexed hs) :
    hs[i]? = some (some h) := by
  simp only [indexed, List.mem_filterMap] at hm
  obtain ⟨⟨o, j⟩, hmem, hmap⟩ := hm
  cases o with
  | none => simp at hmap
  | some h' =>
    simp only [Option.map_some, Option.some.injEq, Prod.mk.injEq] at hmap
    obtain ⟨rfl, rfl⟩ := hmap
    simpa [List.mem_zipIdx_iff_getElem?] using hmem

theorem mem_indexed_hdrs {f : Flash} {n slotSize i : Nat} {h : Header} (hm : (i, h) ∈ indexed (hdrs f n slotSize)) :
    i < n ∧ hdrAt f (i * slotSize) = some h := by
  have := mem_indexed hm
  simp only [hdrs, List.getElem?_map] at this
  by_cases hi : i < n
  · simp [List.getElem?_range hi] at this
    exact ⟨hi, this⟩
  · rw [List.getElem?_eq_none (by simpa using hi)] at this
    simp at this

/-! ## slot operations -/

open Lean Elab Tactic Meta in
/-- `apply` with reducible, purely syntactic matching of the conclusion and no diagnostic on failure (the
    diagnostic of `apply` unfolds the model's arithmetic on 1024-sized literals); new goals are `intros`-ed -/
elab "apply_quiet " e:term : tactic => do
  let g ← getMainGoal
  g.withContext do
    let val ← elabTerm e none true
    let ty ← instantiateMVars (← inferType val)
    let (mvars, _, concl) ← withReducible (forallMetaTelescopeReducing ty)
    if ← withReducible (isDefEq concl (← g.getType)) then
      g.assign (mkAppN val mvars)
      let mut gs := #[]
      for m in mvars do
        unless ← m.mvarId!.isAssigned do
          let (_, g') ← m.mvarId!.intros
          gs := gs.push g'
      replaceMainGoal gs.toList
    else throwError "apply_quiet: no match"

/-- structural "never panics" steps; facts about sub-computations are passed as a list of lemmas -/
syntax "np_auto" ("[" term,* "]")? : tactic
macro_rules
  | `(tactic| np_auto) => `(tactic| np_auto [])
  | `(tactic| np_auto [$ts,*]) => do
    let alts ← ts.getElems.mapM fun t => `(tactic| apply_quiet $t)
    `(tactic| repeat' (first
      | apply_quiet np_bind | apply_quiet np_ite | apply_quiet np_pure | (apply_quiet np_throw; decide)
      | apply_quiet np_readTo | apply_quiet np_writeFrom | apply_quiet np_eraseBlock
      $[| $alts:tactic]*
      | split ))

theorem eraseFrom_spec {Q : Unit → Dev → Prop} (cur bsz k : Nat) {d : Dev} (hb : d.flash.block = bsz)
    (h : ∀ d', Within cur (cur + k * bsz) d.flash d'.flash → Q () d') : wp (eraseFrom cur bsz k) Q d := by
  induction k generalizing cur d Q with
  | zero => simp only [eraseFrom, wp_pure]; exact h _ (Within.refl _ _ _)
  | succ k ih =>
    simp only [eraseFrom, wp_bind]
    apply eraseBlock_spec
    intro _ d1 h1
    have w1 : Within cur (cur + bsz) d.flash d1.flash := by
      have := within_erase d.flash cur
      rw [hb] at this; rw [h1]; exact this
    apply ih (cur + bsz) (hb := by rw [w1.1, hb])
    intro d' w2
    apply h
    have e : cur + (k + 1) * bsz = cur + bsz + k * bsz := by rw [Nat.add_mul]; omega
    rw [e]
    exact (w1.mono (Nat.le_refl _) (by omega)).trans (w2.mono (by omega) (Nat.le_refl _))

theorem clear_spec {Q : Unit → Dev → Prop} (s : Slot) {d : Dev} (hb : 0 < d.flash.block)
    (hs : s.size % d.flash.block = 0) (h : ∀ d', SlotW s d.flash d'.flash → Q () d') : wp s.clear Q d := by
  unfold Slot.clear
  simp only [wp_bind, wp_get]
  rw [if_neg (by omega), if_neg (by simp [hs])]
  apply eraseFrom_spec _ _ _ rfl
  intro d' w
  apply h
  unfold SlotW
  rwa [Nat.div_mul_cancel (Nat.dvd_of_mod_eq_zero hs)] at w

theorem writeU32_length (w : Nat) : (writeU32 w).length = 4 := rfl

theorem writeWord_spec {Q : Unit → Dev → Prop} (s : Slot) (off w : Nat) {d : Dev}
    (h : ∀ d', Within (s.idx * s.size + off) (s.idx * s.size + off + 4) d.flash d'.flash → Q () d') :
    wp (s.writeWord off w) Q d := by
  unfold Slot.writeWord
  apply writeFrom_spec
  intro d' h'
  apply h
  rw [h']
  exact within_program d.flash _ (writeU32 w)

/-- a header-word write stays inside the slot -/
theorem writeWord_slot {Q : Unit → Dev → Prop} (s : Slot) (off w : Nat) {d : Dev} (ho : off + 4 ≤ s.size)
    (h : ∀ d', SlotW s d.flash d'.flash → Q () d') : wp (s.writeWord off w) Q d :=
  writeWord_spec s off w (fun d' w' => h d' (w'.mono (by omega) (by omega)))

theorem np_writeWord (s : Slot) (off w : Nat) : NP (s.writeWord off w) := np_writeFrom _ _

theorem np_readSegSize (s : Slot) : NP s.readSegSize := by unfold Slot.readSegSize; np_auto
theorem np_segmentSizeMut (s : Slot) : NP s.segmentSizeMut := by
  unfold Slot.segmentSizeMut; np_auto [np_readSegSize]
theorem np_segmentSize (s : Slot) : NP s.segmentSize := by
  unfold Slot.segmentSize; np_auto [np_readSegSize]
theorem np_numSegments (s : Slot) : NP s.numSegments := by unfold Slot.numSegments; np_auto
theorem np_markSegmentWritten (s : Slot) (i : Nat) : NP (s.markSegmentWritten i) := by
  unfold Slot.markSegmentWritten; np_auto
theorem np_writeSegment (s : Slot) (i : Nat) (buf : List Nat) : NP (s.writeSegment i buf) := by
  unfold Slot.writeSegment; np_auto [np_segmentSizeMut, np_markSegmentWritten]
theorem np_readSegment (s : Slot) (i len : Nat) : NP (s.readSegment i len) := by
  unfold Slot.readSegment; np_auto [np_segmentSize]
theorem np_writeRaw (s : Slot) (off : Nat) (buf : List Nat) : NP (s.writeRaw off buf) := by
  unfold Slot.writeRaw; np_auto
theorem np_readRaw (s : Slot) (off len : Nat) : NP (s.readRaw off len) := by
  unfold Slot.readRaw; np_auto

/-! ## the segment count word and the status table -/

/-- what `Slot::num_segments` reads at address `a` -/
def nsegAt (f : Flash) (a : Nat) : Nat :=
  match parseNseg C (Nor.le32 (f.read a 4)) with | some v => v | none => 0

theorem range28 : List.range 28 = [0,1,2,3,4,5,6,7,8,9,10,11,12,13,14,15,16,17,18,19,20,21,22,23,24,25,26,27] := by
  decide

/-- the count in a parsed header is the count `num_segments` re-reads from the same flash -/
theorem hdrAt_nseg {f : Flash} {a : Nat} {h : Header} (hh : hdrAt f a = some h) :
    nsegAt f (a + Consts.NSEG_OFFSET) = h.n := by
  unfold hdrAt at hh
  simp only [Consts.SLOT_HEADER_SIZE, Flash.read, range28, List.map, parseHeader, takeU32,
    Option.bind_eq_bind, Option.pure_def, Option.bind_some, Option.map_eq_some_iff, Option.bind_eq_some_iff] at hh
  obtain ⟨⟨h', r⟩, ⟨k, hk, sq, hsq, sz, hsz, n, hn, e, he, it, hit, b, hb, heq⟩, rfl⟩ := hh
  simp only [Option.some.injEq, Prod.mk.injEq] at heq
  obtain ⟨rfl, _⟩ := heq
  simp only [nsegAt, Consts.NSEG_OFFSET, Flash.read, Nor.le32]
  simp only [show List.range 4 = [0,1,2,3] from rfl, List.map, List.getD_cons_zero, List.getD_cons_succ,
    Nat.add_assoc, Nat.add_zero, Nat.reduceAdd]
  simp only [Layout.le32, Nat.add_assoc] at hn
  rw [hn]

theorem nsegAt_le (f : Flash) (a : Nat) : nsegAt f a ≤ MAX_SEGMENTS := by
  unfold nsegAt
  split
  · rename_i v hv
    simp only [parseNseg] at hv
    split at hv
    · cases hv; rename_i hc; exact hc.2
    · cases hv
  · exact Nat.zero_le _

theorem nsegAt_congr {f g : Flash} {a : Nat} (h : ∀ x, a ≤ x → x < a + 4 → g.byte x = f.byte x) :
    nsegAt g a = nsegAt f a := by
  unfold nsegAt; rw [read_congr f g a 4 h]

theorem numSegments_spec {Q : Nat → Dev → Prop} {d : Dev} (s : Slot)
    (h : Q (nsegAt d.flash (s.size * s.idx + Consts.NSEG_OFFSET)) d) : wp s.numSegments Q d := by
  unfold Slot.numSegments
  simp only [wp_bind]
  apply readTo_spec
  simp only [wp_pure]
  unfold nsegAt at h
  generalize parseNseg C _ = o at h ⊢
  cases o <;> exact h

theorem fillFrom_lt {mask start : Nat} {bs : List Nat} {m : Nat} (h : fillFrom mask start bs = .ok m)
    (hm : mask < 2 ^ start) : m < 2 ^ (start + bs.length) := by
  induction bs generalizing mask start with
  | nil => simp only [fillFrom] at h; cases h; simpa using hm
  | cons b bs ih =>
    simp only [fillFrom] at h
    have hp : (2:Nat) ^ start < 2 ^ (start + 1) := Nat.pow_lt_pow_right (by omega) (by omega)
    have e : start + (b :: bs).length = start + 1 + bs.length := by simp only [List.length_cons]; omega
    rw [e]
    split at h
    · exact ih h (Nat.or_lt_two_pow (Nat.lt_trans hm hp) hp)
    · split at h
      · exact ih h (Nat.lt_of_le_of_lt Nat.and_le_left (Nat.lt_trans hm hp))
      · cases h

theorem fillBitcache_spec {Q : Nat → Dev → Prop} (startAddr stride fuel addr remain mask : Nat) {d : Dev}
    (ha : startAddr ≤ addr) (hm : mask < 2 ^ (addr - startAddr))
    (h : ∀ m, m < 2 ^ (addr - startAddr + remain) → Q m d) :
    wp (fillBitcache startAddr stride fuel addr remain mask) Q d := by
  induction fuel generalizing addr remain mask with
  | zero =>
    simp only [fillBitcache, wp_pure]
    exact h _ (Nat.lt_of_lt_of_le hm (Nat.pow_le_pow_right (by omega) (by omega)))
  | succ fuel ih =>
    simp only [fillBitcache]
    split
    · simp only [wp_pure]
      exact h _ (Nat.lt_of_lt_of_le hm (Nat.pow_le_pow_right (by omega) (by omega)))
    · simp only [wp_bind]
      apply readTo_spec
      split
      · simp [wp_throw]
      · split
        · simp [wp_throw]
        · rename_i m hf
          have hl := fillFrom_lt hf hm
          rw [read_length] at hl
          apply ih (addr + min remain stride) (remain - min remain stride) m (by omega)
          · rwa [show addr + min remain stride - startAddr = addr - startAddr + min remain stride by omega]
          · intro m' hm'
            apply h
            rwa [show addr + min remain stride - startAddr + (remain - min remain stride)
                    = addr - startAddr + remain by omega] at hm'

/-- the `done` mask read back from flash only has bits below the segment count read from the same slot -/
theorem loadStatusArray_spec {Q : Nat → Dev → Prop} {d : Dev} (s : Slot) (stride : Nat)
    (h : ∀ m, m < 2 ^ nsegAt d.flash (s.size * s.idx + Consts.NSEG_OFFSET) → Q m d) :
    wp (s.loadStatusArray stride) Q d := by
  unfold Slot.loadStatusArray
  simp only [wp_bind]
  apply numSegments_spec
  apply fillBitcache_spec _ _ _ _ _ _ (Nat.le_refl _) (by simp)
  intro m hm
  apply h
  simpa using hm

/-! ## marks -/
theorem np_markExtAborted (s : Slot) : NP s.markExtAborted := np_writeWord _ _ _
theorem np_markExtComplete (s : Slot) : NP s.markExtComplete := np_writeWord _ _ _

/-! ## slot pair allocation -/

/-- **`alloc_slotpair`'s choice never fails** (the panicking `unwrap` of the pinned tree is gone) -/
theorem choosePair_ok (n : Nat) (hs : List (Option Header)) : ∃ r, choosePair n hs = .ok r := by
  simp only [choosePair]
  repeat' split
  all_goals exact ⟨_, rfl⟩

theorem allocSlotpair_spec {Q : Slot × Slot → Dev → Prop} (n slotSize : Nat) {d : Dev} (hb : 0 < d.flash.block)
    (hs : slotSize % d.flash.block = 0)
    (h : ∀ a b d', d'.flash.block = d.flash.block →
      Q ({ idx := a, size := slotSize }, { idx := b, size := slotSize }) d') :
    wp (allocSlotpair n slotSize) Q d := by
  unfold allocSlotpair
  simp only [wp_bind]
  apply loadHeaders_spec
  obtain ⟨⟨a, b, sa, sb⟩, hr⟩ := choosePair_ok n (hdrs d.flash n slotSize)
  rw [hr]
  simp only [wp_bind]
  apply clear_spec _ hb hs
  intro d1 w1
  apply clear_spec _ (by rw [w1.1]; exact hb) (by rw [w1.1]; exact hs)
  intro d2 w2
  apply writeWord_spec
  intro d3 w3
  apply writeWord_spec
  intro d4 w4
  simp only [wp_pure]
  exact h a b d4 (by rw [w4.1, w3.1, w2.1, w1.1])

end Fuota.NoPanic
