import Fuota.Lemmas.RefineLoops
/-!
# One `handle_block` call of the flash-backed reconstructor simulates one step of the model
-/
namespace Fuota.Recon
open Fuota.Gf2

/-- fault free, stage 2 of the model is `finishIf` of whatever state the elimination loop produced -/
theorem stage2_finishIf (P : Nat → Nat) (s : St) (index data : Nat) (s2 : St)
    (hl2 : s2.l ≤ (unknowns s2.done s2.n).length)
    (he : elim noFault s.l (pushLog s (stripLog (P index) s.done (List.range s.n))) (project s.done s.n (P index))
      (stripVal s (P index) data) = (s2, .ok)) : stage2 noFault P s index data = finishIf s2 := by
  unfold stage2 handleParity
  simp only [strip_spec, pushLog_l, pushLog_done, pushLog_n]
  unfold stripVal at he
  simp only [he]
  unfold finishIf
  by_cases hc : isComplete s2 = true
  · obtain ⟨e1, e2, _⟩ := foldl_finStep_frame (unknowns s2.done s2.n) (List.range s2.l) s2
    simp only [hc, ↓reduceIte, finish_spec s2 hl2, e1, e2]
  · have hc' : isComplete s2 = false := by simpa using hc
    simp only [hc', Bool.false_eq_true, ↓reduceIte]

end Fuota.Recon

namespace Fuota.Updater
open Fuota.Nor Fuota.Fs Fuota.FlashAdapters Fuota.Recon Fuota.Gf2

/-- stage 1 of the flash-backed `handle_block` -/
def stage1U (u : Upd) (index : Nat) (data : List Nat) : MU (Option Bool) := do
  if u.done.testBit index then return some (rcComplete u)
  let fw ← liftM (u.fw.writeSegment index data)
  let u := { u with fw := fw, done := u.done ||| 2 ^ index }
  setU u
  return some (rcComplete u)

/-- stage 2 of the flash-backed `handle_block` -/
def stage2U (ffr : Bool) (u : Upd) (index : Nat) (data : List Nat) : MU (Option Bool) := do
  let row ← match updaterRow ffr u.n index with
    | none => throw MErr.panic
    | some r => pure r
  let d ← liftM (strip u row (List.range u.n) data)
  let used ← liftM (elim u u.l (Recon.project u.done u.n row) d)
  let u := { u with used := used }
  setU u
  if rcComplete u then
    let u' ← liftM (finishOuter (Recon.unknowns u.done u.n) (List.range u.l) u)
    setU u'
    return some true
  else return some false

/-- the flash-backed `handle_block` with the right buffer length, decomposed like `Recon.handleBlock_eq` -/
theorem handleBlock_eqU (ffr : Bool) (u : Upd) (d : Dev) (index : Nat) (data : List Nat) (hlen : data.length = u.bs) :
    (handleBlock ffr index data).run (u, d) =
      if rcComplete u then (.ok (some true), (u, d)) else
      if u.n ≤ index ∧ u.l = 0 ∧ (VBITS < (unknowns u.done u.n).length ∨ u.maxL < (unknowns u.done u.n).length)
      then (.ok none, (u, d)) else
      if (if u.n ≤ index ∧ u.l = 0 then { u with l := (unknowns u.done u.n).length } else u).l = 0 then
        (stage1U (if u.n ≤ index ∧ u.l = 0 then { u with l := (unknowns u.done u.n).length } else u) index data).run
          ((if u.n ≤ index ∧ u.l = 0 then { u with l := (unknowns u.done u.n).length } else u), d)
      else
        (stage2U ffr (if u.n ≤ index ∧ u.l = 0 then { u with l := (unknowns u.done u.n).length } else u) index data).run
          ((if u.n ≤ index ∧ u.l = 0 then { u with l := (unknowns u.done u.n).length } else u), d) := by
  unfold handleBlock
  simp only [runU_bind, runU_getU, hlen, ne_eq, not_true_eq_false, ↓reduceIte]
  by_cases hc : rcComplete u = true
  · simp only [hc, ↓reduceIte]; rfl
  · simp only [hc, Bool.false_eq_true, ↓reduceIte]
    split
    · rfl
    · simp only [runU_bind, runU_setU]
      generalize (if u.n ≤ index ∧ u.l = 0 then { u with l := (unknowns u.done u.n).length } else u) = u1
      by_cases h : u1.l = 0
      · rw [if_pos h, if_pos h]; rfl
      · rw [if_neg h, if_neg h]; rfl

/-- correspondence of results: `some true` ↔ `Done`, `some false` ↔ `NeedMore`, `none` ↔ `TooMany`; an error on the
    flash side corresponds to nothing -/
def ResCorr : Except MErr (Option Bool) → Res → Prop
  | .ok (some true), .done _ => True
  | .ok (some false), .needMore => True
  | .ok none, .tooMany => True
  | _, _ => False

/-- states related by `Sim` agree on completeness -/
theorem Sim.complete {s : St} {u : Upd} {f : Flash} (h : Sim s u f) : isComplete s = rcComplete u := by
  obtain ⟨h1, _, h3, h4, h5, _⟩ := h
  simp only [isComplete, rcComplete, h1, h3, h4, h5]

/-- stage 2 on the flash simulates stage 2 of the model -/
theorem stage2_sim (ffr : Bool) {u : Upd} {d : Dev} (L : Lawful' (fun i => u.done.testBit i = false) u d)
    (hl0 : u.l ≠ 0) (index : Nat) (bytes : List Nat) (hb : IsBytes bytes) (hlen : bytes.length = u.bs)
    (r : Nat) (hrow : updaterRow ffr u.n index = some r) (P : Nat → Nat) (hP : P index = r)
    (s : St) (hS : Sim s u d.flash) :
    ResCorr ((stage2U ffr u index bytes).run (u, d)).1 (stage2 noFault P s index (bytesToNat bytes)).2 ∧
    Lawful ((stage2U ffr u index bytes).run (u, d)).2.1 ((stage2U ffr u index bytes).run (u, d)).2.2 ∧
    Sim (stage2 noFault P s index (bytesToNat bytes)).1 ((stage2U ffr u index bytes).run (u, d)).2.1
      ((stage2U ffr u index bytes).run (u, d)).2.2.flash ∧
    Static u ((stage2U ffr u index bytes).run (u, d)).2.1 := by
  obtain ⟨s1, s2, s3, s4, s5, s6, s7, s8⟩ := hS
  have hlU := L.hl2 hl0
  -- strip
  obtain ⟨out1, hrun1, hob1, hol1, hov1⟩ := strip_run L r (List.range u.n) bytes hb hlen
  -- elim
  have hrowbits : ∀ j, u.l ≤ j → (project u.done u.n r).testBit j = false := by
    intro j hj
    rw [testBit_project]
    have : ¬ j < (unknowns u.done u.n).length := by omega
    simp [this]
  obtain ⟨used', d', s', hrunE, hrunE0, hS', hL'⟩ := elim_sim L u.l
    (Recon.pushLog s (stripLog r s.done (List.range s.n))) (project u.done u.n r) out1
    ⟨s1, s2, s3, s4, s5, s6, s7, s8⟩ (Nat.le_refl _) hrowbits hob1 hol1
  obtain ⟨t1, t2, t3, t4, t5, t6, t7, t8⟩ := hS'
  -- the model side
  have hval : stripVal s r (bytesToNat bytes) = bytesToNat out1 := by
    unfold stripVal
    rw [hov1, s1, s4]
    congr 1
    exact comboL_congr _ _ _ _ _ (fun _ _ => rfl) (fun j _ _ => s6 j)
  have h0 : stage2 noFault P s index (bytesToNat bytes) = finishIf s' := by
    apply stage2_finishIf
    · show s'.l ≤ (unknowns s'.done s'.n).length
      rw [t3, t4, t1]; exact Nat.le_of_eq hlU
    · rw [s4, s1] at hrunE0
      rw [hP, hval, s3, s4, s1]; exact hrunE0
  rw [h0]
  have hcomp : isComplete s' = rcComplete { u with used := used' } :=
    Sim.complete ⟨t1, t2, t3, t4, t5, t6, t7, t8⟩
  -- the flash side
  unfold stage2U
  simp only [hrow, runU_bind, runU_pure, runU_liftM, hrun1, hrunE, runU_setU]
  unfold finishIf
  by_cases hc : rcComplete { u with used := used' } = true
  · rw [if_pos hc, if_pos (hcomp.trans hc)]
    have hall : ∀ p, p < u.l → used'.testBit p = true := by
      intro p hp
      have h1 := (isComplete_stage2 s' (by rw [t3]; exact hl0)).1 (hcomp.trans hc) p (by rw [t3]; exact hp)
      rw [t5] at h1; exact h1
    have hF0 : FinL { u with used := used' } d' (unknowns u.done u.n) 0 :=
      ⟨hL'.mono (fun k hk => hk.1), fun j hj => by omega⟩
    obtain ⟨d'', hrunF, hSF, hFF⟩ := finishOuter_sim (u := { u with used := used' }) hlU hall u.l 0 s' d' hF0
      ⟨t1, t2, t3, t4, t5, t6, t7, t8⟩ (by simp)
    rw [← List.range_eq_range'] at hrunF hSF
    simp only [runU_bind, runU_liftM, hrunF, runU_setU, runU_pure]
    refine ⟨trivial, ⟨?_, ?_⟩, ?_, Static.refl u⟩
    · exact hFF.law.mono (fun k hk => by rw [hc] at hk; cases hk.1)
    · intro _ m hm
      show d''.flash.byte (statAddr u m) = 0x33
      by_cases hdm : u.done.testBit m = true
      · exact hFF.law.hstat m hdm
      · have hdm' : u.done.testBit m = false := by simpa using hdm
        have hmem : m ∈ unknowns u.done u.n := (mem_unknowns _ _ _).2 ⟨hm, hdm'⟩
        obtain ⟨j, hj, hjm⟩ := (mem_iff_nth _ _).1 hmem
        have := hFF.marked j (by omega)
        rwa [hjm] at this
    · show Sim ((List.range s'.l).foldl (finStep (unknowns s'.done s'.n)) s') _ d''.flash
      rw [t3, t4, t1]
      exact hSF
  · have hc' : rcComplete { u with used := used' } = false := by simpa using hc
    rw [if_neg hc, if_neg (by rw [hcomp, hc']; simp)]
    refine ⟨trivial, ⟨hL'.mono (fun k hk => hk.2), fun h => ?_⟩, ⟨t1, t2, t3, t4, t5, t6, t7, t8⟩, Static.refl u⟩
    exact absurd (show rcComplete { u with used := used' } = true from h) hc

/-- stage 1 on the flash simulates stage 1 of the model (either store order) -/
theorem stage1_sim (V : Variant) {u : Upd} {d : Dev} (L : Lawful u d) (hl0 : u.l = 0) (hinc : rcComplete u = false)
    (index : Nat) (hi : index < u.n) (bytes : List Nat) (hb : IsBytes bytes) (hlen : bytes.length = u.bs)
    (s : St) (hS : Sim s u d.flash) :
    ResCorr ((stage1U u index bytes).run (u, d)).1 (stage1 V noFault s index (bytesToNat bytes)).2 ∧
    Lawful ((stage1U u index bytes).run (u, d)).2.1 ((stage1U u index bytes).run (u, d)).2.2 ∧
    Sim (stage1 V noFault s index (bytesToNat bytes)).1 ((stage1U u index bytes).run (u, d)).2.1
      ((stage1U u index bytes).run (u, d)).2.2.flash ∧
    Static u ((stage1U u index bytes).run (u, d)).2.1 := by
  obtain ⟨s1, s2, s3, s4, s5, s6, s7, s8⟩ := hS
  have hcs : isComplete s = false := by
    rw [Sim.complete ⟨s1, s2, s3, s4, s5, s6, s7, s8⟩]; exact hinc
  unfold stage1U
  by_cases hd : u.done.testBit index = true
  · have hd0 : s.done.testBit index = true := by rw [s4]; exact hd
    simp only [hd, ↓reduceIte, runU_pure, hinc, stage1, hd0, hcs, Bool.false_eq_true]
    exact ⟨trivial, L, ⟨s1, s2, s3, s4, s5, s6, s7, s8⟩, Static.refl u⟩
  · have hd' : u.done.testBit index = false := by simpa using hd
    have hd0 : s.done.testBit index = false := by rw [s4]; exact hd'
    have her := L.base.herD index hi ⟨hinc, hd'⟩
    have hL' : Lawful' (fun i => rcComplete { u with done := u.done ||| 2 ^ index } = false ∧
          (u.done ||| 2 ^ index).testBit i = false)
        { u with done := u.done ||| 2 ^ index } (afterWriteSegment u d index bytes) := by
      refine L.base.writeSegment hi ⟨hinc, hd'⟩ bytes hb hlen (u.done ||| 2 ^ index) ?_ ?_ (fun h => absurd hl0 h)
      · intro k hk
        have hk2 := hk.2
        simp only [testBit_or_two_pow, Bool.or_eq_false_iff, decide_eq_false_iff_not] at hk2
        exact ⟨⟨hinc, hk2.1⟩, fun e => hk2.2 e.symm⟩
      · intro k hk
        simp only [testBit_or_two_pow, Bool.or_eq_true, decide_eq_true_eq] at hk
        exact hk.elim Or.inl (fun e => Or.inr e.symm)
    have hL'' : Lawful { u with done := u.done ||| 2 ^ index } (afterWriteSegment u d index bytes) :=
      ⟨hL', fun hcomp m hm => hL'.hstat m
        ((rcComplete_stage1 { u with done := u.done ||| 2 ^ index } hl0).1 hcomp m hm)⟩
    obtain ⟨hds, hps, hms⟩ := seg_write_vals L.base.geo L.base.wf hi her bytes hb hlen
    have hS' : Sim { pushLog s [.dStore index (bytesToNat bytes)] with
          ds := (index, bytesToNat bytes) :: s.ds, done := s.done ||| 2 ^ index }
        { u with done := u.done ||| 2 ^ index } (afterWriteSegment u d index bytes).flash := by
      refine ⟨s1, s2, s3, by simp [s4], s5, fun k => ?_, fun k => ?_, fun k => ?_⟩
      · show Recon.get ((index, bytesToNat bytes) :: s.ds) k = _
        rw [Recon.get_cons, s6]; exact (hds k).symm
      · show Recon.get s.ps k = _
        rw [s7]; exact (hps k).symm
      · show Recon.get s.ms k = _
        rw [s8]; exact (hms k).symm
    rw [stage1_noFault V s index _ hd0]
    simp only [hd', Bool.false_eq_true, ↓reduceIte, runU_bind, runU_liftM,
      writeSegment_run L.base.geo L.base.good hi bytes hlen, runU_setU, runU_pure]
    refine ⟨?_, hL'', hS', ⟨rfl, rfl, rfl, rfl, rfl, rfl⟩⟩
    rw [Sim.complete hS']
    cases rcComplete { u with done := u.done ||| 2 ^ index } <;> trivial

/-- the simulation step for any model state with the contents of the flash -/
theorem handleBlock_sim_gen (V : Variant) (ffr : Bool) {u : Upd} {d : Dev} (L : Lawful u d) (index : Nat)
    (bytes : List Nat) (hb : IsBytes bytes) (hlen : bytes.length = u.bs)
    (hrow : (updaterRow ffr u.n index).isSome = true) (s : St) (hS : Sim s u d.flash) :
    ResCorr ((handleBlock ffr index bytes).run (u, d)).1
      (Recon.handleBlock V noFault (fun m => (updaterRow ffr u.n m).getD 0) 2048 u.maxL s index
        (bytesToNat bytes) s.bs).2 ∧
    Lawful ((handleBlock ffr index bytes).run (u, d)).2.1 ((handleBlock ffr index bytes).run (u, d)).2.2 ∧
    Sim (Recon.handleBlock V noFault (fun m => (updaterRow ffr u.n m).getD 0) 2048 u.maxL s index
        (bytesToNat bytes) s.bs).1 ((handleBlock ffr index bytes).run (u, d)).2.1
      ((handleBlock ffr index bytes).run (u, d)).2.2.flash ∧
    Static u ((handleBlock ffr index bytes).run (u, d)).2.1 := by
  obtain ⟨s1, s2, s3, s4, s5, s6, s7, s8⟩ := hS
  have hS : Sim s u d.flash := ⟨s1, s2, s3, s4, s5, s6, s7, s8⟩
  have hc0 : isComplete s = rcComplete u := Sim.complete hS
  rw [handleBlock_eqU ffr u d index bytes hlen, Recon.handleBlock_eq]
  by_cases hc : rcComplete u = true
  · rw [if_pos hc, if_pos (hc0.trans hc)]
    exact ⟨trivial, L, hS, Static.refl u⟩
  have hinc : rcComplete u = false := by simpa using hc
  have hcs : isComplete s = false := by rw [hc0]; exact hinc
  have hcs' : ¬ isComplete s = true := by rw [hcs]; simp
  rw [if_neg hc, if_neg hcs']
  by_cases hpar : u.n ≤ index ∧ u.l = 0
  · have hpar0 : s.n ≤ index ∧ s.l = 0 := by rw [s1, s3]; exact hpar
    by_cases hcap : VBITS < (unknowns u.done u.n).length ∨ u.maxL < (unknowns u.done u.n).length
    · have hr2 : u.n ≤ index ∧ u.l = 0 ∧
          (VBITS < (unknowns u.done u.n).length ∨ u.maxL < (unknowns u.done u.n).length) := ⟨hpar.1, hpar.2, hcap⟩
      have hr0 : s.n ≤ index ∧ s.l = 0 ∧
          (2048 < (unknowns s.done s.n).length ∨ u.maxL < (unknowns s.done s.n).length) :=
        ⟨hpar0.1, hpar0.2, by rw [s4, s1]; exact hcap⟩
      rw [if_pos hr2, if_pos hr0]
      exact ⟨trivial, L, hS, Static.refl u⟩
    · have hr2 : ¬ (u.n ≤ index ∧ u.l = 0 ∧
          (VBITS < (unknowns u.done u.n).length ∨ u.maxL < (unknowns u.done u.n).length)) := fun h => hcap h.2.2
      have hr0 : ¬ (s.n ≤ index ∧ s.l = 0 ∧
          (2048 < (unknowns s.done s.n).length ∨ u.maxL < (unknowns s.done s.n).length)) :=
        fun h => hcap (by have := h.2.2; rwa [s4, s1] at this)
      rw [if_neg hr2, if_neg hr0]
      simp only [if_pos hpar, if_pos hpar0]
      have hne0 : (unknowns s.done s.n).length ≠ 0 := unknowns_length_ne_zero s hpar0.2 hcs
      have hne : (unknowns u.done u.n).length ≠ 0 := by rw [← s4, ← s1]; exact hne0
      rw [if_neg hne, if_neg hne0]
      have hnoused : ∀ p, u.used.testBit p = true → False := fun p hp => by
        have := (L.base.hech p hp).1; omega
      have L1 : Lawful' (fun i => u.done.testBit i = false) { u with l := (unknowns u.done u.n).length } d := {
        geo := ⟨L.base.geo.hbs, L.base.geo.hn, L.base.geo.hfit, L.base.geo.hsz, L.base.geo.hmaxL, L.base.geo.hmo,
          L.base.geo.hne, L.base.geo.hfwin, L.base.geo.hparin, L.base.geo.hseg⟩
        good := L.base.good, wf := L.base.wf
        hl := by show (unknowns u.done u.n).length ≤ u.maxL; omega
        hl2 := fun _ => rfl
        hdone := L.base.hdone, hstat := L.base.hstat
        herD := fun i hi he => L.base.herD i hi ⟨hinc, he⟩
        hech := fun p hp => (hnoused p hp).elim
        herP := L.base.herP }
      obtain ⟨r, hr⟩ := Option.isSome_iff_exists.1 hrow
      exact stage2_sim (u := { u with l := (unknowns u.done u.n).length }) ffr L1 hne index bytes hb hlen r hr
        (fun m => (updaterRow ffr u.n m).getD 0) (by show (updaterRow ffr u.n index).getD 0 = r; rw [hr]; rfl)
        { s with l := (unknowns s.done s.n).length }
        ⟨s1, s2, by show (unknowns s.done s.n).length = (unknowns u.done u.n).length; rw [s4, s1], s4, s5, s6, s7, s8⟩
  · have hpar0 : ¬ (s.n ≤ index ∧ s.l = 0) := by rw [s1, s3]; exact hpar
    have hr2 : ¬ (u.n ≤ index ∧ u.l = 0 ∧
        (VBITS < (unknowns u.done u.n).length ∨ u.maxL < (unknowns u.done u.n).length)) :=
      fun h => hpar ⟨h.1, h.2.1⟩
    have hr0 : ¬ (s.n ≤ index ∧ s.l = 0 ∧
        (2048 < (unknowns s.done s.n).length ∨ u.maxL < (unknowns s.done s.n).length)) :=
      fun h => hpar0 ⟨h.1, h.2.1⟩
    rw [if_neg hr2, if_neg hr0]
    simp only [if_neg hpar, if_neg hpar0]
    by_cases hl0 : u.l = 0
    · rw [if_pos hl0, if_pos (s3.trans hl0)]
      have hi : index < u.n := by
        have : ¬ u.n ≤ index := fun h => hpar ⟨h, hl0⟩
        omega
      exact stage1_sim V L hl0 hinc index hi bytes hb hlen s hS
    · have hl0s : ¬ s.l = 0 := by rw [s3]; exact hl0
      rw [if_neg hl0, if_neg hl0s]
      obtain ⟨r, hr⟩ := Option.isSome_iff_exists.1 hrow
      exact stage2_sim ffr (L.base.mono (fun i hi => ⟨hinc, hi⟩)) hl0 index bytes hb hlen r hr
        (fun m => (updaterRow ffr u.n m).getD 0) (by show (updaterRow ffr u.n index).getD 0 = r; rw [hr]; rfl) s hS

/-- **the simulation step**: on a state satisfying the session invariant, one `handle_block` call of the
    flash-backed reconstructor (block of the right length, made of bytes, row generator defined at this index)
    and one step of the model from the abstraction give corresponding results; the invariant holds again; and the
    new abstraction has the same contents as the model's new state -/
theorem handleBlock_sim (V : Variant) (ffr : Bool) {u : Upd} {d : Dev} (L : Lawful u d) (index : Nat)
    (bytes : List Nat) (hb : IsBytes bytes) (hlen : bytes.length = u.bs)
    (hrow : (updaterRow ffr u.n index).isSome = true) :
    ResCorr ((handleBlock ffr index bytes).run (u, d)).1
      (Recon.handleBlock V noFault (fun m => (updaterRow ffr u.n m).getD 0) 2048 u.maxL (abs (u, d)) index
        (bytesToNat bytes) u.bs).2 ∧
    Lawful ((handleBlock ffr index bytes).run (u, d)).2.1 ((handleBlock ffr index bytes).run (u, d)).2.2 ∧
    Fault.Eqv (abs ((handleBlock ffr index bytes).run (u, d)).2)
      (Recon.handleBlock V noFault (fun m => (updaterRow ffr u.n m).getD 0) 2048 u.maxL (abs (u, d)) index
        (bytesToNat bytes) u.bs).1 ∧
    Static u ((handleBlock ffr index bytes).run (u, d)).2.1 := by
  obtain ⟨h1, h2, h3, h4⟩ := handleBlock_sim_gen V ffr L index bytes hb hlen hrow (abs (u, d)) (sim_abs u d)
  exact ⟨h1, h2, Fault.Eqv.symm ((sim_iff_eqv _ _ _).1 h3), h4⟩

end Fuota.Updater
