import Fuota.Lemmas.RingFlashSim
import Fuota.Lemmas.RefineCrashDev
/-!
# Ring ↔ flash, part 6: exact runs of the device monad on a live device with at most one power loss armed

`CR T B x a ops`: on every live device (no fault pending; no crash armed, or one clean power loss armed before a later
mutating operation) of size `T` and erase-block size `B`, `x` emits exactly `ops` and returns `a` — or, when the
power loss falls before the `j`-th of these operations, fails after exactly `ops.take j`, leaving the device dead.
-/
namespace Fuota.RingRun
open Fuota.Nor Fuota.Fs Fuota.Layout Fuota.Updater Fuota.Ops

variable {α β : Type}

/-- alive, no transient fault pending, and no power loss armed or a clean one armed for a later operation -/
structure Live (e : Dev) : Prop where
  alive : e.dead = false
  noFault : e.failAt = none
  crash : e.crashAt = none ∨ ∃ k, e.crashAt = some (e.nmut + k, none)

/-- the armed power loss falls before operation number `j < len` of the next `len` mutating operations -/
def cutAt (e : Dev) (len : Nat) : Option Nat :=
  match e.crashAt with
  | some (k, _) => if k - e.nmut < len then some (k - e.nmut) else none
  | none => none

/-- the device a clean power loss leaves behind -/
def dieAfter (e : Dev) (ops : List Op) : Dev := { pushAll e ops with dead := true }

/-- what running a computation that would emit `ops` does to the device -/
def outcome (e : Dev) (a : α) (ops : List Op) : Except MErr α × Dev :=
  match cutAt e ops.length with
  | none => (.ok a, pushAll e ops)
  | some j => (.error (.spi .custom), dieAfter e (ops.take j))

def CR (T B : Nat) (x : M α) (a : α) (ops : List Op) : Prop :=
  ∀ e : Dev, Live e → e.flash.size = T → e.flash.block = B → x.run e = outcome e a ops

theorem pushAll_nmut (e : Dev) (ops : List Op) : (pushAll e ops).nmut = e.nmut + ops.length := by
  induction ops generalizing e with
  | nil => rfl
  | cons op ops ih => show (pushAll (push e op) ops).nmut = _; rw [ih]; show e.nmut + 1 + _ = _; simp; omega

theorem pushAll_crashAt (e : Dev) (ops : List Op) : (pushAll e ops).crashAt = e.crashAt := by
  induction ops generalizing e with
  | nil => rfl
  | cons op ops ih => show (pushAll (push e op) ops).crashAt = _; rw [ih]; rfl

theorem pushAll_failAt (e : Dev) (ops : List Op) : (pushAll e ops).failAt = e.failAt := by
  induction ops generalizing e with
  | nil => rfl
  | cons op ops ih => show (pushAll (push e op) ops).failAt = _; rw [ih]; rfl

theorem pushAll_dead (e : Dev) (ops : List Op) : (pushAll e ops).dead = e.dead := by
  induction ops generalizing e with
  | nil => rfl
  | cons op ops ih => show (pushAll (push e op) ops).dead = _; rw [ih]; rfl

theorem cutAt_zero (e : Dev) : cutAt e 0 = none := by
  unfold cutAt
  split
  · simp
  · rfl

/-- a computation that changes nothing and returns `a` on live devices -/
theorem CR.silent {T B : Nat} {x : M α} {a : α}
    (h : ∀ e : Dev, e.dead = false → e.flash.size = T → e.flash.block = B → x.run e = (.ok a, e)) : CR T B x a [] := by
  intro e he hT hB
  unfold outcome
  rw [List.length_nil, cutAt_zero]
  exact h e he.alive hT hB

theorem CR.pure {T B : Nat} (a : α) : CR T B (pure a : M α) a [] := CR.silent (fun _ _ _ _ => rfl)

/-- the device stays live while the armed power loss is not reached -/
theorem live_pushAll {e : Dev} (he : Live e) (ops : List Op) (h : cutAt e ops.length = none) : Live (pushAll e ops) := by
  refine ⟨by rw [pushAll_dead]; exact he.alive, by rw [pushAll_failAt]; exact he.noFault, ?_⟩
  rw [pushAll_crashAt, pushAll_nmut]
  rcases he.crash with hc | ⟨k, hc⟩
  · exact Or.inl hc
  · right
    unfold cutAt at h
    rw [hc] at h
    simp only at h
    have : ¬ (e.nmut + k - e.nmut < ops.length) := by
      intro hlt; rw [if_pos hlt] at h; cases h
    refine ⟨k - ops.length, ?_⟩
    rw [hc]
    congr 2
    omega

theorem cutAt_append_none {e : Dev} (he : Live e) (o1 o2 : List Op) (h1 : cutAt e o1.length = none) :
    cutAt e (o1 ++ o2).length = (cutAt (pushAll e o1) o2.length).map (· + o1.length) := by
  unfold cutAt at *
  rw [pushAll_crashAt, pushAll_nmut, List.length_append]
  rcases he.crash with hc | ⟨k, hc⟩
  · rw [hc]; rfl
  · rw [hc] at h1 ⊢
    simp only at h1 ⊢
    have : ¬ (e.nmut + k - e.nmut < o1.length) := by
      intro hlt; rw [if_pos hlt] at h1; cases h1
    by_cases h2 : e.nmut + k - (e.nmut + o1.length) < o2.length
    · rw [if_pos h2, if_pos (by omega)]
      simp only [Option.map_some, Option.some.injEq]
      omega
    · rw [if_neg h2, if_neg (by omega)]
      rfl

theorem cutAt_append_some {e : Dev} (o1 o2 : List Op) {j : Nat} (h1 : cutAt e o1.length = some j) :
    cutAt e (o1 ++ o2).length = some j ∧ j < o1.length := by
  unfold cutAt at *
  rw [List.length_append]
  split at h1
  · rename_i k tr hc
    by_cases h2 : k - e.nmut < o1.length
    · rw [if_pos h2] at h1
      simp only [Option.some.injEq] at h1
      subst h1
      exact ⟨by rw [if_pos (by omega)], h2⟩
    · rw [if_neg h2] at h1; cases h1
  · cases h1

/-- sequencing -/
theorem CR.bind {T B : Nat} {x : M α} {f : α → M β} {a : α} {b : β} {o1 o2 : List Op}
    (hx : CR T B x a o1) (hf : CR T B (f a) b o2) : CR T B (x >>= f) b (o1 ++ o2) := by
  intro e he hT hB
  rw [Ops.run_bind, hx e he hT hB]
  unfold outcome
  cases h1 : cutAt e o1.length with
  | none =>
    simp only
    have hl := live_pushAll he o1 h1
    rw [hf _ hl (by rw [pushAll_size]; exact hT) (by rw [pushAll_block]; exact hB)]
    unfold outcome
    rw [cutAt_append_none he o1 o2 h1]
    cases h2 : cutAt (pushAll e o1) o2.length with
    | none => simp only [Option.map_none]; rw [pushAll_append]
    | some j =>
      simp only [Option.map_some]
      have ht : (o1 ++ o2).take (j + o1.length) = o1 ++ o2.take j := by
        rw [Nat.add_comm]; exact RingFlash.take_add_append o1 o2 j
      unfold dieAfter
      rw [ht, pushAll_append]
  | some j =>
    obtain ⟨h2, hj⟩ := cutAt_append_some o1 o2 h1
    simp only
    rw [h2]
    simp only
    rw [List.take_append, show j - o1.length = 0 by omega, List.take_zero, List.append_nil]

/-- one mutating operation -/
theorem mutate_cr (e : Dev) (he : Live e) (op : Op) : (mutate op).run e = outcome e () [op] := by
  obtain ⟨ha, hf, hcr⟩ := he
  obtain ⟨fl, lg, nm, ca, fa, de, ns⟩ := e
  simp only at ha hf hcr
  subst ha; subst hf
  unfold mutate outcome cutAt
  dsimp only
  simp only [throw_bind]
  rw [Ops.run_bind, Ops.run_get]
  dsimp only
  rcases hcr with hc | ⟨k, hc⟩
  · subst hc
    simp only [reduceCtorEq, ↓reduceIte]
    rw [Ops.run_set]
    cases op <;> rfl
  · subst hc
    simp only [List.length_cons, List.length_nil, Nat.zero_add]
    by_cases hk : k = 0
    · subst hk
      simp only [Nat.add_zero, ↓reduceIte, Nat.sub_self, Nat.lt_one_iff]
      cases op <;> rfl
    · have h1 : ¬ nm = nm + k := by omega
      have h2 : ¬ nm + k - nm < 1 := by omega
      simp only [h1, h2, reduceCtorEq, ↓reduceIte]
      rw [Ops.run_set]
      cases op <;> rfl

/-! ## the flash primitives and the slot accessors -/


theorem writeFrom_cr {T B : Nat} (a : Nat) (bs : List Nat) (hin : a + bs.length ≤ T) :
    CR T B (writeFrom a bs) () [.program a bs] := by
  intro e he hT hB
  rw [← mutate_cr e he]
  unfold writeFrom
  dsimp only
  simp only [throw_bind]
  rw [Ops.run_bind, Ops.run_get]
  dsimp only
  have hc : e.flash.canProgram a bs.length = true := by
    unfold Flash.canProgram; rw [hT]; simpa using hin
  simp only [he.alive, hc, Bool.false_eq_true, ↓reduceIte, Bool.not_true]

theorem eraseBlock_cr {T B : Nat} (a : Nat) (hal : a % B = 0) (hin : a + B ≤ T) :
    CR T B (eraseBlock a) () [.erase a] := by
  intro e he hT hB
  rw [← mutate_cr e he]
  unfold eraseBlock
  dsimp only
  simp only [throw_bind]
  rw [Ops.run_bind, Ops.run_get]
  dsimp only
  have h1 : (a % e.flash.block != 0) = false := by rw [hB]; simp [hal]
  have h2 : ¬ (a + e.flash.block > e.flash.size) := by rw [hB, hT]; omega
  simp only [he.alive, h1, h2, Bool.false_eq_true, ↓reduceIte]

theorem eraseFrom_cr {T B : Nat} : ∀ (k cur : Nat), cur % B = 0 → cur + k * B ≤ T →
    CR T B (eraseFrom cur B k) () (eraseOps cur B k) := by
  intro k
  induction k with
  | zero => intro cur _ _; exact CR.pure ()
  | succ k ih =>
    intro cur hal hin
    have e : (k + 1) * B = k * B + B := Nat.succ_mul k B
    unfold eraseFrom
    exact CR.bind (o1 := [.erase cur]) (eraseBlock_cr cur hal (by omega))
      (ih (cur + B) (by rw [Nat.add_mod, hal]; simp) (by omega))

theorem clear_cr {T B : Nat} (s : Slot) (hB : 0 < B) (hdiv : s.size % B = 0) (hin : s.idx * s.size + s.size ≤ T) :
    CR T B s.clear () (eraseOps (s.idx * s.size) B (s.size / B)) := by
  intro e he hT hBe
  have := eraseFrom_cr (T := T) (B := B) (s.size / B) (s.idx * s.size) (by rw [Nat.mul_mod, hdiv]; simp)
    (by have := Nat.div_mul_le_self s.size B; omega) e he hT hBe
  rw [← this]
  unfold Slot.clear
  dsimp only
  simp only [throw_bind]
  rw [Ops.run_bind, Ops.run_get]
  dsimp only
  rw [hBe]
  have h1 : ¬ B = 0 := by omega
  have h2 : (s.size % B != 0) = false := by simp [hdiv]
  simp only [h1, h2, Bool.false_eq_true, ↓reduceIte]

theorem writeWord_cr {T B : Nat} (s : Slot) (off w : Nat) (hin : s.idx * s.size + off + 4 ≤ T) :
    CR T B (s.writeWord off w) () [.program (s.idx * s.size + off) (writeU32 w)] :=
  writeFrom_cr _ _ hin

/-- reading all headers on a live device -/
theorem loadHeaders_live (nslots S : Nat) {d : Dev} (hd : d.dead = false) (hS : 28 ≤ S) (hin : nslots * S ≤ d.flash.size) :
    (loadHeaders nslots S).run d = (.ok (NoPanic.hdrs d.flash nslots S), d) := by
  have key : ∀ is : List Nat, (∀ i ∈ is, i < nslots) →
      (loadHeadersFrom S is).run d = (.ok (is.map fun i => NoPanic.hdrAt d.flash (i * S)), d) := by
    intro is
    induction is with
    | nil => intro _; rfl
    | cons i is ih =>
      intro h
      have hi := h i List.mem_cons_self
      have hb : i * S + 28 ≤ d.flash.size := by
        have : (i + 1) * S ≤ nslots * S := Nat.mul_le_mul_right _ hi
        rw [Nat.add_mul] at this; omega
      have hr : (loadHeaderAt (i * S)).run d = (.ok (NoPanic.hdrAt d.flash (i * S)), d) := by
        unfold loadHeaderAt
        rw [Ops.run_bind, readTo_run_live hd (i * S) Consts.SLOT_HEADER_SIZE hb]
        rfl
      unfold loadHeadersFrom
      rw [Ops.run_bind, hr]
      dsimp only
      rw [Ops.run_bind, ih (fun j hj => h j (List.mem_cons_of_mem _ hj))]
      rfl
  unfold loadHeaders
  exact key (List.range nslots) (fun i hi => List.mem_range.mp hi)


end Fuota.RingRun
