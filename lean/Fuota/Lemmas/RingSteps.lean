import Fuota.Lemmas.RingMachine
/-!
# Ring lemmas, part 10: the transitions of the machine as sequences of single-slot steps

Every transition of `succs` is a sequence of single-slot steps (`eraseStep`, `markStep`, `writeStep`) followed, for
the call that runs to its end, by a ghost-only finalisation. This is the form the invariant proofs use.
-/
namespace Fuota.Ring
open Fuota.Layout Fuota.Fs Fuota.Updater Fuota.Slots

/-- the ghost bookkeeping shared by all crash-prefix steps: slot `i` was touched -/
def untouched (i : Nat) (p : Nat × Nat) : Bool := !(i = p.1 || i = p.2)

def mustKeep (i : Nat) : Option (Nat × Nat) → Option (Nat × Nat)
  | some p => if (i = p.1 || i = p.2) then none else some p
  | none => none

/-- slot `i` is erased -/
def eraseStep (s : State) (i : Nat) : State :=
  { hs := s.hs.set i none, life := s.life.set i none, att := s.att.set i none, sess := none,
    live := s.live.filter (untouched i), must := mustKeep i s.must }

/-- the header of slot `i` is re-marked to `h` (cancel / remediation: ext := aborted) -/
def markStep (s : State) (i : Nat) (h : Header) : State :=
  { hs := s.hs.set i (some h),
    life := if h.ext = Ext.aborted ∧ s.life.getD i none = some Life.inProg then s.life.set i (some .aborted) else s.life,
    att := s.att, sess := none, live := s.live.filter (untouched i), must := mustKeep i s.must }

/-- a header appears in slot `i`, written by start attempt `id` -/
def writeStep (s : State) (i : Nat) (h : Header) (id : Nat) : State :=
  { hs := s.hs.set i (some h), life := s.life, att := s.att.set i (some id), sess := none,
    live := s.live.filter (untouched i), must := none }

/-- one effect of cancel / recovery -/
def effStep (s : State) (e : Eff) : State :=
  match e.2 with
  | none => eraseStep s e.1
  | some h => markStep s e.1 h

/-! ## start -/

theorem startSuccs_eq (c : Cfg) (s : State) {a b sa sb : Nat} (hc : choosePair c.n s.hs = .ok (a, b, sa, sb)) :
    (startSuccs c s).map (·.2) =
      let s1 := { eraseStep s b with must := none }
      let s2 := { eraseStep s1 a with must := none }
      let s3 := writeStep s2 a (fwHeader c.geom sa) (maxAtt s)
      let s4 := writeStep s3 b (parHeader c.geom sb) (maxAtt s)
      [s1, s2, s3,
       { s4 with sess := some (a, b), must := some (a, b), live := insertPair (a, b) s4.live,
                 life := (s4.life.set a (some .inProg)).set b (some .par) }] := by
  unfold startSuccs startEffs
  rw [hc]
  simp [List.range, List.range.loop, applyAll, apply1, eraseStep, writeStep, touches, untouched, mustKeep,
    List.filter_filter]
  refine ⟨?_, ?_⟩
  · congr 1
    funext x
    simp only [untouched, Bool.not_or]
  · congr 1
    funext x
    ac_rfl

/-! ## cancel / recovery runs -/

def lifeEff (l : List (Option Life)) (e : Eff) : List (Option Life) :=
  match e.2 with
  | none => l.set e.1 none
  | some h => if h.ext = Ext.aborted ∧ l.getD e.1 none = some Life.inProg then l.set e.1 (some .aborted) else l

def attEff (l : List (Option Nat)) (e : Eff) : List (Option Nat) :=
  match e.2 with
  | none => l.set e.1 none
  | some _ => l

theorem ghostEff_eq (s : State) (e : Eff) :
    ghostEff s e = { s with life := lifeEff s.life e, att := attEff s.att e } := by
  unfold ghostEff lifeEff attEff
  cases e.2 with
  | none => rfl
  | some h => simp only; split <;> rfl

theorem foldl_ghostEff_eq (es : List Eff) (s : State) :
    es.foldl ghostEff s = { s with life := es.foldl lifeEff s.life, att := es.foldl attEff s.att } := by
  induction es generalizing s with
  | nil => rfl
  | cons e es ih => simp only [List.foldl_cons]; rw [ih, ghostEff_eq]

theorem effStep_eq (s : State) (e : Eff) :
    effStep s e = { hs := apply1 s.hs e, life := lifeEff s.life e, att := attEff s.att e, sess := none,
                    live := s.live.filter (untouched e.1), must := mustKeep e.1 s.must } := by
  unfold effStep eraseStep markStep lifeEff attEff apply1
  cases e.2 with
  | none => rfl
  | some h => rfl

/-- the ghost fields of a crash prefix: filters accumulate -/
def mustKeepAll (es : List Eff) (m : Option (Nat × Nat)) : Option (Nat × Nat) := es.foldl (fun m e => mustKeep e.1 m) m

theorem foldl_effStep_eq (es : List Eff) (s : State) :
    es.foldl effStep s =
      { hs := applyAll s.hs es, life := es.foldl lifeEff s.life, att := es.foldl attEff s.att,
        sess := if es.isEmpty then s.sess else none,
        live := s.live.filter (fun p => !touches es p), must := mustKeepAll es s.must } := by
  induction es generalizing s with
  | nil =>
    have : s.live.filter (fun _ => true) = s.live := List.filter_eq_self.mpr (fun _ _ => rfl)
    simp [applyAll, touches, mustKeepAll, this]
  | cons e es ih =>
    simp only [List.foldl_cons]
    rw [ih, effStep_eq]
    simp only [applyAll, List.foldl_cons, mustKeepAll, List.isEmpty_cons, Bool.false_eq_true, ↓reduceIte,
      List.filter_filter, touches, List.any_cons, untouched]
    congr 1
    · split <;> rfl
    · congr 1
      funext x
      simp only [Bool.not_or, Bool.and_comm]

theorem mustKeepAll_eq (es : List Eff) (m : Option (Nat × Nat)) :
    mustKeepAll es m = match m with
      | some p => if touches es p then none else some p
      | none => none := by
  induction es generalizing m with
  | nil => cases m <;> simp [mustKeepAll, touches]
  | cons e es ih =>
    unfold mustKeepAll at ih ⊢
    simp only [List.foldl_cons]
    rw [ih]
    cases m with
    | none => rfl
    | some p =>
      simp only [mustKeep, touches, List.any_cons]
      by_cases h : (e.1 = p.1 || e.1 = p.2) = true
      · simp [h]
      · simp only [h, Bool.false_eq_true, ↓reduceIte, Bool.false_or]
        rfl



/-- the state a crash after the effects `done` of cancel / recovery leaves -/
def crashState (s : State) (done : List Eff) : State := done.foldl effStep { s with sess := none }

theorem prefix_crash_eq (s : State) (done : List Eff) :
    { (done.foldl ghostEff { s with hs := applyAll s.hs done }) with
        sess := none, live := s.live.filter (fun p => !touches done p),
        must := match s.must with
          | some p => if touches done p then none else some p
          | none => none } = crashState s done := by
  unfold crashState
  rw [foldl_effStep_eq, foldl_ghostEff_eq, mustKeepAll_eq]
  cases hm : s.must <;> simp

/-- the full run differs from the crash state only in the ghost fields the caller sets afterwards -/
theorem prefix_full_eq (s : State) (done : List Eff) (se : Option (Nat × Nat)) (lv : List (Nat × Nat))
    (mu : Option (Nat × Nat)) :
    { (done.foldl ghostEff { s with hs := applyAll s.hs done }) with sess := se, live := lv, must := mu } =
      { crashState s done with sess := se, live := lv, must := mu } := by
  unfold crashState
  rw [foldl_effStep_eq, foldl_ghostEff_eq]

theorem cancelSuccs_steps (c : Cfg) (s : State) : ∀ t ∈ cancelSuccs c s,
    ∃ k, t.2 = crashState s ((cancelEffs s.hs).take k) ∨
      t.2 = { crashState s (cancelEffs s.hs) with sess := none, live := [], must := none } := by
  intro t ht
  unfold cancelSuccs prefixRuns at ht
  simp only [List.mem_map] at ht
  obtain ⟨r, ⟨k, _, rfl⟩, rfl⟩ := ht
  refine ⟨k, ?_⟩
  simp only
  by_cases hk : k = (cancelEffs s.hs).length
  · right
    simp only [hk, decide_true, ↓reduceIte, List.take_length]
    exact prefix_full_eq s _ none [] none
  · left
    simp only [hk, decide_false, Bool.false_eq_true, ↓reduceIte]
    exact prefix_crash_eq s _

theorem recoverSuccs_steps (c : Cfg) (s : State) : ∀ t ∈ recoverSuccs c s,
    ∃ k, t.2 = crashState s ((c.recoverEffs s.hs).2.take k) ∨
      ((c.recoverEffs s.hs).1 = none ∧ t.2 = { crashState s (c.recoverEffs s.hs).2 with sess := none, live := [], must := none }) ∨
      (∃ r, (c.recoverEffs s.hs).1 = some r ∧
        t.2 = { crashState s (c.recoverEffs s.hs).2 with
                sess := some r, live := [r], must := (if s.must = some r then s.must else none) }) := by
  intro t ht
  unfold recoverSuccs prefixRuns at ht
  split at ht
  · rename_i es heq
    simp only [List.mem_map] at ht
    obtain ⟨r, ⟨k, _, rfl⟩, rfl⟩ := ht
    refine ⟨k, ?_⟩
    rw [heq]
    simp only
    by_cases hk : k = es.length
    · right; left
      simp only [hk, decide_true, ↓reduceIte, List.take_length, true_and]
      exact prefix_full_eq s _ none [] none
    · left
      simp only [hk, decide_false, Bool.false_eq_true, ↓reduceIte]
      exact prefix_crash_eq s _
  · rename_i r0 es heq
    simp only [List.mem_map] at ht
    obtain ⟨r, ⟨k, _, rfl⟩, rfl⟩ := ht
    refine ⟨k, ?_⟩
    rw [heq]
    simp only
    by_cases hk : k = es.length
    · right; right
      refine ⟨r0, rfl, ?_⟩
      simp only [hk, decide_true, ↓reduceIte, List.take_length]
      exact prefix_full_eq s _ (some r0) [r0] _
    · left
      simp only [hk, decide_false, Bool.false_eq_true, ↓reduceIte]
      exact prefix_crash_eq s _

/-! ## completion, bootloader / application marks -/


/-- state after the first completion mark (firmware header) -/
def complete1 (s : State) (f p : Nat) (h : Header) : State :=
  { s with hs := s.hs.set f (some { h with ext := .complete }), sess := none,
           live := s.live.filter (fun q => q ≠ (f, p)),
           must := (if s.must = some (f, p) then none else s.must),
           life := s.life.set f (some .copyPend) }

theorem completeSuccs_steps (s : State) : ∀ t ∈ completeSuccs s,
    ∃ f p h hp, s.sess = some (f, p) ∧ pending s = [] ∧ Used s.hs f h ∧ Used s.hs p hp ∧
      (t.2 = complete1 s f p h ∨
       t.2 = { complete1 s f p h with hs := (complete1 s f p h).hs.set p (some { hp with ext := .complete }) }) := by
  intro t ht
  unfold completeSuccs at ht
  split at ht
  · cases ht
  · rename_i f p hsess
    split at ht
    · cases ht
    · rename_i hpend
      split at ht
      · cases ht
      · rename_i es hes
        unfold completeEffs at hes
        split at hes
        · rename_i h hp hf hpp
          simp only [Option.some.injEq] at hes
          subst hes
          have hpe : pending s = [] := by
            cases hq : pending s with
            | nil => rfl
            | cons x xs => simp [hq] at hpend
          refine ⟨f, p, h, hp, hsess, hpe, getD_eq_some.mp hf, getD_eq_some.mp hpp, ?_⟩
          simp only [List.mem_cons, List.not_mem_nil, or_false] at ht
          rcases ht with rfl | rfl
          · left; rfl
          · right; rfl
        · cases hes

theorem blSuccs_steps (s : State) : ∀ t ∈ blSuccs s,
    ∃ i h, Used s.hs i h ∧
      ((blStatus s.hs = some (.inl i) ∧
          t.2 = { s with hs := s.hs.set i (some { h with ist := .complete }), life := s.life.set i (some .ackPend) }) ∨
       (blStatus s.hs = some (.inr i) ∧
          t.2 = { s with hs := s.hs.set i (some { h with boot := .successful }),
                         life := s.life.set i (some (.confirmed (maxRank s))) }) ∨
       (blStatus s.hs = some (.inr i) ∧
          t.2 = { s with hs := s.hs.set i (some { h with boot := .unsuccessful }), life := s.life.set i (some .rejected) })) := by
  intro t ht
  unfold blSuccs at ht
  simp only [List.mem_append] at ht
  rcases ht with (ht | ht) | ht
  · split at ht
    · rename_i e he
      simp only [List.mem_cons, List.not_mem_nil, or_false] at ht
      subst ht
      unfold copyDoneEff at he
      split at he
      · rename_i i hbl
        rw [Option.map_eq_some_iff] at he
        obtain ⟨h0, hg, rfl⟩ := he
        exact ⟨i, h0, getD_eq_some.mp hg, Or.inl ⟨hbl, rfl⟩⟩
      · cases he
    · cases ht
  · split at ht
    · rename_i e he
      simp only [List.mem_cons, List.not_mem_nil, or_false] at ht
      subst ht
      unfold confirmEff at he
      split at he
      · rename_i i hbl
        rw [Option.map_eq_some_iff] at he
        obtain ⟨h0, hg, rfl⟩ := he
        exact ⟨i, h0, getD_eq_some.mp hg, Or.inr (Or.inl ⟨hbl, rfl⟩)⟩
      · cases he
    · cases ht
  · split at ht
    · rename_i e he
      simp only [List.mem_cons, List.not_mem_nil, or_false] at ht
      subst ht
      unfold rejectEff at he
      split at he
      · rename_i i hbl
        rw [Option.map_eq_some_iff] at he
        obtain ⟨h0, hg, rfl⟩ := he
        exact ⟨i, h0, getD_eq_some.mp hg, Or.inr (Or.inr ⟨hbl, rfl⟩)⟩
      · cases he
    · cases ht

end Fuota.Ring
