import Fuota.Lemmas.RefineTornResume
import Fuota.Lemmas.RefineStartH
/-!
# The torn matrix-row scenario, step by step (two 32 KiB slots, two 1-byte fragments, coded fragment 3 first)
-/
namespace Fuota.Updater
open Fuota.Nor Fuota.Fs Fuota.FlashAdapters Fuota.Recon Fuota.Layout Fuota.Gf2

/-- a freshly started session of two 1-byte fragments (what `start_update 2 32768 1 2` establishes) -/
structure Fresh2 (u0 : Upd) (d0 : Dev) (sa sb : Nat) : Prop where
  lh : LawfulH u0 d0 sa sb
  hl : u0.l = 0
  hd : u0.done = 0
  hu : u0.used = 0
  hn : u0.n = 2
  hbs : u0.bs = 1
  hm : u0.maxL = 483

/-- the flash after the scenario's tear: block of pivot 1 programmed with the payload `9`, the row byte of pivot 1
    programmed with `0x01` instead of `0x00` -/
def tornFlash (u0 : Upd) (d0 : Dev) : Flash :=
  (d0.flash.apply (.program (pAddr u0 1) [9])).apply (.program (rAddr u0 1) [1])

/-- `stripF` without present blocks returns the buffer -/
theorem stripF_nodone' {u : Upd} (h : u.done = 0) (f : Flash) (row : Nat) : ∀ (is : List Nat) (d : List Nat),
    stripF u f row is d = d
  | [], _ => rfl
  | i :: is, d => by
    unfold stripF
    rw [h, Nat.zero_testBit, Bool.and_false, if_neg (by simp)]
    exact stripF_nodone' h f row is d

/-- **step 1: the torn delivery.** Coded fragment 3 (row `10`, payload `9`) is delivered first; the power is lost
inside the second program of the call (the matrix row of pivot 1, the single byte `0x00`) with tear `(0, 0x01)`. The
call answers the flash error, the device is dead, and the rebooted device holds `tornFlash`. -/
theorem witness_torn_call {u0 : Upd} {d0 : Dev} {sa sb : Nat} (F : Fresh2 u0 d0 sa sb) :
    ∃ e1, (handleSegment false 3 [9]).run (u0, d0.withTear 1 0 1) = (.error (.spi .custom), (adjU u0 2, e1)) ∧
      e1.dead = true ∧ Good e1.reboot ∧ e1.reboot.flash = tornFlash u0 d0 ∧ rcComplete (adjU u0 2) = false := by
  obtain ⟨LH, hl, hd, hu, hn, hbs, hm⟩ := F
  have L := LH.law
  have hinc : rcComplete u0 = false := by
    cases hc : rcComplete u0 with
    | false => rfl
    | true =>
      have := (rcComplete_stage1 u0 hl).1 hc 0 (by omega)
      rw [hd] at this; simp at this
  have hunk : (unknowns u0.done u0.n).length = 2 := by rw [hd, hn]; decide
  have hnt : ¬ tooManyCond u0 2 := by
    intro h
    have h3 := h.2.2
    rw [hunk, hm] at h3
    rcases h3 with h3 | h3
    · exact absurd h3 (by decide)
    · omega
  have hadjl : (adjU u0 2).l = 2 := by
    unfold adjU; rw [if_pos ⟨by omega, hl⟩]; exact hunk
  have hl0 : (adjU u0 2).l ≠ 0 := by rw [hadjl]; omega
  obtain ⟨f1, f2, f3, f4, f5, f6, f7, f8⟩ := adjU_fields u0 2
  obtain ⟨L1, hinc1⟩ := adjU_stage2 L hinc 2 hnt hl0
  have hbytes : IsBytes [9] := fun x hx => by rw [List.mem_singleton.1 hx]; decide
  have S : Stage2Store false (adjU u0 2) d0 2 [9] 2 1 2 [9] := by
    refine ⟨L1, hl0, hbytes, by rw [f4, hbs]; rfl, by rw [f3, hn]; decide +kernel, ?_⟩
    rw [stripF_nodone' (by rw [f5, hd]), hadjl, f5, f3, hd, hn, show project 0 2 2 = 2 from by decide]
    unfold elimF
    rw [f6, hu]
    simp [show Nat.testBit 2 1 = true from by decide]
  obtain ⟨_, ⟨e1, b1, b2, b3, b4⟩, _⟩ := S.run_torn 0 1
  refine ⟨e1, ?_, b2, b3, ?_, hinc1⟩
  · exact handleSegment_of_error false 3 [9] (by omega) (u0, d0.withTear 1 0 1) _ _ (by
      rw [show 3 - 1 = 2 from rfl, handleBlock_stage2_eq false u0 _ 2 [9] (by rw [hbs]; rfl) hinc hnt hl0]
      exact b1)
  · rw [b4]
    have hR : SameRegions u0 (adjU u0 2) := ⟨by rw [f1], by rw [f1], by rw [f2], by rw [f2], f3, f4, f7, f8⟩
    obtain ⟨_, _, a3, a4⟩ := hR.addrs
    rw [a3, a4]
    rfl

/-- the bytes of `tornFlash`: size, frame, the block byte `9`, the row byte `0x01` -/
theorem tornFlash_bytes {u0 : Upd} {d0 : Dev} {sa sb : Nat} (F : Fresh2 u0 d0 sa sb) :
    (tornFlash u0 d0).size = d0.flash.size ∧ WF (tornFlash u0 d0) ∧
    (∀ x, x ≠ pAddr u0 1 → x ≠ rAddr u0 1 → (tornFlash u0 d0).byte x = d0.flash.byte x) ∧
    (tornFlash u0 d0).byte (pAddr u0 1) = 9 ∧ (tornFlash u0 d0).byte (rAddr u0 1) = 1 := by
  obtain ⟨LH, hl, hd, hu, hn, hbs, hm⟩ := F
  have L := LH.law.base
  have g := L.geo
  obtain ⟨h1, h2, h3, h4, h5, h6, h7⟩ := g.slots
  obtain ⟨q1, q2, q3, q4⟩ := g.regions.2 1 (by rw [hm]; omega)
  obtain ⟨e1, e2⟩ := L.herP 1 (by rw [hm]; omega) (by rw [hu]; rfl)
  have ea := e1 (pAddr u0 1) (Nat.le_refl _) (by rw [hbs]; omega)
  have er := e2 (rAddr u0 1) (Nat.le_refl _) (by omega)
  unfold tornFlash
  refine ⟨by rw [size_apply_program, size_apply_program],
    WF_apply_program (WF_apply_program L.wf _ _) _ _, fun x hx1 hx2 => ?_, ?_, ?_⟩
  · rw [byte_apply_program_of_not_mem _ _ _ _ (by simp only [List.length_singleton]; omega),
      byte_apply_program_of_not_mem _ _ _ _ (by simp only [List.length_singleton]; omega)]
  · rw [byte_apply_program_of_not_mem _ _ _ _ (by simp only [List.length_singleton]; omega),
      byte_apply_program_of_mem _ _ _ _ (by simp only [List.length_singleton]; omega) (Nat.le_refl _)
        (by simp), ea]
    simp
  · rw [byte_apply_program_of_mem _ _ _ _ (by
        rw [size_apply_program]; simp only [List.length_singleton]; omega) (Nat.le_refl _) (by simp),
      byte_apply_program_of_not_mem _ _ _ _ (by simp only [List.length_singleton]; omega), er]
    simp

/-- the updater recovery rebuilds after the tear: stage 2 with two unknowns, pivot 1 in use -/
def wrongUpd (u0 : Upd) : Upd := { u0 with l := 2, used := 2 }

/-- the model state the torn flash stands for: pivot 1 holds block `9` with row `11` — "x0 + x1 = 9" instead of the
    delivered "x1 = 9" -/
def wrongSt : St := { n := 2, bs := 1, l := 2, used := 2, ps := [(1, 9)], ms := [(1, 3)] }

/-- bit `p` of the mask `{1}` -/
theorem testBit_two (p : Nat) : Nat.testBit 2 p = decide (1 = p) := by
  show (2 ^ 1).testBit p = _
  rw [Nat.testBit_two_pow]

/-- a one-byte read -/
theorem read_one (f : Flash) (a : Nat) : f.read a 1 = [f.byte a] := by
  simp [Flash.read]

/-- **step 2: the torn flash is a lawful stage-2 state with a wrong equation.** With the rebuilt updater the
rebooted device satisfies the whole session invariant — echelon form included: the row of pivot 1 reads `11`, leading
bit 1 — and its abstraction is `wrongSt` -/
theorem witness_wrong_state {u0 : Upd} {d0 : Dev} {sa sb : Nat} (F : Fresh2 u0 d0 sa sb) {e : Dev} (hG : Good e)
    (hf : e.flash = tornFlash u0 d0) : Lawful (wrongUpd u0) e ∧ Sim wrongSt (wrongUpd u0) e.flash := by
  obtain ⟨hsz, hwf, hfr, hba, hbr⟩ := tornFlash_bytes F
  obtain ⟨LH, hl, hd, hu, hn, hbs, hm⟩ := F
  have L := LH.law.base
  have g := L.geo
  obtain ⟨h1, h2, h3, h4, h5, h6, h7⟩ := g.slots
  obtain ⟨q1, q2, q3, q4⟩ := g.regions.2 1 (by rw [hm]; omega)
  have hinc0 : rcComplete u0 = false := by
    cases hc : rcComplete u0 with
    | false => rfl
    | true =>
      have := (rcComplete_stage1 u0 hl).1 hc 0 (by omega)
      rw [hd] at this; simp at this
  have hrow1 : msVal (wrongUpd u0) e.flash 1 = 3 := by
    show (if 1 < u0.maxL ∧ Nat.testBit 2 1 = true then
      bytesToNat (flipBit (e.flash.read (rAddr u0 1) 1) 1) else 0) = 3
    rw [if_pos ⟨by rw [hm]; omega, by decide⟩, read_one, hf, hbr]; decide
  have L' : Lawful' (fun i => (wrongUpd u0).done.testBit i = false) (wrongUpd u0) e := by
    refine { geo := ?_, good := hG, wf := by rw [hf]; exact hwf, hl := by show 2 ≤ u0.maxL; rw [hm]; omega,
             hl2 := fun _ => by show 2 = (unknowns u0.done u0.n).length; rw [hd, hn]; decide,
             hdone := fun i hi => by
               have : u0.done.testBit i = true := hi
               rw [hd] at this; simp at this,
             hstat := fun i hi => by
               have : u0.done.testBit i = true := hi
               rw [hd] at this; simp at this,
             herD := ?_, hech := ?_, herP := ?_ }
    · rw [hf, hsz]
      exact ⟨g.hbs, g.hn, g.hfit, g.hsz, g.hmaxL, g.hmo, g.hne, g.hfwin, g.hparin, g.hseg⟩
    · intro i hi hE
      have hi' : i < u0.n := hi
      obtain ⟨e1, e2⟩ := L.herD i hi' ⟨hinc0, hE⟩
      obtain ⟨r1, r2, r3, r4⟩ := g.regions.1 i hi'
      show Erased e.flash (segAddr u0 i) (segAddr u0 i + u0.bs) ∧ e.flash.byte (statAddr u0 i) = 0xFF
      refine ⟨erased_congr e1 (fun x hx1 hx2 => ?_), ?_⟩
      · rw [hf]; exact hfr x (by omega) (by omega)
      · rw [hf, hfr _ (by omega) (by omega)]; exact e2
    · intro p hp
      have hp1 : p = 1 := by
        have : Nat.testBit 2 p = true := hp
        rw [testBit_two] at this; exact (of_decide_eq_true this).symm
      subst hp1
      refine ⟨by show 1 < 2; omega, by rw [hrow1]; decide, fun j hj => ?_⟩
      rw [hrow1]
      exact Nat.testBit_lt_two_pow (Nat.lt_of_lt_of_le (show 3 < 2 ^ 2 by decide) (Nat.pow_le_pow_right (by omega) hj))
    · intro m hm'' hum
      have hm' : m < u0.maxL := hm''
      show Erased e.flash (pAddr u0 m) (pAddr u0 m + u0.bs) ∧ Erased e.flash (rAddr u0 m) (rAddr u0 m + (m / 8 + 1))
      have hm1 : m ≠ 1 := by
        intro h; subst h
        have : Nat.testBit 2 1 = false := hum
        exact absurd this (by decide)
      obtain ⟨e1, e2⟩ := L.herP m hm' (by rw [hu]; simp)
      obtain ⟨t1, t2, t3, t4⟩ := g.regions.2 m hm'
      have hd1 := g.disjoint.2.1 m 1 hm1
      have hd2 := g.disjoint.2.2 m 1 hm1
      refine ⟨erased_congr e1 (fun x hx1 hx2 => ?_), erased_congr e2 (fun x hx1 hx2 => ?_)⟩
      · rw [hf]; exact hfr x (by omega) (by omega)
      · rw [hf]; exact hfr x (by omega) (by omega)
  have hincw : rcComplete (wrongUpd u0) = false :=
    rcComplete_stage2_false (p := 0) (by show (2 : Nat) ≠ 0; omega) (by show 0 < 2; omega) (by show Nat.testBit 2 0 = false; decide)
  refine ⟨⟨L'.mono (fun i hi => hi.2), fun hc => by rw [hincw] at hc; cases hc⟩, ?_⟩
  refine ⟨hn.symm, hbs.symm, rfl, hd.symm, rfl, fun k => ?_, fun k => ?_, fun k => ?_⟩
  · -- no data block is marked
    show Recon.get [] k = _
    unfold dsVal
    by_cases hk : k < (wrongUpd u0).n
    · have hk' : k < u0.n := hk
      obtain ⟨r1, r2, r3, r4⟩ := g.regions.1 k hk'
      have hst : e.flash.byte (statAddr (wrongUpd u0) k) = 0xFF := by
        show e.flash.byte (statAddr u0 k) = 0xFF
        rw [hf, hfr _ (by omega) (by omega)]
        exact (L.herD k hk' ⟨hinc0, by rw [hd]; simp⟩).2
      rw [if_neg (by rw [hst]; simp)]; rfl
    · rw [if_neg (fun h => hk h.1)]; rfl
  · show Recon.get [(1, 9)] k = _
    by_cases hk : k = 1
    · subst hk
      show _ = (if 1 < u0.maxL ∧ Nat.testBit 2 1 = true then bytesToNat (e.flash.read (pAddr u0 1) u0.bs) else 0)
      rw [if_pos ⟨by rw [hm]; omega, by decide⟩, hbs, read_one, hf, hba]; decide
    · have hu2 : (wrongUpd u0).used.testBit k = false := by
        show Nat.testBit 2 k = false
        rw [testBit_two]; simp; omega
      simp only [psVal, hu2, Bool.false_eq_true, and_false, ↓reduceIte]
      simp [Recon.get, List.lookup, show (k == 1) = false by simp [hk]]
  · show Recon.get [(1, 3)] k = _
    by_cases hk : k = 1
    · subst hk; rw [hrow1]; rfl
    · have hu2 : (wrongUpd u0).used.testBit k = false := by
        show Nat.testBit 2 k = false
        rw [testBit_two]; simp; omega
      simp only [msVal, hu2, Bool.false_eq_true, and_false, ↓reduceIte]
      simp [Recon.get, List.lookup, show (k == 1) = false by simp [hk]]

end Fuota.Updater
