import Fuota.Lemmas.V1Peel
/-!
# Delivery sequences on the mask-level machine: the closure invariant along a run, and independence of the
number of parity indices scanned (the only difference between the naive and the original updater at this level)
-/
namespace Fuota.V1

def Abs.init (n parLen : Nat) (rowOf : Nat → Option Nat) : Abs :=
  { n := n, parLen := parLen, rowOf := rowOf, fw := 0, par := 0 }

/-- data fragments delivered by a sequence, added to `data` -/
def addData (data : Nat) : List Dlv → Nat
  | [] => data
  | .data i :: ds => addData (data ||| 2 ^ i) ds
  | .coded _ :: ds => addData data ds

/-- coded fragments delivered by a sequence, added to `par` -/
def addCoded (par : Nat) : List Dlv → Nat
  | [] => par
  | .data _ :: ds => addCoded par ds
  | .coded p :: ds => addCoded (par ||| 2 ^ p) ds

theorem init_isPeel (n parLen : Nat) (rowOf : Nat → Option Nat) : IsPeel n parLen rowOf 0 0 0 := by
  refine ⟨Sub.refl 0, ?_, fun T _ _ => ?_⟩
  · intro p _ hb; simp at hb
  · intro i hi; simp at hi

theorem deliver_par (a : Abs) (d : Dlv) :
    (a.deliver d).par = match d with | .data _ => a.par | .coded p => a.par ||| 2 ^ p := by
  cases d <;> exact (loop_fields _ _).2.2.2

theorem run_fields (a : Abs) (ds : List Dlv) :
    (a.run ds).n = a.n ∧ (a.run ds).parLen = a.parLen ∧ (a.run ds).rowOf = a.rowOf ∧
      (a.run ds).par = addCoded a.par ds := by
  induction ds generalizing a with
  | nil => exact ⟨rfl, rfl, rfl, rfl⟩
  | cons d ds ih =>
    obtain ⟨e1, e2, e3⟩ := deliver_fields a d
    obtain ⟨i1, i2, i3, i4⟩ := ih (a.deliver d)
    refine ⟨by rw [← e1]; exact i1, by rw [← e2]; exact i2, by rw [← e3]; exact i3, ?_⟩
    show (Abs.run (a.deliver d) ds).par = _
    rw [i4, deliver_par]
    cases d <;> rfl

/-- **the invariant of a run**: after every delivery sequence the data mask is the peeling closure of the delivered
    data under the delivered rows -/
theorem run_isPeel (a : Abs) (ds : List Dlv) (data : Nat)
    (hrow : ∀ p, p < a.parLen → (a.rowOf p).isSome = true)
    (h : IsPeel a.n a.parLen a.rowOf a.par data a.fw) :
    IsPeel a.n a.parLen a.rowOf (a.run ds).par (addData data ds) (a.run ds).fw := by
  induction ds generalizing a data with
  | nil => exact h
  | cons d ds ih =>
    cases d with
    | data i =>
      obtain ⟨e1, e2, e3⟩ := deliver_fields a (.data i)
      have hd := deliver_isPeel a (.data i) data hrow h
      have := ih (a.deliver (.data i)) (data ||| 2 ^ i) (by rw [e2, e3]; exact hrow) (by rw [e1, e2, e3]; exact hd)
      rw [e1, e2, e3] at this
      exact this
    | coded p =>
      obtain ⟨e1, e2, e3⟩ := deliver_fields a (.coded p)
      have hd := deliver_isPeel a (.coded p) data hrow h
      have := ih (a.deliver (.coded p)) data (by rw [e2, e3]; exact hrow) (by rw [e1, e2, e3]; exact hd)
      rw [e1, e2, e3] at this
      exact this

/-! ## the number of parity indices scanned does not matter beyond the received ones -/

theorem filter_range_bounded (q : Nat → Bool) (L0 L : Nat) (h : ∀ p, q p = true → p < L0) (hL : L0 ≤ L) :
    (List.range L).filter q = (List.range L0).filter q := by
  induction L with
  | zero => have : L0 = 0 := by omega
            subst this; rfl
  | succ k ih =>
    by_cases hk : L0 = k + 1
    · subst hk; rfl
    · rw [List.range_succ, List.filter_append, ih (by omega)]
      have : q k = false := by
        cases hq : q k
        · rfl
        · have := h k hq; omega
      simp [this]

theorem pickRepair_range (rowOf : Nat → Option Nat) (recvFw recvPar planLen La Lb : Nat)
    (h : ∀ p, recvPar.testBit p = true → p < La ∧ p < Lb) :
    pickRepair rowOf recvFw recvPar planLen (List.range La) =
      pickRepair rowOf recvFw recvPar planLen (List.range Lb) := by
  rw [pickRepair_filter rowOf recvFw recvPar planLen (List.range La),
      pickRepair_filter rowOf recvFw recvPar planLen (List.range Lb)]
  rw [filter_range_bounded _ (min La Lb) La (fun p hp => by have := h p hp; omega) (by omega),
      filter_range_bounded _ (min La Lb) Lb (fun p hp => by have := h p hp; omega) (by omega)]

/-- two machines that differ at most in the number of parity indices they scan -/
def Same (a b : Abs) : Prop := a.n = b.n ∧ a.rowOf = b.rowOf ∧ a.fw = b.fw ∧ a.par = b.par

/-- every received coded fragment is inside both scans -/
def Bnd (a b : Abs) : Prop := ∀ p, a.par.testBit p = true → p < a.parLen ∧ p < b.parLen

theorem step_same {a b : Abs} (hs : Same a b) (hb : Bnd a b) :
    match a.step, b.step with
    | some a', some b' => Same a' b' ∧ a'.parLen = a.parLen ∧ b'.parLen = b.parLen
    | none, none => True
    | _, _ => False := by
  obtain ⟨h1, h2, h3, h4⟩ := hs
  unfold Abs.step
  rw [← h1, ← h2, ← h3, ← h4, pickRepair_range a.rowOf a.fw a.par a.n a.parLen b.parLen hb]
  cases pickRepair a.rowOf a.fw a.par a.n (List.range b.parLen) with
  | error e => trivial
  | ok r =>
    cases r with
    | none => trivial
    | some t =>
      obtain ⟨p, m, row⟩ := t
      exact ⟨⟨rfl, rfl, rfl, rfl⟩, rfl, rfl⟩

theorem loop_same (f : Nat) {a b : Abs} (hs : Same a b) (hb : Bnd a b) :
    Same (Abs.loop f a) (Abs.loop f b) := by
  induction f generalizing a b with
  | zero => exact hs
  | succ f ih =>
    have := step_same hs hb
    cases ha : a.step with
    | none =>
      cases hbb : b.step with
      | none => rw [loop_succ_none ha, loop_succ_none hbb]; exact hs
      | some b' => rw [ha, hbb] at this; exact this.elim
    | some a' =>
      cases hbb : b.step with
      | none => rw [ha, hbb] at this; exact this.elim
      | some b' =>
        rw [ha, hbb] at this
        obtain ⟨hs', ea, eb⟩ := this
        rw [loop_succ_some ha, loop_succ_some hbb]
        apply ih hs'
        intro p hp
        obtain ⟨_, _, m, _, _, _, _, rfl⟩ := step_spec ha
        obtain ⟨_, _, m', _, _, _, _, rfl⟩ := step_spec hbb
        exact hb p hp

theorem deliver_same {a b : Abs} (hs : Same a b) (hb : Bnd a b) (d : Dlv)
    (hd : ∀ p, d = .coded p → p < a.parLen ∧ p < b.parLen) :
    Same (a.deliver d) (b.deliver d) ∧ Bnd (a.deliver d) (b.deliver d) := by
  obtain ⟨h1, h2, h3, h4⟩ := hs
  have key : ∀ (a1 b1 : Abs), Same a1 b1 → Bnd a1 b1 → a1.parLen = a.parLen → b1.parLen = b.parLen →
      Same (Abs.loop (a1.n + 1) a1) (Abs.loop (b1.n + 1) b1) ∧
      Bnd (Abs.loop (a1.n + 1) a1) (Abs.loop (b1.n + 1) b1) := by
    intro a1 b1 s1 bd1 _ _
    have hn : a1.n = b1.n := s1.1
    have := loop_same (a1.n + 1) s1 bd1
    rw [← hn]
    refine ⟨this, ?_⟩
    intro p hp
    rw [(loop_fields _ _).2.2.2] at hp
    rw [(loop_fields _ _).2.1, (loop_fields _ _).2.1]
    exact bd1 p hp
  cases d with
  | data i =>
    exact key { a with fw := a.fw ||| 2 ^ i } { b with fw := b.fw ||| 2 ^ i }
      ⟨h1, h2, by simp [h3], h4⟩ hb rfl rfl
  | coded p =>
    refine key { a with par := a.par ||| 2 ^ p } { b with par := b.par ||| 2 ^ p }
      ⟨h1, h2, h3, by simp [h4]⟩ ?_ rfl rfl
    intro q hq
    simp only at hq
    rw [testBit_or_pow] at hq
    cases hqa : a.par.testBit q
    · rw [hqa] at hq
      simp at hq
      subst hq
      exact hd q rfl
    · exact hb q hqa

theorem run_same {a b : Abs} (hs : Same a b) (hb : Bnd a b) (ds : List Dlv)
    (hds : ∀ p, Dlv.coded p ∈ ds → p < a.parLen ∧ p < b.parLen) : Same (a.run ds) (b.run ds) := by
  induction ds generalizing a b with
  | nil => exact hs
  | cons d ds ih =>
    obtain ⟨s', b'⟩ := deliver_same hs hb d (fun p hp => hds p (by simp [hp]))
    apply ih s' b'
    intro p hp
    rw [(deliver_fields a d).2.1, (deliver_fields b d).2.1]
    exact hds p (by simp [hp])

end Fuota.V1
