import Fuota.Model.Crc
/-!
# Algebra of the CRC register

* `shift1` (hence every register map with zero input) is xor-linear and maps non-zero registers to non-zero
  registers (the polynomial's constant term is 1).
* A difference `d` in the register propagates through the remaining message as `shiftN (8 * length) d`
  (`crcUpdate_xor_reg`); with init 0 this gives linearity of `crcRaw` in the message (`crcRaw_xor`).
* Flipping one message bit changes the final register by `shiftN _ (2 ^ _) ≠ 0` (`crcUpdate_flip_ne`).
-/
namespace Fuota.Crc

theorem xor_cancel_left (a b : Nat) : a ^^^ (a ^^^ b) = b := by
  rw [← Nat.xor_assoc, Nat.xor_self, Nat.zero_xor]

theorem xor_ne_self (a d : Nat) (hd : d ≠ 0) : a ^^^ d ≠ a := by
  intro h
  apply hd
  have : a ^^^ (a ^^^ d) = a ^^^ a := by rw [h]
  rwa [xor_cancel_left, Nat.xor_self] at this

theorem xor_left_inj (c a b : Nat) (h : a ^^^ c = b ^^^ c) : a = b := by
  have : (a ^^^ c) ^^^ c = (b ^^^ c) ^^^ c := by rw [h]
  simpa [Nat.xor_assoc] using this

theorem poly_lt : poly < 2 ^ 32 := by decide

theorem shift1_eq (r : Nat) : shift1 r = ((r * 2) % 2 ^ 32) ^^^ (if r.testBit 31 then poly else 0) := by
  unfold shift1; split <;> simp

theorem shift1_lt (r : Nat) : shift1 r < 2 ^ 32 := by
  rw [shift1_eq]
  apply Nat.xor_lt_two_pow (Nat.mod_lt _ (by decide))
  split
  · exact poly_lt
  · decide

theorem mul2_xor (a b : Nat) : (a ^^^ b) * 2 = a * 2 ^^^ b * 2 := by
  have := @Nat.shiftLeft_xor_distrib 1 a b
  simpa [Nat.shiftLeft_eq] using this

theorem shift1_xor (a b : Nat) : shift1 (a ^^^ b) = shift1 a ^^^ shift1 b := by
  simp only [shift1_eq, mul2_xor, Nat.xor_mod_two_pow, Nat.testBit_xor]
  cases a.testBit 31 <;> cases b.testBit 31 <;> simp
  · ac_rfl
  · ac_rfl
  · generalize a * 2 % 4294967296 = x; generalize b * 2 % 4294967296 = y
    rw [show x ^^^ poly ^^^ (y ^^^ poly) = x ^^^ y ^^^ (poly ^^^ poly) by ac_rfl, Nat.xor_self, Nat.xor_zero]

theorem shift1_zero : shift1 0 = 0 := by decide

/-- the polynomial has constant term 1, so a shift never annihilates a non-zero register -/
theorem shift1_ne_zero (r : Nat) (hr : r < 2 ^ 32) (h : r ≠ 0) : shift1 r ≠ 0 := by
  unfold shift1
  split
  · intro h0
    have hb : (((r * 2) % 2 ^ 32) ^^^ poly).testBit 0 = true := by
      rw [Nat.testBit_xor, Nat.testBit_zero, Nat.testBit_zero]
      have : r * 2 % 2 ^ 32 % 2 = 0 := by omega
      simp [this, poly]
    rw [h0] at hb
    simp at hb
  · rename_i hb
    have : r < 2 ^ 31 := by
      apply Decidable.by_contra; intro hge
      apply hb
      have h1 : r.testBit 31 = (decide (31 < 32) && r.testBit 31) := by simp
      have h2 : 2 ^ 31 ≤ r := by omega
      exact Nat.testBit_of_two_pow_le_and_two_pow_add_one_gt h2 (by simpa using hr)
    omega

theorem shiftN_lt (k r : Nat) (hr : r < 2 ^ 32) : shiftN k r < 2 ^ 32 := by
  induction k generalizing r with
  | zero => simpa [shiftN]
  | succ k ih => exact ih _ (shift1_lt r)

theorem shiftN_xor (k a b : Nat) : shiftN k (a ^^^ b) = shiftN k a ^^^ shiftN k b := by
  induction k generalizing a b with
  | zero => rfl
  | succ k ih => simp only [shiftN, shift1_xor, ih]

theorem shiftN_zero (k : Nat) : shiftN k 0 = 0 := by
  induction k with
  | zero => rfl
  | succ k ih => simpa [shiftN, shift1_zero] using ih

theorem shiftN_ne_zero (k r : Nat) (hr : r < 2 ^ 32) (h : r ≠ 0) : shiftN k r ≠ 0 := by
  induction k generalizing r with
  | zero => simpa [shiftN]
  | succ k ih => exact ih _ (shift1_lt r) (shift1_ne_zero r hr h)

theorem shiftN_add (j k r : Nat) : shiftN (j + k) r = shiftN k (shiftN j r) := by
  induction j generalizing r with
  | zero => simp [shiftN]
  | succ j ih => rw [Nat.succ_add]; exact ih _

/-! ## bytes -/

theorem byte_top_lt (b : Nat) : (b % 256) * 2 ^ 24 < 2 ^ 32 := by omega

theorem crcStepByte_lt (r b : Nat) (hr : r < 2 ^ 32) : crcStepByte r b < 2 ^ 32 :=
  shiftN_lt _ _ (Nat.xor_lt_two_pow hr (byte_top_lt b))

theorem crcUpdate_lt (r : Nat) (bs : List Nat) (hr : r < 2 ^ 32) : crcUpdate r bs < 2 ^ 32 := by
  induction bs generalizing r with
  | nil => simpa [crcUpdate]
  | cons b bs ih => exact ih _ (crcStepByte_lt r b hr)

theorem crcUpdate_append (r : Nat) (as bs : List Nat) :
    crcUpdate r (as ++ bs) = crcUpdate (crcUpdate r as) bs := by
  induction as generalizing r with
  | nil => rfl
  | cons a as ih => simp only [List.cons_append, crcUpdate, ih]

/-- a register difference passes through one byte as eight plain shifts -/
theorem crcStepByte_xor_reg (r d b : Nat) : crcStepByte (r ^^^ d) b = crcStepByte r b ^^^ shiftN 8 d := by
  unfold crcStepByte
  rw [← shiftN_xor]; congr 1; ac_rfl

/-- a register difference passes through a message as `8 * length` plain shifts -/
theorem crcUpdate_xor_reg (r d : Nat) (bs : List Nat) :
    crcUpdate (r ^^^ d) bs = crcUpdate r bs ^^^ shiftN (8 * bs.length) d := by
  induction bs generalizing r d with
  | nil => simp [crcUpdate, shiftN]
  | cons b bs ih =>
    simp only [crcUpdate, crcStepByte_xor_reg, ih, List.length_cons]
    rw [show 8 * (bs.length + 1) = 8 + 8 * bs.length by omega, shiftN_add]

theorem byte_xor_top (x y : Nat) :
    ((x ^^^ y) % 256) * 2 ^ 24 = (x % 256) * 2 ^ 24 ^^^ (y % 256) * 2 ^ 24 := by
  have h := @Nat.xor_mod_two_pow x y 8
  have h2 := @Nat.shiftLeft_xor_distrib 24 (x % 256) (y % 256)
  simp only [Nat.shiftLeft_eq] at h2
  rw [← h2]; congr 1

/-- one byte: linear in (register, byte) jointly -/
theorem crcStepByte_xor (r s x y : Nat) :
    crcStepByte (r ^^^ s) (x ^^^ y) = crcStepByte r x ^^^ crcStepByte s y := by
  unfold crcStepByte
  rw [← shiftN_xor, byte_xor_top]; congr 1; ac_rfl

/-- **Linearity**: with equal lengths, the register after `a ⊕ b` from `r ⊕ s` is the xor of the registers. -/
theorem crcUpdate_xor (r s : Nat) (as bs : List Nat) (hl : as.length = bs.length) :
    crcUpdate (r ^^^ s) (List.zipWith (· ^^^ ·) as bs) = crcUpdate r as ^^^ crcUpdate s bs := by
  induction as generalizing r s bs with
  | nil => cases bs with
    | nil => rfl
    | cons b bs => simp at hl
  | cons a as ih => cases bs with
    | nil => simp at hl
    | cons b bs =>
      simp only [List.zipWith_cons_cons, crcUpdate]
      rw [crcStepByte_xor]
      exact ih _ _ _ (by simpa using hl)

/-- `crcRaw` (init 0, before the final xor) is xor-linear on messages of equal length -/
theorem crcRaw_xor (as bs : List Nat) (hl : as.length = bs.length) :
    crcRaw (List.zipWith (· ^^^ ·) as bs) = crcRaw as ^^^ crcRaw bs := by
  have := crcUpdate_xor 0 0 as bs hl
  simpa [crcRaw, crcInit] using this

/-- the checksum itself is affine: `crc(a ⊕ b) = crc(a) ⊕ crc(b) ⊕ crc(0…0)` for equal lengths -/
theorem crcBytes_xor (as bs : List Nat) (hl : as.length = bs.length) :
    crcBytes (List.zipWith (· ^^^ ·) as bs) =
      crcBytes as ^^^ crcBytes bs ^^^ crcBytes (List.replicate as.length 0) := by
  have hz : crcRaw (List.replicate as.length 0) = 0 := by
    generalize as.length = n
    induction n with
    | zero => rfl
    | succ n ih =>
      simp only [crcRaw, crcInit, List.replicate_succ, crcUpdate] at ih ⊢
      rw [show crcStepByte 0 0 = 0 by decide]; exact ih
  simp only [crcBytes, crcFinalize, crcRaw_xor as bs hl, hz]
  simp only [Nat.zero_xor]
  rw [show crcRaw as ^^^ xorOut ^^^ (crcRaw bs ^^^ xorOut) ^^^ xorOut
        = crcRaw as ^^^ crcRaw bs ^^^ (xorOut ^^^ xorOut) ^^^ xorOut by ac_rfl, Nat.xor_self, Nat.xor_zero]

/-! ## a single flipped bit -/

theorem two_pow_byte_lt (k : Nat) (hk : k < 8) : 2 ^ k < 256 := by
  have : 2 ^ k < 2 ^ 8 := Nat.pow_lt_pow_right (by decide) hk
  simpa using this

theorem crcStepByte_flip (r b k : Nat) (hk : k < 8) :
    crcStepByte r (b ^^^ 2 ^ k) = crcStepByte r b ^^^ shiftN 8 (2 ^ (k + 24)) := by
  have h := crcStepByte_xor r 0 b (2 ^ k)
  rw [Nat.xor_zero] at h
  have e : crcStepByte 0 (2 ^ k) = shiftN 8 (2 ^ (k + 24)) := by
    unfold crcStepByte
    rw [Nat.zero_xor, Nat.mod_eq_of_lt (two_pow_byte_lt k hk), Nat.pow_add]
  rw [h, e]

/-- flipping bit `k` of one message byte changes the final register by a known non-zero amount -/
theorem crcUpdate_flip (r b k : Nat) (pre post : List Nat) (hk : k < 8) :
    crcUpdate r (pre ++ (b ^^^ 2 ^ k) :: post) =
      crcUpdate r (pre ++ b :: post) ^^^ shiftN (8 * post.length) (shiftN 8 (2 ^ (k + 24))) := by
  simp only [crcUpdate_append, crcUpdate]
  rw [crcStepByte_flip _ _ _ hk, crcUpdate_xor_reg]

theorem flip_delta_ne_zero (k n : Nat) (hk : k < 8) : shiftN n (shiftN 8 (2 ^ (k + 24))) ≠ 0 := by
  have hlt : 2 ^ (k + 24) < 2 ^ 32 := Nat.pow_lt_pow_right (by decide) (by omega)
  have hne : 2 ^ (k + 24) ≠ 0 := Nat.pos_iff_ne_zero.mp (Nat.pow_pos (by decide))
  exact shiftN_ne_zero _ _ (shiftN_lt _ _ hlt) (shiftN_ne_zero _ _ hlt hne)

theorem crcUpdate_flip_ne (r b k : Nat) (pre post : List Nat) (hk : k < 8) :
    crcUpdate r (pre ++ (b ^^^ 2 ^ k) :: post) ≠ crcUpdate r (pre ++ b :: post) := by
  rw [crcUpdate_flip _ _ _ _ _ hk]
  exact xor_ne_self _ _ (flip_delta_ne_zero k _ hk)

theorem crcFinalize_inj (a b : Nat) (h : crcFinalize a = crcFinalize b) : a = b :=
  xor_left_inj _ _ _ h

/-- the catalogue check value -/
theorem crcBytes_check : crcBytes [0x31, 0x32, 0x33, 0x34, 0x35, 0x36, 0x37, 0x38, 0x39] = 0x765E7680 := by
  decide +kernel

end Fuota.Crc
