import Fuota.Lemmas.AdapterSlots
import Fuota.Lemmas.AdapterArith
import Fuota.Lemmas.AdapterParity
/-!
# `FlashDataStorage` (C16)

Block `m` occupies the `len` bytes at `start + m * len`: contiguous, no padding. A block boundary that is not a multiple
of the write size shares its word with the neighbouring block; `store` programs the shared words with `0xFF` on the
neighbour's bytes (head: `split_slice_addrs` + `buffer[32 - k ..]`, tail: `buffer[.. k]`), which leaves them alone.
`store` is therefore one program of the image `FF … FF ++ data ++ FF … FF` at the write-size boundary below the block
(`dataStore_apply`), and `get` returns the `len` bytes at the block address (`dataGetVal_eq_read`).
-/
set_option linter.unusedSimpArgs false
namespace Fuota.FlashAdapters
open Fuota.Nor

/-- address of data block `m` for blocks of `len` bytes: no padding between blocks -/
def blockAddr (c : Cfg) (len m : Nat) : Nat := c.start + m * len

/-- bytes of a block in its (shared) first word: up to the next write-size boundary -/
def headLen (c : Cfg) (ts : Nat) : Nat := if ts % c.W = 0 then 0 else c.W - ts % c.W

theorem headLen_spec (c : Cfg) (hW : 0 < c.W) (ts : Nat) : (ts + headLen c ts) % c.W = 0 ∧ headLen c ts < c.W := by
  unfold headLen
  have h1 := Nat.div_add_mod ts c.W
  have h2 := Nat.mod_lt ts hW
  split
  · rename_i h; exact ⟨by rw [Nat.add_zero]; exact h, hW⟩
  · refine ⟨?_, by omega⟩
    have : ts + (c.W - ts % c.W) = c.W * (ts / c.W + 1) := by rw [Nat.mul_add, Nat.mul_one]; omega
    rw [this, Nat.mul_mod_right]

theorem tail_le (c : Cfg) (hW : 0 < c.W) (ts len : Nat) (hlen : c.W ≤ len) :
    headLen c ts + (ts + len) % c.W ≤ len := by
  obtain ⟨h1, h2⟩ := headLen_spec c hW ts
  have e : ts + len = (ts + headLen c ts) + (len - headLen c ts) := by omega
  obtain ⟨q, hq⟩ := Nat.dvd_of_mod_eq_zero h1
  rw [e, hq, Nat.mul_add_mod]
  have := Nat.mod_le (len - headLen c ts) c.W
  omega

theorem dataSplit_eq (c : Cfg) (hW : 0 < c.W) (m : Nat) (data : List Nat) (hlen : c.W ≤ data.length) :
    dataSplit c m data =
      { padStart := data.take (headLen c (blockAddr c data.length m)),
        startAddr := blockAddr c data.length m - blockAddr c data.length m % c.W,
        body := (data.drop (headLen c (blockAddr c data.length m))).take
          (data.length - headLen c (blockAddr c data.length m) - (blockAddr c data.length m + data.length) % c.W),
        bodyAddr := blockAddr c data.length m + headLen c (blockAddr c data.length m),
        padEnd := data.drop (data.length - (blockAddr c data.length m + data.length) % c.W),
        endAddr := blockAddr c data.length m + (data.length - (blockAddr c data.length m + data.length) % c.W) } := by
  have hte : c.start + (m + 1) * data.length = blockAddr c data.length m + data.length := by
    unfold blockAddr; rw [Nat.add_mul, Nat.one_mul, Nat.add_assoc]
  have htl := tail_le c hW (blockAddr c data.length m) data.length hlen
  have hmle := Nat.mod_le (blockAddr c data.length m) c.W
  have hml := Nat.mod_lt (blockAddr c data.length m) hW
  simp only [dataSplit, hte]
  rw [show c.start + m * data.length = blockAddr c data.length m from rfl]
  generalize blockAddr c data.length m = ts at *
  generalize hEo : (ts + data.length) % c.W = eo at *
  unfold headLen at *
  by_cases hso : ts % c.W = 0
  · simp only [hso, if_true, ne_eq, not_true_eq_false, if_false, List.take_zero, List.drop_zero, Nat.sub_zero,
      Nat.add_zero] at htl ⊢
    by_cases heo : eo = 0
    · subst heo
      simp only [ne_eq, not_true_eq_false, if_false, Nat.sub_zero, List.take_length, List.drop_length]
    · simp only [heo, ne_eq, not_false_eq_true, if_true, List.length_take]
      congr 1
      omega
  · simp only [hso, if_false, ne_eq, not_false_eq_true, if_true] at htl ⊢
    have e1 : c.W - (ts - (ts - ts % c.W)) = c.W - ts % c.W := by omega
    have e2 : ts - ts % c.W + c.W = ts + (c.W - ts % c.W) := by omega
    rw [e1, e2]
    by_cases heo : eo = 0
    · subst heo
      simp only [ne_eq, not_true_eq_false, if_false, Nat.sub_zero, List.length_drop, List.drop_length]
      rw [List.take_of_length_le (l := List.drop (c.W - ts % c.W) data) (by rw [List.length_drop]; omega)]
      congr 1
      omega
    · simp only [heo, ne_eq, not_false_eq_true, if_true, List.length_take, List.length_drop, List.drop_drop]
      have e3 : c.W - ts % c.W + (data.length - (c.W - ts % c.W) - eo) = data.length - eo := by omega
      have e4 : ts + (c.W - ts % c.W) + min (data.length - (c.W - ts % c.W) - eo) (data.length - (c.W - ts % c.W))
          = ts + (data.length - eo) := by omega
      rw [e3, e4]

/-- `0xFF` bytes after a block up to the next write-size boundary -/
def tailPad (c : Cfg) (te : Nat) : Nat := if te % c.W = 0 then 0 else c.W - te % c.W

/-- what `store` programs: the block, `0xFF`-padded on both sides to write-size boundaries -/
def dataImage (c : Cfg) (ts : Nat) (data : List Nat) : List Nat :=
  List.replicate (ts % c.W) 0xFF ++ data ++ List.replicate (tailPad c (ts + data.length)) 0xFF

theorem apply_two (f : Flash) (a a' : Nat) (xs ys : List Nat) (h : a' = a + xs.length) :
    (f.apply (.program a xs)).apply (.program a' ys) = f.apply (.program a (xs ++ ys)) := by
  subst h; exact apply_program_append f a xs ys

/-- the head buffer: `buffer[32 - k ..].copy_from_slice(pad_start)` on `0xFF`s, last `W` bytes -/
theorem head_buffer (W : Nat) (hW32 : W ≤ MAX_WORD_SIZE) (xs : List Nat) (v : Nat) (hx : xs.length ≤ W) :
    (List.replicate (MAX_WORD_SIZE - xs.length) v ++ xs).drop (MAX_WORD_SIZE - W) = List.replicate (W - xs.length) v ++ xs := by
  rw [List.drop_append, List.drop_replicate, List.length_replicate,
    show MAX_WORD_SIZE - W - (MAX_WORD_SIZE - xs.length) = 0 by omega, List.drop_zero]
  congr 2; omega

theorem dataStore_apply (c : Cfg) (hW : 0 < c.W) (hW32 : c.W ≤ MAX_WORD_SIZE) (f : Flash) (m : Nat) (data : List Nat)
    (hlen : c.W ≤ data.length) :
    applyAccs f (dataStoreAccs c m data) =
      f.apply (.program (blockAddr c data.length m - blockAddr c data.length m % c.W)
        (dataImage c (blockAddr c data.length m) data)) := by
  have htl := tail_le c hW (blockAddr c data.length m) data.length hlen
  have hmle := Nat.mod_le (blockAddr c data.length m) c.W
  have hml := Nat.mod_lt (blockAddr c data.length m) hW
  have hml2 := Nat.mod_lt (blockAddr c data.length m + data.length) hW
  simp only [dataStoreAccs, dataSplit_eq c hW m data hlen, dataImage, tailPad]
  generalize blockAddr c data.length m = ts at *
  generalize hEo : (ts + data.length) % c.W = eo at *
  unfold headLen at *
  have hmid : ∀ k, k + eo ≤ data.length →
      List.take k data ++ (List.take (data.length - k - eo) (List.drop k data) ++ List.drop (data.length - eo) data) = data := by
    intro k hk
    have : List.drop (data.length - eo) data = List.drop (data.length - k - eo) (List.drop k data) := by
      rw [List.drop_drop]; congr 1; omega
    rw [this, List.take_append_drop, List.take_append_drop]
  by_cases hso : ts % c.W = 0
  · simp only [hso, if_true, List.take_zero, ne_eq, not_true_eq_false, if_false, List.nil_append, Nat.sub_zero,
      Nat.add_zero, List.drop_zero, List.replicate_zero] at htl ⊢
    by_cases heo : eo = 0
    · subst heo
      simp only [Nat.sub_zero, List.drop_length, ne_eq, not_true_eq_false, if_false, List.append_nil,
        List.take_length, if_true, List.replicate_zero, applyAccs_cons, applyAccs_nil, applyAcc]
    · have hne : List.drop (data.length - eo) data ≠ [] := by
        intro h0; have := congrArg List.length h0; simp only [List.length_drop, List.length_nil] at this; omega
      simp only [hne, ne_eq, not_false_eq_true, if_true, heo, if_false, applyAccs_cons, applyAccs_nil, applyAcc,
        List.singleton_append, List.cons_append, List.nil_append]
      rw [tail_buffer c.W hW32 _ _ (by rw [List.length_drop]; omega),
        apply_two _ _ _ _ _ (by rw [List.length_take]; omega), List.length_drop, ← List.append_assoc]
      have := hmid 0 (by omega)
      simp only [List.take_zero, List.nil_append, Nat.sub_zero, List.drop_zero] at this
      rw [this]
      congr 4
      omega
  · have hne1 : List.take (c.W - ts % c.W) data ≠ [] := by
      intro h0; have := congrArg List.length h0; simp only [List.length_take, List.length_nil] at this; omega
    simp only [hso, if_false, hne1, ne_eq, not_false_eq_true, if_true] at htl ⊢
    rw [head_buffer c.W hW32 _ _ (by rw [List.length_take]; omega), List.length_take,
      Nat.min_eq_left (by omega), show c.W - (c.W - ts % c.W) = ts % c.W by omega]
    by_cases heo : eo = 0
    · subst heo
      simp only [Nat.sub_zero, List.drop_length, ne_eq, not_true_eq_false, if_false, List.append_nil,
        if_true, List.replicate_zero, applyAccs_cons, applyAccs_nil, applyAcc, List.singleton_append]
      rw [apply_two _ _ _ _ _ (by rw [List.length_append, List.length_replicate, List.length_take]; omega),
        List.append_assoc]
      have := hmid (c.W - ts % c.W) (by omega)
      simp only [Nat.sub_zero, List.drop_length, List.append_nil] at this
      rw [this]
    · have hne : List.drop (data.length - eo) data ≠ [] := by
        intro h0; have := congrArg List.length h0; simp only [List.length_drop, List.length_nil] at this; omega
      simp only [hne, ne_eq, not_false_eq_true, if_true, heo, if_false, applyAccs_cons, applyAccs_nil, applyAcc,
        List.singleton_append, List.cons_append, List.nil_append]
      rw [tail_buffer c.W hW32 _ _ (by rw [List.length_drop]; omega),
        apply_two _ _ _ _ _ (by
          simp only [List.length_append, List.length_replicate, List.length_take, List.length_drop]; omega),
        apply_two _ _ _ _ _ (by
          simp only [List.length_append, List.length_replicate, List.length_take, List.length_drop]; omega),
        List.length_drop]
      simp only [List.append_assoc]
      conv => rhs; rw [← hmid (c.W - ts % c.W) (by omega)]
      simp only [List.append_assoc]
      congr 7
      omega

/-- `get` returns the `len` bytes at the block address: blocks are contiguous, without padding -/
theorem dataGetVal_eq_read (c : Cfg) (hW : 0 < c.W) (hW32 : c.W ≤ MAX_WORD_SIZE) (f : Flash) (m len : Nat)
    (hlen : c.W ≤ len) : dataGetVal c f m len = f.read (blockAddr c len m) len := by
  have hl : (List.replicate len 0).length = len := List.length_replicate
  have htl := tail_le c hW (blockAddr c len m) len hlen
  have hmle := Nat.mod_le (blockAddr c len m) c.W
  have hml := Nat.mod_lt (blockAddr c len m) hW
  have hml2 := Nat.mod_lt (blockAddr c len m + len) hW
  simp only [dataGetVal, dataSplit_eq c hW m (List.replicate len 0) (by rw [hl]; exact hlen), hl]
  generalize blockAddr c len m = ts at *
  generalize hEo : (ts + len) % c.W = eo at *
  simp only [List.length_take, List.length_drop, List.length_replicate]
  have hhead : (if List.take (headLen c ts) (List.replicate len 0) ≠ [] then
      List.drop (MAX_WORD_SIZE - min (headLen c ts) len) (List.replicate (MAX_WORD_SIZE - c.W) 0 ++ f.read (ts - ts % c.W) c.W)
      else []) = f.read ts (headLen c ts) := by
    unfold headLen at *
    by_cases hso : ts % c.W = 0
    · simp [hso, read_zero]
    · have hne1 : List.take (c.W - ts % c.W) (List.replicate len 0) ≠ [] := by
        intro h0; have := congrArg List.length h0
        simp only [List.length_take, List.length_nil, List.length_replicate] at this; omega
      simp only [hso, if_false] at htl hne1 ⊢
      rw [if_pos hne1, List.drop_append, List.length_replicate, List.drop_replicate,
        show MAX_WORD_SIZE - c.W - (MAX_WORD_SIZE - min (c.W - ts % c.W) len) = 0 by omega, List.replicate_zero,
        List.nil_append, drop_read]
      congr 1 <;> omega
  have htail : (if List.drop (len - eo) (List.replicate len 0) ≠ [] then
      List.take (len - (len - eo)) (f.read (ts + (len - eo)) c.W ++ List.replicate (MAX_WORD_SIZE - c.W) 0)
      else []) = f.read (ts + (len - eo)) eo := by
    by_cases heo : eo = 0
    · subst heo; simp [read_zero]
    · have hne : List.drop (len - eo) (List.replicate len 0) ≠ [] := by
        intro h0; have := congrArg List.length h0
        simp only [List.length_drop, List.length_nil, List.length_replicate] at this; omega
      rw [if_pos hne, List.take_append_of_le_length (by rw [length_read]; omega), take_read _ _ _ _ (by omega)]
      congr 1; omega
  rw [hhead, htail, Nat.min_eq_left (by omega), read_append,
    show headLen c ts + (len - headLen c ts - eo) = len - eo by omega, read_append]
  congr 1; omega

/-- the programs of `store` in closed form -/
theorem dataStoreAccs_eq (c : Cfg) (hW : 0 < c.W) (hW32 : c.W ≤ MAX_WORD_SIZE) (m : Nat) (data : List Nat)
    (hlen : c.W ≤ data.length) :
    let ts := blockAddr c data.length m
    let eo := (ts + data.length) % c.W
    dataStoreAccs c m data =
      (if ts % c.W ≠ 0 then
        [Acc.program (ts - ts % c.W) (List.replicate (ts % c.W) 0xFF ++ data.take (c.W - ts % c.W))] else []) ++
      [Acc.program (ts + headLen c ts) ((data.drop (headLen c ts)).take (data.length - headLen c ts - eo))] ++
      (if eo ≠ 0 then
        [Acc.program (ts + (data.length - eo)) (data.drop (data.length - eo) ++ List.replicate (c.W - eo) 0xFF)] else []) := by
  intro ts eo
  have htl := tail_le c hW (blockAddr c data.length m) data.length hlen
  have hmle := Nat.mod_le (blockAddr c data.length m) c.W
  have hml := Nat.mod_lt (blockAddr c data.length m) hW
  have hml2 := Nat.mod_lt (blockAddr c data.length m + data.length) hW
  simp only [dataStoreAccs, dataSplit_eq c hW m data hlen]
  show _ = (if ts % c.W ≠ 0 then _ else _) ++ _ ++ (if eo ≠ 0 then _ else _)
  have e1 : blockAddr c data.length m = ts := rfl
  have e2 : (ts + data.length) % c.W = eo := rfl
  rw [e1] at htl hmle hml hml2 ⊢
  rw [e2] at htl hml2 ⊢
  generalize ts = ts at *
  generalize eo = eo at *
  congr 1
  · congr 1
    by_cases hso : ts % c.W = 0
    · simp [headLen, hso]
    · unfold headLen at htl ⊢
      simp only [hso, if_false] at htl ⊢
      have hne1 : List.take (c.W - ts % c.W) data ≠ [] := by
        intro h0; have := congrArg List.length h0; simp only [List.length_take, List.length_nil] at this; omega
      simp only [hne1, ne_eq, not_false_eq_true, if_true]
      rw [head_buffer c.W hW32 _ _ (by rw [List.length_take]; omega), List.length_take,
        Nat.min_eq_left (by omega), show c.W - (c.W - ts % c.W) = ts % c.W by omega, if_pos hso]
  · by_cases heo : eo = 0
    · subst heo; simp
    · have hne : List.drop (data.length - eo) data ≠ [] := by
        intro h0; have := congrArg List.length h0; simp only [List.length_drop, List.length_nil] at this; omega
      simp only [hne, heo, ne_eq, not_false_eq_true, if_true]
      rw [tail_buffer c.W hW32 _ _ (by rw [List.length_drop]; omega), List.length_drop]
      congr 4
      omega

theorem getD_padded (a b v : Nat) (data : List Nat) (i : Nat) :
    ((List.replicate a v ++ data ++ List.replicate b v)[i]?).getD v =
      if a ≤ i ∧ i < a + data.length then (data[i - a]?).getD v else v := by
  by_cases h1 : i < a
  · rw [List.append_assoc, List.getElem?_append_left (by rw [List.length_replicate]; exact h1),
      List.getElem?_replicate, if_pos h1, if_neg (by omega)]; rfl
  · by_cases h2 : i < a + data.length
    · rw [List.getElem?_append_left (by rw [List.length_append, List.length_replicate]; exact h2),
        List.getElem?_append_right (by rw [List.length_replicate]; omega), List.length_replicate, if_pos ⟨by omega, h2⟩]
    · rw [List.getElem?_append_right (by rw [List.length_append, List.length_replicate]; omega),
        List.getElem?_replicate, if_neg (show ¬ (a ≤ i ∧ i < a + data.length) from fun h => h2 h.2)]
      split <;> rfl

/-- byte `x` after `store m data`: the block's bytes are programmed, every other byte keeps its value -/
theorem byte_dataStore (c : Cfg) (hW : 0 < c.W) (hW32 : c.W ≤ MAX_WORD_SIZE) (f : Flash) (hwf : WF f) (m : Nat)
    (data : List Nat) (hlen : c.W ≤ data.length) (x : Nat) :
    (applyAccs f (dataStoreAccs c m data)).byte x =
      if blockAddr c data.length m ≤ x ∧ x < blockAddr c data.length m + data.length ∧ x < f.size
      then f.byte x &&& (data[x - blockAddr c data.length m]?).getD 0xFF else f.byte x := by
  rw [dataStore_apply c hW hW32 f m data hlen, byte_apply_program]
  unfold dataImage
  rw [getD_padded]
  have hmle := Nat.mod_le (blockAddr c data.length m) c.W
  generalize blockAddr c data.length m = ts at *
  by_cases hin : ts ≤ x ∧ x < ts + data.length ∧ x < f.size
  · rw [if_pos hin, if_pos, if_pos (by omega)]
    · congr 3; omega
    · simp only [List.length_append, List.length_replicate]; omega
  · rw [if_neg hin]
    split
    · split
      · omega
      · exact and_ff_of_lt (hwf x)
    · rfl

theorem blockAddr_disjoint (c : Cfg) (len : Nat) {m j : Nat} (h : m ≠ j) :
    blockAddr c len m + len ≤ blockAddr c len j ∨ blockAddr c len j + len ≤ blockAddr c len m := by
  unfold blockAddr
  rcases Nat.lt_or_gt_of_ne h with h | h
  · left
    have := Nat.mul_le_mul_right len (show m + 1 ≤ j by omega)
    rw [Nat.add_mul, Nat.one_mul] at this; omega
  · right
    have := Nat.mul_le_mul_right len (show j + 1 ≤ m by omega)
    rw [Nat.add_mul, Nat.one_mul] at this; omega

def dataSys (c : Cfg) (len : Nat) (hW : 0 < c.W) (hW32 : c.W ≤ MAX_WORD_SIZE) (hlen : c.W ≤ len) : SlotSys where
  lo m := blockAddr c len m
  hi m := blockAddr c len m + len
  store f m d := applyAccs f (dataStoreAccs c m d)
  get f m := dataGetVal c f m len
  ok m d := d.length = len ∧ (∀ b ∈ d, b < 256) ∧ blockAddr c len m + len ≤ c.stop
  okIdx _ := True
  good f := WF f ∧ c.stop ≤ f.size
  good_store := by
    intro f m d hg _
    exact ⟨WF_applyAccs hg.1 _, by rw [size_applyAccs]; exact hg.2⟩
  disjoint := by
    intro m j h
    exact blockAddr_disjoint c len h
  frame_byte := by
    intro f m d x hg hok hx
    rw [byte_dataStore c hW hW32 f hg.1 m d (by rw [hok.1]; exact hlen), hok.1, if_neg (by omega)]
  get_congr := by
    intro f g m _ h
    rw [dataGetVal_eq_read c hW hW32 f m len hlen, dataGetVal_eq_read c hW hW32 g m len hlen]
    exact read_congr f g _ _ h
  ok_idx := fun _ => trivial
  roundtrip1 := by
    intro f m d hg hok her
    obtain ⟨hl, hb, hcap⟩ := hok
    rw [dataGetVal_eq_read c hW hW32 _ m len hlen]
    apply List.ext_getElem?
    intro i
    rw [getElem?_read]
    by_cases hi : i < len
    · rw [if_pos hi, byte_dataStore c hW hW32 f hg.1 m d (by rw [hl]; exact hlen), hl,
        if_pos ⟨by omega, by omega, by have := hg.2; omega⟩, her _ (by omega) (by omega)]
      have e : blockAddr c len m + i - blockAddr c len m = i := by omega
      rw [e, List.getElem?_eq_getElem (by omega)]
      simp only [Option.getD_some]
      rw [ff_and_of_lt (hb _ (List.getElem_mem _))]
    · rw [if_neg hi, List.getElem?_eq_none (by omega)]


/-! ## accesses -/

theorem sub_mod_self_mod (a W : Nat) : (a - a % W) % W = 0 := by
  have := Nat.div_add_mod a W
  have e : a - a % W = W * (a / W) := by omega
  rw [e, Nat.mul_mod_right]

theorem le_sub_mod {s a W : Nat} (hs : s % W = 0) (h : s ≤ a) : s ≤ a - a % W := by
  obtain ⟨q, rfl⟩ := Nat.dvd_of_mod_eq_zero hs
  have := Nat.div_add_mod a W
  have e : a - a % W = W * (a / W) := by omega
  rw [e]
  rcases Nat.eq_zero_or_pos W with h0 | hW
  · subst h0; simp
  · exact Nat.mul_le_mul_left W ((Nat.le_div_iff_mul_le hW).mpr (by rw [Nat.mul_comm]; exact h))

theorem next_boundary_le {e stop W : Nat} (hW : 0 < W) (hstop : stop % W = 0) (he : e ≤ stop) (hne : e % W ≠ 0) :
    e - e % W + W ≤ stop := by
  obtain ⟨q, rfl⟩ := Nat.dvd_of_mod_eq_zero hstop
  have h1 := Nat.div_add_mod e W
  have e1 : e - e % W + W = W * (e / W + 1) := by rw [Nat.mul_add, Nat.mul_one]; omega
  rw [e1]
  apply Nat.mul_le_mul_left
  have hlt : e < q * W := by
    rcases Nat.lt_or_ge e (q * W) with h | h
    · exact h
    · exfalso; apply hne
      have : e = W * q := by rw [Nat.mul_comm] at h; omega
      rw [this, Nat.mul_mod_right]
  exact (Nat.div_lt_iff_lt_mul hW).mpr hlt

theorem dataStoreAccs_eq' (c : Cfg) (hW : 0 < c.W) (hW32 : c.W ≤ MAX_WORD_SIZE) (m : Nat) (data : List Nat)
    (hlen : c.W ≤ data.length) :
    dataStoreAccs c m data =
      (if blockAddr c data.length m % c.W ≠ 0 then
        [Acc.program (blockAddr c data.length m - blockAddr c data.length m % c.W)
          (List.replicate (blockAddr c data.length m % c.W) 0xFF ++ data.take (c.W - blockAddr c data.length m % c.W))]
       else []) ++
      [Acc.program (blockAddr c data.length m + headLen c (blockAddr c data.length m))
        ((data.drop (headLen c (blockAddr c data.length m))).take
          (data.length - headLen c (blockAddr c data.length m) - (blockAddr c data.length m + data.length) % c.W))] ++
      (if (blockAddr c data.length m + data.length) % c.W ≠ 0 then
        [Acc.program (blockAddr c data.length m + (data.length - (blockAddr c data.length m + data.length) % c.W))
          (data.drop (data.length - (blockAddr c data.length m + data.length) % c.W) ++
            List.replicate (c.W - (blockAddr c data.length m + data.length) % c.W) 0xFF)]
       else []) :=
  dataStoreAccs_eq c hW hW32 m data hlen

/-- the programs of `store`: aligned, multiples of `W`, inside the range -/
theorem dataStore_accs (c : Cfg) (hW : 0 < c.W) (hW32 : c.W ≤ MAX_WORD_SIZE) (hs : c.start % c.W = 0)
    (hstop : c.stop % c.W = 0) (m : Nat) (data : List Nat) (hlen : c.W ≤ data.length)
    (hcap : blockAddr c data.length m + data.length ≤ c.stop) :
    ∀ a ∈ dataStoreAccs c m data, (∃ addr bs, a = .program addr bs) ∧ a.aligned c ∧ a.inRange c := by
  rw [dataStoreAccs_eq' c hW hW32 m data hlen]
  have hge : c.start ≤ blockAddr c data.length m := by unfold blockAddr; omega
  have htl := tail_le c hW (blockAddr c data.length m) data.length hlen
  obtain ⟨hk1, hk2⟩ := headLen_spec c hW (blockAddr c data.length m)
  have hmle := Nat.mod_le (blockAddr c data.length m) c.W
  have hml := Nat.mod_lt (blockAddr c data.length m) hW
  have hml2 := Nat.mod_lt (blockAddr c data.length m + data.length) hW
  have hmle2 := Nat.mod_le (blockAddr c data.length m + data.length) c.W
  have hps := sub_mod_self_mod (blockAddr c data.length m) c.W
  have hpe := sub_mod_self_mod (blockAddr c data.length m + data.length) c.W
  have hlo := le_sub_mod hs hge
  generalize blockAddr c data.length m = ts at *
  intro a ha
  simp only [List.mem_append, List.mem_singleton] at ha
  rcases ha with (ha | rfl) | ha
  · split at ha
    · rename_i hso
      rw [List.mem_singleton] at ha; subst ha
      have hl : (List.replicate (ts % c.W) 0xFF ++ List.take (c.W - ts % c.W) data).length = c.W := by
        rw [List.length_append, List.length_replicate, List.length_take]; omega
      refine ⟨⟨_, _, rfl⟩, ⟨hps, by rw [hl]; exact Nat.mod_self _⟩, ?_⟩
      simp only [Acc.inRange, hl]
      unfold headLen at htl; rw [if_neg hso] at htl
      omega
    · cases ha
  · have hl : (List.take (data.length - headLen c ts - (ts + data.length) % c.W) (List.drop (headLen c ts) data)).length
        = data.length - headLen c ts - (ts + data.length) % c.W := by
      rw [List.length_take, List.length_drop]; omega
    refine ⟨⟨_, _, rfl⟩, ⟨hk1, ?_⟩, ?_⟩
    · rw [hl, show data.length - headLen c ts - (ts + data.length) % c.W
          = (ts + data.length - (ts + data.length) % c.W) - (ts + headLen c ts) by omega]
      exact Nat.sub_mod_eq_zero_of_mod_eq (by rw [hpe, hk1])
    · simp only [Acc.inRange, hl]; omega
  · split at ha
    · rename_i heo
      rw [List.mem_singleton] at ha; subst ha
      have hl : (List.drop (data.length - (ts + data.length) % c.W) data ++
          List.replicate (c.W - (ts + data.length) % c.W) 0xFF).length = c.W := by
        rw [List.length_append, List.length_replicate, List.length_drop]; omega
      have hb := next_boundary_le hW hstop hcap heo
      refine ⟨⟨_, _, rfl⟩, ⟨?_, by rw [hl]; exact Nat.mod_self _⟩, ?_⟩
      · rw [show ts + (data.length - (ts + data.length) % c.W) = ts + data.length - (ts + data.length) % c.W by omega]
        exact hpe
      · simp only [Acc.inRange, hl]; omega
    · cases ha

/-- programs entirely below `a` leave the bytes from `a` on alone -/
theorem programOk_after (f : Flash) (prev : List Acc) (a : Nat) (bs : List Nat)
    (hprev : ∀ p ∈ prev, ∃ a' bs', p = Acc.program a' bs' ∧ a' + bs'.length ≤ a) (h : ProgramOk f a bs) :
    ProgramOk (applyAccs f prev) a bs := by
  induction prev generalizing f with
  | nil => exact h
  | cons p prev ih =>
    rw [applyAccs_cons]
    apply ih _ (fun p' hp' => hprev p' (List.mem_cons_of_mem _ hp'))
    obtain ⟨a', bs', rfl, hle⟩ := hprev p List.mem_cons_self
    intro i hi
    simp only [applyAcc]
    rw [byte_apply_program_of_not_mem _ _ _ _ (by omega)]
    exact h i hi

/-- `store` into an erased block needs no 0 → 1 transition: block bytes land on erased cells, the bytes that belong
    to the neighbours are programmed with `0xFF` -/
theorem dataStore_seqOk (c : Cfg) (hW : 0 < c.W) (hW32 : c.W ≤ MAX_WORD_SIZE) (f : Flash) (m : Nat) (data : List Nat)
    (hlen : c.W ≤ data.length)
    (her : Erased f (blockAddr c data.length m) (blockAddr c data.length m + data.length)) :
    SeqOk f (dataStoreAccs c m data) := by
  rw [dataStoreAccs_eq' c hW hW32 m data hlen]
  have htl := tail_le c hW (blockAddr c data.length m) data.length hlen
  obtain ⟨hk1, hk2⟩ := headLen_spec c hW (blockAddr c data.length m)
  have hmle := Nat.mod_le (blockAddr c data.length m) c.W
  have hml := Nat.mod_lt (blockAddr c data.length m) hW
  have hml2 := Nat.mod_lt (blockAddr c data.length m + data.length) hW
  have hmle2 := Nat.mod_le (blockAddr c data.length m + data.length) c.W
  generalize blockAddr c data.length m = ts at *
  have hhl : headLen c ts = if ts % c.W = 0 then 0 else c.W - ts % c.W := rfl
  have hL1 : ∀ p ∈ (if ts % c.W ≠ 0 then
        [Acc.program (ts - ts % c.W) (List.replicate (ts % c.W) 0xFF ++ data.take (c.W - ts % c.W))] else []),
      ∃ a' bs', p = Acc.program a' bs' ∧ a' + bs'.length ≤ ts + headLen c ts := by
    intro p hp
    split at hp
    · rename_i hso
      rw [List.mem_singleton] at hp; subst hp
      refine ⟨_, _, rfl, ?_⟩
      rw [List.length_append, List.length_replicate, List.length_take]
      rw [if_neg hso] at hhl
      omega
    · cases hp
  have hS1 : SeqOk f (if ts % c.W ≠ 0 then
        [Acc.program (ts - ts % c.W) (List.replicate (ts % c.W) 0xFF ++ data.take (c.W - ts % c.W))] else []) := by
    split
    · rename_i hso
      refine ⟨?_, trivial⟩
      intro i hi
      rw [List.length_append, List.length_replicate, List.length_take] at hi
      by_cases h1 : i < ts % c.W
      · right
        rw [List.getElem?_append_left (by rw [List.length_replicate]; exact h1), List.getElem?_replicate, if_pos h1]
      · left
        rw [if_neg hso] at hhl
        exact her _ (by omega) (by omega)
    · trivial
  generalize (if ts % c.W ≠ 0 then
        [Acc.program (ts - ts % c.W) (List.replicate (ts % c.W) 0xFF ++ data.take (c.W - ts % c.W))] else []) = L1 at *
  rw [SeqOk_append, SeqOk_append]
  refine ⟨⟨hS1, ?_, trivial⟩, ?_⟩
  · apply programOk_after _ _ _ _ hL1
    intro i hi
    left
    rw [List.length_take, List.length_drop] at hi
    exact her _ (by omega) (by omega)
  · by_cases heo : (ts + data.length) % c.W ≠ 0
    · rw [if_pos heo]
      refine ⟨?_, trivial⟩
      apply programOk_after
      · intro p hp
        simp only [List.mem_append, List.mem_singleton] at hp
        rcases hp with hp | rfl
        · obtain ⟨a', bs', rfl, hle⟩ := hL1 p hp
          exact ⟨_, _, rfl, by omega⟩
        · refine ⟨_, _, rfl, ?_⟩
          rw [List.length_take, List.length_drop]; omega
      · intro i hi
        rw [List.length_append, List.length_replicate, List.length_drop] at hi
        by_cases h1 : i < (ts + data.length) % c.W
        · left; exact her _ (by omega) (by omega)
        · right
          rw [List.getElem?_append_right (by rw [List.length_drop]; omega), List.getElem?_replicate,
            if_pos (by rw [List.length_drop]; omega)]
    · rw [if_neg heo]; trivial

/-- the reads of `get`: aligned to the read size, inside the range -/
theorem dataGet_accs (c : Cfg) (hW : 0 < c.W) (hR : c.R ∣ c.W) (hs : c.start % c.W = 0)
    (hstop : c.stop % c.W = 0) (m len : Nat) (hlen : c.W ≤ len) (hcap : blockAddr c len m + len ≤ c.stop) :
    ∀ a ∈ dataGetAccs c m len, (∃ addr n, a = .read addr n) ∧ a.aligned c ∧ a.inRange c := by
  have hl : (List.replicate len 0).length = len := List.length_replicate
  simp only [dataGetAccs, dataSplit_eq c hW m (List.replicate len 0) (by rw [hl]; exact hlen), hl]
  have hge : c.start ≤ blockAddr c len m := by unfold blockAddr; omega
  have htl := tail_le c hW (blockAddr c len m) len hlen
  obtain ⟨hk1, hk2⟩ := headLen_spec c hW (blockAddr c len m)
  have hmle := Nat.mod_le (blockAddr c len m) c.W
  have hml := Nat.mod_lt (blockAddr c len m) hW
  have hml2 := Nat.mod_lt (blockAddr c len m + len) hW
  have hmle2 := Nat.mod_le (blockAddr c len m + len) c.W
  have hps := sub_mod_self_mod (blockAddr c len m) c.W
  have hpe := sub_mod_self_mod (blockAddr c len m + len) c.W
  have hlo := le_sub_mod hs hge
  generalize blockAddr c len m = ts at *
  have hhl : headLen c ts = if ts % c.W = 0 then 0 else c.W - ts % c.W := rfl
  intro a ha
  simp only [List.mem_append, List.mem_singleton] at ha
  rcases ha with (ha | rfl) | ha
  · split at ha
    · rename_i hne
      rw [List.mem_singleton] at ha; subst ha
      have hso : ts % c.W ≠ 0 := by
        intro h0; apply hne; rw [hhl, if_pos h0, List.take_zero]
      rw [if_neg hso] at hhl
      refine ⟨⟨_, _, rfl⟩, ⟨mod_of_mod_of_dvd hR hps, Nat.mod_eq_zero_of_dvd hR⟩, ?_⟩
      simp only [Acc.inRange]; omega
    · cases ha
  · have hl2 : (List.take (len - headLen c ts - (ts + len) % c.W) (List.drop (headLen c ts) (List.replicate len 0))).length
        = len - headLen c ts - (ts + len) % c.W := by
      rw [List.length_take, List.length_drop, hl]; omega
    refine ⟨⟨_, _, rfl⟩, ⟨mod_of_mod_of_dvd hR hk1, ?_⟩, ?_⟩
    · rw [hl2, show len - headLen c ts - (ts + len) % c.W = (ts + len - (ts + len) % c.W) - (ts + headLen c ts) by omega]
      exact mod_of_mod_of_dvd hR (Nat.sub_mod_eq_zero_of_mod_eq (by rw [hpe, hk1]))
    · simp only [Acc.inRange, hl2]; omega
  · split at ha
    · rename_i hne
      rw [List.mem_singleton] at ha; subst ha
      have heo : (ts + len) % c.W ≠ 0 := by
        intro h0; apply hne; rw [h0, Nat.sub_zero]; exact List.drop_eq_nil_of_le (by rw [hl]; exact Nat.le_refl _)
      have hb := next_boundary_le hW hstop hcap heo
      refine ⟨⟨_, _, rfl⟩, ⟨?_, Nat.mod_eq_zero_of_dvd hR⟩, ?_⟩
      · rw [show ts + (len - (ts + len) % c.W) = ts + len - (ts + len) % c.W by omega]
        exact mod_of_mod_of_dvd hR hpe
      · simp only [Acc.inRange]; omega
    · cases ha

end Fuota.FlashAdapters
