import Fuota.Lemmas.RefineTornRecover
/-!
# A `handle_segment` call with the power lost inside one of its programs (a torn program), outside `finish`
-/
namespace Fuota.Updater
open Fuota.Nor Fuota.Fs Fuota.FlashAdapters Fuota.Recon Fuota.Layout Fuota.Gf2

/-- `write_segment` with the power lost inside its first program (data torn), inside its second (mark torn), or
    later (both programs succeed) -/
theorem writeSegment_torn {u : Upd} {d : Dev} (g : Geo u d.flash.size) (hG : Good d) {i : Nat} (hi : i < u.n)
    (buf : List Nat) (hlen : buf.length = u.bs) (p keep : Nat) :
    (∃ e, (u.fw.writeSegment i buf).run (d.withTear 0 p keep) = (.error (.spi .custom), e) ∧ e.dead = true ∧
      Good e.reboot ∧ e.reboot.flash = d.flash.apply (tear p keep (.program (segAddr u i) buf))) ∧
    (∃ e, (u.fw.writeSegment i buf).run (d.withTear 1 p keep) = (.error (.spi .custom), e) ∧ e.dead = true ∧
      Good e.reboot ∧ e.reboot.flash =
        (d.flash.apply (.program (segAddr u i) buf)).apply (tear p keep (.program (statAddr u i) [0x33]))) ∧
    (∀ k, ∃ d', (u.fw.writeSegment i buf).run (d.withTear (k + 2) p keep) = (.ok u.fw, d')) := by
  obtain ⟨h4, h5⟩ := g.seg hi
  obtain ⟨h1, h2, h3, _⟩ := g.slots
  have hn := g.hn
  have hb1 : segAddr u i + buf.length ≤ d.flash.size := by simp only [segAddr]; omega
  have hb2 : statAddr u i + [0x33].length ≤ (d.prog (segAddr u i) buf).flash.size := by
    rw [Dev.prog_size]; simp only [statAddr, List.length_singleton]; omega
  refine ⟨?_, ?_, fun k => ?_⟩
  · obtain ⟨e, w1, w2, w3, w4⟩ := writeFrom_run_torn (hG.withTear 0 p keep) (segAddr u i) buf hb1
    exact ⟨e, by rw [writeSegment_eq g hi buf hlen, run_bind, w1], w2, w3, w4⟩
  · obtain ⟨w1, w2⟩ := writeFrom_run_armedT (hG.withTear 1 p keep) (segAddr u i) buf hb1
    obtain ⟨e, v1, v2, v3, v4⟩ := writeFrom_run_torn w2 (statAddr u i) [0x33] hb2
    refine ⟨e, ?_, v2, v3, v4⟩
    rw [writeSegment_eq g hi buf hlen, run_bind, w1]
    simp only
    rw [run_bind, v1]
  · obtain ⟨w1, w2⟩ := writeFrom_run_armedT (hG.withTear (k + 1 + 1) p keep) (segAddr u i) buf hb1
    obtain ⟨v1, v2⟩ := writeFrom_run_armedT w2 (statAddr u i) [0x33] hb2
    refine ⟨((d.withTear (k + 1 + 1) p keep).prog (segAddr u i) buf).prog (statAddr u i) [0x33], ?_⟩
    rw [writeSegment_eq g hi buf hlen, run_bind, w1]
    simp only
    rw [run_bind, v1]
    rfl

/-- the two programs of a pivot with the power lost inside the first (block torn), inside the second (row torn), or
    later (both succeed) -/
theorem pairStore_torn {u : Upd} {d : Dev} (g : Geo u d.flash.size) (hG : Good d) {q : Nat} (hq : q < u.maxL)
    (row : Nat) (data : List Nat) (hlen : data.length = u.bs) (p keep : Nat) :
    (∃ e, (pairStore u q row data).run (d.withTear 0 p keep) = (.error (.spi .custom), e) ∧ e.dead = true ∧
      Good e.reboot ∧ e.reboot.flash = d.flash.apply (tear p keep (.program (pAddr u q) data))) ∧
    (∃ e, (pairStore u q row data).run (d.withTear 1 p keep) = (.error (.spi .custom), e) ∧ e.dead = true ∧
      Good e.reboot ∧ e.reboot.flash =
        (d.flash.apply (.program (pAddr u q) data)).apply (tear p keep (.program (rAddr u q) (rowBytes q row)))) ∧
    (∀ k, ∃ d', (pairStore u q row data).run (d.withTear (k + 2) p keep) = (.ok (u.used ||| 2 ^ q), d')) := by
  obtain ⟨q1, q2, q3, q4⟩ := g.regions.2 q hq
  obtain ⟨h1, h2, _, h3, _, _, h4⟩ := g.slots
  have hrl := (rowBytes_spec q row).2
  have hb1 : pAddr u q + data.length ≤ d.flash.size := by omega
  have hb2 : rAddr u q + (rowBytes q row).length ≤ (d.prog (pAddr u q) data).flash.size := by
    rw [Dev.prog_size, hrl]; omega
  refine ⟨?_, ?_, fun k => ?_⟩
  · obtain ⟨e, w1, w2, w3, w4⟩ := writeFrom_run_torn (hG.withTear 0 p keep) (pAddr u q) data hb1
    refine ⟨e, ?_, w2, w3, w4⟩
    unfold pairStore
    rw [run_bind, pStore_eq g hq data hlen, w1]
  · obtain ⟨w1, w2⟩ := writeFrom_run_armedT (hG.withTear 1 p keep) (pAddr u q) data hb1
    obtain ⟨e, v1, v2, v3, v4⟩ := writeFrom_run_torn w2 (rAddr u q) (rowBytes q row) hb2
    refine ⟨e, ?_, v2, v3, v4⟩
    unfold pairStore
    rw [run_bind, pStore_eq g hq data hlen, w1]
    simp only
    rw [run_bind, mSetRow_eq g hq row, v1]
  · obtain ⟨w1, w2⟩ := writeFrom_run_armedT (hG.withTear (k + 1 + 1) p keep) (pAddr u q) data hb1
    obtain ⟨v1, v2⟩ := writeFrom_run_armedT w2 (rAddr u q) (rowBytes q row) hb2
    refine ⟨((d.withTear (k + 1 + 1) p keep).prog (pAddr u q) data).prog (rAddr u q) (rowBytes q row), ?_⟩
    unfold pairStore
    rw [run_bind, pStore_eq g hq data hlen, w1]
    simp only
    rw [run_bind, mSetRow_eq g hq row, v1]
    rfl

/-- stage 2 with a pivot to store and the power lost inside the block program, inside the row program, or later -/
theorem Stage2Store.run_torn {ffr : Bool} {u : Upd} {d : Dev} {index : Nat} {bytes : List Nat} {r q row' : Nat}
    {data' : List Nat} (S : Stage2Store ffr u d index bytes r q row' data') (p keep : Nat) :
    (∃ e, (stage2U ffr u index bytes).run (u, d.withTear 0 p keep) = (.error (.spi .custom), (u, e)) ∧
      e.dead = true ∧ Good e.reboot ∧
      e.reboot.flash = d.flash.apply (tear p keep (.program (pAddr u q) data'))) ∧
    (∃ e, (stage2U ffr u index bytes).run (u, d.withTear 1 p keep) = (.error (.spi .custom), (u, e)) ∧
      e.dead = true ∧ Good e.reboot ∧
      e.reboot.flash = (d.flash.apply (.program (pAddr u q) data')).apply
        (tear p keep (.program (rAddr u q) (rowBytes q row')))) ∧
    (∀ k, ∃ d', (stage2U ffr u index bytes).run (u, d.withTear (k + 2) p keep) =
      (stage2Tail u (u.used ||| 2 ^ q)).run (u, d')) := by
  have L := S.law
  have g := L.geo
  obtain ⟨hp, hpm, _, hdl, hlU⟩ := S.facts
  have hwu : warm u = u := warm_of_some g.hseg
  have hrun : ∀ k, (stage2U ffr u index bytes).run (u, d.withTear k p keep) =
      match (pairStore u q row' data').run (d.withTear k p keep) with
      | (.ok used', d') => (stage2Tail u used').run (u, d')
      | (.error e, d') => (.error e, (u, d')) := by
    intro k
    have hs := strip_run_live (d := d.withTear k p keep) g L.good.alive L.hdone r (List.range u.n) bytes
    rw [stage2U_run_of_strip ffr (d := d.withTear k p keep) (by rw [hwu]; exact g) L.good.alive L.hl index bytes r
      S.hrow _ hs (by rw [length_stripF]; exact S.len)]
    rw [show (d.withTear k p keep).flash = d.flash from rfl, S.dec]
    rfl
  obtain ⟨⟨e0, a1, a2, a3, a4⟩, ⟨e1, b1, b2, b3, b4⟩, c⟩ := pairStore_torn g L.good hpm row' data' hdl p keep
  refine ⟨⟨e0, by rw [hrun, a1], a2, a3, a4⟩, ⟨e1, by rw [hrun, b1], b2, b3, b4⟩, fun k => ?_⟩
  obtain ⟨d', hd'⟩ := c k
  exact ⟨d', by rw [hrun, hd']⟩

/-- **the rebooted device after a torn program outside `finish`.** `(u, d)` is the lawful state before the call, `u1`
the lost in-memory updater, `e` the rebooted device; the flash of `e` is `d`'s with, on top,
* `data`: the torn data program of a stage-1 store;
* `mark`: the data program and the torn written-mark program of a stage-1 store;
* `block`: the torn block program of a stage-2 pivot store;
* `row`: the block program and the torn matrix-row program of a stage-2 pivot store. -/
inductive TornState (ffr : Bool) (u : Upd) (d : Dev) (index : Nat) (bytes : List Nat) (u1 : Upd) (e : Dev) : Prop
  | data (p keep : Nat) : Stage1Store u d index bytes → u1 = u →
      e.flash = d.flash.apply (tear p keep (.program (segAddr u index) bytes)) → TornState ffr u d index bytes u1 e
  | mark (p keep : Nat) : Stage1Store u d index bytes → u1 = u →
      e.flash = (d.flash.apply (.program (segAddr u index) bytes)).apply
        (tear p keep (.program (statAddr u index) [0x33])) → TornState ffr u d index bytes u1 e
  | block (r q row' : Nat) (data' : List Nat) (p keep : Nat) : rcComplete u = false → ¬ tooManyCond u index →
      (adjU u index).l ≠ 0 → Stage2Store ffr (adjU u index) d index bytes r q row' data' → u1 = adjU u index →
      e.flash = d.flash.apply (tear p keep (.program (pAddr (adjU u index) q) data')) →
      TornState ffr u d index bytes u1 e
  | row (r q row' : Nat) (data' : List Nat) (p keep : Nat) : rcComplete u = false → ¬ tooManyCond u index →
      (adjU u index).l ≠ 0 → Stage2Store ffr (adjU u index) d index bytes r q row' data' → u1 = adjU u index →
      e.flash = (d.flash.apply (.program (pAddr (adjU u index) q) data')).apply
        (tear p keep (.program (rAddr (adjU u index) q) (rowBytes q row'))) →
      TornState ffr u d index bytes u1 e

/-- **one torn program.** On a lawful state, a genuine fragment is delivered while the power is lost inside the
`k`-th mutating flash operation from now (tear `(p, keep)`). If the call answers an error and leaves the in-memory
updater incomplete (the power was not lost inside `finish`), the device is dead, the rebooted device is free of
injection, and it is in one of the states of `TornState`. -/
theorem torn_call (ffr : Bool) {u : Upd} {d : Dev} (L : Lawful u d) (index : Nat) (bytes : List Nat)
    (hb : IsBytes bytes) (hlen : bytes.length = u.bs) (hrow : (updaterRow ffr u.n index).isSome = true)
    (k p keep : Nat)
    (herr : ∃ er, ((handleSegment ffr (index + 1) bytes).run (u, d.withTear k p keep)).1 = .error er)
    (hinc : rcComplete ((handleSegment ffr (index + 1) bytes).run (u, d.withTear k p keep)).2.1 = false) :
    ((handleSegment ffr (index + 1) bytes).run (u, d.withTear k p keep)).2.2.dead = true ∧
    Good ((handleSegment ffr (index + 1) bytes).run (u, d.withTear k p keep)).2.2.reboot ∧
    TornState ffr u d index bytes ((handleSegment ffr (index + 1) bytes).run (u, d.withTear k p keep)).2.1
      ((handleSegment ffr (index + 1) bytes).run (u, d.withTear k p keep)).2.2.reboot ∧
    (k = 0 →
      (∀ j, j < u.n → ((handleSegment ffr (index + 1) bytes).run (u, d.withTear k p keep)).2.2.reboot.flash.byte
        (statAddr u j) = d.flash.byte (statAddr u j)) ∧
      (∀ m, m < u.maxL → ((handleSegment ffr (index + 1) bytes).run (u, d.withTear k p keep)).2.2.reboot.flash.byte
        (diagAddr u m) = d.flash.byte (diagAddr u m))) := by
  have hne : index + 1 ≠ 0 := by omega
  have g := L.base.geo
  obtain ⟨g1, g2, g3, g4, g5, g6, g7⟩ := g.slots
  have hsub : index + 1 - 1 = index := Nat.add_sub_cancel _ _
  obtain ⟨er, herr⟩ := herr
  cases classify ffr L index bytes hb hlen hrow with
  | quiet h =>
    obtain ⟨res, u', h⟩ := h
    have hq := h (d.withTear k p keep) L.base.good.alive rfl
    obtain ⟨o', s'', ho⟩ := handleSegment_of_ok ffr (index + 1) bytes hne (u, d.withTear k p keep) _ res
      (by rw [hsub]; exact hq)
    rw [ho] at herr; cases herr
  | store1 S =>
    obtain ⟨⟨e0, a1, a2, a3, a4⟩, ⟨e1, b1, b2, b3, b4⟩, c⟩ :=
      writeSegment_torn S.law.base.geo S.law.base.good S.hi bytes S.len p keep
    have hst := fun dev => handleSegment_stage1 ffr dev S.inc S.l0 S.hi S.fresh S.len
    match k with
    | 0 =>
      rw [hst, a1]
      obtain ⟨r1, r2, r3, r4⟩ := g.regions.1 index S.hi
      refine ⟨a2, a3, .data p keep S rfl a4, fun _ => ⟨fun j hj => ?_, fun m hm => ?_⟩⟩
      · obtain ⟨t1, t2, t3, t4⟩ := g.regions.1 j hj
        show e0.reboot.flash.byte _ = _
        rw [a4, torn_frame _ _ _ _ _ _ (by omega)]
      · obtain ⟨t1, t2, t3, t4⟩ := g.regions.2 m hm
        show e0.reboot.flash.byte _ = _
        rw [a4, torn_frame _ _ _ _ _ _ (by rw [S.len]; simp only [diagAddr]; omega)]
    | 1 => rw [hst, b1]; exact ⟨b2, b3, .mark p keep S rfl b4, fun h => absurd h (by omega)⟩
    | k' + 2 =>
      obtain ⟨d', hd'⟩ := c k'
      rw [hst, hd'] at herr
      simp only at herr
      split at herr <;> cases herr
  | store2 r q row' data' hincu hnt hl0 S =>
    obtain ⟨⟨e0, a1, a2, a3, a4⟩, ⟨e1, b1, b2, b3, b4⟩, c⟩ := S.run_torn p keep
    have hblk := fun dev => handleBlock_stage2_eq ffr u dev index bytes hlen hincu hnt hl0
    match k with
    | 0 =>
      rw [handleSegment_of_error ffr (index + 1) bytes hne (u, d.withTear 0 p keep) _ _ (by rw [hsub, hblk]; exact a1)]
      obtain ⟨f1, f2, f3, f4, f5, f6, f7, f8⟩ := adjU_fields u index
      obtain ⟨_, hqm, _, hdl, _⟩ := S.facts
      obtain ⟨q1, q2, q3, q4⟩ := S.law.geo.regions.2 q hqm
      have hpb : parBase (adjU u index) = parBase u := by simp only [parBase, f2]
      rw [hpb, f4, f7] at q2
      rw [hpb] at q1
      refine ⟨a2, a3, .block r q row' data' p keep hincu hnt hl0 S rfl a4, fun _ => ⟨fun j hj => ?_, fun m hm => ?_⟩⟩
      · obtain ⟨t1, t2, t3, t4⟩ := g.regions.1 j hj
        show e0.reboot.flash.byte _ = _
        rw [a4, torn_frame _ _ _ _ _ _ (by rw [hdl, f4]; omega)]
      · obtain ⟨t1, t2, t3, t4⟩ := g.regions.2 m hm
        show e0.reboot.flash.byte _ = _
        rw [a4, torn_frame _ _ _ _ _ _ (by rw [hdl, f4]; simp only [diagAddr]; omega)]
    | 1 =>
      rw [handleSegment_of_error ffr (index + 1) bytes hne (u, d.withTear 1 p keep) _ _ (by rw [hsub, hblk]; exact b1)]
      exact ⟨b2, b3, .row r q row' data' p keep hincu hnt hl0 S rfl b4, fun h => absurd h (by omega)⟩
    | k' + 2 =>
      obtain ⟨d', hrun⟩ := c k'
      have hb' : (handleBlock ffr (index + 1 - 1) bytes).run (u, d.withTear (k' + 2) p keep) =
          (stage2Tail (adjU u index) ((adjU u index).used ||| 2 ^ q)).run (adjU u index, d') := by
        rw [hsub, hblk]; exact hrun
      by_cases hc : rcComplete { adjU u index with used := (adjU u index).used ||| 2 ^ q } = true
      · rw [stage2Tail_complete hc] at hb'
        generalize (finishOuter (unknowns (adjU u index).done (adjU u index).n) (List.range (adjU u index).l)
          { adjU u index with used := (adjU u index).used ||| 2 ^ q }).run (adjU u index, d').2 = qq at hb'
        obtain ⟨res, d''⟩ := qq
        cases res with
        | ok u' =>
          obtain ⟨o', s'', ho⟩ := handleSegment_of_ok ffr (index + 1) bytes hne (u, d.withTear (k' + 2) p keep) _ _ hb'
          rw [ho] at herr; cases herr
        | error e' =>
          have := handleSegment_of_error ffr (index + 1) bytes hne (u, d.withTear (k' + 2) p keep) _ _ hb'
          rw [this] at hinc
          rw [show rcComplete { adjU u index with used := (adjU u index).used ||| 2 ^ q } = false from hinc] at hc
          cases hc
      · have hc' : rcComplete { adjU u index with used := (adjU u index).used ||| 2 ^ q } = false := by simpa using hc
        rw [stage2Tail_incomplete hc'] at hb'
        obtain ⟨o', s'', ho⟩ := handleSegment_of_ok ffr (index + 1) bytes hne (u, d.withTear (k' + 2) p keep) _ _ hb'
        rw [ho] at herr; cases herr

end Fuota.Updater
