import Fuota.Lemmas.FaultBlock
/-!
# A failed storage call outside `finish` is repaired by redelivering the block

Everything here holds for an *arbitrary* oracle `F`: the first failing call ends the delivery with an error, so the
state it leaves is the state before the delivery plus history, except in one place: when the parity store `pStore wh`
succeeded and the following `mSet wh` failed the parity store has one more entry, at the index `wh` that is *not* a
used pivot. `Frame` captures exactly this.
-/
namespace Fuota.Fault
open Fuota.Recon

/-- `a` is `b` up to history, store representation, and parity-store contents at indices that are not used pivots -/
def Frame (a b : St) : Prop :=
  a.n = b.n ∧ a.bs = b.bs ∧ a.l = b.l ∧ a.done = b.done ∧ a.used = b.used ∧
  (∀ k, get a.ds k = get b.ds k) ∧ (∀ k, get a.ms k = get b.ms k) ∧
  (∀ k, b.used.testBit k = true → get a.ps k = get b.ps k)

theorem Frame.of_eqv {a b : St} (h : Eqv a b) : Frame a b := by
  obtain ⟨h1, h2, h3, h4, h5, h6, h7, h8⟩ := h
  exact ⟨h1, h2, h3, h4, h5, h6, h8, fun k _ => h7 k⟩

theorem Frame.of_core {a b : St} (h : core a = core b) : Frame a b := Frame.of_eqv (Eqv.of_core h)

theorem Frame.trans {a b c : St} (h : Frame a b) (g : Frame b c) : Frame a c := by
  obtain ⟨h1, h2, h3, h4, h5, h6, h7, h8⟩ := h
  obtain ⟨g1, g2, g3, g4, g5, g6, g7, g8⟩ := g
  refine ⟨h1.trans g1, h2.trans g2, h3.trans g3, h4.trans g4, h5.trans g5, fun k => (h6 k).trans (g6 k),
    fun k => (h7 k).trans (g7 k), fun k hk => ?_⟩
  exact (h8 k (by rw [g5]; exact hk)).trans (g8 k hk)

theorem Frame.isComplete {a b : St} (h : Frame a b) : isComplete a = isComplete b :=
  isComplete_congr h.2.2.1 h.1 h.2.2.2.1 h.2.2.2.2.1

/-! ## unfolding `elim` one step, fault free -/

theorem elim_succ_used {wh row : Nat} {s : St} (data : Nat) (hr : row.testBit wh = true)
    (hu : s.used.testBit wh = true) :
    elim noFault (wh + 1) s row data =
      elim noFault wh { s with log := Call.mRow wh :: Call.pGet wh :: s.log, calls := s.calls + 1 + 1 }
        (row ^^^ get s.ms wh) (data ^^^ get s.ps wh) := by
  simp [elim, call_noFault, hr, hu]

theorem elim_succ_unused {wh row : Nat} {s : St} (data : Nat) (hr : row.testBit wh = true)
    (hu : ¬ s.used.testBit wh = true) :
    elim noFault (wh + 1) s row data =
      ({ s with ps := (wh, data) :: s.ps, ms := (wh, row) :: s.ms, used := s.used ||| 2 ^ wh,
                log := Call.mSet wh row :: Call.pStore wh data :: s.log, calls := s.calls + 1 + 1 }, .ok) := by
  simp [elim, call_noFault, hr, hu]

theorem elim_succ_skip (F : Nat → Bool) {wh row : Nat} (s : St) (data : Nat) (hr : ¬ row.testBit wh = true) :
    elim F (wh + 1) s row data = elim F wh s row data := by
  simp [elim, hr]

/-! ## the elimination loop -/

/-- **an `elim` that ends in an error leaves a state from which the fault-free `elim` does what it would have
    done from the original state** (and that state differs from the original only as `Frame` allows).
    The delicate case is a failing `mSet wh` after a successful `pStore wh data`: the retry conses the same
    `(wh, data)` once more, which `get` cannot see. -/
theorem elim_retry (F : Nat → Bool) :
    ∀ (n : Nat) (s : St) (row data : Nat) (s' : St) (e : Err), elim F n s row data = (s', .err e) →
      Frame s' s ∧ PEqv (elim noFault n s' row data) (elim noFault n s row data) := by
  intro n
  induction n with
  | zero => intro s row data s' e h; simp [elim] at h
  | succ wh ih =>
    intro s row data s' e h
    by_cases hr : row.testBit wh = true
    · by_cases hu : s.used.testBit wh = true
      · -- pivot `wh` is used: read parity and row, reduce, continue
        simp only [elim, call, hr, hu, Bool.and_self, ↓reduceIte] at h
        by_cases f1 : F s.calls = true
        · simp only [f1, Bool.not_true, Bool.not_false, ↓reduceIte, Prod.mk.injEq, Out.err.injEq] at h
          obtain ⟨rfl, -⟩ := h
          exact ⟨Frame.of_core rfl, elim_congr _ _ _ _ _ (Eqv.of_core rfl)⟩
        · by_cases f2 : F (s.calls + 1) = true
          · simp only [f1, f2, Bool.not_true, Bool.not_false, Bool.false_eq_true, ↓reduceIte, Prod.mk.injEq,
              Out.err.injEq] at h
            obtain ⟨rfl, -⟩ := h
            exact ⟨Frame.of_core rfl, elim_congr _ _ _ _ _ (Eqv.of_core rfl)⟩
          · simp only [f1, f2, Bool.not_true, Bool.not_false, Bool.false_eq_true, ↓reduceIte] at h
            obtain ⟨hF, hP⟩ := ih _ _ _ _ _ h
            have hF' : Frame s' s := hF.trans (Frame.of_core rfl)
            refine ⟨hF', ?_⟩
            have hu' : s'.used.testBit wh = true := by rw [hF'.2.2.2.2.1]; exact hu
            rw [elim_succ_used data hr hu', elim_succ_used data hr hu, hF'.2.2.2.2.2.2.1 wh,
              hF'.2.2.2.2.2.2.2 wh hu]
            refine PEqv.trans ?_ hP
            exact elim_congr _ _ _ _ _ (Eqv.of_core rfl)
      · -- pivot `wh` is free: store parity, then row
        simp only [elim, call, hr, hu, Bool.and_false, Bool.false_eq_true, ↓reduceIte] at h
        by_cases f1 : F s.calls = true
        · simp only [f1, Bool.not_true, Bool.not_false, ↓reduceIte, Prod.mk.injEq, Out.err.injEq] at h
          obtain ⟨rfl, -⟩ := h
          exact ⟨Frame.of_core rfl, elim_congr _ _ _ _ _ (Eqv.of_core rfl)⟩
        · by_cases f2 : F (s.calls + 1) = true
          · -- the delicate case: parity stored, row not stored, pivot bit not set
            simp only [f1, f2, Bool.not_true, Bool.not_false, Bool.false_eq_true, ↓reduceIte, Prod.mk.injEq,
              Out.err.injEq] at h
            obtain ⟨rfl, -⟩ := h
            constructor
            · refine ⟨rfl, rfl, rfl, rfl, rfl, fun _ => rfl, fun _ => rfl, ?_⟩
              intro k hk
              have : k ≠ wh := by rintro rfl; exact hu hk
              simp [get_cons, this]
            · rw [elim_succ_unused data hr hu, elim_succ_unused data hr (by simpa using hu)]
              refine ⟨rfl, rfl, rfl, rfl, rfl, rfl, fun _ => rfl, ?_, fun _ => rfl⟩
              intro k
              simp only [get_cons]
              split <;> rfl
          · simp [f1, f2] at h
    · rw [elim_succ_skip F s data hr] at h
      obtain ⟨hF, hP⟩ := ih _ _ _ _ _ h
      refine ⟨hF, ?_⟩
      rw [elim_succ_skip noFault s' data hr, elim_succ_skip noFault s data hr]
      exact hP

/-! ## handleParity -/

theorem handleParity_retry (F : Nat → Bool) (s : St) (row d : Nat) (s' : St) (e : Err)
    (h : handleParity F s row d = (s', .err e)) :
    Frame s' s ∧ PEqv (handleParity noFault s' row d) (handleParity noFault s row d) := by
  have hs := strip_spec F row (List.range s.n) s d
  unfold handleParity at h
  generalize strip F row (List.range s.n) s d = x at hs h
  obtain ⟨s1, d1, o1⟩ := x
  simp only at h hs
  obtain ⟨hs1, hs2, -⟩ := hs
  cases o1 with
  | ok =>
    simp only at h
    have hd1 := hs2 rfl
    obtain ⟨hF, hP⟩ := elim_retry F _ _ _ _ _ _ h
    have hF' : Frame s' s := hF.trans (Frame.of_core hs1)
    refine ⟨hF', ?_⟩
    obtain ⟨a1, ha, hca⟩ := strip_noFault row (List.range s'.n) s' d
    obtain ⟨b1, hb, hcb⟩ := strip_noFault row (List.range s.n) s d
    simp only [handleParity, ha, hb]
    have ea := core_eq hca
    have eb := core_eq hcb
    have e1 := core_eq hs1
    have hv : stripVal row s'.done s'.ds (List.range s'.n) d = d1 := by
      rw [hd1, hF'.1, hF'.2.2.2.1]; exact stripVal_congr row s.done hF'.2.2.2.2.2.1 _ _
    rw [hv, ← hd1]
    have x1 : a1.l = s1.l := ea.2.2.1.trans hF.2.2.1
    have x2 : a1.done = s1.done := ea.2.2.2.1.trans hF.2.2.2.1
    have x3 : a1.n = s1.n := ea.1.trans hF.1
    have y1 : b1.l = s1.l := eb.2.2.1.trans e1.2.2.1.symm
    have y2 : b1.done = s1.done := eb.2.2.2.1.trans e1.2.2.2.1.symm
    have y3 : b1.n = s1.n := eb.1.trans e1.1.symm
    rw [x1, x2, x3, y1, y2, y3]
    refine PEqv.trans ?_ (PEqv.trans hP ?_)
    · exact elim_congr _ _ _ _ _ (Eqv.of_core hca)
    · exact elim_congr _ _ _ _ _ ((Eqv.of_core hs1).trans (Eqv.of_core hcb).symm)
  | err e1 =>
    simp only [Prod.mk.injEq] at h
    obtain ⟨rfl, -⟩ := h
    exact ⟨Frame.of_core hs1, handleParity_congr _ _ (Eqv.of_core hs1)⟩
  | panic => simp at h

/-! ## stage 1 and the tail of stage 2 -/

theorem ite_res_ne_err (c : Prop) [Decidable c] (n : Nat) (e : Err) :
    (if c then Res.done n else Res.needMore) ≠ Res.err e := by
  split <;> simp

/-- repaired order: a failed stage-1 store leaves nothing but history -/
theorem stage1_retry {V : Variant} (hV : V.bitBeforeStore = false) (F : Nat → Bool) (s : St) (i d : Nat)
    (s' : St) (e : Err) (h : stage1 V F s i d = (s', .err e)) : core s' = core s := by
  simp only [stage1, hV, call, Bool.false_eq_true, ↓reduceIte] at h
  split at h
  · simp only [Prod.mk.injEq] at h
    exact absurd h.2 (ite_res_ne_err _ _ _)
  · by_cases f1 : F s.calls = true
    · simp only [f1, Bool.not_true, Bool.not_false, ↓reduceIte, Prod.mk.injEq] at h
      obtain ⟨rfl, -⟩ := h
      rfl
    · simp only [f1, Bool.not_false, Bool.not_true, Bool.false_eq_true, ↓reduceIte, Prod.mk.injEq] at h
      exact absurd h.2 (ite_res_ne_err _ _ _)

/-- an error that leaves the session incomplete did not come from `finish` -/
theorem tail2_err (F : Nat → Bool) (r : St × Out) (s' : St) (e : Err) (h : tail2 F r = (s', .err e))
    (hc : isComplete s' = false) : r = (s', .err e) := by
  obtain ⟨s1, o1⟩ := r
  cases o1 with
  | ok =>
    exfalso
    simp only [tail2] at h
    split at h
    · rename_i hc1
      have hfc := finish_isComplete F s1
      generalize finish F s1 = x at h hfc
      obtain ⟨s2, o2⟩ := x
      cases o2 with
      | ok => simp at h
      | err e2 =>
        simp only [resOfOut, Prod.mk.injEq] at h
        obtain ⟨rfl, -⟩ := h
        simp only at hfc
        rw [hfc, hc1] at hc
        cases hc
      | panic => simp [resOfOut] at h
    · simp at h
  | err e1 =>
    simp only [tail2, resOfOut, Prod.mk.injEq, Res.err.injEq] at h
    obtain ⟨rfl, rfl⟩ := h
    rfl
  | panic => simp [tail2, resOfOut] at h

/-- conversely, once `handleParity` has completed the session, whatever `finish` does (error or not) the session
    stays complete: an error raised inside `finish` always leaves `isComplete = true` -/
theorem tail2_complete (F : Nat → Bool) (s1 : St) (h : isComplete s1 = true) :
    isComplete (tail2 F (s1, .ok)).1 = true := by
  have hfc := finish_isComplete F s1
  simp only [tail2, h, ↓reduceIte]
  generalize finish F s1 = x at hfc ⊢
  obtain ⟨s2, o2⟩ := x
  cases o2 <;> simpa [h] using hfc

/-! ## the block level -/

theorem adj_idem (s : St) (i : Nat) : adj (adj s i) i = adj s i := by
  unfold adj
  by_cases h : s.n ≤ i ∧ s.l = 0
  · simp only [h, and_self, ↓reduceIte]
    split <;> rfl
  · simp [h]

theorem adj_scalars (s : St) (i : Nat) :
    (adj s i).n = s.n ∧ (adj s i).bs = s.bs ∧ (adj s i).done = s.done ∧ (adj s i).used = s.used := by
  unfold adj; split <;> simp

/-- past the three guards `handleBlock` is stage 1 or stage 2 of the adjusted state -/
theorem handleBlock_run (V : Variant) (F : Nat → Bool) (P : Nat → Nat) (vb nr : Nat) (s : St) (i d len : Nat)
    (h1 : len = s.bs) (h2 : isComplete s = false)
    (h3 : ¬ (s.n ≤ i ∧ s.l = 0 ∧ (vb < (unknowns s.done s.n).length ∨ nr < (unknowns s.done s.n).length))) :
    handleBlock V F P vb nr s i d len =
      if (adj s i).l = 0 then stage1 V F (adj s i) i d else tail2 F (handleParity F (adj s i) (P i) d) := by
  rw [handleBlock_eq]
  simp [h1, h2, h3]

/-- delivering to the adjusted state is delivering to the state (when the adjusted state is not complete) -/
theorem handleBlock_adj (V : Variant) (F : Nat → Bool) (P : Nat → Nat) (vb nr : Nat) (s : St) (i d len : Nat)
    (h1 : len = s.bs) (h2 : isComplete s = false)
    (h3 : ¬ (s.n ≤ i ∧ s.l = 0 ∧ (vb < (unknowns s.done s.n).length ∨ nr < (unknowns s.done s.n).length)))
    (h4 : isComplete (adj s i) = false) :
    handleBlock V F P vb nr (adj s i) i d len = handleBlock V F P vb nr s i d len := by
  obtain ⟨a1, a2, a3, a4⟩ := adj_scalars s i
  rw [handleBlock_run V F P vb nr s i d len h1 h2 h3,
    handleBlock_run V F P vb nr (adj s i) i d len (by rw [a2]; exact h1) h4 ?_, adj_idem]
  rw [a1, a3]
  unfold adj
  by_cases h : s.n ≤ i ∧ s.l = 0
  · simp only [h, and_self, ↓reduceIte]
    omega
  · simp only [h, ↓reduceIte]
    exact h3

/-- **block level, any oracle**: if a delivery ends in an error and leaves the session incomplete, redelivering the
    same block fault-free gives the result and (up to `Eqv`) the state of the fault-free delivery. -/
theorem handleBlock_retry {V : Variant} (hV : V.bitBeforeStore = false) (F : Nat → Bool) (P : Nat → Nat)
    (vb nr : Nat) (s : St) (i d len : Nat) (s' : St) (e : Err)
    (h : handleBlock V F P vb nr s i d len = (s', .err e)) (hc : isComplete s' = false) :
    PEqv (handleBlock V noFault P vb nr s' i d len) (handleBlock V noFault P vb nr s i d len) := by
  have h0 := h
  rw [handleBlock_eq] at h
  split at h
  · simp at h
  rename_i h1
  split at h
  · simp at h
  rename_i h2
  split at h
  · simp at h
  rename_i h3
  have h1 : len = s.bs := by simpa using h1
  have h2 : isComplete s = false := by simpa using h2
  obtain ⟨a1, a2, a3, a4⟩ := adj_scalars s i
  split at h
  · -- stage 1
    have hcore := stage1_retry hV F _ _ _ _ _ h
    have hca : isComplete (adj s i) = false := by rw [← (Eqv.of_core hcore).isComplete]; exact hc
    rw [← handleBlock_adj V noFault P vb nr s i d len h1 h2 h3 hca]
    exact handleBlock_congr V P vb nr i d len (Eqv.of_core hcore)
  · -- stage 2
    rename_i hl
    have hp := tail2_err F _ _ _ h hc
    obtain ⟨hF, hP⟩ := handleParity_retry F _ _ _ _ _ hp
    have hca : isComplete (adj s i) = false := by rw [← hF.isComplete]; exact hc
    have hl' : ¬ s'.l = 0 := by rw [hF.2.2.1]; exact hl
    have hadj' : adj s' i = s' := by unfold adj; simp [hl']
    rw [handleBlock_run V noFault P vb nr s i d len h1 h2 h3,
      handleBlock_run V noFault P vb nr s' i d len (by rw [hF.2.1, a2]; exact h1) hc (by simp [hl']), hadj']
    simp only [hl, hl', ↓reduceIte]
    exact tail2_congr hP

end Fuota.Fault
