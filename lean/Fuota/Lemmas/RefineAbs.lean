import Fuota.Lemmas.RefineStores
import Fuota.Lemmas.ReconStep
import Fuota.Lemmas.FaultCongr
/-!
# Abstraction from the flash-backed updater (L2) to the reconstructor model (L0), and the session invariant
-/
namespace Fuota.Updater
open Fuota.Nor Fuota.Fs Fuota.FlashAdapters Fuota.Recon

/-! ## store contents as functions of the flash -/

/-- data block `k` as a number: what the flash holds if the segment is marked written, else 0 (absent) -/
def dsVal (u : Upd) (f : Flash) (k : Nat) : Nat :=
  if k < u.n ∧ f.byte (statAddr u k) = 0x33 then bytesToNat (f.read (segAddr u k) u.bs) else 0

/-- parity block `m` as a number (0 when pivot `m` is not in use) -/
def psVal (u : Upd) (f : Flash) (m : Nat) : Nat :=
  if m < u.maxL ∧ u.used.testBit m = true then bytesToNat (f.read (pAddr u m) u.bs) else 0

/-- matrix row `m` as a number, diagonal bit inverted back (0 when pivot `m` is not in use) -/
def msVal (u : Upd) (f : Flash) (m : Nat) : Nat :=
  if m < u.maxL ∧ u.used.testBit m = true then bytesToNat (flipBit (f.read (rAddr u m) (m / 8 + 1)) m) else 0

/-- association list of `f` on the indices below `N` that satisfy `p` -/
def table (N : Nat) (p : Nat → Bool) (f : Nat → Nat) : Store :=
  ((List.range N).filter p).map (fun k => (k, f k))

/-- lookup in a tabulated list -/
theorem get_map_self (f : Nat → Nat) (L : List Nat) (k : Nat) :
    Recon.get (L.map (fun k => (k, f k))) k = if k ∈ L then f k else 0 := by
  induction L with
  | nil => simp [Recon.get]
  | cons a L ih =>
    simp only [List.map_cons, Recon.get_cons, ih, List.mem_cons]
    by_cases h : k = a
    · subst h; simp
    · simp [h]

/-- lookup in `table` -/
theorem get_table (N : Nat) (p : Nat → Bool) (f : Nat → Nat) (k : Nat) :
    Recon.get (table N p f) k = if k < N ∧ p k = true then f k else 0 := by
  simp only [table, get_map_self, List.mem_filter, List.mem_range]

/-- **the abstraction**: the reconstructor state an updater on a device stands for (scalars and bit sets from the
    in-memory updater, store contents read off the flash; the call log is empty) -/
def abs (p : Upd × Dev) : St :=
  { n := p.1.n, bs := p.1.bs, l := p.1.l, done := p.1.done, used := p.1.used,
    ds := table p.1.n (fun k => decide (p.2.flash.byte (statAddr p.1 k) = 0x33)) (dsVal p.1 p.2.flash),
    ps := table p.1.maxL p.1.used.testBit (psVal p.1 p.2.flash),
    ms := table p.1.maxL p.1.used.testBit (msVal p.1 p.2.flash) }

/-- an L0 state has the scalars of `u` and the store contents the flash `f` holds -/
def Sim (s : St) (u : Upd) (f : Flash) : Prop :=
  s.n = u.n ∧ s.bs = u.bs ∧ s.l = u.l ∧ s.done = u.done ∧ s.used = u.used ∧
  (∀ k, Recon.get s.ds k = dsVal u f k) ∧ (∀ k, Recon.get s.ps k = psVal u f k) ∧
  (∀ k, Recon.get s.ms k = msVal u f k)

/-- the abstraction has the contents of the flash -/
theorem sim_abs (u : Upd) (d : Dev) : Sim (abs (u, d)) u d.flash := by
  refine ⟨rfl, rfl, rfl, rfl, rfl, fun k => ?_, fun k => ?_, fun k => ?_⟩
  · simp only [abs, get_table, dsVal, decide_eq_true_eq]
    split <;> rfl
  · simp only [abs, get_table, psVal]
    split <;> rfl
  · simp only [abs, get_table, msVal]
    split <;> rfl

/-- `Sim` is "equivalent to the abstraction" in the sense of C18 -/
theorem sim_iff_eqv (s : St) (u : Upd) (d : Dev) : Sim s u d.flash ↔ Fault.Eqv s (abs (u, d)) := by
  obtain ⟨_, _, _, _, _, h6, h7, h8⟩ := sim_abs u d
  constructor
  · rintro ⟨a1, a2, a3, a4, a5, a6, a7, a8⟩
    exact ⟨a1, a2, a3, a4, a5, fun k => (a6 k).trans (h6 k).symm, fun k => (a7 k).trans (h7 k).symm,
      fun k => (a8 k).trans (h8 k).symm⟩
  · rintro ⟨a1, a2, a3, a4, a5, a6, a7, a8⟩
    exact ⟨a1, a2, a3, a4, a5, fun k => (a6 k).trans (h6 k), fun k => (a7 k).trans (h7 k),
      fun k => (a8 k).trans (h8 k)⟩

/-- the completeness test of the updater is the one of the model -/
theorem rcComplete_eq (u : Upd) (d : Dev) : rcComplete u = isComplete (abs (u, d)) := rfl

/-! ## the session invariant -/

/-- echelon form of the stored rows, for a row function -/
def EchF (l used : Nat) (row : Nat → Nat) : Prop :=
  ∀ p, used.testBit p = true → p < l ∧ (row p).testBit p = true ∧ ∀ j, p < j → (row p).testBit j = false

/-- the invariant with an explicit set `E` of segments required to be still erased -/
structure Lawful' (E : Nat → Prop) (u : Upd) (d : Dev) : Prop where
  geo : Geo u d.flash.size
  good : Good d
  wf : WF d.flash
  hl : u.l ≤ u.maxL
  hl2 : u.l ≠ 0 → u.l = (unknowns u.done u.n).length
  hdone : ∀ i, u.done.testBit i = true → i < u.n
  hstat : ∀ i, u.done.testBit i = true → d.flash.byte (statAddr u i) = 0x33
  herD : ∀ i, i < u.n → E i →
    Erased d.flash (segAddr u i) (segAddr u i + u.bs) ∧ d.flash.byte (statAddr u i) = 0xFF
  hech : EchF u.l u.used (msVal u d.flash)
  herP : ∀ m, m < u.maxL → u.used.testBit m = false →
    Erased d.flash (pAddr u m) (pAddr u m + u.bs) ∧ Erased d.flash (rAddr u m) (rAddr u m + (m / 8 + 1))

/-- **the session invariant** between two `handle_segment` calls of a crash-free, fault-free session: accepted
    geometry, no injection armed, every byte a byte, written marks agree with `done`, stored rows in echelon form
    with pivots `used`, and — while the session is incomplete — every segment not in `done`, and always every parity
    block and matrix row not in `used`, still erased; once complete, all segments are marked written -/
structure Lawful (u : Upd) (d : Dev) : Prop where
  base : Lawful' (fun i => rcComplete u = false ∧ u.done.testBit i = false) u d
  /-- once the session is complete every segment carries the written mark -/
  marked : rcComplete u = true → ∀ m, m < u.n → d.flash.byte (statAddr u m) = 0x33

/-- the fields of the in-memory updater that a session never changes -/
def Static (u u' : Upd) : Prop :=
  u'.fw = u.fw ∧ u'.par = u.par ∧ u'.n = u.n ∧ u'.bs = u.bs ∧ u'.maxL = u.maxL ∧ u'.matrixOffset = u.matrixOffset

/-- nothing changed -/
theorem Static.refl (u : Upd) : Static u u := ⟨rfl, rfl, rfl, rfl, rfl, rfl⟩

/-- stage 1 is complete when every data block is present -/
theorem rcComplete_stage1 (u : Upd) (h : u.l = 0) :
    rcComplete u = true ↔ ∀ i, i < u.n → u.done.testBit i = true := by
  simp [rcComplete, h]

/-- fewer segments required erased -/
theorem Lawful'.mono {E E' : Nat → Prop} {u : Upd} {d : Dev} (h : Lawful' E u d) (hE : ∀ i, E' i → E i) :
    Lawful' E' u d :=
  { geo := h.geo, good := h.good, wf := h.wf, hl := h.hl, hl2 := h.hl2, hdone := h.hdone, hstat := h.hstat,
    herD := fun i hi he => h.herD i hi (hE i he), hech := h.hech, herP := h.herP }

/-! ## where the regions are -/

/-- bounds of all regions, in a form `omega` can combine -/
theorem Geo.regions {u : Upd} {fsz : Nat} (g : Geo u fsz) :
    (∀ k, k < u.n → fwBase u + 17408 ≤ segAddr u k ∧ segAddr u k + u.bs ≤ fwBase u + u.fw.size ∧
        fwBase u + 1024 ≤ statAddr u k ∧ statAddr u k < fwBase u + 17408) ∧
    (∀ m, m < u.maxL → parBase u + 1024 ≤ pAddr u m ∧ pAddr u m + u.bs ≤ parBase u + 1024 + u.maxL * u.bs ∧
        parBase u + 1024 + u.maxL * u.bs ≤ rAddr u m ∧ rAddr u m + (m / 8 + 1) ≤ parBase u + u.fw.size) := by
  obtain ⟨h1, h2, h3, h4, h5, h6, h7⟩ := g.slots
  constructor
  · intro k hk
    obtain ⟨a, b⟩ := g.seg hk
    have := g.hn
    simp only [segAddr, statAddr]
    omega
  · intro m hm
    have a := g.pblock hm
    obtain ⟨b, c⟩ := g.row hm
    have := g.hmo
    simp only [pAddr, rAddr]
    omega

/-- different segments, blocks and rows occupy disjoint address ranges -/
theorem Geo.disjoint {u : Upd} {fsz : Nat} (_g : Geo u fsz) :
    (∀ i j, i ≠ j → segAddr u i + u.bs ≤ segAddr u j ∨ segAddr u j + u.bs ≤ segAddr u i) ∧
    (∀ i j, i ≠ j → pAddr u i + u.bs ≤ pAddr u j ∨ pAddr u j + u.bs ≤ pAddr u i) ∧
    (∀ i j, i ≠ j → rAddr u i + (i / 8 + 1) ≤ rAddr u j ∨ rAddr u j + (j / 8 + 1) ≤ rAddr u i) := by
  refine ⟨fun i j h => ?_, fun i j h => ?_, fun i j h => ?_⟩
  · have := seg_disjoint u.bs h; simp only [segAddr]; omega
  · have := seg_disjoint u.bs h; simp only [pAddr]; omega
  · have := row_disjoint h; simp only [rAddr]; omega

end Fuota.Updater
