import Fuota.Model.Firmware
import Fuota.Lemmas.Crc
/-!
# The segment loop of `crc_valid`

Reads of the NOR model as lists, then the loop invariant of `segLoop` in its two phases
(`skip = some n`: nothing digested yet and `idx * size + n = P`; `skip = none`: whole segments are digested),
and the closed form of `crcValid`.
-/
namespace Fuota.Firmware
open Fuota.Layout Fuota.Nor Fuota.Crc

/-! ## reads -/

theorem read_length (f : Flash) (a len : Nat) : (f.read a len).length = len := by
  simp [Flash.read]

theorem read_zero (f : Flash) (a : Nat) : f.read a 0 = [] := by
  simp [Flash.read]

theorem read_get (f : Flash) (a len i : Nat) :
    (f.read a len)[i]? = if i < len then some (f.byte (a + i)) else none := by
  unfold Flash.read
  by_cases h : i < len <;> simp [h]

theorem read_append (f : Flash) (a l1 l2 : Nat) :
    f.read a (l1 + l2) = f.read a l1 ++ f.read (a + l1) l2 := by
  apply List.ext_getElem?
  intro i
  rw [List.getElem?_append, read_length]
  simp only [read_get]
  by_cases h1 : i < l1
  · simp [h1]; omega
  · simp only [h1, if_false]
    by_cases h2 : i < l1 + l2
    · have : i - l1 < l2 := by omega
      simp [h2, this]; congr 1; omega
    · have : ¬ (i - l1 < l2) := by omega
      simp [h2, this]

theorem drop_read (f : Flash) (a len n : Nat) : (f.read a len).drop n = f.read (a + n) (len - n) := by
  apply List.ext_getElem?
  intro i
  rw [List.getElem?_drop]
  simp only [read_get]
  by_cases h : i < len - n
  · have : n + i < len := by omega
    simp [h, this, Nat.add_assoc]
  · have : ¬ (n + i < len) := by omega
    simp [h, this]

theorem readChecked_eq (f : Flash) (a len : Nat) :
    f.readChecked a len = if a + len ≤ f.size then some (f.read a len) else none := rfl

/-! ## the loop -/

/-- phase 2 (`skip_remain = None`): `k` whole segments starting at segment `idx` are read and digested -/
theorem segLoop_none (f : Flash) (dbase size : Nat) : ∀ (k idx reg : Nat) (log : ReadLog),
    (segLoop f dbase size k idx none reg log).1 =
      if k = 0 ∨ dbase + (idx + k) * size ≤ f.size then
        some (crcUpdate reg (f.read (dbase + idx * size) (k * size)))
      else none := by
  intro k
  induction k with
  | zero => intro idx reg log; simp [segLoop, read_zero, crcUpdate]
  | succ k ih =>
    intro idx reg log
    simp only [segLoop, readChecked_eq]
    by_cases hr : dbase + idx * size + size ≤ f.size
    · simp only [hr, if_true, List.drop_zero]
      rw [ih]
      have e1 : (idx + 1 + k) * size = idx * size + size + k * size := by
        simp only [Nat.add_mul, Nat.one_mul]
      have e2 : (idx + (k + 1)) * size = idx * size + size + k * size := by
        simp only [Nat.add_mul, Nat.one_mul]; omega
      have e3 : (k + 1) * size = size + k * size := by
        simp only [Nat.add_mul, Nat.one_mul]; omega
      have e4 : (idx + 1) * size = idx * size + size := by
        simp only [Nat.add_mul, Nat.one_mul]
      rw [e1, e2, e3, e4, read_append, crcUpdate_append]
      by_cases hk : k = 0
      · subst hk
        have : dbase + (idx * size + size) ≤ f.size := by omega
        simp [this, Nat.add_assoc]
      · have hk1 : ¬ (k + 1 = 0) := by omega
        simp only [hk, hk1, false_or, Nat.add_assoc]
    · simp only [hr, if_false]
      have e2 : (idx + (k + 1)) * size = idx * size + size + k * size := by
        simp only [Nat.add_mul, Nat.one_mul]; omega
      have : ¬ (dbase + (idx + (k + 1)) * size ≤ f.size) := by rw [e2]; omega
      simp [this]

/-- phase 1 (`skip_remain = Some n`): nothing has been digested and `idx * size + n = P` bytes remain to be
    skipped counted from the start of the data region. Closed form of the whole rest of the loop. -/
theorem segLoop_skip (f : Flash) (dbase size P : Nat) : ∀ (k idx n reg : Nat) (log : ReadLog),
    idx * size + n = P →
    (segLoop f dbase size k idx (some n) reg log).1 =
      if (idx + k) * size ≤ P then some reg
      else if dbase + (idx + k) * size ≤ f.size then
        some (crcUpdate reg (f.read (dbase + P) ((idx + k) * size - P)))
      else none := by
  intro k
  induction k with
  | zero =>
    intro idx n reg log h
    have : idx * size ≤ P := by omega
    simp [segLoop, this]
  | succ k ih =>
    intro idx n reg log h
    have e1 : (idx + 1 + k) * size = idx * size + size + k * size := by
      simp only [Nat.add_mul, Nat.one_mul]
    have e2 : (idx + (k + 1)) * size = idx * size + size + k * size := by
      simp only [Nat.add_mul, Nat.one_mul]; omega
    have e4 : (idx + 1) * size = idx * size + size := by
      simp only [Nat.add_mul, Nat.one_mul]
    simp only [segLoop]
    by_cases hn : n ≥ size
    · simp only [hn, if_true]
      rw [ih (idx + 1) (n - size) reg log (by rw [e4]; omega), e1, e2]
    · simp only [hn, if_false, readChecked_eq]
      have hP : ¬ (idx * size + size + k * size ≤ P) := by omega
      rw [e2]
      simp only [hP, if_false]
      by_cases hr : dbase + idx * size + size ≤ f.size
      · simp only [hr, if_true]
        rw [segLoop_none, e1, e4, drop_read, ← crcUpdate_append]
        have ha : dbase + idx * size + n = dbase + P := by omega
        have hl : idx * size + size + k * size - P = (size - n) + k * size := by omega
        have hb : dbase + P + (size - n) = dbase + (idx * size + size) := by omega
        rw [ha, hl, read_append, hb]
        by_cases hk : k = 0
        · subst hk
          have : dbase + (idx * size + size) ≤ f.size := by omega
          simp [this]
        · simp only [hk, false_or]
      · have : ¬ (dbase + (idx * size + size + k * size) ≤ f.size) := by omega
        simp [hr, this]

/-- **Loop specification.** Started as `crc_valid` starts it (`skip_remain = Some(P)`, segment 0), the loop over `n`
    segments of `size` bytes digests exactly the bytes `P .. n * size` of the data region (nothing if
    `n * size ≤ P`), provided the last segment read is inside the device; otherwise it fails with a read error.
    No assumption on `size` or `n`. -/
theorem segLoop_spec (f : Flash) (dbase size n P reg : Nat) (log : ReadLog) :
    (segLoop f dbase size n 0 (some P) reg log).1 =
      if n * size ≤ P ∨ dbase + n * size ≤ f.size then
        some (crcUpdate reg (f.read (dbase + P) (n * size - P)))
      else none := by
  rw [segLoop_skip f dbase size P n 0 P reg log (by simp)]
  simp only [Nat.zero_add]
  by_cases h1 : n * size ≤ P
  · have : n * size - P = 0 := by omega
    simp [h1, this, read_zero, crcUpdate]
  · simp [h1]

end Fuota.Firmware
