import Fuota.Lemmas.OpsSess
import Fuota.Lemmas.OpsFlash
/-!
# Crash-free runs: what exactly is emitted

`Runs x d a ops`: on the device `d` the computation `x` returns `ok a` and the device afterwards is `d` with the
operations `ops` (oldest first) pushed — applied to the flash, logged, counted. For a healthy device (alive, no
crash point, no pending fault) the flash primitives run like this whenever they are inside the device.
-/
namespace Fuota.Ops
open Fuota.Nor Fuota.Fs Fuota.Layout Fuota.Updater

variable {α β : Type}

/-- alive, no crash point armed, no transient fault pending -/
structure Healthy (d : Dev) : Prop where
  alive : d.dead = false
  noCrash : d.crashAt = none
  noFault : d.failAt = none

/-- the device after one mutating operation took effect -/
def push (d : Dev) (op : Op) : Dev :=
  { d with flash := d.flash.apply op, ops := op :: d.ops, nmut := d.nmut + 1,
           needsSet := d.needsSet + needOf d.flash op }

/-- … after several (oldest first) -/
def pushAll (d : Dev) : List Op → Dev
  | [] => d
  | op :: ops => pushAll (push d op) ops

theorem pushAll_append (d : Dev) (l1 l2 : List Op) : pushAll d (l1 ++ l2) = pushAll (pushAll d l1) l2 := by
  induction l1 generalizing d with
  | nil => rfl
  | cons op l1 ih => exact ih _

theorem push_healthy {d : Dev} (h : Healthy d) (op : Op) : Healthy (push d op) := ⟨h.alive, h.noCrash, h.noFault⟩
theorem push_size (d : Dev) (op : Op) : (push d op).flash.size = d.flash.size := apply_size _ _
theorem push_block (d : Dev) (op : Op) : (push d op).flash.block = d.flash.block := apply_block _ _

theorem pushAll_healthy {d : Dev} (h : Healthy d) (ops : List Op) : Healthy (pushAll d ops) := by
  induction ops generalizing d with
  | nil => exact h
  | cons op ops ih => exact ih (push_healthy h op)

theorem pushAll_size (d : Dev) (ops : List Op) : (pushAll d ops).flash.size = d.flash.size := by
  induction ops generalizing d with
  | nil => rfl
  | cons op ops ih => rw [pushAll, ih, push_size]

theorem pushAll_block (d : Dev) (ops : List Op) : (pushAll d ops).flash.block = d.flash.block := by
  induction ops generalizing d with
  | nil => rfl
  | cons op ops ih => rw [pushAll, ih, push_block]

theorem pushAll_ops (d : Dev) (ops : List Op) : (pushAll d ops).ops = ops.reverse ++ d.ops := by
  induction ops generalizing d with
  | nil => rfl
  | cons op ops ih =>
    rw [pushAll, ih]
    show ops.reverse ++ (op :: d.ops) = _
    simp

theorem pushAll_flash (d : Dev) (ops : List Op) : (pushAll d ops).flash = d.flash.applyAll ops := by
  induction ops generalizing d with
  | nil => rfl
  | cons op ops ih => rw [pushAll, ih]; rfl

theorem pushAll_needsSet (d : Dev) (ops : List Op) :
    (pushAll d ops).needsSet = d.needsSet + needCount d.flash ops := by
  induction ops generalizing d with
  | nil => rfl
  | cons op ops ih =>
    rw [pushAll, ih]
    show d.needsSet + needOf d.flash op + needCount (d.flash.apply op) ops = _
    show _ = d.needsSet + (needOf d.flash op + needCount (d.flash.apply op) ops)
    omega

/-- `x` succeeds on `d` with result `a`, emitting exactly `ops` (oldest first) -/
def Runs (x : M α) (d : Dev) (a : α) (ops : List Op) : Prop := x.run d = (.ok a, pushAll d ops)

theorem Runs.pure (a : α) (d : Dev) : Runs (pure a : M α) d a [] := rfl

theorem Runs.bind {x : M α} {f : α → M β} {d : Dev} {a : α} {b : β} {o1 o2 : List Op}
    (hx : Runs x d a o1) (hf : Runs (f a) (pushAll d o1) b o2) : Runs (x >>= f) d b (o1 ++ o2) := by
  unfold Runs at *
  rw [run_bind, hx]
  dsimp only
  rw [hf, pushAll_append]

theorem mutate_runs {d : Dev} (h : Healthy d) (op : Op) : Runs (mutate op) d () [op] := by
  unfold Runs mutate
  dsimp only
  simp only [throw_bind]
  rw [run_bind, run_get]
  dsimp only
  have hnf : ¬ (d.failAt = some d.nmut) := by rw [h.noFault]; simp
  split
  · rename_i k tr hc
    rw [h.noCrash] at hc
    cases hc
  · simp only [hnf, ↓reduceIte]
    rw [run_set]
    cases op <;> rfl

theorem writeFrom_runs {d : Dev} (h : Healthy d) (a : Nat) (bs : List Nat) (hin : a + bs.length ≤ d.flash.size) :
    Runs (writeFrom a bs) d () [.program a bs] := by
  have hm := mutate_runs h (.program a bs)
  unfold Runs at *
  unfold writeFrom
  dsimp only
  simp only [throw_bind]
  rw [run_bind, run_get]
  dsimp only
  have hc : d.flash.canProgram a bs.length = true := by
    unfold Flash.canProgram; simpa using hin
  simp only [h.alive, hc, Bool.false_eq_true, ↓reduceIte, Bool.not_true]
  exact hm

theorem eraseBlock_runs {d : Dev} (h : Healthy d) (a : Nat) (hal : a % d.flash.block = 0)
    (hin : a + d.flash.block ≤ d.flash.size) : Runs (eraseBlock a) d () [.erase a] := by
  have hm := mutate_runs h (.erase a)
  unfold Runs at *
  unfold eraseBlock
  dsimp only
  simp only [throw_bind]
  rw [run_bind, run_get]
  dsimp only
  have h1 : (a % d.flash.block != 0) = false := by simp [hal]
  have h2 : ¬ (a + d.flash.block > d.flash.size) := by omega
  simp only [h.alive, h1, h2, Bool.false_eq_true, ↓reduceIte]
  exact hm

theorem readTo_runs {d : Dev} (hd : d.dead = false) (a len : Nat) (hin : a + len ≤ d.flash.size) :
    Runs (readTo a len) d (d.flash.read a len) [] := by
  unfold Runs readTo
  dsimp only
  simp only [throw_bind]
  rw [run_bind, run_get]
  dsimp only
  have : d.flash.readChecked a len = some (d.flash.read a len) := by
    unfold Flash.readChecked; simp [hin]
  simp only [hd, this, Bool.false_eq_true, ↓reduceIte]
  rfl

/-! ## slot accessors -/

/-- the erases `Slot::clear` issues: one per block, ascending -/
def eraseOps (cur B : Nat) : Nat → List Op
  | 0 => []
  | k + 1 => .erase cur :: eraseOps (cur + B) B k

theorem eraseFrom_runs {B : Nat} : ∀ (k cur : Nat) (d : Dev), Healthy d → d.flash.block = B → cur % B = 0 →
    cur + k * B ≤ d.flash.size → Runs (eraseFrom cur B k) d () (eraseOps cur B k) := by
  intro k
  induction k with
  | zero => intro cur d _ _ _ _; exact Runs.pure () d
  | succ k ih =>
    intro cur d h hB hal hin
    have e : (k + 1) * B = k * B + B := Nat.succ_mul k B
    unfold eraseFrom
    refine Runs.bind (o1 := [.erase cur]) (eraseBlock_runs h cur (by rw [hB]; exact hal) (by rw [hB]; omega)) ?_
    apply ih
    · exact pushAll_healthy h _
    · rw [pushAll_block]; exact hB
    · rw [Nat.add_mod, hal]; simp
    · rw [pushAll_size]; omega

theorem clear_runs (s : Slot) (d : Dev) (h : Healthy d) (hB : 0 < d.flash.block)
    (hdiv : s.size % d.flash.block = 0) (hin : s.idx * s.size + s.size ≤ d.flash.size) :
    Runs s.clear d () (eraseOps (s.idx * s.size) d.flash.block (s.size / d.flash.block)) := by
  have he := eraseFrom_runs (B := d.flash.block) (s.size / d.flash.block) (s.idx * s.size) d h rfl
    (by rw [Nat.mul_mod, hdiv]; simp)
    (by have := Nat.div_mul_le_self s.size d.flash.block; omega)
  unfold Runs at *
  unfold Slot.clear
  dsimp only
  simp only [throw_bind]
  rw [run_bind, run_get]
  dsimp only
  have h1 : ¬ d.flash.block = 0 := by omega
  have h2 : (s.size % d.flash.block != 0) = false := by simp [hdiv]
  simp only [h1, h2, Bool.false_eq_true, ↓reduceIte]
  exact he

theorem writeWord_runs (s : Slot) (off w : Nat) (d : Dev) (h : Healthy d)
    (hin : s.idx * s.size + off + 4 ≤ d.flash.size) :
    Runs (s.writeWord off w) d () [.program (s.idx * s.size + off) (writeU32 w)] :=
  writeFrom_runs h _ _ hin

end Fuota.Ops
