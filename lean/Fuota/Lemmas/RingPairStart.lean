import Fuota.Lemmas.RingPairRun
/-!
# Ring lemmas, part 16: `Orph` under the erasures and writes of `start_update`, and the branches of `alloc_slotpair`
-/
namespace Fuota.Ring
open Fuota.Layout Fuota.Fs Fuota.Updater Fuota.Slots


/-- which slots `alloc_slotpair` takes, branch by branch -/
inductive PairCase (n : Nat) (hs : Hdrs) (a b : Nat) : Prop
  /-- both slots are unused -/
  | free (ha : ∀ h, ¬ Used hs a h) (hb : ∀ h, ¬ Used hs b h)
  /-- one free slot, fallback is the oldest: the newest slot and the free one -/
  | reuse1 (low ls high hsq : Nat) (hl : lowOf hs = some (low, ls)) (hh : highOf hs = some (high, hsq))
      (ea : a = high) (hb : ∀ h, ¬ Used hs b h) (hd : off n low high + 2 = n)
  /-- one free slot and the oldest slot -/
  | oldest1 (low ls : Nat) (hl : lowOf hs = some (low, ls)) (eb : b = low) (ha : ∀ h, ¬ Used hs a h)
  /-- full ring, the newest pair is reused -/
  | reuse2 (low ls high hsq : Nat) (hl : lowOf hs = some (low, ls)) (hh : highOf hs = some (high, hsq))
      (eb : b = high) (ea : a = (high + n - 1) % n) (hd : off n low high + 1 = n)
      (hfb : (fallbackSlot hs).getD low = low ∨ (fallbackSlot hs).getD low = (low + 1) % n)
  /-- full ring, the two oldest slots -/
  | oldest2 (low ls high hsq f : Nat) (hl : lowOf hs = some (low, ls)) (hh : highOf hs = some (high, hsq))
      (ea : a = low) (eb : b = (low + 1) % n) (hd : off n low high + 1 = n)
      (hfb : fallbackSlot hs = some f) (hf1 : f ≠ low) (hf2 : f ≠ (low + 1) % n)

theorem choosePair_cases {n : Nat} (hn : 4 ≤ n) {hs : Hdrs} (hinv : RingInv n hs) {a b sa sb : Nat}
    (hc : choosePair n hs = .ok (a, b, sa, sb)) : PairCase n hs a b ∧ b = (a + 1) % n := by
  obtain ⟨hlen, harc, hseq⟩ := hinv
  rw [choosePair_unfold] at hc
  cases hl : lowOf hs with
  | none =>
    rw [hl] at hc
    simp only [Except.ok.injEq, Prod.mk.injEq] at hc
    obtain ⟨rfl, rfl, -, -⟩ := hc
    refine ⟨.free (fun h hu => lowOf_eq_none.mp hl _ h hu) (fun h hu => lowOf_eq_none.mp hl _ h hu), ?_⟩
    rw [Nat.zero_add, Nat.mod_eq_of_lt (by omega)]
  | some p =>
    obtain ⟨low, ls⟩ := p
    obtain ⟨hlo, hlou, -⟩ := lowOf_eq_some.mp hl
    obtain ⟨-, ⟨high, hsq, hh⟩⟩ := scans_of_used hlou
    obtain ⟨hhi, hhiu, -⟩ := highOf_eq_some.mp hh
    have hlown : low < n := hlen ▸ used_lt hlou
    have hhighn : high < n := hlen ▸ used_lt hhiu
    have harc' := (arcInv_iff hl hh).mp harc
    have hdn : off n low high < n := off_lt hlown hhighn
    have unused : ∀ x, x < n → off n low high < off n low x → ∀ h, ¬ Used hs x h := by
      intro x _ hx h hu
      have := harc' x h hu
      omega
    have adj12 : (high + 2) % n = ((high + 1) % n + 1) % n := by rw [Nat.mod_add_mod]
    rw [hl, hh] at hc
    simp only at hc
    have hoff : (high + n - low) % n = off n low high := rfl
    rw [hoff] at hc
    by_cases c1 : off n low high + 3 ≤ n
    · simp only [c1, ↓reduceIte, Except.ok.injEq, Prod.mk.injEq] at hc
      obtain ⟨rfl, rfl, -, -⟩ := hc
      have ea := off_succ hlown hhighn (by omega)
      have eb := off_succ2 hlown hhighn (by omega)
      exact ⟨.free (unused _ (Nat.mod_lt _ (by omega)) (by omega)) (unused _ (Nat.mod_lt _ (by omega)) (by omega)), adj12⟩
    · simp only [c1, ↓reduceIte] at hc
      by_cases c2 : off n low high + 2 = n
      · simp only [c2, ↓reduceIte] at hc
        have e1 := off_succ hlown hhighn (by omega)
        by_cases c3 : (fallbackSlot hs).getD low = low
        · simp only [c3, ↓reduceIte, Except.ok.injEq, Prod.mk.injEq] at hc
          obtain ⟨rfl, rfl, -, -⟩ := hc
          exact ⟨.reuse1 low ls high hsq hl hh rfl (unused _ (Nat.mod_lt _ (by omega)) (by omega)) c2, rfl⟩
        · simp only [c3, ↓reduceIte, Except.ok.injEq, Prod.mk.injEq] at hc
          obtain ⟨rfl, rfl, -, -⟩ := hc
          have eb := off_succ2_wrap hlown hhighn c2
          exact ⟨.oldest1 low ls hl eb (unused _ (Nat.mod_lt _ (by omega)) (by omega)), adj12⟩
      · simp only [c2, ↓reduceIte] at hc
        have c3 : off n low high + 1 = n := by omega
        have ea := off_succ_wrap hlown hhighn c3
        have eb := off_succ2_wrap1 (by omega : 2 ≤ n) hlown hhighn c3
        by_cases c4 : (high + 1) % n = (fallbackSlot hs).getD low ∨ (high + 2) % n = (fallbackSlot hs).getD low
        · simp only [c4, ↓reduceIte] at hc
          have hab : ∀ a' b' : Nat, a' = (high + n - 1) % n → b' = high → b' = (a' + 1) % n := by
            intro a' b' e1 e2
            rw [e1, e2]
            have p := pred_cases n high hhighn
            have q := succ_cases n ((high + n - 1) % n) (Nat.mod_lt _ (by omega))
            omega
          rw [ea, eb] at c4
          have hfb : (fallbackSlot hs).getD low = low ∨ (fallbackSlot hs).getD low = (low + 1) % n := by
            rcases c4 with e | e
            · exact Or.inl e.symm
            · exact Or.inr e.symm
          split at hc
          · simp only [Except.ok.injEq, Prod.mk.injEq] at hc
            obtain ⟨rfl, rfl, -, -⟩ := hc
            exact ⟨.reuse2 low ls high hsq hl hh rfl rfl c3 hfb, hab _ _ rfl rfl⟩
          · simp only [Except.ok.injEq, Prod.mk.injEq] at hc
            obtain ⟨rfl, rfl, -, -⟩ := hc
            exact ⟨.reuse2 low ls high hsq hl hh rfl rfl c3 hfb, hab _ _ rfl rfl⟩
        · simp only [c4, ↓reduceIte, Except.ok.injEq, Prod.mk.injEq] at hc
          obtain ⟨rfl, rfl, -, -⟩ := hc
          rw [ea, eb] at c4 ⊢
          simp only [not_or] at c4
          cases hf : fallbackSlot hs with
          | none => rw [hf] at c4; simp at c4
          | some f =>
            rw [hf] at c4
            simp only [Option.getD_some] at c4
            refine ⟨.oldest2 low ls high hsq f hl hh rfl rfl c3 hf (fun e => c4.1 e.symm) (fun e => c4.2 e.symm), ?_⟩
            rfl




/-- `Orph` only reads: which slots are used, kind / sequence number / in-progress-ness of the headers, who wrote the
    used slots, and whether a confirmed image exists. Nothing may become in progress, no confirmed image may
    disappear, no firmware partner may disappear. -/
theorem Orph.transfer {n : Nat} {hs hs' : Hdrs} {att att' : List (Option Nat)} (h : Orph n hs att)
    (t1 : ∀ j hd', Used hs' j hd' → ∃ hd, Used hs j hd ∧ SameSkel hd hd' ∧ (InProg hd' → InProg hd) ∧
      atA att' j = atA att j)
    (t2 : ∀ j hd, Used hs j hd → ∃ hd', Used hs' j hd' ∧ SameSkel hd hd' ∧ (Conf hd → Conf hd') ∧
      atA att' j = atA att j) :
    Orph n hs' att' := by
  have hlow : lowOf hs' = lowOf hs :=
    lowOf_congr (fun j hd' hu => by obtain ⟨hd, u, s, _⟩ := t1 j hd' hu; exact ⟨hd, u, s.2.1⟩)
      (fun j hd hu => by obtain ⟨hd', u, s, _⟩ := t2 j hd hu; exact ⟨hd', u, s.2.1⟩)
  intro j hj k hu hk hst ha horph
  obtain ⟨hj0, hu0, ⟨sk, ss, _, _⟩, hip, hat⟩ := t1 j hj hu
  have horph0 : ¬ ∃ i hi, Used hs i hi ∧ hi.kind = Kind.firmware ∧ atA att i = some k := by
    rintro ⟨x, hx, hux, hkx, hax⟩
    obtain ⟨hx', hux', ⟨sk', _⟩, _, hat'⟩ := t2 x hx hux
    exact horph ⟨x, hx', hux', by rw [sk']; exact hkx, by rw [hat']; exact hax⟩
  rcases h j hj0 k hu0 (by rw [← sk]; exact hk) (hip hst) (by rw [← hat]; exact ha) horph0 with
    h2 | ⟨low, ls, hl, hbelow, hjl, hempty, hclause⟩
  · left
    intro x hx hux
    obtain ⟨hx0, hux0, ⟨_, sx, _, _⟩, _⟩ := t1 x hx hux
    rw [sx, ss]
    exact h2 x hx0 hux0
  · right
    refine ⟨low, ls, hlow.trans hl, ?_, hjl, ?_, ?_⟩
    · intro x hx hux hlt
      obtain ⟨hx0, hux0, ⟨_, sx, _, _⟩, _⟩ := t1 x hx hux
      rw [sx, ss] at hlt
      exact hbelow x hx0 hux0 hlt
    · intro hd hud
      obtain ⟨hd0, hud0, _⟩ := t1 _ hd hud
      exact hempty hd0 hud0
    · intro hl' hul' hkl' hstl'
      obtain ⟨hl0, hul0, ⟨skl, _⟩, hipl, _⟩ := t1 low hl' hul'
      obtain ⟨⟨y, huy⟩, hfb⟩ := hclause hl0 hul0 (by rw [← skl]; exact hkl') (hipl hstl')
      obtain ⟨y', huy', _⟩ := t2 _ y huy
      refine ⟨⟨y', huy'⟩, ?_⟩
      intro hnone
      apply hfb
      rw [fallbackSlot_eq_none] at hnone ⊢
      rintro x hx ⟨hux, hcx⟩
      obtain ⟨hx', hux', _, hc', _⟩ := t2 x hx hux
      exact hnone x hx' ⟨hux', hc' hcx⟩

theorem used_set_unused {hs : Hdrs} {i j : Nat} {h : Header} (hfree : ∀ h, ¬ Used hs i h) :
    Used (hs.set i none) j h ↔ Used hs j h := by
  rw [used_erase]
  constructor
  · exact fun x => x.2
  · intro hu
    refine ⟨?_, hu⟩
    intro e; subst e; exact hfree h hu

/-- erasing a slot that holds no header changes nothing -/
theorem orph_erase_unused {n : Nat} {hs : Hdrs} {att : List (Option Nat)} (i : Nat) (h : Orph n hs att)
    (hfree : ∀ h, ¬ Used hs i h) : Orph n (hs.set i none) (att.set i none) := by
  apply h.transfer
  · intro j hd' hu
    have hu0 := (used_set_unused hfree).mp hu
    have hj : j ≠ i := by intro e; subst e; exact hfree hd' hu0
    exact ⟨hd', hu0, ⟨rfl, rfl, rfl, rfl⟩, fun x => x, getD_set_ne hj⟩
  · intro j hd hu
    have hj : j ≠ i := by intro e; subst e; exact hfree hd hu
    exact ⟨hd, (used_set_unused hfree).mpr hu, ⟨rfl, rfl, rfl, rfl⟩, fun x => x, getD_set_ne hj⟩

theorem lowOf_erase_ne {hs : Hdrs} {low ls i : Nat} (hl : lowOf hs = some (low, ls)) (hi : i ≠ low) :
    lowOf (hs.set i none) = some (low, ls) := by
  rw [lowOf_eq_some] at hl ⊢
  obtain ⟨h, hu, hs0, hall⟩ := hl
  refine ⟨h, used_erase.mpr ⟨fun e => hi e.symm, hu⟩, hs0, ?_⟩
  intro j hj huj
  exact hall j hj (used_erase.mp huj).2

/-- the attempt numbers of two headers tell which one is older -/
theorem att_le_of_seq_lt {n : Nat} {g : Geom} {hs : Hdrs} {att : List (Option Nat)} (hsk : SkelOK n g hs att)
    {i j k k' : Nat} {h h' : Header} (hu : Used hs i h) (hu' : Used hs j h') (ha : atA att i = some k)
    (ha' : atA att j = some k') (hlt : h.seq < h'.seq) : k ≤ k' := by
  apply Nat.le_of_not_lt
  intro hkk
  have := hsk.mono j h' i h k' k hu' hu ha' ha hkk
  omega

/-- two different firmware headers are never written by the same attempt -/
theorem fw_att_unique {n : Nat} {g : Geom} {hs : Hdrs} {att : List (Option Nat)} (hsk : SkelOK n g hs att)
    {i j k : Nat} {h h' : Header} (hu : Used hs i h) (hu' : Used hs j h') (hk : h.kind = Kind.firmware)
    (hk' : h'.kind = Kind.firmware) (ha : atA att i = some k) (ha' : atA att j = some k) : i = j := by
  apply Classical.byContradiction
  intro hne
  rcases hsk.pair i h j h' k hu hu' hne ha ha' with ⟨_, x, _⟩ | ⟨_, x, _⟩
  · rw [hk'] at x; cases x
  · rw [hk] at x; cases x

/-- erasing the oldest header -/
theorem orph_erase_bottom {n : Nat} {g : Geom} {hs : Hdrs} {att : List (Option Nat)} {low ls : Nat}
    (h : Orph n hs att) (hsk : SkelOK n g hs att) (hl : lowOf hs = some (low, ls)) :
    Orph n (hs.set low none) (att.set low none) := by
  obtain ⟨hlo, hlou, hls, hmin⟩ := lowOf_eq_some.mp hl
  have hminle : ∀ x hx, Used hs x hx → ls ≤ hx.seq := by
    intro x hx hux
    by_cases e : x = low
    · subst e; rw [used_unique hux hlou, hls]; exact Nat.le_refl _
    · rcases Nat.lt_or_gt_of_ne e with h3 | h3
      · exact Nat.le_of_lt ((hmin x hx hux).1 h3)
      · exact (hmin x hx hux).2 h3
  intro j hj k hu hk hst ha horph
  obtain ⟨hjl, hu0⟩ := used_erase.mp hu
  have ha0 : atA att j = some k := by rw [← ha]; exact (getD_set_ne hjl).symm
  left
  intro y hy huy hlt
  obtain ⟨hyl, huy0⟩ := used_erase.mp huy
  by_cases hpart : ∃ i hi, Used hs i hi ∧ hi.kind = Kind.firmware ∧ atA att i = some k
  · -- the partner was the erased oldest header
    obtain ⟨x, hx, hux, hkx, hax⟩ := hpart
    have hxl : x = low := by
      apply Classical.byContradiction
      intro hne
      exact horph ⟨x, hx, used_erase.mpr ⟨hne, hux⟩, hkx, by rw [← hax]; exact getD_set_ne hne⟩
    subst hxl
    obtain ⟨ky, hay⟩ := (hsk.attUsed y).mpr ⟨hy, huy0⟩
    have hle := att_le_of_seq_lt hsk huy0 hu0 hay ha0 hlt
    rcases Nat.lt_or_eq_of_le hle with h3 | h3
    · have := hsk.mono y hy x hx ky k huy0 hux hay hax h3
      have := hminle y hy huy0
      rw [used_unique hux hlou, hls] at *
      omega
    · subst h3
      have hyj : y ≠ j := by intro e; subst e; rw [used_unique huy0 hu0] at hlt; omega
      rcases hsk.pair y hy j hj ky huy0 hu0 hyj hay ha0 with ⟨ky1, _⟩ | ⟨kj1, _⟩
      · exact hyl (fw_att_unique hsk huy0 hux ky1 hkx hay hax)
      · rw [hk] at kj1; cases kj1
  · rcases h j hj k hu0 hk hst ha0 hpart with h2 | ⟨low', ls', hl', hbelow, _⟩
    · exact h2 y hy huy0 hlt
    · rw [hl] at hl'
      simp only [Option.some.injEq, Prod.mk.injEq] at hl'
      exact hyl (hl'.1 ▸ hbelow y hy huy0 hlt)



/-- erasing the newest header `i`; `hno`: the situation "oldest header = in-progress firmware, slot after it blank,
    slot before it used, a confirmed image exists" does not occur (then `alloc_slotpair` would not erase the top) -/
theorem orph_erase_top {n : Nat} {g : Geom} {hs : Hdrs} {att : List (Option Nat)} {i : Nat} {hi : Header}
    (h : Orph n hs att) (hsk : SkelOK n g hs att) (hui : Used hs i hi)
    (htop : ∀ x hx, Used hs x hx → x ≠ i → hx.seq < hi.seq)
    (hno : ∀ low ls hl, lowOf hs = some (low, ls) → Used hs low hl → hl.kind = Kind.firmware → InProg hl →
      (∀ h, ¬ Used hs ((low + 1) % n) h) → (∃ h, Used hs ((low + n - 1) % n) h) → fallbackSlot hs ≠ none → False) :
    Orph n (hs.set i none) (att.set i none) := by
  intro j hj k hu hk hst ha horph
  obtain ⟨hji, hu0⟩ := used_erase.mp hu
  have ha0 : atA att j = some k := by rw [← ha]; exact (getD_set_ne hji).symm
  have hpart : ¬ ∃ x hx, Used hs x hx ∧ hx.kind = Kind.firmware ∧ atA att x = some k := by
    rintro ⟨x, hx, hux, hkx, hax⟩
    have hxi : x = i := by
      apply Classical.byContradiction
      intro hne
      exact horph ⟨x, hx, used_erase.mpr ⟨hne, hux⟩, hkx, by rw [← hax]; exact getD_set_ne hne⟩
    subst hxi
    have hxj : x ≠ j := fun e => hji e.symm
    rcases hsk.pair x hx j hj k hux hu0 hxj hax ha0 with ⟨_, _, _, hlt⟩ | ⟨kj1, _⟩
    · have := htop j hj hu0 hji
      rw [used_unique hux hui] at hlt
      omega
    · rw [hk] at kj1; cases kj1
  rcases h j hj k hu0 hk hst ha0 hpart with h2 | ⟨low, ls, hl, hbelow, hjl, hempty, hclause⟩
  · left
    intro x hx hux
    exact h2 x hx (used_erase.mp hux).2
  · right
    obtain ⟨hlo, hlou, hls, hmin⟩ := lowOf_eq_some.mp hl
    have hil : i ≠ low := by
      intro e
      have h1 := htop j hj hu0 hji
      have hjl' : j ≠ low := e ▸ hji
      have h2 : ls ≤ hj.seq := by
        rcases Nat.lt_or_gt_of_ne hjl' with h3 | h3
        · exact Nat.le_of_lt ((hmin j hj hu0).1 h3)
        · exact (hmin j hj hu0).2 h3
      rw [e] at hui
      rw [used_unique hui hlou, hls] at h1
      omega
    refine ⟨low, ls, lowOf_erase_ne hl hil, ?_, hjl, ?_, ?_⟩
    · intro x hx hux hlt
      exact hbelow x hx (used_erase.mp hux).2 hlt
    · intro hd hud
      exact hempty hd (used_erase.mp hud).2
    · intro hl' hul' hkl' hstl'
      have hul0 := (used_erase.mp hul').2
      obtain ⟨hy, hfb⟩ := hclause hl' hul0 hkl' hstl'
      exact absurd (hno low ls hl' hl hul0 hkl' hstl' hempty hy hfb) id

/-- erasing the slot right after the oldest header while the ring is full and a confirmed image sits elsewhere -/
theorem orph_erase_second {n : Nat} {g : Geom} {hs : Hdrs} {att : List (Option Nat)} {low ls f : Nat}
    (hn : 4 ≤ n) (h : Orph n hs att) (hsk : SkelOK n g hs att) (hinv : RingInv n hs)
    (hl : lowOf hs = some (low, ls)) (hfull : ∃ h, Used hs ((low + n - 1) % n) h)
    (hfb : fallbackSlot hs = some f) (hf2 : f ≠ (low + 1) % n) :
    Orph n (hs.set ((low + 1) % n) none) (att.set ((low + 1) % n) none) := by
  obtain ⟨hlo, hlou, hls, _⟩ := lowOf_eq_some.mp hl
  have hlown : low < n := hinv.1 ▸ used_lt hlou
  have hxn : (low + 1) % n < n := Nat.mod_lt _ (by omega)
  have hxl : (low + 1) % n ≠ low := by
    have := succ_cases n low hlown; omega
  have hpx : (low + n - 1) % n ≠ (low + 1) % n := by
    have a := pred_cases n low hlown
    have b := succ_cases n low hlown
    omega
  have hgl : GapSorted n hs low := (seqInv_iff' hl).mp hinv.2.2
  have e1 := off_one (by omega : 2 ≤ n) hlown
  have hfull' : ∃ h, Used (hs.set ((low + 1) % n) none) ((low + n - 1) % n) h := by
    obtain ⟨y, huy⟩ := hfull
    exact ⟨y, used_erase.mpr ⟨hpx, huy⟩⟩
  have hfb' : fallbackSlot (hs.set ((low + 1) % n) none) ≠ none := by
    obtain ⟨hd, hud, hcd⟩ := fallbackSlot_used hfb
    intro hnone
    rw [fallbackSlot_eq_none] at hnone
    exact hnone f hd ⟨used_erase.mpr ⟨hf2, hud⟩, hcd⟩
  intro j hj k hu hk hst ha horph
  obtain ⟨hjx, hu0⟩ := used_erase.mp hu
  have ha0 : atA att j = some k := by rw [← ha]; exact (getD_set_ne hjx).symm
  by_cases hpart : ∃ x hx, Used hs x hx ∧ hx.kind = Kind.firmware ∧ atA att x = some k
  · -- the erased slot held the firmware partner of `j`
    obtain ⟨x, hx, hux, hkx, hax⟩ := hpart
    have hxe : x = (low + 1) % n := by
      apply Classical.byContradiction
      intro hne
      exact horph ⟨x, hx, used_erase.mpr ⟨hne, hux⟩, hkx, by rw [← hax]; exact getD_set_ne hne⟩
    right
    have hxj : x ≠ j := by rw [hxe]; exact fun e => hjx e.symm
    have hpair := hsk.pair x hx j hj k hux hu0 hxj hax ha0
    have hjpos : j = (x + 1) % n ∧ hx.seq < hj.seq := by
      rcases hpair with ⟨_, _, e, l⟩ | ⟨kj1, _⟩
      · exact ⟨e, l⟩
      · rw [hk] at kj1; cases kj1
    refine ⟨low, ls, lowOf_erase_ne hl hxl, ?_, ?_, ?_, ?_⟩
    · intro y hy huy hlt
      obtain ⟨hyx, huy0⟩ := used_erase.mp huy
      apply Classical.byContradiction
      intro hyl
      obtain ⟨ky, hay⟩ := (hsk.attUsed y).mpr ⟨hy, huy0⟩
      have hle := att_le_of_seq_lt hsk huy0 hu0 hay ha0 hlt
      rcases Nat.lt_or_eq_of_le hle with h3 | h3
      · -- older attempt than the partner, yet further along the ring than the partner
        have hlt' := hsk.mono y hy x hx ky k huy0 hux hay hax h3
        have hyn : y < n := hinv.1 ▸ used_lt huy0
        have ho0 : off n low y ≠ 0 := fun e => hyl (off_inj' hlown hyn hlown (by rw [e, off_self hlown]))
        have ho1 : off n low y ≠ 1 := fun e => hyx (off_inj' hlown hyn hxn (by rw [e, e1]))
        have := hgl x hx y hy hux huy0 (by rw [hxe, e1]; omega)
        omega
      · subst h3
        have hyj : y ≠ j := by intro e; subst e; rw [used_unique huy0 hu0] at hlt; omega
        rcases hsk.pair y hy j hj ky huy0 hu0 hyj hay ha0 with ⟨ky1, _⟩ | ⟨kj1, _⟩
        · exact hyx (hxe ▸ fw_att_unique hsk huy0 hux ky1 hkx hay hax)
        · rw [hk] at kj1; cases kj1
    · rw [hjpos.1, hxe, Nat.mod_add_mod]
    · intro hd hud
      exact absurd rfl (used_erase.mp hud).1
    · intro _ _ _ _
      exact ⟨hfull', hfb'⟩
  · rcases h j hj k hu0 hk hst ha0 hpart with h2 | ⟨low', ls', hl', hbelow, hjl, hempty, hclause⟩
    · left
      intro x hx hux
      exact h2 x hx (used_erase.mp hux).2
    · right
      rw [hl] at hl'
      simp only [Option.some.injEq, Prod.mk.injEq] at hl'
      obtain ⟨rfl, rfl⟩ := hl'
      refine ⟨low, ls, lowOf_erase_ne hl hxl, ?_, hjl, ?_, ?_⟩
      · intro x hx hux hlt
        exact hbelow x hx (used_erase.mp hux).2 hlt
      · intro hd hud
        exact hempty hd (used_erase.mp hud).2
      · intro _ _ _ _
        exact ⟨hfull', hfb'⟩



theorem lowOf_write_top {hs : Hdrs} {low ls i : Nat} {h' : Header} (hl : lowOf hs = some (low, ls))
    (hil : i < hs.length) (hfree : ∀ hd, ¬ Used hs i hd) (hnew : ∀ x hx, Used hs x hx → hx.seq < h'.seq) :
    lowOf (hs.set i (some h')) = some (low, ls) := by
  rw [lowOf_eq_some] at hl ⊢
  obtain ⟨h, hu, hs0, hall⟩ := hl
  have hli : low ≠ i := by intro e; subst e; exact hfree h hu
  refine ⟨h, used_set.mpr (Or.inr ⟨hli, hu⟩), hs0, ?_⟩
  intro j hj huj
  rcases used_set.mp huj with ⟨_, _, e⟩ | ⟨_, huj⟩
  · simp only [Option.some.injEq] at e
    subst e
    have := hnew low h hu
    rw [hs0] at this
    exact ⟨fun _ => this, fun _ => Nat.le_of_lt this⟩
  · exact hall j hj huj

/-- a slot beyond all used slots (seen from a cut) is not the blank slot between the oldest header and an orphan -/
theorem write_pos {n c low i : Nat} (hn : 3 ≤ n) (hc : c < n) (hl : low < n)
    (h1 : off n c low < off n c i) (h2 : off n c ((low + 2) % n) < off n c i)
    (h3 : ¬ off n c ((low + 2) % n) < off n c low) : i ≠ (low + 1) % n := by
  intro e
  subst e
  unfold off at *
  have a0 := off_cases n c low hl hc
  have a1 := off_cases n c ((low + 1) % n) (Nat.mod_lt _ (by omega)) hc
  have a2 := off_cases n c ((low + 2) % n) (Nat.mod_lt _ (by omega)) hc
  have s1 := succ_cases n low hl
  have s2 := succ2_cases n low hl (by omega)
  omega

/-- a fresh header with the largest sequence number so far is written into a blank slot -/
theorem orph_write_top {n : Nat} {hs : Hdrs} {att : List (Option Nat)} {i id : Nat} {h' : Header}
    (h : Orph n hs att) (hil : i < hs.length) (hal : i < att.length) (hfree : ∀ hd, ¬ Used hs i hd)
    (hnew : ∀ x hx, Used hs x hx → hx.seq < h'.seq)
    (hpartner : h'.kind = Kind.parity → ∃ x hx, Used hs x hx ∧ hx.kind = Kind.firmware ∧ atA att x = some id)
    (hpos : ∀ low ls, lowOf hs = some (low, ls) → (∃ hj, Used hs ((low + 2) % n) hj) → i ≠ (low + 1) % n) :
    Orph n (hs.set i (some h')) (att.set i (some id)) := by
  have keep : ∀ x hx, Used hs x hx → Used (hs.set i (some h')) x hx ∧ atA (att.set i (some id)) x = atA att x := by
    intro x hx hux
    have hxi : x ≠ i := by intro e; subst e; exact hfree hx hux
    exact ⟨used_set.mpr (Or.inr ⟨hxi, hux⟩), getD_set_ne hxi⟩
  intro j hj k hu hk hst ha horph
  by_cases hji : j = i
  · exfalso
    subst hji
    have e : hj = h' := by
      rcases used_set.mp hu with ⟨_, _, e⟩ | ⟨e, _⟩
      · simpa using e.symm
      · exact absurd rfl e
    subst e
    have hk' : k = id := by
      have : atA (att.set j (some id)) j = some id := getD_set_eq hal
      rw [this] at ha; simpa using ha.symm
    obtain ⟨x, hx, hux, hkx, hax⟩ := hpartner hk
    obtain ⟨k1, k2⟩ := keep x hx hux
    exact horph ⟨x, hx, k1, hkx, by rw [k2, hk']; exact hax⟩
  · have hu0 : Used hs j hj := by
      rcases used_set.mp hu with ⟨e, _, _⟩ | ⟨_, hu⟩
      · exact absurd e hji
      · exact hu
    have ha0 : atA att j = some k := by rw [← ha]; exact (getD_set_ne hji).symm
    have hpart : ¬ ∃ x hx, Used hs x hx ∧ hx.kind = Kind.firmware ∧ atA att x = some k := by
      rintro ⟨x, hx, hux, hkx, hax⟩
      obtain ⟨k1, k2⟩ := keep x hx hux
      exact horph ⟨x, hx, k1, hkx, by rw [k2]; exact hax⟩
    have hjlt := hnew j hj hu0
    rcases h j hj k hu0 hk hst ha0 hpart with h2 | ⟨low, ls, hl, hbelow, hjl, hempty, hclause⟩
    · left
      intro x hx hux
      rcases used_set.mp hux with ⟨_, _, e⟩ | ⟨_, hux⟩
      · simp only [Option.some.injEq] at e; subst e; omega
      · exact h2 x hx hux
    · right
      obtain ⟨hlo, hlou, -⟩ := lowOf_eq_some.mp hl
      refine ⟨low, ls, lowOf_write_top hl hil hfree hnew, ?_, hjl, ?_, ?_⟩
      · intro x hx hux hlt
        rcases used_set.mp hux with ⟨_, _, e⟩ | ⟨_, hux⟩
        · simp only [Option.some.injEq] at e; subst e; omega
        · exact hbelow x hx hux hlt
      · intro hd hud
        rcases used_set.mp hud with ⟨e, _, _⟩ | ⟨_, hud⟩
        · exact hpos low ls hl ⟨hj, hjl ▸ hu0⟩ e.symm
        · exact hempty hd hud
      · intro hl' hul' hkl' hstl'
        have hul0 : Used hs low hl' := by
          rcases used_set.mp hul' with ⟨e, _, _⟩ | ⟨_, hu⟩
          · exact absurd hlou (e ▸ hfree hlo)
          · exact hu
        obtain ⟨⟨y, huy⟩, hfb⟩ := hclause hl' hul0 hkl' hstl'
        refine ⟨⟨y, (keep _ y huy).1⟩, ?_⟩
        intro hnone
        apply hfb
        rw [fallbackSlot_eq_none] at hnone ⊢
        rintro x hx ⟨hux, hcx⟩
        exact hnone x hx ⟨(keep x hx hux).1, hcx⟩





theorem high_of_full {n low high : Nat} (hl : low < n) (hh : high < n) (hd : off n low high + 1 = n) :
    high = (low + n - 1) % n := by
  unfold off at hd
  have a := off_cases n low high hh hl
  have b := pred_cases n low hl
  omega

theorem off_pred_self {n low : Nat} (hn : 2 ≤ n) (hl : low < n) : off n low ((low + n - 1) % n) + 1 = n := by
  unfold off
  have b := pred_cases n low hl
  have a := off_cases n low ((low + n - 1) % n) (Nat.mod_lt _ (by omega)) hl
  omega

theorem high_top {n : Nat} {hs : Hdrs} (hn : 0 < n) (hinv : RingInv n hs) {high hsq : Nat}
    (hh : highOf hs = some (high, hsq)) :
    ∃ hhi, Used hs high hhi ∧ hhi.seq = hsq ∧ ∀ x hx, Used hs x hx → x ≠ high → hx.seq < hhi.seq := by
  obtain ⟨hhi, hhiu, hhs, hmax⟩ := highOf_eq_some.mp hh
  refine ⟨hhi, hhiu, hhs, ?_⟩
  intro x hx hux hne
  have hne' := ring_seq_ne hn hinv hux hhiu hne
  rw [hhs]
  rcases Nat.lt_or_gt_of_ne hne with h3 | h3
  · exact (hmax x hx hux).1 h3
  · have := (hmax x hx hux).2 h3; omega

theorem lowOf_erase_unused {hs : Hdrs} {i : Nat} (hfree : ∀ h, ¬ Used hs i h) : lowOf (hs.set i none) = lowOf hs :=
  lowOf_congr (fun _ hd' hu => ⟨hd', (used_set_unused hfree).mp hu, rfl⟩)
    (fun _ hd hu => ⟨hd, (used_set_unused hfree).mpr hu, rfl⟩)

/-- `Orph` after the two erases of `start_update`, whatever branch `alloc_slotpair` took -/
theorem orph_start_erase {n : Nat} {g : Geom} (hn : 4 ≤ n) {hs : Hdrs} {att : List (Option Nat)} (hinv : RingInv n hs)
    (hsk : SkelOK n g hs att) (ho : Orph n hs att) {a b : Nat} (hab : a ≠ b) (hcase : PairCase n hs a b) :
    Orph n (hs.set b none) (att.set b none) ∧
    Orph n ((hs.set b none).set a none) ((att.set b none).set a none) := by
  have hn0 : 0 < n := by omega
  have hsk1 := skel_erase b hsk
  have hinv1 : RingInv n (hs.set b none) :=
    hinv.sub hn0 (by simp [hinv.1]) (set_sub (by intro h' e; cases e))
  cases hcase with
  | free ha hb =>
    have o1 := orph_erase_unused b ho hb
    exact ⟨o1, orph_erase_unused a o1 (fun h hu => ha h (used_erase.mp hu).2)⟩
  | reuse1 low ls high hsq hl hh ea hb hd =>
    subst ea
    have o1 := orph_erase_unused b ho hb
    refine ⟨o1, ?_⟩
    obtain ⟨hhi, hhiu, _, htop⟩ := high_top hn0 hinv hh
    obtain ⟨hlo, hlou, -⟩ := lowOf_eq_some.mp hl
    have hlown : low < n := hinv.1 ▸ used_lt hlou
    have harc := (arcInv_iff hl hh).mp hinv.2.1
    apply orph_erase_top o1 hsk1 (hi := hhi) ((used_set_unused hb).mpr hhiu)
    · intro x hx hux hne
      exact htop x hx ((used_set_unused hb).mp hux) hne
    · intro low' ls' hl' hlow' _ _ _ _ hy _
      rw [lowOf_erase_unused hb, hl] at hlow'
      simp only [Option.some.injEq, Prod.mk.injEq] at hlow'
      obtain ⟨rfl, rfl⟩ := hlow'
      obtain ⟨y, huy⟩ := hy
      have := harc _ y ((used_set_unused hb).mp huy)
      have := off_pred_self (by omega : 2 ≤ n) hlown
      omega
  | oldest1 low ls hl eb ha =>
    subst eb
    have o1 := orph_erase_bottom ho hsk hl
    exact ⟨o1, orph_erase_unused a o1 (fun h hu => ha h (used_erase.mp hu).2)⟩
  | reuse2 low ls high hsq hl hh eb ea hd hfb =>
    subst eb
    obtain ⟨hhi, hhiu, _, htop⟩ := high_top hn0 hinv hh
    obtain ⟨hlo, hlou, -⟩ := lowOf_eq_some.mp hl
    have hlown : low < n := hinv.1 ▸ used_lt hlou
    have hhighn : b < n := hinv.1 ▸ used_lt hhiu
    have harc := (arcInv_iff hl hh).mp hinv.2.1
    have hgl : GapSorted n hs low := (seqInv_iff' hl).mp hinv.2.2
    have ehigh := high_of_full hlown hhighn hd
    have hbl : b ≠ low := by
      intro e; rw [e, off_self hlown] at hd; omega
    have o1 : Orph n (hs.set b none) (att.set b none) := by
      apply orph_erase_top ho hsk hhiu htop
      intro low' ls' hl' hlow' hul' hkl' hstl' hempty _ hfbne
      rw [hl] at hlow'
      simp only [Option.some.injEq, Prod.mk.injEq] at hlow'
      obtain ⟨rfl, rfl⟩ := hlow'
      cases hf : fallbackSlot hs with
      | none => exact hfbne hf
      | some f =>
        obtain ⟨hd', hud, hcd⟩ := fallbackSlot_used hf
        rw [hf] at hfb
        simp only [Option.getD_some] at hfb
        rcases hfb with e | e
        · subst e
          rw [used_unique hud hul'] at hcd
          unfold Conf at hcd
          unfold InProg at hstl'
          rw [hstl'] at hcd
          cases hcd
        · subst e
          exact hempty hd' hud
    refine ⟨o1, ?_⟩
    by_cases hused : ∃ ha, Used (hs.set b none) a ha
    · obtain ⟨ha, hua⟩ := hused
      have hua0 := (used_erase.mp hua).2
      have ean : a < n := hinv.1 ▸ used_lt hua0
      have eoa : off n low a + 1 = off n low b := by rw [ea]; exact off_pred hlown hhighn (by omega)
      apply orph_erase_top o1 hsk1 hua
      · intro x hx hux hne
        obtain ⟨hxb, hux0⟩ := used_erase.mp hux
        have hxn : x < n := hinv.1 ▸ used_lt hux0
        have h1 := harc x hx hux0
        have h2 : off n low x ≠ off n low b := fun e => hxb (off_inj' hlown hxn hhighn e)
        have h3 : off n low x ≠ off n low a := fun e => hne (off_inj' hlown hxn ean e)
        have := hgl x hx a ha hux0 hua0 (by omega)
        omega
      · intro low' ls' hl' hlow' _ _ _ _ hy _
        rw [lowOf_erase_ne hl hbl] at hlow'
        simp only [Option.some.injEq, Prod.mk.injEq] at hlow'
        obtain ⟨rfl, rfl⟩ := hlow'
        obtain ⟨y, huy⟩ := hy
        rw [← ehigh] at huy
        exact absurd rfl (used_erase.mp huy).1
    · exact orph_erase_unused a o1 (fun h hu => hused ⟨h, hu⟩)
  | oldest2 low ls high hsq f hl hh ea eb hd hfb hf1 hf2 =>
    subst ea; subst eb
    obtain ⟨hhi, hhiu, -⟩ := highOf_eq_some.mp hh
    obtain ⟨hlo, hlou, -⟩ := lowOf_eq_some.mp hl
    have hlown : a < n := hinv.1 ▸ used_lt hlou
    have hhighn : high < n := hinv.1 ▸ used_lt hhiu
    have ehigh := high_of_full hlown hhighn hd
    have o1 := orph_erase_second hn ho hsk hinv hl ⟨hhi, ehigh ▸ hhiu⟩ hfb hf2
    exact ⟨o1, orph_erase_bottom o1 hsk1 (lowOf_erase_ne hl (fun e => hab e.symm))⟩




theorem mem_insertPair {p x : Nat × Nat} {l : List (Nat × Nat)} : x ∈ insertPair p l ↔ x = p ∨ x ∈ l := by
  induction l with
  | nil => simp [insertPair]
  | cons q qs ih =>
    unfold insertPair
    split
    · simp
    · simp only [List.mem_cons, ih]
      constructor
      · rintro (e | e | e)
        · exact Or.inr (Or.inl e)
        · exact Or.inl e
        · exact Or.inr (Or.inr e)
      · rintro (e | e | e)
        · exact Or.inr (Or.inl e)
        · exact Or.inl e
        · exact Or.inr (Or.inr e)

/-- a fresh firmware header written by a new attempt -/
theorem live_write {hs : Hdrs} {att : List (Option Nat)} {live : List (Nat × Nat)} {i id : Nat} {h' : Header}
    (h : LiveOK hs att live) (hal : i < att.length)
    (hfresh : ∀ j hd, Used hs j hd → atA att j ≠ some id) :
    LiveOK (hs.set i (some h')) (att.set i (some id)) (live.filter (untouched i)) := by
  have hai : atA (att.set i (some id)) i = some id := getD_set_eq hal
  have cls : ∀ j hd k, Used (hs.set i (some h')) j hd → atA (att.set i (some id)) j = some k →
      (j = i ∧ k = id) ∨ (j ≠ i ∧ Used hs j hd ∧ atA att j = some k) := by
    intro j hd k hu e
    rcases used_set.mp hu with ⟨e1, _, _⟩ | ⟨hj, hu⟩
    · left; rw [e1, hai] at e; exact ⟨e1, by simpa using e.symm⟩
    · right; rw [show atA (att.set i (some id)) j = atA att j from getD_set_ne hj] at e; exact ⟨hj, hu, e⟩
  intro f p
  rw [List.mem_filter, untouched_iff, h f p]
  constructor
  · rintro ⟨⟨hf, hp, k, u1, k1, s1, u2, k2, s2, a1, a2⟩, hif, hip⟩
    simp only at hif hip
    exact ⟨hf, hp, k, used_set.mpr (Or.inr ⟨fun e => hif e.symm, u1⟩), k1, s1,
      used_set.mpr (Or.inr ⟨fun e => hip e.symm, u2⟩), k2, s2,
      by rw [show atA (att.set i (some id)) f = atA att f from getD_set_ne (fun e => hif e.symm)]; exact a1,
      by rw [show atA (att.set i (some id)) p = atA att p from getD_set_ne (fun e => hip e.symm)]; exact a2⟩
  · rintro ⟨hf, hp, k, u1, k1, s1, u2, k2, s2, a1, a2⟩
    rcases cls f hf k u1 a1 with ⟨e1, e2⟩ | ⟨hfi, u1', a1'⟩
    · exfalso
      rcases cls p hp k u2 a2 with ⟨e1', _⟩ | ⟨_, u2', a2'⟩
      · rw [e1] at u1; rw [e1'] at u2
        rw [used_unique u1 u2, k2] at k1; cases k1
      · exact hfresh p hp u2' (e2 ▸ a2')
    · rcases cls p hp k u2 a2 with ⟨_, e2'⟩ | ⟨hpi, u2', a2'⟩
      · exact absurd (e2' ▸ a1') (hfresh f hf u1')
      · exact ⟨⟨hf, hp, k, u1', k1, s1, u2', k2, s2, a1', a2'⟩, fun e => hfi e.symm, fun e => hpi e.symm⟩

/-- the parity header written right after the firmware header of the same attempt: the pair becomes live -/
theorem live_write_partner {hs : Hdrs} {att : List (Option Nat)} {live : List (Nat × Nat)} {a b id : Nat}
    {ha h' : Header} (h : LiveOK hs att live) (hil : b < hs.length) (hal : b < att.length)
    (hfree : ∀ hd, ¬ Used hs b hd) (hua : Used hs a ha) (hka : ha.kind = Kind.firmware) (hsa : InProg ha)
    (haa : atA att a = some id) (honly : ∀ j hd, Used hs j hd → atA att j = some id → j = a)
    (hk' : h'.kind = Kind.parity) (hs' : InProg h') :
    LiveOK (hs.set b (some h')) (att.set b (some id)) (insertPair (a, b) (live.filter (untouched b))) := by
  have hab : a ≠ b := by intro e; subst e; exact hfree ha hua
  have hai : atA (att.set b (some id)) b = some id := getD_set_eq hal
  have hub : Used (hs.set b (some h')) b h' := used_set.mpr (Or.inl ⟨rfl, hil, rfl⟩)
  intro f p
  rw [mem_insertPair, List.mem_filter, untouched_iff, h f p]
  constructor
  · rintro (e | ⟨⟨hf, hp, k, u1, k1, s1, u2, k2, s2, a1, a2⟩, hif, hip⟩)
    · simp only [Prod.mk.injEq] at e
      obtain ⟨rfl, rfl⟩ := e
      exact ⟨ha, h', id, used_set.mpr (Or.inr ⟨hab, hua⟩), hka, hsa, hub, hk', hs',
        by rw [show atA (att.set p (some id)) f = atA att f from getD_set_ne hab]; exact haa, hai⟩
    · simp only at hif hip
      exact ⟨hf, hp, k, used_set.mpr (Or.inr ⟨fun e => hif e.symm, u1⟩), k1, s1,
        used_set.mpr (Or.inr ⟨fun e => hip e.symm, u2⟩), k2, s2,
        by rw [show atA (att.set b (some id)) f = atA att f from getD_set_ne (fun e => hif e.symm)]; exact a1,
        by rw [show atA (att.set b (some id)) p = atA att p from getD_set_ne (fun e => hip e.symm)]; exact a2⟩
  · rintro ⟨hf, hp, k, u1, k1, s1, u2, k2, s2, a1, a2⟩
    have hfb : f ≠ b := by
      intro e; subst e
      rw [used_unique u1 hub, hk'] at k1; cases k1
    have u1' : Used hs f hf := by
      rcases used_set.mp u1 with ⟨e, _, _⟩ | ⟨_, u⟩
      · exact absurd e hfb
      · exact u
    have a1' : atA att f = some k := by rw [← a1]; exact (getD_set_ne hfb).symm
    by_cases hpb : p = b
    · left
      subst hpb
      rw [hai] at a2
      simp only [Option.some.injEq] at a2
      subst a2
      rw [honly f hf u1' a1']
    · right
      have u2' : Used hs p hp := by
        rcases used_set.mp u2 with ⟨e, _, _⟩ | ⟨_, u⟩
        · exact absurd e hpb
        · exact u
      have a2' : atA att p = some k := by rw [← a2]; exact (getD_set_ne hpb).symm
      exact ⟨⟨hf, hp, k, u1', k1, s1, u2', k2, s2, a1', a2'⟩, fun e => hfb e.symm, fun e => hpb e.symm⟩



theorem inv2_start (c : Cfg) (hn : 4 ≤ c.n) (s : State) (h : Inv2 c s) (hinv : RingInv c.n s.hs)
    (hroom : SeqRoom 2 s.hs) : ∀ t ∈ startSuccs c s, Inv2 c t.2 := by
  intro t ht
  obtain ⟨a, b, sa, sb, hc⟩ : ∃ a b sa sb, choosePair c.n s.hs = .ok (a, b, sa, sb) := by
    obtain ⟨⟨a, b, sa, sb⟩, hr⟩ := choosePair_ok c.n s.hs
    exact ⟨a, b, sa, sb, hr⟩
  have hmem : t.2 ∈ (startSuccs c s).map (·.2) := List.mem_map_of_mem ht
  rw [startSuccs_eq c s hc] at hmem
  have hn0 : 0 < c.n := by omega
  obtain ⟨hab, han, hbn, hbelow, hlt, hsav, hsbv⟩ := startFacts hn hinv hroom hc
  obtain ⟨hcase, hadj⟩ := choosePair_cases hn hinv hc
  obtain ⟨_, _, _, cut, hcn, hg, hall, hcab, _⟩ := start_ok hn hinv hroom hc
  have hlen := hinv.1
  have halen := h.skel.alen
  -- names for the four arrangements
  generalize hH1 : s.hs.set b none = hs1
  generalize hH2 : hs1.set a none = hs2
  generalize hH3 : hs2.set a (some (fwHeader c.geom sa)) = hs3
  generalize hA1 : s.att.set b none = att1
  generalize hA2 : att1.set a none = att2
  generalize hA3 : att2.set a (some (maxAtt s)) = att3
  have hl1 : hs1.length = c.n := by rw [← hH1]; simp [hlen]
  have hl2 : hs2.length = c.n := by rw [← hH2]; simp [hl1]
  have hl3 : hs3.length = c.n := by rw [← hH3]; simp [hl2]
  have hal1 : att1.length = c.n := by rw [← hA1]; simp [halen]
  have hal2 : att2.length = c.n := by rw [← hA2]; simp [hal1]
  have hal3 : att3.length = c.n := by rw [← hA3]; simp [hal2]
  -- used slots of the arrangement after the two erases
  have hu2 : ∀ j hd, Used hs2 j hd ↔ j ≠ a ∧ j ≠ b ∧ Used s.hs j hd := by
    intro j hd
    rw [← hH2, ← hH1, used_erase, used_erase]
  have ha2 : ∀ j, j ≠ a → j ≠ b → atA att2 j = atA s.att j := by
    intro j hja hjb
    rw [← hA2, ← hA1]
    unfold atA
    rw [getD_set_ne hja, getD_set_ne hjb]
  have hfree2a : ∀ hd, ¬ Used hs2 a hd := fun hd hu => ((hu2 a hd).mp hu).1 rfl
  have hfree2b : ∀ hd, ¬ Used hs2 b hd := fun hd hu => ((hu2 b hd).mp hu).2.1 rfl
  have hua3 : Used hs3 a (fwHeader c.geom sa) := by
    rw [← hH3]; exact used_set.mpr (Or.inl ⟨rfl, by rw [hl2]; exact han, rfl⟩)
  have hu3 : ∀ j hd, Used hs3 j hd ↔ (j = a ∧ hd = fwHeader c.geom sa) ∨ (j ≠ a ∧ Used hs2 j hd) := by
    intro j hd
    rw [← hH3, used_set]
    constructor
    · rintro (⟨e, _, e'⟩ | x)
      · exact Or.inl ⟨e, by simpa using e'.symm⟩
      · exact Or.inr x
    · rintro (⟨e, e'⟩ | x)
      · exact Or.inl ⟨e, by rw [hl2]; exact han, by rw [e']⟩
      · exact Or.inr x
  have hfree3b : ∀ hd, ¬ Used hs3 b hd := by
    intro hd hu
    rcases (hu3 b hd).mp hu with ⟨e, _⟩ | ⟨_, hu⟩
    · exact hab e.symm
    · exact hfree2b hd hu
  have haa3 : atA att3 a = some (maxAtt s) := by
    rw [← hA3]; exact getD_set_eq (by rw [hal2]; exact han)
  have ha3 : ∀ j, j ≠ a → atA att3 j = atA att2 j := by
    intro j hj; rw [← hA3]; exact getD_set_ne hj
  have hfwIP : InProg (fwHeader c.geom sa) := status_fresh _ _ _ _ hsav
  have hparIP : InProg (parHeader c.geom sb) := status_fresh _ _ _ _ hsbv
  -- skeleton
  have sk1 : SkelOK c.n c.geom hs1 att1 := by rw [← hH1, ← hA1]; exact skel_erase b h.skel
  have sk2 : SkelOK c.n c.geom hs2 att2 := by rw [← hH2, ← hA2]; exact skel_erase a sk1
  have sk3 : SkelOK c.n c.geom hs3 att3 := by
    rw [← hH3, ← hA3]
    apply skel_write a (maxAtt s) (fwHeader c.geom sa) sk2 han hl2 hfree2a
    · exact ⟨rfl, fun _ => rfl, fun e => by cases e⟩
    · intro j hd k hu hk
      obtain ⟨hja, hjb, hu0⟩ := (hu2 j hd).mp hu
      rw [ha2 j hja hjb] at hk
      exact Or.inl ⟨lt_maxAtt hk, hbelow j hd hu0 hja hjb⟩
  have sk4 : SkelOK c.n c.geom (hs3.set b (some (parHeader c.geom sb))) (att3.set b (some (maxAtt s))) := by
    apply skel_write b (maxAtt s) (parHeader c.geom sb) sk3 hbn hl3 hfree3b
    · exact ⟨rfl, fun e => (by cases e), fun _ => rfl⟩
    · intro j hd k hu hk
      rcases (hu3 j hd).mp hu with ⟨rfl, rfl⟩ | ⟨hja, hu⟩
      · rw [haa3] at hk
        simp only [Option.some.injEq] at hk
        exact Or.inr ⟨hk.symm, rfl, rfl, hadj, hlt⟩
      · obtain ⟨_, hjb, hu0⟩ := (hu2 j hd).mp hu
        rw [ha3 j hja, ha2 j hja hjb] at hk
        have := hbelow j hd hu0 hja hjb
        exact Or.inl ⟨lt_maxAtt hk, by show hd.seq < sb; omega⟩
  -- live pairs
  have lv1 : LiveOK hs1 att1 (s.live.filter (untouched b)) := by rw [← hH1, ← hA1]; exact live_erase b h.lv
  have lv2 : LiveOK hs2 att2 ((s.live.filter (untouched b)).filter (untouched a)) := by
    rw [← hH2, ← hA2]; exact live_erase a lv1
  have fresh2 : ∀ j hd, Used hs2 j hd → atA att2 j ≠ some (maxAtt s) := by
    intro j hd hu e
    obtain ⟨hja, hjb, _⟩ := (hu2 j hd).mp hu
    rw [ha2 j hja hjb] at e
    have := lt_maxAtt e
    omega
  have lv3 : LiveOK hs3 att3 (((s.live.filter (untouched b)).filter (untouched a)).filter (untouched a)) := by
    rw [← hH3, ← hA3]
    exact live_write lv2 (by rw [hal2]; exact han) fresh2
  -- orphans
  obtain ⟨o1, o2⟩ : Orph c.n hs1 att1 ∧ Orph c.n hs2 att2 := by
    rw [← hH2, ← hA2, ← hH1, ← hA1]
    exact orph_start_erase hn hinv h.skel h.orph hab hcase
  have hg2 : GapSorted c.n hs2 cut := by rw [← hH2, ← hH1]; exact hg
  have hall2 : ∀ j h', Used hs2 j h' → off c.n cut j < off c.n cut a ∧ h'.seq + (off c.n cut a - off c.n cut j) ≤ sa := by
    rw [← hH2, ← hH1]; exact hall
  have posLemma : ∀ (hs' : Hdrs) (i : Nat), hs'.length = c.n → GapSorted c.n hs' cut →
      (∀ j h', Used hs' j h' → off c.n cut j < off c.n cut i) →
      ∀ low ls, lowOf hs' = some (low, ls) → (∃ hj, Used hs' ((low + 2) % c.n) hj) → i ≠ (low + 1) % c.n := by
    intro hs' i hl' hg' hall' low ls hlow ⟨hj, huj⟩
    obtain ⟨hlo, hlou, hls, hmin⟩ := lowOf_eq_some.mp hlow
    have hlown : low < c.n := hl' ▸ used_lt hlou
    apply write_pos (by omega) hcn hlown (hall' low hlo hlou) (hall' _ hj huj)
    intro hlt'
    have := hg' _ hj low hlo huj hlou hlt'
    have hne : (low + 2) % c.n ≠ low := by
      have := succ2_cases c.n low hlown (by omega); omega
    have hge : ls ≤ hj.seq := by
      rcases Nat.lt_or_gt_of_ne hne with h3 | h3
      · exact Nat.le_of_lt ((hmin _ hj huj).1 h3)
      · exact (hmin _ hj huj).2 h3
    omega
  have o3 : Orph c.n hs3 att3 := by
    rw [← hH3, ← hA3]
    apply orph_write_top o2 (by rw [hl2]; exact han) (by rw [hal2]; exact han) hfree2a
    · intro x hx hux
      obtain ⟨hxa, hxb, hu0⟩ := (hu2 x hx).mp hux
      exact hbelow x hx hu0 hxa hxb
    · intro e; cases e
    · exact posLemma hs2 a hl2 hg2 (fun j h' hu => (hall2 j h' hu).1)
  have hg3 : GapSorted c.n hs3 cut := by
    rw [← hH3]
    apply hg2.write
    intro j h' hu _
    exact hall2 j h' hu
  have o4 : Orph c.n (hs3.set b (some (parHeader c.geom sb))) (att3.set b (some (maxAtt s))) := by
    apply orph_write_top o3 (by rw [hl3]; exact hbn) (by rw [hal3]; exact hbn) hfree3b
    · intro x hx hux
      rcases (hu3 x hx).mp hux with ⟨_, rfl⟩ | ⟨hxa, hux⟩
      · exact hlt
      · obtain ⟨_, hxb, hu0⟩ := (hu2 x hx).mp hux
        have := hbelow x hx hu0 hxa hxb
        show hx.seq < sb; omega
    · intro _
      exact ⟨a, fwHeader c.geom sa, hua3, rfl, haa3⟩
    · apply posLemma hs3 b hl3 hg3
      intro j h' hu
      rcases (hu3 j h').mp hu with ⟨rfl, _⟩ | ⟨_, hu⟩
      · exact hcab
      · have := (hall2 j h' hu).1; omega
  simp only [List.mem_cons, List.not_mem_nil, or_false] at hmem
  rcases hmem with e | e | e | e <;> rw [e]
  · show Inv2F c.n c.geom (s.hs.set b none) (s.att.set b none) (s.live.filter (untouched b)) none none
    rw [hH1, hA1]
    exact ⟨sk1, lv1, topOK_none _ _, topOK_none _ _, o1⟩
  · show Inv2F c.n c.geom ((s.hs.set b none).set a none) ((s.att.set b none).set a none)
      ((s.live.filter (untouched b)).filter (untouched a)) none none
    rw [hH1, hA1, hH2, hA2]
    exact ⟨sk2, lv2, topOK_none _ _, topOK_none _ _, o2⟩
  · show Inv2F c.n c.geom (((s.hs.set b none).set a none).set a (some (fwHeader c.geom sa)))
      (((s.att.set b none).set a none).set a (some (maxAtt s)))
      (((s.live.filter (untouched b)).filter (untouched a)).filter (untouched a)) none none
    rw [hH1, hA1, hH2, hA2, hH3, hA3]
    exact ⟨sk3, lv3, topOK_none _ _, topOK_none _ _, o3⟩
  · show Inv2F c.n c.geom ((((s.hs.set b none).set a none).set a (some (fwHeader c.geom sa))).set b (some (parHeader c.geom sb)))
      ((((s.att.set b none).set a none).set a (some (maxAtt s))).set b (some (maxAtt s)))
      (insertPair (a, b) ((((s.live.filter (untouched b)).filter (untouched a)).filter (untouched a)).filter (untouched b)))
      (some (a, b)) (some (a, b))
    rw [hH1, hA1, hH2, hA2, hH3, hA3]
    have honly : ∀ j hd, Used hs3 j hd → atA att3 j = some (maxAtt s) → j = a := by
      intro j hd hu e
      rcases (hu3 j hd).mp hu with ⟨e1, _⟩ | ⟨hja, hu⟩
      · exact e1
      · rw [ha3 j hja] at e
        exact absurd e (fresh2 j hd hu)
    have lv4 := live_write_partner (h' := parHeader c.geom sb) lv3 (by rw [hl3]; exact hbn) (by rw [hal3]; exact hbn)
      hfree3b hua3 rfl hfwIP haa3 honly rfl hparIP
    have hub4 : Used (hs3.set b (some (parHeader c.geom sb))) b (parHeader c.geom sb) :=
      used_set.mpr (Or.inl ⟨rfl, by rw [hl3]; exact hbn, rfl⟩)
    have hua4 : Used (hs3.set b (some (parHeader c.geom sb))) a (fwHeader c.geom sa) :=
      used_set.mpr (Or.inr ⟨hab, hua3⟩)
    have hothers4 : ∀ j hd, Used (hs3.set b (some (parHeader c.geom sb))) j hd → j ≠ a → j ≠ b → hd.seq < sa := by
      intro j hd hu hja hjb
      rcases used_set.mp hu with ⟨e, _, _⟩ | ⟨_, hu⟩
      · exact absurd e hjb
      rcases (hu3 j hd).mp hu with ⟨e, _⟩ | ⟨_, hu⟩
      · exact absurd e hja
      obtain ⟨_, _, hu0⟩ := (hu2 j hd).mp hu
      exact hbelow j hd hu0 hja hjb
    have htop4 : Top2 (hs3.set b (some (parHeader c.geom sb))) (a, b) := by
      refine ⟨fwHeader c.geom sa, parHeader c.geom sb, ?_⟩
      rw [twoNewest_indexed_iff]
      refine ⟨⟨hub4, ?_⟩, ⟨hua4, hab, ?_⟩⟩
      · intro j hd hu
        have key : j ≠ b → hd.seq < sb := by
          intro hjb
          by_cases hja : j = a
          · subst hja; rw [used_unique hu hua4]; exact hlt
          · have := hothers4 j hd hu hja hjb; omega
        exact ⟨fun hl' => key (by omega), fun hl' => Nat.le_of_lt (key (by omega))⟩
      · intro j hd hu hjb
        have key : j ≠ a → hd.seq < sa := fun hja => hothers4 j hd hu hja hjb
        exact ⟨fun hl' => key (by omega), fun hl' => Nat.le_of_lt (key (by omega))⟩
    have hmemL : (a, b) ∈ insertPair (a, b)
        ((((s.live.filter (untouched b)).filter (untouched a)).filter (untouched a)).filter (untouched b)) :=
      mem_insertPair.mpr (Or.inl rfl)
    refine ⟨sk4, lv4, ?_, ?_, o4⟩
    · intro m hm
      simp only [Option.some.injEq] at hm
      subst hm
      exact ⟨hmemL, htop4⟩
    · intro m hm
      simp only [Option.some.injEq] at hm
      subst hm
      exact ⟨hmemL, htop4⟩


/-- **every transition preserves `Inv2`** — with the two-pass remediation (`pinnedRemediation = false`); the
    single-pass order does not (`C13.remediation_order_chimera_witness`). -/
theorem inv2_preserved (c : Cfg) (hn : 4 ≤ c.n) (hp : c.pinnedRemediation = false) (s : State) (h : Inv2 c s)
    (hinv : RingInv c.n s.hs) (hroom : SeqRoom 2 s.hs) : ∀ t ∈ succs c s, Inv2 c t.2 := by
  intro t ht
  unfold succs at ht
  simp only [List.mem_append] at ht
  rcases ht with ((((ht | ht) | ht) | ht) | ht) | ht
  · exact inv2_start c hn s h hinv hroom t ht
  · exact inv2_complete c s h t ht
  · exact inv2_cancel c s h t ht
  · exact inv2_recover c hn hp s h hinv t ht
  · exact inv2_bl c s h t ht
  · exact inv2_reboot c s h t ht

theorem inv2_init (c : Cfg) : Inv2 c (State.init c.n) := by
  have hu : ∀ i h, ¬ Used (State.init c.n).hs i h := by
    intro i h hu
    unfold Used State.init at hu
    simp only [List.getElem?_replicate] at hu
    split at hu <;> simp at hu
  have ha : ∀ i, atA (State.init c.n).att i = none := by
    intro i
    unfold atA State.init
    rw [List.getD_eq_getElem?_getD, List.getElem?_replicate]
    split <;> rfl
  refine ⟨⟨by simp [State.init], ?_, ?_, ?_, ?_⟩, ?_, topOK_none _ _, topOK_none _ _, ?_⟩
  · intro i
    constructor
    · rintro ⟨k, e⟩; rw [ha i] at e; cases e
    · rintro ⟨h, hu'⟩; exact absurd hu' (hu i h)
  · intro i h j h' k k' hu'; exact absurd hu' (hu i h)
  · intro i h j h' k hu'; exact absurd hu' (hu i h)
  · intro i h hu'; exact absurd hu' (hu i h)
  · intro f p
    constructor
    · intro e; cases e
    · rintro ⟨hf, _, _, hu', _⟩; exact absurd hu' (hu f hf)
  · intro j hj k hu'; exact absurd hu' (hu j hj)

end Fuota.Ring
