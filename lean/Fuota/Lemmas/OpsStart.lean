import Fuota.Lemmas.OpsRun
/-!
# `start_update` on a healthy device: it succeeds, and this is exactly what it emits
-/
namespace Fuota.Ops
open Fuota.Nor Fuota.Fs Fuota.Layout Fuota.Updater

variable {α β : Type}

/-- `Runs` from every healthy device of total size `T` and erase-block size `B` -/
def RunsH (T B : Nat) (x : M α) (a : α) (ops : List Op) : Prop :=
  ∀ d : Dev, Healthy d → d.flash.size = T → d.flash.block = B → Runs x d a ops

theorem RunsH.pure {T B : Nat} (a : α) : RunsH T B (pure a : M α) a [] := fun d _ _ _ => Runs.pure a d

theorem RunsH.bind {T B : Nat} {x : M α} {f : α → M β} {a : α} {b : β} {o1 o2 : List Op}
    (hx : RunsH T B x a o1) (hf : RunsH T B (f a) b o2) : RunsH T B (x >>= f) b (o1 ++ o2) := by
  intro d h hT hB
  refine Runs.bind (hx d h hT hB) (hf _ (pushAll_healthy h _) ?_ ?_)
  · rw [pushAll_size]; exact hT
  · rw [pushAll_block]; exact hB

theorem writeWord_runsH {T B : Nat} (s : Slot) (off w : Nat) (hin : s.idx * s.size + off + 4 ≤ T) :
    RunsH T B (s.writeWord off w) () [.program (s.idx * s.size + off) (writeU32 w)] :=
  fun d h hT _ => writeWord_runs s off w d h (by rw [hT]; exact hin)

theorem clear_runsH {T B : Nat} (s : Slot) (hB : 0 < B) (hdiv : s.size % B = 0) (hin : s.idx * s.size + s.size ≤ T) :
    RunsH T B s.clear () (eraseOps (s.idx * s.size) B (s.size / B)) := by
  intro d h hT hBd
  have := clear_runs s d h (by rw [hBd]; exact hB) (by rw [hBd]; exact hdiv) (by rw [hT]; exact hin)
  rw [hBd] at this
  exact this

theorem setLayout_runsH {T B : Nat} (s : Slot) (nseg segsz : Nat)
    (hfit : satMulU32 nseg segsz ≤ s.size - DATA_REGION_OFFSET) (hin : s.idx * s.size + 28 ≤ T) :
    RunsH T B (s.setLayout nseg segsz) { s with segSize := if segsz = 0 then none else some segsz }
      [.program (s.idx * s.size + 12) (writeU32 nseg), .program (s.idx * s.size + 8) (writeU32 segsz)] := by
  unfold Slot.setLayout
  dsimp only
  simp only [throw_bind]
  have : ¬ (satMulU32 nseg segsz > s.size - DATA_REGION_OFFSET) := by omega
  simp only [this, ↓reduceIte]
  exact RunsH.bind (o1 := [_]) (writeWord_runsH s Consts.NSEG_OFFSET nseg (by show _ + 12 + 4 ≤ T; omega))
    (RunsH.bind (o1 := [_]) (writeWord_runsH s Consts.SEGSIZE_OFFSET segsz (by show _ + 8 + 4 ≤ T; omega))
      (RunsH.pure _))

/-! ## reading the ring -/

theorem loadHeaderAt_runs {d : Dev} (hd : d.dead = false) (a : Nat) (hin : a + 28 ≤ d.flash.size) :
    ∃ h, Runs (loadHeaderAt a) d h [] := by
  unfold loadHeaderAt
  exact ⟨_, Runs.bind (o1 := []) (readTo_runs hd a Consts.SLOT_HEADER_SIZE hin) (Runs.pure _ _)⟩

theorem loadHeadersFrom_runs (slotSize : Nat) {d : Dev} (hd : d.dead = false) : ∀ (is : List Nat),
    (∀ i ∈ is, i * slotSize + 28 ≤ d.flash.size) → ∃ hs, Runs (loadHeadersFrom slotSize is) d hs [] := by
  intro is
  induction is with
  | nil => intro _; exact ⟨[], Runs.pure _ _⟩
  | cons i is ih =>
    intro hin
    obtain ⟨h, hh⟩ := loadHeaderAt_runs hd (i * slotSize) (hin i List.mem_cons_self)
    obtain ⟨rest, hrest⟩ := ih (fun j hj => hin j (List.mem_cons_of_mem _ hj))
    unfold loadHeadersFrom
    exact ⟨h :: rest, Runs.bind (o1 := []) hh (Runs.bind (o1 := []) hrest (Runs.pure _ _))⟩

/-- on a live device that holds the whole ring, `load_headers` succeeds and changes nothing -/
theorem loadHeaders_runs (n slotSize : Nat) {d : Dev} (hd : d.dead = false) (h28 : 28 ≤ slotSize)
    (hin : n * slotSize ≤ d.flash.size) : ∃ hs, Runs (loadHeaders n slotSize) d hs [] := by
  unfold loadHeaders
  apply loadHeadersFrom_runs slotSize hd
  intro i hi
  rw [List.mem_range] at hi
  have : (i + 1) * slotSize ≤ n * slotSize := Nat.mul_le_mul_right _ hi
  rw [Nat.succ_mul] at this
  omega

/-! ## the whole of `start_update` -/

/-- what `start_update` emits (oldest first) once `choosePair` has returned `(a, b, sa, sb)`: the second slot is
    erased, then the first, then the two sequence numbers, then kind and layout of the first and of the second -/
def startOps (B slotSize sz n a b sa sb : Nat) : List Op :=
  eraseOps (b * slotSize) B (slotSize / B) ++ (eraseOps (a * slotSize) B (slotSize / B) ++
  [ .program (a * slotSize + 4) (writeU32 sa), .program (b * slotSize + 4) (writeU32 sb),
    .program (a * slotSize + 0) (writeU32 (encKind C .firmware)),
    .program (a * slotSize + 12) (writeU32 n), .program (a * slotSize + 8) (writeU32 sz),
    .program (b * slotSize + 0) (writeU32 (encKind C .parity)),
    .program (b * slotSize + 12) (writeU32 (capacity slotSize sz)), .program (b * slotSize + 8) (writeU32 sz) ])

/-- the parity layout `start_update` writes passes `set_layout`'s own check -/
theorem capacity_layout_fits (slotSize sz : Nat) :
    satMulU32 (capacity slotSize sz) sz ≤ slotSize - DATA_REGION_OFFSET := by
  have hspec := C15.capacity_spec slotSize sz
  simp only at hspec
  have hfit : C15.need sz (capacity slotSize sz) ≤ slotSize - 17408 :=
    (hspec.2 _ hspec.1).2 (Nat.le_refl _)
  unfold C15.need at hfit
  unfold satMulU32
  have : min (capacity slotSize sz * sz) (2 ^ 32 - 1) ≤ capacity slotSize sz * sz := Nat.min_le_left _ _
  show _ ≤ slotSize - 17408
  omega

theorem startUpdate_runsH {T B : Nat} (nslots slotSize sz n : Nat) (hs : List (Option Header)) (a b sa sb : Nat)
    (hrs : reasonablySized slotSize sz n = .ok ()) (hcp : choosePair nslots hs = .ok (a, b, sa, sb))
    (hB : 0 < B) (hdiv : slotSize % B = 0) (ha : a * slotSize + slotSize ≤ T) (hb : b * slotSize + slotSize ≤ T) :
    RunsH T B (allocWith nslots slotSize hs >>= startRest slotSize sz n)
      { fw := { idx := a, size := slotSize, segSize := if sz = 0 then none else some sz },
        par := { idx := b, size := slotSize, segSize := if sz = 0 then none else some sz },
        n := n, bs := sz, maxL := capacity slotSize sz, matrixOffset := capacity slotSize sz * sz }
      (startOps B slotSize sz n a b sa sb) := by
  obtain ⟨h1, h2, h3, h4, h5, h6⟩ := reasonablySized_ok hrs
  have hfw : satMulU32 n sz ≤ slotSize - DATA_REGION_OFFSET := by
    unfold satMulU32
    have : min (n * sz) (2 ^ 32 - 1) ≤ n * sz := Nat.min_le_left _ _
    rw [Nat.mul_comm n sz] at this
    show _ ≤ slotSize - 17408
    rw [Nat.mul_comm n sz]
    omega
  have hpar := capacity_layout_fits slotSize sz
  unfold allocWith
  rw [hcp]
  dsimp only
  unfold startOps
  -- the allocation part
  have hA : RunsH T B (do
      (Slot.clear { idx := b, size := slotSize })
      (Slot.clear { idx := a, size := slotSize })
      (Slot.writeSeqNo { idx := a, size := slotSize } sa)
      (Slot.writeSeqNo { idx := b, size := slotSize } sb)
      pure (({ idx := a, size := slotSize } : Slot), ({ idx := b, size := slotSize } : Slot)))
      ({ idx := a, size := slotSize }, { idx := b, size := slotSize })
      (eraseOps (b * slotSize) B (slotSize / B) ++ (eraseOps (a * slotSize) B (slotSize / B) ++
        ([.program (a * slotSize + 4) (writeU32 sa)] ++ ([.program (b * slotSize + 4) (writeU32 sb)] ++ [])))) := by
    refine RunsH.bind (clear_runsH { idx := b, size := slotSize } hB hdiv hb) ?_
    refine RunsH.bind (clear_runsH { idx := a, size := slotSize } hB hdiv ha) ?_
    refine RunsH.bind (writeWord_runsH { idx := a, size := slotSize } Consts.SEQ_OFFSET sa
      (by show a * slotSize + 4 + 4 ≤ T; omega)) ?_
    refine RunsH.bind (writeWord_runsH { idx := b, size := slotSize } Consts.SEQ_OFFSET sb
      (by show b * slotSize + 4 + 4 ≤ T; omega)) ?_
    exact RunsH.pure _
  have hR : RunsH T B (startRest slotSize sz n ({ idx := a, size := slotSize }, { idx := b, size := slotSize }))
      { fw := { idx := a, size := slotSize, segSize := if sz = 0 then none else some sz },
        par := { idx := b, size := slotSize, segSize := if sz = 0 then none else some sz },
        n := n, bs := sz, maxL := capacity slotSize sz, matrixOffset := capacity slotSize sz * sz }
      ([.program (a * slotSize + 0) (writeU32 (encKind C .firmware))] ++
        ([.program (a * slotSize + 12) (writeU32 n), .program (a * slotSize + 8) (writeU32 sz)] ++
        ([.program (b * slotSize + 0) (writeU32 (encKind C .parity))] ++
        ([.program (b * slotSize + 12) (writeU32 (capacity slotSize sz)),
          .program (b * slotSize + 8) (writeU32 sz)] ++ [])))) := by
    unfold startRest
    dsimp only
    refine RunsH.bind (writeWord_runsH { idx := a, size := slotSize } Consts.KIND_OFFSET _
      (by show a * slotSize + 0 + 4 ≤ T; omega)) ?_
    refine RunsH.bind (setLayout_runsH { idx := a, size := slotSize } n sz hfw
      (by show a * slotSize + 28 ≤ T; omega)) ?_
    refine RunsH.bind (writeWord_runsH { idx := b, size := slotSize } Consts.KIND_OFFSET _
      (by show b * slotSize + 0 + 4 ≤ T; omega)) ?_
    refine RunsH.bind (setLayout_runsH { idx := b, size := slotSize } (capacity slotSize sz) sz hpar
      (by show b * slotSize + 28 ≤ T; omega)) ?_
    exact RunsH.pure _
  have := RunsH.bind hA hR
  simp only [List.append_assoc, List.cons_append, List.nil_append, List.append_nil] at this ⊢
  exact this

/-! ## the write-once discipline of `start_update` -/

theorem discipline_append (f : Flash) (l1 l2 : List Op) :
    Discipline f (l1 ++ l2) ↔ Discipline f l1 ∧ Discipline (f.applyAll l1) l2 := by
  induction l1 generalizing f with
  | nil => simp [Discipline, Flash.applyAll]
  | cons op l1 ih =>
    show (_ ∧ Discipline (f.apply op) (l1 ++ l2)) ↔ (_ ∧ Discipline (f.apply op) l1) ∧ _
    rw [ih]
    show _ ↔ (_ ∧ _) ∧ Discipline ((f.apply op).applyAll l1) l2
    exact ⟨fun ⟨a, b, c⟩ => ⟨⟨a, b⟩, c⟩, fun ⟨⟨a, b⟩, c⟩ => ⟨a, b, c⟩⟩

theorem discipline_eraseOps (B : Nat) : ∀ (k cur : Nat) (f : Flash), Discipline f (eraseOps cur B k) := by
  intro k
  induction k with
  | zero => intro _ _; trivial
  | succ k ih => intro cur f; exact ⟨trivial, ih _ _⟩

/-- after the erases of `Slot::clear`, the whole range is `0xFF`, and bytes that were `0xFF` still are -/
theorem applyAll_eraseOps_ff {B : Nat} : ∀ (k cur : Nat) (f : Flash), f.block = B → ∀ x,
    (f.byte x = 0xFF ∨ (cur ≤ x ∧ x < cur + k * B)) → (f.applyAll (eraseOps cur B k)).byte x = 0xFF := by
  intro k
  induction k with
  | zero =>
    intro cur f _ x hx
    rcases hx with h | h
    · exact h
    · omega
  | succ k ih =>
    intro cur f hB x hx
    show ((f.apply (.erase cur)).applyAll (eraseOps (cur + B) B k)).byte x = 0xFF
    have e : (k + 1) * B = k * B + B := Nat.succ_mul k B
    have hstep : (f.apply (.erase cur)).byte x = if cur ≤ x ∧ x < cur + f.block then 0xFF else f.byte x :=
      fillFF_getD f.mem cur f.block x
    apply ih (cur + B) _ (by rw [apply_block]; exact hB)
    by_cases hin : cur ≤ x ∧ x < cur + B
    · left
      rw [hstep, hB]
      simp only [hin, and_self, ↓reduceIte]
    · rcases hx with h | h
      · left
        rw [hstep, hB]
        simp only [hin, ↓reduceIte]
        exact h
      · right; omega

/-- programs onto pairwise disjoint ranges of an erased area obey the discipline -/
theorem discipline_fresh (ps : List (Nat × List Nat)) : ∀ (f : Flash) (E : Nat → Prop),
    (∀ x, E x → f.byte x = 0xFF) →
    (∀ p ∈ ps, ∀ i, i < p.2.length → E (p.1 + i) ∧ p.1 + i < f.size ∧ p.2.getD i 0 < 256) →
    ps.Pairwise (fun p q => p.1 + p.2.length ≤ q.1 ∨ q.1 + q.2.length ≤ p.1) →
    Discipline f (ps.map (fun p => Op.program p.1 p.2)) := by
  induction ps with
  | nil => intro _ _ _ _ _; trivial
  | cons p ps ih =>
    intro f E hE hin hdisj
    rw [List.pairwise_cons] at hdisj
    refine ⟨fun i hi => ⟨(hin p List.mem_cons_self i hi).2.2,
      Or.inl (hE _ (hin p List.mem_cons_self i hi).1)⟩, ?_⟩
    apply ih (f.apply (.program p.1 p.2))
      (fun x => E x ∧ x < f.size ∧ ¬ (p.1 ≤ x ∧ x < p.1 + p.2.length))
    · intro x hx
      obtain ⟨hx, hxs, hout⟩ := hx
      rw [apply_byte_other f (.program p.1 p.2) x hxs hout]
      exact hE x hx
    · intro q hq i hi
      obtain ⟨h1, h2, h3⟩ := hin q (List.mem_cons_of_mem _ hq) i hi
      refine ⟨⟨h1, h2, ?_⟩, by rw [apply_size]; exact h2, h3⟩
      have := hdisj.1 q hq
      omega
    · exact hdisj.2

theorem writeU32_byte_lt (w i : Nat) : (writeU32 w).getD i 0 < 256 := by
  unfold writeU32
  rcases i with _ | _ | _ | _ | i
  · exact Nat.mod_lt _ (by decide)
  · exact Nat.mod_lt _ (by decide)
  · exact Nat.mod_lt _ (by decide)
  · exact Nat.mod_lt _ (by decide)
  · simp

/-- **`start_update` obeys the write-once discipline**: replayed on any flash (erase-block size `B > 0` dividing
    the slot size, both slots inside the device, two different slots), none of its programs needs a 0 → 1
    transition — both slots are erased completely first, and each header word is programmed once. -/
theorem startOps_discipline {B : Nat} (f : Flash) (slotSize sz n a b sa sb : Nat) (hB : f.block = B)
    (hdiv : slotSize % B = 0) (h28 : 28 ≤ slotSize) (hab : a ≠ b)
    (ha : a * slotSize + slotSize ≤ f.size) (hb : b * slotSize + slotSize ≤ f.size) :
    Discipline f (startOps B slotSize sz n a b sa sb) := by
  unfold startOps
  rw [discipline_append, discipline_append]
  refine ⟨discipline_eraseOps _ _ _ _, discipline_eraseOps _ _ _ _, ?_⟩
  have hk : slotSize / B * B = slotSize := by
    have := Nat.div_add_mod slotSize B
    rw [Nat.mul_comm]; omega
  have hsep : a * slotSize + slotSize ≤ b * slotSize ∨ b * slotSize + slotSize ≤ a * slotSize := by
    rcases Nat.lt_or_gt_of_ne hab with h | h
    · left
      have := Nat.mul_le_mul_right slotSize (show a + 1 ≤ b from h)
      rw [Nat.succ_mul] at this; exact this
    · right
      have := Nat.mul_le_mul_right slotSize (show b + 1 ≤ a from h)
      rw [Nat.succ_mul] at this; exact this
  -- the flash after the two clears
  have hff : ∀ x, ((a * slotSize ≤ x ∧ x < a * slotSize + slotSize) ∨
      (b * slotSize ≤ x ∧ x < b * slotSize + slotSize)) →
      ((f.applyAll (eraseOps (b * slotSize) B (slotSize / B))).applyAll
        (eraseOps (a * slotSize) B (slotSize / B))).byte x = 0xFF := by
    intro x hx
    apply applyAll_eraseOps_ff _ _ _ (by rw [applyAll_block]; exact hB)
    rcases hx with h | h
    · right; rw [hk]; exact h
    · left
      apply applyAll_eraseOps_ff _ _ _ hB
      right; rw [hk]; exact h
  have hsz : ((f.applyAll (eraseOps (b * slotSize) B (slotSize / B))).applyAll
      (eraseOps (a * slotSize) B (slotSize / B))).size = f.size := by
    have : ∀ (g : Flash) (l : List Op), (g.applyAll l).size = g.size := by
      intro g l
      induction l generalizing g with
      | nil => rfl
      | cons op l ih =>
        show ((g.apply op).applyAll l).size = _
        rw [ih, apply_size]
    rw [this, this]
  have := discipline_fresh
    [ (a * slotSize + 4, writeU32 sa), (b * slotSize + 4, writeU32 sb),
      (a * slotSize + 0, writeU32 (encKind C .firmware)),
      (a * slotSize + 12, writeU32 n), (a * slotSize + 8, writeU32 sz),
      (b * slotSize + 0, writeU32 (encKind C .parity)),
      (b * slotSize + 12, writeU32 (capacity slotSize sz)), (b * slotSize + 8, writeU32 sz) ]
    _ _ hff ?_ ?_
  · exact this
  · intro p hp i hi
    rw [hsz]
    simp only [List.mem_cons, List.not_mem_nil, or_false] at hp
    rcases hp with rfl | rfl | rfl | rfl | rfl | rfl | rfl | rfl <;>
      (have hi' : i < 4 := hi
       refine ⟨?_, ?_, writeU32_byte_lt _ _⟩ <;> dsimp only <;> omega)
  · simp only [List.pairwise_cons, List.mem_cons, List.not_mem_nil, or_false, forall_eq_or_imp, forall_eq,
      List.Pairwise.nil, and_true, false_imp_iff, implies_true,
      show ∀ w, (writeU32 w).length = 4 from fun _ => rfl]
    omega

/-! ## `choosePair`: always an answer, two different slots -/

theorem choosePair_ok (n : Nat) (hs : List (Option Header)) : ∃ r, choosePair n hs = .ok r := by
  unfold choosePair
  dsimp only
  repeat' split
  all_goals exact ⟨_, rfl⟩

theorem succ_mod_ne (n x : Nat) (hn : 2 ≤ n) : (x + 1) % n ≠ x % n := by
  have hr := Nat.mod_lt x (show n > 0 by omega)
  rw [Nat.add_mod, Nat.mod_eq_of_lt (show 1 < n by omega)]
  by_cases h : x % n + 1 < n
  · rw [Nat.mod_eq_of_lt h]; omega
  · have : x % n + 1 = n := by omega
    rw [this, Nat.mod_self]; omega

/-- the two slots `alloc_slotpair` chooses are different (ring of at least two slots) -/
theorem choosePair_ne (n : Nat) (hs : List (Option Header)) (hlen : hs.length = n) (hn : 2 ≤ n)
    (a b sa sb : Nat) (h : choosePair n hs = .ok (a, b, sa, sb)) : a ≠ b := by
  have hstep : ∀ x, (x + 1) % n ≠ (x + 2) % n := fun x => (succ_mod_ne n (x + 1) hn).symm
  unfold choosePair at h
  dsimp only at h
  split at h
  · rename_i low lowSeq high highSeq hlow hhigh
    have hhi : high < n := by
      have := fold_pick (· < n) _ (by
        intro acc p
        rcases acc with _ | ⟨i, s⟩
        · exact Or.inr rfl
        · dsimp only
          split
          · exact Or.inr rfl
          · exact Or.inl rfl) (indexed hs) none
        (fun p hp => by have := indexed_lt hs p hp; omega) (fun v hv => by cases hv) _ hhigh
      exact this
    have hself : high % n = high := Nat.mod_eq_of_lt hhi
    have h1 : high ≠ (high + 1) % n := by
      have := succ_mod_ne n high hn
      rw [hself] at this
      exact fun e => this e.symm
    have h2 : (high + n - 1) % n ≠ high := by
      have := succ_mod_ne n (high + n - 1) hn
      have e : high + n - 1 + 1 = high + n := by omega
      rw [e, Nat.add_mod_right, hself] at this
      exact fun e => this e.symm
    split at h
    · cases h; exact hstep _
    · split at h
      · split at h
        · cases h; exact h1
        · cases h; exact hstep _
      · split at h
        · split at h
          · cases h; exact h2
          · cases h; exact h2
        · cases h; exact hstep _
  · cases h; omega

end Fuota.Ops
