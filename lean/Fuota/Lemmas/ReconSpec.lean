import Fuota.Lemmas.Bits
/-!
# What each loop of the reconstructor model does in a fault-free run (structural, no data assumptions)
-/
namespace Fuota.Recon
open Fuota.Gf2

/-- lookup after a write: the new value at the written key, the old one elsewhere -/
@[simp] theorem get_cons (s : Store) (k v k' : Nat) :
    get ((k, v) :: s) k' = if k' = k then v else get s k' := by
  unfold get
  by_cases h : k' = k
  · subst h; simp [List.lookup]
  · have hb : (k' == k) = false := by simp [h]
    simp [List.lookup, hb, h]

/-- append calls (newest first) to the log -/
def pushLog (s : St) (L : List Call) : St := { s with log := L ++ s.log, calls := s.calls + L.length }

/-- pushing nothing -/
@[simp] theorem pushLog_nil (s : St) : pushLog s [] = s := by simp [pushLog]
/-- pushing twice -/
@[simp] theorem pushLog_pushLog (s : St) (L L' : List Call) :
    pushLog (pushLog s L) L' = pushLog s (L' ++ L) := by
  simp [pushLog, Nat.add_assoc, Nat.add_comm L.length]
/-- `pushLog` keeps `n` -/
@[simp] theorem pushLog_n (s : St) (L) : (pushLog s L).n = s.n := rfl
/-- `pushLog` keeps `bs` -/
@[simp] theorem pushLog_bs (s : St) (L) : (pushLog s L).bs = s.bs := rfl
/-- `pushLog` keeps `l` -/
@[simp] theorem pushLog_l (s : St) (L) : (pushLog s L).l = s.l := rfl
/-- `pushLog` keeps `done` -/
@[simp] theorem pushLog_done (s : St) (L) : (pushLog s L).done = s.done := rfl
/-- `pushLog` keeps `used` -/
@[simp] theorem pushLog_used (s : St) (L) : (pushLog s L).used = s.used := rfl
/-- `pushLog` keeps the data store -/
@[simp] theorem pushLog_ds (s : St) (L) : (pushLog s L).ds = s.ds := rfl
/-- `pushLog` keeps the parity store -/
@[simp] theorem pushLog_ps (s : St) (L) : (pushLog s L).ps = s.ps := rfl
/-- `pushLog` keeps the matrix store -/
@[simp] theorem pushLog_ms (s : St) (L) : (pushLog s L).ms = s.ms := rfl
/-- `pushLog` prepends to the log -/
@[simp] theorem pushLog_log (s : St) (L) : (pushLog s L).log = L ++ s.log := rfl

/-- a fault-free storage call only logs itself and succeeds -/
theorem call_noFault (s : St) (c : Call) : call noFault s c = (pushLog s [c], true) := by
  simp [call, noFault, pushLog]

/-! ## strip -/

/-- the reads `strip` issues, newest first -/
def stripLog (row done : Nat) (is : List Nat) : List Call :=
  ((is.filter (fun i => row.testBit i && done.testBit i)).map Call.dGet).reverse

/-- fault free, `strip` reads exactly the present blocks selected by the row and XORs them into the block -/
theorem strip_spec (row : Nat) (is : List Nat) : ∀ (s : St) (d : Nat),
    strip noFault row is s d =
      (pushLog s (stripLog row s.done is),
       d ^^^ comboL (get s.ds) (fun i => row.testBit i && s.done.testBit i) is, .ok) := by
  induction is with
  | nil => intro s d; simp [strip, stripLog, comboL]
  | cons i is ih =>
    intro s d
    unfold strip
    by_cases h : (row.testBit i && s.done.testBit i) = true
    · simp only [h, ↓reduceIte, call_noFault, ih]
      simp [stripLog, h, comboL, Nat.xor_assoc]
    · have h' : (row.testBit i && s.done.testBit i) = false := by simpa using h
      simp only [h', Bool.false_eq_true, ↓reduceIte, ih]
      simp [stripLog, h', comboL]

/-! ## elim -/

/-- the stored rows have their pivot bit and nothing above it, and pivots are below `l` -/
def Ech (l used : Nat) (ms : Store) : Prop :=
  ∀ p, used.testBit p = true → p < l ∧ (get ms p).testBit p = true ∧ ∀ j, p < j → (get ms p).testBit j = false

/-- a call reading the pivot `p` -/
def IsPivRead (used : Nat) (c : Call) : Prop := ∃ p, used.testBit p = true ∧ (c = .pGet p ∨ c = .mRow p)

/-- fault free, on an echelon matrix the elimination loop XORs a set `sel` of stored rows (and their parity
    blocks) into the row (and block), reading only used pivots, and then either ends with the zero row and an
    unchanged state, or stores the reduced row and block at a fresh pivot `q` (its highest set bit) -/
theorem elim_spec (wh : Nat) : ∀ (s : St) (row data : Nat),
    Ech s.l s.used s.ms → (∀ j, wh ≤ j → row.testBit j = false) →
    ∃ (sel : List Nat) (R : List Call),
      (∀ p ∈ sel, p < wh ∧ s.used.testBit p = true) ∧ (∀ c ∈ R, IsPivRead s.used c) ∧
      ((row ^^^ xorAll (sel.map (get s.ms)) = 0 ∧ elim noFault wh s row data = (pushLog s R, .ok)) ∨
       (∃ q, q < wh ∧ s.used.testBit q = false ∧
          (row ^^^ xorAll (sel.map (get s.ms))).testBit q = true ∧
          (∀ j, q < j → (row ^^^ xorAll (sel.map (get s.ms))).testBit j = false) ∧
          elim noFault wh s row data =
            ({ pushLog s (.mSet q (row ^^^ xorAll (sel.map (get s.ms))) ::
                          .pStore q (data ^^^ xorAll (sel.map (get s.ps))) :: R) with
                ps := (q, data ^^^ xorAll (sel.map (get s.ps))) :: s.ps,
                ms := (q, row ^^^ xorAll (sel.map (get s.ms))) :: s.ms,
                used := s.used ||| 2 ^ q }, .ok))) := by
  induction wh with
  | zero =>
    intro s row data _ hrow
    refine ⟨[], [], by simp, by simp, Or.inl ⟨?_, by simp [elim]⟩⟩
    simpa [xorAll] using eq_zero_of_testBit row (fun j => hrow j (Nat.zero_le j))
  | succ wh ih =>
    intro s row data hE hrow
    unfold elim
    by_cases h1 : row.testBit wh = true ∧ s.used.testBit wh = true
    · obtain ⟨hr, hu⟩ := h1
      obtain ⟨_, hpiv, habove⟩ := hE wh hu
      simp only [hr, hu, Bool.and_self, ↓reduceIte, call_noFault, Bool.not_true, Bool.false_eq_true,
        pushLog_pushLog, pushLog_ms, pushLog_ps, List.cons_append, List.nil_append]
      obtain ⟨sel, R, hsel, hR, hres⟩ := ih (pushLog s [.mRow wh, .pGet wh]) (row ^^^ get s.ms wh)
        (data ^^^ get s.ps wh) (by simpa using hE) (by
          intro j hj
          rw [Nat.testBit_xor]
          by_cases hjw : j = wh
          · subst hjw; simp [hr, hpiv]
          · rw [hrow j (by omega), habove j (by omega)]; rfl)
      refine ⟨wh :: sel, R ++ [.mRow wh, .pGet wh], ?_, ?_, ?_⟩
      · intro p hp
        rcases List.mem_cons.1 hp with rfl | hp
        · exact ⟨by omega, hu⟩
        · have := hsel p hp
          exact ⟨by omega, by simpa using this.2⟩
      · intro c hc
        rcases List.mem_append.1 hc with hc | hc
        · simpa using hR c hc
        · simp only [List.mem_cons, List.not_mem_nil, or_false] at hc
          exact ⟨wh, hu, by rcases hc with rfl | rfl <;> simp⟩
      · simp only [List.map_cons, xorAll, ← Nat.xor_assoc]
        simp only [pushLog_ms, pushLog_ps, pushLog_used, pushLog_pushLog, List.cons_append] at hres
        rcases hres with ⟨h0, he⟩ | ⟨q, hq, hqu, hqb, hqa, he⟩
        · exact Or.inl ⟨h0, by simpa using he⟩
        · refine Or.inr ⟨q, by omega, hqu, hqb, hqa, ?_⟩
          rw [he]
    · by_cases hr : row.testBit wh = true
      · have hu : s.used.testBit wh = false := by
          cases hh : s.used.testBit wh <;> simp_all
        simp only [hr, hu, Bool.and_false, Bool.false_eq_true, ↓reduceIte, call_noFault, Bool.not_true]
        refine ⟨[], [], by simp, by simp, Or.inr ⟨wh, by omega, hu, by simpa [xorAll] using hr, ?_, ?_⟩⟩
        · intro j hj
          simpa [xorAll] using hrow j (by omega)
        · simp [xorAll, pushLog]
      · have hr' : row.testBit wh = false := by simpa using hr
        simp only [hr', Bool.false_and, Bool.false_eq_true, ↓reduceIte]
        obtain ⟨sel, R, hsel, hR, hres⟩ := ih s row data hE (by
          intro j hj
          by_cases hjw : j = wh
          · subst hjw; exact hr'
          · exact hrow j (by omega))
        refine ⟨sel, R, fun p hp => ⟨by have := (hsel p hp).1; omega, (hsel p hp).2⟩, hR, ?_⟩
        rcases hres with h | ⟨q, hq, rest⟩
        · exact Or.inl h
        · exact Or.inr ⟨q, by omega, rest⟩

/-! ## finish -/

/-- the reads the inner loop of `finish` issues, newest first -/
def innerLog (U : List Nat) (r : Nat) (js : List Nat) : List Call :=
  ((js.filter r.testBit).map (fun j => Call.dGet (nth U j))).reverse

/-- fault free, the inner loop of `finish` reads the selected rebuilt blocks and XORs them into the output -/
theorem finishInner_spec (U : List Nat) (r : Nat) (js : List Nat) : ∀ (s : St) (out : Nat),
    (∀ j ∈ js, j < U.length) →
    finishInner noFault U r js s out =
      (pushLog s (innerLog U r js), out ^^^ comboL (fun j => get s.ds (nth U j)) r.testBit js, .ok) := by
  induction js with
  | nil => intro s out _; simp [finishInner, innerLog, comboL]
  | cons j js ih =>
    intro s out hjs
    have hj : j < U.length := hjs j List.mem_cons_self
    have hjs' : ∀ j ∈ js, j < U.length := fun k hk => hjs k (List.mem_cons_of_mem _ hk)
    unfold finishInner
    by_cases h : r.testBit j = true
    · have hU : U[j]? = some (nth U j) := getElem?_eq_some_nth U j hj
      simp only [h, ↓reduceIte, hU, call_noFault, ih _ _ hjs']
      simp [innerLog, h, comboL, Nat.xor_assoc]
    · have h' : r.testBit j = false := by simpa using h
      simp only [h', Bool.false_eq_true, ↓reduceIte, ih _ _ hjs']
      simp [innerLog, h', comboL]

/-- the block `finish` rebuilds for reduced index `i` -/
def finOut (U : List Nat) (s : St) (i : Nat) : Nat :=
  get s.ps i ^^^ comboL (fun j => get s.ds (nth U j)) (get s.ms i).testBit (List.range i)

/-- one iteration of the outer loop of `finish` -/
def finStep (U : List Nat) (s : St) (i : Nat) : St :=
  { pushLog s (.dStore (nth U i) (finOut U s i) :: (innerLog U (get s.ms i) (List.range i) ++ [.mRow i, .pGet i])) with
    ds := (nth U i, finOut U s i) :: s.ds }

/-- fault free and with all indices in range, the outer loop of `finish` is a fold of `finStep` and cannot fail -/
theorem finishOuter_spec (U : List Nat) (is : List Nat) : ∀ (s : St),
    (∀ i ∈ is, i < U.length) → finishOuter noFault U is s = (is.foldl (finStep U) s, .ok) := by
  induction is with
  | nil => intro s _; simp [finishOuter]
  | cons i is ih =>
    intro s his
    have hi : i < U.length := his i List.mem_cons_self
    have his' : ∀ j ∈ is, j < U.length := fun k hk => his k (List.mem_cons_of_mem _ hk)
    have hU : U[i]? = some (nth U i) := getElem?_eq_some_nth U i hi
    unfold finishOuter
    simp only [call_noFault, Bool.not_true, Bool.false_eq_true, ↓reduceIte, pushLog_pushLog, pushLog_ms,
      pushLog_ps]
    rw [finishInner_spec U _ _ _ _ (fun j hj => by have := List.mem_range.1 hj; omega)]
    simp only [hU, pushLog_pushLog, pushLog_ds]
    rw [ih _ his', List.foldl_cons]
    congr 2

/-- fault free, `finish` is the fold of `finStep` over `0 .. l` whenever `l` does not exceed the number of
    unknowns -/
theorem finish_spec (s : St) (h : s.l ≤ (unknowns s.done s.n).length) :
    finish noFault s = ((List.range s.l).foldl (finStep (unknowns s.done s.n)) s, .ok) :=
  finishOuter_spec _ _ _ (fun i hi => by have := List.mem_range.1 hi; omega)

end Fuota.Recon
