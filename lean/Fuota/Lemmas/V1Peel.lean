import Fuota.Lemmas.V1Scan
/-!
# The repair loop as a peeling decoder (C19 `complete_iff_peel`, `naive_eq_orig`)

`Abs` is the bookkeeping both V1 updaters keep on flash, reduced to two bit masks: which data fragments are present
(`fw`, the firmware slot's status table) and which coded fragments are present (`par`, the parity slot's status
table).  `Abs.step` is one `repair_step` — literally the models' `pickRepair` — and `Abs.loop` the
`while repair_step()?.is_some() {}` loop.

The peeling closure is characterised order-free: a set is *closed* when no received row has exactly one covered
fragment outside it; the closure of the received data is the least closed superset.  `loop_isPeel` shows that the
loop computes it whatever order `pickRepair` happens to choose (confluence), `run_isPeel` lifts this to delivery
sequences with duplicates.
-/
namespace Fuota.V1

/-- mask inclusion -/
def Sub (S T : Nat) : Prop := ∀ i, S.testBit i = true → T.testBit i = true

theorem Sub.refl (S : Nat) : Sub S S := fun _ h => h
theorem Sub.trans {S T U : Nat} (h : Sub S T) (g : Sub T U) : Sub S U := fun i hi => g i (h i hi)

theorem testBit_or_pow (S m i : Nat) : (S ||| 2 ^ m).testBit i = (S.testBit i || decide (i = m)) := by
  rw [Nat.testBit_or, Nat.testBit_two_pow]
  by_cases h : m = i
  · subst h; simp
  · have : ¬ i = m := fun e => h e.symm
    simp [h, this]

theorem sub_or_pow (S m : Nat) : Sub S (S ||| 2 ^ m) := by
  intro i hi; rw [testBit_or_pow, hi]; rfl

theorem or_pow_sub {S T m : Nat} (h : Sub S T) (hm : T.testBit m = true) : Sub (S ||| 2 ^ m) T := by
  intro i hi
  rw [testBit_or_pow] at hi
  cases hs : S.testBit i
  · rw [hs] at hi
    simp at hi
    rw [hi]; exact hm
  · exact h i hs

structure Abs where
  /-- number of data fragments -/
  n : Nat
  /-- coded-fragment indices the scan runs over (the length of the parity status iterator) -/
  parLen : Nat
  /-- coefficient row of coded fragment `p` (0-based) -/
  rowOf : Nat → Option Nat
  /-- data fragments present (received or repaired) -/
  fw : Nat
  /-- coded fragments present -/
  par : Nat

/-- one `repair_step` -/
def Abs.step (a : Abs) : Option Abs :=
  match pickRepair a.rowOf a.fw a.par a.n (List.range a.parLen) with
  | .ok (some (_, m, _)) => some { a with fw := a.fw ||| 2 ^ m }
  | _ => none

/-- `while repair_step()?.is_some() {}` -/
def Abs.loop : Nat → Abs → Abs
  | 0, a => a
  | f + 1, a => match a.step with
    | none => a
    | some a' => Abs.loop f a'

theorem loop_succ_none {f : Nat} {a : Abs} (h : a.step = none) : Abs.loop (f + 1) a = a := by
  simp [Abs.loop, h]
theorem loop_succ_some {f : Nat} {a a' : Abs} (h : a.step = some a') : Abs.loop (f + 1) a = Abs.loop f a' := by
  simp [Abs.loop, h]

/-- no received row has exactly one covered data fragment outside `S` -/
def Closed (n parLen : Nat) (rowOf : Nat → Option Nat) (par S : Nat) : Prop :=
  ∀ p, p < parLen → par.testBit p = true → ∀ row, rowOf p = some row → exactlyOne row S n = none

/-- every received coded fragment has a row (the generator's `assert!`s hold) -/
def RowsOk (parLen : Nat) (rowOf : Nat → Option Nat) (par : Nat) : Prop :=
  ∀ p, p < parLen → par.testBit p = true → (rowOf p).isSome = true

/-- `R` is the peeling closure of `data` under the received rows: the least closed superset -/
def IsPeel (n parLen : Nat) (rowOf : Nat → Option Nat) (par data R : Nat) : Prop :=
  Sub data R ∧ Closed n parLen rowOf par R ∧ ∀ T, Closed n parLen rowOf par T → Sub data T → Sub R T

/-- the closure is unique (as a set of fragment indices): peeling is confluent -/
theorem IsPeel.unique {n parLen : Nat} {rowOf : Nat → Option Nat} {par data R R' : Nat}
    (h : IsPeel n parLen rowOf par data R) (h' : IsPeel n parLen rowOf par data R') :
    ∀ i, R.testBit i = R'.testBit i := by
  intro i
  have a := h.2.2 R' h'.2.1 h'.1 i
  have b := h'.2.2 R h.2.1 h.1 i
  cases hr : R.testBit i <;> cases hr' : R'.testBit i <;> simp_all

/-- a fragment a row determines from `S` lies in every closed superset of `S` -/
theorem closed_contains {n parLen : Nat} {rowOf : Nat → Option Nat} {par S T p row m : Nat}
    (hT : Closed n parLen rowOf par T) (hST : Sub S T) (hp : p < parLen) (hb : par.testBit p = true)
    (hr : rowOf p = some row) (he : exactlyOne row S n = some m) : T.testBit m = true := by
  obtain ⟨h1, h2, _, h4⟩ := (exactlyOne_iff row S n m).mp he
  cases hm : T.testBit m
  · have : exactlyOne row T n = some m := by
      apply (exactlyOne_iff row T n m).mpr
      exact ⟨h1, h2, hm, fun i hi hne hri => hST i (h4 i hi hne hri)⟩
    rw [hT p hp hb row hr] at this
    cases this
  · rfl

theorem step_spec {a a' : Abs} (h : a.step = some a') :
    ∃ p row m, p < a.parLen ∧ a.par.testBit p = true ∧ a.rowOf p = some row ∧
      exactlyOne row a.fw a.n = some m ∧ a' = { a with fw := a.fw ||| 2 ^ m } := by
  unfold Abs.step at h
  split at h
  · rename_i p m row hp
    obtain ⟨h1, h2, h3, h4⟩ := pickRepair_some hp
    simp only [Option.some.injEq] at h
    exact ⟨p, row, m, List.mem_range.mp h1, h2, h3, h4, h.symm⟩
  · cases h

theorem step_none_closed {a : Abs} (hrow : RowsOk a.parLen a.rowOf a.par) (h : a.step = none) :
    Closed a.n a.parLen a.rowOf a.par a.fw := by
  unfold Abs.step at h
  obtain ⟨r, hr⟩ := pickRepair_ok (rowOf := a.rowOf) (recvFw := a.fw) (recvPar := a.par) (planLen := a.n)
    (ps := List.range a.parLen) (fun p hp hb => hrow p (List.mem_range.mp hp) hb)
  rw [hr] at h
  cases r with
  | none =>
    intro p hp hb row hrw
    obtain ⟨row', h1, h2⟩ := pickRepair_none hr p (List.mem_range.mpr hp) hb
    rw [hrw] at h1
    cases h1
    exact h2
  | some t => obtain ⟨p, m, row⟩ := t; simp at h

theorem loop_fields (f : Nat) (a : Abs) :
    (Abs.loop f a).n = a.n ∧ (Abs.loop f a).parLen = a.parLen ∧ (Abs.loop f a).rowOf = a.rowOf ∧
      (Abs.loop f a).par = a.par := by
  induction f generalizing a with
  | zero => exact ⟨rfl, rfl, rfl, rfl⟩
  | succ f ih =>
    cases hs : a.step with
    | none => rw [loop_succ_none hs]; exact ⟨rfl, rfl, rfl, rfl⟩
    | some a' =>
      rw [loop_succ_some hs]
      obtain ⟨p, row, m, _, _, _, _, rfl⟩ := step_spec hs
      exact ih _

theorem loop_sub (f : Nat) (a : Abs) : Sub a.fw (Abs.loop f a).fw := by
  induction f generalizing a with
  | zero => exact Sub.refl _
  | succ f ih =>
    cases hs : a.step with
    | none => rw [loop_succ_none hs]; exact Sub.refl _
    | some a' =>
      rw [loop_succ_some hs]
      obtain ⟨p, row, m, _, _, _, _, rfl⟩ := step_spec hs
      exact Sub.trans (sub_or_pow a.fw m) (ih { a with fw := a.fw ||| 2 ^ m })

/-- soundness of every step order: the loop never leaves a closed superset -/
theorem loop_least (f : Nat) (a : Abs) (T : Nat) (hT : Closed a.n a.parLen a.rowOf a.par T) (hs : Sub a.fw T) :
    Sub (Abs.loop f a).fw T := by
  induction f generalizing a with
  | zero => exact hs
  | succ f ih =>
    cases hst : a.step with
    | none => rw [loop_succ_none hst]; exact hs
    | some a' =>
      rw [loop_succ_some hst]
      obtain ⟨p, row, m, hp, hb, hr, he, rfl⟩ := step_spec hst
      exact ih _ hT (or_pow_sub hs (closed_contains hT hs hp hb hr he))

/-- number of data fragments still missing -/
def missing (S n : Nat) : Nat := n - countBits S n

theorem countBits_le (S n : Nat) : countBits S n ≤ n := by
  induction n with
  | zero => simp [countBits]
  | succ k ih => unfold countBits; split <;> omega

theorem countBits_or_pow_of_ge (S m k : Nat) (h : k ≤ m) : countBits (S ||| 2 ^ m) k = countBits S k := by
  induction k with
  | zero => rfl
  | succ j ih =>
    unfold countBits
    rw [ih (by omega), testBit_or_pow]
    have : ¬ j = m := by omega
    simp [this]

theorem countBits_or_pow (S m n : Nat) (hm : m < n) (hb : S.testBit m = false) :
    countBits (S ||| 2 ^ m) n = countBits S n + 1 := by
  induction n with
  | zero => omega
  | succ k ih =>
    unfold countBits
    by_cases hk : m = k
    · subst hk
      rw [countBits_or_pow_of_ge S m m (Nat.le_refl _), testBit_or_pow, hb]
      simp
    · rw [ih (by omega), testBit_or_pow]
      have : ¬ k = m := fun e => hk e.symm
      simp only [this, decide_false, Bool.or_false]
      omega

theorem step_missing {a a' : Abs} (h : a.step = some a') : missing a'.fw a'.n + 1 = missing a.fw a.n := by
  obtain ⟨p, row, m, _, _, _, he, rfl⟩ := step_spec h
  obtain ⟨h1, _, h3, _⟩ := (exactlyOne_iff row a.fw a.n m).mp he
  simp only [missing]
  rw [countBits_or_pow _ _ _ h1 h3]
  have := countBits_le (a.fw ||| 2 ^ m) a.n
  rw [countBits_or_pow _ _ _ h1 h3] at this
  omega

/-- with one unit of fuel per missing fragment (plus one for the final failing step) the loop ends because nothing
    is repairable any more -/
theorem loop_step_none (f : Nat) (a : Abs) (hf : missing a.fw a.n < f) : (Abs.loop f a).step = none := by
  induction f generalizing a with
  | zero => omega
  | succ f ih =>
    cases hs : a.step with
    | none => rw [loop_succ_none hs]; exact hs
    | some a' =>
      rw [loop_succ_some hs]
      have := step_missing hs
      exact ih a' (by omega)

/-- **confluence**: whatever repairable row `pickRepair` prefers, the loop ends in the peeling closure of what was
    present -/
theorem loop_isPeel (f : Nat) (a : Abs) (hrow : RowsOk a.parLen a.rowOf a.par) (hf : missing a.fw a.n < f) :
    IsPeel a.n a.parLen a.rowOf a.par a.fw (Abs.loop f a).fw := by
  obtain ⟨e1, e2, e3, e4⟩ := loop_fields f a
  refine ⟨loop_sub f a, ?_, fun T hT hs => loop_least f a T hT hs⟩
  have hc := step_none_closed (a := Abs.loop f a) (by rw [e2, e3, e4]; exact hrow) (loop_step_none f a hf)
  rw [e1, e2, e3, e4] at hc
  exact hc

/-! ## delivery sequences -/

/-- a delivery as the status tables see it: data fragment `i` (0-based) or coded fragment `p` (0-based) -/
inductive Dlv
  | data (i : Nat)
  | coded (p : Nat)

/-- the fragment is written (a duplicate changes nothing: the bit is already set), then the repair loop runs -/
def Abs.deliver (a : Abs) : Dlv → Abs
  | .data i => Abs.loop (a.n + 1) { a with fw := a.fw ||| 2 ^ i }
  | .coded p => Abs.loop (a.n + 1) { a with par := a.par ||| 2 ^ p }

def Abs.run (a : Abs) : List Dlv → Abs
  | [] => a
  | d :: ds => Abs.run (a.deliver d) ds

/-- data fragments delivered -/
def dataMask : List Dlv → Nat
  | [] => 0
  | .data i :: ds => dataMask ds ||| 2 ^ i
  | .coded _ :: ds => dataMask ds

/-- coded fragments delivered -/
def codedMask : List Dlv → Nat
  | [] => 0
  | .data _ :: ds => codedMask ds
  | .coded p :: ds => codedMask ds ||| 2 ^ p

theorem missing_lt (S n : Nat) : missing S n < n + 1 := by unfold missing; omega

theorem closed_mono_par {n parLen : Nat} {rowOf : Nat → Option Nat} {par par' T : Nat} (h : Sub par par')
    (hT : Closed n parLen rowOf par' T) : Closed n parLen rowOf par T :=
  fun p hp hb row hr => hT p hp (h p hb) row hr

theorem deliver_fields (a : Abs) (d : Dlv) :
    (a.deliver d).n = a.n ∧ (a.deliver d).parLen = a.parLen ∧ (a.deliver d).rowOf = a.rowOf := by
  cases d <;> exact ⟨(loop_fields _ _).1, (loop_fields _ _).2.1, (loop_fields _ _).2.2.1⟩

/-- invariant of a run: the data mask is the peeling closure of the delivered data under the delivered rows -/
theorem deliver_isPeel (a : Abs) (d : Dlv) (data : Nat)
    (hrow : ∀ p, p < a.parLen → (a.rowOf p).isSome = true)
    (h : IsPeel a.n a.parLen a.rowOf a.par data a.fw) :
    IsPeel a.n a.parLen a.rowOf (a.deliver d).par
      (match d with | .data i => data ||| 2 ^ i | .coded _ => data) (a.deliver d).fw := by
  cases d with
  | data i =>
    let a1 : Abs := { a with fw := a.fw ||| 2 ^ i }
    have hp := loop_isPeel (a.n + 1) a1 (fun p hp _ => hrow p hp) (missing_lt _ _)
    have hpar : (Abs.loop (a.n + 1) a1).par = a.par := (loop_fields _ _).2.2.2
    show IsPeel a.n a.parLen a.rowOf (Abs.loop (a.n + 1) a1).par (data ||| 2 ^ i) (Abs.loop (a.n + 1) a1).fw
    rw [hpar]
    refine ⟨?_, hp.2.1, fun T hT hs => ?_⟩
    · apply Sub.trans _ hp.1
      apply or_pow_sub (Sub.trans h.1 (sub_or_pow _ _))
      show (a.fw ||| 2 ^ i).testBit i = true
      rw [testBit_or_pow]; simp
    · apply hp.2.2 T hT
      have hd : Sub data T := Sub.trans (sub_or_pow data i) hs
      apply or_pow_sub (h.2.2 T hT hd)
      apply hs i
      rw [testBit_or_pow]; simp
  | coded p =>
    let a1 : Abs := { a with par := a.par ||| 2 ^ p }
    have hp := loop_isPeel (a.n + 1) a1 (fun p hp _ => hrow p hp) (missing_lt _ _)
    have hpar : (Abs.loop (a.n + 1) a1).par = a.par ||| 2 ^ p := (loop_fields _ _).2.2.2
    show IsPeel a.n a.parLen a.rowOf (Abs.loop (a.n + 1) a1).par data (Abs.loop (a.n + 1) a1).fw
    rw [hpar]
    refine ⟨Sub.trans h.1 hp.1, hp.2.1, fun T hT hs => ?_⟩
    apply hp.2.2 T hT
    exact h.2.2 T (closed_mono_par (sub_or_pow _ _) hT) hs

end Fuota.V1
