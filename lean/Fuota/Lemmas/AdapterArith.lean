import Fuota.Model.FlashAdapters
/-!
# Address arithmetic of the flash adapters (C16)

`next_multiple_of` / `previous_multiple_of`, the closed form of `flash_row_size`, the recurrence
`rowAddr (m+1) = rowAddr m + rowSize m` of `flash_row_address_offset`, and the loop of `num_rows`.
All for an arbitrary write size `W > 0`.
-/
set_option linter.unusedSimpArgs false
namespace Fuota.FlashAdapters

theorem nextMultipleOf_eq {x k : Nat} (hk : 0 < k) :
    nextMultipleOf x k = if x % k = 0 then x else k * (x / k) + k := by
  unfold nextMultipleOf
  split
  · rfl
  · have h1 := Nat.div_add_mod x k
    have h2 := Nat.mod_lt x hk
    omega

theorem nextMultipleOf_mod {x k : Nat} (hk : 0 < k) : nextMultipleOf x k % k = 0 := by
  rw [nextMultipleOf_eq hk]
  split
  · assumption
  · rw [Nat.add_comm, Nat.add_mul_mod_self_left, Nat.mod_self]

theorem le_nextMultipleOf (x k : Nat) : x ≤ nextMultipleOf x k := by
  unfold nextMultipleOf; split <;> omega

theorem nextMultipleOf_lt {x k : Nat} (hk : 0 < k) : nextMultipleOf x k < x + k := by
  unfold nextMultipleOf
  have := Nat.mod_lt x hk
  split <;> omega

theorem nextMultipleOf_of_mod_eq_zero {x k : Nat} (h : x % k = 0) : nextMultipleOf x k = x := by
  simp [nextMultipleOf, h]

theorem previousMultipleOf_eq {v k : Nat} (hk : 0 < k) : previousMultipleOf v k = v - v % k := by
  unfold previousMultipleOf nextMultipleOf
  have := Nat.mod_lt v hk
  by_cases h : v % k = 0
  · simp [h]
  · simp only [h, if_false]
    rw [if_pos (by omega)]
    omega

theorem previousMultipleOf_le {v k : Nat} (hk : 0 < k) : previousMultipleOf v k ≤ v := by
  rw [previousMultipleOf_eq hk]; omega

theorem previousMultipleOf_mod {v k : Nat} (hk : 0 < k) : previousMultipleOf v k % k = 0 := by
  rw [previousMultipleOf_eq hk]
  have h1 := Nat.div_add_mod v k
  have : v - v % k = k * (v / k) := by omega
  rw [this, Nat.mul_mod_right]

/-- `up = down + W` unless the length is a multiple of `W` -/
theorem nextMultipleOf_eq_previous {v k : Nat} (hk : 0 < k) :
    nextMultipleOf v k = if v % k = 0 then v else previousMultipleOf v k + k := by
  rw [previousMultipleOf_eq hk, nextMultipleOf_eq hk]
  have h1 := Nat.div_add_mod v k
  split <;> omega

/-! ## matrix rows -/

theorem byteSize_eq (m : Nat) : nextMultipleOf (m + 1) 8 / 8 = m / 8 + 1 := by
  unfold nextMultipleOf; split <;> omega

/-- all rows of group `g = m / (8 W)` occupy `W (g + 1)` bytes -/
theorem flashRowSize_eq (c : Cfg) (hW : 0 < c.W) (m : Nat) : flashRowSize c m = c.W * (m / (c.W * 8) + 1) := by
  unfold flashRowSize
  rw [byteSize_eq, nextMultipleOf_eq hW]
  have hdd : m / (c.W * 8) = m / 8 / c.W := by rw [Nat.mul_comm, Nat.div_div_eq_div_mul]
  rw [hdd]
  generalize m / 8 = y
  have h1 := Nat.div_add_mod y c.W
  have h2 := Nat.mod_lt y hW
  have h3 : (y + 1) % c.W = (y % c.W + 1) % c.W := by
    conv => lhs; rw [← h1, Nat.add_assoc, Nat.mul_add_mod]
  by_cases h : y % c.W + 1 = c.W
  · rw [h3, h, Nat.mod_self, if_pos rfl, Nat.mul_add, Nat.mul_one]; omega
  · have h4 : (y % c.W + 1) % c.W = y % c.W + 1 := Nat.mod_eq_of_lt (by omega)
    rw [h3, h4, if_neg (by omega)]
    have h5 : (y + 1) / c.W = y / c.W := by
      have := (Nat.div_mod_unique (a := y + 1) (d := y / c.W) (c := y % c.W + 1) hW).mpr ⟨by omega, by omega⟩
      exact this.1
    rw [h5, Nat.mul_add, Nat.mul_one]

theorem flashRowSize_pos (c : Cfg) (hW : 0 < c.W) (m : Nat) : 0 < flashRowSize c m := by
  rw [flashRowSize_eq c hW]; exact Nat.mul_pos hW (Nat.succ_pos _)

theorem flashRowSize_mod (c : Cfg) (hW : 0 < c.W) (m : Nat) : flashRowSize c m % c.W = 0 := by
  rw [flashRowSize_eq c hW]; exact Nat.mul_mod_right _ _

/-- the row holds bits `0 ..= m` -/
theorem flashRowSize_ge (c : Cfg) (m : Nat) : m / 8 + 1 ≤ flashRowSize c m := by
  unfold flashRowSize; rw [byteSize_eq]; exact le_nextMultipleOf _ _

theorem flashRowSize_lt (c : Cfg) (hW : 0 < c.W) (m : Nat) : flashRowSize c m < m / 8 + 1 + c.W := by
  unfold flashRowSize; rw [byteSize_eq]; exact nextMultipleOf_lt hW

/-- closed form: consecutive rows are adjacent -/
theorem flashRowAddressOffset_succ (c : Cfg) (hW : 0 < c.W) (m : Nat) :
    flashRowAddressOffset c (m + 1) = flashRowAddressOffset c m + flashRowSize c m := by
  unfold flashRowAddressOffset
  simp only [flashRowSize_eq c hW]
  have hG : 0 < c.W * 8 := by omega
  have h1 := Nat.div_add_mod m (c.W * 8)
  have h2 := Nat.mod_lt m hG
  by_cases h : m % (c.W * 8) + 1 < c.W * 8
  · have := (Nat.div_mod_unique (a := m + 1) (d := m / (c.W * 8)) (c := m % (c.W * 8) + 1) hG).mpr ⟨by omega, h⟩
    rw [this.1, this.2]
    generalize m / (c.W * 8) = q
    generalize m % (c.W * 8) = p
    grind
  · have h' : m % (c.W * 8) + 1 = c.W * 8 := by omega
    have := (Nat.div_mod_unique (a := m + 1) (d := m / (c.W * 8) + 1) (c := 0) hG).mpr
      ⟨by rw [Nat.mul_add, Nat.mul_one]; omega, hG⟩
    rw [this.1, this.2]
    generalize m / (c.W * 8) = q at h' ⊢
    generalize m % (c.W * 8) = p at h' ⊢
    have hp : p = c.W * 8 - 1 := by omega
    have : p * (c.W * (q + 1)) + c.W * (q + 1) = (c.W * 8) * (c.W * (q + 1)) := by
      rw [← h']; grind
    grind

theorem flashRowAddressOffset_zero (c : Cfg) : flashRowAddressOffset c 0 = 0 := by
  simp [flashRowAddressOffset]

/-- the address offset of row `n` is the total size of the rows below it -/
theorem flashRowAddressOffset_eq_sum (c : Cfg) (hW : 0 < c.W) (n : Nat) :
    flashRowAddressOffset c n = ((List.range n).map (flashRowSize c)).sum := by
  induction n with
  | zero => simp [flashRowAddressOffset_zero]
  | succ n ih => rw [flashRowAddressOffset_succ c hW, ih, List.range_succ]; simp

theorem flashRowAddressOffset_mono (c : Cfg) (hW : 0 < c.W) {m n : Nat} (h : m < n) :
    flashRowAddressOffset c m + flashRowSize c m ≤ flashRowAddressOffset c n := by
  induction n with
  | zero => omega
  | succ n ih =>
    rw [flashRowAddressOffset_succ c hW n]
    by_cases hmn : m = n
    · subst hmn; omega
    · have := ih (by omega); omega

theorem flashRowAddressOffset_mod (c : Cfg) (hW : 0 < c.W) (m : Nat) : flashRowAddressOffset c m % c.W = 0 := by
  induction m with
  | zero => simp [flashRowAddressOffset_zero]
  | succ m ih =>
    rw [flashRowAddressOffset_succ c hW, Nat.add_mod, ih, flashRowSize_mod c hW m]; simp

/-! ## `num_rows` -/

theorem numRowsLoop_spec (c : Cfg) (hW : 0 < c.W) (storage fuel size n : Nat)
    (hsz : size = flashRowAddressOffset c n) (hn : n ≤ 8 * c.N) (hfit : n = 0 ∨ size < storage) :
    let r := numRowsLoop c storage fuel size n
    r ≤ 8 * c.N ∧ (r = 0 ∨ flashRowAddressOffset c r < storage) := by
  induction fuel generalizing size n with
  | zero => simp only [numRowsLoop]; subst hsz; exact ⟨hn, hfit⟩
  | succ fuel ih =>
    simp only [numRowsLoop]
    split
    · rename_i h
      apply ih
      · rw [flashRowAddressOffset_succ c hW, hsz]
      · omega
      · right; exact h.1
    · subst hsz; exact ⟨hn, hfit⟩

theorem numRows_spec (c : Cfg) (hW : 0 < c.W) :
    numRows c ≤ 8 * c.N ∧ (numRows c = 0 ∨ flashRowAddressOffset c (numRows c) < c.stop - c.start) :=
  numRowsLoop_spec c hW _ _ 0 0 (flashRowAddressOffset_zero c).symm (by omega) (Or.inl rfl)

end Fuota.FlashAdapters
