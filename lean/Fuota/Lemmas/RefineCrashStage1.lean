import Fuota.Lemmas.RefineCrashBase
/-!
# A stage-1 store (`write_segment` = data program, then written mark) under a transient fault or a power loss
-/
namespace Fuota.Updater
open Fuota.Nor Fuota.Fs Fuota.FlashAdapters Fuota.Recon Fuota.Layout

/-- with the cache filled and the geometry checks passing, `write_segment` is two programs (as a computation, on any
    device) -/
theorem writeSegment_eq {u : Upd} {fsz : Nat} (g : Geo u fsz) {i : Nat} (hi : i < u.n) (buf : List Nat)
    (hlen : buf.length = u.bs) :
    u.fw.writeSegment i buf =
      (writeFrom (segAddr u i) buf >>= fun _ => writeFrom (statAddr u i) [0x33] >>= fun _ => pure u.fw) := by
  obtain ⟨h1, h2, h3, _⟩ := g.slots
  obtain ⟨h4, h5⟩ := g.seg hi
  have hbs := g.hbs
  have hn := g.hn
  unfold Slot.writeSegment Slot.segmentSizeMut Slot.markSegmentWritten
  have e1 : ¬ i > MAX_SEGMENTS := by show ¬ i > 16384; omega
  have e2 : ¬ (DATA_REGION_OFFSET + i * u.bs > u.fw.size) := by show ¬ (17408 + i * u.bs > u.fw.size); omega
  have e3 : ¬ u.bs = 0 := by omega
  have e4 : ¬ (WRITTEN_OFFSET + i > u.fw.size) := by show ¬ (1024 + i > u.fw.size); omega
  have e5 : ¬ u.bs ≠ buf.length := by omega
  have ea : u.fw.idx * u.fw.size + (DATA_REGION_OFFSET + i * u.bs) = segAddr u i := by
    simp only [segAddr, fwBase]; show _ + (17408 + _) = _; omega
  have eb : u.fw.idx * u.fw.size + (WRITTEN_OFFSET + i) = statAddr u i := by
    simp only [statAddr, fwBase]; show _ + (1024 + _) = _; omega
  simp only [g.hseg, pure_bind, e1, e2, e3, e4, e5, ↓reduceIte, ea, eb]
  rfl

/-- the situation of a stage-1 store: lawful, incomplete, stage 1, a new block of the right size -/
structure Stage1Store (u : Upd) (d : Dev) (i : Nat) (buf : List Nat) : Prop where
  law : Lawful u d
  inc : rcComplete u = false
  l0 : u.l = 0
  hi : i < u.n
  fresh : u.done.testBit i = false
  bytes : IsBytes buf
  len : buf.length = u.bs

/-- the in-memory updater after the block was stored -/
def afterStore (u : Upd) (i : Nat) : Upd := { u with done := u.done ||| 2 ^ i }

/-- `handle_block` in the stage-1 store situation, on any device: it is `write_segment` followed by setting the bit -/
theorem handleBlock_stage1 (ffr : Bool) {u : Upd} (e : Dev) {i : Nat} {buf : List Nat} (hinc : rcComplete u = false)
    (hl0 : u.l = 0) (hi : i < u.n) (hf : u.done.testBit i = false) (hlen : buf.length = u.bs) :
    (handleBlock ffr i buf).run (u, e) =
      match (u.fw.writeSegment i buf).run e with
      | (.ok fw, e') => (.ok (some (rcComplete { u with fw := fw, done := u.done ||| 2 ^ i })),
          ({ u with fw := fw, done := u.done ||| 2 ^ i }, e'))
      | (.error er, e') => (.error er, (u, e')) := by
  rw [handleBlock_eqU ffr u e i buf hlen, if_neg (by rw [hinc]; simp)]
  have hnp : ¬ (u.n ≤ i ∧ u.l = 0) := fun h => by omega
  rw [if_neg (fun h => hnp ⟨h.1, h.2.1⟩)]
  simp only [if_neg hnp]
  rw [if_pos hl0]
  unfold stage1U
  simp only [hf, Bool.false_eq_true, ↓reduceIte, runU_bind, runU_liftM]
  generalize (u.fw.writeSegment i buf).run e = p
  obtain ⟨r, e'⟩ := p
  cases r <;> rfl

/-- the same for `handle_segment` with the 1-based fragment number -/
theorem handleSegment_stage1 (ffr : Bool) {u : Upd} (e : Dev) {i : Nat} {buf : List Nat} (hinc : rcComplete u = false)
    (hl0 : u.l = 0) (hi : i < u.n) (hf : u.done.testBit i = false) (hlen : buf.length = u.bs) :
    (handleSegment ffr (i + 1) buf).run (u, e) =
      match (u.fw.writeSegment i buf).run e with
      | (.ok fw, e') =>
        if rcComplete { u with fw := fw, done := u.done ||| 2 ^ i } = true then
          (.ok .complete, ({ u with fw := fw, done := u.done ||| 2 ^ i, complete := true }, e'))
        else (.ok .consumed, ({ u with fw := fw, done := u.done ||| 2 ^ i }, e'))
      | (.error er, e') => (.error er, (u, e')) := by
  rw [handleSegment_run ffr (i + 1) buf (by omega), Nat.add_sub_cancel, handleBlock_stage1 ffr e hinc hl0 hi hf hlen]
  generalize (u.fw.writeSegment i buf).run e = p
  obtain ⟨r, e'⟩ := p
  cases r with
  | error er => rfl
  | ok fw =>
    simp only
    cases hc : rcComplete { u with fw := fw, done := u.done ||| 2 ^ i } <;> simp

/-! ## the device after `write_segment` was interrupted -/

/-- a fault consumed after a successful program leaves the good device with that program applied -/
theorem withFault_prog_cleared {d : Dev} (h : Good d) (j a : Nat) (bs : List Nat) :
    { (d.withFault j).prog a bs with failAt := none } = d.prog a bs := by
  obtain ⟨f, o, n, c, fa, de, ns⟩ := d
  have : fa = none := h.fail
  subst this
  rfl

/-- a power loss after a successful program, then a reboot, leaves the good device with that program applied -/
theorem withCrash_prog_reboot {d : Dev} (h : Good d) (j a : Nat) (bs : List Nat) :
    ({ (d.withCrash j).prog a bs with dead := true } : Dev).reboot = d.prog a bs := by
  obtain ⟨f, o, n, c, fa, de, ns⟩ := d
  have h1 : c = none := h.crash
  have h2 : de = false := h.alive
  subst h1 h2
  rfl

/-- `write_segment` with the fault on its first program: nothing happens -/
theorem writeSegment_fault0 {u : Upd} {d : Dev} (g : Geo u d.flash.size) (hG : Good d) {i : Nat} (hi : i < u.n)
    (buf : List Nat) (hlen : buf.length = u.bs) :
    (u.fw.writeSegment i buf).run (d.withFault 0) = (.error (.spi .custom), d) := by
  obtain ⟨h4, h5⟩ := g.seg hi
  obtain ⟨h1, h2, h3, _⟩ := g.slots
  rw [writeSegment_eq g hi buf hlen, run_bind,
    writeFrom_run_fault (hG.withFault 0) _ _ (by show _ ≤ d.flash.size; simp only [segAddr]; omega)]
  show (_, ({ d.withFault 0 with failAt := none } : Dev)) = _
  rw [withFault_cleared hG]

/-- `write_segment` with the fault on its second program: the data is programmed, the written mark is not -/
theorem writeSegment_fault1 {u : Upd} {d : Dev} (g : Geo u d.flash.size) (hG : Good d) {i : Nat} (hi : i < u.n)
    (buf : List Nat) (hlen : buf.length = u.bs) :
    (u.fw.writeSegment i buf).run (d.withFault 1) = (.error (.spi .custom), d.prog (segAddr u i) buf) := by
  obtain ⟨h4, h5⟩ := g.seg hi
  obtain ⟨h1, h2, h3, _⟩ := g.slots
  have hn := g.hn
  obtain ⟨w1, w2⟩ := writeFrom_run_faulty (hG.withFault 1) (segAddr u i) buf
    (by show _ ≤ d.flash.size; simp only [segAddr]; omega)
  rw [writeSegment_eq g hi buf hlen, run_bind, w1]
  simp only
  rw [run_bind, writeFrom_run_fault w2 _ _
    (by rw [Dev.prog_size]; show _ ≤ d.flash.size; simp only [statAddr, List.length_singleton]; omega)]
  show (_, ({ (d.withFault 1).prog (segAddr u i) buf with failAt := none } : Dev)) = _
  rw [withFault_prog_cleared hG]

/-- `write_segment` with the power lost at its first program: the device is dead; after the reboot it is as before -/
theorem writeSegment_crash0 {u : Upd} {d : Dev} (g : Geo u d.flash.size) (hG : Good d) {i : Nat} (hi : i < u.n)
    (buf : List Nat) (hlen : buf.length = u.bs) :
    ∃ e, (u.fw.writeSegment i buf).run (d.withCrash 0) = (.error (.spi .custom), e) ∧ e.dead = true ∧ e.reboot = d := by
  obtain ⟨h4, h5⟩ := g.seg hi
  obtain ⟨h1, h2, h3, _⟩ := g.slots
  refine ⟨{ d.withCrash 0 with dead := true }, ?_, rfl, withCrash_reboot hG 0⟩
  rw [writeSegment_eq g hi buf hlen, run_bind,
    writeFrom_run_crash (hG.withCrash 0) _ _ (by show _ ≤ d.flash.size; simp only [segAddr]; omega)]

/-- `write_segment` with the power lost at its second program: the device is dead; after the reboot the data is
    programmed and the written mark is not -/
theorem writeSegment_crash1 {u : Upd} {d : Dev} (g : Geo u d.flash.size) (hG : Good d) {i : Nat} (hi : i < u.n)
    (buf : List Nat) (hlen : buf.length = u.bs) :
    ∃ e, (u.fw.writeSegment i buf).run (d.withCrash 1) = (.error (.spi .custom), e) ∧ e.dead = true ∧
      e.reboot = d.prog (segAddr u i) buf := by
  obtain ⟨h4, h5⟩ := g.seg hi
  obtain ⟨h1, h2, h3, _⟩ := g.slots
  have hn := g.hn
  obtain ⟨w1, w2⟩ := writeFrom_run_armed (hG.withCrash 1) (segAddr u i) buf
    (by show _ ≤ d.flash.size; simp only [segAddr]; omega)
  refine ⟨{ (d.withCrash 1).prog (segAddr u i) buf with dead := true }, ?_, rfl, withCrash_prog_reboot hG 1 _ _⟩
  rw [writeSegment_eq g hi buf hlen, run_bind, w1]
  simp only
  rw [run_bind, writeFrom_run_crash w2 _ _
    (by rw [Dev.prog_size]; show _ ≤ d.flash.size; simp only [statAddr, List.length_singleton]; omega)]

/-- `write_segment` with a fault armed beyond its two programs: both succeed, the fault stays armed -/
theorem writeSegment_fault_late {u : Upd} {d : Dev} (g : Geo u d.flash.size) (hG : Good d) {i : Nat} (hi : i < u.n)
    (buf : List Nat) (hlen : buf.length = u.bs) (k : Nat) :
    ∃ d', (u.fw.writeSegment i buf).run (d.withFault (k + 2)) = (.ok u.fw, d') ∧ Faulty k d' := by
  obtain ⟨h4, h5⟩ := g.seg hi
  obtain ⟨h1, h2, h3, _⟩ := g.slots
  have hn := g.hn
  obtain ⟨w1, w2⟩ := writeFrom_run_faulty (hG.withFault (k + 1 + 1)) (segAddr u i) buf
    (by show _ ≤ d.flash.size; simp only [segAddr]; omega)
  obtain ⟨v1, v2⟩ := writeFrom_run_faulty w2 (statAddr u i) [0x33]
    (by rw [Dev.prog_size]; show _ ≤ d.flash.size; simp only [statAddr, List.length_singleton]; omega)
  refine ⟨_, ?_, v2⟩
  rw [writeSegment_eq g hi buf hlen, run_bind, w1]
  simp only
  rw [run_bind, v1]
  rfl

/-- `write_segment` with a power loss armed beyond its two programs: both succeed, the crash stays armed -/
theorem writeSegment_crash_late {u : Upd} {d : Dev} (g : Geo u d.flash.size) (hG : Good d) {i : Nat} (hi : i < u.n)
    (buf : List Nat) (hlen : buf.length = u.bs) (k : Nat) :
    ∃ d', (u.fw.writeSegment i buf).run (d.withCrash (k + 2)) = (.ok u.fw, d') ∧ Armed k d' := by
  obtain ⟨h4, h5⟩ := g.seg hi
  obtain ⟨h1, h2, h3, _⟩ := g.slots
  have hn := g.hn
  obtain ⟨w1, w2⟩ := writeFrom_run_armed (hG.withCrash (k + 1 + 1)) (segAddr u i) buf
    (by show _ ≤ d.flash.size; simp only [segAddr]; omega)
  obtain ⟨v1, v2⟩ := writeFrom_run_armed w2 (statAddr u i) [0x33]
    (by rw [Dev.prog_size]; show _ ≤ d.flash.size; simp only [statAddr, List.length_singleton]; omega)
  refine ⟨_, ?_, v2⟩
  rw [writeSegment_eq g hi buf hlen, run_bind, w1]
  simp only
  rw [run_bind, v1]
  rfl

/-! ## the flash with the data of segment `i` programmed and its mark not set -/

/-- equal contents functions, equal abstractions -/
theorem abs_eqv_of_vals {u : Upd} {d e : Dev} (h1 : ∀ k, dsVal u e.flash k = dsVal u d.flash k)
    (h2 : ∀ k, psVal u e.flash k = psVal u d.flash k) (h3 : ∀ k, msVal u e.flash k = msVal u d.flash k) :
    Fault.Eqv (abs (u, e)) (abs (u, d)) := by
  obtain ⟨_, _, _, _, _, a6, a7, a8⟩ := sim_abs u e
  obtain ⟨_, _, _, _, _, b6, b7, b8⟩ := sim_abs u d
  refine ⟨rfl, rfl, rfl, rfl, rfl, fun k => ?_, fun k => ?_, fun k => ?_⟩
  · rw [a6, h1]; exact (b6 k).symm
  · rw [a7, h2]; exact (b7 k).symm
  · rw [a8, h3]; exact (b8 k).symm

/-- **programming the data of a segment without its mark**: every byte outside the segment is unchanged, the
    invariant holds with that segment no longer required erased, and — the mark not reading written — the contents
    the abstraction sees are unchanged -/
theorem progSeg_frame {E : Nat → Prop} {u : Upd} {d e : Dev} (L : Lawful' E u d) {i : Nat} (hi : i < u.n)
    (hG : Good e) (buf : List Nat) (hlen : buf.length = u.bs)
    (hf : e.flash = d.flash.apply (.program (segAddr u i) buf)) :
    (∀ x, ¬ (segAddr u i ≤ x ∧ x < segAddr u i + u.bs) → e.flash.byte x = d.flash.byte x) ∧
    Lawful' (fun k => E k ∧ k ≠ i) u e ∧
    (d.flash.byte (statAddr u i) ≠ 0x33 → ∀ k, dsVal u e.flash k = dsVal u d.flash k) ∧
    (∀ m, psVal u e.flash m = psVal u d.flash m) ∧ (∀ m, msVal u e.flash m = msVal u d.flash m) := by
  have g := L.geo
  obtain ⟨h1, h2, h3, h4, h5, h6, h7⟩ := g.slots
  obtain ⟨r1, r2, r3, r4⟩ := g.regions.1 i hi
  have hfr : ∀ x, ¬ (segAddr u i ≤ x ∧ x < segAddr u i + u.bs) → e.flash.byte x = d.flash.byte x := by
    intro x hx
    rw [hf, byte_apply_program_of_not_mem _ _ _ _ (by omega)]
  have hsz : e.flash.size = d.flash.size := by rw [hf, size_apply_program]
  have hms : ∀ m, msVal u e.flash m = msVal u d.flash m := by
    intro m
    by_cases hm : m < u.maxL
    · obtain ⟨q1, q2, q3, q4⟩ := g.regions.2 m hm
      apply msVal_congr
      intro x hx1 hx2
      exact hfr x (by omega)
    · simp [msVal, hm]
  refine ⟨hfr, ?_, ?_, ?_, hms⟩
  · refine { geo := by rw [hsz]; exact g, good := hG, wf := by rw [hf]; exact WF_apply_program L.wf _ _,
             hl := L.hl, hl2 := L.hl2, hdone := L.hdone, hstat := ?_, herD := ?_, hech := ?_, herP := ?_ }
    · intro k hk
      have hkn := L.hdone k hk
      obtain ⟨q1, q2, q3, q4⟩ := g.regions.1 k hkn
      rw [hfr _ (by omega)]
      exact L.hstat k hk
    · intro k hkn ⟨hEk, hki⟩
      obtain ⟨e1, e2⟩ := L.herD k hkn hEk
      obtain ⟨q1, q2, q3, q4⟩ := g.regions.1 k hkn
      have hd := g.disjoint.1 k i hki
      refine ⟨erased_congr e1 (fun x hx1 hx2 => hfr x (by omega)), ?_⟩
      rw [hfr _ (by omega)]
      exact e2
    · intro p hp
      rw [hms p]
      exact L.hech p hp
    · intro m hm hu
      obtain ⟨e1, e2⟩ := L.herP m hm hu
      obtain ⟨q1, q2, q3, q4⟩ := g.regions.2 m hm
      exact ⟨erased_congr e1 (fun x hx1 hx2 => hfr x (by omega)),
        erased_congr e2 (fun x hx1 hx2 => hfr x (by omega))⟩
  · intro hst k
    by_cases hki : k = i
    · subst hki
      have : e.flash.byte (statAddr u k) = d.flash.byte (statAddr u k) := hfr _ (by omega)
      simp [dsVal, this, hst]
    · by_cases hkn : k < u.n
      · obtain ⟨q1, q2, q3, q4⟩ := g.regions.1 k hkn
        have hd := g.disjoint.1 k i hki
        apply dsVal_congr
        · exact hfr _ (by omega)
        · intro x hx1 hx2
          exact hfr x (by omega)
      · simp [dsVal, hkn]
  · intro m
    by_cases hm : m < u.maxL
    · obtain ⟨q1, q2, q3, q4⟩ := g.regions.2 m hm
      apply psVal_congr
      intro x hx1 hx2
      exact hfr x (by omega)
    · simp [psVal, hm]

/-! ## the store carried out, on a device without injection, possibly with an empty cache -/

/-- `handle_segment` in the stage-1 store situation on a good device (cache filled or fillable from the header) -/
theorem handleSegment_stage1_good (ffr : Bool) {w : Upd} {e : Dev} (g : Geo (warm w) e.flash.size) (hG : Good e)
    (hc : CacheOK w e) {i : Nat} {buf : List Nat} (hinc : rcComplete w = false) (hl0 : w.l = 0) (hi : i < w.n)
    (hf : w.done.testBit i = false) (hlen : buf.length = w.bs) :
    (handleSegment ffr (i + 1) buf).run (w, e) =
      if rcComplete (afterStore (warm w) i) = true then
        (.ok .complete, ({ afterStore (warm w) i with complete := true }, afterWriteSegment (warm w) e i buf))
      else (.ok .consumed, (afterStore (warm w) i, afterWriteSegment (warm w) e i buf)) := by
  obtain ⟨h1, h2, h3, _⟩ := g.slots
  have hin : w.fw.size * w.fw.idx + 12 ≤ e.flash.size := by
    rw [Nat.mul_comm]
    have h1' : 17408 < w.fw.size := h1
    have h3' : w.fw.idx * w.fw.size + w.fw.size ≤ e.flash.size := h3
    omega
  have hbs : w.bs ≠ 0 := by have := g.hbs; intro h0; have : (warm w).bs = 0 := h0; omega
  rw [handleSegment_stage1 ffr e hinc hl0 hi hf hlen, writeSegment_warm hG hc hbs hin,
    writeSegment_run g hG (show i < (warm w).n from hi) buf hlen]
  rfl

/-- **redelivery of an interrupted stage-1 store.** `(u, d)` is the state before the interrupted call; `(w, e)` is a
state on a device without injection whose flash is `d`'s, or `d`'s with the data of the segment programmed and the
mark not set, and whose updater stands for the same session (same regions, stage and bit sets; cache filled or
fillable from the header). Then delivering the fragment on `(w, e)` is answered as on `(u, d)`, re-establishes the
session invariant, and ends with the same abstraction. -/
theorem redeliver_stage1 (ffr : Bool) {u : Upd} {d : Dev} {i : Nat} {buf : List Nat} (S : Stage1Store u d i buf)
    (hrow : (updaterRow ffr u.n i).isSome = true) {w : Upd} {e : Dev} (hG : Good e)
    (hf : e.flash = d.flash ∨ e.flash = d.flash.apply (.program (segAddr u i) buf))
    (hR : SameRegions u w) (hl : w.l = u.l) (hd : w.done = u.done) (hu : w.used = u.used) (hc : CacheOK w e) :
    ((handleSegment ffr (i + 1) buf).run (w, e)).1 = ((handleSegment ffr (i + 1) buf).run (u, d)).1 ∧
    Lawful ((handleSegment ffr (i + 1) buf).run (w, e)).2.1 ((handleSegment ffr (i + 1) buf).run (w, e)).2.2 ∧
    Lawful ((handleSegment ffr (i + 1) buf).run (u, d)).2.1 ((handleSegment ffr (i + 1) buf).run (u, d)).2.2 ∧
    Fault.Eqv (abs ((handleSegment ffr (i + 1) buf).run (w, e)).2) (abs ((handleSegment ffr (i + 1) buf).run (u, d)).2) ∧
    ((handleSegment ffr (i + 1) buf).run (w, e)).2.1.maxL = ((handleSegment ffr (i + 1) buf).run (u, d)).2.1.maxL := by
  have g := S.law.base.geo
  have hwu : warm u = u := warm_of_some g.hseg
  have hRw : SameRegions u (warm w) := ⟨hR.fi, hR.fs, hR.pi, hR.ps, hR.n, hR.bs, hR.maxL, hR.mo⟩
  obtain ⟨a1, a2, _, _⟩ := hRw.addrs
  have hsz : e.flash.size = d.flash.size := by
    rcases hf with h | h
    · rw [h]
    · rw [h, size_apply_program]
  have gw : Geo (warm w) e.flash.size := by
    rw [hsz]
    exact ⟨by rw [hRw.bs]; exact g.hbs, by rw [hRw.n]; exact g.hn, by rw [hRw.bs, hRw.n, hRw.fs]; exact g.hfit,
      by rw [hRw.ps, hRw.fs]; exact g.hsz, by rw [hRw.maxL, hRw.fs, hRw.bs]; exact g.hmaxL,
      by rw [hRw.mo, hRw.maxL, hRw.bs]; exact g.hmo, by rw [hRw.fi, hRw.pi]; exact g.hne,
      by rw [hRw.fi, hRw.fs]; exact g.hfwin, by rw [hRw.pi, hRw.ps]; exact g.hparin, rfl⟩
  have hcw : rcComplete w = false := by
    rw [← S.inc]; simp only [rcComplete, hl, hR.n, hd, hu]
  have hff := handleSegment_stage1_good ffr (w := u) (by rw [hwu]; exact g) S.law.base.good (Or.inl g.hseg)
    S.inc S.l0 S.hi S.fresh S.len
  rw [hwu] at hff
  have hr := handleSegment_stage1_good ffr gw hG hc hcw (by rw [hl]; exact S.l0) (by rw [hR.n]; exact S.hi)
    (by rw [hd]; exact S.fresh) (by rw [hR.bs]; exact S.len)
  have Lff := (handleSegment_lawful ffr (i + 1) buf S.law S.bytes S.len (by rw [Nat.add_sub_cancel]; exact hrow)).1
  -- the two flashes after the store agree
  have hflash : (afterWriteSegment (warm w) e i buf).flash = (afterWriteSegment u d i buf).flash := by
    show (e.flash.apply (.program (segAddr (warm w) i) buf)).apply (.program (statAddr (warm w) i) [0x33]) =
      (d.flash.apply (.program (segAddr u i) buf)).apply (.program (statAddr u i) [0x33])
    rw [a1, a2]
    rcases hf with h | h
    · rw [h]
    · rw [h, apply_program_idem]
  have hGe : Good (afterWriteSegment (warm w) e i buf) := (hG.prog _ _).prog _ _
  have hcc : rcComplete (afterStore (warm w) i) = rcComplete (afterStore u i) := by
    simp only [rcComplete, afterStore, hl, hR.n, hd, hu]
  rw [hr, hff, hcc]
  rw [hff] at Lff
  by_cases hc' : rcComplete (afterStore u i) = true
  · simp only [if_pos hc'] at Lff ⊢
    have SS : SameSession { afterStore u i with complete := true } { afterStore (warm w) i with complete := true } :=
      ⟨⟨hR.fi, hR.fs, hR.pi, hR.ps, hR.n, hR.bs, hR.maxL, hR.mo⟩, hl,
        by show w.done ||| 2 ^ i = u.done ||| 2 ^ i; rw [hd], hu, rfl⟩
    exact ⟨trivial, Lff.transfer hGe hflash SS, Lff, abs_transfer hflash SS.reg SS.l SS.done SS.used, hR.maxL⟩
  · simp only [if_neg hc'] at Lff ⊢
    have SS : SameSession (afterStore u i) (afterStore (warm w) i) :=
      ⟨⟨hR.fi, hR.fs, hR.pi, hR.ps, hR.n, hR.bs, hR.maxL, hR.mo⟩, hl,
        by show w.done ||| 2 ^ i = u.done ||| 2 ^ i; rw [hd], hu, rfl⟩
    exact ⟨trivial, Lff.transfer hGe hflash SS, Lff, abs_transfer hflash SS.reg SS.l SS.done SS.used, hR.maxL⟩

/-! ## the interrupted call -/

/-- **relaxed invariant (i): one data segment programmed, its written mark not.** `e` is a device without injection
whose flash is that of a stage-1 store situation `(u, d)` with the bytes of segment `i` programmed -/
def HalfStored (u : Upd) (e : Dev) (i : Nat) (buf : List Nat) : Prop :=
  ∃ d, Stage1Store u d i buf ∧ Good e ∧ e.flash = d.flash.apply (.program (segAddr u i) buf)

/-- what `HalfStored` says about the device itself: every part of the session invariant holds except that segment
`i` is not erased; its mark still reads erased, the segment reads the block, and the abstraction does not see it -/
theorem HalfStored.facts {u : Upd} {e : Dev} {i : Nat} {buf : List Nat} (h : HalfStored u e i buf) :
    Lawful' (fun k => (rcComplete u = false ∧ u.done.testBit k = false) ∧ k ≠ i) u e ∧
    rcComplete u = false ∧ u.l = 0 ∧ i < u.n ∧ u.done.testBit i = false ∧
    e.flash.byte (statAddr u i) = 0xFF ∧ e.flash.read (segAddr u i) u.bs = buf := by
  obtain ⟨d, S, hG, hf⟩ := h
  obtain ⟨hfr, L', _⟩ := progSeg_frame S.law.base S.hi hG buf S.len hf
  have her := S.law.base.herD i S.hi ⟨S.inc, S.fresh⟩
  obtain ⟨r1, r2, r3, r4⟩ := S.law.base.geo.regions.1 i S.hi
  obtain ⟨h1, h2, h3, _⟩ := S.law.base.geo.slots
  refine ⟨L', S.inc, S.l0, S.hi, S.fresh, ?_, ?_⟩
  · rw [hfr _ (by omega)]; exact her.2
  · rw [hf]
    have := read_prog_same d.flash (segAddr u i) buf S.bytes (by rw [S.len]; omega) (by rw [S.len]; exact her.1)
    rwa [S.len] at this

/-- the abstraction does not see a programmed segment whose mark is not set -/
theorem HalfStored.abs_eqv {u : Upd} {d e : Dev} {i : Nat} {buf : List Nat} (S : Stage1Store u d i buf) (hG : Good e)
    (hf : e.flash = d.flash.apply (.program (segAddr u i) buf)) : Fault.Eqv (abs (u, e)) (abs (u, d)) := by
  obtain ⟨_, _, h1, h2, h3⟩ := progSeg_frame S.law.base S.hi hG buf S.len hf
  have her := S.law.base.herD i S.hi ⟨S.inc, S.fresh⟩
  exact abs_eqv_of_vals (h1 (by rw [her.2]; decide)) h2 h3

/-- **a stage-1 store with a transient fault on its first or second program.** The call answers the flash error, the
in-memory updater is unchanged, the fault is consumed; the device is the one before the call (`k = 0`) or has the
data of the segment programmed and the mark not (`k = 1`) -/
theorem stage1_fault (ffr : Bool) {u : Upd} {d : Dev} {i : Nat} {buf : List Nat} (S : Stage1Store u d i buf)
    (k : Nat) (hk : k < 2) :
    (handleSegment ffr (i + 1) buf).run (u, d.withFault k) =
      (.error (.spi .custom), (u, if k = 0 then d else d.prog (segAddr u i) buf)) := by
  have g := S.law.base.geo
  have hG := S.law.base.good
  rw [handleSegment_stage1 ffr _ S.inc S.l0 S.hi S.fresh S.len]
  rcases Nat.lt_succ_iff_lt_or_eq.1 hk with h | h
  · have : k = 0 := by omega
    subst this
    rw [writeSegment_fault0 g hG S.hi buf S.len]; rfl
  · subst h
    rw [writeSegment_fault1 g hG S.hi buf S.len]; rfl

/-- **a stage-1 store with the power lost at its first or second program.** The call answers the flash error with
the in-memory updater unchanged and the device dead; after the reboot the device is the one before the call
(`k = 0`) or has the data of the segment programmed and the mark not (`k = 1`) -/
theorem stage1_crash (ffr : Bool) {u : Upd} {d : Dev} {i : Nat} {buf : List Nat} (S : Stage1Store u d i buf)
    (k : Nat) (hk : k < 2) :
    ∃ e, (handleSegment ffr (i + 1) buf).run (u, d.withCrash k) = (.error (.spi .custom), (u, e)) ∧
      e.dead = true ∧ e.reboot = if k = 0 then d else d.prog (segAddr u i) buf := by
  have g := S.law.base.geo
  have hG := S.law.base.good
  rw [handleSegment_stage1 ffr _ S.inc S.l0 S.hi S.fresh S.len]
  rcases Nat.lt_succ_iff_lt_or_eq.1 hk with h | h
  · have : k = 0 := by omega
    subst this
    obtain ⟨e, h1, h2, h3⟩ := writeSegment_crash0 g hG S.hi buf S.len
    exact ⟨e, by rw [h1], h2, h3⟩
  · subst h
    obtain ⟨e, h1, h2, h3⟩ := writeSegment_crash1 g hG S.hi buf S.len
    exact ⟨e, by rw [h1], h2, h3⟩

/-- a stage-1 store with a fault or power loss armed beyond its two programs answers without error -/
theorem stage1_late (ffr : Bool) {u : Upd} {d : Dev} {i : Nat} {buf : List Nat} (S : Stage1Store u d i buf) (k : Nat) :
    (∃ o s, (handleSegment ffr (i + 1) buf).run (u, d.withFault (k + 2)) = (.ok o, s)) ∧
    (∃ o s, (handleSegment ffr (i + 1) buf).run (u, d.withCrash (k + 2)) = (.ok o, s)) := by
  have g := S.law.base.geo
  have hG := S.law.base.good
  constructor
  · obtain ⟨d', h1, _⟩ := writeSegment_fault_late g hG S.hi buf S.len k
    rw [handleSegment_stage1 ffr _ S.inc S.l0 S.hi S.fresh S.len, h1]
    simp only
    split <;> exact ⟨_, _, rfl⟩
  · obtain ⟨d', h1, _⟩ := writeSegment_crash_late g hG S.hi buf S.len k
    rw [handleSegment_stage1 ffr _ S.inc S.l0 S.hi S.fresh S.len, h1]
    simp only
    split <;> exact ⟨_, _, rfl⟩

end Fuota.Updater
