import Fuota.Lemmas.AdapterSlots
import Fuota.Lemmas.AdapterArith
/-!
# `FlashParityStorage` (C16)

Slot `m` is the `up = next_multiple_of(len, W)` bytes at `start + m * up`. `store` programs the image
`data ++ 0x00 … 0x00` of the slot in one or two chunks; `get` returns the first `len` bytes of the slot *provided the
tail read is long enough* (`len % W ≤ tailReadLen`: true for the repaired `tailReadLen = W`, false in general for the
pinned `tailReadLen = R`).
-/
set_option linter.unusedSimpArgs false
namespace Fuota.FlashAdapters
open Fuota.Nor

/-- address of parity slot `m` for blocks of `len` bytes -/
def paritySlot (c : Cfg) (len m : Nat) : Nat := c.start + m * nextMultipleOf len c.W

/-- the padded image of a block -/
def parityImage (c : Cfg) (data : List Nat) : List Nat :=
  data ++ List.replicate (nextMultipleOf data.length c.W - data.length) 0

theorem length_parityImage (c : Cfg) (data : List Nat) : (parityImage c data).length = nextMultipleOf data.length c.W := by
  simp only [parityImage, List.length_append, List.length_replicate]
  have := le_nextMultipleOf data.length c.W
  omega

/-- the tail buffer: `buffer[..data1.len()].copy_from_slice(data1)` on zeros, first `W` bytes -/
theorem tail_buffer (W : Nat) (hW32 : W ≤ MAX_WORD_SIZE) (xs : List Nat) (v : Nat) (hx : xs.length ≤ W) :
    (xs ++ List.replicate (MAX_WORD_SIZE - xs.length) v).take W = xs ++ List.replicate (W - xs.length) v := by
  rw [List.take_append, List.take_of_length_le hx, List.take_replicate]
  congr 2; omega

/-- `store` is one program of the padded image at the slot address -/
theorem parityStore_apply (c : Cfg) (hW : 0 < c.W) (hW32 : c.W ≤ MAX_WORD_SIZE) (f : Flash) (m : Nat) (data : List Nat) :
    applyAccs f (parityStoreAccs c m data) =
      f.apply (.program (paritySlot c data.length m) (parityImage c data)) := by
  have hdown := previousMultipleOf_eq (v := data.length) hW
  have hup := nextMultipleOf_eq_previous (v := data.length) hW
  have hml := Nat.mod_lt data.length hW
  have hmle := Nat.mod_le data.length c.W
  simp only [parityStoreAccs, paritySlot, parityImage]
  by_cases h : data.length % c.W = 0
  · have hd : previousMultipleOf data.length c.W = data.length := by omega
    rw [if_pos h] at hup
    simp only [hd, hup, List.drop_length, ne_eq, not_true_eq_false, if_false, List.append_nil, List.take_length,
      Nat.sub_self, List.replicate_zero]
    rfl
  · rw [if_neg h] at hup
    have hne : List.drop (previousMultipleOf data.length c.W) data ≠ [] := by
      intro h0
      have := congrArg List.length h0
      simp only [List.length_drop, List.length_nil] at this
      omega
    rw [if_pos hne]
    simp only [List.singleton_append, applyAccs_cons, applyAccs_nil, applyAcc]
    have hl0 : (List.take (previousMultipleOf data.length c.W) data).length = previousMultipleOf data.length c.W := by
      rw [List.length_take]; omega
    rw [tail_buffer c.W hW32 _ _ (by rw [List.length_drop]; omega),
      apply_program_append, ← List.append_assoc, List.take_append_drop, List.length_drop]
    congr 4
    omega

theorem paritySlot_mod (c : Cfg) (hW : 0 < c.W) (hs : c.start % c.W = 0) (len m : Nat) : paritySlot c len m % c.W = 0 := by
  unfold paritySlot
  rw [Nat.add_mod, hs, Nat.mul_mod, nextMultipleOf_mod hW]; simp

/-- slots of different indices are disjoint -/
theorem paritySlot_disjoint (c : Cfg) (len : Nat) {m j : Nat} (h : m ≠ j) :
    paritySlot c len m + nextMultipleOf len c.W ≤ paritySlot c len j ∨
    paritySlot c len j + nextMultipleOf len c.W ≤ paritySlot c len m := by
  unfold paritySlot
  rcases Nat.lt_or_gt_of_ne h with h | h
  · left
    have := Nat.mul_le_mul_right (nextMultipleOf len c.W) (show m + 1 ≤ j by omega)
    rw [Nat.add_mul, Nat.one_mul] at this; omega
  · right
    have := Nat.mul_le_mul_right (nextMultipleOf len c.W) (show j + 1 ≤ m by omega)
    rw [Nat.add_mul, Nat.one_mul] at this; omega

/-- `get` returns the first `len` bytes of the slot when the tail read covers the unaligned tail -/
theorem parityGetVal_eq_read (c : Cfg) (hW : 0 < c.W) (f : Flash) (m len : Nat) (ht : len % c.W ≤ c.tailReadLen) :
    parityGetVal c f m len = f.read (paritySlot c len m) len := by
  have hdown := previousMultipleOf_eq (v := len) hW
  simp only [parityGetVal, paritySlot]
  have hmle := Nat.mod_le len c.W
  have hlen : previousMultipleOf len c.W + (len - previousMultipleOf len c.W) = len := by omega
  by_cases h : len - previousMultipleOf len c.W = 0
  · rw [if_neg (by omega)]
    have : previousMultipleOf len c.W = len := by omega
    rw [this, List.append_nil]
  · rw [if_pos h]
    have e : f.read (c.start + m * nextMultipleOf len c.W) len =
        f.read (c.start + m * nextMultipleOf len c.W) (previousMultipleOf len c.W + (len - previousMultipleOf len c.W)) := by
      rw [hlen]
    rw [e, ← read_append]
    congr 1
    rw [List.take_append_of_le_length (by rw [length_read]; omega), take_read _ _ _ _ (by omega)]

/-! ## the slot system -/

/-- byte `x` after `store m data` -/
theorem byte_parityStore (c : Cfg) (hW : 0 < c.W) (hW32 : c.W ≤ MAX_WORD_SIZE) (f : Flash) (m : Nat) (data : List Nat) (x : Nat) :
    (applyAccs f (parityStoreAccs c m data)).byte x =
      if paritySlot c data.length m ≤ x ∧ x < paritySlot c data.length m + nextMultipleOf data.length c.W ∧ x < f.size
      then f.byte x &&& ((parityImage c data)[x - paritySlot c data.length m]?).getD 0xFF else f.byte x := by
  rw [parityStore_apply c hW hW32, byte_apply_program, length_parityImage]

def paritySys (c : Cfg) (len : Nat) (hW : 0 < c.W) (hW32 : c.W ≤ MAX_WORD_SIZE) (ht : len % c.W ≤ c.tailReadLen) : SlotSys where
  lo m := paritySlot c len m
  hi m := paritySlot c len m + nextMultipleOf len c.W
  store f m d := applyAccs f (parityStoreAccs c m d)
  get f m := parityGetVal c f m len
  ok m d := d.length = len ∧ (∀ b ∈ d, b < 256) ∧ paritySlot c len m + nextMultipleOf len c.W ≤ c.stop
  okIdx _ := True
  good f := WF f ∧ c.stop ≤ f.size
  good_store := by
    intro f m d hg _
    exact ⟨WF_applyAccs hg.1 _, by rw [size_applyAccs]; exact hg.2⟩
  disjoint := by
    intro m j h
    exact paritySlot_disjoint c len h
  frame_byte := by
    intro f m d x _ hok hx
    rw [byte_parityStore c hW hW32, hok.1, if_neg (by omega)]
  get_congr := by
    intro f g m _ h
    rw [parityGetVal_eq_read c hW f m len ht, parityGetVal_eq_read c hW g m len ht]
    apply read_congr
    intro x h1 h2
    have := le_nextMultipleOf len c.W
    exact h x h1 (by omega)
  ok_idx := fun _ => trivial
  roundtrip1 := by
    intro f m d hg hok her
    obtain ⟨hl, hb, hcap⟩ := hok
    rw [parityGetVal_eq_read c hW _ m len ht]
    apply List.ext_getElem?
    intro i
    rw [getElem?_read]
    by_cases hi : i < len
    · have hup := le_nextMultipleOf len c.W
      rw [if_pos hi, byte_parityStore c hW hW32, hl, if_pos ⟨by omega, by omega, by have := hg.2; omega⟩,
        her _ (by omega) (by omega)]
      have e : paritySlot c len m + i - paritySlot c len m = i := by omega
      rw [e, parityImage, List.getElem?_append_left (by omega), List.getElem?_eq_getElem (by omega)]
      simp only [Option.getD_some]
      rw [ff_and_of_lt (hb _ (List.getElem_mem _))]
    · rw [if_neg hi, List.getElem?_eq_none (by omega)]

/-! ## accesses -/

/-- the programs of `store`: aligned, multiples of `W`, inside the range, onto erased bytes -/
theorem parityStore_accs (c : Cfg) (hW : 0 < c.W) (hW32 : c.W ≤ MAX_WORD_SIZE) (hs : c.start % c.W = 0) (m : Nat)
    (data : List Nat) (hcap : paritySlot c data.length m + nextMultipleOf data.length c.W ≤ c.stop) :
    ∀ a ∈ parityStoreAccs c m data, (∃ addr bs, a = .program addr bs) ∧ a.aligned c ∧ a.inRange c := by
  have hdown := previousMultipleOf_eq (v := data.length) hW
  have hup := nextMultipleOf_eq_previous (v := data.length) hW
  have hml := Nat.mod_lt data.length hW
  have hmle := Nat.mod_le data.length c.W
  have hdm := previousMultipleOf_mod (v := data.length) hW
  have hsm := paritySlot_mod c hW hs data.length m
  have hl0 : (List.take (previousMultipleOf data.length c.W) data).length = previousMultipleOf data.length c.W := by
    rw [List.length_take]; omega
  have hge : c.start ≤ paritySlot c data.length m := by unfold paritySlot; omega
  have hupge := le_nextMultipleOf data.length c.W
  intro a ha
  simp only [parityStoreAccs, List.mem_append, List.mem_singleton] at ha
  rcases ha with rfl | ha
  · refine ⟨⟨_, _, rfl⟩, ⟨hsm, by rw [hl0]; exact hdm⟩, ?_⟩
    simp only [Acc.inRange, hl0]
    unfold paritySlot at hcap hge
    split at hup <;> omega
  · split at ha
    · rename_i hne
      rw [List.mem_singleton] at ha
      subst ha
      have hl1 : (List.drop (previousMultipleOf data.length c.W) data).length ≤ c.W := by
        rw [List.length_drop]; omega
      have hlt : ((List.drop (previousMultipleOf data.length c.W) data ++
          List.replicate (MAX_WORD_SIZE - (List.drop (previousMultipleOf data.length c.W) data).length) 0).take c.W).length = c.W := by
        rw [tail_buffer c.W hW32 _ _ hl1, List.length_append, List.length_replicate]; omega
      have hnz : data.length % c.W ≠ 0 := by
        intro h0
        apply hne
        have : previousMultipleOf data.length c.W = data.length := by omega
        rw [this, List.drop_length]
      rw [if_neg hnz] at hup
      refine ⟨⟨_, _, rfl⟩, ⟨?_, by rw [hlt]; exact Nat.mod_self _⟩, ?_⟩
      · rw [hl0]
        have : (c.start + m * nextMultipleOf data.length c.W) % c.W = 0 := hsm
        rw [Nat.add_mod, this, hdm]; simp
      · simp only [Acc.inRange, hlt, hl0]
        unfold paritySlot at hcap hge
        omega
    · cases ha

theorem parityStore_seqOk (c : Cfg) (hW : 0 < c.W) (f : Flash) (m : Nat) (data : List Nat)
    (her : Erased f (paritySlot c data.length m) (paritySlot c data.length m + nextMultipleOf data.length c.W)) :
    SeqOk f (parityStoreAccs c m data) := by
  have hdown := previousMultipleOf_eq (v := data.length) hW
  have hup := nextMultipleOf_eq_previous (v := data.length) hW
  have hml := Nat.mod_lt data.length hW
  have hmle := Nat.mod_le data.length c.W
  have hupge := le_nextMultipleOf data.length c.W
  have hl0 : (List.take (previousMultipleOf data.length c.W) data).length = previousMultipleOf data.length c.W := by
    rw [List.length_take]; omega
  simp only [parityStoreAccs]
  rw [SeqOk_append]
  unfold paritySlot at her
  refine ⟨⟨?_, trivial⟩, ?_⟩
  · intro i hi
    left
    rw [hl0] at hi
    exact her _ (by omega) (by omega)
  · split
    · rename_i hne
      have hnz : data.length % c.W ≠ 0 := by
        intro h0
        apply hne
        have : previousMultipleOf data.length c.W = data.length := by omega
        rw [this, List.drop_length]
      rw [if_neg hnz] at hup
      refine ⟨?_, trivial⟩
      intro i hi
      left
      rw [List.length_take] at hi
      simp only [applyAccs_cons, applyAccs_nil, applyAcc]
      rw [byte_apply_program_of_not_mem _ _ _ _ (by omega)]
      exact her _ (by omega) (by rw [hl0]; omega)
    · trivial

/-- the reads of `get`: aligned to the read size, inside the range -/
theorem parityGet_accs (c : Cfg) (hW : 0 < c.W) (hR : c.R ∣ c.W) (hs : c.start % c.W = 0) (m len : Nat)
    (ht : c.tailReadLen = c.R ∨ c.tailReadLen = c.W)
    (hcap : paritySlot c len m + nextMultipleOf len c.W ≤ c.stop) :
    ∀ a ∈ parityGetAccs c m len, (∃ addr n, a = .read addr n) ∧ a.aligned c ∧ a.inRange c := by
  have hdown := previousMultipleOf_eq (v := len) hW
  have hup := nextMultipleOf_eq_previous (v := len) hW
  have hml := Nat.mod_lt len hW
  have hmle := Nat.mod_le len c.W
  have hdm := previousMultipleOf_mod (v := len) hW
  have hsm := paritySlot_mod c hW hs len m
  have hge : c.start ≤ paritySlot c len m := by unfold paritySlot; omega
  have hupge := le_nextMultipleOf len c.W
  have hRW : c.R ≤ c.W := Nat.le_of_dvd hW hR
  intro a ha
  simp only [parityGetAccs, List.mem_append, List.mem_singleton] at ha
  unfold paritySlot at hsm hcap hge
  rcases ha with rfl | ha
  · refine ⟨⟨_, _, rfl⟩, ⟨mod_of_mod_of_dvd hR hsm, mod_of_mod_of_dvd hR hdm⟩, ?_⟩
    simp only [Acc.inRange]
    split at hup <;> omega
  · split at ha
    · rename_i hne
      rw [List.mem_singleton] at ha
      subst ha
      rw [if_neg (by omega)] at hup
      have hadd : (c.start + m * nextMultipleOf len c.W + previousMultipleOf len c.W) % c.W = 0 := by
        rw [Nat.add_mod, hsm, hdm]; simp
      refine ⟨⟨_, _, rfl⟩, ⟨mod_of_mod_of_dvd hR hadd, ?_⟩, ?_⟩
      · rcases ht with h | h <;> rw [h]
        · exact Nat.mod_self _
        · exact Nat.mod_eq_zero_of_dvd hR
      · simp only [Acc.inRange]
        rcases ht with h | h <;> rw [h] <;> omega
    · cases ha

end Fuota.FlashAdapters
