import Fuota.Lemmas.RingFlashCalls
/-!
# Ring ↔ flash, part 4: the remediation of `try_recover` (abort pass, erase pass) as header effects
-/
open Fuota.Nor Fuota.Fs Fuota.Layout Fuota.Updater Fuota.Slots
namespace Fuota.RingFlash
open Fuota.Ring (Used)



/-! ## remediation: the abort pass -/

def abortPairs (S a b : Nat) (l : List (Nat × Header)) : List (Op × Eff) :=
  l.filterMap fun p =>
    if p.1 = a ∨ p.1 = b then none
    else if totalStatus p.2 = TotalStatus.appWriteInProgress then
      some (.program (p.1 * S + 16) (writeU32 (encExt C .aborted)), (p.1, some { p.2 with ext := .aborted }))
    else none

/-- the programs of the abort pass of the remediation -/
def abortOps (S a b : Nat) (l : List (Nat × Header)) : List Op := (abortPairs S a b l).map (·.1)

theorem abortPairs_snd (S a b : Nat) (l : List (Nat × Header)) :
    (abortPairs S a b l).map (·.2) = Ring.effsOf (Ring.abortPhi a b) l := by
  unfold abortPairs Ring.effsOf Ring.abortPhi
  rw [List.map_filterMap]
  congr 1
  funext p
  split
  · rfl
  · split <;> rfl

theorem abort_refines {f : Flash} {n S a b : Nat} (hwf : Crash.WF f) (hS : 28 ≤ S) (hdev : n * S ≤ f.size) (k : Nat) :
    hdrsOf (f.applyAll ((abortOps S a b (indexed (hdrsOf f n S))).take k)) n S =
      applyAll (hdrsOf f n S) ((Ring.effsOf (Ring.abortPhi a b) (indexed (hdrsOf f n S))).take k) := by
  unfold abortOps
  rw [← abortPairs_snd S]
  apply marks_refine hS _ f hwf hdev
  · apply pairs_sorted _ (Ring.indexed_sorted _)
    intro p r hr
    split at hr
    · cases hr
    · split at hr
      · simp only [Option.some.injEq] at hr; rw [← hr]
      · cases hr
  · intro p hp
    unfold abortPairs at hp
    rw [List.mem_filterMap] at hp
    obtain ⟨q, hq, hφ⟩ := hp
    split at hφ
    · cases hφ
    · split at hφ
      · rename_i hst
        simp only [Option.some.injEq] at hφ
        subst hφ
        exact ⟨q.1, q.2, .aborted, rfl, Ring.mem_indexed.mp hq, Ring.status_inProgress_ext hst, rfl, rfl⟩
      · cases hφ

/-! ## remediation: the erase pass -/

/-- header effects that have taken place after `k` block erases, `m` blocks per slot -/
def ceilDiv (k m : Nat) : Nat := (k + m - 1) / m

theorem ceilDiv_zero (m : Nat) (hm : 1 ≤ m) : ceilDiv 0 m = 0 := by
  unfold ceilDiv
  exact Nat.div_eq_of_lt (by omega)

theorem ceilDiv_le (k m : Nat) (hm : 1 ≤ m) (h1 : 1 ≤ k) (h2 : k ≤ m) : ceilDiv k m = 1 := by
  unfold ceilDiv
  have : k + m - 1 = m + (k - 1) := by omega
  rw [this, Nat.add_div_left _ (by omega), Nat.div_eq_of_lt (by omega)]

theorem ceilDiv_step (k m : Nat) (hm : 1 ≤ m) (h : m < k) : ceilDiv k m = ceilDiv (k - m) m + 1 := by
  unfold ceilDiv
  have : k + m - 1 = (k - m + m - 1) + m := by omega
  rw [this, Nat.add_div_right _ (by omega)]

/-- the erases of the slots `ts`, one complete `Slot::clear` after the other -/
def clearsOps (S B : Nat) (ts : List Nat) : List Op := ts.flatMap fun t => Ops.eraseOps (t * S) B (S / B)

theorem clears_refine {n S B : Nat} (h28 : 28 ≤ B) (hS : 28 ≤ S) (hdiv : S % B = 0) : ∀ (ts : List Nat) (f : Flash),
    f.block = B → (∀ t ∈ ts, t < n) → ∀ k,
    hdrsOf (f.applyAll ((clearsOps S B ts).take k)) n S =
      applyAll (hdrsOf f n S) ((ts.map fun t => ((t, none) : Eff)).take (ceilDiv k (S / B))) := by
  have hmB : S / B * B = S := by
    have := Nat.div_add_mod S B; rw [Nat.mul_comm]; omega
  have hm : 1 ≤ S / B := by
    apply Nat.pos_of_ne_zero; intro e; rw [e] at hmB; omega
  intro ts
  induction ts with
  | nil => intro f _ _ k; simp [clearsOps, Flash.applyAll, applyAll]
  | cons t ts ih =>
    intro f hB hts k
    have ht := hts t List.mem_cons_self
    unfold clearsOps
    rw [List.flatMap_cons, List.take_append, Ops.applyAll_append, length_eraseOps]
    by_cases hk0 : k = 0
    · subst hk0
      rw [ceilDiv_zero _ hm]
      simp [Flash.applyAll, applyAll]
    by_cases hk1 : k ≤ S / B
    · rw [show k - S / B = 0 by omega, List.take_zero, ceilDiv_le k _ hm (by omega) hk1]
      show hdrsOf ((f.applyAll _).applyAll []) n S = _
      have := clear_prefix (n := n) hB h28 hS hdiv ht k
      rw [if_neg hk0] at this
      rw [List.map_cons, List.take_succ_cons, List.take_zero]
      exact this
    · rw [List.take_of_length_le (by rw [length_eraseOps]; omega), ceilDiv_step k _ hm (by omega),
        List.map_cons, List.take_succ_cons]
      have h1 : hdrsOf (f.applyAll (Ops.eraseOps (t * S) B (S / B))) n S = (hdrsOf f n S).set t none := by
        have := clear_prefix (n := n) hB h28 hS hdiv ht (S / B)
        rw [take_eraseOps, Nat.min_self, if_neg (by omega)] at this
        exact this
      have := ih (f.applyAll (Ops.eraseOps (t * S) B (S / B))) (by rw [applyAll_block, hB])
        (fun t' ht' => hts t' (List.mem_cons_of_mem _ ht')) (k - S / B)
      unfold clearsOps at this
      rw [this, h1]
      rfl



/-- the slots the erase pass of the remediation clears -/
def eraseSlots (a b : Nat) (l : List (Nat × Header)) : List Nat :=
  l.filterMap fun p =>
    if p.1 = a ∨ p.1 = b then none
    else if totalStatus p.2 = TotalStatus.bootloadWriteInProgress ∨ totalStatus p.2 = TotalStatus.invalidNeedsErase
      then some p.1 else none

theorem eraseSlots_effs (a b : Nat) (l : List (Nat × Header)) :
    (eraseSlots a b l).map (fun t => ((t, none) : Eff)) = Ring.effsOf (Ring.erasePhi a b) l := by
  unfold eraseSlots Ring.effsOf Ring.erasePhi
  rw [List.map_filterMap]
  congr 1
  funext p
  split
  · rfl
  · split <;> rfl

theorem eraseSlots_lt {a b n : Nat} {hs : Hdrs} (hlen : hs.length = n) : ∀ t ∈ eraseSlots a b (indexed hs), t < n := by
  intro t ht
  unfold eraseSlots at ht
  rw [List.mem_filterMap] at ht
  obtain ⟨p, hp, hφ⟩ := ht
  have hlt : p.1 < n := hlen ▸ Ring.used_lt (Ring.mem_indexed.mp hp)
  split at hφ
  · cases hφ
  · split at hφ
    · simp only [Option.some.injEq] at hφ; omega
    · cases hφ

theorem take_add_append {α : Type} (A E : List α) (c : Nat) : (A ++ E).take (A.length + c) = A ++ E.take c := by
  rw [List.take_append, List.take_of_length_le (by omega), Nat.add_sub_cancel_left]

/-- the flash operations of `try_recover` (two-pass remediation, or cancel-all when nothing is resumable) -/
def recoverOps (g : Geom) (S B : Nat) (hs : Hdrs) : List Op :=
  match recoverDecision g hs with
  | some (nw, sn) => abortOps S nw.1 sn.1 (indexed hs) ++ clearsOps S B (eraseSlots nw.1 sn.1 (indexed hs))
  | none => cancelOps S (indexed hs)

/-- header effects of `try_recover` that have taken place after `k` flash operations -/
def kappaRecover (g : Geom) (S B : Nat) (hs : Hdrs) (k : Nat) : Nat :=
  match recoverDecision g hs with
  | some (nw, sn) =>
    let la := (abortOps S nw.1 sn.1 (indexed hs)).length
    if k ≤ la then k else la + ceilDiv (k - la) (S / B)
  | none => k

/-- **`recover_refines`**: every prefix of the flash operations of `try_recover` is a prefix of the header effects
    of the machine's `recover` (aborts one to one; of the erases of a slot the first one is the header effect) -/
theorem recover_refines {f : Flash} {g : Geom} {n S B : Nat} (hwf : Crash.WF f) (hB : f.block = B) (h28 : 28 ≤ B)
    (hS : 28 ≤ S) (hdiv : S % B = 0) (hdev : n * S ≤ f.size) (k : Nat) :
    hdrsOf (f.applyAll ((recoverOps g S B (hdrsOf f n S)).take k)) n S =
      applyAll (hdrsOf f n S) ((recoverEffs g (hdrsOf f n S)).2.take (kappaRecover g S B (hdrsOf f n S) k)) := by
  unfold recoverOps kappaRecover recoverEffs
  cases hd : recoverDecision g (hdrsOf f n S) with
  | none =>
    simp only
    exact cancel_refines hwf hS hdev k
  | some d =>
    obtain ⟨nw, sn⟩ := d
    simp only
    unfold remediateEffs
    rw [Ring.remediateAbortEffs_eq, Ring.remediateEraseEffs_eq]
    have hlen : (abortOps S nw.1 sn.1 (indexed (hdrsOf f n S))).length =
        (Ring.effsOf (Ring.abortPhi nw.1 sn.1) (indexed (hdrsOf f n S))).length := by
      unfold abortOps
      rw [← abortPairs_snd S, List.length_map, List.length_map]
    rw [List.take_append, Ops.applyAll_append]
    by_cases hk : k ≤ (abortOps S nw.1 sn.1 (indexed (hdrsOf f n S))).length
    · rw [if_pos hk, show k - (abortOps S nw.1 sn.1 (indexed (hdrsOf f n S))).length = 0 by omega, List.take_zero]
      show hdrsOf ((f.applyAll _).applyAll []) n S = _
      rw [List.take_append, show k - (Ring.effsOf (Ring.abortPhi nw.1 sn.1) (indexed (hdrsOf f n S))).length = 0 by omega,
        List.take_zero, List.append_nil]
      exact abort_refines hwf hS hdev k
    · rw [if_neg hk, List.take_of_length_le (by omega)]
      have hA : hdrsOf (f.applyAll (abortOps S nw.1 sn.1 (indexed (hdrsOf f n S)))) n S =
          applyAll (hdrsOf f n S) (Ring.effsOf (Ring.abortPhi nw.1 sn.1) (indexed (hdrsOf f n S))) := by
        have := abort_refines (a := nw.1) (b := sn.1) hwf hS hdev (abortOps S nw.1 sn.1 (indexed (hdrsOf f n S))).length
        rw [List.take_length, hlen, List.take_length] at this
        exact this
      have hE := clears_refine (n := n) h28 hS hdiv (eraseSlots nw.1 sn.1 (indexed (hdrsOf f n S)))
        (f.applyAll (abortOps S nw.1 sn.1 (indexed (hdrsOf f n S)))) (by rw [applyAll_block, hB])
        (eraseSlots_lt (hdrsOf_length f n S)) (k - (abortOps S nw.1 sn.1 (indexed (hdrsOf f n S))).length)
      rw [hE, hA, eraseSlots_effs, hlen, take_add_append]
      unfold applyAll
      rw [List.foldl_append]


end Fuota.RingFlash
