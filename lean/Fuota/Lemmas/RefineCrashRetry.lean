import Fuota.Lemmas.RefineCrashCall
/-!
# Redelivering the fragment of an interrupted `handle_segment` call, and continuing the session
-/
namespace Fuota.Updater
open Fuota.Nor Fuota.Fs Fuota.FlashAdapters Fuota.Recon Fuota.Layout Fuota.Gf2

/-- **what "the redelivery repaired the interruption" means.** `(u, d)` is the state before the interrupted call,
`(w, e)` the state the fragment is delivered to again. The redelivery is answered as the uninterrupted delivery, the
session invariant holds afterwards (for the updater with its segment-size cache filled; an empty cache is fillable
from the header), both end states have the same abstraction, and the geometry is the one of `u`. -/
structure Repaired (ffr : Bool) (idx1 : Nat) (bytes : List Nat) (u : Upd) (d : Dev) (w : Upd) (e : Dev) : Prop where
  res : ((handleSegment ffr idx1 bytes).run (w, e)).1 = ((handleSegment ffr idx1 bytes).run (u, d)).1
  law : Lawful (warm ((handleSegment ffr idx1 bytes).run (w, e)).2.1) ((handleSegment ffr idx1 bytes).run (w, e)).2.2
  cache : CacheOK ((handleSegment ffr idx1 bytes).run (w, e)).2.1 ((handleSegment ffr idx1 bytes).run (w, e)).2.2
  lawff : Lawful ((handleSegment ffr idx1 bytes).run (u, d)).2.1 ((handleSegment ffr idx1 bytes).run (u, d)).2.2
  eqv : Fault.Eqv (abs ((handleSegment ffr idx1 bytes).run (w, e)).2) (abs ((handleSegment ffr idx1 bytes).run (u, d)).2)
  geo : ((handleSegment ffr idx1 bytes).run (w, e)).2.1.n = u.n ∧
    ((handleSegment ffr idx1 bytes).run (w, e)).2.1.bs = u.bs ∧
    ((handleSegment ffr idx1 bytes).run (w, e)).2.1.maxL = u.maxL
  geoff : ((handleSegment ffr idx1 bytes).run (u, d)).2.1.n = u.n ∧
    ((handleSegment ffr idx1 bytes).run (u, d)).2.1.bs = u.bs ∧
    ((handleSegment ffr idx1 bytes).run (u, d)).2.1.maxL = u.maxL
  keep : w.fw.segSize = some w.bs → ((handleSegment ffr idx1 bytes).run (w, e)).2.1.fw.segSize =
    some ((handleSegment ffr idx1 bytes).run (w, e)).2.1.bs

/-- if the cache was filled before the redelivery, the invariant holds for the updater as it is -/
theorem Repaired.lawful_of_warm {ffr : Bool} {idx1 : Nat} {bytes : List Nat} {u : Upd} {d : Dev} {w : Upd} {e : Dev}
    (R : Repaired ffr idx1 bytes u d w e) (hw : w.fw.segSize = some w.bs) :
    Lawful ((handleSegment ffr idx1 bytes).run (w, e)).2.1 ((handleSegment ffr idx1 bytes).run (w, e)).2.2 := by
  have := R.law
  rwa [warm_of_some (R.keep hw)] at this

/-- **after a repaired interruption every continuation behaves as in the uninterrupted session**: same answers to
every further fragment, same final abstraction -/
theorem Repaired.continuation {ffr : Bool} {idx1 : Nat} {bytes : List Nat} {u : Upd} {d : Dev} {w : Upd} {e : Dev}
    (R : Repaired ffr idx1 bytes u d w e) (frag : Nat → List Nat)
    (hfrag : ∀ i, IsBytes (frag i) ∧ (frag i).length = u.bs) (is : List Nat) (hidx : ∀ i ∈ is, i ≠ 0)
    (hrows : ∀ i ∈ is, (updaterRow ffr u.n (i - 1)).isSome = true) :
    (session ffr frag is ((handleSegment ffr idx1 bytes).run (w, e)).2).1 =
      (session ffr frag is ((handleSegment ffr idx1 bytes).run (u, d)).2).1 ∧
    Fault.Eqv (abs (session ffr frag is ((handleSegment ffr idx1 bytes).run (w, e)).2).2)
      (abs (session ffr frag is ((handleSegment ffr idx1 bytes).run (u, d)).2).2) := by
  obtain ⟨res, law, cache, lawff, eqv, ⟨g1, g2, g3⟩, ⟨f1, f2, f3⟩, _⟩ := R
  generalize (handleSegment ffr idx1 bytes).run (w, e) = A at *
  generalize (handleSegment ffr idx1 bytes).run (u, d) = B at *
  obtain ⟨ra, wa, ea⟩ := A
  obtain ⟨rb, ub, db⟩ := B
  simp only at *
  obtain ⟨w1, w2, w3⟩ := session_warm ffr frag is wa ea law cache (fun i => by rw [g2]; exact hfrag i)
    (fun i hi => by rw [g1]; exact hrows i hi)
  obtain ⟨s1, s2⟩ := session_equiv ffr frag is (u := ub) (d := db) (w := warm wa) (e := ea) lawff law
    (by rw [abs_warm]; exact eqv) (by show wa.maxL = ub.maxL; rw [g3, f3]) (fun i => by rw [f2]; exact hfrag i) hidx
    (fun i hi => by rw [f1]; exact hrows i hi)
  refine ⟨w1.trans s1, ?_⟩
  have : abs (session ffr frag is (wa, ea)).2 = abs (session ffr frag is (warm wa, ea)).2 := by
    rw [← abs_warm (session ffr frag is (wa, ea)).2.1 (session ffr frag is (wa, ea)).2.2, w3, w2]
  rw [this]
  exact s2

/-! ## from `handle_block` to `handle_segment` -/

/-- the answer of `handle_segment` for an answer of `handle_block` -/
def segRes : Except MErr (Option Bool) → Except MErr Outcome
  | .ok (some true) => .ok .complete
  | .ok _ => .ok .consumed
  | .error e => .error e

/-- `handle_segment` is `handle_block` with the answer translated and, on `Done`, the `complete` flag raised -/
theorem handleSegment_of_block (ffr : Bool) (idx1 : Nat) (bytes : List Nat) (h : idx1 ≠ 0) (s : Upd × Dev) :
    ((handleSegment ffr idx1 bytes).run s).1 = segRes ((handleBlock ffr (idx1 - 1) bytes).run s).1 ∧
    ((handleSegment ffr idx1 bytes).run s).2.2 = ((handleBlock ffr (idx1 - 1) bytes).run s).2.2 ∧
    (((handleSegment ffr idx1 bytes).run s).2.1 = ((handleBlock ffr (idx1 - 1) bytes).run s).2.1 ∨
      ((handleSegment ffr idx1 bytes).run s).2.1 =
        { ((handleBlock ffr (idx1 - 1) bytes).run s).2.1 with complete := true }) := by
  rw [handleSegment_run ffr idx1 bytes h]
  generalize (handleBlock ffr (idx1 - 1) bytes).run s = q
  obtain ⟨res, s'⟩ := q
  cases res with
  | error e => exact ⟨rfl, rfl, Or.inl rfl⟩
  | ok o =>
    cases o with
    | none => exact ⟨rfl, rfl, Or.inl rfl⟩
    | some b => cases b
                · exact ⟨rfl, rfl, Or.inl rfl⟩
                · exact ⟨rfl, rfl, Or.inr rfl⟩

/-- an error of `handle_segment` is an error of `handle_block`, with the same state -/
theorem handleSegment_error (ffr : Bool) (idx1 : Nat) (bytes : List Nat) (h : idx1 ≠ 0) (s : Upd × Dev) (er : MErr)
    (he : ((handleSegment ffr idx1 bytes).run s).1 = .error er) :
    (handleBlock ffr (idx1 - 1) bytes).run s = (.error er, ((handleSegment ffr idx1 bytes).run s).2) := by
  rw [handleSegment_run ffr idx1 bytes h] at he ⊢
  generalize (handleBlock ffr (idx1 - 1) bytes).run s = q at *
  obtain ⟨res, s'⟩ := q
  cases res with
  | error e => simp only at he ⊢; rw [Except.error.inj he]
  | ok o =>
    cases o with
    | none => cases he
    | some b => cases b <;> cases he

/-- conversely -/
theorem handleSegment_of_error (ffr : Bool) (idx1 : Nat) (bytes : List Nat) (h : idx1 ≠ 0) (s s' : Upd × Dev)
    (er : MErr) (he : (handleBlock ffr (idx1 - 1) bytes).run s = (.error er, s')) :
    (handleSegment ffr idx1 bytes).run s = (.error er, s') := by
  rw [handleSegment_run ffr idx1 bytes h, he]

/-- and an answer of `handle_block` gives an answer of `handle_segment` -/
theorem handleSegment_of_ok (ffr : Bool) (idx1 : Nat) (bytes : List Nat) (h : idx1 ≠ 0) (s s' : Upd × Dev)
    (o : Option Bool) (he : (handleBlock ffr (idx1 - 1) bytes).run s = (.ok o, s')) :
    ∃ o' s'', (handleSegment ffr idx1 bytes).run s = (.ok o', s'') := by
  rw [handleSegment_run ffr idx1 bytes h, he]
  cases o with
  | none => exact ⟨_, _, rfl⟩
  | some b => cases b <;> exact ⟨_, _, rfl⟩

/-- raising the `complete` flag keeps everything `Repaired` speaks about -/
theorem repaired_core {u : Upd} (A B : Except MErr Outcome × (Upd × Dev))
    (A' B' : Except MErr (Option Bool) × (Upd × Dev))
    (a1 : A.1 = segRes A'.1) (a2 : A.2.2 = A'.2.2) (a3 : A.2.1 = A'.2.1 ∨ A.2.1 = { A'.2.1 with complete := true })
    (b1 : B.1 = segRes B'.1) (b2 : B.2.2 = B'.2.2) (b3 : B.2.1 = B'.2.1 ∨ B.2.1 = { B'.2.1 with complete := true })
    (res : A'.1 = B'.1) (law : Lawful (warm A'.2.1) A'.2.2) (cache : CacheOK A'.2.1 A'.2.2)
    (lawff : Lawful B'.2.1 B'.2.2) (eqv : Fault.Eqv (abs A'.2) (abs B'.2))
    (geo : A'.2.1.n = u.n ∧ A'.2.1.bs = u.bs ∧ A'.2.1.maxL = u.maxL)
    (geoff : B'.2.1.n = u.n ∧ B'.2.1.bs = u.bs ∧ B'.2.1.maxL = u.maxL)
    (P : Prop) (keep : P → A'.2.1.fw.segSize = some A'.2.1.bs) :
    (P → A.2.1.fw.segSize = some A.2.1.bs) ∧ A.1 = B.1 ∧ Lawful (warm A.2.1) A.2.2 ∧ CacheOK A.2.1 A.2.2 ∧ Lawful B.2.1 B.2.2 ∧
    Fault.Eqv (abs A.2) (abs B.2) ∧ (A.2.1.n = u.n ∧ A.2.1.bs = u.bs ∧ A.2.1.maxL = u.maxL) ∧
    (B.2.1.n = u.n ∧ B.2.1.bs = u.bs ∧ B.2.1.maxL = u.maxL) := by
  obtain ⟨ra, wa, ea⟩ := A
  obtain ⟨rb, ub, db⟩ := B
  obtain ⟨ra', wa', ea'⟩ := A'
  obtain ⟨rb', ub', db'⟩ := B'
  simp only at *
  subst a2 b2
  have habs : ∀ (x y : Upd) (z : Dev), (x = y ∨ x = { y with complete := true }) → abs (x, z) = abs (y, z) := by
    intro x y z hxy
    rcases hxy with rfl | rfl <;> rfl
  refine ⟨?_, by rw [a1, b1, res], ?_, ?_, ?_, by rw [habs _ _ _ a3, habs _ _ _ b3]; exact eqv, ?_, ?_⟩
  · intro hP
    rcases a3 with rfl | rfl <;> exact keep hP
  · rcases a3 with rfl | rfl
    · exact law
    · exact law.setComplete true
  · rcases a3 with rfl | rfl
    · exact cache
    · exact cache
  · rcases b3 with rfl | rfl
    · exact lawff
    · exact lawff.setComplete true
  · rcases a3 with rfl | rfl <;> exact geo
  · rcases b3 with rfl | rfl <;> exact geoff

/-- the facts of `Repaired`, established for `handle_block`, hold for `handle_segment` -/
theorem Repaired.of_block {ffr : Bool} {idx1 : Nat} {bytes : List Nat} {u : Upd} {d : Dev} {w : Upd} {e : Dev}
    (h : idx1 ≠ 0)
    (res : ((handleBlock ffr (idx1 - 1) bytes).run (w, e)).1 = ((handleBlock ffr (idx1 - 1) bytes).run (u, d)).1)
    (law : Lawful (warm ((handleBlock ffr (idx1 - 1) bytes).run (w, e)).2.1)
      ((handleBlock ffr (idx1 - 1) bytes).run (w, e)).2.2)
    (cache : CacheOK ((handleBlock ffr (idx1 - 1) bytes).run (w, e)).2.1
      ((handleBlock ffr (idx1 - 1) bytes).run (w, e)).2.2)
    (lawff : Lawful ((handleBlock ffr (idx1 - 1) bytes).run (u, d)).2.1
      ((handleBlock ffr (idx1 - 1) bytes).run (u, d)).2.2)
    (eqv : Fault.Eqv (abs ((handleBlock ffr (idx1 - 1) bytes).run (w, e)).2)
      (abs ((handleBlock ffr (idx1 - 1) bytes).run (u, d)).2))
    (geo : ((handleBlock ffr (idx1 - 1) bytes).run (w, e)).2.1.n = u.n ∧
      ((handleBlock ffr (idx1 - 1) bytes).run (w, e)).2.1.bs = u.bs ∧
      ((handleBlock ffr (idx1 - 1) bytes).run (w, e)).2.1.maxL = u.maxL)
    (geoff : ((handleBlock ffr (idx1 - 1) bytes).run (u, d)).2.1.n = u.n ∧
      ((handleBlock ffr (idx1 - 1) bytes).run (u, d)).2.1.bs = u.bs ∧
      ((handleBlock ffr (idx1 - 1) bytes).run (u, d)).2.1.maxL = u.maxL)
    (keep : w.fw.segSize = some w.bs → ((handleBlock ffr (idx1 - 1) bytes).run (w, e)).2.1.fw.segSize =
      some ((handleBlock ffr (idx1 - 1) bytes).run (w, e)).2.1.bs) :
    Repaired ffr idx1 bytes u d w e := by
  obtain ⟨a1, a2, a3⟩ := handleSegment_of_block ffr idx1 bytes h (w, e)
  obtain ⟨b1, b2, b3⟩ := handleSegment_of_block ffr idx1 bytes h (u, d)
  obtain ⟨c0, c1, c2, c3, c4, c5, c6, c7⟩ :=
    repaired_core _ _ _ _ a1 a2 a3 b1 b2 b3 res law cache lawff eqv geo geoff _ keep
  exact ⟨c1, c2, c3, c4, c5, c6, c7, c0⟩

/-! ## the two kinds of interrupted stores, repaired -/

/-- the stage adjustment only changes `l` -/
theorem adjU_fields (u : Upd) (i : Nat) :
    (adjU u i).fw = u.fw ∧ (adjU u i).par = u.par ∧ (adjU u i).n = u.n ∧ (adjU u i).bs = u.bs ∧
    (adjU u i).done = u.done ∧ (adjU u i).used = u.used ∧ (adjU u i).maxL = u.maxL ∧
    (adjU u i).matrixOffset = u.matrixOffset := by
  unfold adjU
  split <;> exact ⟨rfl, rfl, rfl, rfl, rfl, rfl, rfl, rfl⟩

/-- **a stage-1 store, interrupted before or between its two programs, is repaired by redelivery** on any state
that stands for the same session and whose flash is the old one, possibly with the data of the segment programmed -/
theorem repair_store1 (ffr : Bool) {u : Upd} {d : Dev} {index : Nat} {bytes : List Nat}
    (S : Stage1Store u d index bytes) (hrow : (updaterRow ffr u.n index).isSome = true) {w : Upd} {e : Dev}
    (hG : Good e) (hf : e.flash = d.flash ∨ e.flash = d.flash.apply (.program (segAddr u index) bytes))
    (hR : SameRegions u w) (hl : w.l = u.l) (hd : w.done = u.done) (hu : w.used = u.used) (hc : CacheOK w e) :
    Repaired ffr (index + 1) bytes u d w e := by
  obtain ⟨r1, r2, r3, r4, r5⟩ := redeliver_stage1 ffr S hrow hG hf hR hl hd hu hc
  obtain ⟨_, _, t3, t4, t5, _⟩ :=
    (handleSegment_lawful ffr (index + 1) bytes S.law S.bytes S.len (by rw [Nat.add_sub_cancel]; exact hrow)).2
  have hseg := r2.base.geo.hseg
  refine ⟨r1, by rw [warm_of_some hseg]; exact r2, Or.inl hseg, r3, r4, ⟨?_, ?_, ?_⟩, ⟨t3, t4, t5⟩, fun _ => hseg⟩
  · exact (show _ = _ from r4.1).trans t3
  · exact (show _ = _ from r4.2.1).trans t4
  · exact r5.trans t5

/-- **a stage-2 pivot store, interrupted before or between its two programs, is repaired by redelivery** on any state
that stands for the same session (with the stage of the old updater before or after its adjustment) and whose flash
is the old one, possibly with the block of the new pivot programmed and its row not -/
theorem repair_store2 (ffr : Bool) {u : Upd} {d : Dev} {index : Nat} {bytes : List Nat} {r p row' : Nat}
    {data' : List Nat} (hlen : bytes.length = u.bs) (hinc : rcComplete u = false) (hnt : ¬ tooManyCond u index)
    (hl0 : (adjU u index).l ≠ 0) (S : Stage2Store ffr (adjU u index) d index bytes r p row' data') {w : Upd}
    {e : Dev} (hG : Good e)
    (hf : e.flash = d.flash ∨ e.flash = d.flash.apply (.program (pAddr (adjU u index) p) data'))
    (hR : SameRegions u w) (hlw : w.l = u.l ∨ w.l = (adjU u index).l) (hd : w.done = u.done)
    (hu : w.used = u.used) (hc : CacheOK w e) :
    Repaired ffr (index + 1) bytes u d w e := by
  obtain ⟨f1, f2, f3, f4, f5, f6, f7, f8⟩ := adjU_fields u index
  obtain ⟨g1, g2, g3, g4, g5, g6, g7, g8⟩ := adjU_fields w index
  obtain ⟨hp, _, hup, _, _⟩ := S.facts
  have hR1 : SameRegions (adjU u index) (adjU w index) :=
    ⟨by rw [g1, f1, hR.fi], by rw [g1, f1, hR.fs], by rw [g2, f2, hR.pi], by rw [g2, f2, hR.ps], by rw [g3, f3, hR.n],
      by rw [g4, f4, hR.bs], by rw [g7, f7, hR.maxL], by rw [g8, f8, hR.mo]⟩
  have hl1 : (adjU w index).l = (adjU u index).l := by
    rcases hlw with h | h
    · unfold adjU
      by_cases hpar : u.n ≤ index ∧ u.l = 0
      · rw [if_pos hpar, if_pos (by rw [hR.n, h]; exact hpar)]
        show (unknowns w.done w.n).length = (unknowns u.done u.n).length
        rw [hd, hR.n]
      · rw [if_neg hpar, if_neg (by rw [hR.n, h]; exact hpar)]
        exact h
    · have : adjU w index = w := by
        unfold adjU; rw [if_neg (fun hh => hl0 (by rw [← h]; exact hh.2))]
      rw [this]; exact h
  have hincw : rcComplete w = false := by
    rcases hlw with h | h
    · rw [← hinc]; simp only [rcComplete, h, hR.n, hd, hu]
    · exact rcComplete_stage2_false (by rw [h]; exact hl0) (p := p) (by rw [h]; exact hp) (by rw [hu, ← f6]; exact hup)
  have hntw : ¬ tooManyCond w index := by
    rcases hlw with h | h
    · intro hh
      exact hnt ⟨by rw [← hR.n]; exact hh.1, by rw [← h]; exact hh.2.1, by
        have := hh.2.2; rwa [hd, hR.n, hR.maxL] at this⟩
    · intro hh
      exact hl0 (by rw [← h]; exact hh.2.1)
  have hc1 : CacheOK (adjU w index) e := by
    unfold adjU; split
    · exact hc
    · exact hc
  obtain ⟨c1, c2, c3, c4, c5, ⟨c6, c7, c8⟩, ⟨_, _, d3, d4, d5, _⟩, c9⟩ :=
    S.redeliver hG hf hR1 hl1 (by rw [g5, f5, hd]) (by rw [g6, f6, hu]) hc1
  have ew := handleBlock_stage2_eq ffr w e index bytes (by rw [hR.bs]; exact hlen) hincw hntw (by rw [hl1]; exact hl0)
  have eu := handleBlock_stage2_eq ffr u d index bytes hlen hinc hnt hl0
  rw [← ew, ← eu] at c1 c5
  rw [← ew] at c2 c3 c6 c7 c8 c9
  rw [← eu] at c4 d3 d4 d5
  refine Repaired.of_block (by omega) ?_ ?_ ?_ ?_ ?_ ⟨?_, ?_, ?_⟩ ⟨?_, ?_, ?_⟩ ?_ <;>
    simp only [Nat.add_sub_cancel]
  · exact c1
  · exact c2
  · exact c3
  · exact c4
  · exact c5
  · rw [c6, g3, hR.n]
  · rw [c7, g4, hR.bs]
  · rw [c8, g7, hR.maxL]
  · rw [d3, f3]
  · rw [d4, f4]
  · rw [d5, f7]
  · intro hw
    exact c9 (by rw [g1, g4]; exact hw)

end Fuota.Updater
