import Fuota.Lemmas.RefineCrashRecover
/-!
# Stage 2 up to its first write, on any powered device: what is read is a function of the flash contents
-/
namespace Fuota.Updater
open Fuota.Nor Fuota.Fs Fuota.FlashAdapters Fuota.Recon Fuota.Layout

/-! ## the stores as single reads and programs (as computations, on any device) -/

/-- `read_segment i` is one read at the segment's address -/
theorem readSegment_eq {u : Upd} {fsz : Nat} (g : Geo u fsz) {i : Nat} (hi : i < u.n) :
    u.fw.readSegment i u.bs = readTo (segAddr u i) u.bs := by
  obtain ⟨h1, h2, h3, _⟩ := g.slots
  obtain ⟨h4, h5⟩ := g.seg hi
  have hbs := g.hbs
  unfold Slot.readSegment Slot.segmentSize
  have e1 : ¬ i > MAX_SEGMENTS := by show ¬ i > 16384; omega
  have e2 : ¬ (DATA_REGION_OFFSET + i * u.bs > u.fw.size) := by show ¬ (17408 + i * u.bs > u.fw.size); omega
  have e3 : ¬ u.bs = 0 := by omega
  have ea : u.fw.idx * u.fw.size + (DATA_REGION_OFFSET + i * u.bs) = segAddr u i := by
    simp only [segAddr, fwBase]; show _ + (17408 + _) = _; omega
  simp only [g.hseg, pure_bind, e1, e2, e3, ↓reduceIte, Nat.min_self, ea]

/-- `pGet m` is one read at the block's address -/
theorem pGet_eq {u : Upd} {fsz : Nat} (g : Geo u fsz) {m : Nat} (hm : m < u.maxL) :
    pGet u m u.bs = readTo (pAddr u m) u.bs := by
  obtain ⟨h1, h2, _, h3, _, _, h4⟩ := g.slots
  have h5 := g.pblock hm
  unfold pGet Slot.readRaw
  have e1 : ¬ (u.par.size - HEADER_SIZE < m * u.bs + u.bs) := by
    show ¬ (u.par.size - 1024 < m * u.bs + u.bs); omega
  have ea : u.par.idx * u.par.size + HEADER_SIZE + m * u.bs = pAddr u m := by
    simp only [pAddr, parBase]; rfl
  simp only [hm, not_true_eq_false, e1, ↓reduceIte, ea]

/-- `pStore m buf` is one program at the block's address -/
theorem pStore_eq {u : Upd} {fsz : Nat} (g : Geo u fsz) {m : Nat} (hm : m < u.maxL) (buf : List Nat)
    (hlen : buf.length = u.bs) : pStore u m buf = writeFrom (pAddr u m) buf := by
  obtain ⟨h1, h2, _, h3, _, _, h4⟩ := g.slots
  have h5 := g.pblock hm
  unfold pStore Slot.writeRaw
  have e1 : ¬ (u.par.size - HEADER_SIZE < m * buf.length + buf.length) := by
    rw [hlen]; show ¬ (u.par.size - 1024 < m * u.bs + u.bs); omega
  have ea : u.par.idx * u.par.size + HEADER_SIZE + m * buf.length = pAddr u m := by
    rw [hlen]; simp only [pAddr, parBase]; rfl
  simp only [hm, not_true_eq_false, e1, ↓reduceIte, ea]

/-- `mRow m` is one read at the row's address -/
theorem mRow_eq {u : Upd} {fsz : Nat} (g : Geo u fsz) {m : Nat} (hm : m < u.maxL) :
    mRow u m = (readTo (rAddr u m) (m / 8 + 1) >>= fun raw => pure (bytesToNat (flipBit raw m))) := by
  obtain ⟨h1, h2, _, h3, _, _, h4⟩ := g.slots
  obtain ⟨h5, h6⟩ := g.row hm
  have hmo := g.hmo
  unfold mRow Slot.readRaw
  have e0 : ¬ (m / 8 + 1 > 256) := by omega
  have e1 : ¬ (u.par.size - HEADER_SIZE < u.matrixOffset + rowOff m + (m / 8 + 1)) := by
    show ¬ (u.par.size - 1024 < _); omega
  have ea : u.par.idx * u.par.size + HEADER_SIZE + (u.matrixOffset + rowOff m) = rAddr u m := by
    simp only [rAddr, parBase]; show _ + 1024 + _ = _; omega
  simp only [hm, not_true_eq_false, e0, e1, ↓reduceIte, ea]

/-- `mSetRow m row` is one program at the row's address -/
theorem mSetRow_eq {u : Upd} {fsz : Nat} (g : Geo u fsz) {m : Nat} (hm : m < u.maxL) (row : Nat) :
    mSetRow u m row = writeFrom (rAddr u m) (rowBytes m row) := by
  obtain ⟨h1, h2, _, h3, _, _, h4⟩ := g.slots
  obtain ⟨h5, h6⟩ := g.row hm
  have hmo := g.hmo
  have hlen : (rowBytes m row).length = m / 8 + 1 := by simp [rowBytes, length_flipBit, length_natToBytes]
  unfold mSetRow Slot.writeRaw
  have e0 : ¬ (m / 8 + 1 > 256) := by omega
  have e1 : ¬ (u.par.size - HEADER_SIZE < u.matrixOffset + rowOff m + (rowBytes m row).length) := by
    rw [hlen]; show ¬ (u.par.size - 1024 < _); omega
  have ea : u.par.idx * u.par.size + HEADER_SIZE + (u.matrixOffset + rowOff m) = rAddr u m := by
    simp only [rAddr, parBase]; show _ + 1024 + _ = _; omega
  unfold rowBytes at e1
  simp only [hm, not_true_eq_false, e0, e1, ↓reduceIte, ea]
  rfl

/-! ## what `strip` and the elimination loop compute, as functions of the flash contents -/

/-- the buffer `strip` returns -/
def stripF (u : Upd) (f : Flash) (row : Nat) : List Nat → List Nat → List Nat
  | [], d => d
  | i :: is, d =>
    if row.testBit i && u.done.testBit i then stripF u f row is (xorBytes d (f.read (segAddr u i) u.bs))
    else stripF u f row is d

/-- the decision of the elimination loop: `none` when the row reduces to zero, else the pivot with the reduced row
    and block that are to be stored -/
def elimF (u : Upd) (f : Flash) : Nat → Nat → List Nat → Option (Nat × Nat × List Nat)
  | 0, _, _ => none
  | wh + 1, row, data =>
    if row.testBit wh && u.used.testBit wh then
      elimF u f wh (row ^^^ bytesToNat (flipBit (f.read (rAddr u wh) (wh / 8 + 1)) wh))
        (xorBytes data (f.read (pAddr u wh) u.bs))
    else if row.testBit wh then some (wh, row, data)
    else elimF u f wh row data

/-- the two programs that store a new pivot: block, then row -/
def pairStore (u : Upd) (p row : Nat) (data : List Nat) : M Nat := do
  pStore u p data
  mSetRow u p row
  pure (u.used ||| 2 ^ p)

/-- the length of the stripped buffer -/
theorem length_stripF (u : Upd) (f : Flash) (row : Nat) : ∀ (is : List Nat) (d : List Nat),
    (stripF u f row is d).length = d.length
  | [], d => rfl
  | i :: is, d => by
    unfold stripF
    split
    · rw [length_stripF u f row is, length_xorBytes]
    · exact length_stripF u f row is d

/-- `strip` on a powered device of accepted geometry only reads and returns `stripF` -/
theorem strip_run_live {u : Upd} {d : Dev} (g : Geo u d.flash.size) (hlive : d.dead = false)
    (hdone : ∀ i, u.done.testBit i = true → i < u.n) (row : Nat) : ∀ (is : List Nat) (data : List Nat),
    (strip u row is data).run d = (.ok (stripF u d.flash row is data), d)
  | [], data => rfl
  | i :: is, data => by
    unfold strip stripF
    by_cases h : (row.testBit i && u.done.testBit i) = true
    · have hd : u.done.testBit i = true := by simp at h; exact h.2
      have hin := hdone i hd
      obtain ⟨r1, r2, r3, r4⟩ := g.regions.1 i hin
      obtain ⟨h1, h2, h3, _⟩ := g.slots
      simp only [h, ↓reduceIte, run_bind, readSegment_eq g hin]
      rw [readTo_run_live hlive _ _ (by omega)]
      exact strip_run_live g hlive hdone row is _
    · simp only [h, Bool.false_eq_true, ↓reduceIte]
      exact strip_run_live g hlive hdone row is data

/-- the elimination loop on a powered device of accepted geometry reads until the pivot is decided, then does the
    two programs (or nothing) -/
theorem elim_run_live {u : Upd} {d : Dev} (g : Geo u d.flash.size) (hlive : d.dead = false) : ∀ (wh row : Nat)
    (data : List Nat), wh ≤ u.maxL → data.length = u.bs →
    (Updater.elim u wh row data).run d =
      match elimF u d.flash wh row data with
      | none => (.ok u.used, d)
      | some (p, row', data') => (pairStore u p row' data').run d
  | 0, row, data, _, _ => rfl
  | wh + 1, row, data, hwh, hlen => by
    have hm : wh < u.maxL := by omega
    obtain ⟨r1, r2, r3, r4⟩ := g.regions.2 wh hm
    obtain ⟨h1, h2, _, h3, _, _, h4⟩ := g.slots
    unfold Updater.elim elimF
    by_cases h : (row.testBit wh && u.used.testBit wh) = true
    · simp only [h, ↓reduceIte, run_bind, hlen, pGet_eq g hm, mRow_eq g hm, run_pure]
      rw [readTo_run_live hlive _ _ (by omega)]
      simp only
      rw [readTo_run_live hlive _ _ (by omega)]
      simp only
      exact elim_run_live g hlive wh _ _ (by omega) (by rw [length_xorBytes]; exact hlen)
    · simp only [h, Bool.false_eq_true, ↓reduceIte]
      by_cases h2 : row.testBit wh = true
      · simp only [h2, ↓reduceIte]
        rfl
      · simp only [h2, Bool.false_eq_true, ↓reduceIte]
        exact elim_run_live g hlive wh row data (by omega) hlen

/-- what the decision of the elimination loop satisfies: the pivot is below the start, not yet used, the leading
    bit of the reduced row, and the reduced block keeps the length -/
theorem elimF_some {u : Upd} {f : Flash} : ∀ (wh row : Nat) (data : List Nat) {p row' : Nat} {data' : List Nat},
    elimF u f wh row data = some (p, row', data') →
    p < wh ∧ u.used.testBit p = false ∧ row'.testBit p = true ∧ data'.length = data.length
  | 0, _, _, _, _, _, h => by simp [elimF] at h
  | wh + 1, row, data, p, row', data', h => by
    unfold elimF at h
    by_cases h1 : (row.testBit wh && u.used.testBit wh) = true
    · rw [if_pos h1] at h
      obtain ⟨a, b, c, e⟩ := elimF_some wh _ _ h
      exact ⟨by omega, b, c, by rw [e, length_xorBytes]⟩
    · rw [if_neg h1] at h
      by_cases h2 : row.testBit wh = true
      · rw [if_pos h2] at h
        simp only [Option.some.injEq, Prod.mk.injEq] at h
        obtain ⟨rfl, rfl, rfl⟩ := h
        refine ⟨by omega, ?_, h2, rfl⟩
        cases hu : u.used.testBit wh with
        | false => rfl
        | true => simp [h2, hu] at h1
      · rw [if_neg h2] at h
        obtain ⟨a, b, c, e⟩ := elimF_some wh _ _ h
        exact ⟨by omega, b, c, e⟩

/-! ## these functions only look at present segments and stored pivots -/

/-- `stripF` only looks at the segments in `done` -/
theorem stripF_congr (u : Upd) (f f' : Flash) (row : Nat)
    (h : ∀ i, u.done.testBit i = true → f'.read (segAddr u i) u.bs = f.read (segAddr u i) u.bs) :
    ∀ (is : List Nat) (d : List Nat), stripF u f' row is d = stripF u f row is d
  | [], d => rfl
  | i :: is, d => by
    unfold stripF
    by_cases hc : (row.testBit i && u.done.testBit i) = true
    · have hd : u.done.testBit i = true := by simp at hc; exact hc.2
      rw [if_pos hc, if_pos hc, h i hd]
      exact stripF_congr u f f' row h is _
    · rw [if_neg hc, if_neg hc]
      exact stripF_congr u f f' row h is d

/-- `elimF` only looks at the blocks and rows of pivots in `used` -/
theorem elimF_congr (u : Upd) (f f' : Flash)
    (h : ∀ m, u.used.testBit m = true → f'.read (pAddr u m) u.bs = f.read (pAddr u m) u.bs ∧
      f'.read (rAddr u m) (m / 8 + 1) = f.read (rAddr u m) (m / 8 + 1)) :
    ∀ (wh row : Nat) (data : List Nat), elimF u f' wh row data = elimF u f wh row data
  | 0, _, _ => rfl
  | wh + 1, row, data => by
    unfold elimF
    by_cases hc : (row.testBit wh && u.used.testBit wh) = true
    · have hu : u.used.testBit wh = true := by simp at hc; exact hc.2
      rw [if_pos hc, if_pos hc, (h wh hu).1, (h wh hu).2]
      exact elimF_congr u f f' h wh _ _
    · rw [if_neg hc, if_neg hc]
      by_cases h2 : row.testBit wh = true
      · rw [if_pos h2, if_pos h2]
      · rw [if_neg h2, if_neg h2]
        exact elimF_congr u f f' h wh row data

end Fuota.Updater
