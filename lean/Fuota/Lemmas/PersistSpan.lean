import Fuota.Lemmas.Span
/-!
# Full rank over the unknown columns = all unit vectors over all columns, given the known blocks

`project done n` is the quotient by the known columns. The `Done` condition of C03 (d) — the projected rows span
every unit vector of the unknown space — is the same as: together with the unit rows of the known blocks, the
unprojected rows span every unit vector below `n`. The second form does not depend on *when* `done` was frozen, which
is what a reboot in the corner changes.
-/
namespace Fuota.Gf2
open Fuota.Recon

/-- the unit rows of the blocks already present -/
def knownUnits (done n : Nat) : List Nat := ((List.range n).filter done.testBit).map (2 ^ ·)

theorem mem_knownUnits (done n m : Nat) (hm : m < n) (hd : done.testBit m = true) : 2 ^ m ∈ knownUnits done n := by
  simp only [knownUnits, List.mem_map, List.mem_filter, List.mem_range]
  exact ⟨m, ⟨hm, hd⟩, rfl⟩

theorem knownUnits_bit {done n r : Nat} (hr : r ∈ knownUnits done n) :
    ∃ d, d < n ∧ done.testBit d = true ∧ r = 2 ^ d := by
  simp only [knownUnits, List.mem_map, List.mem_filter, List.mem_range] at hr
  obtain ⟨d, ⟨h1, h2⟩, rfl⟩ := hr
  exact ⟨d, h1, h2, rfl⟩

/-! ## generalities on spans -/

/-- a linear map sends spans to spans -/
theorem InSpan.map {rows : List Nat} {v : Nat} (f : Nat → Nat) (f0 : f 0 = 0)
    (fx : ∀ a b, f (a ^^^ b) = f a ^^^ f b) (h : InSpan rows v) : InSpan (rows.map f) (f v) := by
  obtain ⟨sel, hs, rfl⟩ := h
  refine ⟨sel.map f, hs.map f, ?_⟩
  clear hs
  induction sel with
  | nil => simp [Gf2.xorAll, f0]
  | cons r sel ih => simp only [List.map_cons, Gf2.xorAll, fx, ih]

/-- a bit that no generator has is not in the span -/
theorem InSpan.testBit_false {rows : List Nat} {v m : Nat} (h : InSpan rows v)
    (hr : ∀ r ∈ rows, r.testBit m = false) : v.testBit m = false := by
  obtain ⟨sel, hs, rfl⟩ := h
  have : ∀ r ∈ sel, r.testBit m = false := fun r hrs => hr r (hs.subset hrs)
  clear hs
  induction sel with
  | nil => simp [Gf2.xorAll]
  | cons r sel ih =>
    simp only [Gf2.xorAll, Nat.testBit_xor]
    rw [this r List.mem_cons_self, ih (fun r' hr' => this r' (List.mem_cons_of_mem _ hr'))]
    rfl

/-- a bound that all generators obey is obeyed by the span -/
theorem InSpan.lt_two_pow {rows : List Nat} {v n : Nat} (h : InSpan rows v) (hr : ∀ r ∈ rows, r < 2 ^ n) :
    v < 2 ^ n := by
  obtain ⟨sel, hs, rfl⟩ := h
  have : ∀ r ∈ sel, r < 2 ^ n := fun r hrs => hr r (hs.subset hrs)
  clear hs
  induction sel with
  | nil => simp only [Gf2.xorAll]; exact Nat.two_pow_pos n
  | cons r sel ih =>
    simp only [Gf2.xorAll]
    exact Nat.xor_lt_two_pow (this r List.mem_cons_self) (ih (fun r' hr' => this r' (List.mem_cons_of_mem _ hr')))

/-- spans with the same generators (as sets) coincide -/
theorem inSpan_congr_set {rows rows' : List Nat} (h : ∀ r, r ∈ rows ↔ r ∈ rows') (v : Nat) :
    InSpan rows v ↔ InSpan rows' v :=
  ⟨InSpan.trans (fun r hr => InSpan.mem ((h r).1 hr)), InSpan.trans (fun r hr => InSpan.mem ((h r).2 hr))⟩

/-- a number whose bits all lie below `n` at positions satisfying `p` is the XOR of the unit rows of those positions -/
theorem inSpan_units_of_bits (p : Nat → Bool) : ∀ (n w : Nat), (∀ j, w.testBit j = true → j < n ∧ p j = true) →
    InSpan (((List.range n).filter p).map (2 ^ ·)) w := by
  intro n
  induction n with
  | zero =>
    intro w h
    have : w = 0 := eq_zero_of_testBit w (fun j => by
      cases hb : w.testBit j
      · rfl
      · exact absurd (h j hb).1 (by omega))
    subst this; exact InSpan.zero _
  | succ n ih =>
    intro w h
    have habove : ∀ j, n < j → w.testBit j = false := by
      intro j hj
      cases hb : w.testBit j
      · rfl
      · have := (h j hb).1; omega
    rw [split_top_bit w n habove]
    have hsub : (((List.range n).filter p).map (2 ^ ·)).Sublist (((List.range (n + 1)).filter p).map (2 ^ ·)) := by
      apply List.Sublist.map
      apply List.Sublist.filter
      rw [List.range_succ]
      exact List.sublist_append_left _ _
    apply InSpan.xor
    · apply InSpan.mono hsub
      apply ih
      intro j hj
      rw [Nat.testBit_mod_two_pow] at hj
      simp only [Bool.and_eq_true, decide_eq_true_eq] at hj
      exact ⟨hj.1, (h j hj.2).2⟩
    · split
      · rename_i hb
        apply InSpan.mem
        simp only [List.mem_map, List.mem_filter, List.mem_range]
        exact ⟨n, ⟨by omega, (h n hb).2⟩, rfl⟩
      · exact InSpan.zero _

/-! ## `project` is linear, kills the known columns, and sends unknown unit rows to unit rows -/

theorem project_zero (done n : Nat) : project done n 0 = 0 :=
  eq_zero_of_testBit _ (fun j => by simp [testBit_project])

theorem project_xor (done n a b : Nat) : project done n (a ^^^ b) = project done n a ^^^ project done n b := by
  apply Nat.eq_of_testBit_eq
  intro j
  simp only [testBit_project, Nat.testBit_xor]
  cases decide (j < (unknowns done n).length) <;> simp

theorem project_known (done n d : Nat) (hd : done.testBit d = true) : project done n (2 ^ d) = 0 := by
  apply eq_zero_of_testBit
  intro j
  rw [testBit_project]
  by_cases hj : j < (unknowns done n).length
  · have hm := nth_mem (unknowns done n) j hj
    rw [mem_unknowns] at hm
    have : d ≠ nth (unknowns done n) j := by
      rintro rfl; rw [hd] at hm; exact absurd hm.2 (by simp)
    simp [this]
  · simp [hj]

theorem project_unknown (done n u : Nat) (hu : u < (unknowns done n).length) :
    project done n (2 ^ nth (unknowns done n) u) = 2 ^ u := by
  apply Nat.eq_of_testBit_eq
  intro j
  rw [testBit_project, Nat.testBit_two_pow, Nat.testBit_two_pow]
  by_cases hj : j < (unknowns done n).length
  · by_cases hju : u = j
    · subst hju; simp [hj]
    · have : nth (unknowns done n) u ≠ nth (unknowns done n) j := fun he =>
        hju (nth_inj _ (nodup_unknowns done n) u j hu hj he)
      simp [hj, hju, this]
  · have : u ≠ j := by omega
    simp [hj, this]

/-! ## the two forms of "full rank" -/

/-- **the projected rows span every unit vector of the unknown space iff, together with the unit rows of the known
    blocks, the rows span every unit vector below `n`** (rows without bits at or above `n`) -/
theorem span_project_iff (done n : Nat) (rows : List Nat) (hrows : ∀ r ∈ rows, r < 2 ^ n) :
    (∀ u, u < (unknowns done n).length → InSpan (rows.map (project done n)) (2 ^ u)) ↔
    (∀ m, m < n → InSpan (knownUnits done n ++ rows) (2 ^ m)) := by
  constructor
  · intro h m hm
    cases hd : done.testBit m with
    | true => exact InSpan.mem (List.mem_append_left _ (mem_knownUnits done n m hm hd))
    | false =>
      obtain ⟨u, hu, hnu⟩ := (mem_iff_nth (unknowns done n) m).1 ((mem_unknowns done n m).2 ⟨hm, hd⟩)
      obtain ⟨sel', hs', he⟩ := h u hu
      obtain ⟨sel, hs, rfl⟩ := List.sublist_map_iff.1 hs'
      -- `v` projects to the unit vector; it differs from `2^m` only in known columns
      have hv : InSpan rows (xorAll sel) := ⟨sel, hs, rfl⟩
      have hproj : project done n (xorAll sel) = 2 ^ u := by
        rw [← he]
        clear hs hs' he hv
        induction sel with
        | nil => simp [xorAll, project_zero]
        | cons r sel ih => simp only [List.map_cons, xorAll, project_xor, ih]
      have hvlt : xorAll sel < 2 ^ n := hv.lt_two_pow hrows
      have hw : InSpan (knownUnits done n) (xorAll sel ^^^ 2 ^ m) := by
        apply inSpan_units_of_bits
        intro j hj
        have hjn : j < n := by
          apply Classical.byContradiction
          intro hge
          have h1 : (xorAll sel).testBit j = false :=
            Nat.testBit_lt_two_pow (Nat.lt_of_lt_of_le hvlt (Nat.pow_le_pow_right (by omega) (by omega)))
          have h2 : (2 ^ m).testBit j = false := by rw [Nat.testBit_two_pow]; simp; omega
          rw [Nat.testBit_xor, h1, h2] at hj
          simp at hj
        refine ⟨hjn, ?_⟩
        cases hdj : done.testBit j with
        | true => rfl
        | false =>
          exfalso
          obtain ⟨k, hk, hnk⟩ := (mem_iff_nth (unknowns done n) j).1 ((mem_unknowns done n j).2 ⟨hjn, hdj⟩)
          have hb : (project done n (xorAll sel ^^^ 2 ^ m)).testBit k = true := by
            rw [testBit_project, hnk, hj]; simp [hk]
          rw [project_xor, hproj, ← hnu, project_unknown done n u hu, Nat.xor_self] at hb
          simp at hb
      have : 2 ^ m = xorAll sel ^^^ (xorAll sel ^^^ 2 ^ m) := by
        rw [← Nat.xor_assoc, Nat.xor_self, Nat.zero_xor]
      rw [this]
      exact InSpan.xor (hv.mono (List.sublist_append_right _ _)) (hw.mono (List.sublist_append_left _ _))
  · intro h u hu
    have hm := nth_mem (unknowns done n) u hu
    rw [mem_unknowns] at hm
    have := (h _ hm.1).map (project done n) (project_zero done n) (project_xor done n)
    rw [project_unknown done n u hu, List.map_append] at this
    refine InSpan.trans (fun r hr => ?_) this
    rcases List.mem_append.1 hr with hr | hr
    · obtain ⟨r0, hr0, rfl⟩ := List.mem_map.1 hr
      obtain ⟨d, -, hd, rfl⟩ := knownUnits_bit hr0
      rw [project_known done n d hd]
      exact InSpan.zero _
    · exact InSpan.mem hr

end Fuota.Gf2
