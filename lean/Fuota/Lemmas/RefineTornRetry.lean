import Fuota.Lemmas.RefineTornDev
/-!
# Redelivery on a device whose flash lies between the old one and the one the interrupted call was producing
-/
namespace Fuota.Updater
open Fuota.Nor Fuota.Fs Fuota.FlashAdapters Fuota.Recon Fuota.Layout Fuota.Gf2

/-- **redelivery of a stage-1 store on any flash that the data program completes to the same result** (for instance
after a torn data program): as `redeliver_stage1`, with the flash of `e` only required to have the size of `d`'s and
to become `d`'s programmed flash when the data is programmed -/
theorem redeliver_stage1_gen (ffr : Bool) {u : Upd} {d : Dev} {i : Nat} {buf : List Nat} (S : Stage1Store u d i buf)
    (hrow : (updaterRow ffr u.n i).isSome = true) {w : Upd} {e : Dev} (hG : Good e)
    (hsz : e.flash.size = d.flash.size)
    (hfin : e.flash.apply (.program (segAddr u i) buf) = d.flash.apply (.program (segAddr u i) buf))
    (hR : SameRegions u w) (hl : w.l = u.l) (hd : w.done = u.done) (hu : w.used = u.used) (hc : CacheOK w e) :
    ((handleSegment ffr (i + 1) buf).run (w, e)).1 = ((handleSegment ffr (i + 1) buf).run (u, d)).1 ∧
    Lawful ((handleSegment ffr (i + 1) buf).run (w, e)).2.1 ((handleSegment ffr (i + 1) buf).run (w, e)).2.2 ∧
    Lawful ((handleSegment ffr (i + 1) buf).run (u, d)).2.1 ((handleSegment ffr (i + 1) buf).run (u, d)).2.2 ∧
    Fault.Eqv (abs ((handleSegment ffr (i + 1) buf).run (w, e)).2) (abs ((handleSegment ffr (i + 1) buf).run (u, d)).2) ∧
    ((handleSegment ffr (i + 1) buf).run (w, e)).2.1.maxL = ((handleSegment ffr (i + 1) buf).run (u, d)).2.1.maxL := by
  have g := S.law.base.geo
  have hwu : warm u = u := warm_of_some g.hseg
  have hRw : SameRegions u (warm w) := ⟨hR.fi, hR.fs, hR.pi, hR.ps, hR.n, hR.bs, hR.maxL, hR.mo⟩
  obtain ⟨a1, a2, _, _⟩ := hRw.addrs
  have gw : Geo (warm w) e.flash.size := by
    rw [hsz]
    exact ⟨by rw [hRw.bs]; exact g.hbs, by rw [hRw.n]; exact g.hn, by rw [hRw.bs, hRw.n, hRw.fs]; exact g.hfit,
      by rw [hRw.ps, hRw.fs]; exact g.hsz, by rw [hRw.maxL, hRw.fs, hRw.bs]; exact g.hmaxL,
      by rw [hRw.mo, hRw.maxL, hRw.bs]; exact g.hmo, by rw [hRw.fi, hRw.pi]; exact g.hne,
      by rw [hRw.fi, hRw.fs]; exact g.hfwin, by rw [hRw.pi, hRw.ps]; exact g.hparin, rfl⟩
  have hcw : rcComplete w = false := by
    rw [← S.inc]; simp only [rcComplete, hl, hR.n, hd, hu]
  have hff := handleSegment_stage1_good ffr (w := u) (by rw [hwu]; exact g) S.law.base.good (Or.inl g.hseg)
    S.inc S.l0 S.hi S.fresh S.len
  rw [hwu] at hff
  have hr := handleSegment_stage1_good ffr gw hG hc hcw (by rw [hl]; exact S.l0) (by rw [hR.n]; exact S.hi)
    (by rw [hd]; exact S.fresh) (by rw [hR.bs]; exact S.len)
  have Lff := (handleSegment_lawful ffr (i + 1) buf S.law S.bytes S.len (by rw [Nat.add_sub_cancel]; exact hrow)).1
  -- the two flashes after the store agree
  have hflash : (afterWriteSegment (warm w) e i buf).flash = (afterWriteSegment u d i buf).flash := by
    show (e.flash.apply (.program (segAddr (warm w) i) buf)).apply (.program (statAddr (warm w) i) [0x33]) =
      (d.flash.apply (.program (segAddr u i) buf)).apply (.program (statAddr u i) [0x33])
    rw [a1, a2, hfin]
  have hGe : Good (afterWriteSegment (warm w) e i buf) := (hG.prog _ _).prog _ _
  have hcc : rcComplete (afterStore (warm w) i) = rcComplete (afterStore u i) := by
    simp only [rcComplete, afterStore, hl, hR.n, hd, hu]
  rw [hr, hff, hcc]
  rw [hff] at Lff
  by_cases hc' : rcComplete (afterStore u i) = true
  · simp only [if_pos hc'] at Lff ⊢
    have SS : SameSession { afterStore u i with complete := true } { afterStore (warm w) i with complete := true } :=
      ⟨⟨hR.fi, hR.fs, hR.pi, hR.ps, hR.n, hR.bs, hR.maxL, hR.mo⟩, hl,
        by show w.done ||| 2 ^ i = u.done ||| 2 ^ i; rw [hd], hu, rfl⟩
    exact ⟨trivial, Lff.transfer hGe hflash SS, Lff, abs_transfer hflash SS.reg SS.l SS.done SS.used, hR.maxL⟩
  · simp only [if_neg hc'] at Lff ⊢
    have SS : SameSession (afterStore u i) (afterStore (warm w) i) :=
      ⟨⟨hR.fi, hR.fs, hR.pi, hR.ps, hR.n, hR.bs, hR.maxL, hR.mo⟩, hl,
        by show w.done ||| 2 ^ i = u.done ||| 2 ^ i; rw [hd], hu, rfl⟩
    exact ⟨trivial, Lff.transfer hGe hflash SS, Lff, abs_transfer hflash SS.reg SS.l SS.done SS.used, hR.maxL⟩


/-- **redelivery of a pivot store on any flash that the pair completes to the same result** (for instance after a
torn block program, or a torn row program that left the diagonal byte erased): as `Stage2Store.redeliver`, with the
flash of `e` only required to agree with `d`'s outside the block and the row of the new pivot and to become the same
flash when the pair is programmed -/
theorem Stage2Store.redeliver_gen {ffr : Bool} {u : Upd} {d : Dev} {index : Nat} {bytes : List Nat} {r p row' : Nat}
    {data' : List Nat} (S : Stage2Store ffr u d index bytes r p row' data') {w : Upd} {e : Dev} (hG : Good e)
    (hsz : e.flash.size = d.flash.size)
    (hfr : ∀ x, ¬ (pAddr u p ≤ x ∧ x < pAddr u p + u.bs) → ¬ (rAddr u p ≤ x ∧ x < rAddr u p + (p / 8 + 1)) →
      e.flash.byte x = d.flash.byte x)
    (hfin : (e.flash.apply (.program (pAddr u p) data')).apply (.program (rAddr u p) (rowBytes p row')) =
      (d.flash.apply (.program (pAddr u p) data')).apply (.program (rAddr u p) (rowBytes p row')))
    (hR : SameRegions u w) (hl : w.l = u.l) (hd : w.done = u.done) (hu : w.used = u.used) (hc : CacheOK w e) :
    ((stage2U ffr w index bytes).run (w, e)).1 = ((stage2U ffr u index bytes).run (u, d)).1 ∧
    Lawful (warm ((stage2U ffr w index bytes).run (w, e)).2.1) ((stage2U ffr w index bytes).run (w, e)).2.2 ∧
    CacheOK ((stage2U ffr w index bytes).run (w, e)).2.1 ((stage2U ffr w index bytes).run (w, e)).2.2 ∧
    Lawful ((stage2U ffr u index bytes).run (u, d)).2.1 ((stage2U ffr u index bytes).run (u, d)).2.2 ∧
    Fault.Eqv (abs ((stage2U ffr w index bytes).run (w, e)).2) (abs ((stage2U ffr u index bytes).run (u, d)).2) ∧
    (((stage2U ffr w index bytes).run (w, e)).2.1.n = w.n ∧ ((stage2U ffr w index bytes).run (w, e)).2.1.bs = w.bs ∧
      ((stage2U ffr w index bytes).run (w, e)).2.1.maxL = w.maxL) ∧
    Static u ((stage2U ffr u index bytes).run (u, d)).2.1 ∧
    (w.fw.segSize = some w.bs → ((stage2U ffr w index bytes).run (w, e)).2.1.fw.segSize =
      some ((stage2U ffr w index bytes).run (w, e)).2.1.bs) := by
  have L := S.law
  have g := L.geo
  obtain ⟨hp, hpm, hup, hdl, hlU⟩ := S.facts
  obtain ⟨hff, L''⟩ := S.run_ff
  obtain ⟨h1, h2, h3, h4, h5, h6, h7⟩ := g.slots
  obtain ⟨q1, q2, q3, q4⟩ := g.regions.2 p hpm
  have hRw : SameRegions u (warm w) := ⟨hR.fi, hR.fs, hR.pi, hR.ps, hR.n, hR.bs, hR.maxL, hR.mo⟩
  obtain ⟨a1, a2, a3, a4⟩ := hRw.addrs
  have gw : Geo (warm w) e.flash.size := by rw [hsz]; exact g.transfer hR
  -- what is read is the same
  have hstr : stripF w e.flash r (List.range w.n) bytes = stripF u d.flash r (List.range u.n) bytes := by
    rw [stripF_same hR hd, hR.n]
    apply stripF_congr
    intro i hi
    have hin := L.hdone i hi
    obtain ⟨r1, r2, r3, r4⟩ := g.regions.1 i hin
    exact read_congr _ _ _ _ (fun x hx1 hx2 => hfr x (by omega) (by omega))
  have hel : ∀ out, elimF w e.flash w.l (project w.done w.n r) out =
      elimF u d.flash u.l (project u.done u.n r) out := by
    intro out
    rw [elimF_same hR hu, hl, hd, hR.n]
    apply elimF_congr
    intro m hm
    have hmm : m < u.maxL := Nat.lt_of_lt_of_le (L.hech m hm).1 L.hl
    have hmp : m ≠ p := by intro h; rw [h, hup] at hm; cases hm
    obtain ⟨t1, t2, t3, t4⟩ := g.regions.2 m hmm
    have hdj := g.disjoint.2.1 m p hmp
    have hdr := g.disjoint.2.2 m p hmp
    exact ⟨read_congr _ _ _ _ (fun x hx1 hx2 => hfr x (by omega) (by omega)),
      read_congr _ _ _ _ (fun x hx1 hx2 => hfr x (by omega) (by omega))⟩
  have hdonew : ∀ i, w.done.testBit i = true → i < w.n := by
    intro i hi; rw [hR.n]; exact L.hdone i (by rw [← hd]; exact hi)
  have hsc := strip_run_cold gw hG hc hdonew r (List.range w.n) bytes
  have hps := pairStore_run gw hG (show p < (warm w).maxL by show p < w.maxL; rw [hR.maxL]; exact hpm) row' data'
    (show data'.length = (warm w).bs by show _ = w.bs; rw [hR.bs]; exact hdl)
  rw [pairStore_warm] at hps
  have hrun : (stage2U ffr w index bytes).run (w, e) =
      (stage2Tail w (w.used ||| 2 ^ p)).run (w, pairDev (warm w) e p row' data') := by
    rw [stage2U_run_of_strip ffr gw hG.alive (by rw [hl, hR.maxL]; exact L.hl) index bytes r
      (by rw [hR.n]; exact S.hrow) _ hsc (by rw [length_stripF, hR.bs]; exact S.len), hel, hstr, S.dec]
    simp only
    rw [hps]
    rfl
  -- the flashes after the pair agree
  have hflash : (pairDev (warm w) e p row' data').flash = (pairDev u d p row' data').flash := by
    show (e.flash.apply (.program (pAddr (warm w) p) data')).apply (.program (rAddr (warm w) p) (rowBytes p row')) =
      (d.flash.apply (.program (pAddr u p) data')).apply (.program (rAddr u p) (rowBytes p row'))
    rw [a3, a4, hfin]
  have hGe : Good (pairDev (warm w) e p row' data') := (hG.prog _ _).prog _ _
  -- the tails
  have SS : SameSession { u with used := u.used ||| 2 ^ p } (warm { w with used := w.used ||| 2 ^ p }) :=
    ⟨⟨hR.fi, hR.fs, hR.pi, hR.ps, hR.n, hR.bs, hR.maxL, hR.mo⟩, hl, hd,
      by show w.used ||| 2 ^ p = u.used ||| 2 ^ p; rw [hu], rfl⟩
  have Lw'' : Lawful' (fun i => w.done.testBit i = false) (warm { w with used := w.used ||| 2 ^ p })
      (pairDev (warm w) e p row' data') :=
    (L''.transfer hGe hflash SS).mono (fun i hi => by rw [← hd]; exact hi)
  have hc'' : CacheOK { w with used := w.used ||| 2 ^ p } (pairDev (warm w) e p row' data') := by
    have : CacheOK { w with used := w.used ||| 2 ^ p } e := hc
    apply this.frame
    intro x hx1 hx2
    have e1 : 17408 < w.fw.size := by rw [hR.fs]; exact h1
    have hx1' : fwBase u ≤ x := by simp only [fwBase]; rw [← hR.fi, ← hR.fs, Nat.mul_comm]; exact hx1
    have hx2' : x < fwBase u + 12 := by
      simp only [fwBase]; rw [← hR.fi, ← hR.fs, Nat.mul_comm]; exact hx2
    obtain ⟨t1, t2⟩ := rowBytes_spec p row'
    show ((e.flash.apply (.program (pAddr (warm w) p) data')).apply
      (.program (rAddr (warm w) p) (rowBytes p row'))).byte x = e.flash.byte x
    rw [a3, a4, byte_apply_program_of_not_mem _ _ _ _ (by rw [t2]; omega),
      byte_apply_program_of_not_mem _ _ _ _ (by rw [hdl]; omega)]
  have hl0w : w.l ≠ 0 := by rw [hl]; exact S.hl0
  have hlUw : w.l = (unknowns w.done w.n).length := by rw [hl, hd, hR.n]; exact hlU
  obtain ⟨⟨w1, w2, w3⟩, wc⟩ := stage2Tail_warm hl0w hlUw Lw'' hc'' w (warm w)
  have hSu : Sim (abs ({ u with used := u.used ||| 2 ^ p }, pairDev u d p row' data'))
      { u with used := u.used ||| 2 ^ p } (pairDev u d p row' data').flash := sim_abs _ _
  have hSw : Sim (abs ({ u with used := u.used ||| 2 ^ p }, pairDev u d p row' data'))
      { warm w with used := w.used ||| 2 ^ p } (pairDev (warm w) e p row' data').flash := by
    rw [hflash]
    exact hSu.transfer ⟨hR.fi, hR.fs, hR.pi, hR.ps, hR.n, hR.bs, hR.maxL, hR.mo⟩ hl hd (by show w.used ||| 2 ^ p = u.used ||| 2 ^ p; rw [hu])
  obtain ⟨x1, x2, x3, x4⟩ := stage2Tail_sim (u := warm w) hl0w hlUw Lw'' _ hSw (warm w)
  obtain ⟨y1, y2, y3, y4⟩ := stage2Tail_sim (u := u) S.hl0 hlU L'' _ hSu u
  rw [hrun, hff]
  have hkeep : w.fw.segSize = some w.bs →
      ((stage2Tail w (w.used ||| 2 ^ p)).run (w, pairDev (warm w) e p row' data')).2.1.fw.segSize =
        some ((stage2Tail w (w.used ||| 2 ^ p)).run (w, pairDev (warm w) e p row' data')).2.1.bs := by
    intro hw
    have hww : warm w = w := warm_of_some hw
    have hAB : (stage2Tail (warm w) (w.used ||| 2 ^ p)).run (warm w, pairDev (warm w) e p row' data') =
        (stage2Tail w (w.used ||| 2 ^ p)).run (w, pairDev (warm w) e p row' data') := by
      rw [hww]
    rw [← hAB, x4.1, x4.2.2.2.1]
  rw [hu] at w1 w2 w3 wc x1 x2 x3 x4 hkeep ⊢
  generalize (stage2Tail w (u.used ||| 2 ^ p)).run (w, pairDev (warm w) e p row' data') = A at *
  generalize (stage2Tail (warm w) (u.used ||| 2 ^ p)).run (warm w, pairDev (warm w) e p row' data') = B at *
  generalize (stage2Tail u (u.used ||| 2 ^ p)).run (u, pairDev u d p row' data') = C at *
  refine ⟨w1.trans (resCorr_unique x1 y1), ?_, wc, y2, ?_, ?_, y4, hkeep⟩
  · rw [w3, w2]; exact x2
  · have e1 := (sim_iff_eqv _ _ _).1 x3
    have e2 := (sim_iff_eqv _ _ _).1 y3
    have e3 : abs A.2 = abs B.2 := by
      rw [← abs_warm A.2.1 A.2.2, w3, w2]
    rw [e3]
    exact Fault.Eqv.trans (Fault.Eqv.symm e1) e2
  · obtain ⟨z1, z2, z3, z4, z5, z6⟩ := x4
    rw [← w3] at z3 z4 z5
    exact ⟨z3, z4, z5⟩

/-- `repair_store1` for any flash that the data program completes to the same result -/
theorem repair_store1_gen (ffr : Bool) {u : Upd} {d : Dev} {index : Nat} {bytes : List Nat}
    (S : Stage1Store u d index bytes) (hrow : (updaterRow ffr u.n index).isSome = true) {w : Upd} {e : Dev}
    (hG : Good e) (hsz : e.flash.size = d.flash.size)
    (hfin : e.flash.apply (.program (segAddr u index) bytes) = d.flash.apply (.program (segAddr u index) bytes))
    (hR : SameRegions u w) (hl : w.l = u.l) (hd : w.done = u.done) (hu : w.used = u.used) (hc : CacheOK w e) :
    Repaired ffr (index + 1) bytes u d w e := by
  obtain ⟨r1, r2, r3, r4, r5⟩ := redeliver_stage1_gen ffr S hrow hG hsz hfin hR hl hd hu hc
  obtain ⟨_, _, t3, t4, t5, _⟩ :=
    (handleSegment_lawful ffr (index + 1) bytes S.law S.bytes S.len (by rw [Nat.add_sub_cancel]; exact hrow)).2
  have hseg := r2.base.geo.hseg
  refine ⟨r1, by rw [warm_of_some hseg]; exact r2, Or.inl hseg, r3, r4, ⟨?_, ?_, ?_⟩, ⟨t3, t4, t5⟩, fun _ => hseg⟩
  · exact (show _ = _ from r4.1).trans t3
  · exact (show _ = _ from r4.2.1).trans t4
  · exact r5.trans t5

/-- `repair_store2` for any flash that agrees outside the new pivot's block and row and that the pair completes to the
    same result -/
theorem repair_store2_gen (ffr : Bool) {u : Upd} {d : Dev} {index : Nat} {bytes : List Nat} {r p row' : Nat}
    {data' : List Nat} (hlen : bytes.length = u.bs) (hinc : rcComplete u = false) (hnt : ¬ tooManyCond u index)
    (hl0 : (adjU u index).l ≠ 0) (S : Stage2Store ffr (adjU u index) d index bytes r p row' data') {w : Upd}
    {e : Dev} (hG : Good e)
    (hsz : e.flash.size = d.flash.size)
    (hfr : ∀ x, ¬ (pAddr (adjU u index) p ≤ x ∧ x < pAddr (adjU u index) p + (adjU u index).bs) →
      ¬ (rAddr (adjU u index) p ≤ x ∧ x < rAddr (adjU u index) p + (p / 8 + 1)) → e.flash.byte x = d.flash.byte x)
    (hfin : (e.flash.apply (.program (pAddr (adjU u index) p) data')).apply
        (.program (rAddr (adjU u index) p) (rowBytes p row')) =
      (d.flash.apply (.program (pAddr (adjU u index) p) data')).apply
        (.program (rAddr (adjU u index) p) (rowBytes p row')))
    (hR : SameRegions u w) (hlw : w.l = u.l ∨ w.l = (adjU u index).l) (hd : w.done = u.done)
    (hu : w.used = u.used) (hc : CacheOK w e) :
    Repaired ffr (index + 1) bytes u d w e := by
  obtain ⟨f1, f2, f3, f4, f5, f6, f7, f8⟩ := adjU_fields u index
  obtain ⟨g1, g2, g3, g4, g5, g6, g7, g8⟩ := adjU_fields w index
  obtain ⟨hp, _, hup, _, _⟩ := S.facts
  have hR1 : SameRegions (adjU u index) (adjU w index) :=
    ⟨by rw [g1, f1, hR.fi], by rw [g1, f1, hR.fs], by rw [g2, f2, hR.pi], by rw [g2, f2, hR.ps], by rw [g3, f3, hR.n],
      by rw [g4, f4, hR.bs], by rw [g7, f7, hR.maxL], by rw [g8, f8, hR.mo]⟩
  have hl1 : (adjU w index).l = (adjU u index).l := by
    rcases hlw with h | h
    · unfold adjU
      by_cases hpar : u.n ≤ index ∧ u.l = 0
      · rw [if_pos hpar, if_pos (by rw [hR.n, h]; exact hpar)]
        show (unknowns w.done w.n).length = (unknowns u.done u.n).length
        rw [hd, hR.n]
      · rw [if_neg hpar, if_neg (by rw [hR.n, h]; exact hpar)]
        exact h
    · have : adjU w index = w := by
        unfold adjU; rw [if_neg (fun hh => hl0 (by rw [← h]; exact hh.2))]
      rw [this]; exact h
  have hincw : rcComplete w = false := by
    rcases hlw with h | h
    · rw [← hinc]; simp only [rcComplete, h, hR.n, hd, hu]
    · exact rcComplete_stage2_false (by rw [h]; exact hl0) (p := p) (by rw [h]; exact hp) (by rw [hu, ← f6]; exact hup)
  have hntw : ¬ tooManyCond w index := by
    rcases hlw with h | h
    · intro hh
      exact hnt ⟨by rw [← hR.n]; exact hh.1, by rw [← h]; exact hh.2.1, by
        have := hh.2.2; rwa [hd, hR.n, hR.maxL] at this⟩
    · intro hh
      exact hl0 (by rw [← h]; exact hh.2.1)
  have hc1 : CacheOK (adjU w index) e := by
    unfold adjU; split
    · exact hc
    · exact hc
  obtain ⟨c1, c2, c3, c4, c5, ⟨c6, c7, c8⟩, ⟨_, _, d3, d4, d5, _⟩, c9⟩ :=
    S.redeliver_gen hG hsz hfr hfin hR1 hl1 (by rw [g5, f5, hd]) (by rw [g6, f6, hu]) hc1
  have ew := handleBlock_stage2_eq ffr w e index bytes (by rw [hR.bs]; exact hlen) hincw hntw (by rw [hl1]; exact hl0)
  have eu := handleBlock_stage2_eq ffr u d index bytes hlen hinc hnt hl0
  rw [← ew, ← eu] at c1 c5
  rw [← ew] at c2 c3 c6 c7 c8 c9
  rw [← eu] at c4 d3 d4 d5
  refine Repaired.of_block (by omega) ?_ ?_ ?_ ?_ ?_ ⟨?_, ?_, ?_⟩ ⟨?_, ?_, ?_⟩ ?_ <;>
    simp only [Nat.add_sub_cancel]
  · exact c1
  · exact c2
  · exact c3
  · exact c4
  · exact c5
  · rw [c6, g3, hR.n]
  · rw [c7, g4, hR.bs]
  · rw [c8, g7, hR.maxL]
  · rw [d3, f3]
  · rw [d4, f4]
  · rw [d5, f7]
  · intro hw
    exact c9 (by rw [g1, g4]; exact hw)

end Fuota.Updater
