import Fuota.Lemmas.RingFlashRunCalls
import Fuota.Props.C08
import Fuota.Lemmas.RefineHeaders
/-!
# Ring ↔ flash, part 10: `start_update` on a live device (exact operations, every clean power loss)
-/
namespace Fuota.RingRun
open Fuota.Nor Fuota.Fs Fuota.Layout Fuota.Updater Fuota.Ops Fuota.RingFlash Fuota.Slots

theorem setLayout_cr {T B : Nat} (s : Slot) (nseg segsz : Nat)
    (hfit : satMulU32 nseg segsz ≤ s.size - DATA_REGION_OFFSET) (hin : s.idx * s.size + 28 ≤ T) :
    CR T B (s.setLayout nseg segsz) { s with segSize := if segsz = 0 then none else some segsz }
      [.program (s.idx * s.size + 12) (writeU32 nseg), .program (s.idx * s.size + 8) (writeU32 segsz)] := by
  unfold Slot.setLayout
  dsimp only
  simp only [throw_bind]
  have : ¬ (satMulU32 nseg segsz > s.size - DATA_REGION_OFFSET) := by omega
  simp only [this, ↓reduceIte]
  exact CR.bind (a := ()) (o1 := [_]) (writeWord_cr s Consts.NSEG_OFFSET nseg (by show _ + 12 + 4 ≤ T; omega))
    (CR.bind (a := ()) (o1 := [_]) (o2 := []) (writeWord_cr s Consts.SEGSIZE_OFFSET segsz (by show _ + 8 + 4 ≤ T; omega))
      (CR.pure _))

/-- `start_update` once the headers are read, on every live device: exactly `startOps`, or the prefix the armed power
    loss leaves -/
theorem startBody_cr {T B : Nat} (nslots slotSize sz n : Nat) (hs : List (Option Header)) (a b sa sb : Nat)
    (hrs : reasonablySized slotSize sz n = .ok ()) (hcp : choosePair nslots hs = .ok (a, b, sa, sb))
    (hB : 0 < B) (hdiv : slotSize % B = 0) (ha : a * slotSize + slotSize ≤ T) (hb : b * slotSize + slotSize ≤ T) :
    CR T B (allocWith nslots slotSize hs >>= startRest slotSize sz n) (C08.startUpd slotSize sz n a b)
      (startOps B slotSize sz n a b sa sb) := by
  obtain ⟨h1, h2, h3, h4, h5, h6⟩ := Ops.reasonablySized_ok hrs
  have hfw : satMulU32 n sz ≤ slotSize - DATA_REGION_OFFSET := by
    unfold satMulU32
    have : min (n * sz) (2 ^ 32 - 1) ≤ n * sz := Nat.min_le_left _ _
    rw [Nat.mul_comm n sz] at this
    show _ ≤ slotSize - 17408
    rw [Nat.mul_comm n sz]
    omega
  have hpar := capacity_layout_fits slotSize sz
  unfold allocWith
  rw [hcp]
  dsimp only
  unfold startOps
  have hA : CR T B (do
      (Slot.clear { idx := b, size := slotSize })
      (Slot.clear { idx := a, size := slotSize })
      (Slot.writeSeqNo { idx := a, size := slotSize } sa)
      (Slot.writeSeqNo { idx := b, size := slotSize } sb)
      pure (({ idx := a, size := slotSize } : Slot), ({ idx := b, size := slotSize } : Slot)))
      ({ idx := a, size := slotSize }, { idx := b, size := slotSize })
      (eraseOps (b * slotSize) B (slotSize / B) ++ (eraseOps (a * slotSize) B (slotSize / B) ++
        ([.program (a * slotSize + 4) (writeU32 sa)] ++ ([.program (b * slotSize + 4) (writeU32 sb)] ++ [])))) := by
    refine CR.bind (a := ()) (clear_cr { idx := b, size := slotSize } hB hdiv hb) ?_
    refine CR.bind (a := ()) (clear_cr { idx := a, size := slotSize } hB hdiv ha) ?_
    refine CR.bind (a := ()) (writeWord_cr { idx := a, size := slotSize } Consts.SEQ_OFFSET sa
      (by show a * slotSize + 4 + 4 ≤ T; omega)) ?_
    refine CR.bind (a := ()) (writeWord_cr { idx := b, size := slotSize } Consts.SEQ_OFFSET sb
      (by show b * slotSize + 4 + 4 ≤ T; omega)) ?_
    exact CR.pure _
  have hR : CR T B (startRest slotSize sz n ({ idx := a, size := slotSize }, { idx := b, size := slotSize }))
      (C08.startUpd slotSize sz n a b)
      ([.program (a * slotSize + 0) (writeU32 (encKind C .firmware))] ++
        ([.program (a * slotSize + 12) (writeU32 n), .program (a * slotSize + 8) (writeU32 sz)] ++
        ([.program (b * slotSize + 0) (writeU32 (encKind C .parity))] ++
        ([.program (b * slotSize + 12) (writeU32 (capacity slotSize sz)),
          .program (b * slotSize + 8) (writeU32 sz)] ++ [])))) := by
    unfold startRest C08.startUpd
    dsimp only
    refine CR.bind (a := ()) (writeWord_cr { idx := a, size := slotSize } Consts.KIND_OFFSET _
      (by show a * slotSize + 0 + 4 ≤ T; omega)) ?_
    refine CR.bind (setLayout_cr { idx := a, size := slotSize } n sz hfw
      (by show a * slotSize + 28 ≤ T; omega)) ?_
    refine CR.bind (a := ()) (writeWord_cr { idx := b, size := slotSize } Consts.KIND_OFFSET _
      (by show b * slotSize + 0 + 4 ≤ T; omega)) ?_
    refine CR.bind (setLayout_cr { idx := b, size := slotSize } (capacity slotSize sz) sz hpar
      (by show b * slotSize + 28 ≤ T; omega)) ?_
    exact CR.pure _
  have := CR.bind hA hR
  simp only [List.append_assoc, List.cons_append, List.nil_append, List.append_nil] at this ⊢
  exact this


/-- **`start_update` on a live device**: exactly `startOps` for the pair chosen from the headers on flash, or the
    prefix an armed power loss leaves -/
theorem start_device (nslots S sz nn : Nat) (e : Dev) (he : Live e) (h2 : 2 ≤ nslots) (hB : 0 < e.flash.block)
    (hdiv : S % e.flash.block = 0) (hdev : nslots * S ≤ e.flash.size) (hrs : reasonablySized S sz nn = .ok ())
    {a b sa sb : Nat} (hcp : choosePair nslots (hdrsOf e.flash nslots S) = .ok (a, b, sa, sb)) :
    (startUpdate nslots S sz nn).run e =
      outcome e (C08.startUpd S sz nn a b) (startOps e.flash.block S sz nn a b sa sb) := by
  obtain ⟨g1, _, g3, _, g5, _⟩ := Ops.reasonablySized_ok hrs
  have hS : 28 ≤ S := by
    have : 1 ≤ sz * nn := Nat.mul_le_mul g1 g3
    omega
  obtain ⟨ha, hb⟩ := choosePair_lt nslots _ (hdrsOf_length e.flash nslots S) h2 a b sa sb hcp
  rw [startUpdate_eq _ _ _ _ hrs, allocSlotpair_eq, bind_assoc, Ops.run_bind, loadHeaders_live nslots S he.alive hS hdev]
  dsimp only
  exact startBody_cr (T := e.flash.size) (B := e.flash.block) nslots S sz nn _ a b sa sb hrs hcp hB hdiv
    (slot_in_dev hdev ha) (slot_in_dev hdev hb) e he rfl rfl



/-- **`handle_segment` leaves every header of the ring alone**, on any device whatsoever (any crash point, clean or
    tearing, any pending fault, dead or alive): it only programs bytes at or after offset `0x400` of the two session
    slots -/
theorem handleSegment_hdrsOf (ffr : Bool) (idx : Nat) (bytes : List Nat) (u : Upd) (d : Dev) (nslots S : Nat)
    (hg : Ops.SlotGeom u) (hfs : u.fw.size = S) (hps : u.par.size = S) :
    hdrsOf ((handleSegment ffr idx bytes).run (u, d)).2.2.flash nslots S = hdrsOf d.flash nslots S := by
  have h := Ops.handleSegment_emits (B := d.flash.block) (u.l ≤ u.maxL) u hg ffr idx bytes u d rfl
    ⟨Ops.SameSess.refl u, fun h => h⟩
  obtain ⟨new, hrep, hops⟩ := h.2.1
  have hS : 17408 < S := by rw [← hfs]; exact hg.fwSize
  apply hdrsOf_same
  intro j _
  apply Updater.hdrAt_congr
  intro x hx1 hx2
  rw [hrep.flash]
  apply pairBody_bytes d.flash new.reverse (fun op hop => hops op (List.mem_reverse.1 hop)) x
  · rw [hfs]
    rcases Nat.lt_trichotomy j u.fw.idx with hlt | heq | hgt
    · left
      have : (j + 1) * S ≤ u.fw.idx * S := Nat.mul_le_mul_right _ hlt
      rw [Nat.add_mul] at this; omega
    · left; rw [← heq]; omega
    · right
      have : (u.fw.idx + 1) * S ≤ j * S := Nat.mul_le_mul_right _ hgt
      rw [Nat.add_mul] at this; omega
  · rw [hps]
    rcases Nat.lt_trichotomy j u.par.idx with hlt | heq | hgt
    · left
      have : (j + 1) * S ≤ u.par.idx * S := Nat.mul_le_mul_right _ hlt
      rw [Nat.add_mul] at this; omega
    · left; rw [← heq]; omega
    · right
      have : (u.par.idx + 1) * S ≤ j * S := Nat.mul_le_mul_right _ hgt
      rw [Nat.add_mul] at this; omega


end Fuota.RingRun
