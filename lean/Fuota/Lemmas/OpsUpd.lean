import Fuota.Lemmas.OpsSlot
import Fuota.Props.C15
/-!
# Footprints of the updater (`update.rs`, `update/matrix.rs`, `manager.rs`) and of the reconstructor's stores
-/
namespace Fuota.Ops
open Fuota.Nor Fuota.Fs Fuota.Layout Fuota.Updater

variable {α β : Type}

/-! ## pure facts -/

theorem indexed_lt (hs : List (Option Header)) : ∀ p ∈ indexed hs, p.1 < hs.length := by
  intro p hp
  unfold indexed at hp
  rw [List.mem_filterMap] at hp
  obtain ⟨⟨h, i⟩, hmem, hf⟩ := hp
  have := List.mem_zipIdx hmem
  cases h with
  | none => cases hf
  | some h =>
    have : p = (i, h) := by
      dsimp only [Option.map] at hf
      cases hf; rfl
    subst this
    show i < hs.length
    omega

/-- a fold that only ever keeps its accumulator or replaces it by the index of the current element
    returns an index of the list (or of the initial accumulator) -/
theorem fold_pick (P : Nat → Prop) (step : Option (Nat × Nat) → Nat × Header → Option (Nat × Nat))
    (hstep : ∀ acc p, step acc p = acc ∨ step acc p = some (p.1, p.2.seq)) :
    ∀ (l : List (Nat × Header)) (acc : Option (Nat × Nat)), (∀ p ∈ l, P p.1) → (∀ v, acc = some v → P v.1) →
      ∀ v, l.foldl step acc = some v → P v.1 := by
  intro l
  induction l with
  | nil => intro acc _ hacc v hv; exact hacc v hv
  | cons p l ih =>
    intro acc hl hacc v hv
    rw [List.foldl_cons] at hv
    refine ih (step acc p) (fun q hq => hl q (List.mem_cons_of_mem _ hq)) ?_ v hv
    intro w hw
    rcases hstep acc p with h | h
    · rw [h] at hw; exact hacc w hw
    · rw [h] at hw; cases hw; exact hl p List.mem_cons_self

/-- **the allocator stays in the ring**: for a ring of at least two slots and one header entry per slot,
    both indices `alloc_slotpair` chooses are `< nslots` (also when the newest slot is the last one). -/
theorem choosePair_lt (n : Nat) (hs : List (Option Header)) (hlen : hs.length = n) (hn : 2 ≤ n)
    (a b sa sb : Nat) (h : choosePair n hs = .ok (a, b, sa, sb)) : a < n ∧ b < n := by
  have hmod : ∀ x, x % n < n := fun x => Nat.mod_lt _ (by omega)
  unfold choosePair at h
  dsimp only at h
  split at h
  · rename_i low lowSeq high highSeq hlow hhigh
    have hhi : high < n := by
      have := fold_pick (· < n) _ (by
        intro acc p
        rcases acc with _ | ⟨i, s⟩
        · exact Or.inr rfl
        · dsimp only
          split
          · exact Or.inr rfl
          · exact Or.inl rfl) (indexed hs) none
        (fun p hp => by have := indexed_lt hs p hp; omega) (fun v hv => by cases hv) _ hhigh
      exact this
    split at h
    · cases h; exact ⟨hmod _, hmod _⟩
    · split at h
      · split at h
        · cases h; exact ⟨hhi, hmod _⟩
        · cases h; exact ⟨hmod _, hmod _⟩
      · split at h
        · split at h
          · cases h; exact ⟨hmod _, hhi⟩
          · cases h; exact ⟨hmod _, hhi⟩
        · cases h; exact ⟨hmod _, hmod _⟩
  · cases h; omega

theorem unknowns_lt {done n f : Nat} (h : f ∈ Recon.unknowns done n) : f < n := by
  unfold Recon.unknowns at h
  rw [List.mem_filter, List.mem_range] at h
  exact h.1

/-- stage 1 and not complete: some block is still unknown -/
theorem unknowns_ne_nil (u : Upd) (hl : u.l = 0) (hc : ¬ rcComplete u = true) :
    (Recon.unknowns u.done u.n).length ≠ 0 := by
  intro h0
  apply hc
  have hnil := List.length_eq_zero_iff.1 h0
  unfold Recon.unknowns at hnil
  rw [List.filter_eq_nil_iff] at hnil
  unfold rcComplete
  have : (List.range u.n).all (fun i => u.done.testBit i) = true := by
    rw [List.all_eq_true]
    intro i hi
    have := hnil i hi
    simpa using this
  simp [hl, this]

theorem xorBytes_length : ∀ (a b : List Nat), (xorBytes a b).length = a.length := by
  intro a
  induction a with
  | nil => intro b; cases b <;> rfl
  | cons x a ih =>
    intro b
    cases b with
    | nil => rfl
    | cons y b => simp [xorBytes, ih]

/-! ## sessions -/

/-- the static part of a session: slot positions and geometry fields -/
structure SameSess (u0 u : Upd) : Prop where
  fw : SamePos u0.fw u.fw
  par : SamePos u0.par u.par
  n : u.n = u0.n
  bs : u.bs = u0.bs
  maxL : u.maxL = u0.maxL
  mo : u.matrixOffset = u0.matrixOffset

theorem SameSess.refl (u : Upd) : SameSess u u := ⟨⟨rfl, rfl⟩, ⟨rfl, rfl⟩, rfl, rfl, rfl, rfl⟩

theorem SameSess.trans {a b c : Upd} (h1 : SameSess a b) (h2 : SameSess b c) : SameSess a c :=
  ⟨⟨h2.fw.1.trans h1.fw.1, h2.fw.2.trans h1.fw.2⟩, ⟨h2.par.1.trans h1.par.1, h2.par.2.trans h1.par.2⟩,
   h2.n.trans h1.n, h2.bs.trans h1.bs, h2.maxL.trans h1.maxL, h2.mo.trans h1.mo⟩

/-- what the footprint of a session depends on: slot sizes from the minimum upward and an image that fits -/
structure SlotGeom (u : Upd) : Prop where
  fwSize : 17408 < u.fw.size
  parSize : 17408 < u.par.size
  fit : u.bs * u.n ≤ u.fw.size - 17408

theorem SlotGeom.of_same {u0 u : Upd} (h : SlotGeom u0) (hs : SameSess u0 u) : SlotGeom u := by
  obtain ⟨h1, h2, h3⟩ := h
  refine ⟨?_, ?_, ?_⟩
  · rw [hs.fw.2]; exact h1
  · rw [hs.par.2]; exact h2
  · rw [hs.fw.2, hs.n, hs.bs]; exact h3

/-- the dependency stated in `writeSegment_emits`: accepted geometry and `idx < n` give the missing bound -/
theorem SlotGeom.segment_fits {u : Upd} (h : SlotGeom u) {idx : Nat} (hidx : idx < u.n) :
    DATA_REGION_OFFSET + (idx + 1) * u.bs ≤ u.fw.size := by
  obtain ⟨h1, _, h3⟩ := h
  have : (idx + 1) * u.bs ≤ u.bs * u.n := by
    rw [Nat.mul_comm u.bs u.n]
    exact Nat.mul_le_mul_right _ hidx
  show 17408 + (idx + 1) * u.bs ≤ u.fw.size
  omega

/-- operations on one of the two slots of the session `u0` -/
def PairOp (B : Nat) (u0 : Upd) (op : Op) : Prop :=
  SlotOp B u0.fw.size u0.fw.idx op ∨ SlotOp B u0.par.size u0.par.idx op

/-- operations of `handle_segment`: programs at or after offset `0x400` of one of the two slots -/
def PairBody (u0 : Upd) (op : Op) : Prop :=
  BodyOp u0.fw.size u0.fw.idx op ∨ BodyOp u0.par.size u0.par.idx op

theorem PairBody.pairOp {B : Nat} {u0 : Upd} {op : Op} (h : PairBody u0 op) : PairOp B u0 op :=
  h.elim (fun h => Or.inl h.slotOp) (fun h => Or.inr h.slotOp)

/-! ## the reconstructor's stores -/

theorem pGet_emits {B Q} (u : Upd) (m len : Nat) : EmitsR B Q (fun bs => bs.length = len) (pGet u m len) := by
  unfold pGet
  dsimp only
  simp only [throw_bind]
  apply EmitsR.ite
  · intro _; exact EmitsR.throw
  · intro _; exact readRaw_emits _ _ _

theorem mRow_emits {B Q} (u : Upd) (m : Nat) : EmitsR B Q (fun _ => True) (mRow u m) := by
  unfold mRow
  dsimp only
  simp only [throw_bind]
  split
  · exact EmitsR.throw
  · split
    · exact EmitsR.throw
    · exact (readRaw_emits _ _ _).bind (fun _ _ => EmitsR.pure True.intro)

/-- `ParityStorage::store` — inside the parity slot for **every** index (the bound is `write_raw`'s own check) -/
theorem pStore_emits {B : Nat} (u : Upd) (m : Nat) (d : List Nat) (hp : HEADER_SIZE ≤ u.par.size) :
    Emits B (BodyOp u.par.size u.par.idx) (pStore u m d) := by
  unfold pStore
  dsimp only
  simp only [throw_bind]
  split
  · exact EmitsR.throw
  · exact writeRaw_emits _ _ _ hp

/-- `UpdaterMatrixStorage::set_row` — inside the parity slot for every index -/
theorem mSetRow_emits {B : Nat} (u : Upd) (m row : Nat) (hp : HEADER_SIZE ≤ u.par.size) :
    Emits B (BodyOp u.par.size u.par.idx) (mSetRow u m row) := by
  unfold mSetRow
  dsimp only
  simp only [throw_bind]
  split
  · exact EmitsR.throw
  · split
    · exact EmitsR.throw
    · exact writeRaw_emits _ _ _ hp

theorem strip_emits {B Q} (u : Upd) (row : Nat) : ∀ (is d : List Nat),
    EmitsR B Q (fun _ => True) (strip u row is d) := by
  intro is
  induction is with
  | nil => intro d; exact EmitsR.pure True.intro
  | cons i is ih =>
    intro d
    unfold strip
    split
    · exact (readSegment_emits _ _ _).bind (fun _ _ => ih _)
    · exact ih _

theorem elim_emits {B : Nat} (u : Upd) (hp : HEADER_SIZE ≤ u.par.size) : ∀ (wh row : Nat) (data : List Nat),
    EmitsR B (BodyOp u.par.size u.par.idx) (fun _ => True) (elim u wh row data) := by
  intro wh
  induction wh with
  | zero => intro _ _; exact EmitsR.pure True.intro
  | succ wh ih =>
    intro row data
    unfold elim
    split
    · exact (pGet_emits _ _ _).bind (fun _ _ => (mRow_emits _ _).bind (fun _ _ => ih _ _))
    · split
      · exact (pStore_emits u wh data hp).bind (fun _ _ =>
          (mSetRow_emits u wh row hp).bind (fun _ _ => EmitsR.pure True.intro))
      · exact ih _ _

theorem finishInner_emits {B Q} (u : Upd) (U : List Nat) (r : Nat) : ∀ (js out : List Nat),
    EmitsR B Q (fun out' => out'.length = out.length) (finishInner u U r js out) := by
  intro js
  induction js with
  | nil => intro out; exact EmitsR.pure rfl
  | cons j js ih =>
    intro out
    unfold finishInner
    split
    · split
      · exact EmitsR.throw
      · refine (readSegment_emits _ _ _).bind (fun t _ => ?_)
        exact (ih _).post (fun o ho => by rw [ho, xorBytes_length])
    · exact ih _

/-- `finish`: every reconstructed block goes to a data segment `< n` of the firmware slot -/
theorem finishOuter_emits {B : Nat} (u0 : Upd) (hg : SlotGeom u0) (U : List Nat) (hU : ∀ f ∈ U, f < u0.n) :
    ∀ (is : List Nat) (u : Upd), SameSess u0 u →
      EmitsR B (BodyOp u0.fw.size u0.fw.idx) (fun u' => SameSess u0 u' ∧ u'.l = u.l) (finishOuter U is u) := by
  intro is
  induction is with
  | nil => intro u hs; exact EmitsR.pure ⟨hs, rfl⟩
  | cons i is ih =>
    intro u hs
    unfold finishOuter
    refine (pGet_emits u i u.bs).bind (fun out hout => ?_)
    refine (mRow_emits u i).bind (fun r _ => ?_)
    refine (finishInner_emits u U r (List.range i) out).bind (fun out' hout' => ?_)
    split
    · exact EmitsR.throw
    · rename_i f hf
      have hfn : f < u.n := by rw [hs.n]; exact hU f (List.mem_of_getElem? hf)
      have hfit := (hg.of_same hs).segment_fits hfn
      have hlen : out'.length = u.bs := hout'.trans hout
      have hw := writeSegment_emits (B := B) u.fw f out' (by rw [hlen]; exact hfit)
      rw [hs.fw.1, hs.fw.2] at hw
      refine hw.bind (fun fw hfw => ?_)
      have hs' : SameSess u0 { u with fw := fw } :=
        ⟨⟨hfw.1.trans hs.fw.1, hfw.2.trans hs.fw.2⟩, hs.par, hs.n, hs.bs, hs.maxL, hs.mo⟩
      exact (ih _ hs').post (fun u' h => ⟨h.1, h.2⟩)

/-! ## `handle_block` / `handle_segment` -/

/-- stage 1 of `handle_block` (`handle_data_block`) -/
def hbData (u : Upd) (index : Nat) (data : List Nat) : MU (Option Bool) :=
  if u.done.testBit index then pure (some (rcComplete u)) else do
    let fw ← liftM (u.fw.writeSegment index data)
    let u := { u with fw := fw, done := u.done ||| 2 ^ index }
    setU u
    pure (some (rcComplete u))

/-- stage 2 of `handle_block` (`handle_parity_block`, then `finish` when complete) -/
def hbParity (ffr : Bool) (u : Upd) (index : Nat) (data : List Nat) : MU (Option Bool) :=
  match updaterRow ffr u.n index with
  | none => throw MErr.panic
  | some row => do
    let d ← liftM (strip u row (List.range u.n) data)
    let used ← liftM (elim u u.l (Recon.project u.done u.n row) d)
    let u := { u with used := used }
    setU u
    if rcComplete u then do
      let u' ← liftM (finishOuter (Recon.unknowns u.done u.n) (List.range u.l) u)
      setU u'
      pure (some true)
    else pure (some false)

/-- the updater after the stage switch -/
def hbNext (u : Upd) (index : Nat) : Upd :=
  if u.n ≤ index ∧ u.l = 0 then { u with l := (Recon.unknowns u.done u.n).length } else u

theorem handleBlock_eq (ffr : Bool) (index : Nat) (data : List Nat) :
    handleBlock ffr index data = (do
      let u ← getU
      if data.length ≠ u.bs then throw MErr.panic else
      if rcComplete u then pure (some true) else
      if u.n ≤ index ∧ u.l = 0 ∧ (VBITS < (Recon.unknowns u.done u.n).length ∨
          u.maxL < (Recon.unknowns u.done u.n).length) then pure none else do
      setU (hbNext u index)
      if (hbNext u index).l = 0 then hbData (hbNext u index) index data
      else hbParity ffr (hbNext u index) index data) := by
  rfl

/-- the invariant `handle_segment` keeps: same slots and geometry fields, and (when asked for) `l ≤ maxL` -/
def SessInv (c : Prop) (u0 u : Upd) : Prop := SameSess u0 u ∧ (c → u.l ≤ u.maxL)

theorem hbData_emits {B : Nat} (c : Prop) (u0 : Upd) (hg : SlotGeom u0) (u : Upd) (hi : SessInv c u0 u)
    (index : Nat) (data : List Nat) (hidx : index < u.n) (hlen : data.length = u.bs) :
    EmitsU B (PairBody u0) (SessInv c u0) (fun _ => True) (hbData u index data) := by
  unfold hbData
  apply EmitsU.ite
  · intro _; exact EmitsU.pure True.intro
  · intro _
    have hfit := (hg.of_same hi.1).segment_fits hidx
    have hw := writeSegment_emits (B := B) u.fw index data (by rw [hlen]; exact hfit)
    rw [hi.1.fw.1, hi.1.fw.2] at hw
    refine (EmitsU.liftM (hw.weaken (fun _ h => Or.inl h))).bind (fun fw hfw => ?_)
    refine EmitsU.seq (EmitsU.setU ?_) (EmitsU.pure True.intro)
    exact ⟨⟨⟨hfw.1.trans hi.1.fw.1, hfw.2.trans hi.1.fw.2⟩, hi.1.par, hi.1.n, hi.1.bs, hi.1.maxL, hi.1.mo⟩, hi.2⟩

theorem hbParity_emits {B : Nat} (c : Prop) (u0 : Upd) (hg : SlotGeom u0) (ffr : Bool) (u : Upd)
    (hi : SessInv c u0 u) (index : Nat) (data : List Nat) :
    EmitsU B (PairBody u0) (SessInv c u0) (fun _ => True) (hbParity ffr u index data) := by
  unfold hbParity
  have hp : HEADER_SIZE ≤ u.par.size := by
    have := (hg.of_same hi.1).parSize
    show 1024 ≤ u.par.size
    omega
  split
  · exact EmitsU.throw
  · rename_i row _
    refine (EmitsU.liftM (strip_emits u row _ _)).bind (fun d _ => ?_)
    have he := elim_emits (B := B) u hp u.l (Recon.project u.done u.n row) d
    rw [hi.1.par.1, hi.1.par.2] at he
    refine (EmitsU.liftM (he.weaken (fun _ h => Or.inr h))).bind (fun used _ => ?_)
    have hs' : SameSess u0 { u with used := used } := ⟨hi.1.fw, hi.1.par, hi.1.n, hi.1.bs, hi.1.maxL, hi.1.mo⟩
    refine EmitsU.seq (EmitsU.setU ⟨hs', hi.2⟩) ?_
    apply EmitsU.ite
    · intro _
      have hf := finishOuter_emits (B := B) u0 hg (Recon.unknowns u.done u.n)
        (fun f hf => by rw [← hi.1.n]; exact unknowns_lt hf) (List.range u.l) { u with used := used } hs'
      refine (EmitsU.liftM (hf.weaken (fun _ h => Or.inl h))).bind (fun u' hu' => ?_)
      refine EmitsU.seq (EmitsU.setU ⟨hu'.1, fun hc => ?_⟩) (EmitsU.pure True.intro)
      have := hi.2 hc
      rw [hu'.2, hu'.1.maxL, ← hi.1.maxL]
      exact this
    · intro _; exact EmitsU.pure True.intro

theorem handleBlock_emits {B : Nat} (c : Prop) (u0 : Upd) (hg : SlotGeom u0) (ffr : Bool) (index : Nat)
    (data : List Nat) :
    EmitsU B (PairBody u0) (SessInv c u0) (fun _ => True) (handleBlock ffr index data) := by
  rw [handleBlock_eq]
  refine EmitsU.getU.bind (fun u hi => ?_)
  apply EmitsU.ite
  · intro _; exact EmitsU.throw
  · intro hlen
    have hlen' : data.length = u.bs := by
      by_cases h : data.length = u.bs
      · exact h
      · exact absurd h hlen
    apply EmitsU.ite
    · intro _; exact EmitsU.pure True.intro
    · intro hnc
      apply EmitsU.ite
      · intro _; exact EmitsU.pure True.intro
      · intro hcap
        have hnext : SessInv c u0 (hbNext u index) := by
          unfold hbNext
          split
          · rename_i hsw
            refine ⟨⟨hi.1.fw, hi.1.par, hi.1.n, hi.1.bs, hi.1.maxL, hi.1.mo⟩, fun _ => ?_⟩
            show (Recon.unknowns u.done u.n).length ≤ u.maxL
            by_cases hm : u.maxL < (Recon.unknowns u.done u.n).length
            · exact absurd ⟨hsw.1, hsw.2, Or.inr hm⟩ hcap
            · omega
          · exact hi
        refine EmitsU.seq (EmitsU.setU hnext) ?_
        apply EmitsU.ite
        · intro hl0
          -- stage 1: the index is a data index
          have hidx : index < (hbNext u index).n := by
            unfold hbNext at hl0 ⊢
            split at hl0
            · rename_i hsw
              exact absurd hl0 (unknowns_ne_nil u hsw.2 hnc)
            · rename_i hsw
              split
              · rename_i hsw'; exact absurd hsw' hsw
              · by_cases hlt : index < u.n
                · exact hlt
                · exact absurd ⟨by omega, hl0⟩ hsw
          have hbs : (hbNext u index).bs = u.bs := by
            unfold hbNext; split <;> rfl
          exact hbData_emits c u0 hg _ hnext index data hidx (by rw [hbs]; exact hlen')
        · intro _
          exact hbParity_emits c u0 hg ffr _ hnext index data

/-- `Updater::handle_segment`, for every fragment index and every payload -/
theorem handleSegment_emits {B : Nat} (c : Prop) (u0 : Upd) (hg : SlotGeom u0) (ffr : Bool) (idx1 : Nat)
    (bytes : List Nat) :
    EmitsU B (PairBody u0) (SessInv c u0) (fun _ => True) (handleSegment ffr idx1 bytes) := by
  unfold handleSegment
  dsimp only
  simp only [throw_bindU]
  apply EmitsU.ite
  · intro _; exact EmitsU.throw
  · intro _
    refine (handleBlock_emits c u0 hg ffr _ bytes).bind (fun r _ => ?_)
    split
    · refine EmitsU.getU.bind (fun u hi => ?_)
      refine EmitsU.seq (EmitsU.setU ?_) (EmitsU.pure True.intro)
      exact ⟨⟨hi.1.fw, hi.1.par, hi.1.n, hi.1.bs, hi.1.maxL, hi.1.mo⟩, hi.2⟩
    · exact EmitsU.pure True.intro

/-! ## firmware validation and `check_and_mark_done` -/

theorem crcLoop_emits {B Q} (base segSize : Nat) : ∀ (is : List Nat) (skip : Option Nat) (crc : Nat),
    EmitsR B Q (fun _ => True) (crcLoop base segSize is skip crc) := by
  intro is
  induction is with
  | nil => intro _ _; exact EmitsR.pure True.intro
  | cons i is ih =>
    intro skip crc
    unfold crcLoop
    split
    · split
      · exact ih _ _
      · exact (readTo_emits _ _).bind (fun _ _ => ih _ _)
    · exact (readTo_emits _ _).bind (fun _ _ => ih _ _)

theorem crcValid_emits {B Q} (s : Slot) (h : Header) : EmitsR B Q (fun _ => True) (crcValid s h) := by
  unfold crcValid
  dsimp only
  simp only [throw_bind]
  split
  · exact EmitsR.throw
  · split
    · exact EmitsR.throw
    · refine (readTo_emits _ _).bind (fun _ _ => ?_)
      refine (crcLoop_emits _ _ _ _ _).bind (fun _ _ => ?_)
      split
      · exact EmitsR.pure True.intro
      · exact EmitsR.throw

/-- `check_and_mark_done`: reads, then one header word in each of the two slots -/
theorem checkAndMarkDone_emits {B : Nat} (u : Upd) (hf : 28 ≤ u.fw.size) (hp : 28 ≤ u.par.size) :
    EmitsR B (PairOp B u) (fun i => i = u.fw.idx) (checkAndMarkDone u) := by
  unfold checkAndMarkDone
  dsimp only
  simp only [throw_bind]
  split
  · exact EmitsR.throw
  · refine (loadHeaderAt_emits _).bind (fun h _ => ?_)
    split
    · exact EmitsR.throw
    · refine (crcValid_emits _ _).bind (fun _ _ => ?_)
      refine EmitsR.seq ((markExtComplete_emits u.fw hf).weaken (fun _ h => Or.inl h)) ?_
      refine EmitsR.seq ((markExtComplete_emits u.par hp).weaken (fun _ h => Or.inr h)) ?_
      exact EmitsR.pure rfl

/-! ## recovery and cancellation -/

/-- operations on one slot of the ring -/
def RingOp (B nslots slotSize : Nat) (op : Op) : Prop := ∃ i, i < nslots ∧ SlotOp B slotSize i op

theorem remediateAbort_emits {B : Nat} (nslots slotSize skipA skipB : Nat) (hs : 28 ≤ slotSize) :
    ∀ (l : List (Nat × Header)), (∀ p ∈ l, p.1 < nslots) →
      Emits B (RingOp B nslots slotSize) (remediateAbort slotSize skipA skipB l) := by
  intro l
  induction l with
  | nil => intro _; exact EmitsR.pure True.intro
  | cons p l ih =>
    intro hl
    obtain ⟨i, h⟩ := p
    have hi : i < nslots := hl (i, h) List.mem_cons_self
    have ih' := ih (fun q hq => hl q (List.mem_cons_of_mem _ hq))
    unfold remediateAbort
    dsimp only
    split
    · exact ih'
    · split
      · exact EmitsR.seq ((markExtAborted_emits (B := B) { idx := i, size := slotSize } hs).weaken
          (fun _ h => ⟨i, hi, h⟩)) ih'
      · exact ih'

theorem remediateErase_emits {B : Nat} (nslots slotSize skipA skipB : Nat) :
    ∀ (l : List (Nat × Header)), (∀ p ∈ l, p.1 < nslots) →
      Emits B (RingOp B nslots slotSize) (remediateErase slotSize skipA skipB l) := by
  intro l
  induction l with
  | nil => intro _; exact EmitsR.pure True.intro
  | cons p l ih =>
    intro hl
    obtain ⟨i, h⟩ := p
    have hi : i < nslots := hl (i, h) List.mem_cons_self
    have ih' := ih (fun q hq => hl q (List.mem_cons_of_mem _ hq))
    unfold remediateErase
    dsimp only
    split
    · exact ih'
    · split
      · exact EmitsR.seq ((clear_emits (B := B) { idx := i, size := slotSize }).weaken
          (fun _ h => ⟨i, hi, h⟩)) ih'
      · exact EmitsR.seq ((clear_emits (B := B) { idx := i, size := slotSize }).weaken
          (fun _ h => ⟨i, hi, h⟩)) ih'
      · exact ih'

theorem remediate_emits {B : Nat} (nslots slotSize skipA skipB : Nat) (hs : 28 ≤ slotSize)
    (l : List (Nat × Header)) (hl : ∀ p ∈ l, p.1 < nslots) :
    Emits B (RingOp B nslots slotSize) (remediate slotSize skipA skipB l) := by
  unfold remediate
  exact EmitsR.seq (remediateAbort_emits nslots slotSize skipA skipB hs l hl)
    (remediateErase_emits nslots slotSize skipA skipB l hl)

theorem loadUsed_emits {B Q} (par : Slot) (mo : Nat) : ∀ (is : List Nat) (used : Nat),
    EmitsR B Q (fun _ => True) (loadUsed par mo is used) := by
  intro is
  induction is with
  | nil => intro _; exact EmitsR.pure True.intro
  | cons i is ih =>
    intro used
    unfold loadUsed
    exact (readRaw_emits _ _ _).bind (fun _ _ => ih _)

theorem cancelFrom_emits {B : Nat} (nslots slotSize : Nat) (hs : 28 ≤ slotSize) :
    ∀ (l : List (Nat × Header)), (∀ p ∈ l, p.1 < nslots) →
      Emits B (RingOp B nslots slotSize) (cancelFrom slotSize l) := by
  intro l
  induction l with
  | nil => intro _; exact EmitsR.pure True.intro
  | cons p l ih =>
    intro hl
    obtain ⟨i, h⟩ := p
    have hi : i < nslots := hl (i, h) List.mem_cons_self
    have ih' := ih (fun q hq => hl q (List.mem_cons_of_mem _ hq))
    unfold cancelFrom
    dsimp only
    split
    · exact EmitsR.seq ((markExtAborted_emits (B := B) { idx := i, size := slotSize } hs).weaken
        (fun _ h => ⟨i, hi, h⟩)) ih'
    · exact ih'

theorem cancelAll_emits {B : Nat} (nslots slotSize : Nat) (hs : 28 ≤ slotSize) :
    Emits B (RingOp B nslots slotSize) (cancelAll nslots slotSize) := by
  unfold cancelAll
  refine (loadHeaders_emits nslots slotSize).bind (fun hs' hlen => ?_)
  exact cancelFrom_emits nslots slotSize hs _ (fun p hp => by have := indexed_lt hs' p hp; omega)

end Fuota.Ops
