import Fuota.Lemmas.NoPanicUpd
/-!
# The status / validation calls are read-only: the device state is returned unchanged on every outcome
-/
namespace Fuota.NoPanic
open Fuota.Nor Fuota.Fs Fuota.Layout Fuota.Updater

/-- the device state (flash, operation log, counters, fault schedule) after `x` is the state before, whatever
    `x` returns -/
def RO {α} (x : M α) : Prop := ∀ d, (run' x d).2 = d

theorem ro_pure {α} (a : α) : RO (pure a : M α) := fun _ => rfl
theorem ro_throw {α} (e : MErr) : RO (throw e : M α) := fun _ => rfl
theorem ro_bind {α β} {x : M α} {f : α → M β} (hx : RO x) (hf : ∀ a, RO (f a)) : RO (x >>= f) := by
  intro d
  rw [run'_bind]
  have := hx d
  cases hr : run' x d with
  | mk r d' =>
    rw [hr] at this
    cases r with
    | ok a => simp only at this ⊢; rw [this]; exact hf a d
    | error e => exact this
theorem ro_ite {α} {c : Prop} [Decidable c] {x y : M α} (hx : RO x) (hy : RO y) : RO (if c then x else y) := by
  split <;> assumption

theorem ro_readTo (a len : Nat) : RO (readTo a len) := by
  intro d
  unfold readTo
  rw [run'_bind, run'_get]
  simp only
  split
  · rfl
  · split <;> rfl

syntax "ro_auto" ("[" term,* "]")? : tactic
macro_rules
  | `(tactic| ro_auto) => `(tactic| ro_auto [])
  | `(tactic| ro_auto [$ts,*]) => do
    let alts ← ts.getElems.mapM fun t => `(tactic| apply_quiet $t)
    `(tactic| repeat' (first
      | apply_quiet ro_bind | apply_quiet ro_ite | apply_quiet ro_pure | apply_quiet ro_throw
      | apply_quiet ro_readTo
      $[| $alts:tactic]*
      | split ))

theorem ro_loadHeaderAt (a : Nat) : RO (loadHeaderAt a) := by unfold loadHeaderAt; ro_auto

theorem ro_loadHeadersFrom (slotSize : Nat) (is : List Nat) : RO (loadHeadersFrom slotSize is) := by
  induction is with
  | nil => exact ro_pure _
  | cons i is ih => unfold loadHeadersFrom; ro_auto [ro_loadHeaderAt, ih]

theorem ro_loadHeaders (n slotSize : Nat) : RO (loadHeaders n slotSize) := ro_loadHeadersFrom _ _

theorem ro_blBootStatus (nslots slotSize : Nat) : RO (blBootStatus nslots slotSize) := by
  unfold blBootStatus; ro_auto [ro_loadHeaders]

theorem ro_fallbackFirmware (nslots slotSize : Nat) : RO (fallbackFirmware nslots slotSize) := by
  unfold fallbackFirmware; ro_auto [ro_loadHeaders]

theorem ro_crcLoop (base segSize : Nat) (is : List Nat) (skip : Option Nat) (crc : Nat) :
    RO (crcLoop base segSize is skip crc) := by
  induction is generalizing skip crc with
  | nil => exact ro_pure _
  | cons i is ih => unfold crcLoop; ro_auto [ih]

theorem ro_crcValid (s : Slot) (h : Header) : RO (crcValid s h) := by
  unfold crcValid; ro_auto [ro_crcLoop]

theorem ro_isValidFirmware (s : Slot) : RO (isValidFirmware s) := by
  unfold isValidFirmware; ro_auto [ro_crcValid, ro_loadHeaderAt]

end Fuota.NoPanic
