import Fuota.Lemmas.Bits
/-!
# GF(2) spans of `Nat` bit-mask rows, and rows in echelon form
-/
namespace Fuota.Gf2

/-- XOR-ing `a` twice cancels -/
theorem xor_xor_cancel_left (a b : Nat) : (a ^^^ b) ^^^ a = b := by
  rw [Nat.xor_comm a b, Nat.xor_assoc, Nat.xor_self, Nat.xor_zero]

/-- XOR-ing `b` twice cancels -/
theorem xor_xor_cancel_right (a b : Nat) : (a ^^^ b) ^^^ b = a := by
  rw [Nat.xor_assoc, Nat.xor_self, Nat.xor_zero]

/-! ## `InSpan` is a subspace -/

/-- zero is in every span -/
theorem InSpan.zero (rows : List Nat) : InSpan rows 0 := ⟨[], List.nil_sublist _, rfl⟩

/-- a row is in the span of any list containing it -/
theorem InSpan.mem {rows : List Nat} {r : Nat} (h : r ∈ rows) : InSpan rows r :=
  ⟨[r], List.singleton_sublist.2 h, by simp [xorAll]⟩

/-- spans grow with the list of rows -/
theorem InSpan.mono {rows rows' : List Nat} {v : Nat} (h : rows.Sublist rows') :
    InSpan rows v → InSpan rows' v := fun ⟨sel, hs, e⟩ => ⟨sel, hs.trans h, e⟩

/-- the empty list spans only zero -/
theorem inSpan_nil (v : Nat) : InSpan [] v ↔ v = 0 := by
  constructor
  · rintro ⟨sel, hs, rfl⟩
    rw [List.sublist_nil.1 hs]; rfl
  · rintro rfl; exact InSpan.zero _

/-- with one more row `r`: in the span with or without using `r` -/
theorem inSpan_cons (r : Nat) (rows : List Nat) (v : Nat) :
    InSpan (r :: rows) v ↔ InSpan rows v ∨ InSpan rows (v ^^^ r) := by
  constructor
  · rintro ⟨sel, hs, rfl⟩
    rcases List.sublist_cons_iff.1 hs with h | ⟨sel', rfl, h⟩
    · exact Or.inl ⟨sel, h, rfl⟩
    · refine Or.inr ⟨sel', h, ?_⟩
      simp only [xorAll]
      rw [xor_xor_cancel_left]
  · rintro (⟨sel, hs, rfl⟩ | ⟨sel, hs, e⟩)
    · exact ⟨sel, List.sublist_cons_iff.2 (Or.inl hs), rfl⟩
    · refine ⟨r :: sel, List.sublist_cons_iff.2 (Or.inr ⟨sel, rfl, hs⟩), ?_⟩
      simp only [xorAll, e]
      rw [Nat.xor_comm, xor_xor_cancel_right]

/-- a span is closed under XOR -/
theorem InSpan.xor {rows : List Nat} : ∀ {a b : Nat}, InSpan rows a → InSpan rows b → InSpan rows (a ^^^ b) := by
  induction rows with
  | nil =>
    intro a b ha hb
    rw [inSpan_nil] at ha hb ⊢
    subst ha; subst hb; rfl
  | cons r rows ih =>
    intro a b ha hb
    rw [inSpan_cons] at ha hb ⊢
    rcases ha with ha | ha <;> rcases hb with hb | hb
    · exact Or.inl (ih ha hb)
    · refine Or.inr ?_
      have := ih ha hb
      rwa [← Nat.xor_assoc] at this
    · refine Or.inr ?_
      have := ih ha hb
      have e : (a ^^^ r) ^^^ b = (a ^^^ b) ^^^ r := by
        rw [Nat.xor_assoc, Nat.xor_comm r b, ← Nat.xor_assoc]
      rwa [e] at this
    · refine Or.inl ?_
      have := ih ha hb
      have e : (a ^^^ r) ^^^ (b ^^^ r) = a ^^^ b := by
        rw [Nat.xor_assoc, Nat.xor_comm b r, ← Nat.xor_assoc r, Nat.xor_self, Nat.zero_xor]
      rwa [e] at this

/-- a span is closed under XOR of lists -/
theorem InSpan.xorAll {rows : List Nat} (sel : List Nat) (h : ∀ r ∈ sel, InSpan rows r) :
    InSpan rows (xorAll sel) := by
  induction sel with
  | nil => exact InSpan.zero _
  | cons r sel ih =>
    exact InSpan.xor (h r List.mem_cons_self) (ih (fun r' hr' => h r' (List.mem_cons_of_mem _ hr')))

/-- if every row of one list is in the span of another, so is its whole span -/
theorem InSpan.trans {rows rows' : List Nat} {v : Nat} (h : ∀ r ∈ rows, InSpan rows' r) :
    InSpan rows v → InSpan rows' v := by
  rintro ⟨sel, hs, rfl⟩
  exact InSpan.xorAll sel (fun r hr => h r (hs.subset hr))

/-! ## bit decomposition -/

/-- split off bit `u` of a number below `2^(u+1)` -/
theorem split_top_bit (r u : Nat) (h : ∀ j, u < j → r.testBit j = false) :
    r = (r % 2 ^ u) ^^^ (if r.testBit u then 2 ^ u else 0) := by
  apply Nat.eq_of_testBit_eq
  intro j
  rw [Nat.testBit_xor, Nat.testBit_mod_two_pow]
  by_cases hj : j < u
  · have : (if r.testBit u = true then 2 ^ u else 0).testBit j = false := by
      split
      · rw [Nat.testBit_two_pow]; simp; omega
      · simp
    simp [hj, this]
  · by_cases hju : j = u
    · subst hju
      cases hb : r.testBit j <;> simp
    · have h1 : r.testBit j = false := h j (by omega)
      have : (if r.testBit u = true then 2 ^ u else 0).testBit j = false := by
        split
        · rw [Nat.testBit_two_pow]; simp; omega
        · simp
      simp [hj, h1, this]

/-- if every unit vector below `u` is in the span then so is every number below `2^u` -/
theorem span_of_units (rows : List Nat) : ∀ u : Nat, (∀ v, v < u → InSpan rows (2 ^ v)) →
    ∀ r, r < 2 ^ u → InSpan rows r := by
  intro u
  induction u with
  | zero => intro _ r hr; have : r = 0 := by omega
            subst this; exact InSpan.zero _
  | succ u ih =>
    intro hu r hr
    have habove : ∀ j, u < j → r.testBit j = false := by
      intro j hj
      apply Nat.testBit_lt_two_pow
      exact Nat.lt_of_lt_of_le hr (Nat.pow_le_pow_right (by omega) hj)
    rw [split_top_bit r u habove]
    apply InSpan.xor
    · exact ih (fun v hv => hu v (by omega)) _ (Nat.mod_lt _ (Nat.two_pow_pos u))
    · split
      · exact hu u (by omega)
      · exact InSpan.zero _

/-- back substitution: if all `l` pivots are present (rows `f p`, pivot bit `p`, nothing above), every unit vector
below `l` is in any span that contains the rows -/
theorem units_of_full_echelon (rows : List Nat) (f : Nat → Nat) (l : Nat)
    (hf : ∀ p, p < l → (f p).testBit p = true ∧ (∀ j, p < j → (f p).testBit j = false) ∧ InSpan rows (f p)) :
    ∀ u, u < l → InSpan rows (2 ^ u) := by
  intro u
  induction u using Nat.strongRecOn with
  | _ u ih =>
    intro hu
    obtain ⟨hbit, habove, hin⟩ := hf u hu
    have hsplit := split_top_bit (f u) u habove
    simp only [hbit, ↓reduceIte] at hsplit
    have hlow : InSpan rows (f u % 2 ^ u) :=
      span_of_units rows u (fun v hv => ih v hv (by omega)) _ (Nat.mod_lt _ (Nat.two_pow_pos u))
    have : 2 ^ u = f u ^^^ (f u % 2 ^ u) := by
      conv => rhs; lhs; rw [hsplit]
      rw [Nat.xor_comm (f u % 2 ^ u), xor_xor_cancel_right]
    rw [this]
    exact InSpan.xor hin hlow

/-- the highest set bit of the XOR of rows with distinct (ascending) pivots is the largest pivot -/
theorem top_bit_of_echelon (f : Nat → Nat) : ∀ (idx : List Nat), idx.Pairwise (· < ·) →
    (∀ p ∈ idx, (f p).testBit p = true ∧ ∀ j, p < j → (f p).testBit j = false) → idx ≠ [] →
    ∃ t ∈ idx, (xorAll (idx.map f)).testBit t = true ∧ (∀ j, t < j → (xorAll (idx.map f)).testBit j = false) ∧
      ∀ p ∈ idx, p ≤ t := by
  intro idx
  induction idx with
  | nil => intro _ _ h; exact absurd rfl h
  | cons p rest ih =>
    intro hpw hf _
    obtain ⟨hlt, hpw'⟩ := List.pairwise_cons.1 hpw
    obtain ⟨hpb, hpa⟩ := hf p List.mem_cons_self
    by_cases hr : rest = []
    · subst hr
      refine ⟨p, List.mem_cons_self, ?_, ?_, ?_⟩
      · simpa [xorAll] using hpb
      · intro j hj; simpa [xorAll] using hpa j hj
      · intro q hq; simp at hq; omega
    · obtain ⟨t, ht, htb, hta, hmax⟩ := ih hpw' (fun q hq => hf q (List.mem_cons_of_mem _ hq)) hr
      have hpt : p < t := hlt t ht
      refine ⟨t, List.mem_cons_of_mem _ ht, ?_, ?_, ?_⟩
      · simp only [List.map_cons, xorAll, Nat.testBit_xor, hpa t hpt, htb]; rfl
      · intro j hj
        simp only [List.map_cons, xorAll, Nat.testBit_xor, hpa j (by omega), hta j hj]; rfl
      · intro q hq
        rcases List.mem_cons.1 hq with rfl | hq
        · omega
        · exact hmax q hq

end Fuota.Gf2
