import Fuota.Lemmas.V1Naive
import Fuota.Lemmas.V1Start
/-!
# `start_update` of the naive back-end establishes the session invariant `NInv` (C19)
-/
set_option linter.unusedSimpArgs false
namespace Fuota.V1
open Fuota.Nor Fuota.Fs Fuota.Layout Fuota.FlashAdapters Fuota.Updater

/-- `alloc_slotpair` on a device without armed injection, with the full erasure of the two slots exposed -/
theorem allocSlotpair_run_full (nslots S : Nat) (d : Dev) (hG : Good d) (hS : 28 ≤ S)
    (hdev : nslots * S ≤ d.flash.size) (hb0 : 0 < d.flash.block) (hdiv : S % d.flash.block = 0) (hn : 2 ≤ nslots) :
    ∃ a b sa sb d2, a < nslots ∧ b < nslots ∧ a ≠ b ∧ Keeps d d2 ∧
      (∀ x, a * S ≤ x → x < a * S + S → d2.flash.byte x = 0xFF) ∧
      (∀ x, b * S ≤ x → x < b * S + S → d2.flash.byte x = 0xFF) ∧
      (allocSlotpair nslots S).run d =
        (.ok ({ idx := a, size := S }, { idx := b, size := S }),
         (d2.prog (a * S + 4) (writeU32 sa)).prog (b * S + 4) (writeU32 sb)) := by
  have hslot : ∀ i, i < nslots → i * S + S ≤ d.flash.size := by
    intro i hi
    have : (i + 1) * S ≤ nslots * S := Nat.mul_le_mul_right _ hi
    rw [Nat.add_mul] at this; omega
  obtain ⟨hs, hrunH, hlenH⟩ := loadHeadersFrom_run S d hG (List.range nslots) (fun i hi => by
    have := hslot i (List.mem_range.1 hi); omega)
  obtain ⟨a, b, sa, sb, hcp, ha, hb, hab⟩ := choosePair_valid nslots hs hn (by simpa using hlenH)
  obtain ⟨d1, hr1, k1, ff1, fr1⟩ := clear_run { idx := b, size := S } d hG hb0 hdiv (hslot b hb)
  obtain ⟨d2, hr2, k2, ff2, fr2⟩ := clear_run { idx := a, size := S } d1 k1.good (by rw [k1.block]; exact hb0)
    (by rw [k1.block]; exact hdiv) (by rw [k1.size]; exact hslot a ha)
  simp only at ff1 fr1 ff2 fr2
  have hA := hslot a ha
  have hB := hslot b hb
  have hdis : a * S + S ≤ b * S ∨ b * S + S ≤ a * S := seg_disjoint S hab
  have k12 := k1.trans k2
  have w1 := writeWord_run' { idx := a, size := S } 4 sa k12 (by show a * S + 4 + 4 ≤ _; omega)
  have k3 : Keeps d (d2.prog (a * S + 4) (writeU32 sa)) := k12.trans (Keeps.prog k12.good _ _)
  have w2 := writeWord_run' { idx := b, size := S } 4 sb k3 (by show b * S + 4 + 4 ≤ _; omega)
  refine ⟨a, b, sa, sb, d2, ha, hb, hab, k12, ff2, ?_, ?_⟩
  · intro x h1 h2
    rw [fr2 x (by omega)]
    exact ff1 x h1 h2
  · unfold allocSlotpair loadHeaders
    rw [run_bind, hrunH]
    simp only [hcp]
    rw [run_bind, hr1]
    simp only
    rw [run_bind, hr2]
    simp only
    unfold Slot.writeSeqNo
    rw [run_bind, show Consts.SEQ_OFFSET = 4 from rfl, w1]
    simp only
    rw [run_bind, w2]
    rfl
end Fuota.V1

namespace Fuota.V1
open Fuota.Nor Fuota.Fs Fuota.Layout Fuota.FlashAdapters Fuota.Updater

theorem countBits_zero_mask (n : Nat) : countBits 0 n = 0 := by
  induction n with
  | zero => rfl
  | succ k ih => unfold countBits; rw [ih]; simp

theorem le32_writeU32 (v : Nat) (hv : v < 2 ^ 32) : Nor.le32 (writeU32 v) = v := by
  simp only [Nor.le32, writeU32, List.getD_cons_zero, List.getD_cons_succ]
  omega

theorem length_writeU32 (v : Nat) : (writeU32 v).length = 4 := rfl

/-- the fresh view of a slot after `start_update`: header word 12 holds the count, everything beyond the 28 header
    bytes is erased -/
theorem fresh_view (s : Slot) (f : Flash) (seg cnt : Nat) (val : Nat → List Nat) (h1 : 1 ≤ cnt) (h2 : cnt ≤ 16384)
    (hfit : 17408 + cnt * seg ≤ s.size)
    (hw : f.read (s.idx * s.size + 12) 4 = writeU32 cnt)
    (her : ∀ x, s.idx * s.size + 28 ≤ x → x < s.idx * s.size + s.size → f.byte x = 0xFF) :
    SlotView s f seg cnt 0 val := by
  have e : s.size * s.idx = s.idx * s.size := Nat.mul_comm _ _
  refine ⟨?_, ?_, fun j _ => by simp, fun i _ hb => by simp at hb, ?_⟩
  · rw [e, hw, le32_writeU32 _ (by omega)]
    unfold parseNseg
    have : Fs.C.maxSegments = 16384 := rfl
    rw [this]
    simp [h1, h2]; omega
  · intro j hj
    rw [her _ (by omega) (by omega)]
    simp
  · intro i hi _ x hx1 hx2
    have : (i + 1) * seg ≤ cnt * seg := Nat.mul_le_mul_right seg hi
    rw [Nat.add_mul, Nat.one_mul] at this
    unfold dAddr at hx1 hx2
    exact her x (by omega) (by omega)
end Fuota.V1

namespace Fuota.V1
open Fuota.Nor Fuota.Fs Fuota.Layout Fuota.FlashAdapters Fuota.Updater

/-- the abstract state of a fresh naive session -/
def naiveInit (cfg : Naive.Cfg) (S sz n : Nat) : Abs :=
  { n := n, parLen := Naive.parityCount cfg S sz,
    rowOf := fun p => Lfdbt.getParityMatrixRow cfg.ffr ((p + 1) % 2 ^ 32) n, fw := 0, par := 0 }

set_option maxRecDepth 10000 in
/-- **`start_update` of the (repaired, clamping) naive back-end establishes the session invariant** with empty masks,
    for every image `D` of `n` fragments of `sz` bytes -/
theorem naive_start_establishes (cfg : Naive.Cfg) (hc : cfg.clampParity = true) (nslots S sz n : Nat) (d : Dev)
    (D : Nat → List Nat) (hG : Good d) (hwf : WF d.flash) (hdev : nslots * S ≤ d.flash.size)
    (hb0 : 0 < d.flash.block) (hdiv : S % d.flash.block = 0) (hn2 : 2 ≤ nslots) (hS32 : S < 4294967296)
    (hgeo : Updater.reasonablySized S sz n = .ok ())
    (hrows : ∀ p, p < Naive.parityCount cfg S sz →
      (Lfdbt.getParityMatrixRow cfg.ffr ((p + 1) % 2 ^ 32) n).isSome = true)
    (hDl : ∀ i, i < n → (D i).length = sz) (hDb : ∀ i, i < n → IsBytes (D i)) :
    ∃ u d', (Naive.startUpdate cfg nslots S sz n).run d = (.ok u, d') ∧ NInv cfg u d' (naiveInit cfg S sz n) D sz := by
  obtain ⟨z1, z2, n1, n2, hprod⟩ := reasonablySized_ok hgeo
  have hS : 17408 < S := by
    have : 1 ≤ sz * n := Nat.mul_pos (by omega) (by omega)
    omega
  -- the parity count
  have hPdef : Naive.parityCount cfg S sz = min ((S - 17408) / sz) 16384 := by
    unfold Naive.parityCount
    have c1 : Fs.DATA_REGION_OFFSET = 17408 := rfl
    have c2 : Fs.MAX_SEGMENTS = 16384 := rfl
    rw [c1, c2, Nat.mod_eq_of_lt (by omega)]
    simp [hc]
  generalize hP : Naive.parityCount cfg S sz = P at *
  have hdivle : (S - 17408) / sz * sz ≤ S - 17408 := Nat.div_mul_le_self _ _
  have hP1 : 1 ≤ P := by
    have : n ≤ (S - 17408) / sz := (Nat.le_div_iff_mul_le (by omega)).2 (by rw [Nat.mul_comm]; exact hprod)
    omega
  have hP2 : P ≤ 16384 := by omega
  have hPfit : P * sz ≤ S - 17408 := by
    have : P * sz ≤ (S - 17408) / sz * sz := Nat.mul_le_mul_right sz (by omega)
    omega
  obtain ⟨a, b, sa, sb, d2, ha, hb, hab, k2, erA, erB, hrunA⟩ :=
    allocSlotpair_run_full nslots S d hG (by omega) hdev hb0 hdiv hn2
  have hslot : ∀ i, i < nslots → i * S + S ≤ d.flash.size := by
    intro i hi
    have : (i + 1) * S ≤ nslots * S := Nat.mul_le_mul_right _ hi
    rw [Nat.add_mul] at this; omega
  have hA := hslot a ha
  have hB := hslot b hb
  have hdis : a * S + S ≤ b * S ∨ b * S + S ≤ a * S := seg_disjoint S hab
  -- the eight header programs
  let fwS : Slot := { idx := a, size := S }
  let parS : Slot := { idx := b, size := S }
  let e1 := d2.prog (a * S + 4) (writeU32 sa)
  let e2 := e1.prog (b * S + 4) (writeU32 sb)
  let e3 := e2.prog (a * S + 0) (writeU32 (encKind Fs.C .firmware))
  let e4 := e3.prog (a * S + 12) (writeU32 n)
  let e5 := e4.prog (a * S + 8) (writeU32 sz)
  let e6 := e5.prog (b * S + 0) (writeU32 (encKind Fs.C .parity))
  let e7 := e6.prog (b * S + 12) (writeU32 P)
  let e8 := e7.prog (b * S + 8) (writeU32 sz)
  have k_1 : Keeps d e1 := k2.trans (Keeps.prog k2.good _ _)
  have k_2 : Keeps d e2 := k_1.trans (Keeps.prog k_1.good _ _)
  have k_3 : Keeps d e3 := k_2.trans (Keeps.prog k_2.good _ _)
  have k_4 : Keeps d e4 := k_3.trans (Keeps.prog k_3.good _ _)
  have k_5 : Keeps d e5 := k_4.trans (Keeps.prog k_4.good _ _)
  have k_6 : Keeps d e6 := k_5.trans (Keeps.prog k_5.good _ _)
  have k_7 : Keeps d e7 := k_6.trans (Keeps.prog k_6.good _ _)
  have k_8 : Keeps d e8 := k_7.trans (Keeps.prog k_7.good _ _)
  have hszne : ¬ sz = 0 := by omega
  have hsat1 : satMulU32 n sz ≤ S - 17408 := by
    unfold satMulU32; rw [Nat.mul_comm]; exact Nat.le_trans (Nat.min_le_left _ _) hprod
  have hsat2 : satMulU32 P sz ≤ S - 17408 := by
    unfold satMulU32; exact Nat.le_trans (Nat.min_le_left _ _) hPfit
  refine ⟨{ fw := { fwS with segSize := some sz }, totalFw := n, remFw := n,
            par := { parS with segSize := some sz }, totalPar := P, remPar := P }, e8, ?_, ?_⟩
  · unfold Naive.startUpdate
    simp only [hgeo, run_bind, run_pure, hP, hrunA]
    unfold Slot.setKind
    rw [show Consts.KIND_OFFSET = 0 from rfl, writeWord_run' fwS 0 _ k_2 (by show a * S + 0 + 4 ≤ _; omega)]
    simp only
    rw [setLayout_run fwS n sz k_3 hsat1 (by show a * S + 16 ≤ _; omega)]
    simp only [hszne, ↓reduceIte]
    rw [writeWord_run' parS 0 _ k_5 (by show b * S + 0 + 4 ≤ _; omega)]
    simp only
    rw [setLayout_run parS P sz k_6 hsat2 (by show b * S + 16 ≤ _; omega)]
    simp only [hszne, ↓reduceIte]
    rfl
  · have hinit : naiveInit cfg S sz n =
        Abs.mk n P (fun p => Lfdbt.getParityMatrixRow cfg.ffr ((p + 1) % 2 ^ 32) n) 0 0 := by
      unfold naiveInit; rw [hP]
    rw [hinit]
    have hbytes : ∀ v, IsBytes (writeU32 v) := Orig.isBytes_writeU32
    have hlenw : ∀ v, (writeU32 v).length = 4 := fun _ => rfl
    -- bytes beyond the headers of both slots are still erased
    have herA : ∀ x, a * S + 28 ≤ x → x < a * S + S → e8.flash.byte x = 0xFF := by
      intro x h1 h2
      simp only [e8, e7, e6, e5, e4, e3, e2, e1, Dev.prog_flash]
      repeat rw [byte_apply_program_of_not_mem _ _ _ _ (by rw [hlenw]; omega)]
      exact erA x (by omega) h2
    have herB : ∀ x, b * S + 28 ≤ x → x < b * S + S → e8.flash.byte x = 0xFF := by
      intro x h1 h2
      simp only [e8, e7, e6, e5, e4, e3, e2, e1, Dev.prog_flash]
      repeat rw [byte_apply_program_of_not_mem _ _ _ _ (by rw [hlenw]; omega)]
      exact erB x (by omega) h2
    -- the two count words
    have hwA : e8.flash.read (a * S + 12) 4 = writeU32 n := by
      simp only [e8, e7, e6, e5, e4, Dev.prog_flash]
      rw [read_prog_other _ _ _ _ _ (by rw [hlenw]; omega), read_prog_other _ _ _ _ _ (by rw [hlenw]; omega),
        read_prog_other _ _ _ _ _ (by rw [hlenw]; omega), read_prog_other _ _ _ _ _ (by rw [hlenw]; omega)]
      have he : Erased e3.flash (a * S + 12) (a * S + 12 + (writeU32 n).length) := by
        simp only [e3, e2, e1, Dev.prog_flash]
        apply erased_prog_other _ _ _ (by rw [hlenw, hlenw]; omega)
        apply erased_prog_other _ _ _ (by rw [hlenw, hlenw]; omega)
        apply erased_prog_other _ _ _ (by rw [hlenw, hlenw]; omega)
        intro x h1 h2
        rw [hlenw] at h2
        exact erA x (by omega) (by omega)
      have := read_prog_same e3.flash (a * S + 12) (writeU32 n) (hbytes n) (by rw [hlenw, k_3.size]; omega) he
      rw [hlenw] at this
      exact this
    have hwB : e8.flash.read (b * S + 12) 4 = writeU32 P := by
      simp only [e8, e7, Dev.prog_flash]
      rw [read_prog_other _ _ _ _ _ (by rw [hlenw]; omega)]
      have he : Erased e6.flash (b * S + 12) (b * S + 12 + (writeU32 P).length) := by
        simp only [e6, e5, e4, e3, e2, e1, Dev.prog_flash]
        apply erased_prog_other _ _ _ (by rw [hlenw, hlenw]; omega)
        apply erased_prog_other _ _ _ (by rw [hlenw, hlenw]; omega)
        apply erased_prog_other _ _ _ (by rw [hlenw, hlenw]; omega)
        apply erased_prog_other _ _ _ (by rw [hlenw, hlenw]; omega)
        apply erased_prog_other _ _ _ (by rw [hlenw, hlenw]; omega)
        apply erased_prog_other _ _ _ (by rw [hlenw, hlenw]; omega)
        intro x h1 h2
        rw [hlenw] at h2
        exact erB x (by omega) (by omega)
      have := read_prog_same e6.flash (b * S + 12) (writeU32 P) (hbytes P) (by rw [hlenw, k_6.size]; omega) he
      rw [hlenw] at this
      exact this
    have hfitA : 17408 + n * sz ≤ S := by rw [Nat.mul_comm]; omega
    have hfitB : 17408 + P * sz ≤ S := by omega
    refine ⟨k_8.good, k_8.wf hwf, ?_, rfl, hrows, ?_, ?_, ?_, ?_, hDl, hDb⟩
    · exact ⟨rfl, rfl, rfl, hab, by rw [k_8.size]; exact hA, by rw [k_8.size]; exact hB, z1, z2, n2, hP2, hfitA, hfitB,
        rfl, rfl⟩
    · exact fresh_view _ e8.flash sz n D n1 n2 hfitA hwA herA
    · exact fresh_view _ e8.flash sz P _ hP1 hP2 hfitB hwB herB
    · show n = n - countBits 0 n
      rw [countBits_zero_mask]; rfl
    · show P = P - countBits 0 P
      rw [countBits_zero_mask]; rfl
end Fuota.V1
