import Fuota.Lemmas.Prbs
/-!
# popcount, power-of-two test, termination of a draw, and the row-filling loops (helper lemmas of C10)
-/
namespace Fuota.Lfdbt

/-! ## popcount -/

theorem popcount_zero : popcount 0 = 0 := by rw [popcount]; simp

theorem popcount_pos {n : Nat} (h : n ≠ 0) : popcount n = n % 2 + popcount (n / 2) := by
  rw [popcount]; simp [h]

theorem popcount_eq_zero : ∀ n, popcount n = 0 → n = 0 := by
  intro n
  induction n using Nat.strongRecOn with
  | _ n ih =>
    intro h
    by_cases hn : n = 0
    · exact hn
    · rw [popcount_pos hn] at h
      have := ih (n / 2) (by omega) (by omega)
      omega

theorem popcount_two_pow (k : Nat) : popcount (2 ^ k) = 1 := by
  induction k with
  | zero => rw [popcount_pos (by decide)]; simp [popcount_zero]
  | succ k ih =>
    have : 2 ^ (k + 1) ≠ 0 := Nat.ne_of_gt (Nat.two_pow_pos _)
    rw [popcount_pos this, Nat.pow_succ, Nat.mul_mod_left, Nat.mul_div_cancel _ (by decide), ih]

theorem popcount_eq_one : ∀ n, popcount n = 1 → ∃ k, n = 2 ^ k := by
  intro n
  induction n using Nat.strongRecOn with
  | _ n ih =>
    intro h
    by_cases hn : n = 0
    · subst hn; rw [popcount_zero] at h; omega
    · rw [popcount_pos hn] at h
      rcases Nat.mod_two_eq_zero_or_one n with h0 | h0
      · obtain ⟨k, hk⟩ := ih (n / 2) (by omega) (by omega)
        exact ⟨k + 1, by rw [Nat.pow_succ]; omega⟩
      · have := popcount_eq_zero (n / 2) (by omega)
        exact ⟨0, by omega⟩

theorem isPow2_iff (M : Nat) : isPow2 M = true ↔ ∃ k, M = 2 ^ k := by
  unfold isPow2
  constructor
  · intro h; exact popcount_eq_one M (by simpa using h)
  · rintro ⟨k, rfl⟩; simp [popcount_two_pow]

theorem spec_isPow2_iff (M : Nat) : Spec.isPow2 M = true ↔ ∃ k, M = 2 ^ k := by
  unfold Spec.isPow2
  constructor
  · intro h; exact ⟨M.log2, by simpa using h⟩
  · rintro ⟨k, rfl⟩; simp [Nat.log2_two_pow]

/-- `count_ones() == 1` is the specification's `is_power2` -/
theorem isPow2_eq_spec (M : Nat) : isPow2 M = Spec.isPow2 M := by
  rw [Bool.eq_iff_iff, isPow2_iff, spec_isPow2_iff]

/-- setting a clear bit adds one to the popcount -/
theorem popcount_or_two_pow : ∀ (r row : Nat), row.testBit r = false → popcount (row ||| 2 ^ r) = popcount row + 1 := by
  intro r
  induction r with
  | zero =>
    intro row h
    have h0 : row % 2 = 0 := by
      rw [Nat.testBit_zero] at h; simpa using h
    have e : row ||| 2 ^ 0 = row + 1 := by
      have := Nat.two_pow_add_eq_or_of_lt (i := 1) (b := 1) (by decide) (row / 2)
      rw [show 2 ^ 1 * (row / 2) = row by omega] at this
      exact this.symm
    rw [e, popcount_pos (by omega)]
    by_cases hr : row = 0
    · subst hr; simp [popcount_zero]
    · rw [popcount_pos hr]; rw [show (row + 1) / 2 = row / 2 by omega]; omega
  | succ r ih =>
    intro row h
    have hne : row ||| 2 ^ (r + 1) ≠ 0 := by
      intro h0
      have := congrArg (fun v => v.testBit (r + 1)) h0
      simp at this
    rw [popcount_pos hne]
    have e1 : (row ||| 2 ^ (r + 1)) % 2 = row % 2 := by
      have := Nat.or_mod_two_pow (a := row) (b := 2 ^ (r + 1)) (n := 1)
      simp only [Nat.pow_one] at this
      rw [this, Nat.pow_succ, Nat.mul_mod_left, Nat.or_zero]
    have e2 : (row ||| 2 ^ (r + 1)) / 2 = row / 2 ||| 2 ^ r := by
      have := Nat.or_div_two_pow (a := row) (b := 2 ^ (r + 1)) (n := 1)
      simp only [Nat.pow_one] at this
      rw [this, Nat.pow_succ, Nat.mul_div_cancel _ (by decide)]
    have h' : (row / 2).testBit r = false := by
      rw [← h, Nat.testBit_succ]
    rw [e1, e2, ih _ h']
    by_cases hr : row = 0
    · subst hr; simp [popcount_zero]
    · rw [popcount_pos hr]; omega


theorem or_two_pow_eq_self {row r : Nat} (h : row.testBit r = true) : row ||| 2 ^ r = row := by
  apply Nat.eq_of_testBit_eq; intro i
  rw [Nat.testBit_or, Nat.testBit_two_pow]
  by_cases hi : r = i
  · subst hi; simp [h]
  · simp [hi]

theorem or_two_pow_ne_zero (row r : Nat) : row ||| 2 ^ r ≠ 0 := by
  intro h0
  have := congrArg (fun v => v.testBit r) h0
  simp at this

/-! ## one draw -/

theorem good_mono {M S f x : Nat} (g : Nat) : Good M S f x → Good M S (f + g) x := by
  rintro ⟨x', r, e, h⟩
  exact ⟨x', r, drawLoop_mono g e, h⟩

/-- modulus of the draws: `M + 1` for a power of two, else `M` -/
def jig (M : Nat) : Nat := if isPow2 M then 1 else 0

theorem good_any {M : Nat} (h2 : 2 ≤ M) (h16 : M ≤ 2 ^ 16) {x : Nat} (hx : x < 2 ^ 32) : Good M (M + jig M) 37 x := by
  unfold jig
  by_cases hp : isPow2 M = true
  · rw [if_pos hp]
    obtain ⟨k, rfl⟩ := (isPow2_iff M).mp hp
    have hk : k ≤ 16 := (Nat.pow_le_pow_iff_right (by decide)).mp h16
    by_cases hk1 : k = 1
    · subst hk1; exact good3 x hx
    · have hk2 : 2 ≤ k := by
        rcases k with _ | _ | k
        · simp at h2
        · exact absurd rfl hk1
        · omega
      obtain ⟨n1, n2⟩ := pow2_succ_not_dvd k hk2 hk
      exact good_mono 5 (good_of_lt_pow (Nat.two_pow_pos k) n1 n2 32 x hx (by omega))
  · rw [if_neg hp]
    exact good_acc hx (Nat.mod_lt _ (by omega))

/-- **Termination of a draw.**  For `2 ≤ M ≤ 2^16` and any `u32` state, the loop
    `r = 1 << 16; while r >= M { x = prbs23(x); r = x % (M + m) }` ends within 38 PRBS steps with `r < M`;
    more fuel gives the same result. -/
theorem draw_terminates {M : Nat} (h2 : 2 ≤ M) (h16 : M ≤ 2 ^ 16) {x : Nat} (hx : x < 2 ^ 32) :
    ∃ x' r, (∀ g, drawLoop M (M + jig M) (38 + g) x (1 <<< 16) = some (x', r)) ∧ r < M ∧ x' < 2 ^ 32 := by
  obtain ⟨x', r, e, hr, hx', -⟩ := good_any h2 h16 (prbs23_lt hx)
  refine ⟨x', r, ?_, hr, hx'⟩
  intro g
  rw [show 38 + g = (37 + g) + 1 by omega, drawLoop_step (show M ≤ 1 <<< 16 from h16)]
  exact drawLoop_mono g e

/-- whatever a draw returns is a legal fragment number -/
theorem drawLoop_lt {M S : Nat} : ∀ {f x r x' r'}, drawLoop M S f x r = some (x', r') → r' < M := by
  intro f
  induction f with
  | zero =>
    intro x r x' r' h
    by_cases hr : r < M
    · rw [drawLoop_acc hr] at h; simp at h; omega
    · simp [drawLoop, hr] at h
  | succ f ih =>
    intro x r x' r' h
    by_cases hr : r < M
    · rw [drawLoop_acc hr] at h; simp at h; omega
    · rw [drawLoop_step (Nat.not_lt.mp hr)] at h; exact ih h

/-- a finished implementation draw is the specification's `while` loop -/
theorem drawLoop_spec {M m : Nat} : ∀ {f x r p}, drawLoop M (M + m) f x r = some p → Spec.drawFrom M m f x r = p := by
  intro f
  induction f with
  | zero =>
    intro x r p h
    by_cases hr : r < M
    · rw [drawLoop_acc hr] at h; simp at h; simp [Spec.drawFrom, h]
    · simp [drawLoop, hr] at h
  | succ f ih =>
    intro x r p h
    by_cases hr : r < M
    · rw [drawLoop_acc hr] at h; simp at h; simp [Spec.drawFrom, Nat.not_le.mpr hr, h]
    · rw [drawLoop_step (Nat.not_lt.mp hr)] at h
      simp only [Spec.drawFrom, ge_iff_le, Nat.not_lt.mp hr, if_true, ← prbs23_eq_spec]
      exact ih h

/-- `lfdbt.rs`'s `loop { … break }` is the same draw -/
theorem lfdbtDraw_eq {M S : Nat} : ∀ f x r, M ≤ r → lfdbtDraw M S f x = drawLoop M S f x r := by
  intro f
  induction f with
  | zero => intro x r h; simp [lfdbtDraw, drawLoop, Nat.not_lt.mpr h]
  | succ f ih =>
    intro x r h
    rw [drawLoop_step h]
    by_cases hc : prbs23 x % S < M
    · rw [drawLoop_acc hc]; simp [lfdbtDraw, hc]
    · simp only [lfdbtDraw, hc, if_false]; exact ih _ _ (Nat.not_lt.mp hc)

end Fuota.Lfdbt
