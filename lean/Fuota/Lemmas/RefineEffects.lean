import Fuota.Lemmas.RefineAbs
/-!
# What the two kinds of store writes (a data segment; a parity block with its matrix row) do to the abstraction
-/
namespace Fuota.Updater
open Fuota.Nor Fuota.Fs Fuota.FlashAdapters Fuota.Recon

/-! ## congruence of the contents functions -/

/-- `dsVal k` only looks at segment `k` and its written mark -/
theorem dsVal_congr (u : Upd) (f f' : Flash) (k : Nat)
    (hs : f'.byte (statAddr u k) = f.byte (statAddr u k))
    (hr : ∀ x, segAddr u k ≤ x → x < segAddr u k + u.bs → f'.byte x = f.byte x) :
    dsVal u f' k = dsVal u f k := by
  unfold dsVal
  rw [hs, read_congr f' f _ _ hr]

/-- `psVal m` only looks at parity block `m` -/
theorem psVal_congr (u : Upd) (f f' : Flash) (m : Nat)
    (hr : ∀ x, pAddr u m ≤ x → x < pAddr u m + u.bs → f'.byte x = f.byte x) :
    psVal u f' m = psVal u f m := by
  unfold psVal
  rw [read_congr f' f _ _ hr]

/-- `msVal m` only looks at matrix row `m` -/
theorem msVal_congr (u : Upd) (f f' : Flash) (m : Nat)
    (hr : ∀ x, rAddr u m ≤ x → x < rAddr u m + (m / 8 + 1) → f'.byte x = f.byte x) :
    msVal u f' m = msVal u f m := by
  unfold msVal
  rw [read_congr f' f _ _ hr]

/-- erasedness only looks at the region -/
theorem erased_congr {f f' : Flash} {a b : Nat} (h : Erased f a b) (hr : ∀ x, a ≤ x → x < b → f'.byte x = f.byte x) :
    Erased f' a b := fun x h1 h2 => by rw [hr x h1 h2]; exact h x h1 h2

/-! ## writing a data segment -/

/-- the flash after `write_segment i buf` on an erased segment: the mark reads written, the segment reads `buf`,
    every other byte is unchanged -/
theorem seg_write_effect {u : Upd} {f : Flash} (g : Geo u f.size) (hwf : WF f) {i : Nat} (hi : i < u.n)
    (her : Erased f (segAddr u i) (segAddr u i + u.bs) ∧ f.byte (statAddr u i) = 0xFF)
    (buf : List Nat) (hb : IsBytes buf) (hlen : buf.length = u.bs) :
    WF ((f.apply (.program (segAddr u i) buf)).apply (.program (statAddr u i) [0x33])) ∧
    ((f.apply (.program (segAddr u i) buf)).apply (.program (statAddr u i) [0x33])).size = f.size ∧
    ((f.apply (.program (segAddr u i) buf)).apply (.program (statAddr u i) [0x33])).byte (statAddr u i) = 0x33 ∧
    ((f.apply (.program (segAddr u i) buf)).apply (.program (statAddr u i) [0x33])).read (segAddr u i) u.bs = buf ∧
    (∀ x, ¬ (segAddr u i ≤ x ∧ x < segAddr u i + u.bs) → x ≠ statAddr u i →
      ((f.apply (.program (segAddr u i) buf)).apply (.program (statAddr u i) [0x33])).byte x = f.byte x) := by
  obtain ⟨h1, h2, h3, h4, h5, h6, h7⟩ := g.slots
  obtain ⟨r1, r2, r3, r4⟩ := g.regions.1 i hi
  refine ⟨WF_apply_program (WF_apply_program hwf _ _) _ _, by simp [size_apply_program], ?_, ?_, ?_⟩
  · rw [byte_apply_program_of_mem _ _ _ _ (by simp [size_apply_program]; omega) (Nat.le_refl _) (by simp),
      byte_apply_program_of_not_mem _ _ _ _ (by omega), her.2]
    simp
  · rw [read_prog_other _ _ _ _ _ (by simp; omega)]
    have := read_prog_same f (segAddr u i) buf hb (by omega) (by rw [hlen]; exact her.1)
    rwa [hlen] at this
  · intro x hx1 hx2
    rw [byte_apply_program_of_not_mem _ _ _ _ (by simp; omega),
      byte_apply_program_of_not_mem _ _ _ _ (by omega)]

/-- the contents functions after `write_segment i buf` on an erased segment -/
theorem seg_write_vals {u : Upd} {f : Flash} (g : Geo u f.size) (hwf : WF f) {i : Nat} (hi : i < u.n)
    (her : Erased f (segAddr u i) (segAddr u i + u.bs) ∧ f.byte (statAddr u i) = 0xFF)
    (buf : List Nat) (hb : IsBytes buf) (hlen : buf.length = u.bs) :
    (∀ k, dsVal u ((f.apply (.program (segAddr u i) buf)).apply (.program (statAddr u i) [0x33])) k =
      if k = i then bytesToNat buf else dsVal u f k) ∧
    (∀ m, psVal u ((f.apply (.program (segAddr u i) buf)).apply (.program (statAddr u i) [0x33])) m = psVal u f m) ∧
    (∀ m, msVal u ((f.apply (.program (segAddr u i) buf)).apply (.program (statAddr u i) [0x33])) m = msVal u f m) := by
  obtain ⟨_, _, hst, hrd, hfr⟩ := seg_write_effect g hwf hi her buf hb hlen
  obtain ⟨h1, h2, h3, h4, h5, h6, h7⟩ := g.slots
  obtain ⟨r1, r2, r3, r4⟩ := g.regions.1 i hi
  refine ⟨fun k => ?_, fun m => ?_, fun m => ?_⟩
  · by_cases hk : k = i
    · subst hk
      simp only [dsVal, hi, hst, hrd, and_self, ↓reduceIte]
    · rw [if_neg hk]
      by_cases hkn : k < u.n
      · obtain ⟨q1, q2, q3, q4⟩ := g.regions.1 k hkn
        have hd := g.disjoint.1 k i hk
        apply dsVal_congr
        · exact hfr _ (by omega) (by simp only [statAddr]; omega)
        · intro x hx1 hx2
          exact hfr x (by omega) (by omega)
      · simp [dsVal, hkn]
  · by_cases hm : m < u.maxL
    · obtain ⟨q1, q2, q3, q4⟩ := g.regions.2 m hm
      apply psVal_congr
      intro x hx1 hx2
      exact hfr x (by omega) (by omega)
    · simp [psVal, hm]
  · by_cases hm : m < u.maxL
    · obtain ⟨q1, q2, q3, q4⟩ := g.regions.2 m hm
      apply msVal_congr
      intro x hx1 hx2
      exact hfr x (by omega) (by omega)
    · simp [msVal, hm]

/-- the invariant after `write_segment i buf` on a segment required erased, for the same in-memory updater except
    possibly its `done` mask (any `done'` that keeps stage and marks consistent) -/
theorem Lawful'.writeSegment {E E' : Nat → Prop} {u : Upd} {d : Dev} (L : Lawful' E u d) {i : Nat} (hi : i < u.n)
    (hE : E i) (buf : List Nat) (hb : IsBytes buf) (hlen : buf.length = u.bs) (done' : Nat)
    (hE' : ∀ k, E' k → E k ∧ k ≠ i)
    (hd1 : ∀ k, done'.testBit k = true → u.done.testBit k = true ∨ k = i)
    (hd2 : u.l ≠ 0 → u.l = (unknowns done' u.n).length) :
    Lawful' E' { u with done := done' } (afterWriteSegment u d i buf) := by
  have her := L.herD i hi hE
  obtain ⟨hwf', hsz, hst, hrd, hfr⟩ := seg_write_effect L.geo L.wf hi her buf hb hlen
  obtain ⟨hds, hps, hms⟩ := seg_write_vals L.geo L.wf hi her buf hb hlen
  obtain ⟨h1, h2, h3, h4, h5, h6, h7⟩ := L.geo.slots
  obtain ⟨r1, r2, r3, r4⟩ := L.geo.regions.1 i hi
  have g := L.geo
  have hflash : (afterWriteSegment u d i buf).flash =
      (d.flash.apply (.program (segAddr u i) buf)).apply (.program (statAddr u i) [0x33]) := rfl
  generalize (d.flash.apply (.program (segAddr u i) buf)).apply (.program (statAddr u i) [0x33]) = f' at *
  have g' : Geo { u with done := done' } (afterWriteSegment u d i buf).flash.size := by
    rw [hflash, hsz]
    exact ⟨g.hbs, g.hn, g.hfit, g.hsz, g.hmaxL, g.hmo, g.hne, g.hfwin, g.hparin, g.hseg⟩
  refine { geo := g', good := (L.good.prog _ _).prog _ _, wf := by rw [hflash]; exact hwf', hl := L.hl, hl2 := hd2,
           hdone := ?_, hstat := ?_, herD := ?_, hech := ?_, herP := ?_ }
  · intro k hk
    rcases hd1 k hk with h | h
    · exact L.hdone k h
    · subst h; exact hi
  · intro k hk
    rw [hflash]
    show f'.byte (statAddr u k) = 0x33
    by_cases hki : k = i
    · subst hki; exact hst
    · have hkd : u.done.testBit k = true := (hd1 k hk).resolve_right hki
      have hkn := L.hdone k hkd
      obtain ⟨q1, q2, q3, q4⟩ := g.regions.1 k hkn
      have : statAddr u k ≠ statAddr u i := by simp only [statAddr]; omega
      rw [hfr _ (by omega) this]
      exact L.hstat k hkd
  · intro k hkn hk
    obtain ⟨hEk, hki⟩ := hE' k hk
    obtain ⟨e1, e2⟩ := L.herD k hkn hEk
    obtain ⟨q1, q2, q3, q4⟩ := g.regions.1 k hkn
    have hd := g.disjoint.1 k i hki
    have hne : statAddr u k ≠ statAddr u i := by simp only [statAddr]; omega
    rw [hflash]
    constructor
    · show Erased f' (segAddr u k) (segAddr u k + u.bs)
      exact erased_congr e1 (fun x hx1 hx2 => hfr x (by omega) (by omega))
    · show f'.byte (statAddr u k) = _
      rw [hfr _ (by omega) hne]; exact e2
  · intro p hp
    have := L.hech p hp
    rw [hflash]
    show p < u.l ∧ (msVal u f' p).testBit p = true ∧ ∀ j, p < j → (msVal u f' p).testBit j = false
    rw [hms p]; exact this
  · intro m hm hu
    obtain ⟨e1, e2⟩ := L.herP m hm hu
    obtain ⟨q1, q2, q3, q4⟩ := g.regions.2 m hm
    rw [hflash]
    constructor
    · show Erased f' (pAddr u m) (pAddr u m + u.bs)
      exact erased_congr e1 (fun x hx1 hx2 => hfr x (by omega) (by omega))
    · show Erased f' (rAddr u m) (rAddr u m + (m / 8 + 1))
      exact erased_congr e2 (fun x hx1 hx2 => hfr x (by omega) (by omega))

/-! ## storing a pivot: parity block and matrix row -/

/-- the flash after `pStore q data; mSetRow q row` on erased regions: both regions read what was written, every
    other byte is unchanged -/
theorem pivot_write_effect {u : Upd} {f : Flash} (g : Geo u f.size) (hwf : WF f) {q : Nat} (hq : q < u.maxL)
    (her : Erased f (pAddr u q) (pAddr u q + u.bs) ∧ Erased f (rAddr u q) (rAddr u q + (q / 8 + 1)))
    (data rb : List Nat) (hb : IsBytes data) (hlen : data.length = u.bs) (hrb : IsBytes rb)
    (hrlen : rb.length = q / 8 + 1) :
    WF ((f.apply (.program (pAddr u q) data)).apply (.program (rAddr u q) rb)) ∧
    ((f.apply (.program (pAddr u q) data)).apply (.program (rAddr u q) rb)).size = f.size ∧
    ((f.apply (.program (pAddr u q) data)).apply (.program (rAddr u q) rb)).read (pAddr u q) u.bs = data ∧
    ((f.apply (.program (pAddr u q) data)).apply (.program (rAddr u q) rb)).read (rAddr u q) (q / 8 + 1) = rb ∧
    (∀ x, ¬ (pAddr u q ≤ x ∧ x < pAddr u q + u.bs) → ¬ (rAddr u q ≤ x ∧ x < rAddr u q + (q / 8 + 1)) →
      ((f.apply (.program (pAddr u q) data)).apply (.program (rAddr u q) rb)).byte x = f.byte x) := by
  obtain ⟨h1, h2, h3, h4, h5, h6, h7⟩ := g.slots
  obtain ⟨r1, r2, r3, r4⟩ := g.regions.2 q hq
  refine ⟨WF_apply_program (WF_apply_program hwf _ _) _ _, by simp [size_apply_program], ?_, ?_, ?_⟩
  · rw [read_prog_other _ _ _ _ _ (by omega)]
    have := read_prog_same f (pAddr u q) data hb (by omega) (by rw [hlen]; exact her.1)
    rwa [hlen] at this
  · have := read_prog_same (f.apply (.program (pAddr u q) data)) (rAddr u q) rb hrb
      (by rw [size_apply_program]; omega)
      (by rw [hrlen]; exact erased_prog_other her.2 _ _ (by omega))
    rwa [hrlen] at this
  · intro x hx1 hx2
    rw [byte_apply_program_of_not_mem _ _ _ _ (by omega), byte_apply_program_of_not_mem _ _ _ _ (by omega)]

/-- the contents functions after storing pivot `q` (updater with bit `q` of `used` set) -/
theorem pivot_write_vals {u : Upd} {f : Flash} (g : Geo u f.size) (hwf : WF f) {q : Nat} (hq : q < u.maxL)
    (hqu : u.used.testBit q = false)
    (her : Erased f (pAddr u q) (pAddr u q + u.bs) ∧ Erased f (rAddr u q) (rAddr u q + (q / 8 + 1)))
    (data rb : List Nat) (hb : IsBytes data) (hlen : data.length = u.bs) (hrb : IsBytes rb)
    (hrlen : rb.length = q / 8 + 1) :
    (∀ k, dsVal { u with used := u.used ||| 2 ^ q }
        ((f.apply (.program (pAddr u q) data)).apply (.program (rAddr u q) rb)) k = dsVal u f k) ∧
    (∀ m, psVal { u with used := u.used ||| 2 ^ q }
        ((f.apply (.program (pAddr u q) data)).apply (.program (rAddr u q) rb)) m =
      if m = q then bytesToNat data else psVal u f m) ∧
    (∀ m, msVal { u with used := u.used ||| 2 ^ q }
        ((f.apply (.program (pAddr u q) data)).apply (.program (rAddr u q) rb)) m =
      if m = q then bytesToNat (flipBit rb q) else msVal u f m) := by
  obtain ⟨_, _, hrp, hrr, hfr⟩ := pivot_write_effect g hwf hq her data rb hb hlen hrb hrlen
  generalize (f.apply (.program (pAddr u q) data)).apply (.program (rAddr u q) rb) = f' at *
  obtain ⟨h1, h2, h3, h4, h5, h6, h7⟩ := g.slots
  obtain ⟨r1, r2, r3, r4⟩ := g.regions.2 q hq
  have hused : ∀ m, m ≠ q → (u.used ||| 2 ^ q).testBit m = u.used.testBit m := by
    intro m hm
    rw [Gf2.testBit_or_two_pow]
    have : decide (q = m) = false := by simp; omega
    simp [this]
  refine ⟨fun k => ?_, fun m => ?_, fun m => ?_⟩
  · show dsVal u f' k = dsVal u f k
    by_cases hkn : k < u.n
    · obtain ⟨q1, q2, q3, q4⟩ := g.regions.1 k hkn
      apply dsVal_congr
      · exact hfr _ (by omega) (by omega)
      · intro x hx1 hx2; exact hfr x (by omega) (by omega)
    · simp [dsVal, hkn]
  · by_cases hmq : m = q
    · subst hmq
      simp only [psVal, hq, Gf2.testBit_or_two_pow, decide_true, Bool.or_true, and_self, ↓reduceIte]
      show bytesToNat (f'.read (pAddr u m) u.bs) = _
      rw [hrp]
    · rw [if_neg hmq]
      show (if m < u.maxL ∧ (u.used ||| 2 ^ q).testBit m = true then bytesToNat (f'.read (pAddr u m) u.bs) else 0) = _
      rw [hused m hmq]
      by_cases hm : m < u.maxL
      · obtain ⟨q1, q2, q3, q4⟩ := g.regions.2 m hm
        have hd := g.disjoint.2.1 m q hmq
        exact psVal_congr u f f' m (fun x hx1 hx2 => hfr x (by omega) (by omega))
      · simp [psVal, hm]
  · by_cases hmq : m = q
    · subst hmq
      simp only [msVal, hq, Gf2.testBit_or_two_pow, decide_true, Bool.or_true, and_self, ↓reduceIte]
      show bytesToNat (flipBit (f'.read (rAddr u m) (m / 8 + 1)) m) = _
      rw [hrr]
    · rw [if_neg hmq]
      show (if m < u.maxL ∧ (u.used ||| 2 ^ q).testBit m = true then
        bytesToNat (flipBit (f'.read (rAddr u m) (m / 8 + 1)) m) else 0) = _
      rw [hused m hmq]
      by_cases hm : m < u.maxL
      · obtain ⟨q1, q2, q3, q4⟩ := g.regions.2 m hm
        have hd := g.disjoint.2.2 m q hmq
        exact msVal_congr u f f' m (fun x hx1 hx2 => hfr x (by omega) (by omega))
      · simp [msVal, hm]

/-- the invariant after storing pivot `q < l` (fresh, row with bit `q` and nothing above) -/
theorem Lawful'.storePivot {E : Nat → Prop} {u : Upd} {d : Dev} (L : Lawful' E u d) {q : Nat} (hq : q < u.l)
    (hqu : u.used.testBit q = false) (row : Nat) (hrb : row.testBit q = true)
    (hra : ∀ j, q < j → row.testBit j = false) (data : List Nat) (hb : IsBytes data) (hlen : data.length = u.bs) :
    Lawful' E { u with used := u.used ||| 2 ^ q }
      ((d.prog (pAddr u q) data).prog (rAddr u q) (rowBytes q row)) := by
  have g := L.geo
  have hqm : q < u.maxL := Nat.lt_of_lt_of_le hq L.hl
  have her := L.herP q hqm hqu
  obtain ⟨hrbB, hrbL⟩ := rowBytes_spec q row
  obtain ⟨hwf', hsz, hrp, hrr, hfr⟩ := pivot_write_effect g L.wf hqm her data _ hb hlen hrbB hrbL
  obtain ⟨hds, hps, hms⟩ := pivot_write_vals g L.wf hqm hqu her data _ hb hlen hrbB hrbL
  have hflash : ((d.prog (pAddr u q) data).prog (rAddr u q) (rowBytes q row)).flash =
      (d.flash.apply (.program (pAddr u q) data)).apply (.program (rAddr u q) (rowBytes q row)) := rfl
  generalize (d.flash.apply (.program (pAddr u q) data)).apply (.program (rAddr u q) (rowBytes q row)) = f' at *
  obtain ⟨h1, h2, h3, h4, h5, h6, h7⟩ := g.slots
  obtain ⟨r1, r2, r3, r4⟩ := g.regions.2 q hqm
  have hused : ∀ m, m ≠ q → (u.used ||| 2 ^ q).testBit m = u.used.testBit m := by
    intro m hm
    rw [Gf2.testBit_or_two_pow]
    have : decide (q = m) = false := by simp; omega
    simp [this]
  have g' : Geo { u with used := u.used ||| 2 ^ q }
      ((d.prog (pAddr u q) data).prog (rAddr u q) (rowBytes q row)).flash.size := by
    rw [hflash, hsz]
    exact ⟨g.hbs, g.hn, g.hfit, g.hsz, g.hmaxL, g.hmo, g.hne, g.hfwin, g.hparin, g.hseg⟩
  refine { geo := g', good := (L.good.prog _ _).prog _ _, wf := by rw [hflash]; exact hwf', hl := L.hl,
           hl2 := L.hl2, hdone := L.hdone, hstat := ?_, herD := ?_, hech := ?_, herP := ?_ }
  · intro k hk
    have hkn := L.hdone k hk
    obtain ⟨q1, q2, q3, q4⟩ := g.regions.1 k hkn
    rw [hflash]
    show f'.byte (statAddr u k) = 0x33
    rw [hfr _ (by omega) (by omega)]
    exact L.hstat k hk
  · intro k hkn hk
    obtain ⟨e1, e2⟩ := L.herD k hkn hk
    obtain ⟨q1, q2, q3, q4⟩ := g.regions.1 k hkn
    rw [hflash]
    constructor
    · show Erased f' (segAddr u k) (segAddr u k + u.bs)
      exact erased_congr e1 (fun x hx1 hx2 => hfr x (by omega) (by omega))
    · show f'.byte (statAddr u k) = _
      rw [hfr _ (by omega) (by omega)]; exact e2
  · intro p hp
    rw [hflash]
    show p < u.l ∧ (msVal { u with used := u.used ||| 2 ^ q } f' p).testBit p = true ∧
      ∀ j, p < j → (msVal { u with used := u.used ||| 2 ^ q } f' p).testBit j = false
    rw [hms p]
    by_cases hpq : p = q
    · subst hpq
      rw [if_pos rfl, bytesToNat_rowBytes p row hra]
      exact ⟨hq, hrb, hra⟩
    · rw [if_neg hpq]
      have hp' : u.used.testBit p = true := by rw [← hused p hpq]; exact hp
      exact L.hech p hp'
  · intro m hm hu
    have hmq : m ≠ q := by
      intro e; subst e
      have : (u.used ||| 2 ^ m).testBit m = true := by simp
      rw [this] at hu; cases hu
    have hu' : u.used.testBit m = false := by rw [← hused m hmq]; exact hu
    obtain ⟨e1, e2⟩ := L.herP m hm hu'
    obtain ⟨q1, q2, q3, q4⟩ := g.regions.2 m hm
    have hd1 := g.disjoint.2.1 m q hmq
    have hd2 := g.disjoint.2.2 m q hmq
    rw [hflash]
    constructor
    · show Erased f' (pAddr u m) (pAddr u m + u.bs)
      exact erased_congr e1 (fun x hx1 hx2 => hfr x (by omega) (by omega))
    · show Erased f' (rAddr u m) (rAddr u m + (m / 8 + 1))
      exact erased_congr e2 (fun x hx1 hx2 => hfr x (by omega) (by omega))

end Fuota.Updater
