import Fuota.Lemmas.ReconLog
/-!
# The invariant of fault-free reconstructor runs (data correctness and log discipline)
-/
namespace Fuota.Recon
open Fuota.Gf2

/-! ## `isComplete` -/

/-- `isComplete` only looks at `l`, `n`, `done`, `used` -/
theorem isComplete_congr {s s' : St} (hl : s'.l = s.l) (hn : s'.n = s.n) (hd : s'.done = s.done)
    (hu : s'.used = s.used) : isComplete s' = isComplete s := by
  simp [isComplete, hl, hn, hd, hu]

/-- stage 1 is complete when every data block is present -/
theorem isComplete_stage1 (s : St) (h : s.l = 0) :
    isComplete s = true ↔ ∀ i, i < s.n → s.done.testBit i = true := by
  simp [isComplete, h]

/-- stage 2 is complete when every pivot below `l` is stored -/
theorem isComplete_stage2 (s : St) (h : s.l ≠ 0) :
    isComplete s = true ↔ ∀ i, i < s.l → s.used.testBit i = true := by
  simp [isComplete, h]

/-- an incomplete stage-1 session has at least one unknown block -/
theorem unknowns_length_ne_zero (s : St) (h : s.l = 0) (hc : isComplete s = false) :
    (unknowns s.done s.n).length ≠ 0 := by
  intro h0
  have hnil : unknowns s.done s.n = [] := List.eq_nil_of_length_eq_zero h0
  have : isComplete s = true := by
    rw [isComplete_stage1 s h]
    intro i hi
    have hm : i ∉ unknowns s.done s.n := by simp [hnil]
    rw [mem_unknowns] at hm
    cases hb : s.done.testBit i
    · exact absurd ⟨hi, hb⟩ hm
    · rfl
  simp [this] at hc

/-! ## the invariant -/

/-- the unknown blocks, indexed by rank -/
def yOf (x : Nat → Nat) (done n : Nat) : Nat → Nat := fun j => x (nth (unknowns done n) j)

/-- the part of the invariant that also holds between `handle_parity_block` and `finish` -/
structure Core (n bs vbits numRows : Nat) (x : Nat → Nat) (s : St) : Prop where
  hn : s.n = n
  hbs : s.bs = bs
  hds : ∀ m, s.done.testBit m = true → get s.ds m = x m
  hdn : ∀ m, s.done.testBit m = true → m < n
  hst2 : s.l ≠ 0 → s.l = (unknowns s.done s.n).length
  hcap : s.l ≤ vbits ∧ s.l ≤ numRows
  hech : Ech s.l s.used s.ms
  hps : ∀ p, s.used.testBit p = true → get s.ps p = combo (yOf x s.done s.n) (get s.ms p) s.l
  hlogD : ∀ m d, Call.dStore m d ∈ s.log → m < n ∧ d = x m
  hcntP : ∀ p, s.log.countP (isPStoreB p) = if s.used.testBit p then 1 else 0
  hcntM : ∀ p, s.log.countP (isMSetB p) = if s.used.testBit p then 1 else 0
  hlogM : ∀ m row, Call.mSet m row ∈ s.log → row.testBit m = true ∧ row < 2 ^ (m + 1) ∧ m < s.l
  hlogP : ∀ m d, Call.pStore m d ∈ s.log → m < s.l
  hlogOK : LogOK s.log

/-- the number of data-store calls per index: one for each block present (and, when `b`, for each block at all) -/
def DCnt (n : Nat) (s : St) (b : Bool) : Prop :=
  ∀ m, s.log.countP (isDStoreB m) = if (s.done.testBit m || (b && decide (m < n))) then 1 else 0

/-- the invariant between two `handle_block` calls -/
structure Inv (n bs vbits numRows : Nat) (x : Nat → Nat) (s : St) : Prop where
  core : Core n bs vbits numRows x s
  cntD : DCnt n s (s.l != 0 && isComplete s)
  full : isComplete s = true → ∀ m, m < n → get s.ds m = x m

variable {n bs vbits numRows : Nat} {x : Nat → Nat}

/-- reads of indices stored earlier keep the core invariant -/
theorem Core.pushReads {s : St} (h : Core n bs vbits numRows x s) (R : List Call)
    (hR : ∀ c ∈ R, isRead c = true ∧ CallOK c s.log) : Core n bs vbits numRows x (pushLog s R) := by
  have hR1 : ∀ c ∈ R, isRead c = true := fun c hc => (hR c hc).1
  exact {
    hn := h.hn, hbs := h.hbs, hds := h.hds, hdn := h.hdn, hst2 := h.hst2, hcap := h.hcap, hech := h.hech,
    hps := h.hps
    hlogD := fun m d hm => h.hlogD m d ((mem_reads_append hR1 rfl).1 hm)
    hcntP := fun p => by
      simp only [pushLog_log, List.countP_append, countP_reads _ (isPStoreB_read p) R hR1, Nat.zero_add]
      exact h.hcntP p
    hcntM := fun p => by
      simp only [pushLog_log, List.countP_append, countP_reads _ (isMSetB_read p) R hR1, Nat.zero_add]
      exact h.hcntM p
    hlogM := fun m row hm => h.hlogM m row ((mem_reads_append hR1 rfl).1 hm)
    hlogP := fun m d hm => h.hlogP m d ((mem_reads_append hR1 rfl).1 hm)
    hlogOK := LogOK_append_reads _ h.hlogOK R hR }

/-- reads do not change the data-store counts -/
theorem DCnt.pushReads {s : St} {b : Bool} (h : DCnt n s b) (R : List Call) (hR : ∀ c ∈ R, isRead c = true) :
    DCnt n (pushLog s R) b := by
  intro m
  simp only [pushLog_log, List.countP_append, countP_reads _ (isDStoreB_read m) R hR, Nat.zero_add]
  exact h m

/-- storing a correctly reduced row and block at a fresh pivot keeps the core invariant -/
theorem Core.store {s : St} (h : Core n bs vbits numRows x s) (q row' data' : Nat) (hq : q < s.l)
    (hu : s.used.testBit q = false) (hb : row'.testBit q = true) (ha : ∀ j, q < j → row'.testBit j = false)
    (hd : data' = combo (yOf x s.done s.n) row' s.l) :
    Core n bs vbits numRows x
      { pushLog s [.mSet q row', .pStore q data'] with
        ps := (q, data') :: s.ps, ms := (q, row') :: s.ms, used := s.used ||| 2 ^ q } := by
  refine { hn := h.hn, hbs := h.hbs, hds := h.hds, hdn := h.hdn, hst2 := h.hst2, hcap := h.hcap,
           hech := ?_, hps := ?_, hlogD := ?_, hcntP := ?_, hcntM := ?_, hlogM := ?_, hlogP := ?_, hlogOK := ?_ }
  · -- hech
    intro p hp
    simp only [testBit_or_two_pow] at hp
    simp only [pushLog_l, get_cons]
    by_cases hpq : p = q
    · subst hpq; simp only [↓reduceIte]; exact ⟨hq, hb, ha⟩
    · have hp' : s.used.testBit p = true := by
        have : decide (q = p) = false := by simp; omega
        simpa [this] using hp
      simp only [hpq, ↓reduceIte]; exact h.hech p hp'
  · -- hps
    intro p hp
    simp only [testBit_or_two_pow] at hp
    simp only [pushLog_l, pushLog_done, pushLog_n, get_cons]
    by_cases hpq : p = q
    · subst hpq; simp only [↓reduceIte]; exact hd
    · have hp' : s.used.testBit p = true := by
        have : decide (q = p) = false := by simp; omega
        simpa [this] using hp
      simp only [hpq, ↓reduceIte]; exact h.hps p hp'
  · -- hlogD
    intro m d hm
    simp only [pushLog_log, List.cons_append, List.nil_append, List.mem_cons, reduceCtorEq, false_or] at hm
    exact h.hlogD m d hm
  · -- hcntP
    intro p
    simp only [pushLog_log, List.cons_append, List.nil_append, testBit_or_two_pow]
    rw [List.countP_cons, List.countP_cons, h.hcntP p]
    by_cases hpq : q = p
    · subst hpq; simp [isPStoreB, hu]
    · have : (q == p) = false := by simp [hpq]
      simp [isPStoreB, hpq, this]
  · -- hcntM
    intro p
    simp only [pushLog_log, List.cons_append, List.nil_append, testBit_or_two_pow]
    rw [List.countP_cons, List.countP_cons, h.hcntM p]
    by_cases hpq : q = p
    · subst hpq; simp [isMSetB, hu]
    · have : (q == p) = false := by simp [hpq]
      simp [isMSetB, hpq, this]
  · -- hlogM
    intro m row hm
    simp only [pushLog_log, List.cons_append, List.nil_append, List.mem_cons, Call.mSet.injEq, reduceCtorEq,
      false_or] at hm
    rcases hm with ⟨rfl, rfl⟩ | hm
    · exact ⟨hb, Nat.lt_pow_two_of_testBit _ (fun i hi => ha i (by omega)), hq⟩
    · exact h.hlogM m row hm
  · -- hlogP
    intro m d hm
    simp only [pushLog_log, List.cons_append, List.nil_append, List.mem_cons, Call.pStore.injEq, reduceCtorEq,
      false_or] at hm
    rcases hm with ⟨rfl, rfl⟩ | hm
    · exact hq
    · exact h.hlogP m d hm
  · -- hlogOK
    exact ⟨⟨data', s.log, rfl⟩, trivial, h.hlogOK⟩

/-- a parity/matrix store does not change the data-store counts -/
theorem DCnt.store {s : St} {b : Bool} (h : DCnt n s b) (q row' data' : Nat) :
    DCnt n { pushLog s [.mSet q row', .pStore q data'] with
        ps := (q, data') :: s.ps, ms := (q, row') :: s.ms, used := s.used ||| 2 ^ q } b := by
  intro m
  simp only [pushLog_log, List.cons_append, List.nil_append, pushLog_done]
  rw [List.countP_cons, List.countP_cons]
  simpa [isDStoreB] using h m

/-- linearity over a list of pivots -/
theorem combo_xorAll (y : Nat → Nat) (l : Nat) (f g : Nat → Nat) (sel : List Nat)
    (h : ∀ p ∈ sel, g p = combo y (f p) l) : xorAll (sel.map g) = combo y (xorAll (sel.map f)) l := by
  induction sel with
  | nil => simp [xorAll]
  | cons p sel ih =>
    simp only [List.map_cons, xorAll, combo_xor]
    rw [h p List.mem_cons_self, ih (fun q hq => h q (List.mem_cons_of_mem _ hq))]

/-! ## finish -/

/-- `finish` changes only the data store, the log and the call counter -/
theorem foldl_finStep_frame (U : List Nat) (is : List Nat) : ∀ s : St,
    (is.foldl (finStep U) s).n = s.n ∧ (is.foldl (finStep U) s).bs = s.bs ∧ (is.foldl (finStep U) s).l = s.l ∧
    (is.foldl (finStep U) s).done = s.done ∧ (is.foldl (finStep U) s).used = s.used ∧
    (is.foldl (finStep U) s).ps = s.ps ∧ (is.foldl (finStep U) s).ms = s.ms := by
  induction is with
  | nil => intro s; simp
  | cons i is ih => intro s; simpa [finStep] using ih (finStep U s i)

/-- loop invariant of `finish`: the first `i` unknown blocks have been rebuilt and stored -/
structure FinInv (n bs vbits numRows : Nat) (x : Nat → Nat) (U : List Nat) (i : Nat) (s : St) : Prop where
  core : Core n bs vbits numRows x s
  hU : U = unknowns s.done s.n
  hl : s.l = U.length
  hall : ∀ p, p < s.l → s.used.testBit p = true
  hprev : ∀ j, j < i → get s.ds (nth U j) = x (nth U j)
  hcnt : ∀ m, s.log.countP (isDStoreB m) = if s.done.testBit m = true then 1 else if m ∈ U.take i then 1 else 0

/-- the prefix of length `i+1` has one more member, the `i`-th element -/
theorem mem_take_succ (U : List Nat) (i m : Nat) (hi : i < U.length) :
    m ∈ U.take (i + 1) ↔ m ∈ U.take i ∨ m = nth U i := by
  simp only [mem_take_iff_nth]
  constructor
  · rintro ⟨j, h1, h2, rfl⟩
    by_cases hji : j = i
    · subst hji; exact Or.inr rfl
    · exact Or.inl ⟨j, by omega, h2, rfl⟩
  · rintro (⟨j, h1, h2, rfl⟩ | rfl)
    · exact ⟨j, by omega, h2, rfl⟩
    · exact ⟨i, by omega, hi, rfl⟩

/-- in a duplicate-free list the `i`-th element is not in the prefix before it -/
theorem nth_not_mem_take (U : List Nat) (hnd : U.Nodup) (i : Nat) (hi : i < U.length) :
    nth U i ∉ U.take i := by
  intro hm
  obtain ⟨j, hj, hjU, hjm⟩ := (mem_take_iff_nth U i _).1 hm
  have := nth_inj U hnd j i hjU hi hjm
  omega

/-- one iteration of `finish` rebuilds the next unknown block correctly and keeps the loop invariant -/
theorem finStep_inv {U : List Nat} {i : Nat} {s : St} (h : FinInv n bs vbits numRows x U i s) (hi : i < s.l) :
    FinInv n bs vbits numRows x U (i + 1) (finStep U s i) := by
  have hC := h.core
  have hiU : i < U.length := by rw [← h.hl]; exact hi
  have hfU : nth U i ∈ U := nth_mem U i hiU
  have hfn : nth U i < n ∧ s.done.testBit (nth U i) = false := by
    have := hfU
    rw [h.hU, mem_unknowns] at this
    rw [h.hU]; exact ⟨hC.hn ▸ this.1, this.2⟩
  have hused := h.hall i hi
  obtain ⟨_, hbit, habove⟩ := hC.hech i hused
  have hy : yOf x s.done s.n = fun j => x (nth U j) := by rw [h.hU]; rfl
  have hout : finOut U s i = x (nth U i) := by
    unfold finOut
    rw [← combo_eq_comboL, combo_congr_fun _ (fun j => x (nth U j)) _ _ h.hprev, hC.hps i hused, hy,
      combo_trunc _ _ (i + 1) s.l (by omega) (fun j hj _ => habove j (by omega))]
    simp only [combo, hbit, ↓reduceIte]
    generalize combo (fun j => x (nth U j)) (get s.ms i) i = a
    generalize x (nth U i) = b
    rw [Nat.xor_comm a b, Nat.xor_assoc, Nat.xor_self, Nat.xor_zero]
  -- the reads of this iteration
  have hreads : ∀ c ∈ innerLog U (get s.ms i) (List.range i) ++ [Call.mRow i, Call.pGet i],
      isRead c = true ∧ CallOK c s.log := by
    intro c hc
    rcases List.mem_append.1 hc with hc | hc
    · simp only [innerLog, List.mem_reverse, List.mem_map, List.mem_filter, List.mem_range] at hc
      obtain ⟨j, ⟨hj, _⟩, rfl⟩ := hc
      refine ⟨rfl, ?_⟩
      apply exists_dStore_of_countP
      rw [h.hcnt]
      have : nth U j ∈ U.take i := (mem_take_iff_nth U i _).2 ⟨j, hj, by omega, rfl⟩
      rw [if_pos this]; split <;> omega
    · simp only [List.mem_cons, List.not_mem_nil, or_false] at hc
      rcases hc with rfl | rfl
      · exact ⟨rfl, exists_mSet_of_countP _ _ (by rw [hC.hcntM, hused]; simp)⟩
      · exact ⟨rfl, exists_pStore_of_countP _ _ (by rw [hC.hcntP, hused]; simp)⟩
  have hreads1 : ∀ c ∈ innerLog U (get s.ms i) (List.range i) ++ [Call.mRow i, Call.pGet i], isRead c = true :=
    fun c hc => (hreads c hc).1
  have hC1 := hC.pushReads _ hreads
  unfold finStep
  rw [hout]
  refine { core := ?_, hU := h.hU, hl := h.hl, hall := h.hall, hprev := ?_, hcnt := ?_ }
  · refine { hn := hC.hn, hbs := hC.hbs, hds := ?_, hdn := hC.hdn, hst2 := hC.hst2, hcap := hC.hcap,
             hech := hC.hech, hps := hC.hps, hlogD := ?_, hcntP := ?_, hcntM := ?_, hlogM := ?_, hlogP := ?_,
             hlogOK := ?_ }
    · intro m hm
      simp only [get_cons]
      by_cases hmf : m = nth U i
      · simp [hmf]
      · simp only [hmf, ↓reduceIte]; exact hC.hds m hm
    · intro m d hm
      simp only [pushLog_log, List.cons_append, List.mem_cons, Call.dStore.injEq] at hm
      rcases hm with ⟨rfl, rfl⟩ | hm
      · exact ⟨hfn.1, rfl⟩
      · exact hC1.hlogD m d hm
    · intro p
      simp only [pushLog_log, List.cons_append]
      rw [List.countP_cons_of_neg (by simp [isPStoreB])]
      exact hC1.hcntP p
    · intro p
      simp only [pushLog_log, List.cons_append]
      rw [List.countP_cons_of_neg (by simp [isMSetB])]
      exact hC1.hcntM p
    · intro m row hm
      simp only [pushLog_log, List.cons_append, List.mem_cons, reduceCtorEq, false_or] at hm
      exact hC1.hlogM m row hm
    · intro m d hm
      simp only [pushLog_log, List.cons_append, List.mem_cons, reduceCtorEq, false_or] at hm
      exact hC1.hlogP m d hm
    · exact ⟨trivial, hC1.hlogOK⟩
  · intro j hj
    simp only [get_cons]
    by_cases hjf : nth U j = nth U i
    · simp [hjf]
    · simp only [hjf, ↓reduceIte]
      have : j ≠ i := fun e => hjf (by rw [e])
      exact h.hprev j (by omega)
  · intro m
    simp only [pushLog_log, List.cons_append, pushLog_done]
    rw [List.countP_cons, List.countP_append, countP_reads _ (isDStoreB_read m) _ hreads1, Nat.zero_add, h.hcnt m]
    simp only [mem_take_succ U i m hiU]
    by_cases hmf : m = nth U i
    · subst hmf
      have hnt := nth_not_mem_take U (by rw [h.hU]; exact nodup_unknowns _ _) i hiU
      simp [isDStoreB, hfn.2, hnt]
    · have : (nth U i == m) = false := by simp; exact fun e => hmf e.symm
      simp [isDStoreB, this, hmf]

/-- `k` iterations of `finish` advance the loop invariant by `k` -/
theorem foldl_finStep_inv {U : List Nat} : ∀ (k i : Nat) (s : St), FinInv n bs vbits numRows x U i s →
    i + k ≤ s.l → FinInv n bs vbits numRows x U (i + k) ((List.range' i k).foldl (finStep U) s) := by
  intro k
  induction k with
  | zero => intro i s h _; simpa using h
  | succ k ih =>
    intro i s h hik
    rw [List.range'_succ, List.foldl_cons]
    have h1 := finStep_inv h (by omega)
    have := ih (i + 1) (finStep U s i) h1 (by simp [finStep]; omega)
    rwa [show i + 1 + k = i + (k + 1) by omega] at this

/-- `handle_parity_block` is followed by `finish` exactly when the session became complete -/
def finishIf (s : St) : St × Res :=
  if isComplete s then ((List.range s.l).foldl (finStep (unknowns s.done s.n)) s, .done (s.n * s.bs))
  else (s, .needMore)

/-- after `handle_parity_block` (and `finish` if it applies) the full invariant holds again and the result is
    `NeedMore` or a correct `Done` -/
theorem finishIf_inv {s : St} (hC : Core n bs vbits numRows x s) (hD : DCnt n s false) (hl0 : s.l ≠ 0) :
    Inv n bs vbits numRows x (finishIf s).1 ∧
      ((finishIf s).2 = .needMore ∨ ((finishIf s).2 = .done (n * bs) ∧ isComplete (finishIf s).1 = true)) := by
  unfold finishIf
  by_cases hc : isComplete s = true
  · simp only [hc, ↓reduceIte]
    have hF0 : FinInv n bs vbits numRows x (unknowns s.done s.n) 0 s := {
      core := hC, hU := rfl, hl := hC.hst2 hl0, hall := (isComplete_stage2 s hl0).1 hc,
      hprev := fun j hj => by omega,
      hcnt := fun m => by rw [hD m]; cases s.done.testBit m <;> simp }
    have hF := foldl_finStep_inv s.l 0 s hF0 (by omega)
    rw [← List.range_eq_range', Nat.zero_add] at hF
    obtain ⟨e1, e2, e3, e4, e5, _, _⟩ := foldl_finStep_frame (unknowns s.done s.n) (List.range s.l) s
    generalize (List.range s.l).foldl (finStep (unknowns s.done s.n)) s = s' at *
    have hc' : isComplete s' = true := by rw [isComplete_congr e3 e1 e4 e5]; exact hc
    have hlU : s.l = (unknowns s.done s.n).length := hC.hst2 hl0
    have hmemU : ∀ m, m < n → s'.done.testBit m = false → m ∈ (unknowns s.done s.n).take s.l := by
      intro m hm hd
      rw [hlU, List.take_length, mem_unknowns, hC.hn, ← e4]
      exact ⟨hm, hd⟩
    refine ⟨{ core := hF.core, cntD := ?_, full := ?_ }, Or.inr ⟨by rw [hC.hn, hC.hbs], hc'⟩⟩
    · intro m
      rw [hF.hcnt m, hc', e3]
      by_cases hd : s'.done.testBit m = true
      · simp [hd]
      · have hd' : s'.done.testBit m = false := by simpa using hd
        by_cases hm : m < n
        · simp [hd', hm, hmemU m hm hd', hl0]
        · have : m ∉ (unknowns s.done s.n).take s.l := by
            intro hmem
            have := List.mem_of_mem_take hmem
            rw [mem_unknowns, hC.hn] at this
            exact hm this.1
          simp [hd', hm, this]
    · intro _ m hm
      by_cases hd : s'.done.testBit m = true
      · exact hF.core.hds m hd
      · have hd' : s'.done.testBit m = false := by simpa using hd
        have hmem := hmemU m hm hd'
        obtain ⟨j, hj, _, hg⟩ := (mem_take_iff_nth _ _ _).1 hmem
        have := hF.hprev j (by omega)
        rwa [hg] at this
  · have hc' : isComplete s = false := by simpa using hc
    simp only [hc', Bool.false_eq_true, ↓reduceIte]
    refine ⟨{ core := hC, cntD := ?_, full := fun h => by simp [hc'] at h }, Or.inl trivial⟩
    simpa [hc'] using hD

end Fuota.Recon
