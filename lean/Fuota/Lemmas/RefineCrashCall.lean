import Fuota.Lemmas.RefineCrashPivot
/-!
# One `handle_block` call on a lawful state, classified by the programs it makes outside `finish`
-/
namespace Fuota.Updater
open Fuota.Nor Fuota.Fs Fuota.FlashAdapters Fuota.Recon Fuota.Layout Fuota.Gf2

/-- the capacity test that makes `handle_block` answer `TooManyMissing` -/
def tooManyCond (u : Upd) (index : Nat) : Prop :=
  u.n ≤ index ∧ u.l = 0 ∧ (VBITS < (unknowns u.done u.n).length ∨ u.maxL < (unknowns u.done u.n).length)

/-- a stage-2 state with an unused pivot below `l` is incomplete -/
theorem rcComplete_stage2_false {u : Upd} (hl0 : u.l ≠ 0) {p : Nat} (hp : p < u.l) (hup : u.used.testBit p = false) :
    rcComplete u = false := by
  cases hc : rcComplete u with
  | false => rfl
  | true =>
    simp [rcComplete, hl0] at hc
    have := hc p hp
    rw [hup] at this
    cases this

/-- `handle_block` of an incomplete session that is not refused and is (after the stage adjustment) in stage 2 is
    stage 2 on the adjusted updater — on any device -/
theorem handleBlock_stage2_eq (ffr : Bool) (w : Upd) (e : Dev) (index : Nat) (bytes : List Nat)
    (hlen : bytes.length = w.bs) (hinc : rcComplete w = false) (hnt : ¬ tooManyCond w index)
    (hl : (adjU w index).l ≠ 0) :
    (handleBlock ffr index bytes).run (w, e) = (stage2U ffr (adjU w index) index bytes).run (adjU w index, e) := by
  have hnt' : ¬ (w.n ≤ index ∧ w.l = 0 ∧
      (VBITS < (unknowns w.done w.n).length ∨ w.maxL < (unknowns w.done w.n).length)) := hnt
  rw [handleBlock_eqU' ffr w e index bytes hlen, if_neg (by rw [hinc]; simp), if_neg hnt', if_neg hl]

/-- how one delivery on a lawful state uses the flash outside `finish`: not at all (`quiet`: it answers without error
on every powered device with the same flash, whatever injection is armed), by a stage-1 store, or by a stage-2 pivot
store on the stage-adjusted updater -/
inductive CallKind (ffr : Bool) (u : Upd) (d : Dev) (index : Nat) (bytes : List Nat) : Prop
  | quiet : (∃ res u', ∀ e : Dev, e.dead = false → e.flash = d.flash →
      (handleBlock ffr index bytes).run (u, e) = (.ok res, (u', e))) → CallKind ffr u d index bytes
  | store1 : Stage1Store u d index bytes → CallKind ffr u d index bytes
  | store2 (r p row' : Nat) (data' : List Nat) : rcComplete u = false → ¬ tooManyCond u index →
      (adjU u index).l ≠ 0 → Stage2Store ffr (adjU u index) d index bytes r p row' data' →
      CallKind ffr u d index bytes

/-- the stage-adjusted updater of a lawful incomplete state that is not refused: still the same geometry; in stage
    2 it satisfies the stage-2 invariant and is incomplete -/
theorem adjU_stage2 {u : Upd} {d : Dev} (L : Lawful u d) (hinc : rcComplete u = false) (index : Nat)
    (hnt : ¬ tooManyCond u index) (hl : (adjU u index).l ≠ 0) :
    Lawful' (fun i => (adjU u index).done.testBit i = false) (adjU u index) d ∧ rcComplete (adjU u index) = false := by
  by_cases hpar : u.n ≤ index ∧ u.l = 0
  · have hadj : adjU u index = { u with l := (unknowns u.done u.n).length } := by unfold adjU; rw [if_pos hpar]
    rw [hadj] at hl ⊢
    have hcap : ¬ (VBITS < (unknowns u.done u.n).length ∨ u.maxL < (unknowns u.done u.n).length) :=
      fun h => hnt ⟨hpar.1, hpar.2, h⟩
    have hnoused : ∀ p, u.used.testBit p = true → False := fun p hp => by
      have := (L.base.hech p hp).1; omega
    refine ⟨{
        geo := ⟨L.base.geo.hbs, L.base.geo.hn, L.base.geo.hfit, L.base.geo.hsz, L.base.geo.hmaxL, L.base.geo.hmo,
          L.base.geo.hne, L.base.geo.hfwin, L.base.geo.hparin, L.base.geo.hseg⟩
        good := L.base.good, wf := L.base.wf
        hl := by show (unknowns u.done u.n).length ≤ u.maxL; omega
        hl2 := fun _ => rfl
        hdone := L.base.hdone, hstat := L.base.hstat
        herD := fun i hi he => L.base.herD i hi ⟨hinc, he⟩
        hech := fun p hp => (hnoused p hp).elim
        herP := L.base.herP }, ?_⟩
    apply rcComplete_stage2_false hl (p := 0) (Nat.pos_of_ne_zero hl)
    cases hb : u.used.testBit 0 with
    | false => rfl
    | true => exact (hnoused 0 hb).elim
  · have hadj : adjU u index = u := by unfold adjU; rw [if_neg hpar]
    rw [hadj] at hl ⊢
    exact ⟨L.base.mono (fun i hi => ⟨hinc, hi⟩), hinc⟩

/-- **every delivery on a lawful state is quiet, a stage-1 store or a stage-2 pivot store** -/
theorem classify (ffr : Bool) {u : Upd} {d : Dev} (L : Lawful u d) (index : Nat) (bytes : List Nat)
    (hb : IsBytes bytes) (hlen : bytes.length = u.bs) (hrow : (updaterRow ffr u.n index).isSome = true) :
    CallKind ffr u d index bytes := by
  by_cases hc : rcComplete u = true
  · exact .quiet ⟨some true, u, fun e _ _ => by rw [handleBlock_eqU' ffr u e index bytes hlen, if_pos hc]⟩
  have hinc : rcComplete u = false := by simpa using hc
  by_cases hnt : tooManyCond u index
  · refine .quiet ⟨none, u, fun e _ _ => ?_⟩
    have hnt' : u.n ≤ index ∧ u.l = 0 ∧
      (VBITS < (unknowns u.done u.n).length ∨ u.maxL < (unknowns u.done u.n).length) := hnt
    rw [handleBlock_eqU' ffr u e index bytes hlen, if_neg hc, if_pos hnt']
  have hnt' : ¬ (u.n ≤ index ∧ u.l = 0 ∧
      (VBITS < (unknowns u.done u.n).length ∨ u.maxL < (unknowns u.done u.n).length)) := hnt
  by_cases hl : (adjU u index).l = 0
  · -- stage 1
    have hpar : ¬ (u.n ≤ index ∧ u.l = 0) := by
      intro hpar
      have hadj : adjU u index = { u with l := (unknowns u.done u.n).length } := by unfold adjU; rw [if_pos hpar]
      rw [hadj] at hl
      have hcA : isComplete (abs (u, d)) = false := by rw [← rcComplete_eq]; exact hinc
      exact unknowns_length_ne_zero (abs (u, d)) hpar.2 hcA hl
    have hadj : adjU u index = u := by unfold adjU; rw [if_neg hpar]
    rw [hadj] at hl
    have hi : index < u.n := by
      have : ¬ u.n ≤ index := fun h => hpar ⟨h, hl⟩
      omega
    by_cases hd : u.done.testBit index = true
    · refine .quiet ⟨some (rcComplete u), u, fun e _ _ => ?_⟩
      rw [handleBlock_eqU' ffr u e index bytes hlen, if_neg hc, if_neg hnt', hadj, if_pos hl]
      unfold stage1U
      simp only [hd, ↓reduceIte, runU_pure]
    · exact .store1 ⟨L, hinc, hl, hi, by simpa using hd, hb, hlen⟩
  · -- stage 2
    obtain ⟨L1, hinc1⟩ := adjU_stage2 L hinc index hnt hl
    obtain ⟨r, hr⟩ := Option.isSome_iff_exists.1 hrow
    have hn1 : (adjU u index).n = u.n := by unfold adjU; split <;> rfl
    have hbs1 : (adjU u index).bs = u.bs := by unfold adjU; split <;> rfl
    have hr1 : updaterRow ffr (adjU u index).n index = some r := by rw [hn1]; exact hr
    have hlen1 : bytes.length = (adjU u index).bs := by rw [hbs1]; exact hlen
    cases hdec : elimF (adjU u index) d.flash (adjU u index).l (project (adjU u index).done (adjU u index).n r)
        (stripF (adjU u index) d.flash r (List.range (adjU u index).n) bytes) with
    | none =>
      refine .quiet ⟨some false, { adjU u index with used := (adjU u index).used }, fun e he hfe => ?_⟩
      have g := L1.geo
      have hwu : warm (adjU u index) = adjU u index := warm_of_some g.hseg
      have ge : Geo (adjU u index) e.flash.size := by rw [hfe]; exact g
      have hs := strip_run_live ge he L1.hdone r (List.range (adjU u index).n) bytes
      rw [handleBlock_stage2_eq ffr u e index bytes hlen hinc hnt hl,
        stage2U_run_of_strip ffr (by rw [hwu]; exact ge) he L1.hl index bytes r hr1 _ hs
          (by rw [length_stripF]; exact hlen1), hfe, hdec]
      exact stage2Tail_incomplete (u := adjU u index) (used' := (adjU u index).used) hinc1 _
    | some t =>
      obtain ⟨p, row', data'⟩ := t
      exact .store2 r p row' data' hinc hnt hl ⟨L1, hl, hb, hlen1, hr1, hdec⟩

end Fuota.Updater
