import Fuota.Lemmas.RefineWarm
import Fuota.Lemmas.RefineClean
/-!
# `handle_block` / `handle_segment` / whole sessions do not depend on the segment-size cache
-/
namespace Fuota.Updater
open Fuota.Nor Fuota.Fs Fuota.FlashAdapters Fuota.Recon Fuota.Layout

/-- same result, same device, and the updaters differ at most in the cache -/
def WarmRel {α : Type} (rc rw : Except MErr α × (Upd × Dev)) : Prop :=
  rc.1 = rw.1 ∧ rc.2.2 = rw.2.2 ∧ warm rc.2.1 = rw.2.1

/-- stage 2 with an empty cache behaves like stage 2 with a filled one -/
theorem stage2U_warm (ffr : Bool) {u : Upd} {d : Dev}
    (Lw : Lawful' (fun i => u.done.testBit i = false) (warm u) d) (hc : CacheOK u d) (hl0 : u.l ≠ 0)
    (index : Nat) (bytes : List Nat) (hb : IsBytes bytes) (hlen : bytes.length = u.bs) :
    WarmRel ((stage2U ffr u index bytes).run (u, d)) ((stage2U ffr (warm u) index bytes).run (warm u, d)) ∧
    CacheOK ((stage2U ffr u index bytes).run (u, d)).2.1 ((stage2U ffr u index bytes).run (u, d)).2.2 := by
  have hlU : u.l = (unknowns u.done u.n).length := Lw.hl2 hl0
  obtain ⟨h1, h2, h3, h4, h5, _⟩ := Lw.geo.slots
  unfold stage2U
  cases hrow : updaterRow ffr u.n index with
  | none =>
    have hrow' : updaterRow ffr (warm u).n index = none := hrow
    simp only [runU_bind, runU_throw]
    exact ⟨⟨rfl, rfl, rfl⟩, hc⟩
  | some r =>
    have hrow' : updaterRow ffr (warm u).n index = some r := hrow
    obtain ⟨out1, hrun1, hob1, hol1, _⟩ := strip_run Lw r (List.range u.n) bytes hb hlen
    have hrowbits : ∀ j, u.l ≤ j → (project u.done u.n r).testBit j = false := by
      intro j hj
      rw [Gf2.testBit_project]
      have : ¬ j < (unknowns u.done u.n).length := by omega
      simp [this]
    obtain ⟨used', d', s', hrunE, _, _, hL'⟩ := elim_sim Lw u.l (abs (warm u, d)) (project u.done u.n r) out1
      (sim_abs (warm u) d) (Nat.le_refl _) hrowbits hob1 hol1
    have hrunEc : (Updater.elim u u.l (project u.done u.n r) out1).run d = (.ok used', d') := by
      rw [← elim_warm u]; exact hrunE
    have hframe : ∀ x, u.fw.size * u.fw.idx ≤ x → x < u.fw.size * u.fw.idx + 12 →
        d'.flash.byte x = d.flash.byte x := by
      intro x hx1 hx2
      have := elim_frame u d (by have : 17408 < u.fw.size := h1; have : u.par.size = u.fw.size := h2; omega)
        u.l (project u.done u.n r) out1 x (by
          have e1 : 17408 < u.fw.size := h1
          have e2 : u.par.size = u.fw.size := h2
          have e5 : u.fw.idx * u.fw.size + u.fw.size ≤ u.par.idx * u.par.size ∨
              u.par.idx * u.par.size + u.fw.size ≤ u.fw.idx * u.fw.size := h5
          rw [Nat.mul_comm] at hx1 hx2
          omega)
      rw [hrunEc] at this
      exact this
    have hc' : CacheOK { u with used := used' } d' := hc.frame hframe
    simp only [runU_bind, runU_pure, runU_liftM, strip_warm Lw hc, hrun1, elim_warm, hrunEc, runU_setU]
    by_cases hcomp : rcComplete { u with used := used' } = true
    · have hcomp' : rcComplete { warm u with used := used' } = true := hcomp
      rw [if_pos hcomp, if_pos hcomp']
      have hall : ∀ p, p < u.l → used'.testBit p = true := by
        intro p hp
        have hcA : isComplete (abs ({ u with used := used' }, d')) = true := by
          rw [← rcComplete_eq]; exact hcomp
        exact (isComplete_stage2 _ (show (abs ({ u with used := used' }, d')).l ≠ 0 from hl0)).1 hcA p hp
      have hF0 : FinL (warm { u with used := used' }) d' (unknowns u.done u.n) 0 :=
        ⟨hL'.mono (fun k hk => hk.1), fun j hj => by omega⟩
      obtain ⟨l', hl'⟩ : ∃ l', u.l = l' + 1 := ⟨u.l - 1, by omega⟩
      have hw := finishOuter_warm (u := { u with used := used' }) hlU l' 0 d' hF0 hc' (by show 0 + (l' + 1) ≤ u.l; omega)
      rw [← hl', ← List.range_eq_range'] at hw
      obtain ⟨d'', hrunF, _, _⟩ := finishOuter_sim (u := warm { u with used := used' }) hlU hall u.l 0
        (abs (warm { u with used := used' }, d')) d' hF0 (sim_abs _ _) (by simp)
      rw [← List.range_eq_range'] at hrunF
      rw [hrunF] at hw
      simp only [runU_bind, runU_liftM, hw, hrunF, runU_setU, runU_pure]
      exact ⟨⟨rfl, rfl, rfl⟩, Or.inl rfl⟩
    · have hcomp0 : rcComplete { u with used := used' } = false := by simpa using hcomp
      have hcomp' : rcComplete { warm u with used := used' } = false := hcomp0
      rw [if_neg hcomp, if_neg (by rw [hcomp']; simp)]
      exact ⟨⟨rfl, rfl, rfl⟩, hc'⟩

/-- stage 1 with an empty cache behaves like stage 1 with a filled one -/
theorem stage1U_warm {u : Upd} {d : Dev} (Lw : Lawful (warm u) d) (hc : CacheOK u d) (index : Nat)
    (hi : index < u.n) (bytes : List Nat) (hlen : bytes.length = u.bs) :
    WarmRel ((stage1U u index bytes).run (u, d)) ((stage1U (warm u) index bytes).run (warm u, d)) ∧
    CacheOK ((stage1U u index bytes).run (u, d)).2.1 ((stage1U u index bytes).run (u, d)).2.2 := by
  obtain ⟨h1, h2, h3, _⟩ := Lw.base.geo.slots
  have hin : u.fw.size * u.fw.idx + 12 ≤ d.flash.size := by
    rw [Nat.mul_comm]
    have h1' : 17408 < u.fw.size := h1
    have h3' : u.fw.idx * u.fw.size + u.fw.size ≤ d.flash.size := h3
    omega
  have hbs : u.bs ≠ 0 := by have : 1 ≤ u.bs := Lw.base.geo.hbs.1; omega
  unfold stage1U
  by_cases hd : u.done.testBit index = true
  · have hd' : (warm u).done.testBit index = true := hd
    simp only [hd, ↓reduceIte, runU_pure]
    exact ⟨⟨rfl, rfl, rfl⟩, hc⟩
  · have hd0 : u.done.testBit index = false := by simpa using hd
    have hd' : (warm u).done.testBit index = false := hd0
    have hw := writeSegment_run (u := warm u) Lw.base.geo Lw.base.good hi bytes hlen
    simp only [hd0, Bool.false_eq_true, ↓reduceIte, runU_bind, runU_liftM,
      writeSegment_warm Lw.base.good hc hbs hin, hw, runU_setU, runU_pure]
    exact ⟨⟨rfl, rfl, rfl⟩, Or.inl rfl⟩

/-- the stage-2 entry adjustment of `handle_block` -/
def adjU (u : Upd) (index : Nat) : Upd :=
  if u.n ≤ index ∧ u.l = 0 then { u with l := (unknowns u.done u.n).length } else u

/-- `handleBlock_eqU` with the adjustment named -/
theorem handleBlock_eqU' (ffr : Bool) (u : Upd) (d : Dev) (index : Nat) (data : List Nat) (hlen : data.length = u.bs) :
    (handleBlock ffr index data).run (u, d) =
      if rcComplete u then (.ok (some true), (u, d)) else
      if u.n ≤ index ∧ u.l = 0 ∧ (VBITS < (unknowns u.done u.n).length ∨ u.maxL < (unknowns u.done u.n).length)
      then (.ok none, (u, d)) else
      if (adjU u index).l = 0 then (stage1U (adjU u index) index data).run (adjU u index, d)
      else (stage2U ffr (adjU u index) index data).run (adjU u index, d) :=
  handleBlock_eqU ffr u d index data hlen

/-- the adjustment commutes with filling the cache -/
theorem adjU_warm (u : Upd) (index : Nat) : adjU (warm u) index = warm (adjU u index) := by
  unfold adjU
  by_cases h : u.n ≤ index ∧ u.l = 0
  · rw [if_pos h, if_pos (show (warm u).n ≤ index ∧ (warm u).l = 0 from h)]
  · rw [if_neg h, if_neg (show ¬ ((warm u).n ≤ index ∧ (warm u).l = 0) from h)]

/-- **`handle_block` does not depend on the segment-size cache** -/
theorem handleBlock_warm (ffr : Bool) {u : Upd} {d : Dev} (Lw : Lawful (warm u) d) (hc : CacheOK u d)
    (index : Nat) (bytes : List Nat) (hb : IsBytes bytes) (hlen : bytes.length = u.bs) :
    WarmRel ((handleBlock ffr index bytes).run (u, d)) ((handleBlock ffr index bytes).run (warm u, d)) ∧
    CacheOK ((handleBlock ffr index bytes).run (u, d)).2.1 ((handleBlock ffr index bytes).run (u, d)).2.2 := by
  have hW : (handleBlock ffr index bytes).run (warm u, d) =
      if rcComplete u then (.ok (some true), (warm u, d)) else
      if u.n ≤ index ∧ u.l = 0 ∧ (VBITS < (unknowns u.done u.n).length ∨ u.maxL < (unknowns u.done u.n).length)
      then (.ok none, (warm u, d)) else
      if (adjU u index).l = 0 then (stage1U (warm (adjU u index)) index bytes).run (warm (adjU u index), d)
      else (stage2U ffr (warm (adjU u index)) index bytes).run (warm (adjU u index), d) := by
    rw [handleBlock_eqU' ffr (warm u) d index bytes hlen, adjU_warm]
    rfl
  rw [hW, handleBlock_eqU' ffr u d index bytes hlen]
  by_cases hcomp : rcComplete u = true
  · rw [if_pos hcomp, if_pos hcomp]
    exact ⟨⟨rfl, rfl, rfl⟩, hc⟩
  have hinc : rcComplete u = false := by simpa using hcomp
  rw [if_neg hcomp, if_neg hcomp]
  by_cases hr2 : u.n ≤ index ∧ u.l = 0 ∧
      (VBITS < (unknowns u.done u.n).length ∨ u.maxL < (unknowns u.done u.n).length)
  · rw [if_pos hr2, if_pos hr2]
    exact ⟨⟨rfl, rfl, rfl⟩, hc⟩
  rw [if_neg hr2, if_neg hr2]
  by_cases hpar : u.n ≤ index ∧ u.l = 0
  · have hadj : adjU u index = { u with l := (unknowns u.done u.n).length } := by unfold adjU; rw [if_pos hpar]
    have hcap : ¬ (VBITS < (unknowns u.done u.n).length ∨ u.maxL < (unknowns u.done u.n).length) :=
      fun h => hr2 ⟨hpar.1, hpar.2, h⟩
    have hne : (unknowns u.done u.n).length ≠ 0 := by
      have := unknowns_length_ne_zero (abs (u, d)) hpar.2 (by rw [← rcComplete_eq]; exact hinc)
      exact this
    rw [hadj, if_neg (show ¬ ({ u with l := (unknowns u.done u.n).length } : Upd).l = 0 from hne),
      if_neg (show ¬ ({ u with l := (unknowns u.done u.n).length } : Upd).l = 0 from hne)]
    have hnoused : ∀ p, u.used.testBit p = true → False := fun p hp => by
      have h0 : p < (warm u).l := (Lw.base.hech p hp).1
      have : (warm u).l = 0 := hpar.2
      omega
    have L1 : Lawful' (fun i => u.done.testBit i = false) (warm { u with l := (unknowns u.done u.n).length }) d := {
      geo := ⟨Lw.base.geo.hbs, Lw.base.geo.hn, Lw.base.geo.hfit, Lw.base.geo.hsz, Lw.base.geo.hmaxL,
        Lw.base.geo.hmo, Lw.base.geo.hne, Lw.base.geo.hfwin, Lw.base.geo.hparin, Lw.base.geo.hseg⟩
      good := Lw.base.good, wf := Lw.base.wf
      hl := by show (unknowns u.done u.n).length ≤ u.maxL; omega
      hl2 := fun _ => rfl
      hdone := Lw.base.hdone, hstat := Lw.base.hstat
      herD := fun i hi he => Lw.base.herD i hi ⟨hinc, he⟩
      hech := fun p hp => (hnoused p hp).elim
      herP := Lw.base.herP }
    exact stage2U_warm (u := { u with l := (unknowns u.done u.n).length }) ffr L1 hc hne index bytes hb hlen
  · have hadj : adjU u index = u := by unfold adjU; rw [if_neg hpar]
    rw [hadj]
    by_cases hl0 : u.l = 0
    · rw [if_pos hl0, if_pos hl0]
      have hi : index < u.n := by
        have : ¬ u.n ≤ index := fun h => hpar ⟨h, hl0⟩
        omega
      exact stage1U_warm Lw hc index hi bytes hlen
    · rw [if_neg hl0, if_neg hl0]
      exact stage2U_warm ffr (Lw.base.mono (fun i hi => ⟨hinc, hi⟩)) hc hl0 index bytes hb hlen

/-- **`handle_segment` does not depend on the segment-size cache** -/
theorem handleSegment_warm (ffr : Bool) {u : Upd} {d : Dev} (Lw : Lawful (warm u) d) (hc : CacheOK u d)
    (idx1 : Nat) (bytes : List Nat) (hb : IsBytes bytes) (hlen : bytes.length = u.bs) :
    WarmRel ((handleSegment ffr idx1 bytes).run (u, d)) ((handleSegment ffr idx1 bytes).run (warm u, d)) ∧
    CacheOK ((handleSegment ffr idx1 bytes).run (u, d)).2.1 ((handleSegment ffr idx1 bytes).run (u, d)).2.2 := by
  by_cases h : idx1 = 0
  · unfold handleSegment
    simp only [h, ↓reduceIte]
    exact ⟨⟨rfl, rfl, rfl⟩, hc⟩
  · obtain ⟨⟨w1, w2, w3⟩, w4⟩ := handleBlock_warm ffr Lw hc (idx1 - 1) bytes hb hlen
    rw [handleSegment_run ffr idx1 bytes h, handleSegment_run ffr idx1 bytes h]
    generalize (handleBlock ffr (idx1 - 1) bytes).run (u, d) = pc at w1 w2 w3 w4 ⊢
    generalize (handleBlock ffr (idx1 - 1) bytes).run (warm u, d) = pw at w1 w2 w3 ⊢
    obtain ⟨rc, uc, dc⟩ := pc
    obtain ⟨rw', uw, dw⟩ := pw
    simp only at w1 w2 w3 w4
    subst w1; subst w2; subst w3
    cases rc with
    | error e => exact ⟨⟨rfl, rfl, rfl⟩, w4⟩
    | ok o =>
      cases o with
      | none => exact ⟨⟨rfl, rfl, rfl⟩, w4⟩
      | some b =>
        cases b with
        | false => exact ⟨⟨rfl, rfl, rfl⟩, w4⟩
        | true => exact ⟨⟨rfl, rfl, rfl⟩, w4⟩

/-- **whole sessions do not depend on the segment-size cache**: same outcomes, same final device, final updaters
    equal up to the cache -/
theorem session_warm (ffr : Bool) (frag : Nat → List Nat) : ∀ (is : List Nat) (u : Upd) (d : Dev),
    Lawful (warm u) d → CacheOK u d → (∀ i, IsBytes (frag i) ∧ (frag i).length = u.bs) →
    (∀ i ∈ is, (updaterRow ffr u.n (i - 1)).isSome = true) →
    (session ffr frag is (u, d)).1 = (session ffr frag is (warm u, d)).1 ∧
    (session ffr frag is (u, d)).2.2 = (session ffr frag is (warm u, d)).2.2 ∧
    warm (session ffr frag is (u, d)).2.1 = (session ffr frag is (warm u, d)).2.1 := by
  intro is
  induction is with
  | nil => intro u d _ _ _ _; exact ⟨rfl, rfl, rfl⟩
  | cons idx1 is ih =>
    intro u d Lw hc hfrag hrows
    obtain ⟨hfb, hfl⟩ := hfrag (idx1 - 1)
    obtain ⟨⟨w1, w2, w3⟩, w4⟩ := handleSegment_warm ffr Lw hc idx1 (frag (idx1 - 1)) hfb hfl
    obtain ⟨hL', hS'⟩ := handleSegment_lawful ffr idx1 (frag (idx1 - 1)) Lw hfb hfl (hrows idx1 List.mem_cons_self)
    simp only [session]
    generalize (handleSegment ffr idx1 (frag (idx1 - 1))).run (u, d) = pc at w1 w2 w3 w4 ⊢
    generalize (handleSegment ffr idx1 (frag (idx1 - 1))).run (warm u, d) = pw at w1 w2 w3 hL' hS' ⊢
    obtain ⟨rc, uc, dc⟩ := pc
    obtain ⟨rw', uw, dw⟩ := pw
    simp only at w1 w2 w3 w4 hL' hS'
    subst w1; subst w2; subst w3
    obtain ⟨k1, k2, k3, k4, k5, k6⟩ := hS'
    have k3' : uc.n = u.n := k3
    have k4' : uc.bs = u.bs := k4
    obtain ⟨a1, a2, a3⟩ := ih uc dc hL' w4 (fun i => by rw [k4']; exact hfrag i)
      (fun i hi => by rw [k3']; exact hrows i (List.mem_cons_of_mem _ hi))
    exact ⟨by rw [a1], a2, a3⟩

end Fuota.Updater
