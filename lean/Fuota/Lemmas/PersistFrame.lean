import Fuota.Lemmas.FaultRetry
/-!
# Fault-free behaviour depends on the parity store only at used pivots

`Frame a b` (from `FaultRetry`): same scalars and bit sets, same data and matrix stores as maps, and parity stores that
agree at every used pivot. An *orphan* parity block (stored, but its matrix row and pivot bit never written, because
power was lost in between) is exactly a difference that `Frame` tolerates. All fault-free model functions respect
`Frame`: equal results, `Frame`-related final states.
-/
namespace Fuota.Fault
open Fuota.Recon

theorem Frame.refl (a : St) : Frame a a := Frame.of_eqv (Eqv.refl a)

theorem Frame.symm {a b : St} (h : Frame a b) : Frame b a := by
  obtain ⟨h1, h2, h3, h4, h5, h6, h7, h8⟩ := h
  exact ⟨h1.symm, h2.symm, h3.symm, h4.symm, h5.symm, fun k => (h6 k).symm, fun k => (h7 k).symm,
    fun k hk => (h8 k (by rw [← h5]; exact hk)).symm⟩

/-- results equal and states `Frame`-related -/
def PFrame {α : Type} (x y : St × α) : Prop := x.2 = y.2 ∧ Frame x.1 y.1

theorem PFrame.refl {α : Type} (x : St × α) : PFrame x x := ⟨rfl, Frame.refl _⟩
theorem PFrame.symm {α : Type} {x y : St × α} (h : PFrame x y) : PFrame y x := ⟨h.1.symm, h.2.symm⟩
theorem PFrame.trans {α : Type} {x y z : St × α} (h : PFrame x y) (g : PFrame y z) : PFrame x z :=
  ⟨h.1.trans g.1, h.2.trans g.2⟩
theorem PFrame.of_peqv {α : Type} {x y : St × α} (h : PEqv x y) : PFrame x y := ⟨h.1, Frame.of_eqv h.2⟩

/-! ## elim, handleParity -/

theorem elim_fcongr :
    ∀ (n : Nat) (a b : St) (row data : Nat), Frame a b →
      PFrame (elim noFault n a row data) (elim noFault n b row data) := by
  intro n
  induction n with
  | zero => intro a b row data h; exact ⟨rfl, h⟩
  | succ wh ih =>
    intro a b row data h
    obtain ⟨h1, h2, h3, h4, h5, h6, h7, h8⟩ := h
    by_cases hr : row.testBit wh = true
    · by_cases hu : b.used.testBit wh = true
      · have hu' : a.used.testBit wh = true := by rw [h5]; exact hu
        rw [elim_succ_used data hr hu', elim_succ_used data hr hu, h7 wh, h8 wh hu]
        apply ih
        exact ⟨h1, h2, h3, h4, h5, h6, h7, h8⟩
      · have hu' : ¬ a.used.testBit wh = true := by rw [h5]; exact hu
        rw [elim_succ_unused data hr hu', elim_succ_unused data hr hu]
        refine ⟨rfl, h1, h2, h3, h4, ?_, h6, ?_, ?_⟩
        · simp [h5]
        · intro k; simp [get_cons, h7]
        · intro k hk
          simp only [get_cons]
          by_cases hk' : k = wh
          · simp [hk']
          · simp only [hk', ↓reduceIte]
            apply h8
            simpa [Nat.testBit_or, Nat.testBit_two_pow, Ne.symm hk'] using hk
    · rw [elim_succ_skip noFault a data hr, elim_succ_skip noFault b data hr]
      apply ih
      exact ⟨h1, h2, h3, h4, h5, h6, h7, h8⟩

theorem handleParity_fcongr {a b : St} (row data : Nat) (h : Frame a b) :
    PFrame (handleParity noFault a row data) (handleParity noFault b row data) := by
  obtain ⟨a1, ha, hca⟩ := strip_noFault row (List.range a.n) a data
  obtain ⟨b1, hb, hcb⟩ := strip_noFault row (List.range b.n) b data
  have hab : Frame a1 b1 := (Frame.of_core hca).trans (h.trans (Frame.of_core hcb).symm)
  obtain ⟨h1, h2, h3, h4, h5, h6, h7, h8⟩ := h
  have hv : stripVal row a.done a.ds (List.range a.n) data = stripVal row b.done b.ds (List.range b.n) data := by
    rw [h1, h4]; exact stripVal_congr row b.done h6 _ _
  simp only [handleParity, ha, hb, hv]
  have hl : a1.l = b1.l := hab.2.2.1
  have hd : a1.done = b1.done := hab.2.2.2.1
  have hn : a1.n = b1.n := hab.1
  rw [hl, hd, hn]
  exact elim_fcongr _ _ _ _ _ hab

/-! ## finish -/

theorem finishInner_fcongr (U : List Nat) (r : Nat) :
    ∀ (js : List Nat) (a b : St) (out : Nat), Frame a b →
      PFrame (finishInner noFault U r js a out) (finishInner noFault U r js b out) := by
  intro js
  induction js with
  | nil => intro a b out h; exact ⟨rfl, h⟩
  | cons j js ih =>
    intro a b out h
    simp only [finishInner, call_noFault]
    split
    · split
      · exact ⟨rfl, h⟩
      · simp only [↓reduceIte, h.2.2.2.2.2.1]
        exact ih _ _ _ h
    · exact ih _ _ _ h

/-- `finish` reads the parity store only at the reduced indices it walks over; when all of them are used pivots
    (the session is complete) it respects `Frame` -/
theorem finishOuter_fcongr (U : List Nat) :
    ∀ (is : List Nat) (a b : St), Frame a b → (∀ i ∈ is, b.used.testBit i = true) →
      PFrame (finishOuter noFault U is a) (finishOuter noFault U is b) := by
  intro is
  induction is with
  | nil => intro a b h _; exact ⟨rfl, h⟩
  | cons i is ih =>
    intro a b h hused
    simp only [finishOuter, call_noFault, Bool.not_true, Bool.false_eq_true, ↓reduceIte]
    have hi := finishInner_fcongr U (get a.ms i) (List.range i)
      { a with log := Call.mRow i :: Call.pGet i :: a.log, calls := a.calls + 1 + 1 }
      { b with log := Call.mRow i :: Call.pGet i :: b.log, calls := b.calls + 1 + 1 } (get a.ps i) h
    rw [h.2.2.2.2.2.2.1 i, h.2.2.2.2.2.2.2 i (hused i (by simp))] at hi ⊢
    have hcb := finishInner_core noFault U (get b.ms i) (List.range i)
      { b with log := Call.mRow i :: Call.pGet i :: b.log, calls := b.calls + 1 + 1 } (get b.ps i)
    generalize finishInner noFault U _ _ { a with log := _, calls := _ } _ = x at hi ⊢
    generalize finishInner noFault U _ _ { b with log := _, calls := _ } _ = y at hi hcb ⊢
    obtain ⟨s3, out, o3⟩ := x
    obtain ⟨t3, out', o3'⟩ := y
    obtain ⟨he, hs⟩ := hi
    simp only [Prod.mk.injEq] at he
    obtain ⟨rfl, rfl⟩ := he
    have hub : t3.used = b.used := (core_eq hcb).2.2.2.2.1
    cases o3 with
    | ok =>
      simp only
      cases U[i]? with
      | none => exact ⟨rfl, hs⟩
      | some f =>
        simp only
        obtain ⟨h1, h2, h3, h4, h5, h6, h7, h8⟩ := hs
        apply ih
        · refine ⟨h1, h2, h3, h4, h5, ?_, h7, h8⟩
          intro k; simp [get_cons, h6]
        · intro j hj
          show t3.used.testBit j = true
          rw [hub]
          exact hused j (by simp [hj])
    | err e' => exact ⟨rfl, hs⟩
    | panic => exact ⟨rfl, hs⟩

theorem finish_fcongr {a b : St} (h : Frame a b) (hc : isComplete b = true) :
    PFrame (finish noFault a) (finish noFault b) := by
  unfold finish
  rw [h.1, h.2.2.1, h.2.2.2.1]
  apply finishOuter_fcongr _ _ _ _ h
  intro i hi
  by_cases hl : b.l = 0
  · rw [hl] at hi; simp at hi
  · simp [isComplete, hl] at hc
    exact hc i (by simpa using hi)

/-! ## handleBlock, runBlocks -/

theorem adj_fcongr {a b : St} (i : Nat) (h : Frame a b) : Frame (adj a i) (adj b i) := by
  obtain ⟨h1, h2, h3, h4, h5, h6, h7, h8⟩ := h
  unfold adj
  by_cases hb : b.n ≤ i ∧ b.l = 0
  · have ha : a.n ≤ i ∧ a.l = 0 := by rw [h1, h3]; exact hb
    simp only [ha, hb, and_self, ↓reduceIte]
    exact ⟨h1, h2, by simp [h1, h4], h4, h5, h6, h7, h8⟩
  · have ha : ¬ (a.n ≤ i ∧ a.l = 0) := by rw [h1, h3]; exact hb
    simp only [ha, hb, ↓reduceIte]
    exact ⟨h1, h2, h3, h4, h5, h6, h7, h8⟩

theorem stage1_fcongr {a b : St} (V : Variant) (i d : Nat) (h : Frame a b) :
    PFrame (stage1 V noFault a i d) (stage1 V noFault b i d) := by
  obtain ⟨h1, h2, h3, h4, h5, h6, h7, h8⟩ := h
  unfold PFrame
  simp only [stage1, call_noFault, Bool.not_true, Bool.false_eq_true, ↓reduceIte, h4]
  split
  · simpa [isComplete, Frame, h1, h2, h3, h4, h5, h6, h7] using h8
  · split <;> simpa [isComplete, Frame, get_cons, h1, h2, h3, h4, h5, h6, h7] using h8

theorem tail2_fcongr {r r' : St × Out} (h : PFrame r r') : PFrame (tail2 noFault r) (tail2 noFault r') := by
  obtain ⟨s1, o1⟩ := r
  obtain ⟨t1, o1'⟩ := r'
  obtain ⟨ho, hs⟩ := h
  simp only at ho hs
  subst ho
  cases o1 with
  | ok =>
    simp only [tail2]
    rw [hs.isComplete]
    split
    · rename_i hc
      have hf := finish_fcongr hs hc
      generalize finish noFault s1 = x at hf ⊢
      generalize finish noFault t1 = y at hf ⊢
      obtain ⟨s2, o2⟩ := x
      obtain ⟨t2, o2'⟩ := y
      obtain ⟨ho, hs2⟩ := hf
      simp only at ho hs2
      subst ho
      cases o2 with
      | ok => exact ⟨by simp [hs2.1, hs2.2.1], hs2⟩
      | err e => exact ⟨rfl, hs2⟩
      | panic => exact ⟨rfl, hs2⟩
    · exact ⟨rfl, hs⟩
  | err e => exact ⟨rfl, hs⟩
  | panic => exact ⟨rfl, hs⟩

/-- `handleBlock` (fault free) depends on the state only through `Frame` -/
theorem handleBlock_fcongr {a b : St} (V : Variant) (P : Nat → Nat) (vb nr i d len : Nat) (h : Frame a b) :
    PFrame (handleBlock V noFault P vb nr a i d len) (handleBlock V noFault P vb nr b i d len) := by
  rw [handleBlock_eq, handleBlock_eq]
  have hc := h.isComplete
  have hadj := adj_fcongr i h
  have hl : (adj a i).l = (adj b i).l := hadj.2.2.1
  obtain ⟨h1, h2, h3, h4, h5, h6, h7, h8⟩ := h
  rw [hc, h1, h2, h3, h4, hl]
  split
  · exact ⟨rfl, h1, h2, h3, h4, h5, h6, h7, h8⟩
  · split
    · exact ⟨rfl, h1, h2, h3, h4, h5, h6, h7, h8⟩
    · split
      · exact ⟨rfl, h1, h2, h3, h4, h5, h6, h7, h8⟩
      · split
        · exact stage1_fcongr V i d hadj
        · exact tail2_fcongr (handleParity_fcongr _ _ hadj)

/-- a whole fault-free run depends on the start state only through `Frame` -/
theorem runBlocks_fcongr (V : Variant) (P : Nat → Nat) (vb nr : Nat) (blk : Nat → Nat) :
    ∀ (js : List Nat) (a b : St), Frame a b →
      PFrame (runBlocks V noFault P vb nr blk a js) (runBlocks V noFault P vb nr blk b js) := by
  intro js
  induction js with
  | nil => intro a b h; exact ⟨rfl, h⟩
  | cons j js ih =>
    intro a b h
    obtain ⟨hr, hs⟩ := handleBlock_fcongr V P vb nr j (blk j) a.bs h
    obtain ⟨ihr, ihs⟩ := ih _ _ hs
    simp only [runBlocks, ← h.2.1]
    exact ⟨by rw [hr, ihr], ihs⟩

/-- a whole fault-free run depends on the start state only through `Eqv` -/
theorem runBlocks_congr_eqv (V : Variant) (P : Nat → Nat) (vb nr : Nat) (blk : Nat → Nat) :
    ∀ (js : List Nat) (a b : St), Eqv a b →
      PEqv (runBlocks V noFault P vb nr blk a js) (runBlocks V noFault P vb nr blk b js) := by
  intro js
  induction js with
  | nil => intro a b h; exact ⟨rfl, h⟩
  | cons j js ih =>
    intro a b h
    obtain ⟨hr, hs⟩ := handleBlock_congr V P vb nr j (blk j) a.bs h
    obtain ⟨ihr, ihs⟩ := ih _ _ hs
    simp only [runBlocks, ← h.2.1]
    exact ⟨by rw [hr, ihr], ihs⟩

end Fuota.Fault
